(** C03 core: an allowed call never has a target inside a committed version directory, and
    the only entries of an object root it touches are inventory.json, the sidecar, declarations
    and the version directory that does not exist yet.  Purge touches no OTHER object.  A
    refused commit of a new object stays inside the staging area. *)
From Coq Require Import List Arith PeanoNat NArith Ascii Bool Lia.
From Rocfl Require Import Base.Bytes Model.FsOps Generated.Consts Model.Footprint
  Proofs.FootprintFacts Proofs.FootprintPaths Proofs.FootprintGuard.
Import ListNotations.
Open Scope N_scope.

(** * the staging part of [allowed] stays in the staging area *)

Definition stage_target (c : cfg) (f : fsop) (p : fpath) : Prop :=
  under (c_stg c) p = true \/ (f = Mkdir p /\ under p (c_stg c) = true).

Lemma infra_targets : forall c f p, stage_infra c f = true -> In p (targets f) -> stage_target c f p.
Proof.
  intros c f p H Hin. unfold stage_infra in H.
  destruct f as [q|q|q|a d|q|q|k q]; try discriminate; cbn in Hin; destruct Hin as [E|[]]; subst q.
  - apply orb_true_iff in H as [H|H].
    + right. split; [reflexivity | exact H].
    + left. apply mem_path_In in H. cbn in H.
      destruct H as [H|[H|[H|[]]]]; subst p; unfold locks_dir; rewrite <- ?app_assoc; apply under_app.
  - left. apply mem_path_In in H. cbn in H.
    destruct H as [H|[H|[H|[H|[H|[]]]]]]; subst p; rewrite <- ?app_assoc; apply under_app.
Qed.

Lemma lock_targets : forall c o f p, hex_ok (o_hex o) = true -> stage_lock c o f = true -> In p (targets f) -> stage_target c f p.
Proof.
  intros c o f p HX H Hin. unfold stage_lock in H.
  destruct f as [q|q|q|a d|q|q|k q]; try discriminate; cbn in Hin; destruct Hin as [E|[]]; subst q;
    apply fpath_eqb_eq in H; subst p; left; apply below_under; apply lockf_below; exact HX.
Qed.

Lemma anc_targets : forall c o f p, stage_anc c o f = true -> In p (targets f) -> stage_target c f p.
Proof.
  intros c o f p H Hin. unfold stage_anc in H.
  destruct f as [q|q|q|a d|q|q|k q]; try discriminate; cbn in Hin; destruct Hin as [E|[]]; subst q;
    apply andb_true_iff in H as [H _]; left; apply below_under; exact H.
Qed.

Lemma body_targets : forall c o f p, hex_ok (o_hex o) = true -> stage_body c o f = true -> In p (targets f) ->
  below (S_o c o) p = true /\ stage_target c f p.
Proof.
  intros c o f p HX H Hin. pose proof (below_under _ _ (S_o_below c o HX)) as SU.
  assert (G : below (S_o c o) p = true -> below (S_o c o) p = true /\ stage_target c f p).
  { intro B. split; [exact B|]. left. eapply under_trans; [exact SU | apply below_under; exact B]. }
  unfold stage_body in H.
  destruct f as [q|q|q|a d|q|q|k q]; cbn in Hin.
  1-3,5,6: destruct Hin as [E|[]]; subst q; apply G; exact H.
  - apply andb_true_iff in H as [H1 H2]. destruct Hin as [E|[E|[]]]; subst p; apply G; assumption.
  - apply andb_true_iff in H as [_ H]. destruct Hin as [E|[]]; subst q. apply G. exact H.
Qed.

(** * separation lemmas *)

Lemma stage_target_not_obj : forall c s f p m,
  stg_separate c s -> In m (p_objs s) -> stage_target c f p -> under (m_root m) p = false.
Proof.
  intros c s f p m SP Hin T. destruct (SP m Hin) as [X Y].
  destruct (under (m_root m) p) eqn:U; [|reflexivity]. destruct T as [T|[_ T]].
  - destruct (under_comparable _ _ _ U T); congruence.
  - pose proof (under_trans _ _ _ U T). congruence.
Qed.

Lemma src_not_obj : forall c s src p m,
  objs_in_root c s -> In m (p_objs s) -> src_in_repo c src = false -> under src p = true -> under (m_root m) p = false.
Proof.
  intros c s src p m IR Hin SR U. pose proof (below_under _ _ (IR m Hin)) as RM.
  unfold src_in_repo in SR. apply orb_false_iff in SR as [SR _]. apply orb_false_iff in SR as [SR _].
  apply orb_false_iff in SR as [S1 S2].
  destruct (under (m_root m) p) eqn:UM; [|reflexivity].
  destruct (under_comparable _ _ _ UM U) as [X|X].
  - pose proof (under_trans _ _ _ RM X). congruence.
  - destruct (under_comparable _ _ _ RM X); congruence.
Qed.

(** * entries of an object root *)

Definition touch_ok (o : opd) (m : mobj) (p : fpath) : Prop :=
  below (m_root m) p = true -> exists sg, p = m_root m ++ [sg] /\ root_entry_ok o m sg = true.

Lemma touch_ok_outside : forall o m p, under (m_root m) p = false -> touch_ok o m p.
Proof. intros o m p H B. apply below_under in B. congruence. Qed.

Lemma below_self_snoc : forall (M : fpath) x, below (M ++ [x]) (M ++ [x]) = false.
Proof. intros. apply below_irrefl. Qed.

(** a child of the root of object m0 that lies below the root of object m: then m = m0 *)
Lemma child_of_root : forall s m m0 x,
  no_nest s -> In m (p_objs s) -> In m0 (p_objs s) -> below (m_root m) (m_root m0 ++ [x]) = true -> m = m0.
Proof.
  intros s m m0 x NN H H0 B. pose proof (below_under _ _ B) as U.
  destruct (under_snoc_inv _ _ _ U) as [E|U2].
  - rewrite E, below_irrefl in B. discriminate.
  - apply NN; assumption.
Qed.

Lemma commit_version_touch : forall c s o f m p,
  no_nest s -> stg_separate c s -> hex_ok (o_hex o) = true ->
  commit_version c s o f = true -> In m (p_objs s) -> In p (targets f) -> touch_ok o m p.
Proof.
  intros c s o f m p NN SP HX A Hin Hp.
  pose proof (below_under _ _ (S_o_below c o HX)) as SU.
  unfold commit_version in A. apply andb_true_iff in A as [_ A].
  destruct (mobj_at s (N_o c o)) as [m0|] eqn:M; [|discriminate].
  destruct (mobj_at_spec _ _ _ M) as [H0 Er].
  (* a child N/sg with an accepted name *)
  assert (CH : forall (ok : fseg -> bool),
             (forall sg, ok sg = true -> root_entry_ok o m0 sg = true) ->
             child_with (N_o c o) p ok = true -> touch_ok o m p).
  { intros ok OK H B. destruct (child_with_spec _ _ _ H) as [sg [Ep Hs]]. subst p. rewrite <- Er in B.
    pose proof (child_of_root _ _ _ _ NN Hin H0 B) as Em. subst m0. exists sg. rewrite Er. split; [reflexivity | apply OK; exact Hs]. }
  assert (OK1 : forall sg, seg_eqb sg K_INVENTORY_FILE || is_sidecar sg = true -> root_entry_ok o m0 sg = true).
  { intros sg H. unfold root_entry_ok. apply orb_true_iff in H as [H|H]; rewrite H; rewrite ?orb_true_r; reflexivity. }
  assert (OK2 : forall sg, is_obj_decl sg = true -> root_entry_ok o m0 sg = true).
  { intros sg H. unfold root_entry_ok. rewrite H. rewrite ?orb_true_r. reflexivity. }
  destruct f as [q|q|q|a d|q|q|k q]; try discriminate; cbn in Hp.
  - destruct Hp as [E|[]]; subst q. destruct (o_kind o); try discriminate. eapply CH; [exact OK2 | exact A].
  - destruct Hp as [E|[]]; subst q. eapply CH; [exact OK1 | exact A].
  - apply andb_true_iff in A as [A B]. apply andb_true_iff in A as [NV VS].
    destruct (head_paths c o VS) as [ES EN].
    assert (TS : touch_ok o m (S_head c o)).
    { apply touch_ok_outside. eapply stage_target_not_obj with (f := Unlink []); [exact SP | exact Hin|].
      left. rewrite ES. apply under_app_r. exact SU. }
    assert (TN : touch_ok o m (N_head c o)).
    { intro B0. rewrite EN in B0 |- *. rewrite <- Er in B0.
      pose proof (child_of_root _ _ _ _ NN Hin H0 B0) as Em. subst m0. exists (o_head o). rewrite Er. split; [reflexivity|].
      unfold root_entry_ok. rewrite seg_eqb_refl, NV. rewrite ?orb_true_r. reflexivity. }
    apply orb_true_iff in B as [B|B]; apply andb_true_iff in B as [B1 B2]; apply fpath_eqb_eq in B1, B2; subst a d;
      destruct Hp as [E|[E|[]]]; subst p; assumption.
  - destruct Hp as [E|[]]; subst q. destruct (o_kind o); try discriminate. eapply CH; [exact OK2 | exact A].
  - destruct Hp as [E|[]]; subst q. apply andb_true_iff in A as [_ A]. eapply CH; [exact OK1 | exact A].
Qed.

Lemma commit_new_touch : forall c s o f m p,
  objs_in_root c s -> stg_separate c s -> hex_ok (o_hex o) = true ->
  commit_new c s o f = true -> In m (p_objs s) -> In p (targets f) -> under (m_root m) p = false.
Proof.
  intros c s o f m p IR SP HX A Hin Hp.
  pose proof (below_under _ _ (S_o_below c o HX)) as SU.
  unfold commit_new in A. apply andb_true_iff in A as [A B]. apply andb_true_iff in A as [_ NR].
  destruct (no_nesting_lemma c s (o_rel o) m IR NR Hin) as [X Y]. fold (N_o c o) in X, Y.
  destruct f as [q|q|q|a d|q|q|k q]; try discriminate; cbn in Hp.
  - destruct Hp as [E|[]]; subst q. apply andb_true_iff in B as [_ B].
    destruct (under (m_root m) p) eqn:U; [|reflexivity].
    pose proof (under_trans _ _ _ U (below_under _ _ B)). congruence.
  - apply andb_true_iff in B as [B1 B2]. apply fpath_eqb_eq in B1, B2. subst a d.
    destruct Hp as [E|[E|[]]]; subst p.
    + eapply stage_target_not_obj with (f := Unlink []); [exact SP | exact Hin | left; exact SU].
    + exact X.
Qed.

(** * the C03 core lemma *)
Lemma allowed_respects_objects : forall c s o f m p,
  env_ok c s -> hex_ok (o_hex o) = true -> (o_kind o = KMvExt -> o_csrcs o = o_srcs o) ->
  o_kind o <> KPurge -> (o_kind o = KInit -> p_objs s = []) ->
  allowed c s o f = true -> In m (p_objs s) -> In p (targets f) -> touch_ok o m p.
Proof.
  intros c s o f m p [CO IR NN SP SS VW] HX LX NP NI A Hin Hp.
  pose proof (allowed_runs_or_infra _ _ _ _ A) as RI. apply allowed_flat_of in A. unfold allowed_flat in A.
  repeat (apply orb_true_iff in A as [A|A]).
  - apply andb_true_iff in A as [_ A]. apply touch_ok_outside. eapply stage_target_not_obj; [exact SP | exact Hin|].
    eapply infra_targets; eassumption.
  - apply andb_true_iff in A as [_ A]. apply touch_ok_outside. eapply stage_target_not_obj; [exact SP | exact Hin|].
    eapply lock_targets; eassumption.
  - apply andb_true_iff in A as [_ A]. apply touch_ok_outside. eapply stage_target_not_obj; [exact SP | exact Hin|].
    eapply anc_targets; eassumption.
  - apply andb_true_iff in A as [A _]. apply andb_true_iff in A as [_ A]. apply touch_ok_outside.
    eapply stage_target_not_obj; [exact SP | exact Hin|]. eapply body_targets; eassumption.
  - destruct (o_kind o) eqn:K; try discriminate.
    assert (KC : existsb (src_in_repo c) (o_srcs o) = false).
    { destruct RI as [RI|RI].
      - unfold stage_infra, mv_sources in *. destruct f; discriminate.
      - unfold op_runs in RI. rewrite K in RI. apply negb_true_iff in RI. unfold mv_refused in RI. rewrite (LX eq_refl) in RI. exact RI. }
    apply touch_ok_outside. unfold mv_sources in A.
    destruct f as [q|q|q|a d|q|q|k q]; try discriminate; cbn in Hp.
    + apply andb_true_iff in A as [A1 A2]. destruct Hp as [E|[E|[]]]; subst p.
      * apply existsb_exists in A1 as [src [Hs U]].
        eapply src_not_obj; [exact IR | exact Hin | | exact U].
        destruct (src_in_repo c src) eqn:X; [|reflexivity].
        assert (existsb (src_in_repo c) (o_srcs o) = true) by (apply existsb_exists; exists src; split; assumption). congruence.
      * eapply stage_target_not_obj with (f := Unlink []); [exact SP | exact Hin | left].
        eapply under_trans; [apply below_under; apply (S_o_below c o HX) | apply below_under; exact A2].
    + destruct Hp as [E|[]]; subst q. apply existsb_exists in A as [src [Hs U]].
      eapply src_not_obj; [exact IR | exact Hin | | exact U].
      destruct (src_in_repo c src) eqn:X; [|reflexivity].
      assert (existsb (src_in_repo c) (o_srcs o) = true) by (apply existsb_exists; exists src; split; assumption). congruence.
    + destruct Hp as [E|[]]; subst q. apply existsb_exists in A as [src [Hs U]].
      eapply src_not_obj; [exact IR | exact Hin | | exact U].
      destruct (src_in_repo c src) eqn:X; [|reflexivity].
      assert (existsb (src_in_repo c) (o_srcs o) = true) by (apply existsb_exists; exists src; split; assumption). congruence.
  - destruct (o_kind o) eqn:K; try discriminate; apply orb_true_iff in A as [A|A];
      solve [ apply touch_ok_outside; eapply commit_new_touch; eassumption
            | eapply commit_version_touch; eassumption ].
  - destruct (o_kind o) eqn:K; try discriminate. contradiction.
  - destruct (o_kind o) eqn:K; try discriminate. rewrite (NI eq_refl) in Hin. destruct Hin.
  - destruct (o_kind o) eqn:K; try discriminate. unfold upgrade_repo_ops in A. intro B. exfalso.
    pose proof (IR m Hin) as BM. apply below_spec in BM as [x [r EM]]. apply below_spec in B as [y [t EB]].
    assert (L : exists sg, p = c_root c ++ [sg]).
    { destruct f as [q|q|q|a d|q|q|k q]; try discriminate; cbn in Hp; destruct Hp as [E|[]]; subst q;
        destruct (child_with_spec _ _ _ A) as [sg [Eq _]]; exists sg; exact Eq. }
    destruct L as [sg Ep]. rewrite Ep, EM in EB. apply (f_equal (@List.length _)) in EB.
    repeat rewrite app_length in EB. cbn [List.length] in EB. lia.
Qed.

(** hence: never inside a committed version directory *)
Lemma starts_with_head : forall c0 r v, starts_with (c0 :: r) v = true -> exists v', v = c0 :: v'.
Proof.
  intros c0 r [|d v] H; [discriminate|]. cbn in H. apply andb_true_iff in H as [H _]. apply Ascii.eqb_eq in H. subst. eexists. reflexivity.
Qed.

Lemma vstr_head : forall c0 v, is_vstr (c0 :: v) = true -> c0 = "v"%char.
Proof. intros c0 v H. cbn in H. apply andb_true_iff in H as [H _]. apply andb_true_iff in H as [H _]. apply Ascii.eqb_eq in H. exact H. Qed.

Lemma vstr_not_root_entry : forall o m v,
  is_vstr v = true -> In v (m_versions m) -> root_entry_ok o m v = false.
Proof.
  intros o m v VS Hin. unfold root_entry_ok.
  assert (A : seg_eqb v K_INVENTORY_FILE = false).
  { destruct (seg_eqb v K_INVENTORY_FILE) eqn:E; [|reflexivity]. apply seg_eqb_eq in E. subst v. vm_compute in VS. discriminate. }
  assert (B : is_sidecar v = false).
  { destruct (is_sidecar v) eqn:E; [|reflexivity]. unfold is_sidecar in E. apply andb_true_iff in E as [E _]. apply andb_true_iff in E as [E _].
    destruct (starts_with_head _ _ _ E) as [v' Ev]. subst v. apply vstr_head in VS. discriminate. }
  assert (C : is_obj_decl v = false).
  { destruct (is_obj_decl v) eqn:E; [|reflexivity]. unfold is_obj_decl in E. apply andb_true_iff in E as [E _].
    destruct (starts_with_head _ _ _ E) as [v' Ev]. subst v. apply vstr_head in VS. discriminate. }
  rewrite A, B, C. cbn. apply andb_false_iff. right. apply negb_false_iff. apply mem_seg_In. exact Hin.
Qed.

Lemma touch_ok_not_committed : forall s o p,
  versions_wf s -> (forall m, In m (p_objs s) -> touch_ok o m p) -> in_committed s p = false.
Proof.
  intros s o p VW T. destruct (in_committed s p) eqn:IC; [|reflexivity]. exfalso.
  unfold in_committed in IC. apply existsb_exists in IC as [m [Hin IC]]. apply existsb_exists in IC as [v [Hv U]].
  assert (B : below (m_root m) p = true) by (eapply below_under_trans; [apply (below_app (m_root m) v []) | exact U]).
  destruct (T m Hin B) as [sg [Ep OK]]. subst p. apply under_spec in U as [u EU].
  rewrite <- app_assoc in EU. apply app_inv_head in EU. cbn in EU. inversion EU; subst.
  rewrite (vstr_not_root_entry o m v (VW m v Hin Hv) Hv) in OK. discriminate.
Qed.

(** * purge touches no other object *)
Lemma purge_respects_others : forall c s o f m p,
  env_ok c s -> hex_ok (o_hex o) = true -> o_kind o = KPurge ->
  allowed c s o f = true -> In m (p_objs s) -> m_root m <> N_o c o -> In p (targets f) -> under (m_root m) p = false.
Proof.
  intros c s o f m p [CO IR NN SP SS VW] HX K A Hin NE Hp. apply allowed_flat_of in A. unfold allowed_flat in A. rewrite K in A. cbn [uses_staging takes_lock andb orb] in A.
  repeat (apply orb_true_iff in A as [A|A]); try discriminate.
  - eapply stage_target_not_obj; [exact SP | exact Hin|]. eapply infra_targets; eassumption.
  - eapply stage_target_not_obj; [exact SP | exact Hin|]. eapply anc_targets; eassumption.
  - apply andb_true_iff in A as [A _]. apply andb_true_iff in A as [_ A].
    eapply stage_target_not_obj; [exact SP | exact Hin|]. eapply body_targets; eassumption.
  - unfold purge_main in A. apply andb_true_iff in A as [V A]. fold (N_o c o) in *.
    (* M strictly above N is refused by the guard *)
    assert (G1 : below (m_root m) (N_o c o) = false).
    { destruct (below (m_root m) (N_o c o)) eqn:B; [|reflexivity].
      pose proof (validate_no_root_above _ _ _ _ V (IR m Hin) B) as X. rewrite (is_object_root_obj _ _ Hin) in X. discriminate. }
    (* M at or below N: if N is removed it is an object root of the main repository (hence M = N)
       or a directory without object roots beneath it *)
    assert (G2 : purge_removes s (o_exists o) (N_o c o) = true -> under (N_o c o) (m_root m) = false).
    { intro PR. destruct (under (N_o c o) (m_root m)) eqn:U; [|reflexivity]. exfalso.
      unfold purge_removes in PR. destruct (is_object_root s (N_o c o)) eqn:OR.
      - unfold is_object_root in OR. apply orb_true_iff in OR as [OR|OR].
        + apply existsb_exists in OR as [m' [H' E']]. apply fpath_eqb_eq in E'. rewrite <- E' in U.
          pose proof (NN _ _ H' Hin U). subst m'. congruence.
        + apply mem_path_In in OR. pose proof (SS _ OR) as X.
          destruct (guard_separates_staging c s (o_rel o) CO V) as [Y _]. fold (N_o c o) in Y. congruence.
      - apply negb_true_iff in PR. unfold any_root_below in PR. apply orb_false_iff in PR as [PR _].
        destruct (under_cases _ _ U) as [E|B]; [congruence|].
        assert (existsb (fun m0 => below (N_o c o) (m_root m0)) (p_objs s) = true)
          by (apply existsb_exists; exists m; split; assumption). congruence. }
    assert (G : under (N_o c o) p = true -> purge_removes s (o_exists o) (N_o c o) = true -> under (m_root m) p = false).
    { intros UN OR. destruct (under (m_root m) p) eqn:U; [|reflexivity]. exfalso.
      destruct (under_comparable _ _ _ U UN) as [X|X].
      - destruct (under_cases _ _ X) as [E|B]; [contradiction | congruence].
      - rewrite (G2 OR) in X. discriminate. }
    assert (G3 : below p (N_o c o) = true -> under (m_root m) p = false).
    { intro B. destruct (under (m_root m) p) eqn:U; [|reflexivity].
      pose proof (under_below_trans _ _ _ U B). congruence. }
    destruct f as [q|q|q|a d|q|q|k q]; try discriminate; cbn in Hp; destruct Hp as [E|[]]; subst q.
    + apply andb_true_iff in A as [OR B]. apply G; [apply below_under; exact B | exact OR].
    + apply orb_true_iff in A as [A|A].
      * apply andb_true_iff in A as [OR B]. apply G; assumption.
      * apply andb_true_iff in A as [_ B]. apply G3. exact B.
Qed.

(** * a refused commit of a new object stays inside the staging area *)
Lemma refused_commit_in_staging : forall c s o f p,
  hex_ok (o_hex o) = true -> (o_kind o = KCommit \/ o_kind o = KUpgrade) ->
  o_found o = false -> new_root_ok s (c_root c) (o_rel o) = false ->
  allowed c s o f = true -> In p (targets f) -> stage_target c f p.
Proof.
  intros c s o f p HX K NX NR A Hp. apply allowed_flat_of in A. unfold allowed_flat in A.
  repeat (apply orb_true_iff in A as [A|A]).
  - apply andb_true_iff in A as [_ A]. eapply infra_targets; eassumption.
  - apply andb_true_iff in A as [_ A]. eapply lock_targets; eassumption.
  - apply andb_true_iff in A as [_ A]. eapply anc_targets; eassumption.
  - apply andb_true_iff in A as [A _]. apply andb_true_iff in A as [_ A]. eapply body_targets; eassumption.
  - destruct K as [K|K]; rewrite K in A; discriminate.
  - unfold commit_new, commit_version in A. rewrite NX, NR in A. cbn in A. destruct K as [K|K]; rewrite K in A; discriminate.
  - destruct K as [K|K]; rewrite K in A; discriminate.
  - destruct K as [K|K]; rewrite K in A; discriminate.
  - destruct K as [K|K]; rewrite K in A; discriminate.
Qed.

(** * an id whose layout path is not a relative descendant of the storage root (fix 3fb070d):
    the object is never found there, a new one is never created there, nothing is purged there -
    every call stays in the staging area (or removes a named source of an external mv) *)
Lemma unmapped_id_in_staging : forall c s o f p,
  hex_ok (o_hex o) = true -> o_kind o <> KInit -> o_kind o <> KUpgradeRepo ->
  is_relative_descendant (o_rel o) = false ->
  allowed c s o f = true -> In p (targets f) ->
  stage_target c f p \/ (o_kind o = KMvExt /\ existsb (fun sr => under sr p) (o_srcs o) = true).
Proof.
  intros c s o f p HX NI NU RD A Hp. apply allowed_flat_of in A. unfold allowed_flat in A.
  repeat (apply orb_true_iff in A as [A|A]).
  - left. apply andb_true_iff in A as [_ A]. eapply infra_targets; eassumption.
  - left. apply andb_true_iff in A as [_ A]. eapply lock_targets; eassumption.
  - left. apply andb_true_iff in A as [_ A]. eapply anc_targets; eassumption.
  - left. apply andb_true_iff in A as [A _]. apply andb_true_iff in A as [_ A]. eapply body_targets; eassumption.
  - destruct (o_kind o) eqn:K; try discriminate. unfold mv_sources in A.
    destruct f as [q|q|q|a d|q|q|k q]; try discriminate; cbn in Hp.
    + apply andb_true_iff in A as [A1 A2]. destruct Hp as [E|[E|[]]]; subst p.
      * right. split; [reflexivity | exact A1].
      * left. left. eapply under_trans; [apply below_under; apply (S_o_below c o HX) | apply below_under; exact A2].
    + destruct Hp as [E|[]]; subst q. right. split; [reflexivity | exact A].
    + destruct Hp as [E|[]]; subst q. right. split; [reflexivity | exact A].
  - exfalso. destruct (o_kind o) eqn:K; try discriminate; apply orb_true_iff in A as [A|A].
    1,3: (unfold commit_new in A; apply andb_true_iff in A as [A _]; apply andb_true_iff in A as [_ NR];
          unfold new_root_ok in NR; apply andb_true_iff in NR as [V _]; unfold validate_object_root in V;
          apply andb_true_iff in V as [V _]; apply andb_true_iff in V as [V _];
          unfold is_relative_descendant in RD; congruence).
    all: (unfold commit_version in A; apply andb_true_iff in A as [A _]; unfold o_found in A;
          apply andb_true_iff in A as [_ A]; congruence).
  - exfalso. destruct (o_kind o) eqn:K; try discriminate. unfold purge_main in A. apply andb_true_iff in A as [V _].
    unfold validate_object_root in V. apply andb_true_iff in V as [V _]. apply andb_true_iff in V as [V _].
    unfold is_relative_descendant in RD. congruence.
  - destruct (o_kind o) eqn:K; try discriminate. contradiction.
  - destruct (o_kind o) eqn:K; try discriminate. contradiction.
Qed.
