(** Facts about the path algebra of Model/Footprint.v and about the path computations of
    rocfl transcribed there (C03, C12). *)
From Coq Require Import List Arith PeanoNat NArith Ascii Bool Lia.
From Rocfl Require Import Base.Bytes Model.FsOps Generated.Consts Model.Footprint.
Import ListNotations.
Open Scope N_scope.

(** * segments and prefixes *)

Lemma seg_eqb_refl : forall x, seg_eqb x x = true.
Proof. induction x as [|c x IH]; cbn; [reflexivity|]. rewrite Ascii.eqb_refl, IH. reflexivity. Qed.

Lemma seg_eqb_eq : forall x y, seg_eqb x y = true <-> x = y.
Proof.
  induction x as [|c x IH]; intros [|d y]; cbn; split; intro H; try reflexivity; try discriminate.
  - apply andb_true_iff in H as [H1 H2]. apply Ascii.eqb_eq in H1. apply IH in H2. subst. reflexivity.
  - inversion H; subst. rewrite Ascii.eqb_refl. cbn. apply IH. reflexivity.
Qed.

Lemma seg_eqb_neq : forall x y, seg_eqb x y = false <-> x <> y.
Proof.
  intros x y. split; intro H.
  - intro E. apply seg_eqb_eq in E. congruence.
  - destruct (seg_eqb x y) eqn:E; [|reflexivity]. apply seg_eqb_eq in E. contradiction.
Qed.

Lemma seg_eqb_sym : forall x y, seg_eqb x y = seg_eqb y x.
Proof.
  intros x y. destruct (seg_eqb x y) eqn:E.
  - apply seg_eqb_eq in E. subst. symmetry. apply seg_eqb_refl.
  - symmetry. apply seg_eqb_neq. apply seg_eqb_neq in E. congruence.
Qed.

Lemma under_spec : forall r p, under r p = true <-> exists s, p = r ++ s.
Proof.
  induction r as [|x r IH]; intros p; cbn.
  - split; [intros _; exists p; reflexivity | reflexivity].
  - destruct p as [|y p]; cbn.
    + split; [discriminate | intros [s H]; discriminate].
    + split.
      * intro H. apply andb_true_iff in H as [H1 H2]. apply seg_eqb_eq in H1. apply IH in H2 as [s Hs].
        subst. exists s. reflexivity.
      * intros [s H]. inversion H; subst. rewrite seg_eqb_refl. cbn. apply IH. exists s. reflexivity.
Qed.

Lemma under_app : forall r s, under r (r ++ s) = true.
Proof. intros. apply under_spec. exists s. reflexivity. Qed.

Lemma under_refl : forall r, under r r = true.
Proof. intros. apply under_spec. exists []. rewrite app_nil_r. reflexivity. Qed.

Lemma under_nil : forall p, under [] p = true.
Proof. reflexivity. Qed.

Lemma under_trans : forall a c p, under a c = true -> under c p = true -> under a p = true.
Proof.
  intros a c p H1 H2. apply under_spec in H1 as [s1 E1]. apply under_spec in H2 as [s2 E2].
  subst. rewrite <- app_assoc. apply under_app.
Qed.

Lemma under_app_r : forall a p s, under a p = true -> under a (p ++ s) = true.
Proof. intros a p s H. eapply under_trans; [exact H | apply under_app]. Qed.

Lemma under_length : forall r p, under r p = true -> (List.length r <= List.length p)%nat.
Proof. intros r p H. apply under_spec in H as [s E]. subst. rewrite app_length. lia. Qed.

Lemma under_antisym : forall a c, under a c = true -> under c a = true -> a = c.
Proof.
  intros a c H1 H2. pose proof (under_length _ _ H2) as L. apply under_spec in H1 as [s E]. subst.
  rewrite app_length in L. destruct s; [rewrite app_nil_r; reflexivity | cbn in L; lia].
Qed.

(** two prefixes of one path are comparable *)
Lemma app_eq_comparable : forall (a c s t : fpath), a ++ s = c ++ t -> (exists u, c = a ++ u) \/ (exists u, a = c ++ u).
Proof.
  induction a as [|x a IH]; intros c s t H.
  - left. exists c. reflexivity.
  - destruct c as [|y c].
    + right. exists (x :: a). reflexivity.
    + cbn in H. inversion H; subst. destruct (IH _ _ _ H2) as [[u E]|[u E]]; subst.
      * left. exists u. reflexivity.
      * right. exists u. reflexivity.
Qed.

Lemma under_comparable : forall a c p, under a p = true -> under c p = true -> under a c = true \/ under c a = true.
Proof.
  intros a c p H1 H2. apply under_spec in H1 as [s E1]. apply under_spec in H2 as [t E2]. subst.
  destruct (app_eq_comparable _ _ _ _ E2) as [[u E]|[u E]]; subst; [left | right]; apply under_app.
Qed.

Lemma below_spec : forall r p, below r p = true <-> exists sg s, p = r ++ sg :: s.
Proof.
  intros r p. unfold below. split.
  - intro H. apply andb_true_iff in H as [H1 H2]. apply under_spec in H1 as [s E]. subst.
    destruct s as [|sg s]; [|exists sg, s; reflexivity].
    rewrite app_nil_r, Nat.eqb_refl in H2. discriminate.
  - intros [sg [s E]]. subst. rewrite under_app. cbn. rewrite app_length. cbn.
    destruct (Nat.eqb (List.length r) (List.length r + S (List.length s))) eqn:E; [|reflexivity].
    apply Nat.eqb_eq in E. lia.
Qed.

Lemma below_under : forall r p, below r p = true -> under r p = true.
Proof. intros r p H. unfold below in H. apply andb_true_iff in H as [H _]. exact H. Qed.

Lemma below_app : forall r sg s, below r (r ++ sg :: s) = true.
Proof. intros. apply below_spec. exists sg, s. reflexivity. Qed.

Lemma below_irrefl : forall r, below r r = false.
Proof. intros r. unfold below. rewrite Nat.eqb_refl, andb_false_r. reflexivity. Qed.

Lemma under_below_trans : forall a c p, under a c = true -> below c p = true -> below a p = true.
Proof.
  intros a c p H1 H2. apply under_spec in H1 as [s E1]. apply below_spec in H2 as [sg [t E2]]. subst.
  apply below_spec. destruct s as [|x s].
  - exists sg, t. rewrite app_nil_r. reflexivity.
  - exists x, (s ++ sg :: t). rewrite <- app_assoc. reflexivity.
Qed.

Lemma below_under_trans : forall a c p, below a c = true -> under c p = true -> below a p = true.
Proof.
  intros a c p H1 H2. apply below_spec in H1 as [sg [s E1]]. apply under_spec in H2 as [t E2]. subst.
  apply below_spec. exists sg, (s ++ t). rewrite <- app_assoc. reflexivity.
Qed.

Lemma below_not_under_rev : forall a c, below a c = true -> under c a = false.
Proof.
  intros a c H. destruct (under c a) eqn:E; [|reflexivity].
  pose proof (under_antisym _ _ (below_under _ _ H) E). subst. rewrite below_irrefl in H. discriminate.
Qed.

Lemma under_cases : forall r p, under r p = true -> r = p \/ below r p = true.
Proof.
  intros r p H. apply under_spec in H as [s E]. subst. destruct s as [|sg s].
  - left. rewrite app_nil_r. reflexivity.
  - right. apply below_app.
Qed.

Lemma fpath_eqb_eq : forall a c, fpath_eqb a c = true <-> a = c.
Proof.
  intros a c. unfold fpath_eqb. split.
  - intro H. apply andb_true_iff in H as [H1 H2]. apply Nat.eqb_eq in H2. apply under_spec in H1 as [s E]. subst.
    rewrite app_length in H2. destruct s; [rewrite app_nil_r; reflexivity | cbn in H2; lia].
  - intro E. subst. rewrite under_refl, Nat.eqb_refl. reflexivity.
Qed.

Lemma fpath_eqb_refl : forall a, fpath_eqb a a = true.
Proof. intro a. apply fpath_eqb_eq. reflexivity. Qed.

Lemma mem_path_In : forall p l, mem_path p l = true <-> In p l.
Proof.
  intros p l. unfold mem_path. rewrite existsb_exists. split.
  - intros [x [Hin E]]. apply fpath_eqb_eq in E. subst. exact Hin.
  - intro Hin. exists p. split; [exact Hin | apply fpath_eqb_refl].
Qed.

Lemma mem_seg_In : forall sg l, mem_seg sg l = true <-> In sg l.
Proof.
  intros sg l. unfold mem_seg. rewrite existsb_exists. split.
  - intros [x [Hin E]]. apply seg_eqb_eq in E. subst. exact Hin.
  - intro Hin. exists sg. split; [exact Hin | apply seg_eqb_refl].
Qed.

Lemma under_snoc_inv : forall a p sg, under a (p ++ [sg]) = true -> a = p ++ [sg] \/ under a p = true.
Proof.
  intros a p sg H. apply under_spec in H as [s E].
  destruct (app_eq_comparable _ _ _ _ E) as [[u Eu]|[u Eu]].
  - (* a = p ++ u *) subst a. rewrite <- app_assoc in E. apply app_inv_head in E.
    destruct u as [|x u]; [right; rewrite app_nil_r; apply under_refl|].
    cbn in E. inversion E as [[E1 E2]]. destruct u; [|discriminate]. left. reflexivity.
  - (* p = a ++ u *) right. subst. apply under_app.
Qed.

Lemma app_snoc_inj : forall (a c : fpath) x y, a ++ [x] = c ++ [y] -> a = c /\ x = y.
Proof. intros a c x y H. apply app_inj_tail in H. exact H. Qed.

Lemma filter_id : forall {A} (f : A -> bool) l, forallb f l = true -> filter f l = l.
Proof.
  induction l as [|x l IH]; intro H; [reflexivity|]. cbn in *. apply andb_true_iff in H as [H1 H2].
  rewrite H1, (IH H2). reflexivity.
Qed.

(** * split, components, normalize *)

Lemma split_slash_nonempty : forall s, split_slash s <> [].
Proof.
  induction s as [|c s IH]; cbn; [discriminate|].
  destruct (Ascii.eqb c SLASH); [discriminate|]. destruct (split_slash s); discriminate.
Qed.

Lemma split_app_slash : forall x y, split_slash (x ++ SLASH :: y) = split_slash x ++ split_slash y.
Proof.
  induction x as [|c x IH]; intro y.
  - cbn [app split_slash]. rewrite Ascii.eqb_refl. reflexivity.
  - cbn [app split_slash]. destruct (Ascii.eqb c SLASH).
    + rewrite IH. reflexivity.
    + rewrite IH. pose proof (split_slash_nonempty x) as NE. destruct (split_slash x) as [|p r]; [contradiction|].
      reflexivity.
Qed.

Definition no_slash (s : bytes) : bool := forallb (fun c => negb (Ascii.eqb c SLASH)) s.

Lemma split_no_slash : forall s, no_slash s = true -> split_slash s = [s].
Proof.
  induction s as [|c s IH]; intro H; [reflexivity|].
  cbn in H. apply andb_true_iff in H as [H1 H2]. cbn [split_slash].
  apply negb_true_iff in H1. rewrite H1, (IH H2). reflexivity.
Qed.

Lemma split_pieces_no_slash : forall s, Forall (fun p => no_slash p = true) (split_slash s).
Proof.
  induction s as [|c s IH]; cbn [split_slash]; [repeat constructor|].
  destruct (Ascii.eqb c SLASH) eqn:E.
  - constructor; [reflexivity | exact IH].
  - destruct (split_slash s) as [|p r]; [repeat constructor; cbn; rewrite E; reflexivity|].
    inversion IH; subst. constructor; [|assumption]. cbn. rewrite E. cbn. assumption.
Qed.

Lemma ncomps_app_slash : forall x y, ncomps (x ++ SLASH :: y) = ncomps x ++ ncomps y.
Proof. intros. unfold ncomps. rewrite split_app_slash, filter_app. reflexivity. Qed.

Lemma ncomps_not_skip : forall s p, In p (ncomps s) -> is_skip p = false.
Proof. intros s p H. unfold ncomps in H. apply filter_In in H as [_ H]. apply negb_true_iff in H. exact H. Qed.

Lemma ncomps_no_slash : forall s p, In p (ncomps s) -> no_slash p = true.
Proof.
  intros s p H. unfold ncomps in H. apply filter_In in H as [H _].
  pose proof (split_pieces_no_slash s) as F. rewrite Forall_forall in F. apply F. exact H.
Qed.

(** resolution without ".." only appends the named components *)
Lemma fold_nstep_inside : forall ps acc,
  forallb (fun p => negb (is_dotdot p)) (filter (fun p => negb (is_skip p)) ps) = true ->
  fold_left nstep ps acc = acc ++ filter (fun p => negb (is_skip p)) ps.
Proof.
  induction ps as [|p ps IH]; intros acc H; cbn [fold_left filter].
  - rewrite app_nil_r. reflexivity.
  - unfold nstep at 2. cbn [filter] in H. destruct (is_skip p) eqn:Es; cbn [negb] in *.
    + apply IH. exact H.
    + cbn [forallb] in H. apply andb_true_iff in H as [H1 H2]. apply negb_true_iff in H1. rewrite H1.
      rewrite (IH _ H2). rewrite <- app_assoc. reflexivity.
Qed.

Lemma normalize_inside : forall base s, rel_inside s = true -> normalize base s = base ++ ncomps s.
Proof.
  intros base s H. unfold rel_inside in H. apply andb_true_iff in H as [H1 H2]. apply negb_true_iff in H1.
  unfold normalize. rewrite H1. apply fold_nstep_inside. exact H2.
Qed.

Lemma rel_safe_inside : forall s, rel_safe s = true -> rel_inside s = true.
Proof. intros s H. unfold rel_safe in H. apply andb_true_iff in H as [H _]. exact H. Qed.

Lemma normalize_within : forall base s, rel_inside s = true -> within base (normalize base s) = true.
Proof. intros base s H. rewrite (normalize_inside _ _ H). apply under_app. Qed.

Lemma normalize_below : forall base s, rel_safe s = true -> below base (normalize base s) = true.
Proof.
  intros base s H. rewrite (normalize_inside _ _ (rel_safe_inside _ H)).
  unfold rel_safe in H. apply andb_true_iff in H as [_ H]. destruct (ncomps s) as [|sg r]; [discriminate|].
  apply below_app.
Qed.

(** the converse: "..", and an absolute path, do leave the base *)
Lemma dotdot_escapes : exists base rel, is_abs rel = false /\ within base (normalize base rel) = false.
Proof. exists [b "srv"; b "root"], (b "../outside_x"). vm_compute. split; reflexivity. Qed.

Lemma absolute_escapes : exists base rel, no_dotdot rel = true /\ within base (normalize base rel) = false.
Proof. exists [b "srv"; b "root"], (b "/abs/path"). vm_compute. split; reflexivity. Qed.

(** a string without '/' that is not "", "." or ".." is one Normal component *)
Lemma ncomps_single : forall s, no_slash s = true -> is_skip s = false -> ncomps s = [s].
Proof. intros s H1 H2. unfold ncomps. rewrite (split_no_slash _ H1). cbn. rewrite H2. reflexivity. Qed.

Lemma seg_normal_single : forall s, seg_normal s = true -> ncomps s = [s] /\ is_dotdot s = false.
Proof.
  intros s H. unfold seg_normal in H. apply andb_true_iff in H as [H H3]. apply andb_true_iff in H as [H1 H2].
  apply negb_true_iff in H1, H2. split; [apply ncomps_single; assumption | exact H2].
Qed.

Lemma no_slash_not_abs : forall s, no_slash s = true -> is_abs s = false.
Proof.
  intros [|c s] H; [reflexivity|]. cbn in H. apply andb_true_iff in H as [H _]. apply negb_true_iff in H. exact H.
Qed.

Lemma seg_normal_no_slash : forall s, seg_normal s = true -> no_slash s = true.
Proof. intros s H. unfold seg_normal in H. apply andb_true_iff in H as [_ H]. exact H. Qed.

Lemma seg_normal_rel_safe : forall s, seg_normal s = true -> rel_safe s = true.
Proof.
  intros s H. destruct (seg_normal_single _ H) as [E D]. unfold rel_safe, rel_inside, no_dotdot. rewrite E. cbn.
  rewrite D, (no_slash_not_abs _ (seg_normal_no_slash _ H)). reflexivity.
Qed.

Lemma normalize_seg : forall base s, seg_normal s = true -> normalize base s = base ++ [s].
Proof.
  intros base s H. rewrite (normalize_inside _ _ (rel_safe_inside _ (seg_normal_rel_safe _ H))).
  destruct (seg_normal_single _ H) as [E _]. rewrite E. reflexivity.
Qed.
