(** model_trace_allowed: every call the generating model [gen] emits satisfies [allowed],
    for all inputs accepted by [gin_ok] (lists of arbitrary length: induction over the chains
    and lists).  Because [allowed] is a predicate on single calls, the statement is a [Forall]
    over the trace and therefore holds for every prefix of it (a kill) and for the run that
    stops at any call (a fault). *)
From Coq Require Import List Arith PeanoNat NArith Ascii Bool Lia.
From Rocfl Require Import Base.Bytes Model.FsOps Generated.Consts Model.Footprint
  Proofs.FootprintFacts Proofs.FootprintPaths Proofs.FootprintGuard.
Import ListNotations.
Open Scope N_scope.

Lemma allowed_intro : forall c s o f,
  op_runs c o = true ->
  (uses_staging (o_kind o) && stage_infra c f = true)
  \/ (takes_lock (o_kind o) && stage_lock c o f = true)
  \/ (uses_staging (o_kind o) && stage_anc c o f = true)
  \/ (body_ops (o_kind o) f && stage_body c o f && body_gate c s o = true)
  \/ (o_kind o = KMvExt /\ mv_sources c o f = true)
  \/ ((o_kind o = KCommit \/ o_kind o = KUpgrade) /\ (commit_new c s o f = true \/ commit_version c s o f = true))
  \/ (o_kind o = KPurge /\ purge_main c s o f = true)
  -> allowed c s o f = true.
Proof.
  intros c s o f R H. apply allowed_of_flat; [exact R|]. unfold allowed_flat. rewrite !orb_true_iff.
  destruct H as [H|[H|[H|[H|[[K H]|[[K H]|[K H]]]]]]].
  - tauto.
  - tauto.
  - tauto.
  - tauto.
  - rewrite K. tauto.
  - destruct K as [K|K]; rewrite K; rewrite orb_true_iff; tauto.
  - rewrite K. tauto.
Qed.

Definition AL (c : cfg) (s : pre) (o : opd) (x : bool * fsop) : Prop := allowed c s o (snd x) = true.

Lemma Forall_map_may : forall c s o l, Forall (fun f => allowed c s o f = true) l -> Forall (AL c s o) (map may l).
Proof. intros c s o l H. induction H; cbn; constructor; assumption. Qed.

(** * chains *)
Lemma mkdir_chain_spec : forall segs acc f, In f (mkdir_chain acc segs) ->
  exists ms rest, ms <> [] /\ segs = ms ++ rest /\ f = Mkdir (acc ++ ms).
Proof.
  induction segs as [|sg t IH]; intros acc f H; [destruct H|]. cbn in H. destruct H as [E|H].
  - exists [sg], t. repeat split; [discriminate | symmetry; exact E].
  - destruct (IH _ _ H) as [ms [rest [NE [E1 E2]]]]. exists (sg :: ms), rest. subst. repeat split; [discriminate|].
    rewrite <- app_assoc. reflexivity.
Qed.

Lemma rmdir_chain_spec : forall segs acc f, In f (rmdir_chain acc segs) ->
  exists ms rest, ms <> [] /\ segs = ms ++ rest /\ f = Rmdir (acc ++ ms).
Proof.
  induction segs as [|sg t IH]; intros acc f H; [destruct H|]. cbn in H. apply in_app_or in H. destruct H as [H|[E|[]]].
  - destruct (IH _ _ H) as [ms [rest [NE [E1 E2]]]]. exists (sg :: ms), rest. subst. repeat split; [discriminate|].
    rewrite <- app_assoc. reflexivity.
  - exists [sg], t. repeat split; [discriminate | symmetry; exact E].
Qed.

Lemma nonempty_below : forall (base ms : fpath), ms <> [] -> below base (base ++ ms) = true.
Proof. intros base [|x ms] NE; [contradiction|]. apply below_app. Qed.

(** a proper prefix of [removelast cs] appended to the base is strictly above base ++ cs *)
Lemma removelast_prefix_below : forall (base cs ms rest : fpath),
  removelast cs = ms ++ rest -> cs <> [] -> below (base ++ ms) (base ++ cs) = true.
Proof.
  intros base cs ms rest E NE. rewrite (app_removelast_last [] NE), E. rewrite <- !app_assoc.
  rewrite (app_assoc base ms). destruct rest; cbn; apply below_app.
Qed.

(** * the staging parts *)
Section STAGE.
Variables (c : cfg) (s : pre) (o : opd).
Hypothesis HX : hex_ok (o_hex o) = true.
Hypothesis RUN : op_runs c o = true.

Lemma S_o_eq : S_o c o = c_stg c ++ ncomps (hashed_rel (o_hex o)).
Proof. apply staged_root_eq. exact HX. Qed.

Lemma gen_infra_allowed : uses_staging (o_kind o) = true -> Forall (AL c s o) (g_infra c).
Proof.
  intro U. unfold g_infra. apply Forall_map_may. apply Forall_app. split.
  - apply Forall_forall. intros f H. destruct (mkdir_chain_spec _ _ _ H) as [ms [rest [NE [E1 E2]]]]. subst f.
    apply allowed_intro; [exact RUN|]. left. rewrite U. cbn. rewrite E1. rewrite under_app. reflexivity.
  - repeat constructor; (apply allowed_intro; [exact RUN|]); left; rewrite U; cbn [andb stage_infra];
      first [ apply mem_path_In; cbn; tauto | apply orb_true_iff; right; apply mem_path_In; cbn; tauto ].
Qed.

Lemma gen_acquire_allowed : takes_lock (o_kind o) = true -> Forall (AL c s o) (g_acquire c o).
Proof.
  intro T. repeat constructor. apply allowed_intro; [exact RUN|]. right. left. rewrite T. cbn. apply fpath_eqb_refl.
Qed.

Lemma gen_release_allowed : takes_lock (o_kind o) = true -> Forall (AL c s o) (g_release c o).
Proof.
  intro T. repeat constructor. apply allowed_intro; [exact RUN|]. right. left. rewrite T. cbn. apply fpath_eqb_refl.
Qed.

Lemma body_allowed : forall f, body_ops (o_kind o) f = true -> stage_body c o f = true -> body_gate c s o = true ->
  allowed c s o f = true.
Proof. intros f H1 H2 H3. apply allowed_intro; [exact RUN|]. right. right. right. left. rewrite H1, H2, H3. reflexivity. Qed.

Lemma anc_allowed : forall f, uses_staging (o_kind o) = true -> stage_anc c o f = true -> allowed c s o f = true.
Proof. intros f H1 H2. apply allowed_intro; [exact RUN|]. right. right. left. rewrite H1, H2. reflexivity. Qed.

(** the chains between the staging root and the staged object root *)
Lemma anc_mkdir_allowed : uses_staging (o_kind o) = true ->
  Forall (fun f => allowed c s o f = true) (mkdir_chain (c_stg c) (ncomps (hashed_rel (o_hex o)))).
Proof.
  intro U. apply Forall_forall. intros f H. destruct (mkdir_chain_spec _ _ _ H) as [ms [rest [NE [E1 E2]]]]. subst f.
  apply anc_allowed; [exact U|]. unfold stage_anc. rewrite S_o_eq, E1, (nonempty_below _ _ NE). cbn [andb]. rewrite app_assoc. apply under_app.
Qed.

Lemma anc_rmdir_allowed : uses_staging (o_kind o) = true ->
  Forall (fun f => allowed c s o f = true) (rmdir_chain (c_stg c) (ncomps (hashed_rel (o_hex o)))).
Proof.
  intro U. apply Forall_forall. intros f H. destruct (rmdir_chain_spec _ _ _ H) as [ms [rest [NE [E1 E2]]]]. subst f.
  apply anc_allowed; [exact U|]. unfold stage_anc. rewrite S_o_eq, E1, (nonempty_below _ _ NE). cbn [andb]. rewrite app_assoc. apply under_app.
Qed.

(** a single entry of the staged object root *)
Lemma child_below : forall sg, below (S_o c o) (S_o c o ++ [sg]) = true.
Proof. intro sg. apply below_app. Qed.

Lemma g_file_below : forall cp, rel_safe cp = true -> below (S_o c o) (g_file c o cp) = true.
Proof. intros cp H. unfold g_file. apply normalize_below. exact H. Qed.

Lemma parents_allowed : forall cp,
  (forall p, body_ops (o_kind o) (Mkdir p) = true) -> body_gate c s o = true ->
  Forall (AL c s o) (g_parents c o cp).
Proof.
  intros cp BO BG. unfold g_parents. apply Forall_map_may. apply Forall_forall. intros f H.
  destruct (mkdir_chain_spec _ _ _ H) as [ms [rest [NE [E1 E2]]]]. subst f.
  apply body_allowed; [apply BO | cbn; apply nonempty_below; exact NE | exact BG].
Qed.

Lemma cleanup_allowed : forall cp,
  (forall p, body_ops (o_kind o) (Rmdir p) = true) -> body_gate c s o = true ->
  Forall (AL c s o) (g_cleanup c o cp).
Proof.
  intros cp BO BG. unfold g_cleanup. apply Forall_map_may. apply Forall_forall. intros f H.
  destruct (rmdir_chain_spec _ _ _ H) as [ms [rest [NE [E1 E2]]]]. subst f.
  apply body_allowed; [apply BO | cbn; apply nonempty_below; exact NE | exact BG].
Qed.

Lemma gen_inventory_allowed : forall g,
  (forall p, body_ops (o_kind o) (Create p) = true) -> body_gate c s o = true ->
  Forall (AL c s o) (g_inventory c o g).
Proof.
  intros g BO BG. repeat constructor; apply body_allowed; try apply BO; try exact BG; cbn; apply child_below.
Qed.

Lemma gen_stage_object_allowed : forall g,
  uses_staging (o_kind o) = true ->
  (forall p, body_ops (o_kind o) (Create p) = true) -> (forall p, body_ops (o_kind o) (CreateNew p) = true) ->
  body_gate c s o = true -> Forall (AL c s o) (g_stage_object c o g).
Proof.
  intros g U B1 B2 BG. unfold g_stage_object. destruct (g_restage g) as [decl|]; [|constructor].
  apply Forall_app. split; [apply Forall_map_may; apply anc_mkdir_allowed; exact U|].
  apply Forall_app. split; [|apply gen_inventory_allowed; assumption].
  repeat constructor. apply body_allowed; [apply B2 | cbn; apply child_below | exact BG].
Qed.

Lemma Forall_flat_map : forall {A B} (P : B -> Prop) (f : A -> list B) l,
  (forall a, In a l -> Forall P (f a)) -> Forall P (flat_map f l).
Proof.
  intros A B P f l H. induction l as [|a l IH]; cbn; [constructor|]. apply Forall_app. split.
  - apply H. left. reflexivity.
  - apply IH. intros a' Ha. apply H. right. exact Ha.
Qed.

Lemma forallb_In : forall {A} (f : A -> bool) l a, forallb f l = true -> In a l -> f a = true.
Proof. intros A f l a H Hin. rewrite forallb_forall in H. apply H. exact Hin. Qed.

Lemma gen_body_allowed : forall g,
  body_gate c s o = true ->
  (forall p, body_ops (o_kind o) (Mkdir p) = true) ->
  (forall p, body_ops (o_kind o) (Create p) = true) ->
  forallb rel_safe (g_create g) = true ->
  (g_copy g = [] \/ (forall k p, body_ops (o_kind o) (Other k p) = true)) -> forallb rel_safe (g_copy g) = true ->
  (g_rename g = [] \/ ((forall a d, body_ops (o_kind o) (Rename a d) = true) /\ (forall p, body_ops (o_kind o) (Rmdir p) = true))) ->
  forallb (fun ab => rel_safe (fst ab) && rel_safe (snd ab)) (g_rename g) = true ->
  (g_mvsrc g = [] \/ o_kind o = KMvExt) ->
  forallb (fun sd => rel_safe (snd sd) && existsb (fun x => under x (fst sd)) (o_srcs o)) (g_mvsrc g) = true ->
  (g_remove g = [] \/ ((forall p, body_ops (o_kind o) (Unlink p) = true) /\ (forall p, body_ops (o_kind o) (Rmdir p) = true))) ->
  forallb rel_safe (g_remove g) = true ->
  Forall (AL c s o) (g_body c o g).
Proof.
  intros g BG BM BC F1 K2 F2 K3 F3 K4 F4 K5 F5. unfold g_body.
  repeat (apply Forall_app; split).
  - apply Forall_flat_map. intros cp Hin. pose proof (forallb_In _ _ _ F1 Hin) as RS.
    apply Forall_app. split; [apply parents_allowed; assumption|]. repeat constructor.
    apply body_allowed; [apply BC | cbn; apply g_file_below; exact RS | exact BG].
  - destruct K2 as [E|BO]; [rewrite E; constructor|].
    apply Forall_flat_map. intros cp Hin. pose proof (forallb_In _ _ _ F2 Hin) as RS.
    apply Forall_app. split; [apply parents_allowed; assumption|]. repeat constructor.
    + apply body_allowed; [apply BC | cbn; apply g_file_below; exact RS | exact BG].
    + apply body_allowed; [apply BO | unfold must; cbn [snd]; unfold stage_body; rewrite (g_file_below _ RS); reflexivity | exact BG].
  - destruct K3 as [E|[BR BD]]; [rewrite E; constructor|].
    apply Forall_flat_map. intros [a d] Hin. pose proof (forallb_In _ _ _ F3 Hin) as RS. cbn [fst snd] in RS.
    apply andb_true_iff in RS as [R1 R2]. cbn [fst snd].
    apply Forall_app. split; [apply parents_allowed; assumption|].
    apply Forall_app. split; [|apply cleanup_allowed; assumption]. repeat constructor.
    apply body_allowed; [apply BR | unfold must; cbn [snd]; unfold stage_body; rewrite (g_file_below _ R1), (g_file_below _ R2); reflexivity | exact BG].
  - destruct K4 as [E|K]; [rewrite E; constructor|].
    apply Forall_flat_map. intros [src cp] Hin. pose proof (forallb_In _ _ _ F4 Hin) as RS. cbn [fst snd] in RS.
    apply andb_true_iff in RS as [R1 R2]. cbn [fst snd].
    apply Forall_app. split; [apply parents_allowed; assumption|]. repeat constructor.
    apply allowed_intro; [exact RUN|]. do 4 right. left. split; [exact K|]. unfold must; cbn [snd]; unfold mv_sources. rewrite R2, (g_file_below _ R1). reflexivity.
  - destruct K5 as [E|[BU BD]]; [rewrite E; constructor|].
    apply Forall_flat_map. intros cp Hin. pose proof (forallb_In _ _ _ F5 Hin) as RS.
    apply Forall_app. split; [|apply cleanup_allowed; assumption]. repeat constructor.
    apply body_allowed; [apply BU | cbn; apply g_file_below; exact RS | exact BG].
Qed.

(** the removal of the staged object *)
Lemma gen_purge_staged_allowed : forall g,
  uses_staging (o_kind o) = true ->
  (forall p, body_ops (o_kind o) (Unlink p) = true) -> (forall p, body_ops (o_kind o) (Rmdir p) = true) ->
  (body_gate c s o = true \/ (g_files g = [] /\ g_dirs g = [])) ->
  forallb (fun p => below (S_o c o) p) (g_files g) = true -> forallb (fun p => under (S_o c o) p) (g_dirs g) = true ->
  Forall (AL c s o) (g_purge_staged c o g).
Proof.
  intros g U BU BD BG F1 F2. unfold g_purge_staged. repeat (apply Forall_app; split).
  - destruct BG as [BG|[E _]]; [|rewrite E; constructor].
    apply Forall_forall. intros x Hx. apply in_map_iff in Hx as [p [E Hin]]. subst x. unfold AL, must, may; cbn [snd].
    apply body_allowed; [apply BU | cbn; apply (forallb_In _ _ _ F1 Hin) | exact BG].
  - apply Forall_forall. intros x Hx. apply in_map_iff in Hx as [p [E Hin]]. subst x. unfold AL, must, may; cbn [snd].
    pose proof (forallb_In _ _ _ F2 Hin) as UP. cbn beta in UP. destruct (under_cases _ _ UP) as [Ep|B].
    + subst p. apply anc_allowed; [exact U|]. unfold stage_anc. rewrite (S_o_below c o HX), under_refl. reflexivity.
    + destruct BG as [BG|[_ E]]; [|rewrite E in Hin; destruct Hin].
      apply body_allowed; [apply BD | exact B | exact BG].
  - apply Forall_map_may. apply anc_rmdir_allowed. exact U.
Qed.

End STAGE.

(** * the main-repository parts of commit *)
Lemma gen_install_allowed : forall c s o g,
  op_runs c o = true -> hex_ok (o_hex o) = true -> is_vstr (o_head o) = true -> is_sidecar (g_sidecar g) = true ->
  (o_kind o = KCommit \/ o_kind o = KUpgrade) ->
  (if o_found o then
     match mobj_at s (N_o c o) with Some m => negb (mem_seg (o_head o) (m_versions m)) | None => false end
     && forallb is_obj_decl (g_olddecl g) && match g_newdecl g with Some d => is_obj_decl d | None => true end
   else new_root_ok s (c_root c) (o_rel o)) = true ->
  Forall (AL c s o) (g_install c o g).
Proof.
  intros c s o g RUN HX VS SC K H. unfold g_install. destruct (o_found o) eqn:EX.
  - apply andb_true_iff in H as [H D2]. apply andb_true_iff in H as [H D1].
    destruct (mobj_at s (N_o c o)) as [m|] eqn:M; [|discriminate].
    assert (CV : forall f, commit_version c s o f = true -> allowed c s o f = true).
    { intros f Hf. apply allowed_intro; [exact RUN|]. do 5 right. left. split; [exact K | right; exact Hf]. }
    assert (RF : forall sg (ok : fseg -> bool), ok sg = true -> child_with (N_o c o) (N_o c o ++ [sg]) ok = true)
      by (intros; apply child_with_intro; assumption).
    apply Forall_app. split.
    + repeat constructor; apply CV; unfold commit_version, must; cbn [snd]; rewrite EX, M; cbn [andb].
      * rewrite H, VS, !fpath_eqb_refl. reflexivity.
      * apply RF. rewrite seg_eqb_refl. reflexivity.
      * cbn. apply RF. rewrite seg_eqb_refl. reflexivity.
      * apply RF. rewrite SC. apply orb_true_r.
      * cbn. apply RF. rewrite SC. apply orb_true_r.
    + destruct (o_kind o) eqn:KK; try constructor. destruct (g_newdecl g) as [d|]; [|constructor].
      constructor.
      * apply CV. unfold commit_version, must. cbn [snd]. rewrite EX, M, KK. cbn [andb]. apply RF. exact D2.
      * apply Forall_forall. intros x Hx. apply in_map_iff in Hx as [sg [E Hin]]. subst x. apply CV.
        unfold commit_version, must. cbn [snd]. rewrite EX, M, KK. cbn [andb]. apply RF. apply (forallb_In _ _ _ D1 Hin).
  - assert (CN : forall f, commit_new c s o f = true -> allowed c s o f = true).
    { intros f Hf. apply allowed_intro; [exact RUN|]. do 5 right. left. split; [exact K | left; exact Hf]. }
    pose proof H as NR. unfold new_root_ok in H. apply andb_true_iff in H as [V _].
    destruct (validate_root_shape _ _ _ V) as [c1 [cs [X [E _]]]]. fold (N_o c o) in E.
    apply Forall_app. split.
    + apply Forall_map_may. apply Forall_forall. intros f Hf.
      destruct (mkdir_chain_spec _ _ _ Hf) as [ms [rest [NE [E1 E2]]]]. subst f. apply CN.
      unfold commit_new. rewrite EX, NR. cbn [negb andb]. rewrite under_app. cbn [andb].
      rewrite E, <- X. eapply removelast_prefix_below; [exact E1|]. rewrite X. discriminate.
    + repeat constructor. apply CN. unfold commit_new, must. cbn [snd]. rewrite EX, NR, !fpath_eqb_refl. reflexivity.
Qed.

Lemma gen_finalize_allowed : forall c s o g,
  op_runs c o = true -> hex_ok (o_hex o) = true -> is_vstr (o_head o) = true -> (o_kind o = KCommit \/ o_kind o = KUpgrade) ->
  Forall (AL c s o) (g_finalize c o g).
Proof.
  intros c s o g RUN HX VS K. destruct (head_paths c o VS) as [ES _].
  assert (BG : body_gate c s o = true) by (unfold body_gate; destruct K as [K|K]; rewrite K; reflexivity).
  assert (BO : forall f, body_ops (o_kind o) f = true) by (intro f; destruct K as [K|K]; rewrite K; reflexivity).
  unfold g_finalize. apply Forall_app. split; [apply gen_inventory_allowed; solve [exact HX | exact RUN | intro; apply BO | exact BG]|].
  rewrite ES.
  repeat constructor; apply body_allowed; try exact RUN; try apply BO; try exact BG; cbn; rewrite <- ?app_assoc; try apply below_app.
  all: rewrite below_app; reflexivity.
Qed.

(** * the theorem *)
Ltac fsplit := apply Forall_app; split.
Ltac split_gin H :=
  repeat match type of H with
         | _ && _ = true => let H' := fresh "G" in apply andb_true_iff in H as [H H']
         end.

Lemma is_nil_eq : forall {A} (l : list A), is_nil l = true -> l = [].
Proof. intros A [|x l] H; [reflexivity | discriminate]. Qed.

Theorem gen_allowed : forall c s o g,
  gin_ok c s o g = true -> Forall (AL c s o) (gen c o g).
Proof.
  intros c s o g H. unfold gin_ok in H.
  apply andb_true_iff in H as [H K7]. apply andb_true_iff in H as [H K6]. apply andb_true_iff in H as [H K5].
  apply andb_true_iff in H as [H K4]. apply andb_true_iff in H as [H K3]. apply andb_true_iff in H as [H K2].
  apply andb_true_iff in H as [H FD]. apply andb_true_iff in H as [H F4]. apply andb_true_iff in H as [H F3].
  apply andb_true_iff in H as [H F5]. apply andb_true_iff in H as [H F2]. apply andb_true_iff in H as [H F1].
  apply andb_true_iff in H as [H RD]. apply andb_true_iff in H as [H SC]. apply andb_true_iff in H as [H RUN].
  apply andb_true_iff in H as [HX VS].
  unfold gen.
  destruct (o_kind o) eqn:K.
  (* the staging operations: New CpExt MvExt CpInt MvInt Rm Reset *)
  1-7: (
    assert (U : uses_staging (o_kind o) = true) by (rewrite K; reflexivity);
    assert (T : takes_lock (o_kind o) = true) by (rewrite K; reflexivity);
    assert (BG : body_gate c s o = true) by (unfold body_gate; rewrite K; reflexivity);
    assert (BM : forall p, body_ops (o_kind o) (Mkdir p) = true) by (intro; rewrite K; reflexivity);
    assert (BC : forall p, body_ops (o_kind o) (Create p) = true) by (intro; rewrite K; reflexivity);
    assert (BN : forall p, body_ops (o_kind o) (CreateNew p) = true) by (intro; rewrite K; reflexivity);
    fsplit; [ apply gen_infra_allowed; assumption
    | fsplit; [ apply gen_acquire_allowed; assumption
    | fsplit; [ apply gen_stage_object_allowed; assumption
    | fsplit; [ apply gen_body_allowed; try assumption
    | fsplit; [ apply gen_inventory_allowed; assumption
    | fsplit; [ apply gen_release_allowed; assumption | cbv beta iota; fsplit ]]]]]]).
  (* the removal of named sources that are symbolic links: only mv has any *)
  all: try (cbn [map]; apply Forall_nil).
  (* side conditions of gen_body_allowed and the source directories, kind by kind *)
  all: try (left; apply is_nil_eq; assumption).
  all: try (apply andb_true_iff in K2 as [K2a K2b]).
  all: try (left; apply is_nil_eq; assumption).
  all: try (rewrite (is_nil_eq _ K2b); constructor).
  all: try (right; first [ reflexivity | split; intros; rewrite K; reflexivity | intros; rewrite K; reflexivity ]).
  - (* MvExt: the source directories *)
    apply Forall_forall. intros x Hx. apply in_map_iff in Hx as [p [E Hin]]. subst x. unfold AL, must, may; cbn [snd].
    apply allowed_intro; [exact RUN|]. do 4 right. left. split; [exact K|]. cbn. apply (forallb_In _ _ _ FD Hin).
  - (* MvExt: named sources that are symbolic links *)
    apply Forall_forall. intros x Hx. apply in_map_iff in Hx as [p [E Hin]]. subst x. unfold AL, must, may; cbn [snd].
    apply allowed_intro; [exact RUN|]. do 4 right. left. split; [exact K|]. cbn.
    apply existsb_exists. exists p. split; [exact Hin | apply under_refl].
  - (* ResetAll *)
    apply andb_true_iff in K6 as [K6 K6c]. apply andb_true_iff in K6 as [K6a K6b].
    assert (U : uses_staging (o_kind o) = true) by (rewrite K; reflexivity).
    apply Forall_app. split; [apply gen_infra_allowed; assumption|].
    apply gen_purge_staged_allowed; try assumption; try (rewrite K; reflexivity); try (intro; rewrite K; reflexivity).
    apply orb_true_iff in K6a as [G|G].
    + left. unfold body_gate. rewrite K. exact G.
    + right. apply andb_true_iff in G as [G1 G2]. split; apply is_nil_eq; assumption.
  - (* Commit *)
    apply andb_true_iff in K6 as [K6a K6b].
    assert (KK : o_kind o = KCommit \/ o_kind o = KUpgrade) by (left; exact K).
    assert (BG : body_gate c s o = true) by (unfold body_gate; rewrite K; reflexivity).
    assert (BO : forall f, body_ops (o_kind o) f = true) by (intro f; rewrite K; reflexivity).
    assert (U : uses_staging (o_kind o) = true) by (rewrite K; reflexivity).
    assert (T : takes_lock (o_kind o) = true) by (rewrite K; reflexivity).
    fsplit; [|fsplit; [|fsplit; [|fsplit; [|fsplit; [|fsplit; [|fsplit]]]]]].
    + apply gen_infra_allowed; assumption.
    + apply gen_acquire_allowed; assumption.
    + apply gen_stage_object_allowed; try assumption; intro; apply BO.
    + apply gen_body_allowed; try assumption; try (intro; apply BO); try (right; try split; intros; apply BO).
      left. apply is_nil_eq. exact K2a.
    + apply gen_finalize_allowed; assumption.
    + apply gen_install_allowed; assumption.
    + apply gen_purge_staged_allowed; try assumption; try (intro; apply BO). left; exact BG.
    + apply gen_release_allowed; assumption.
  - (* Upgrade *)
    apply andb_true_iff in K6 as [K6a K6b].
    assert (KK : o_kind o = KCommit \/ o_kind o = KUpgrade) by (right; exact K).
    assert (BG : body_gate c s o = true) by (unfold body_gate; rewrite K; reflexivity).
    assert (BO : forall f, body_ops (o_kind o) f = true) by (intro f; rewrite K; reflexivity).
    assert (U : uses_staging (o_kind o) = true) by (rewrite K; reflexivity).
    assert (T : takes_lock (o_kind o) = true) by (rewrite K; reflexivity).
    fsplit; [|fsplit; [|fsplit; [|fsplit; [|fsplit; [|fsplit; [|fsplit]]]]]].
    + apply gen_infra_allowed; assumption.
    + apply gen_acquire_allowed; assumption.
    + apply gen_stage_object_allowed; try assumption; intro; apply BO.
    + apply gen_body_allowed; try assumption; try (intro; apply BO); try (right; try split; intros; apply BO).
      left. apply is_nil_eq. exact K2a.
    + apply gen_finalize_allowed; assumption.
    + apply gen_install_allowed; assumption.
    + apply gen_purge_staged_allowed; try assumption; try (intro; apply BO). left; exact BG.
    + apply gen_release_allowed; assumption.
  - (* Purge *)
    apply andb_true_iff in K6 as [K6 K6c]. apply andb_true_iff in K6 as [V K6b].
    assert (U : uses_staging (o_kind o) = true) by (rewrite K; reflexivity).
    pose proof (validate_root_shape _ _ _ V) as [c1 [cs [X [E _]]]]. fold (N_o c o) in E.
    assert (PM : forall f, purge_main c s o f = true -> allowed c s o f = true).
    { intros f Hf. apply allowed_intro; [exact RUN|]. do 6 right. split; [exact K | exact Hf]. }
    fsplit; [|fsplit; [|fsplit; [|fsplit]]].
    + apply gen_infra_allowed; assumption.
    + apply Forall_forall. intros x Hx. apply in_map_iff in Hx as [p [Ep Hin]]. subst x. unfold AL, must, may; cbn [snd].
      pose proof (forallb_In _ _ _ K6b Hin) as P. cbn beta in P. apply orb_true_iff in P as [P|P].
      * apply PM. unfold purge_main. rewrite V. cbn. exact P.
      * apply andb_true_iff in P as [P1 P2]. apply body_allowed; [exact RUN | rewrite K; reflexivity | exact P2 | unfold body_gate; rewrite K; exact P1].
    + apply Forall_forall. intros x Hx. apply in_map_iff in Hx as [p [Ep Hin]]. subst x. unfold AL, must, may; cbn [snd].
      pose proof (forallb_In _ _ _ K6c Hin) as P. cbn beta in P. apply orb_true_iff in P as [P|P].
      * apply PM. unfold purge_main. rewrite V. cbn. rewrite P. reflexivity.
      * apply andb_true_iff in P as [P1 P2]. destruct (under_cases _ _ P2) as [Eq|B].
        -- subst p. apply anc_allowed; [exact RUN | exact U|]. unfold stage_anc. rewrite (S_o_below c o HX), under_refl. reflexivity.
        -- apply body_allowed; [exact RUN | rewrite K; reflexivity | exact B | unfold body_gate; rewrite K; exact P1].
    + apply Forall_map_may. apply anc_rmdir_allowed; assumption.
    + apply Forall_map_may. apply Forall_forall. intros f Hf.
      destruct (rmdir_chain_spec _ _ _ Hf) as [ms [rest [NE [E1 E2]]]]. subst f. apply PM.
      unfold purge_main. rewrite V. cbn [andb]. apply orb_true_iff. right. rewrite (nonempty_below _ _ NE). cbn [andb].
      rewrite E, <- X. eapply removelast_prefix_below; [exact E1|]. rewrite X. discriminate.
  all: constructor.
Qed.
