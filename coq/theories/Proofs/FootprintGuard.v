(** The guard [validate_object_root] and what [allowed] implies (C03, C12):
    main_root_within, no_nesting, guard_separates_staging, allowed_in_zone (C12),
    allowed_respects_committed (C03). *)
From Coq Require Import List Arith PeanoNat NArith Ascii Bool Lia.
From Rocfl Require Import Base.Bytes Model.FsOps Generated.Consts Model.Footprint
  Proofs.FootprintFacts Proofs.FootprintPaths.
Import ListNotations.
Open Scope N_scope.

(** * well-formedness of configuration and pre-state (the invariants the guard maintains) *)

(** the staging root is the default one, or a user-chosen directory unrelated to the storage root *)
Definition cfg_ok (c : cfg) : Prop :=
  c_stg c = default_staging (c_root c)
  \/ (under (c_root c) (c_stg c) = false /\ under (c_stg c) (c_root c) = false).
(** the objects of the main repository lie strictly inside the storage root *)
Definition objs_in_root (c : cfg) (s : pre) : Prop :=
  forall m, In m (p_objs s) -> below (c_root c) (m_root m) = true.
(** one record per object root and no object root inside another one *)
Definition no_nest (s : pre) : Prop :=
  forall m1 m2, In m1 (p_objs s) -> In m2 (p_objs s) -> under (m_root m1) (m_root m2) = true -> m1 = m2.
(** the staging root is not inside an object and no object of the main repository inside it *)
Definition stg_separate (c : cfg) (s : pre) : Prop :=
  forall m, In m (p_objs s) -> under (c_stg c) (m_root m) = false /\ under (m_root m) (c_stg c) = false.
(** staged object roots lie in the staging root *)
Definition staged_in_stg (c : cfg) (s : pre) : Prop :=
  forall q, In q (p_staged s) -> under (c_stg c) q = true.
(** version directories are named v<digits> *)
Definition versions_wf (s : pre) : Prop :=
  forall m v, In m (p_objs s) -> In v (m_versions m) -> is_vstr v = true.

Record env_ok (c : cfg) (s : pre) : Prop := mkEnv {
  e_cfg : cfg_ok c;
  e_in : objs_in_root c s;
  e_nest : no_nest s;
  e_sep : stg_separate c s;
  e_stg : staged_in_stg c s;
  e_ver : versions_wf s }.

(** * the guard *)

Lemma validate_root_shape : forall s R rel, validate_object_root s R rel = true ->
  exists c1 cs, ncomps rel = c1 :: cs /\ main_root R rel = R ++ c1 :: cs /\ seg_eqb c1 K_EXTENSIONS_DIR = false.
Proof.
  intros s R rel H. unfold validate_object_root in H. apply andb_true_iff in H as [H _]. apply andb_true_iff in H as [H1 H2].
  pose proof (normalize_inside R _ (rel_safe_inside _ H1)) as E.
  unfold rel_safe in H1. apply andb_true_iff in H1 as [_ NE]. unfold first_is_extensions in H2.
  destruct (ncomps rel) as [|c1 cs] eqn:X; [discriminate|]. exists c1, cs. apply negb_true_iff in H2.
  repeat split; [exact E | exact H2].
Qed.

(** main_root_within: an accepted root lies strictly inside the storage root *)
Lemma main_root_within_lemma : forall s R rel, validate_object_root s R rel = true -> below R (main_root R rel) = true.
Proof. intros s R rel H. destruct (validate_root_shape _ _ _ H) as [c1 [cs [_ [E _]]]]. rewrite E. apply below_app. Qed.

Lemma proper_prefixes_In : forall ms acc x rest,
  ms <> [] -> In (acc ++ ms) (proper_prefixes acc (ms ++ x :: rest)).
Proof.
  induction ms as [|m ms IH]; intros acc x rest NE; [contradiction|].
  destruct ms as [|m2 ms].
  - cbn. left. reflexivity.
  - cbn [app proper_prefixes]. right.
    replace (acc ++ m :: m2 :: ms) with ((acc ++ [m]) ++ m2 :: ms) by (rewrite <- app_assoc; reflexivity).
    apply (IH (acc ++ [m]) x rest). discriminate.
Qed.

Lemma is_object_root_obj : forall s m, In m (p_objs s) -> is_object_root s (m_root m) = true.
Proof.
  intros s m H. unfold is_object_root. apply orb_true_iff. left. apply existsb_exists. exists m. split; [exact H | apply fpath_eqb_refl].
Qed.

(** a proper ancestor of an accepted root is no object root *)
Lemma validate_no_root_above : forall s R rel q,
  validate_object_root s R rel = true -> below R q = true -> below q (main_root R rel) = true ->
  is_object_root s q = false.
Proof.
  intros s R rel q H B1 B2. destruct (validate_root_shape _ _ _ H) as [c1 [cs [X [E _]]]].
  unfold validate_object_root in H. apply andb_true_iff in H as [_ H]. rewrite X in H. rewrite E in B2.
  apply below_spec in B1 as [sg [ms Eq]]. subst q. apply below_spec in B2 as [x [rest E2]].
  rewrite <- app_assoc in E2. apply app_inv_head in E2. cbn [app] in E2.
  rewrite E2 in H. rewrite forallb_forall in H.
  specialize (H (R ++ sg :: ms)). apply negb_true_iff. apply H.
  change (sg :: ms ++ x :: rest) with ((sg :: ms) ++ x :: rest). apply proper_prefixes_In. discriminate.
Qed.

(** no_nesting: accepted and not existing => neither inside nor above another object *)
Lemma no_nesting_lemma : forall c s rel m,
  objs_in_root c s -> new_root_ok s (c_root c) rel = true -> In m (p_objs s) ->
  under (m_root m) (main_root (c_root c) rel) = false /\ under (main_root (c_root c) rel) (m_root m) = false.
Proof.
  intros c s rel m IR H Hin. unfold new_root_ok in H. apply andb_true_iff in H as [V TE]. apply negb_true_iff in TE.
  assert (A : under (main_root (c_root c) rel) (m_root m) = false).
  { destruct (under (main_root (c_root c) rel) (m_root m)) eqn:U; [|reflexivity].
    unfold target_exists in TE. apply orb_false_iff in TE as [TE _]. apply orb_false_iff in TE as [_ TE].
    assert (existsb (fun o => under (main_root (c_root c) rel) (m_root o)) (p_objs s) = true) as X
      by (apply existsb_exists; exists m; split; assumption). congruence. }
  split; [|exact A].
  destruct (under (m_root m) (main_root (c_root c) rel)) eqn:U; [|reflexivity].
  destruct (under_cases _ _ U) as [E|B].
  - rewrite E, under_refl in A. discriminate.
  - pose proof (validate_no_root_above _ _ _ _ V (IR _ Hin) B) as X. rewrite (is_object_root_obj _ _ Hin) in X. discriminate.
Qed.

(** the accepted root is neither inside nor above the staging root *)
Lemma guard_separates_staging : forall c s rel,
  cfg_ok c -> validate_object_root s (c_root c) rel = true ->
  under (c_stg c) (main_root (c_root c) rel) = false /\ under (main_root (c_root c) rel) (c_stg c) = false.
Proof.
  intros c s rel CO V. destruct (validate_root_shape _ _ _ V) as [c1 [cs [_ [E NX]]]]. rewrite E.
  destruct CO as [D|[D1 D2]].
  - rewrite D. unfold default_staging. split.
    + destruct (under _ _) eqn:U; [|reflexivity]. apply under_spec in U as [u Eu].
      rewrite <- app_assoc in Eu. apply app_inv_head in Eu. cbn in Eu. inversion Eu; subst.
      rewrite seg_eqb_refl in NX. discriminate.
    + destruct (under _ _) eqn:U; [|reflexivity]. apply under_spec in U as [u Eu].
      rewrite <- app_assoc in Eu. apply app_inv_head in Eu. cbn in Eu. inversion Eu; subst.
      rewrite seg_eqb_refl in NX. discriminate.
  - split.
    + destruct (under (c_stg c) (c_root c ++ c1 :: cs)) eqn:U; [|reflexivity].
      destruct (under_comparable _ _ _ U (under_app (c_root c) (c1 :: cs))); congruence.
    + destruct (under (c_root c ++ c1 :: cs) (c_stg c)) eqn:U; [|reflexivity].
      pose proof (under_trans _ _ _ (under_app (c_root c) (c1 :: cs)) U). congruence.
Qed.

(** the invariants are kept when a new object is created at an accepted root *)
Lemma env_ok_preserved : forall c s rel vs,
  env_ok c s -> new_root_ok s (c_root c) rel = true -> (forall v, In v vs -> is_vstr v = true) ->
  env_ok c (mkPre (mkObj (main_root (c_root c) rel) vs :: p_objs s) (p_staged s) (p_occupied s)).
Proof.
  intros c s rel vs [CO IR NN SP SS VW] H Hvs.
  pose proof H as H'. unfold new_root_ok in H'. apply andb_true_iff in H' as [V _].
  constructor; try assumption.
  - intros m [E|Hin]; [subst; cbn; eapply main_root_within_lemma; exact V | apply IR; exact Hin].
  - intros m1 m2 [E1|H1] [E2|H2] U; subst; cbn in *.
    + reflexivity.
    + destruct (no_nesting_lemma c s rel m2 IR H H2) as [_ X]. congruence.
    + destruct (no_nesting_lemma c s rel m1 IR H H1) as [X _]. congruence.
    + apply NN; assumption.
  - intros m [E|Hin]; [subst; cbn; eapply guard_separates_staging; eassumption | apply SP; exact Hin].
  - intros m v [E|Hin] Hv; [subst; cbn in Hv; apply Hvs; exact Hv | eapply VW; eassumption].
Qed.

(** * what the paths of an operation are, under hex_ok *)

Lemma S_o_below : forall c o, hex_ok (o_hex o) = true -> below (c_stg c) (S_o c o) = true.
Proof. intros. apply staged_root_below. assumption. Qed.

Lemma lockf_below : forall c o, hex_ok (o_hex o) = true -> below (c_stg c) (lockf c o) = true.
Proof. intros. apply lock_file_below. assumption. Qed.

Lemma child_with_spec : forall base p ok, child_with base p ok = true -> exists sg, p = base ++ [sg] /\ ok sg = true.
Proof.
  intros base p ok H. unfold child_with in H. destruct (last_seg p) as [sg|]; [|discriminate].
  apply andb_true_iff in H as [H1 H2]. apply fpath_eqb_eq in H2. exists sg. split; assumption.
Qed.

Lemma child_with_intro : forall base sg (ok : fseg -> bool), ok sg = true -> child_with base (base ++ [sg]) ok = true.
Proof.
  intros base sg ok H. unfold child_with, last_seg. rewrite rev_app_distr. cbn. rewrite H, fpath_eqb_refl. reflexivity.
Qed.

Lemma mobj_at_spec : forall s p m, mobj_at s p = Some m -> In m (p_objs s) /\ m_root m = p.
Proof.
  intros s p m H. unfold mobj_at in H. apply find_some in H as [H1 H2]. apply fpath_eqb_eq in H2. split; assumption.
Qed.

(** * the shape of [allowed]: the nine cases, and "the operation runs or the call is staging infrastructure" *)
Definition allowed_flat (c : cfg) (s : pre) (o : opd) (f : fsop) : bool :=
  let k := o_kind o in
  (uses_staging k && stage_infra c f)
  || (takes_lock k && stage_lock c o f)
  || (uses_staging k && stage_anc c o f)
  || (body_ops k f && stage_body c o f && body_gate c s o)
  || (match k with KMvExt => mv_sources c o f | _ => false end)
  || (match k with KCommit | KUpgrade => commit_new c s o f || commit_version c s o f | _ => false end)
  || (match k with KPurge => purge_main c s o f | _ => false end)
  || (match k with KInit => init_ops c f | _ => false end)
  || (match k with KUpgradeRepo => upgrade_repo_ops c f | _ => false end).

Lemma allowed_flat_of : forall c s o f, allowed c s o f = true -> allowed_flat c s o f = true.
Proof.
  intros c s o f H. unfold allowed in H. unfold allowed_flat. destruct (op_runs c o); cbn [andb] in H.
  - rewrite !orb_true_iff in *. tauto.
  - rewrite orb_false_r in H. rewrite H. reflexivity.
Qed.

Lemma allowed_runs_or_infra : forall c s o f, allowed c s o f = true -> stage_infra c f = true \/ op_runs c o = true.
Proof.
  intros c s o f H. unfold allowed in H. destruct (op_runs c o); [right; reflexivity|]. left.
  cbn [andb] in H. rewrite orb_false_r in H. apply andb_true_iff in H as [_ H]. exact H.
Qed.

Lemma allowed_of_flat : forall c s o f, op_runs c o = true -> allowed_flat c s o f = true -> allowed c s o f = true.
Proof.
  intros c s o f R H. unfold allowed. unfold allowed_flat in H. rewrite R. cbn [andb].
  rewrite !orb_true_iff in *. tauto.
Qed.

(** * C12: every target of an allowed call lies in the zone *)

Ltac zone_stg := unfold in_zone; apply orb_true_iff; left; apply orb_true_iff; left; apply orb_true_iff; right.
Ltac zone_root := unfold in_zone; apply orb_true_iff; left; apply orb_true_iff; left; apply orb_true_iff; left.

Lemma in_zone_stg : forall c o f p, under (c_stg c) p = true -> in_zone c o f p = true.
Proof. intros c o f p H. unfold in_zone. rewrite H. rewrite orb_true_r. reflexivity. Qed.
Lemma in_zone_root : forall c o f p, under (c_root c) p = true -> in_zone c o f p = true.
Proof. intros c o f p H. unfold in_zone. rewrite H. reflexivity. Qed.
Lemma in_zone_mkdir : forall c o p, under p (c_stg c) = true \/ under p (c_root c) = true -> in_zone c o (Mkdir p) p = true.
Proof.
  intros c o p H. unfold in_zone. destruct H as [H|H]; rewrite H; cbn; rewrite ?orb_true_r; reflexivity.
Qed.
Lemma in_zone_src : forall c o f p, o_kind o = KMvExt -> existsb (fun s => under s p) (o_srcs o) = true -> in_zone c o f p = true.
Proof. intros c o f p K H. unfold in_zone. rewrite K, H. rewrite orb_true_r. reflexivity. Qed.

Lemma stage_infra_zone : forall c o f, stage_infra c f = true -> forallb (in_zone c o f) (targets f) = true.
Proof.
  intros c o f H. unfold stage_infra in H. destruct f as [p|p|p|a d|p|p|k p]; try discriminate; cbn [targets forallb]; rewrite andb_true_r.
  - apply orb_true_iff in H as [H|H].
    + apply in_zone_mkdir. left. exact H.
    + apply in_zone_stg. apply mem_path_In in H. cbn in H.
      destruct H as [H|[H|[H|[]]]]; subst p; unfold locks_dir; rewrite <- ?app_assoc; apply under_app.
  - apply in_zone_stg. apply mem_path_In in H. cbn in H.
    destruct H as [H|[H|[H|[H|[H|[]]]]]]; subst p; rewrite <- ?app_assoc; apply under_app.
Qed.

Lemma commit_new_zone : forall c s o f,
  hex_ok (o_hex o) = true -> commit_new c s o f = true -> forallb (in_zone c o f) (targets f) = true.
Proof.
  intros c s o f HX A. pose proof (below_under _ _ (S_o_below c o HX)) as SU.
  unfold commit_new in A. apply andb_true_iff in A as [A B]. apply andb_true_iff in A as [_ NR].
  unfold new_root_ok in NR. apply andb_true_iff in NR as [V _].
  pose proof (main_root_within_lemma _ _ _ V) as NB.
  destruct f as [p|p|p|a d|p|p|k p]; try discriminate; cbn [targets forallb]; rewrite ?andb_true_r.
  - apply andb_true_iff in B as [B _]. apply in_zone_root. exact B.
  - apply andb_true_iff in B as [B1 B2]. apply fpath_eqb_eq in B1, B2. subst a d. apply andb_true_iff. split.
    + apply in_zone_stg. exact SU.
    + apply in_zone_root. apply below_under. exact NB.
Qed.

Lemma head_paths : forall c o, is_vstr (o_head o) = true ->
  S_head c o = S_o c o ++ [o_head o] /\ N_head c o = N_o c o ++ [o_head o].
Proof.
  intros c o VS. pose proof (vstr_normal _ VS) as NV. split; apply normalize_seg; exact NV.
Qed.

Lemma commit_version_zone : forall c s o f,
  hex_ok (o_hex o) = true -> objs_in_root c s ->
  commit_version c s o f = true -> forallb (in_zone c o f) (targets f) = true.
Proof.
  intros c s o f HX IR A. pose proof (below_under _ _ (S_o_below c o HX)) as SU.
  unfold commit_version in A. apply andb_true_iff in A as [_ A].
  destruct (mobj_at s (N_o c o)) as [m|] eqn:M; [|discriminate].
  destruct (mobj_at_spec _ _ _ M) as [Hin Er].
  assert (NU : under (c_root c) (N_o c o) = true) by (rewrite <- Er; apply below_under; apply IR; exact Hin).
  assert (CH : forall p ok g, child_with (N_o c o) p ok = true -> in_zone c o g p = true).
  { intros p ok g H. destruct (child_with_spec _ _ _ H) as [sg [Ep _]]. subst p. apply in_zone_root. apply under_app_r. exact NU. }
  destruct f as [p|p|p|a d|p|p|k p]; try discriminate; cbn [targets forallb]; rewrite ?andb_true_r.
  - destruct (o_kind o); try discriminate. eapply CH. exact A.
  - eapply CH. exact A.
  - apply andb_true_iff in A as [A B]. apply andb_true_iff in A as [_ VS].
    destruct (head_paths c o VS) as [ES EN].
    assert (Z1 : forall g, in_zone c o g (S_head c o) = true)
      by (intro g; apply in_zone_stg; rewrite ES; apply under_app_r; exact SU).
    assert (Z2 : forall g, in_zone c o g (N_head c o) = true)
      by (intro g; apply in_zone_root; rewrite EN; apply under_app_r; exact NU).
    apply orb_true_iff in B as [B|B]; apply andb_true_iff in B as [B1 B2]; apply fpath_eqb_eq in B1, B2; subst a d;
      rewrite Z1, Z2; reflexivity.
  - destruct (o_kind o); try discriminate. eapply CH. exact A.
  - apply andb_true_iff in A as [_ A]. eapply CH. exact A.
Qed.

Lemma allowed_in_zone_lemma : forall c s o f,
  hex_ok (o_hex o) = true -> objs_in_root c s ->
  allowed c s o f = true -> forallb (in_zone c o f) (targets f) = true.
Proof.
  intros c s o f HX IR A. apply allowed_flat_of in A. unfold allowed_flat in A.
  pose proof (S_o_below c o HX) as SB. pose proof (below_under _ _ SB) as SU.
  repeat (apply orb_true_iff in A as [A|A]).
  - apply andb_true_iff in A as [_ A]. apply stage_infra_zone. exact A.
  - apply andb_true_iff in A as [_ A]. unfold stage_lock in A.
    destruct f as [p|p|p|a d|p|p|k p]; try discriminate; apply fpath_eqb_eq in A; subst p; cbn [targets forallb];
      rewrite andb_true_r; apply in_zone_stg; apply below_under; apply lockf_below; exact HX.
  - apply andb_true_iff in A as [_ A]. unfold stage_anc in A.
    destruct f as [p|p|p|a d|p|p|k p]; try discriminate; apply andb_true_iff in A as [A _]; cbn [targets forallb];
      rewrite andb_true_r; apply in_zone_stg; apply below_under; exact A.
  - apply andb_true_iff in A as [A _]. apply andb_true_iff in A as [_ A]. unfold stage_body in A.
    destruct f as [p|p|p|a d|p|p|k p]; cbn [targets forallb]; rewrite ?andb_true_r;
      try (apply in_zone_stg; eapply under_trans; [exact SU | apply below_under; exact A]).
    + apply andb_true_iff in A as [A1 A2]. apply andb_true_iff. split;
        apply in_zone_stg; (eapply under_trans; [exact SU | apply below_under; assumption]).
    + apply andb_true_iff in A as [_ A]. apply in_zone_stg. eapply under_trans; [exact SU | apply below_under; exact A].
  - destruct (o_kind o) eqn:K; try discriminate. unfold mv_sources in A.
    destruct f as [p|p|p|a d|p|p|k p]; try discriminate; cbn [targets forallb]; rewrite ?andb_true_r.
    + apply andb_true_iff in A as [A1 A2]. apply andb_true_iff. split.
      * apply in_zone_src; assumption.
      * apply in_zone_stg. eapply under_trans; [exact SU | apply below_under; exact A2].
    + apply in_zone_src; assumption.
    + apply in_zone_src; assumption.
  - destruct (o_kind o) eqn:K; try discriminate; apply orb_true_iff in A as [A|A];
      solve [eapply commit_new_zone; eassumption | eapply commit_version_zone; eassumption].
  - destruct (o_kind o) eqn:K; try discriminate. unfold purge_main in A. apply andb_true_iff in A as [V A].
    pose proof (below_under _ _ (main_root_within_lemma _ _ _ V)) as NU. fold (N_o c o) in NU.
    destruct f as [p|p|p|a d|p|p|k p]; try discriminate; cbn [targets forallb]; rewrite andb_true_r; apply in_zone_root.
    + apply andb_true_iff in A as [_ A]. eapply under_trans; [exact NU | apply below_under; exact A].
    + apply orb_true_iff in A as [A|A].
      * apply andb_true_iff in A as [_ A]. eapply under_trans; [exact NU | exact A].
      * apply andb_true_iff in A as [A _]. apply below_under. exact A.
  - destruct (o_kind o) eqn:K; try discriminate. unfold init_ops in A.
    destruct f as [p|p|p|a d|p|p|k p]; try discriminate; cbn [targets forallb]; rewrite andb_true_r.
    + apply orb_true_iff in A as [A|A]; [apply orb_true_iff in A as [A|A]|].
      * apply in_zone_mkdir. right. exact A.
      * apply in_zone_root. eapply under_trans; [apply (under_app (c_root c) [K_EXTENSIONS_DIR]) | apply below_under; exact A].
      * apply fpath_eqb_eq in A. subst p. apply in_zone_root. apply under_app.
    + apply in_zone_root. apply below_under. exact A.
  - destruct (o_kind o) eqn:K; try discriminate. unfold upgrade_repo_ops in A.
    destruct f as [p|p|p|a d|p|p|k p]; try discriminate; cbn [targets forallb]; rewrite andb_true_r;
      destruct (child_with_spec _ _ _ A) as [sg [Ep _]]; subst p; apply in_zone_root; apply under_app.
Qed.
