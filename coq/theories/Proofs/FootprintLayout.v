(** hashed_layouts_safe: the layouts 0003 (configured with tuples) and 0004 map EVERY object id to a root path whose
    components are all Normal (no "..", not absolute, at least one component, the first one not
    `extensions`): the lexical part of [validate_object_root] never refuses them and the root is
    strictly inside the storage root.  Stated over the code model Model/Layout.v ([Layout.map]);
    uses the C11 theorem [map_correct] (code model = document) to get the shape of the path. *)
From Coq Require Import List Arith PeanoNat NArith Ascii Bool Lia.
From Rocfl Require Import Base.Bytes Generated.Consts Model.Layout Model.LayoutSpec Model.KnownC11
  Proofs.LayoutFacts Proofs.LayoutMapFacts Proofs.LayoutMain.
From Rocfl Require Import Model.FsOps Model.Footprint Proofs.FootprintFacts Proofs.FootprintPaths.
Import ListNotations.
Open Scope N_scope.

Definition cleanc (c : ascii) : bool := negb (Ascii.eqb c SLASH) && negb (Ascii.eqb c "."%char).
Definition clean (s : bytes) : bool := forallb cleanc s.

Lemma clean_no_slash : forall s, clean s = true -> no_slash s = true.
Proof.
  unfold clean, no_slash. induction s as [|c s IH]; intro H; [reflexivity|]. cbn in *. apply andb_true_iff in H as [H1 H2].
  unfold cleanc in H1. apply andb_true_iff in H1 as [H1 _]. rewrite H1, (IH H2). reflexivity.
Qed.

Lemma clean_not_dots : forall s, clean s = true -> s <> [] -> is_skip s = false /\ is_dotdot s = false.
Proof.
  intros [|c s] H NE; [contradiction|]. cbn in H. apply andb_true_iff in H as [H _]. unfold cleanc in H.
  apply andb_true_iff in H as [_ H]. apply negb_true_iff in H. unfold is_skip, is_dot, is_dotdot. cbn. rewrite H. split; reflexivity.
Qed.

Lemma clean_app : forall x y, clean (x ++ y) = clean x && clean y.
Proof. intros. unfold clean. apply forallb_app. Qed.

Lemma join_split : forall segs, Forall (fun p => clean p = true) segs -> segs <> [] -> split_slash (join segs) = segs.
Proof.
  induction segs as [|p r IH]; intros F NE; [contradiction|]. inversion F as [|? ? Fp Fr]; subst.
  destruct r as [|q r].
  - cbn. apply split_no_slash. apply clean_no_slash. exact Fp.
  - change (join (p :: q :: r)) with (p ++ SLASH :: join (q :: r)). rewrite split_app_slash.
    rewrite (split_no_slash _ (clean_no_slash _ Fp)), IH; [reflexivity | exact Fr | discriminate].
Qed.

(** the first segment is not empty: the joined path is relative and names something *)
Lemma join_safe : forall p r, Forall (fun q => clean q = true) (p :: r) -> p <> [] ->
  rel_safe (join (p :: r)) = true /\ exists rest, ncomps (join (p :: r)) = p :: rest.
Proof.
  intros p r F NE. inversion F as [|? ? Fp Fr]; subst.
  assert (S : split_slash (join (p :: r)) = p :: r) by (apply join_split; [exact F | discriminate]).
  destruct (clean_not_dots _ Fp NE) as [K1 K2].
  assert (NC : ncomps (join (p :: r)) = p :: filter (fun q => negb (is_skip q)) r).
  { unfold ncomps. rewrite S. cbn [filter]. rewrite K1. reflexivity. }
  split; [|eexists; exact NC].
  unfold rel_safe, rel_inside, no_dotdot. rewrite NC. cbn [forallb is_nil negb]. rewrite K2. cbn [negb andb].
  assert (A : is_abs (join (p :: r)) = false).
  { destruct p as [|c p]; [contradiction|]. destruct r; cbn; cbn in Fp; apply andb_true_iff in Fp as [Fc _];
      unfold cleanc in Fc; apply andb_true_iff in Fc as [Fc _]; apply negb_true_iff in Fc; exact Fc. }
  rewrite A. cbn [negb andb]. rewrite andb_true_r.
  apply forallb_forall. intros q Hq. apply filter_In in Hq as [Hq Sq]. apply negb_true_iff in Sq.
  rewrite Forall_forall in Fr. specialize (Fr q Hq).
  destruct q as [|c q]; [discriminate|]. destruct (clean_not_dots _ Fr) as [_ D]; [discriminate|]. rewrite D. reflexivity.
Qed.

(** * the pieces of the hashed layouts are clean *)
Lemma hexl_cleanc : forall c, is_hex_lower c = true -> cleanc c = true.
Proof.
  intros c H. unfold cleanc. rewrite (hex_not_slash c H), (hex_not_dot c H). reflexivity.
Qed.

Lemma hexl_clean : forall s, forallb is_hex_lower s = true -> clean s = true.
Proof.
  unfold clean. induction s as [|c s IH]; intro H; [reflexivity|]. cbn in *. apply andb_true_iff in H as [H1 H2].
  rewrite (hexl_cleanc _ H1), (IH H2). reflexivity.
Qed.

Lemma forallb_firstn : forall {A} (f : A -> bool) n l, forallb f l = true -> forallb f (firstn n l) = true.
Proof.
  induction n as [|n IH]; intros [|x l] H; try reflexivity. cbn in *. apply andb_true_iff in H as [H1 H2].
  rewrite H1, (IH _ H2). reflexivity.
Qed.

Lemma forallb_skipn : forall {A} (f : A -> bool) n l, forallb f l = true -> forallb f (skipn n l) = true.
Proof.
  induction n as [|n IH]; intros [|x l] H; try reflexivity; try exact H. cbn in *. apply andb_true_iff in H as [_ H2].
  apply IH. exact H2.
Qed.

Lemma tuples_forall : forall (f : ascii -> bool) n size s, forallb f s = true ->
  Forall (fun t => forallb f t = true) (tuples n size s).
Proof.
  induction n as [|n IH]; intros size s H; cbn; constructor.
  - apply forallb_firstn. exact H.
  - apply IH. apply forallb_skipn. exact H.
Qed.

Lemma pct_clean : forall c, clean (pct c) = true.
Proof. apply ascii_forall. vm_compute. reflexivity. Qed.

Lemma safe_class_clean : forall c,
  negb (((65 <=? code c) && (code c <=? 90)) || ((97 <=? code c) && (code c <=? 122)) ||
        ((48 <=? code c) && (code c <=? 57)) || (code c =? 45) || (code c =? 95)) || cleanc c = true.
Proof. apply ascii_forall. vm_compute. reflexivity. Qed.

Lemma encode_char_clean : forall u, clean (encode_char u) = true.
Proof.
  intro u. unfold encode_char. destruct (safe_char u) eqn:S.
  - unfold safe_char in S. destruct (u_orig u) as [|c [|d r]]; try discriminate.
    pose proof (safe_class_clean c) as X. rewrite S in X. cbn in X. unfold clean. cbn. rewrite X. reflexivity.
  - unfold clean. induction (u_orig u) as [|c r IH]; [reflexivity|]. cbn [flat_map]. rewrite forallb_app.
    fold (clean (pct c)). rewrite pct_clean. exact IH.
Qed.

Lemma flat_encode_clean : forall id, clean (flat_map encode_char id) = true.
Proof.
  induction id as [|u id IH]; [reflexivity|]. cbn [flat_map]. rewrite clean_app, encode_char_clean, IH. reflexivity.
Qed.

Lemma encapsulation_clean : forall id dg, forallb is_hex_lower dg = true -> clean (encapsulation id dg) = true.
Proof.
  intros id dg H. unfold encapsulation. destruct (Nat.ltb 100 _).
  - rewrite clean_app. unfold clean at 1. rewrite (forallb_firstn _ _ _ (flat_encode_clean id)).
    unfold clean. cbn [forallb andb]. fold (clean dg). rewrite (hexl_clean _ H). reflexivity.
  - apply flat_encode_clean.
Qed.

Lemma alg_hexlen_pos : forall a, 0 < alg_hexlen a.
Proof. destruct a; vm_compute; reflexivity. Qed.

(** a non-empty string of hex digits is not the name `extensions` *)
Lemma hex_not_extensions : forall s, forallb is_hex_lower s = true -> seg_eqb s K_EXTENSIONS_DIR = false.
Proof.
  intros s H. destruct (seg_eqb s K_EXTENSIONS_DIR) eqn:E; [|reflexivity]. apply seg_eqb_eq in E. subst s.
  vm_compute in H. discriminate.
Qed.

(** 0003 with tupleSize = numberOfTuples = 0 is left out: since fix e1de1bb of /repo its root is
    the percent-encoded id alone (C11), e.g. `extensions` for the id `extensions` and the empty path
    for the empty id; those roots are refused by validate_object_root, not made safe by the layout. *)
Theorem hashed_layouts_safe_lemma : forall (c : Layout.cfg) id dg p,
  (c_ext c = E0003 /\ c_ts c <> 0 \/ c_ext c = E0004) ->
  Layout.cfg_ok c = true -> inputs_ok c id dg = true ->
  Layout.map c id dg = Ok p ->
  rel_safe p = true /\ first_is_extensions p = false /\
  forall R, below R (main_root R p) = true.
Proof.
  intros c id dg p He0 Hok Hin Hm.
  assert (K1 : c_ext c = E0003 -> c_ts c <> 0) by (intro E3; destruct He0 as [[_ T]|E4]; [exact T | congruence]).
  assert (He : c_ext c = E0003 \/ c_ext c = E0004) by (destruct He0 as [[E3 _]|E4]; [left | right]; assumption).
  pose proof (map_is_spec c id dg Hok Hin) as MC. rewrite Hm in MC. cbn [refusal] in MC.
  destruct (inputs_ok_inv _ _ _ Hin) as (_ & _ & W3).
  destruct (cfg_ok_hashed c He Hok) as [Hz Hp].
  pose proof W3 as W3'. unfold digest_ok in W3'. apply andb_true_iff in W3' as [Hl HX].
  assert (DL : (0 < List.length dg)%nat).
  { pose proof (alg_hexlen_pos (c_alg c)). unfold blen in Hl. lia. }
  (* the segments: tuples and a last segment, all clean, the first one a non-empty hex string *)
  assert (G : exists s1 r, p = join (s1 :: r) /\ Forall (fun q => clean q = true) (s1 :: r) /\ s1 <> [] /\
                           forallb is_hex_lower s1 = true).
  { unfold LayoutSpec.map in MC.
    set (nt := N.to_nat (c_nt c)) in *. set (ts := N.to_nat (c_ts c)) in *.
    assert (TF : Forall (fun q => clean q = true) (tuples nt ts dg)).
    { pose proof (tuples_forall is_hex_lower nt ts dg HX) as T. rewrite Forall_forall in *. intros q Hq. apply hexl_clean. apply T. exact Hq. }
    assert (HD : forall last, clean last = true -> (nt = 0%nat -> last <> [] /\ forallb is_hex_lower last = true) ->
                 exists s1 r, join (tuples nt ts dg ++ [last]) = join (s1 :: r) /\ Forall (fun q => clean q = true) (s1 :: r) /\ s1 <> [] /\
                              forallb is_hex_lower s1 = true).
    { intros last CL Z. destruct nt as [|n] eqn:En.
      - destruct (Z eq_refl) as [Z1 Z2]. exists last, []. cbn. repeat split; try assumption. repeat constructor. exact CL.
      - assert (TS : ts <> 0%nat).
        { intro E0. assert (c_ts c = 0) by (subst ts; lia). assert (c_nt c = 0) by (apply Hz; assumption). subst nt. lia. }
        cbn [tuples app]. exists (firstn ts dg), (tuples n ts (skipn ts dg) ++ [last]). split; [reflexivity|]. split; [|split].
        + cbn [tuples] in TF. inversion TF; subst. constructor; [assumption|]. apply Forall_app. split; [assumption | repeat constructor; exact CL].
        + destruct dg as [|d dg']; [cbn in DL; lia|]. destruct ts; [contradiction | discriminate].
        + apply forallb_firstn. exact HX. }
    destruct He as [He|He]; rewrite He in MC.
    - (* 0003 *)
      unfold spec_0003 in MC. inversion MC as [MP]. fold nt ts in MP |- *.
      destruct (HD (encapsulation (us_chars id) dg)) as [s1 [r [E1 E2]]].
      + apply encapsulation_clean. exact HX.
      + intro Z. exfalso. apply (K1 He).
        assert (c_nt c = 0) by (subst nt; lia). apply Hz; assumption.
      + exists s1, r. rewrite <- E1. split; [reflexivity | exact E2].
    - (* 0004 *)
      unfold spec_0004 in MC. inversion MC as [MP]. fold nt ts in MP |- *.
      set (last := if c_short c then skipn (ts * nt) dg else dg) in *.
      assert (CL : clean last = true).
      { subst last. destruct (c_short c); apply hexl_clean; [apply forallb_skipn|]; exact HX. }
      destruct (HD last CL) as [s1 [r [E1 E2]]].
      + intro Z. subst last. rewrite Z, Nat.mul_0_r. cbn [skipn]. destruct (c_short c); (split; [destruct dg; [cbn in DL; lia | discriminate] | exact HX]).
      + exists s1, r. rewrite <- E1. split; [reflexivity | exact E2]. }
  destruct G as [s1 [r [Ep [F [NE H1]]]]]. subst p.
  destruct (join_safe s1 r F NE) as [RS [rest NC]].
  split; [exact RS|]. split.
  - unfold first_is_extensions. rewrite NC. apply hex_not_extensions. exact H1.
  - intro R. unfold main_root. apply normalize_below. exact RS.
Qed.
