(** The C03 / C12 statements assembled from the Footprint* lemma files, the witnesses of the
    known finding and concrete instances (non-vacuity). *)
From Coq Require Import List Arith PeanoNat NArith Ascii Bool Lia.
From Rocfl Require Import Base.Bytes Model.FsOps Generated.Consts Model.Footprint
  Proofs.FootprintFacts Proofs.FootprintPaths Proofs.FootprintGuard Proofs.FootprintCommitted Proofs.FootprintGen.
Import ListNotations.
Open Scope N_scope.

(** C03: no target of an allowed call of an operation other than purge lies inside a committed
    version directory of any object *)
Lemma allowed_not_in_committed : forall c s o f p,
  env_ok c s -> hex_ok (o_hex o) = true -> (o_kind o = KMvExt -> o_csrcs o = o_srcs o) ->
  o_kind o <> KPurge -> (o_kind o = KInit -> p_objs s = []) ->
  allowed c s o f = true -> In p (targets f) -> in_committed s p = false.
Proof.
  intros c s o f p E HX KC NP NI A Hp. apply (touch_ok_not_committed s o p (e_ver _ _ E)).
  intros m Hin. eapply allowed_respects_objects; eassumption.
Qed.

(** C03, purge: the committed version directories of every OTHER object are untouched *)
Lemma purge_not_in_other_committed : forall c s o f p m v,
  env_ok c s -> hex_ok (o_hex o) = true -> o_kind o = KPurge ->
  allowed c s o f = true -> In p (targets f) ->
  In m (p_objs s) -> m_root m <> N_o c o -> In v (m_versions m) -> under (m_root m ++ [v]) p = false.
Proof.
  intros c s o f p m v E HX K A Hp Hin NE Hv.
  pose proof (purge_respects_others c s o f m p E HX K A Hin NE Hp) as U.
  destruct (under (m_root m ++ [v]) p) eqn:X; [|reflexivity].
  pose proof (under_trans _ _ _ (under_app (m_root m) [v]) X). congruence.
Qed.

Lemma gin_ok_hex : forall c s o g, gin_ok c s o g = true -> hex_ok (o_hex o) = true.
Proof.
  intros c s o g H. unfold gin_ok in H. do 16 (apply andb_true_iff in H as [H _]). exact H.
Qed.

Lemma Forall_firstn : forall {A} (P : A -> Prop) k l, Forall P l -> Forall P (firstn k l).
Proof.
  intros A P k l H. revert k. induction H as [|x l Hx Hl IH]; intros [|k]; cbn; constructor; auto.
Qed.

(** model_trace_allowed, with the prefix closure spelled out: whatever prefix of the generated
    trace was executed (the run was killed, or stopped at a failing call), every call satisfies
    [allowed] *)
Lemma gen_prefix_allowed : forall c s o g k,
  gin_ok c s o g = true -> Forall (fun x => allowed c s o (snd x) = true) (firstn k (gen c o g)).
Proof. intros c s o g k H. apply Forall_firstn. apply (gen_allowed c s o g H). Qed.

(** C12 for the generated traces *)
Lemma gen_in_zone : forall c s o g k,
  objs_in_root c s -> gin_ok c s o g = true ->
  Forall (fun x => forallb (in_zone c o (snd x)) (targets (snd x)) = true) (firstn k (gen c o g)).
Proof.
  intros c s o g k IR H. pose proof (gen_prefix_allowed c s o g k H) as F. rewrite Forall_forall in *.
  intros x Hx. apply (allowed_in_zone_lemma c s o (snd x) (gin_ok_hex _ _ _ _ H) IR). apply F. exact Hx.
Qed.

(** C03 for the generated traces *)
Lemma gen_not_in_committed : forall c s o g k,
  env_ok c s -> (o_kind o = KMvExt -> o_csrcs o = o_srcs o) -> o_kind o <> KPurge -> (o_kind o = KInit -> p_objs s = []) ->
  gin_ok c s o g = true ->
  Forall (fun x => forall p, In p (targets (snd x)) -> in_committed s p = false) (firstn k (gen c o g)).
Proof.
  intros c s o g k E KC NP NI H. pose proof (gen_prefix_allowed c s o g k H) as F. rewrite Forall_forall in *.
  intros x Hx p Hp. eapply allowed_not_in_committed; try eassumption.
  - eapply gin_ok_hex; eassumption.
  - apply F. exact Hx.
Qed.

(** * concrete instances *)
Definition ex_R : fpath := [b "srv"; b "repo"].
Definition ex_c : cfg := mkCfg ex_R (default_staging ex_R).
Definition ex_hex : bytes := b "2352da7280f1decc3acf1ba84eb945c9fc2b7b541094e1d0992dbffd1b6664cc".
Definition ex_obj : mobj := mkObj (ex_R ++ [b "a"]) [b "v1"].
Definition ex_s : pre := mkPre [ex_obj] [] false.
Definition ex_src : fpath := ex_R ++ [b "a"; b "v1"; b "content"; b "a.txt"].
Definition ex_mv : opd := mkOp KMvExt ex_hex (b "v2") (b "a") true [ex_src] [ex_src].
Definition ex_mv_call : fsop :=
  Rename ex_src (S_o ex_c ex_mv ++ [b "v2"; b "content"; b "stolen.txt"]).
Definition ex_mv_outside : opd :=
  mkOp KMvExt ex_hex (b "v2") (b "a") true [[b "home"; b "u"; b "m.txt"]] [[b "home"; b "u"; b "m.txt"]].

(** since fix 128b230 an external mv whose named source is a committed content file is refused:
    the rename is not in the footprint any more (only staging infrastructure is), while a source
    outside the repository is moved as before *)
Lemma mv_source_in_repo_refused :
  mv_refused ex_c ex_mv = true /\ in_committed ex_s ex_src = true /\
  allowed ex_c ex_s ex_mv ex_mv_call = false /\
  allowed ex_c ex_s ex_mv (CreateNew (lockf ex_c ex_mv)) = false /\
  allowed ex_c ex_s ex_mv_outside
    (Rename [b "home"; b "u"; b "m.txt"] (S_o ex_c ex_mv ++ [b "v2"; b "content"; b "m.txt"])) = true.
Proof. repeat split; vm_compute; reflexivity. Qed.

Lemma ex_env_ok : env_ok ex_c ex_s.
Proof.
  constructor.
  - left. reflexivity.
  - intros m [E|[]]. subst. vm_compute. reflexivity.
  - intros m1 m2 [E1|[]] [E2|[]] _. subst. reflexivity.
  - intros m [E|[]]. subst. split; vm_compute; reflexivity.
  - intros q [].
  - intros m v [E|[]] Hv. subst. destruct Hv as [E|[]]. subst. vm_compute. reflexivity.
Qed.

(** a commit of version v2 of object `a` and the commit of a new object `p/q/r` *)
Definition ex_commit : opd := mkOp KCommit ex_hex (b "v2") (b "a") true [] [].
Definition ex_gin : gin :=
  mkGin None (b "inventory.json.sha512") [] [] [] [] [b "v2/content/dup.txt"] []
        [S_o ex_c ex_commit ++ [b "inventory.json"]] [S_o ex_c ex_commit] [] None.
Definition ex_new : opd := mkOp KCommit ex_hex (b "v1") (b "p/q/r") false [] [].
Definition ex_gin_new : gin :=
  mkGin None (b "inventory.json.sha512") [] [] [] [] [] [] [] [] [] None.

Lemma ex_gin_ok : gin_ok ex_c ex_s ex_commit ex_gin = true /\ gin_ok ex_c ex_s ex_new ex_gin_new = true
  /\ op_runs ex_c ex_commit = true
  /\ List.length (gen ex_c ex_commit ex_gin) = 35%nat /\ List.length (gen ex_c ex_new ex_gin_new) = 28%nat.
Proof. repeat split; vm_compute; reflexivity. Qed.

(** the guard on concrete roots: accepted, nested, escaping, reserved, occupied *)
Lemma ex_guard :
  new_root_ok ex_s ex_R (b "p/q/r") = true /\ new_root_ok ex_s ex_R (b "./x") = true
  /\ new_root_ok ex_s ex_R (b "a/b") = false /\ new_root_ok ex_s ex_R (b "../x") = false
  /\ new_root_ok ex_s ex_R (b "/abs/path") = false /\ new_root_ok ex_s ex_R (b "x/../y") = false
  /\ new_root_ok ex_s ex_R (b ".") = false /\ new_root_ok ex_s ex_R (b "") = false
  /\ new_root_ok ex_s ex_R (b "extensions/rocfl-staging/x") = false /\ new_root_ok ex_s ex_R (b "a") = false.
Proof. repeat split; vm_compute; reflexivity. Qed.
