(** The path computations of rocfl (Model/Footprint.v part b) stay where they should:
    accepted logical paths / content directories / version names, the hashed staging
    layout and the lock file.  (C12: staged_paths_within and its ingredients.) *)
From Coq Require Import List Arith PeanoNat NArith Ascii Bool Lia.
From Rocfl Require Import Base.Bytes Model.FsOps Generated.Consts Model.Footprint Proofs.FootprintFacts.
Import ListNotations.
Open Scope N_scope.

(** * characters *)

Lemma digit_not_slash : forall c, is_digit c = true -> Ascii.eqb c SLASH = false.
Proof.
  intros c H. destruct (Ascii.eqb c SLASH) eqn:E; [|reflexivity]. apply Ascii.eqb_eq in E. subst. vm_compute in H. discriminate.
Qed.

Lemma hex_not_slash : forall c, is_hex_digit c = true -> Ascii.eqb c SLASH = false.
Proof.
  intros c H. destruct (Ascii.eqb c SLASH) eqn:E; [|reflexivity]. apply Ascii.eqb_eq in E. subst. vm_compute in H. discriminate.
Qed.

Lemma hex_not_dot : forall c, is_hex_digit c = true -> Ascii.eqb c "."%char = false.
Proof.
  intros c H. destruct (Ascii.eqb c "."%char) eqn:E; [|reflexivity]. apply Ascii.eqb_eq in E. subst. vm_compute in H. discriminate.
Qed.

Lemma allhex_no_slash : forall x, forallb is_hex_digit x = true -> no_slash x = true.
Proof.
  unfold no_slash. induction x as [|c x IH]; intro H; [reflexivity|]. cbn in *. apply andb_true_iff in H as [H1 H2].
  rewrite (hex_not_slash _ H1), (IH H2). reflexivity.
Qed.

Lemma allhex_not_dots : forall x, forallb is_hex_digit x = true -> x <> [] -> is_dot x = false /\ is_dotdot x = false.
Proof.
  intros [|c x] H NE; [contradiction|]. cbn in H. apply andb_true_iff in H as [H1 _].
  unfold is_dot, is_dotdot. cbn. rewrite (hex_not_dot _ H1). split; reflexivity.
Qed.

Lemma allhex_firstn : forall n x, forallb is_hex_digit x = true -> forallb is_hex_digit (firstn n x) = true.
Proof.
  induction n as [|n IH]; intros [|c x] H; try reflexivity. cbn in *. apply andb_true_iff in H as [H1 H2].
  rewrite H1, (IH _ H2). reflexivity.
Qed.

Lemma allhex_skipn : forall n x, forallb is_hex_digit x = true -> forallb is_hex_digit (skipn n x) = true.
Proof.
  induction n as [|n IH]; intros [|c x] H; try reflexivity; try exact H. cbn in *. apply andb_true_iff in H as [_ H2].
  apply IH. exact H2.
Qed.

(** the components of a string of hex digits: none (empty string) or the string itself *)
Lemma allhex_ncomps : forall x, forallb is_hex_digit x = true ->
  ncomps x = (if is_nil x then [] else [x]) /\ forallb (fun p => negb (is_dotdot p)) (ncomps x) = true.
Proof.
  intros x H. destruct x as [|c x].
  - split; reflexivity.
  - assert (NE : c :: x <> []) by discriminate.
    destruct (allhex_not_dots _ H NE) as [D1 D2].
    assert (E : ncomps (c :: x) = [c :: x]).
    { apply ncomps_single; [apply allhex_no_slash; exact H | cbn; exact D1]. }
    rewrite E. split; [reflexivity|]. cbn [forallb]. rewrite D2. reflexivity.
Qed.

(** * the hashed staging layout *)

Lemma hashed_rel_comps : forall h, hex_ok h = true ->
  is_abs (hashed_rel h) = false /\
  forallb (fun p => negb (is_dotdot p)) (ncomps (hashed_rel h)) = true /\
  exists pre_, ncomps (hashed_rel h) = pre_ ++ [h].
Proof.
  intros h H. unfold hex_ok in H. apply andb_true_iff in H as [NE H].
  assert (H1 := allhex_firstn 3 _ H).
  assert (H2 := allhex_firstn 3 _ (allhex_skipn 3 _ H)).
  assert (H3 := allhex_firstn 3 _ (allhex_skipn 6 _ H)).
  destruct (allhex_ncomps _ H1) as [E1 D1]. destruct (allhex_ncomps _ H2) as [E2 D2].
  destruct (allhex_ncomps _ H3) as [E3 D3]. destruct (allhex_ncomps _ H) as [E4 D4].
  unfold hashed_rel. rewrite !ncomps_app_slash.
  split; [|split].
  - destruct h as [|c h]; [discriminate|]. cbn. cbn in H. apply andb_true_iff in H as [Hc _]. apply hex_not_slash. exact Hc.
  - rewrite !forallb_app, D1, D2, D3, D4. reflexivity.
  - exists (ncomps (firstn 3 h) ++ ncomps (firstn 3 (skipn 3 h)) ++ ncomps (firstn 3 (skipn 6 h))).
    rewrite E4. destruct h; [discriminate|]. cbn [is_nil]. rewrite <- !app_assoc. reflexivity.
Qed.

Lemma hashed_rel_safe : forall h, hex_ok h = true -> rel_safe (hashed_rel h) = true.
Proof.
  intros h H. destruct (hashed_rel_comps _ H) as [A [D [pre_ E]]].
  unfold rel_safe, rel_inside, no_dotdot. rewrite A, D, E. destruct pre_; reflexivity.
Qed.

Lemma staged_root_eq : forall S h, hex_ok h = true -> staged_root S h = S ++ ncomps (hashed_rel h).
Proof. intros S h H. unfold staged_root. apply normalize_inside. apply rel_safe_inside. apply hashed_rel_safe. exact H. Qed.

(** the staged object root lies strictly below the staging root, whatever the id *)
Lemma staged_root_below : forall S h, hex_ok h = true -> below S (staged_root S h) = true.
Proof. intros S h H. unfold staged_root. apply normalize_below. apply hashed_rel_safe. exact H. Qed.

Lemma lock_name_normal : forall h, hex_ok h = true -> seg_normal (h ++ b ".lock") = true.
Proof.
  intros h H. unfold hex_ok in H. apply andb_true_iff in H as [NE H]. destruct h as [|c h]; [discriminate|].
  cbn in H. apply andb_true_iff in H as [Hc Hh]. unfold seg_normal.
  assert (S1 : is_skip ((c :: h) ++ b ".lock") = false).
  { cbn. unfold is_dot. cbn. rewrite (hex_not_dot _ Hc). reflexivity. }
  assert (S2 : is_dotdot ((c :: h) ++ b ".lock") = false).
  { unfold is_dotdot. cbn. rewrite (hex_not_dot _ Hc). reflexivity. }
  rewrite S1, S2. cbn [negb andb]. rewrite forallb_app. cbn [app forallb].
  rewrite (hex_not_slash _ Hc). cbn [negb andb].
  change (forallb (fun c0 => negb (Ascii.eqb c0 SLASH)) h) with (no_slash h). rewrite (allhex_no_slash _ Hh).
  vm_compute. reflexivity.
Qed.

Lemma lock_file_eq : forall S h, hex_ok h = true -> lock_file S h = locks_dir S ++ [h ++ b ".lock"].
Proof. intros S h H. unfold lock_file. apply normalize_seg. apply lock_name_normal. exact H. Qed.

Lemma lock_file_below : forall S h, hex_ok h = true -> below S (lock_file S h) = true.
Proof.
  intros S h H. rewrite (lock_file_eq _ _ H). unfold locks_dir. rewrite <- app_assoc. apply below_app.
Qed.

(** * version names, content directories, logical paths *)

Lemma vstr_normal : forall v, is_vstr v = true -> seg_normal v = true.
Proof.
  intros [|c ds] H; [discriminate|]. cbn in H. apply andb_true_iff in H as [H Hd]. apply andb_true_iff in H as [Hc NE].
  apply Ascii.eqb_eq in Hc. subst c. unfold seg_normal. cbn.
  assert (forallb (fun c => negb (Ascii.eqb c SLASH)) ds = true) as ->.
  { clear NE. induction ds as [|d ds IH]; [reflexivity|]. cbn in *. apply andb_true_iff in Hd as [H1 H2].
    rewrite (digit_not_slash _ H1), (IH H2). reflexivity. }
  reflexivity.
Qed.

Lemma cdir_comps : forall d, validate_content_dir d = true ->
  is_abs d = false /\ ncomps d = (if is_nil d then [] else [d]) /\ forallb (fun p => negb (is_dotdot p)) (ncomps d) = true.
Proof.
  intros d H. unfold validate_content_dir in H. apply negb_true_iff in H.
  apply orb_false_iff in H as [H H3]. apply orb_false_iff in H as [H1 H2].
  assert (NS : no_slash d = true).
  { clear H1 H2. unfold no_slash. induction d as [|c d IH]; [reflexivity|]. cbn in *. apply orb_false_iff in H3 as [A B].
    rewrite A, (IH B). reflexivity. }
  split; [apply no_slash_not_abs; exact NS|].
  destruct d as [|c d]; [split; reflexivity|].
  assert (E : ncomps (c :: d) = [c :: d]) by (apply ncomps_single; [exact NS | exact H1]).
  rewrite E. split; [reflexivity|]. cbn [forallb]. rewrite H2. reflexivity.
Qed.

Lemma is_abs_split : forall s, is_abs s = true -> exists r, split_slash s = [] :: r.
Proof.
  intros [|c s] H; [discriminate|]. cbn in H. cbn [split_slash]. rewrite H. eexists. reflexivity.
Qed.

(** an accepted logical / content path: no component leaves, and a non-empty one names something *)
Lemma inv_path_parse_safe : forall v t, inv_path_parse v = Some t ->
  rel_inside t = true /\ (t <> [] -> rel_safe t = true) /\ ncomps t = (if is_nil t then [] else split_slash t).
Proof.
  intros v t H. unfold inv_path_parse in H. remember (trim_slashes v) as u eqn:Eu. clear Eu v.
  destruct u as [|c u].
  - inversion H; subst. repeat split; try reflexivity. intro; contradiction.
  - destruct (existsb (fun p : fseg => is_nil p || is_dot p || is_dotdot p) (split_slash (c :: u))) eqn:Ex; [discriminate|]. inversion H; subst t. clear H.
    assert (F : forall p, In p (split_slash (c :: u)) -> is_nil p = false /\ is_dot p = false /\ is_dotdot p = false).
    { intros p Hin. destruct (is_nil p || is_dot p || is_dotdot p) eqn:E.
      - assert (existsb (fun p => is_nil p || is_dot p || is_dotdot p) (split_slash (c :: u)) = true) as X
          by (apply existsb_exists; exists p; split; assumption). congruence.
      - apply orb_false_iff in E as [E E3]. apply orb_false_iff in E as [E1 E2]. repeat split; assumption. }
    assert (NC : ncomps (c :: u) = split_slash (c :: u)).
    { unfold ncomps. apply filter_id. apply forallb_forall. intros p Hin. destruct (F p Hin) as [A [B _]].
      destruct p as [|a p]; [discriminate|]. change (negb (is_dot (a :: p)) = true). rewrite B. reflexivity. }
    assert (ND : no_dotdot (c :: u) = true).
    { unfold no_dotdot. rewrite NC. apply forallb_forall. intros p Hin. destruct (F p Hin) as [_ [_ C]]. rewrite C. reflexivity. }
    assert (NA : is_abs (c :: u) = false).
    { destruct (is_abs (c :: u)) eqn:A; [|reflexivity]. destruct (is_abs_split _ A) as [r Er].
      destruct (F [] ) as [X _]; [rewrite Er; left; reflexivity | discriminate]. }
    assert (RI : rel_inside (c :: u) = true) by (unfold rel_inside; rewrite NA, ND; reflexivity).
    split; [exact RI|]. split; [|exact NC].
    intros _. unfold rel_safe. rewrite RI, NC. pose proof (split_slash_nonempty (c :: u)).
    destruct (split_slash (c :: u)); [contradiction | reflexivity].
Qed.

(** ** staged_paths_within: the file a staging operation writes for an accepted logical path *)
Lemma new_content_path_comps : forall v d t,
  ncomps (new_content_path v d t) = ncomps v ++ ncomps d ++ ncomps t.
Proof. intros. unfold new_content_path. rewrite !ncomps_app_slash. reflexivity. Qed.

Lemma new_content_path_safe : forall v d l t,
  is_vstr v = true -> validate_content_dir d = true -> inv_path_parse l = Some t ->
  rel_safe (new_content_path v d t) = true /\
  forall base, normalize base (new_content_path v d t) = base ++ [v] ++ ncomps d ++ ncomps t.
Proof.
  intros v d l t Hv Hd Hl.
  pose proof (vstr_normal _ Hv) as NV. destruct (seg_normal_single _ NV) as [EV DV].
  destruct (cdir_comps _ Hd) as [_ [ED DD]]. destruct (inv_path_parse_safe _ _ Hl) as [RT _].
  unfold rel_inside in RT. apply andb_true_iff in RT as [_ DT].
  assert (RS : rel_safe (new_content_path v d t) = true).
  { unfold rel_safe, rel_inside, no_dotdot. rewrite new_content_path_comps, EV.
    rewrite !forallb_app. cbn [forallb]. rewrite DV, DD. unfold no_dotdot in DT. rewrite DT.
    assert (is_abs (new_content_path v d t) = false) as ->.
    { destruct v as [|c ds]; [discriminate|]. cbn in Hv. apply andb_true_iff in Hv as [Hv _]. apply andb_true_iff in Hv as [Hc _].
      apply Ascii.eqb_eq in Hc. subst. reflexivity. }
    reflexivity. }
  split; [exact RS|]. intro base. rewrite (normalize_inside _ _ (rel_safe_inside _ RS)), new_content_path_comps, EV. reflexivity.
Qed.

Lemma staged_paths_within_lemma : forall S h v d l t,
  hex_ok h = true -> is_vstr v = true -> validate_content_dir d = true -> inv_path_parse l = Some t ->
  below (staged_root S h ++ [v]) (normalize (staged_root S h) (new_content_path v d t)) = true
  \/ normalize (staged_root S h) (new_content_path v d t) = staged_root S h ++ [v].
Proof.
  intros S h v d l t Hh Hv Hd Hl. destruct (new_content_path_safe _ _ _ _ Hv Hd Hl) as [_ E]. rewrite E.
  destruct (ncomps d ++ ncomps t) as [|sg r] eqn:X.
  - right. reflexivity.
  - left. change (staged_root S h ++ [v] ++ sg :: r) with (staged_root S h ++ ([v] ++ sg :: r)).
    rewrite app_assoc. apply below_app.
Qed.

Lemma staged_file_within_staging : forall S h v d l t,
  hex_ok h = true -> is_vstr v = true -> validate_content_dir d = true -> inv_path_parse l = Some t ->
  below (staged_root S h) (normalize (staged_root S h) (new_content_path v d t)) = true /\
  below S (normalize (staged_root S h) (new_content_path v d t)) = true.
Proof.
  intros S h v d l t Hh Hv Hd Hl. destruct (new_content_path_safe _ _ _ _ Hv Hd Hl) as [RS _].
  pose proof (normalize_below (staged_root S h) _ RS) as B. split; [exact B|].
  eapply under_below_trans; [|exact B]. apply below_under. apply staged_root_below. exact Hh.
Qed.

(** the inventory path rule implies the semantic condition used for every content path *)
Lemma cpath_rel_safe : forall v t, inv_path_parse v = Some t -> t <> [] -> rel_safe t = true.
Proof. intros v t H NE. destruct (inv_path_parse_safe _ _ H) as [_ [X _]]. apply X. exact NE. Qed.
