(** Facts about Model/FsTree.v: path equality and prefixes, lookup after every file-system
    operation (frame lemmas), rename of a subtree. *)
From Coq Require Import List NArith Ascii Bool Arith Lia.
From Rocfl Require Import Model.FsOps Model.FsTree.
Import ListNotations.

(** * equality of segments and paths *)
Lemma seg_eqb_refl x : seg_eqb x x = true.
Proof. induction x as [|c x IH]; cbn; [reflexivity|]. now rewrite Ascii.eqb_refl, IH. Qed.

Lemma seg_eqb_eq x y : seg_eqb x y = true <-> x = y.
Proof.
  revert y; induction x as [|c x IH]; intros [|d y]; cbn; split; try congruence; try reflexivity.
  - intros H. apply andb_true_iff in H as [H1 H2]. apply Ascii.eqb_eq in H1. apply IH in H2. congruence.
  - intros H. injection H as -> ->. now rewrite Ascii.eqb_refl, seg_eqb_refl.
Qed.

Lemma seg_eqb_neq x y : seg_eqb x y = false <-> x <> y.
Proof.
  split.
  - intros H E. apply seg_eqb_eq in E. congruence.
  - intros H. destruct (seg_eqb x y) eqn:E; [|reflexivity]. apply seg_eqb_eq in E. contradiction.
Qed.

Lemma path_eqb_refl x : path_eqb x x = true.
Proof. induction x as [|c x IH]; cbn; [reflexivity|]. now rewrite seg_eqb_refl, IH. Qed.

Lemma path_eqb_eq x y : path_eqb x y = true <-> x = y.
Proof.
  revert y; induction x as [|c x IH]; intros [|d y]; cbn; split; try congruence; try reflexivity.
  - intros H. apply andb_true_iff in H as [H1 H2]. apply seg_eqb_eq in H1. apply IH in H2. congruence.
  - intros H. injection H as -> ->. now rewrite seg_eqb_refl, path_eqb_refl.
Qed.

Lemma path_eqb_neq x y : path_eqb x y = false <-> x <> y.
Proof.
  split.
  - intros H E. apply path_eqb_eq in E. congruence.
  - intros H. destruct (path_eqb x y) eqn:E; [|reflexivity]. apply path_eqb_eq in E. contradiction.
Qed.

Lemma path_eqb_sym x y : path_eqb x y = path_eqb y x.
Proof.
  destruct (path_eqb x y) eqn:E.
  - apply path_eqb_eq in E. subst. now rewrite path_eqb_refl.
  - symmetry. apply path_eqb_neq. apply path_eqb_neq in E. congruence.
Qed.

Lemma path_eq_dec (x y : fpath) : {x = y} + {x <> y}.
Proof.
  destruct (path_eqb x y) eqn:E; [left; now apply path_eqb_eq | right; now apply path_eqb_neq].
Qed.

(** * prefixes *)
Lemma under_iff root p : under root p = true <-> exists s, p = root ++ s.
Proof.
  revert p; induction root as [|r root IH]; intros p; cbn.
  - split; [intros _; now exists p | reflexivity].
  - destruct p as [|s p]; cbn.
    + split; [discriminate | intros [x H]; discriminate].
    + rewrite andb_true_iff, seg_eqb_eq, IH. split.
      * intros [-> [x ->]]. now exists x.
      * intros [x H]. injection H as -> ->. split; [reflexivity | now exists x].
Qed.

Lemma under_refl p : under p p = true.
Proof. apply under_iff. exists []. now rewrite app_nil_r. Qed.

Lemma under_app root s : under root (root ++ s) = true.
Proof. apply under_iff. now exists s. Qed.

Lemma under_trans a c d : under a c = true -> under c d = true -> under a d = true.
Proof.
  rewrite !under_iff. intros [x ->] [y ->]. exists (x ++ y). now rewrite app_assoc.
Qed.

Lemma under_length root p : under root p = true -> (List.length root <= List.length p)%nat.
Proof. rewrite under_iff. intros [s ->]. rewrite app_length. lia. Qed.

Lemma under_antisym a c : under a c = true -> under c a = true -> a = c.
Proof.
  rewrite !under_iff. intros [x ->] [y H].
  apply (f_equal (@List.length _)) in H as L. rewrite !app_length in L.
  assert (x = []) by (destruct x; [reflexivity | cbn in L; lia]).
  subst. now rewrite app_nil_r.
Qed.

(** two prefixes of one path are comparable *)
Lemma under_comparable a c x : under a x = true -> under c x = true -> under a c = true \/ under c a = true.
Proof.
  revert c x; induction a as [|r a IH]; intros c x; [intros; now left|].
  destruct c as [|s c]; [intros; now right|].
  destruct x as [|y x]; cbn; [discriminate|].
  rewrite !andb_true_iff, !seg_eqb_eq. intros [-> H1] [-> H2].
  destruct (IH _ _ H1 H2); [left | right]; auto.
Qed.

Lemma under_skipn root p : under root p = true -> p = root ++ skipn (List.length root) p.
Proof.
  rewrite under_iff. intros [s ->]. rewrite skipn_app, skipn_all, Nat.sub_diag. reflexivity.
Qed.

Lemma under_app_inv root s p : under (root ++ s) p = true -> under root p = true.
Proof. intros H. eapply under_trans; [apply under_app | exact H]. Qed.

Lemma app_under_cancel root x y : under (root ++ x) (root ++ y) = under x y.
Proof.
  induction root as [|r root IH]; cbn; [reflexivity|]. now rewrite seg_eqb_refl, IH.
Qed.

Lemma under_single_neq root a c s : a <> c -> under (root ++ [a]) (root ++ c :: s) = false.
Proof.
  intros H. rewrite app_under_cancel. cbn. apply seg_eqb_neq in H. now rewrite H.
Qed.

Lemma below_under root p : below root p = true -> under root p = true.
Proof. unfold below. now intros H%andb_true_iff. Qed.

Lemma below_iff root p : below root p = true <-> under root p = true /\ p <> root.
Proof.
  unfold below. rewrite andb_true_iff, negb_true_iff, Nat.eqb_neq. split.
  - intros [H1 H2]. split; [exact H1|]. intros ->. contradiction.
  - intros [H1 H2]. split; [exact H1|]. intros L. apply H2.
    apply under_iff in H1 as [s ->]. rewrite app_length in L.
    destruct s; [now rewrite app_nil_r | cbn in L; lia].
Qed.

Lemma below_app root s : s <> [] -> below root (root ++ s) = true.
Proof.
  intros H. apply below_iff. split; [apply under_app|].
  intros E. apply H. rewrite <- (app_nil_r root) in E at 2. now apply app_inv_head in E.
Qed.

Lemma removelast_app_single {A} (l : list A) x : removelast (l ++ [x]) = l.
Proof. now rewrite removelast_last. Qed.

Lemma parent_app p x : parent (p ++ [x]) = p.
Proof. apply removelast_app_single. Qed.

Lemma last_app_single {A} (l : list A) x d : last (l ++ [x]) d = x.
Proof. apply last_last. Qed.

Lemma under_parent p : under (parent p) p = true.
Proof.
  destruct p as [|a p]; [reflexivity|].
  destruct (@exists_last _ (a :: p)) as [l [x E]]; [discriminate|].
  rewrite E. unfold parent. rewrite removelast_last. apply under_app.
Qed.

Lemma nonempty_last {A} (p : list A) : p <> [] -> exists l x, p = l ++ [x].
Proof. intros H. destruct (exists_last H) as [l [x ->]]. eauto. Qed.

(** * lookup, insert, remove *)
Lemma lookup_remove_eq p t : lookup (remove p t) p = None.
Proof.
  induction t as [|[q n] t IH]; cbn; [reflexivity|].
  destruct (path_eqb q p) eqn:E; cbn; [exact IH|]. now rewrite E.
Qed.

Lemma lookup_remove_neq p q t : p <> q -> lookup (remove p t) q = lookup t q.
Proof.
  intros H. induction t as [|[r n] t IH]; cbn; [reflexivity|].
  destruct (path_eqb r p) eqn:E; cbn.
  - apply path_eqb_eq in E. subst r. apply path_eqb_neq in H. now rewrite H.
  - destruct (path_eqb r q); [reflexivity | exact IH].
Qed.

Lemma lookup_insert_eq p n t : lookup (insert p n t) p = Some n.
Proof. cbn. now rewrite path_eqb_refl. Qed.

Lemma lookup_insert_neq p q n t : p <> q -> lookup (insert p n t) q = lookup t q.
Proof.
  intros H. cbn. apply path_eqb_neq in H as H'. rewrite H'. now apply lookup_remove_neq.
Qed.

Lemma lookup_insert p q n t : lookup (insert p n t) q = if path_eqb p q then Some n else lookup t q.
Proof.
  destruct (path_eqb p q) eqn:E.
  - apply path_eqb_eq in E. subst. apply lookup_insert_eq.
  - apply lookup_insert_neq. now apply path_eqb_neq.
Qed.

Lemma lookup_remove p q t : lookup (remove p t) q = if path_eqb p q then None else lookup t q.
Proof.
  destruct (path_eqb p q) eqn:E.
  - apply path_eqb_eq in E. subst. apply lookup_remove_eq.
  - apply lookup_remove_neq. now apply path_eqb_neq.
Qed.

Lemma lookup_In t p n : lookup t p = Some n -> In (p, n) t.
Proof.
  induction t as [|[q m] t IH]; cbn; [discriminate|].
  destruct (path_eqb q p) eqn:E.
  - intros H. injection H as ->. apply path_eqb_eq in E. subst. now left.
  - intros H. right. now apply IH.
Qed.

Lemma In_lookup t p n : In (p, n) t -> exists m, lookup t p = Some m.
Proof.
  induction t as [|[q m] t IH]; cbn; [contradiction|].
  intros [H|H].
  - injection H as -> ->. rewrite path_eqb_refl. eauto.
  - destruct (path_eqb q p); eauto.
Qed.

Lemma lookup_None_In t p n : lookup t p = None -> ~ In (p, n) t.
Proof. intros H I. apply In_lookup in I as [m I]. congruence. Qed.

(** * directories *)
Lemma has_children_true t p q n : lookup t q = Some n -> below p q = true -> has_children t p = true.
Proof.
  intros H B. unfold has_children. apply existsb_exists. exists (q, n). split; [now apply lookup_In | exact B].
Qed.

Lemma has_children_false t p q : has_children t p = false -> below p q = true -> lookup t q = None.
Proof.
  intros H B. destruct (lookup t q) as [n|] eqn:E; [|reflexivity].
  rewrite (has_children_true _ _ _ _ E B) in H. discriminate.
Qed.

Lemma node_at_lookup t p : p <> [] -> node_at t p = lookup t p.
Proof. destruct p; [contradiction | reflexivity]. Qed.

Lemma node_at_app t p x : node_at t (p ++ [x]) = lookup t (p ++ [x]).
Proof. apply node_at_lookup. now destruct p. Qed.

Lemma is_dir_lookup t p : lookup t p = Some Dir -> is_dir t p = true.
Proof. unfold is_dir, node_at. destruct p; intros H; [reflexivity | now rewrite H]. Qed.

Lemma is_dir_inv t p : is_dir t p = true -> p = [] \/ lookup t p = Some Dir.
Proof.
  unfold is_dir, node_at. destruct p; [now left|]. right.
  destruct (lookup t (l :: p)) as [[|c]|]; try discriminate. reflexivity.
Qed.

Lemma children_In t p q n : lookup t q = Some n -> is_child p q = true -> In (q, n) (children t p).
Proof. intros H C. unfold children. apply filter_In. split; [now apply lookup_In | exact C]. Qed.

Lemma is_child_app p x : is_child p (p ++ [x]) = true.
Proof.
  unfold is_child. rewrite under_app, app_length. cbn. rewrite Nat.add_1_r. now rewrite Nat.eqb_refl.
Qed.

Lemma is_child_inv p q : is_child p q = true -> exists x, q = p ++ [x].
Proof.
  unfold is_child. rewrite andb_true_iff, Nat.eqb_eq. intros [U L].
  apply under_iff in U as [s ->]. rewrite app_length in L.
  destruct s as [|x [|y s]]; cbn in L; try lia. now exists x.
Qed.

Lemma is_child_below p q : is_child p q = true -> below p q = true.
Proof. intros [x ->]%is_child_inv. apply below_app. discriminate. Qed.

(** * the operations: what a successful call changes *)
Definition only_at (p : fpath) (t t' : tree) : Prop := forall q, q <> p -> lookup t' q = lookup t q.

Lemma creatable_None t p : creatable t p = None -> p <> [] /\ lookup t p = None /\ is_dir t (parent p) = true.
Proof.
  unfold creatable, is_dir. destruct p as [|a p]; [discriminate|].
  destruct (lookup t (a :: p)); [discriminate|].
  destruct (node_at t (parent (a :: p))) as [[|c]|]; try discriminate. intros _. repeat split. discriminate.
Qed.

Lemma creatable_ok t p : p <> [] -> lookup t p = None -> is_dir t (parent p) = true -> creatable t p = None.
Proof.
  unfold creatable, is_dir. intros H1 H2 H3. destruct p as [|a p]; [contradiction|]. rewrite H2.
  destruct (node_at t (parent (a :: p))) as [[|c]|]; try discriminate. reflexivity.
Qed.

Lemma fs_mkdir_ok t p t' : fs_mkdir t p = FOk t' -> t' = insert p Dir t /\ lookup t p = None.
Proof.
  unfold fs_mkdir. destruct (creatable t p) eqn:E; [discriminate|]. intros H. injection H as <-.
  apply creatable_None in E. tauto.
Qed.

Lemma fs_create_new_ok t p c t' : fs_create_new t p c = FOk t' -> t' = insert p (File c) t /\ lookup t p = None.
Proof.
  unfold fs_create_new. destruct (creatable t p) eqn:E; [discriminate|]. intros H. injection H as <-.
  apply creatable_None in E. tauto.
Qed.

Lemma fs_trunc_ok t p t' : fs_trunc t p = FOk t' -> t' = insert p (File CPartial) t /\ lookup t p <> Some Dir /\ p <> [].
Proof.
  unfold fs_trunc. destruct p as [|a p]; [cbn; discriminate|]. cbn [node_at].
  destruct (lookup t (a :: p)) as [[|c]|] eqn:E; [discriminate| |].
  - intros H. injection H as <-. repeat split; congruence.
  - destruct (creatable t (a :: p)); [discriminate|]. intros H. injection H as <-. repeat split; congruence.
Qed.

Lemma fs_finish_ok t p c t' : fs_finish t p c = FOk t' -> t' = insert p (File c) t /\ exists c0, lookup t p = Some (File c0).
Proof.
  unfold fs_finish. destruct p as [|a p]; [cbn; discriminate|]. cbn [node_at].
  destruct (lookup t (a :: p)) as [[|c0]|]; try discriminate. intros H. injection H as <-. eauto.
Qed.

Lemma fs_unlink_ok t p t' : fs_unlink t p = FOk t' -> t' = remove p t /\ exists c0, lookup t p = Some (File c0).
Proof.
  unfold fs_unlink. destruct p as [|a p]; [cbn; discriminate|]. cbn [node_at].
  destruct (lookup t (a :: p)) as [[|c0]|]; try discriminate. intros H. injection H as <-. eauto.
Qed.

Lemma fs_rmdir_ok t p t' : fs_rmdir t p = FOk t' -> t' = remove p t /\ lookup t p = Some Dir /\ has_children t p = false.
Proof.
  unfold fs_rmdir. destruct p as [|a p]; [discriminate|].
  destruct (lookup t (a :: p)) as [[|c0]|]; try discriminate.
  destruct (has_children t (a :: p)); [discriminate|]. intros H. injection H as <-. auto.
Qed.

Lemma fs_trunc_file t p c0 : p <> [] -> lookup t p = Some (File c0) -> fs_trunc t p = FOk (insert p (File CPartial) t).
Proof.
  intros N H. unfold fs_trunc. destruct p as [|a p]; [contradiction|]. cbn [node_at]. now rewrite H.
Qed.

Lemma fs_trunc_new t p : p <> [] -> lookup t p = None -> is_dir t (parent p) = true ->
  fs_trunc t p = FOk (insert p (File CPartial) t).
Proof.
  intros H1 H2 H3. unfold fs_trunc. rewrite (node_at_lookup _ _ H1), H2, (creatable_ok _ _ H1 H2 H3). reflexivity.
Qed.

Lemma fs_finish_file t p c c0 : p <> [] -> lookup t p = Some (File c0) -> fs_finish t p c = FOk (insert p (File c) t).
Proof.
  intros N H. unfold fs_finish. destruct p as [|a p]; [contradiction|]. cbn [node_at]. now rewrite H.
Qed.

Lemma fs_unlink_file t p c0 : p <> [] -> lookup t p = Some (File c0) -> fs_unlink t p = FOk (remove p t).
Proof.
  intros N H. unfold fs_unlink. destruct p as [|a p]; [contradiction|]. cbn [node_at]. now rewrite H.
Qed.

Lemma fs_rmdir_empty t p : p <> [] -> lookup t p = Some Dir -> has_children t p = false -> fs_rmdir t p = FOk (remove p t).
Proof.
  intros N H1 H2. unfold fs_rmdir. destruct p as [|a p]; [contradiction|]. now rewrite H1, H2.
Qed.

Lemma fs_mkdir_new t p : p <> [] -> lookup t p = None -> is_dir t (parent p) = true -> fs_mkdir t p = FOk (insert p Dir t).
Proof. intros H1 H2 H3. unfold fs_mkdir. now rewrite (creatable_ok _ _ H1 H2 H3). Qed.

Lemma fs_create_new_new t p c : p <> [] -> lookup t p = None -> is_dir t (parent p) = true ->
  fs_create_new t p c = FOk (insert p (File c) t).
Proof. intros H1 H2 H3. unfold fs_create_new. now rewrite (creatable_ok _ _ H1 H2 H3). Qed.

(** * rename *)
Lemma rekey_under a c q n : under a q = true -> rekey a c (q, n) = (c ++ skipn (List.length a) q, n).
Proof. intros H. unfold rekey. cbn. now rewrite H. Qed.

Lemma rekey_not_under a c q n : under a q = false -> rekey a c (q, n) = (q, n).
Proof. intros H. unfold rekey. cbn. now rewrite H. Qed.

(** lookup in a re-keyed tree, under the conditions of the renames the protocol performs: source and
    destination are disjoint and nothing exists at or below the destination *)
Lemma lookup_rekey a c t x :
  under a c = false -> under c a = false ->
  (forall y, under c y = true -> lookup t y = None) ->
  lookup (map (rekey a c) t) x =
    if under c x then lookup t (a ++ skipn (List.length c) x)
    else if under a x then None else lookup t x.
Proof.
  intros Hac Hca Hfree.
  induction t as [|[q n] t IH].
  - cbn. destruct (under c x), (under a x); reflexivity.
  - assert (Hq : under c q = false).
    { destruct (under c q) eqn:E; [|reflexivity]. specialize (Hfree q E). cbn in Hfree. now rewrite path_eqb_refl in Hfree. }
    assert (Hfree' : forall y, under c y = true -> lookup t y = None).
    { intros y Hy. specialize (Hfree y Hy). cbn in Hfree. destruct (path_eqb q y) eqn:E; [discriminate | exact Hfree]. }
    specialize (IH Hfree'). cbn [map lookup].
    destruct (under a q) eqn:Eq.
    + rewrite (rekey_under _ _ _ _ Eq). cbn [fst snd].
      destruct (path_eqb (c ++ skipn (List.length a) q) x) eqn:Ex.
      * apply path_eqb_eq in Ex. subst x. rewrite under_app.
        rewrite skipn_app, skipn_all, Nat.sub_diag. cbn [app skipn].
        rewrite <- (under_skipn _ _ Eq). now rewrite path_eqb_refl.
      * rewrite IH. destruct (under c x) eqn:Ecx.
        -- destruct (path_eqb q (a ++ skipn (List.length c) x)) eqn:E2; [|reflexivity].
           apply path_eqb_eq in E2. exfalso. apply path_eqb_neq in Ex. apply Ex.
           rewrite E2. rewrite skipn_app, skipn_all, Nat.sub_diag. cbn [app skipn]. symmetry. now apply under_skipn.
        -- destruct (under a x) eqn:Eax; [reflexivity|].
           destruct (path_eqb q x) eqn:E2; [|reflexivity]. apply path_eqb_eq in E2. subst. congruence.
    + rewrite (rekey_not_under _ _ _ _ Eq). cbn [fst snd].
      destruct (path_eqb q x) eqn:Ex.
      * apply path_eqb_eq in Ex. subst x. rewrite Hq, Eq. reflexivity.
      * rewrite IH. destruct (under c x) eqn:Ecx; [|reflexivity].
        destruct (path_eqb q (a ++ skipn (List.length c) x)) eqn:E2; [|reflexivity].
        apply path_eqb_eq in E2. subst q. now rewrite under_app in Eq.
Qed.

Lemma fs_rename_fresh t a c :
  a <> [] -> c <> [] -> lookup t a <> None -> under a c = false -> under c a = false ->
  is_dir t (parent c) = true -> lookup t c = None ->
  fs_rename t a c = FOk (map (rekey a c) (remove c t)).
Proof.
  intros Ha Hc Hsrc Hac Hca Hpar Hdst. unfold fs_rename.
  destruct a as [|a0 a]; [contradiction|]. destruct c as [|c0 c]; [contradiction|].
  destruct (lookup t (a0 :: a)) as [na|] eqn:E; [|contradiction].
  assert (N : path_eqb (a0 :: a) (c0 :: c) = false).
  { apply path_eqb_neq. intros X. rewrite X in Hac. now rewrite under_refl in Hac. }
  rewrite N, Hac. unfold is_dir in Hpar.
  destruct (node_at t (parent (c0 :: c))) as [[|f]|]; try discriminate. now rewrite Hdst.
Qed.

Lemma lookup_rename_fresh t a c x :
  under a c = false -> under c a = false ->
  (forall y, under c y = true -> lookup t y = None) ->
  lookup (map (rekey a c) (remove c t)) x =
    if under c x then lookup t (a ++ skipn (List.length c) x)
    else if under a x then None else lookup t x.
Proof.
  intros Hac Hca Hfree.
  assert (R : forall y, lookup (remove c t) y = lookup t y).
  { intros y. rewrite lookup_remove. destruct (path_eqb c y) eqn:E; [|reflexivity].
    apply path_eqb_eq in E. subst. symmetry. apply Hfree. apply under_refl. }
  rewrite lookup_rekey; auto.
  - rewrite !R. reflexivity.
  - intros y Hy. rewrite R. now apply Hfree.
Qed.
