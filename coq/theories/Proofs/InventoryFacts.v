From Coq Require Import NArith Ascii Lia.
From stdpp Require Import gmap.
From Rocfl Require Import Model.Inventory Model.InvSpec Proofs.ConflictFacts.

Lemma head_pos i : (1 <= head i)%N.
Proof. unfold head. lia. Qed.

Lemma head_mk p hs m hs' m' : head (mkInv p hs m) = head (mkInv p hs' m').
Proof. reflexivity. Qed.

Lemma head_create i : head (create_staging_head i) = (head i + 1)%N.
Proof. unfold head, create_staging_head. cbn. rewrite app_length. cbn. lia. Qed.

(** * Generic frame lemma: an update that only touches the head state and
    head-version manifest keys preserves the committed part of StagedWF. *)
Lemma staged_wf_update i hs' m' :
  StagedWF i →
  (∀ cp, fst cp ≠ head i → m' !! cp = i_manifest i !! cp) →
  let i' := mkInv (i_prev i) hs' m' in
  (∀ p d, m' !! ncp i' p = Some d → hs' !! p = Some d ∨ committed_copy i' d) →
  (∀ p d, hs' !! p = Some d → m' !! ncp i' p = Some d ∨ committed_copy i' d) →
  NoConflict hs' →
  StagedWF i'.
Proof.
  intros [Hres Hpnc Hused Hvers _ _ _ Hcpnc] Hframe i' H3 H5 Hnc.
  assert (Hh : head i' = head i) by reflexivity.
  constructor; cbn [i_prev i_hstate i_manifest]; try done.
  - intros k st Hk p d Hp. destruct (Hres k st Hk p d Hp) as (cp & Hle & Hcp).
    exists cp. split; [done|]. rewrite Hframe; [done|].
    apply lookup_lt_Some in Hk. cbn [i' i_prev] in Hk. unfold head. lia.
  - intros cp d Hlt Hcp. rewrite Hh in Hlt. rewrite Hframe in Hcp by lia. by eapply Hused.
  - intros cp Hcp. rewrite Hh. destruct (decide (fst cp = head i)) as [E|E].
    + rewrite E. pose proof (head_pos i). lia.
    + rewrite Hframe in Hcp by done. by apply Hvers.
  - intros v p q Hlt Hp Hq. rewrite Hh in Hlt.
    rewrite Hframe in Hp by (cbn [fst]; lia). rewrite Hframe in Hq by (cbn [fst]; lia). by eapply Hcpnc.
Qed.

Lemma committed_copy_frame i hs' m' d :
  (∀ cp, fst cp ≠ head i → m' !! cp = i_manifest i !! cp) →
  committed_copy (mkInv (i_prev i) hs' m') d ↔ committed_copy i d.
Proof.
  intros Hframe. unfold committed_copy. cbn [i_manifest].
  change (head (mkInv (i_prev i) hs' m')) with (head i).
  split; intros (cp & Hlt & Hcp); exists cp; (split; [done|]).
  - rewrite Hframe in Hcp by lia. done.
  - rewrite Hframe by lia. done.
Qed.

(** * The primitives preserve the staged invariant *)
Lemma add_file_wf d p i i' :
  StagedWF i → add_file_to_head d p i = Some i' → StagedWF i'.
Proof.
  intros Hwf. unfold add_file_to_head. destruct (conflictb (i_hstate i) p) eqn:Hc; [done|].
  intros [= <-].
  assert (Hframe : ∀ cp, fst cp ≠ head i → <[ncp i p := d]> (i_manifest i) !! cp = i_manifest i !! cp).
  { intros cp Hne. apply lookup_insert_ne. intros <-. done. }
  apply staged_wf_update; try done.
  - intros q e. change (ncp _ q) with (ncp i q). rewrite committed_copy_frame by done.
    destruct (decide (q = p)) as [->|Hne].
    + rewrite !lookup_insert. auto.
    + rewrite lookup_insert_ne by (unfold ncp; congruence). rewrite lookup_insert_ne by done.
      apply (sw_I3 _ Hwf).
  - intros q e. change (ncp _ q) with (ncp i q). rewrite committed_copy_frame by done.
    destruct (decide (q = p)) as [->|Hne].
    + rewrite !lookup_insert. auto.
    + rewrite lookup_insert_ne by done. rewrite lookup_insert_ne by (unfold ncp; congruence).
      apply (sw_I5 _ Hwf).
  - apply noconf_insert; [apply (sw_noconf _ Hwf)|done].
Qed.

(** a digest found in some version and not "staged" has a committed copy *)
Lemma not_staged_committed i v src :
  StagedWF i → ∀ d, (∃ st, get_state i v = Some st ∧ st !! src = Some d) →
  staged_source i v src = Some None → committed_copy i d.
Proof.
  intros Hwf d (st & Hst & Hd). unfold staged_source. rewrite Hst, Hd.
  unfold get_state in Hst.
  destruct (v =? head i)%N eqn:Ev.
  - injection Hst as <-. cbn [andb].
    destruct (bool_decide (i_manifest i !! ncp i src = Some d)) eqn:Eb; [done|]. intros _.
    apply bool_decide_eq_false in Eb.
    destruct (sw_I5 _ Hwf src d Hd) as [H|H]; [done|exact H].
  - intros _. destruct (v =? 0)%N eqn:E0; [done|].
    destruct (sw_prev_resolve _ Hwf _ _ Hst src d Hd) as (cp & Hle & Hcp).
    exists cp. split; [|done].
    apply lookup_lt_Some in Hst. apply N.eqb_neq in E0. unfold head. lia.
Qed.

Lemma copy_file_wf v src dst i i' :
  StagedWF i → staged_source i v src = Some None →
  copy_file_to_head v src dst i = Some i' → StagedWF i'.
Proof.
  intros Hwf Hns. unfold copy_file_to_head.
  destruct (get_state i v) as [st|] eqn:Hst; [|done].
  destruct (st !! src) as [d|] eqn:Hd; [|done].
  destruct (conflictb (i_hstate i) dst) eqn:Hc; [done|]. intros [= <-].
  assert (Hcc : committed_copy i d) by (eapply not_staged_committed; eauto).
  assert (Hframe : ∀ cp, fst cp ≠ head i → delete (ncp i dst) (i_manifest i) !! cp = i_manifest i !! cp).
  { intros cp Hne. apply lookup_delete_ne. intros <-. done. }
  apply staged_wf_update; try done.
  - intros q e. change (ncp _ q) with (ncp i q). rewrite committed_copy_frame by done.
    intros Hq. apply lookup_delete_Some in Hq as [Hne Hq].
    assert (q ≠ dst) by (intros ->; done).
    rewrite lookup_insert_ne by done. by apply (sw_I3 _ Hwf).
  - intros q e. change (ncp _ q) with (ncp i q). rewrite committed_copy_frame by done.
    destruct (decide (q = dst)) as [->|Hne].
    + rewrite lookup_insert. intros [= <-]. by right.
    + rewrite lookup_insert_ne by done. rewrite lookup_delete_ne by (unfold ncp; congruence).
      apply (sw_I5 _ Hwf).
  - apply noconf_insert; [apply (sw_noconf _ Hwf)|done].
Qed.

Lemma move_file_wf src dst i i' :
  StagedWF i → src ≠ dst → staged_source i (head i) src = Some None →
  move_file_in_head src dst i = Some i' → StagedWF i'.
Proof.
  intros Hwf Hsd Hns. unfold move_file_in_head.
  destruct (i_hstate i !! src) as [d|] eqn:Hd; [|done].
  destruct (conflictb (i_hstate i) dst) eqn:Hc; [done|]. intros [= <-].
  assert (Hgs : get_state i (head i) = Some (i_hstate i)).
  { unfold get_state. by rewrite N.eqb_refl. }
  assert (Hcc : committed_copy i d) by (eapply not_staged_committed; eauto).
  assert (Hnot : i_manifest i !! ncp i src ≠ Some d).
  { unfold staged_source in Hns. rewrite Hgs, Hd, N.eqb_refl in Hns. cbn [andb] in Hns.
    destruct (bool_decide (i_manifest i !! ncp i src = Some d)) eqn:Eb; [done|].
    by apply bool_decide_eq_false in Eb. }
  assert (Hframe : ∀ cp, fst cp ≠ head i → delete (ncp i dst) (i_manifest i) !! cp = i_manifest i !! cp).
  { intros cp Hne. apply lookup_delete_ne. intros <-. done. }
  apply staged_wf_update; try done.
  - intros q e. change (ncp _ q) with (ncp i q). rewrite committed_copy_frame by done.
    intros Hq. apply lookup_delete_Some in Hq as [Hne Hq].
    assert (q ≠ dst) by (intros ->; done).
    destruct (sw_I3 _ Hwf q e Hq) as [Hs|Hs]; [|by right].
    destruct (decide (q = src)) as [->|Hqs].
    + (* the source's own head entry: its digest would be d, excluded by "not staged" *)
      rewrite Hd in Hs. injection Hs as <-. done.
    + left. rewrite lookup_delete_ne by done. rewrite lookup_insert_ne by done. done.
  - intros q e. change (ncp _ q) with (ncp i q). rewrite committed_copy_frame by done.
    intros Hq. apply lookup_delete_Some in Hq as [Hqs Hq].
    destruct (decide (q = dst)) as [->|Hne].
    + rewrite lookup_insert in Hq. injection Hq as <-. by right.
    + rewrite lookup_insert_ne in Hq by done. rewrite lookup_delete_ne by (unfold ncp; congruence).
      by apply (sw_I5 _ Hwf).
  - apply noconf_delete. apply noconf_insert; [apply (sw_noconf _ Hwf)|done].
Qed.

Lemma move_new_wf d src dst i i' :
  StagedWF i → src ≠ dst →
  move_new_in_head_file d src dst i = Some i' → StagedWF i'.
Proof.
  intros Hwf Hsd. unfold move_new_in_head_file.
  destruct (conflictb (i_hstate i) dst) eqn:Hc; [done|]. intros [= <-].
  assert (Hframe : ∀ cp, fst cp ≠ head i →
            <[ncp i dst := d]> (delete (ncp i src) (i_manifest i)) !! cp = i_manifest i !! cp).
  { intros cp Hne. rewrite lookup_insert_ne by (intros <-; done).
    apply lookup_delete_ne. intros <-. done. }
  apply staged_wf_update; try done.
  - intros q e. change (ncp _ q) with (ncp i q). rewrite committed_copy_frame by done.
    destruct (decide (q = dst)) as [->|Hne].
    + rewrite lookup_insert. intros [= <-]. left.
      rewrite lookup_delete_ne by done. by rewrite lookup_insert.
    + rewrite lookup_insert_ne by (unfold ncp; congruence).
      intros Hq. apply lookup_delete_Some in Hq as [Hqs Hq].
      assert (q ≠ src) by (intros ->; done).
      destruct (sw_I3 _ Hwf q e Hq) as [Hs|Hs]; [|by right].
      left. rewrite lookup_delete_ne by done. by rewrite lookup_insert_ne.
  - intros q e. change (ncp _ q) with (ncp i q). rewrite committed_copy_frame by done.
    intros Hq. apply lookup_delete_Some in Hq as [Hqs Hq].
    destruct (decide (q = dst)) as [->|Hne].
    + rewrite lookup_insert in Hq. injection Hq as <-. left. by rewrite lookup_insert.
    + rewrite lookup_insert_ne in Hq by done.
      destruct (sw_I5 _ Hwf q e Hq) as [Hs|Hs]; [|by right].
      left. rewrite lookup_insert_ne by (unfold ncp; congruence).
      rewrite lookup_delete_ne by (unfold ncp; congruence). done.
  - apply noconf_delete. apply noconf_insert; [apply (sw_noconf _ Hwf)|done].
Qed.

Lemma remove_wf p i : StagedWF i → StagedWF (fst (remove_from_head p i)).
Proof.
  intros Hwf. unfold remove_from_head.
  destruct (i_hstate i !! p) as [d|] eqn:Hd; [|done].
  destruct (i_manifest i !! ncp i p) as [e|] eqn:He; cbn [fst].
  - assert (Hframe : ∀ cp, fst cp ≠ head i → delete (ncp i p) (i_manifest i) !! cp = i_manifest i !! cp).
    { intros cp Hne. apply lookup_delete_ne. intros <-. done. }
    apply staged_wf_update; try done.
    + intros q f. change (ncp _ q) with (ncp i q). rewrite committed_copy_frame by done.
      intros Hq. apply lookup_delete_Some in Hq as [Hne Hq].
      assert (q ≠ p) by (intros ->; done).
      rewrite lookup_delete_ne by done. by apply (sw_I3 _ Hwf).
    + intros q f. change (ncp _ q) with (ncp i q). rewrite committed_copy_frame by done.
      intros Hq. apply lookup_delete_Some in Hq as [Hne Hq].
      rewrite lookup_delete_ne by (unfold ncp; congruence). by apply (sw_I5 _ Hwf).
    + apply noconf_delete. apply (sw_noconf _ Hwf).
  - assert (Hframe : ∀ cp, fst cp ≠ head i → i_manifest i !! cp = i_manifest i !! cp) by done.
    apply staged_wf_update; try done.
    + intros q f. change (ncp _ q) with (ncp i q). rewrite committed_copy_frame by done.
      intros Hq. assert (q ≠ p) by (intros ->; congruence).
      rewrite lookup_delete_ne by done. by apply (sw_I3 _ Hwf).
    + intros q f. change (ncp _ q) with (ncp i q). rewrite committed_copy_frame by done.
      intros Hq. apply lookup_delete_Some in Hq as [Hne Hq]. by apply (sw_I5 _ Hwf).
    + apply noconf_delete. apply (sw_noconf _ Hwf).
Qed.

(** every resolved staging operation preserves the invariant *)
Theorem sapply_wf o i : StagedWF i → StagedWF (sapply o i).
Proof.
  intros Hwf. destruct o as [d p|v src dst|src dst|p|p]; cbn [sapply].
  - destruct (add_file_to_head d p i) eqn:E; cbn; [by eapply add_file_wf|done].
  - destruct (bool_decide (src = dst) && (v =? head i)%N); [done|].
    destruct (staged_source i v src) as [[d|]|] eqn:Es; [| |done].
    + destruct (add_file_to_head d dst i) eqn:E; cbn; [by eapply add_file_wf|done].
    + destruct (copy_file_to_head v src dst i) eqn:E; cbn; [by eapply copy_file_wf|done].
  - destruct (bool_decide (src = dst)) eqn:Esd; [done|]. apply bool_decide_eq_false in Esd.
    destruct (staged_source i (head i) src) as [[d|]|] eqn:Es; [| |done].
    + destruct (move_new_in_head_file d src dst i) eqn:E; cbn; [by eapply move_new_wf|done].
    + destruct (move_file_in_head src dst i) eqn:E; cbn; [by eapply move_file_wf|done].
  - by apply remove_wf.
  - destruct (head i =? 1)%N eqn:Eh; [done|].
    pose proof (remove_wf p i Hwf) as Hwf1.
    set (i1 := fst (remove_from_head p i)) in *.
    assert (Hh1 : head i1 = head i).
    { unfold i1, remove_from_head. destruct (i_hstate i !! p); [|done].
      destruct (i_manifest i !! ncp i p); done. }
    destruct (copy_file_to_head (head i - 1) p p i1) eqn:E; cbn; [|done].
    eapply copy_file_wf; [exact Hwf1| |exact E].
    (* the previous version is not the head: never "staged" *)
    unfold copy_file_to_head in E. unfold staged_source.
    destruct (get_state i1 (head i - 1)) as [st|]; [|done].
    destruct (st !! p); [|done].
    rewrite Hh1. apply N.eqb_neq in Eh. pose proof (head_pos i).
    replace (head i - 1 =? head i)%N with false by (symmetry; apply N.eqb_neq; lia). done.
Qed.

(** * Staging head creation and new objects *)
Lemma new_inventory_wf : StagedWF new_inventory.
Proof.
  constructor; cbn; try apply noconf_empty; intros;
    repeat match goal with
           | H : _ ∈ [] |- _ => by apply elem_of_nil in H
           | H : [] !! _ = Some _ |- _ => by rewrite lookup_nil in H
           | H : is_Some (∅ !! _) |- _ => destruct H as [? H]
           | H : ∅ !! _ = Some _ |- _ => by rewrite lookup_empty in H
           end.
Qed.

Lemma create_staging_head_wf i : InvOK i → StagedWF (create_staging_head i).
Proof.
  intros [Hres Hused Hnc Hvers Hcp].
  pose proof (head_create i) as Hh.
  constructor; cbn [create_staging_head i_prev i_hstate i_manifest].
  - intros k st Hk p d Hp. eapply Hres; eauto.
  - intros st Hst. apply Hnc. done.
  - intros cp d _ Hcpd. destruct (Hused cp d Hcpd) as (st & p & Hst & Hp). eauto.
  - intros cp Hc. specialize (Hvers cp Hc). rewrite Hh. lia.
  - intros p d Hp. exfalso.
    assert (is_Some (i_manifest i !! ncp (create_staging_head i) p)) as Hs by eauto.
    specialize (Hvers _ Hs). unfold ncp in Hvers. cbn [fst] in Hvers. lia.
  - intros p d Hp. right.
    assert (Hl : all_states i !! length (i_prev i) = Some (i_hstate i)).
    { unfold all_states. rewrite lookup_app_r by lia. by rewrite Nat.sub_diag. }
    destruct (Hres _ _ Hl p d Hp) as (cp & Hle & Hc). exists cp. split; [|done].
    rewrite Hh. unfold head. lia.
  - apply Hnc. unfold all_states. apply elem_of_app. right. by apply elem_of_list_singleton.
  - intros v p q _. apply Hcp.
Qed.

(** * dedup_head yields a valid inventory *)
Lemma elem_of_paths_of (m : manifest) d cp : cp ∈ paths_of m d ↔ m !! cp = Some d.
Proof.
  unfold paths_of. split.
  - intros H. apply (elem_of_list_fmap_2 fst) in H as ([c e] & -> & Hin).
    apply elem_of_list_filter in Hin as [He Hin]. apply elem_of_map_to_list in Hin.
    cbn in *. apply bool_decide_unpack in He. by subst.
  - intros H. apply (elem_of_list_fmap_1_alt fst _ (cp, d)); [|done].
    apply elem_of_list_filter. split; [cbn; by apply bool_decide_pack|by apply elem_of_map_to_list].
Qed.

Lemma has_nonhead_true i d :
  has_nonhead i d = true ↔ ∃ cp, i_manifest i !! cp = Some d ∧ fst cp ≠ head i.
Proof.
  unfold has_nonhead. rewrite existsb_true_elem_of. split.
  - intros (cp & Hin & Hn). exists cp. split; [by apply elem_of_paths_of|].
    unfold is_head_cp in Hn. apply negb_true_iff, N.eqb_neq in Hn. done.
  - intros (cp & Hcp & Hn). exists cp. split; [by apply elem_of_paths_of|].
    unfold is_head_cp. apply negb_true_iff, N.eqb_neq. done.
Qed.

Lemma has_nonhead_committed i d :
  StagedWF i → (has_nonhead i d = true ↔ committed_copy i d).
Proof.
  intros Hwf. rewrite has_nonhead_true. unfold committed_copy. split.
  - intros (cp & Hcp & Hn). exists cp. split; [|done].
    assert (is_Some (i_manifest i !! cp)) as Hs by eauto.
    pose proof (sw_vers _ Hwf cp Hs). lia.
  - intros (cp & Hlt & Hcp). exists cp. split; [done|lia].
Qed.

Lemma forallb_elem_of {A} (f : A → bool) l : forallb f l = true ↔ ∀ x, x ∈ l → f x = true.
Proof.
  rewrite forallb_forall. split; intros H x Hx; apply H; by apply elem_of_list_In.
Qed.

Lemma dedup_okb_spec pre post :
  dedup_okb pre post = true →
  i_prev post = i_prev pre ∧ i_hstate post = i_hstate pre ∧
  (∀ cp d, i_manifest post !! cp = Some d → i_manifest pre !! cp = Some d) ∧
  (∀ cp d, i_manifest pre !! cp = Some d →
     (fst cp ≠ head pre → i_manifest post !! cp = Some d) ∧
     (fst cp = head pre → has_nonhead pre d = true → i_manifest post !! cp = None) ∧
     (fst cp = head pre → has_nonhead pre d = false →
        ∃ c, fst c = head pre ∧ i_manifest post !! c = Some d)).
Proof.
  unfold dedup_okb. rewrite !andb_true_iff, !bool_decide_eq_true, !forallb_elem_of.
  intros [[[Hp Hh] Hsub] Hper]. split; [done|]. split; [done|]. split.
  - intros cp d Hcp. specialize (Hsub (cp, d)). cbn in Hsub.
    eapply bool_decide_eq_true_1. apply Hsub. by apply elem_of_map_to_list.
  - intros cp d Hcp. specialize (Hper (cp, d) (proj2 (elem_of_map_to_list _ _ _) Hcp)).
    cbn [fst snd] in Hper. change (is_head_cp pre cp) with (fst cp =? head pre)%N in Hper.
    repeat split.
    + intros Hne. apply N.eqb_neq in Hne. rewrite Hne in Hper. cbn [negb] in Hper.
      by apply bool_decide_eq_true in Hper.
    + intros He Hnh. apply N.eqb_eq in He. rewrite He, Hnh in Hper. cbn [negb] in Hper.
      by apply bool_decide_eq_true in Hper.
    + intros He Hnh. apply N.eqb_eq in He. rewrite He, Hnh in Hper. cbn [negb] in Hper.
      apply bool_decide_eq_true in Hper.
      destruct (filter (λ c : cpath, is_head_cp pre c) (paths_of (i_manifest post) d)) as [|c l] eqn:Ef;
        [by cbn in Hper|].
      assert (Hin : c ∈ filter (λ c : cpath, is_head_cp pre c) (paths_of (i_manifest post) d)).
      { rewrite Ef. by left. }
      apply elem_of_list_filter in Hin as [Hhd Hin]. apply elem_of_paths_of in Hin.
      exists c. split; [|done]. unfold is_head_cp in Hhd. apply Is_true_eq_true, N.eqb_eq in Hhd. done.
Qed.

Theorem dedup_valid pre post : StagedWF pre → dedup_okb pre post = true → InvOK post.
Proof.
  intros Hwf Hok. apply dedup_okb_spec in Hok as (Hp & Hh & Hsub & Hper).
  assert (Hhead : head post = head pre) by (unfold head; by rewrite Hp).
  constructor.
  - intros k st Hk p d Hpd. unfold all_states in Hk. rewrite Hp, Hh in Hk.
    apply lookup_app_Some in Hk as [Hk|[Hlen Hk]].
    + destruct (sw_prev_resolve _ Hwf k st Hk p d Hpd) as (cp & Hle & Hcp).
      exists cp. split; [done|]. apply Hper; [done|]. apply lookup_lt_Some in Hk. unfold head. lia.
    + apply list_lookup_singleton_Some in Hk as [Hk0 <-].
      assert (HSk : N.of_nat (S k) = head pre) by (unfold head; f_equal; lia).
      destruct (sw_I5 _ Hwf p d Hpd) as [Hdir|(cp & Hlt & Hcp)].
      * destruct (has_nonhead pre d) eqn:Hnh.
        -- apply has_nonhead_committed in Hnh as (cp & Hlt & Hcp); [|done].
           exists cp. split; [lia|]. apply Hper; [done|lia].
        -- destruct (Hper _ _ Hdir) as (_ & _ & Hone). destruct (Hone eq_refl Hnh) as (c & Hc & Hcd).
           exists c. split; [lia|done].
      * exists cp. split; [lia|]. apply Hper; [done|lia].
  - intros cp d Hcp. pose proof (Hsub _ _ Hcp) as Hpre.
    assert (is_Some (i_manifest pre !! cp)) as Hs by eauto.
    pose proof (sw_vers _ Hwf cp Hs) as Hv.
    unfold all_states. rewrite Hp, Hh.
    destruct (decide (fst cp = head pre)) as [E|E].
    + destruct cp as [v p]. cbn [fst] in E. subst v.
      destruct (has_nonhead pre d) eqn:Hnh.
      * destruct (Hper _ _ Hpre) as (_ & Hnone & _). rewrite (Hnone eq_refl Hnh) in Hcp. done.
      * destruct (sw_I3 _ Hwf p d Hpre) as [Hst|Hcc].
        -- exists (i_hstate pre), p. split; [|done]. apply elem_of_app. right. by apply elem_of_list_singleton.
        -- apply has_nonhead_committed in Hcc; [congruence|done].
    + destruct (sw_used _ Hwf cp d ltac:(lia) Hpre) as (st & p & Hst & Hpd).
      exists st, p. split; [|done]. apply elem_of_app. by left.
  - intros st Hst. unfold all_states in Hst. rewrite Hp, Hh in Hst.
    apply elem_of_app in Hst as [Hst|Hst].
    + by apply (sw_prev_noconf _ Hwf).
    + apply elem_of_list_singleton in Hst as ->. apply (sw_noconf _ Hwf).
  - intros cp [d Hcp]. rewrite Hhead. apply (sw_vers _ Hwf). eauto.
  - intros v p q [d Hp1] [e Hq1].
    pose proof (Hsub _ _ Hp1) as Hp0. pose proof (Hsub _ _ Hq1) as Hq0.
    assert (is_Some (i_manifest pre !! (v, p))) as Hs by eauto.
    pose proof (sw_vers _ Hwf _ Hs) as Hv. cbn [fst] in Hv.
    destruct (decide (v = head pre)) as [->|E].
    + (* both survive dedup in the head version: both are files of the head state *)
      assert (Hkeep : ∀ r f, i_manifest post !! (head pre, r) = Some f →
                              i_manifest pre !! (head pre, r) = Some f → i_hstate pre !! r = Some f).
      { intros r f Hpost Hpre.
        destruct (has_nonhead pre f) eqn:Hnh.
        - destruct (Hper _ _ Hpre) as (_ & Hnone & _). rewrite (Hnone eq_refl Hnh) in Hpost. done.
        - destruct (sw_I3 _ Hwf r f Hpre) as [Hst|Hcc]; [done|].
          apply has_nonhead_committed in Hcc; [congruence|done]. }
      apply (proj2 (sw_noconf _ Hwf)); eexists; eapply Hkeep; eauto.
    + apply (sw_cp_noconf _ Hwf v p q); [lia|eauto|eauto].
Qed.

(** the canonical dedup is an allowed outcome (non-emptiness of the relation) is checked by
    evaluation in the correspondence; here: it only removes head entries *)

(** * Life cycle: every reachable main inventory is valid, every reachable staged
    inventory satisfies the invariant *)
Definition OState_ok (s : ostate) : Prop :=
  (∀ i, o_main s = Some i → InvOK i) ∧ (∀ i, o_staged s = Some i → StagedWF i).

Lemma ostep_ok s o : OState_ok s → OState_ok (ostep s o).
Proof.
  intros Hok. destruct o as [|op|post| |]; cbn [ostep].
  - destruct (o_main s) as [m|]; [exact Hok|].
    destruct (o_staged s) as [i|]; [exact Hok|].
    split; cbn [o_main o_staged]; [intros ? [=]|]. intros i0 [= <-]. apply new_inventory_wf.
  - unfold ensure_staged. pose proof Hok as [Hm Hs].
    destruct (o_staged s) as [i|] eqn:Es.
    + split; cbn [o_main o_staged]; [exact Hm|]. intros i' [= <-]. apply sapply_wf. by apply Hs.
    + destruct (o_main s) as [m|] eqn:Em; [|exact Hok].
      split; cbn [o_main o_staged]; [exact Hm|]. intros i' [= <-].
      apply sapply_wf, create_staging_head_wf. by apply Hm.
  - destruct (o_staged s) as [i|] eqn:Es; [|exact Hok].
    destruct (dedup_okb i post) eqn:Ed; [|exact Hok].
    destruct Hok as [Hm Hs].
    split; cbn [o_main o_staged]; [|intros ? [=]]. intros i' [= <-].
    eapply dedup_valid; [|exact Ed]. by apply Hs.
  - destruct Hok as [Hm Hs]. split; cbn [o_main o_staged]; [exact Hm|intros ? [=]].
  - split; cbn [o_main o_staged]; intros ? [=].
Qed.

Theorem reachable_ok ops : OState_ok (foldl ostep oinit ops).
Proof.
  assert (H0 : OState_ok oinit) by (split; cbn; done).
  revert H0. generalize oinit. induction ops as [|o ops IH]; intros s Hs; cbn [foldl]; [done|].
  apply IH. by apply ostep_ok.
Qed.

(** * At most one new content file per digest the object did not already hold *)
Definition head_paths_of (i : inventory) (d : digest) : list cpath :=
  filter (λ c : cpath, is_head_cp i c) (paths_of (i_manifest i) d).

Lemma dedup_one_per_digest pre post d :
  StagedWF pre → dedup_okb pre post = true →
  (length (filter (λ c : cpath, is_head_cp pre c) (paths_of (i_manifest post) d)) ≤ 1)%nat ∧
  (committed_copy pre d → filter (λ c : cpath, is_head_cp pre c) (paths_of (i_manifest post) d) = []).
Proof.
  intros Hwf Hok. pose proof Hok as Hok'. apply dedup_okb_spec in Hok' as (Hp & Hh & Hsub & Hper).
  set (l := filter (λ c : cpath, is_head_cp pre c) (paths_of (i_manifest post) d)).
  assert (Hcases : l = [] ∨ has_nonhead pre d = false ∧ length l = 1%nat).
  { destruct l as [|c l'] eqn:El; [by left|]. right.
    assert (Hin : c ∈ l) by (rewrite El; by left).
    unfold l in Hin. apply elem_of_list_filter in Hin as [Hhd Hin]. apply elem_of_paths_of in Hin.
    pose proof (Hsub _ _ Hin) as Hpre.
    unfold is_head_cp in Hhd. apply Is_true_eq_true, N.eqb_eq in Hhd.
    destruct (has_nonhead pre d) eqn:Hnh.
    - destruct (Hper _ _ Hpre) as (_ & Hnone & _). rewrite (Hnone Hhd Hnh) in Hin. done.
    - split; [done|].
      (* the per-entry condition of dedup_okb gives exactly one head path *)
      unfold dedup_okb in Hok. rewrite !andb_true_iff, !forallb_elem_of in Hok.
      destruct Hok as [_ Hall].
      specialize (Hall (c, d) (proj2 (elem_of_map_to_list _ _ _) Hpre)). cbn [fst snd] in Hall.
      change (is_head_cp pre c) with (fst c =? head pre)%N in Hall.
      apply N.eqb_eq in Hhd. rewrite Hhd, Hnh in Hall. cbn [negb] in Hall.
      apply bool_decide_eq_true in Hall. fold l in Hall. by rewrite El in Hall. }
  split.
  - destruct Hcases as [->|[_ ->]]; cbn; lia.
  - intros Hcc. apply has_nonhead_committed in Hcc; [|done].
    destruct Hcases as [E|[Hn _]]; [done|congruence].
Qed.
