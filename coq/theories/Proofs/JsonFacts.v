(** C10 - facts about the JSON string codec of Model/Json.v: the escaped form is a
    legal RFC 8259 token, decodes to the original bytes, and is borrowed by
    serde_json exactly when nothing had to be escaped. *)
From Rocfl Require Import Base.Bytes Model.Json Proofs.BytesFacts.
From Coq Require Import Lia.
Open Scope N_scope.

(** case analysis over all 256 byte values *)
Ltac all_bytes c := destruct c as [[] [] [] [] [] [] [] []].

Lemma rev_fast_eq {A} (l : list A) : rev_fast l = rev l.
Proof. unfold rev_fast. symmetry. apply rev_alt. Qed.

(** * one source byte through writer and reader *)
Lemma dec_step c f rest :
  dec_body (S f) (esc_byte c ++ rest) = option_map (cons c) (dec_body f rest).
Proof. all_bytes c; reflexivity. Qed.

Lemma tok_step c rest : tok_body 0 (esc_byte c ++ rest) = tok_body 0 rest.
Proof. all_bytes c; reflexivity. Qed.

Lemma esc_byte_has_bsl c : existsb (fun x => code x =? 92) (esc_byte c) = needs_esc_byte c.
Proof. all_bytes c; reflexivity. Qed.

Lemma esc_byte_no_control c : forallb (fun x => 32 <=? code x) (esc_byte c) = true.
Proof. all_bytes c; reflexivity. Qed.

Lemma esc_byte_plain c : needs_esc_byte c = false -> esc_byte c = [c].
Proof. all_bytes c; intros H; try reflexivity; discriminate H. Qed.

Lemma esc_byte_length c : (1 <= List.length (esc_byte c))%nat.
Proof. all_bytes c; vm_compute; lia. Qed.

Lemma esc_contents_cons c s : esc_contents (c :: s) = esc_byte c ++ esc_contents s.
Proof. reflexivity. Qed.

Lemma esc_contents_length s : (List.length s <= List.length (esc_contents s))%nat.
Proof.
  induction s as [|c s IH]; [cbn; lia|].
  rewrite esc_contents_cons, app_length. pose proof (esc_byte_length c). cbn [List.length]. lia.
Qed.

(** * round trip at byte level *)
Lemma dec_contents s : forall f, (List.length s <= f)%nat ->
  dec_body (S f) (esc_contents s ++ [DQ]) = Some s.
Proof.
  induction s as [|c s IH]; intros f Hf.
  - reflexivity.
  - destruct f as [|f]; [cbn in Hf; lia|].
    rewrite esc_contents_cons, <- app_assoc, dec_step, IH by (cbn in Hf; lia). reflexivity.
Qed.

Lemma decode_raw_escape s : decode_raw (serde_escape s) = Some s.
Proof.
  unfold serde_escape, decode_raw. change (code DQ =? 34) with true. cbv iota.
  apply dec_contents. rewrite app_length. pose proof (esc_contents_length s). cbn. lia.
Qed.

Lemma decode_string_escape s : utf8_valid s = true -> decode_string (serde_escape s) = Some s.
Proof. intros H. unfold decode_string. now rewrite decode_raw_escape, H. Qed.

Lemma decode_string_escape_inv s r : decode_string (serde_escape s) = Some r -> r = s /\ utf8_valid s = true.
Proof.
  unfold decode_string. rewrite decode_raw_escape. destruct (utf8_valid s); [|discriminate].
  intros H. injection H as <-. split; reflexivity.
Qed.

Lemma decode_string_utf8 t r : decode_string t = Some r -> utf8_valid r = true.
Proof.
  unfold decode_string. destruct (decode_raw t) as [x|]; [|discriminate].
  destruct (utf8_valid x) eqn:E; [|discriminate]. intros H. injection H as <-. exact E.
Qed.

Lemma serde_escape_injective s1 s2 : serde_escape s1 = serde_escape s2 -> s1 = s2.
Proof.
  intros H. pose proof (decode_raw_escape s1) as H1. rewrite H, decode_raw_escape in H1. congruence.
Qed.

(** * the escaped form is a legal token *)
Lemma tok_contents s : tok_body 0 (esc_contents s ++ [DQ]) = true.
Proof.
  induction s as [|c s IH]; [reflexivity|].
  now rewrite esc_contents_cons, <- app_assoc, tok_step.
Qed.

Lemma escape_is_token s : json_string_token (serde_escape s) = true.
Proof. unfold serde_escape, json_string_token. now rewrite tok_contents. Qed.

Lemma escape_no_raw_control s : forallb (fun x => 32 <=? code x) (serde_escape s) = true.
Proof.
  unfold serde_escape. cbn [forallb]. change (32 <=? code DQ) with true. cbn [andb].
  rewrite forallb_app. cbn [forallb]. change (32 <=? code DQ) with true. rewrite andb_true_r.
  induction s as [|c s IH]; [reflexivity|].
  now rewrite esc_contents_cons, forallb_app, esc_byte_no_control, IH.
Qed.

(** * borrowed or copied *)
Lemma has_escape_contents s : existsb (fun x => code x =? 92) (esc_contents s) = needs_escape s.
Proof.
  induction s as [|c s IH]; [reflexivity|].
  rewrite esc_contents_cons, existsb_app, esc_byte_has_bsl, IH. reflexivity.
Qed.

Lemma has_escape_serde s : has_escape (serde_escape s) = needs_escape s.
Proof.
  unfold has_escape, serde_escape. cbn [existsb]. change (code DQ =? 92) with false. cbn [orb].
  rewrite existsb_app, has_escape_contents. cbn [existsb]. change (code DQ =? 92) with false.
  now rewrite !orb_false_r.
Qed.

Lemma esc_contents_plain s : needs_escape s = false -> esc_contents s = s.
Proof.
  induction s as [|c s IH]; [reflexivity|].
  cbn [needs_escape existsb]. intros H. apply orb_false_iff in H as [H1 H2].
  rewrite esc_contents_cons, (esc_byte_plain c H1), (IH H2). reflexivity.
Qed.

Lemma serde_escape_plain s : needs_escape s = false -> serde_escape s = DQ :: s ++ [DQ].
Proof. intros H. unfold serde_escape. now rewrite esc_contents_plain. Qed.

Lemma read_borrowed_plain s :
  utf8_valid s = true -> needs_escape s = false -> read_borrowed (serde_escape s) = Some s.
Proof.
  intros U H. unfold read_borrowed. now rewrite (decode_string_escape s U), has_escape_serde, H.
Qed.

Lemma read_borrowed_escaped s : needs_escape s = true -> read_borrowed (serde_escape s) = None.
Proof.
  intros H. unfold read_borrowed. rewrite has_escape_serde, H.
  destruct (decode_string (serde_escape s)); reflexivity.
Qed.

Lemma borrowed_iff s : utf8_valid s = true ->
  (read_borrowed (serde_escape s) = Some s <-> needs_escape s = false).
Proof.
  intros U. split.
  - intros H. destruct (needs_escape s) eqn:E; [|reflexivity].
    rewrite (read_borrowed_escaped s E) in H. discriminate.
  - apply read_borrowed_plain; assumption.
Qed.

(** a borrowed read and an owned read never disagree *)
Lemma read_borrowed_decode t s : read_borrowed t = Some s -> decode_string t = Some s.
Proof.
  unfold read_borrowed. destruct (decode_string t) as [x|]; [|discriminate].
  destruct (has_escape t); [discriminate|]. exact (fun H => H).
Qed.

Lemma read_with_escape bo s : utf8_valid s = true -> (bo && needs_escape s) = false ->
  read_with bo (serde_escape s) = Some s.
Proof.
  intros U H. destruct bo; cbn [read_with andb] in *.
  - now apply read_borrowed_plain.
  - now apply decode_string_escape.
Qed.

Lemma read_with_escape_fails bo s : (bo && needs_escape s) = true -> read_with bo (serde_escape s) = None.
Proof.
  intros H. apply andb_true_iff in H as [-> H]. cbn [read_with]. now apply read_borrowed_escaped.
Qed.
