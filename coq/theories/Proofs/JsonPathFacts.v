(** C10 - facts about the path visitors of Model/Json.v: LogicalPath::try_from is
    idempotent (what cp stores is what the reader maps to itself) and the content
    path built by ContentPath::for_logical_path is accepted by ContentPath's
    visitor exactly when the content directory is not empty. *)
From Rocfl Require Import Base.Bytes Model.VersionNum Model.Json Generated.Consts
  Proofs.BytesFacts Proofs.VersionNumFacts Proofs.JsonFacts.
From Coq Require Import Lia.
Open Scope N_scope.

Definition no_lead (s : bytes) : Prop := starts_with_slash s = false.

Lemma trim_start_no_lead s : no_lead (trim_start_slash s).
Proof.
  induction s as [|c s IH]; [reflexivity|]. cbn [trim_start_slash].
  destruct (code c =? 47) eqn:E; [exact IH|]. unfold no_lead. cbn [starts_with_slash]. exact E.
Qed.

Lemma trim_start_fix s : no_lead s -> trim_start_slash s = s.
Proof.
  destruct s as [|c s]; [reflexivity|]. unfold no_lead. cbn [starts_with_slash trim_start_slash].
  now intros ->.
Qed.

Lemma trim_start_idem s : trim_start_slash (trim_start_slash s) = trim_start_slash s.
Proof. apply trim_start_fix, trim_start_no_lead. Qed.

Lemma trim_start_app_last a c : (code c =? 47) = false ->
  trim_start_slash (a ++ [c]) = trim_start_slash a ++ [c].
Proof.
  intros H. induction a as [|x a IH]; cbn [app trim_start_slash].
  - now rewrite H.
  - destruct (code x =? 47); [exact IH|reflexivity].
Qed.

Lemma trim_end_slash_eq s : trim_end_slash s = rev (trim_start_slash (rev s)).
Proof. unfold trim_end_slash. now rewrite !rev_fast_eq. Qed.

Lemma ends_with_slash_eq s : ends_with_slash s = starts_with_slash (rev s).
Proof. unfold ends_with_slash. now rewrite rev_fast_eq. Qed.

Lemma trim_end_cons c r : (code c =? 47) = false -> trim_end_slash (c :: r) = c :: trim_end_slash r.
Proof.
  intros H. rewrite !trim_end_slash_eq. cbn [rev]. rewrite (trim_start_app_last _ _ H). apply rev_unit.
Qed.

Lemma trim_end_no_lead s : no_lead s -> no_lead (trim_end_slash s).
Proof.
  destruct s as [|c s]; [intros _; reflexivity|]. unfold no_lead. cbn [starts_with_slash]. intros H.
  rewrite (trim_end_cons _ _ H). cbn [starts_with_slash]. exact H.
Qed.

Lemma trim_end_idem s : trim_end_slash (trim_end_slash s) = trim_end_slash s.
Proof. rewrite !trim_end_slash_eq. now rewrite rev_involutive, trim_start_idem. Qed.

Lemma trim_end_fix s : ends_with_slash s = false -> trim_end_slash s = s.
Proof.
  rewrite ends_with_slash_eq, trim_end_slash_eq. intros H. rewrite (trim_start_fix _ H). apply rev_involutive.
Qed.

(** the trimmed form is a fixed point of both trims *)
Lemma trimmed_fix v :
  let t := trim_end_slash (trim_start_slash v) in
  trim_start_slash t = t /\ trim_end_slash t = t.
Proof.
  cbv zeta. split.
  - apply trim_start_fix, trim_end_no_lead, trim_start_no_lead.
  - apply trim_end_idem.
Qed.

Lemma lpath_ok_trimmed v t : lpath_try_from v = Ok t -> t = trim_end_slash (trim_start_slash v).
Proof.
  unfold lpath_try_from. destruct (is_empty _); [congruence|].
  destruct (existsb _ _); [discriminate|congruence].
Qed.

Lemma lpath_fix v t : lpath_try_from v = Ok t -> trim_start_slash t = t /\ trim_end_slash t = t.
Proof. intros H. rewrite (lpath_ok_trimmed _ _ H). apply trimmed_fix. Qed.

(** LogicalPath::try_from maps its own results to themselves *)
Lemma lpath_idem v t : lpath_try_from v = Ok t -> lpath_try_from t = Ok t.
Proof.
  intros H. destruct (lpath_fix _ _ H) as [E1 E2].
  pose proof (lpath_ok_trimmed _ _ H) as Et.
  unfold lpath_try_from in *. rewrite E1, E2. rewrite <- Et in H. exact H.
Qed.

Lemma cp_logical_path_canonical dst src lp :
  cp_logical_path dst src = Ok lp -> lpath_try_from lp = Ok lp.
Proof.
  unfold cp_logical_path. destruct (lpath_try_from dst) as [d| |] eqn:E; try discriminate.
  destruct (ends_with_slash dst).
  - apply lpath_idem.
  - intros H. injection H as <-. eapply lpath_idem; eassumption.
Qed.

(** a canonical non-empty path has legal parts only *)
Lemma lpath_parts_legal lp : lpath_try_from lp = Ok lp -> is_empty lp = false ->
  existsb part_illegal (split_slash lp []) = false.
Proof.
  intros H Hne. destruct (lpath_fix _ _ H) as [E1 E2].
  unfold lpath_try_from in H. rewrite E1, E2, Hne in H.
  destruct (existsb part_illegal (split_slash lp [])); [discriminate|reflexivity].
Qed.

(** * splitting *)
Lemma split_no_slash a : forall r cur, existsb (fun x => code x =? 47) a = false ->
  split_slash (a ++ SL :: r) cur = (rev cur ++ a) :: split_slash r [].
Proof.
  induction a as [|c a IH]; intros r cur H.
  - cbn [app split_slash]. change (code SL =? 47) with true. cbv iota. now rewrite rev_fast_eq, app_nil_r.
  - cbn [existsb] in H. apply orb_false_iff in H as [Hc Ha].
    cbn [app split_slash]. rewrite Hc. rewrite (IH r (c :: cur) Ha). cbn [rev].
    now rewrite <- app_assoc.
Qed.

Lemma before_slash_app a r : existsb (fun x => code x =? 47) a = false ->
  before_slash (a ++ SL :: r) = Some a.
Proof.
  induction a as [|c a IH]; intros H.
  - cbn [app before_slash]. change (code SL =? 47) with true. reflexivity.
  - cbn [existsb] in H. apply orb_false_iff in H as [Hc Ha].
    cbn [app before_slash]. now rewrite Hc, (IH Ha).
Qed.

Lemma digits_no_slash s : forallb is_digit s = true -> existsb (fun x => code x =? 47) s = false.
Proof.
  induction s as [|c s IH]; [reflexivity|]. cbn [forallb existsb]. intros H.
  apply andb_true_iff in H as [Hc Hs]. rewrite (IH Hs), orb_false_r.
  unfold is_digit in Hc. apply andb_true_iff in Hc as [H1 H2]. lia.
Qed.

Lemma vdisplay_no_slash v : existsb (fun x => code x =? 47) (vdisplay v) = false.
Proof.
  unfold vdisplay. cbn [existsb]. change (code "v"%char =? 47) with false. cbn [orb].
  apply digits_no_slash. unfold pad_left0. rewrite forallb_app, forallb_is_digit_dec_digits, andb_true_r.
  apply forallb_replicate. reflexivity.
Qed.

Lemma starts_with_slash_app s x : is_empty s = false -> starts_with_slash (s ++ x) = starts_with_slash s.
Proof. destruct s; [discriminate|reflexivity]. Qed.

Lemma rev_nonempty (s : bytes) : is_empty s = false -> is_empty (rev s) = false.
Proof.
  destruct s as [|c s]; [discriminate|]. intros _. cbn [rev].
  destruct (rev s); reflexivity.
Qed.

Lemma trimmed_no_trailing lp : trim_end_slash lp = lp -> ends_with_slash lp = false.
Proof.
  rewrite trim_end_slash_eq, ends_with_slash_eq. intros H.
  assert (E : trim_start_slash (rev lp) = rev lp).
  { rewrite <- H at 2. now rewrite rev_involutive. }
  rewrite <- E. apply trim_start_no_lead.
Qed.

Lemma content_path_rev v cdir lp :
  rev (content_path v cdir lp) = rev lp ++ SL :: rev cdir ++ SL :: rev (vdisplay v).
Proof.
  unfold content_path. rewrite rev_app_distr. cbn [rev]. rewrite rev_app_distr. cbn [rev].
  now rewrite <- !app_assoc.
Qed.

Lemma content_path_no_trailing v cdir lp : lpath_try_from lp = Ok lp -> is_empty lp = false ->
  ends_with_slash (content_path v cdir lp) = false.
Proof.
  intros H Hne. rewrite ends_with_slash_eq. rewrite content_path_rev.
  rewrite starts_with_slash_app by (now apply rev_nonempty).
  rewrite <- ends_with_slash_eq. apply (trimmed_no_trailing lp). apply (lpath_fix _ _ H).
Qed.

Lemma content_path_head v cdir lp : starts_with_slash (content_path v cdir lp) = false.
Proof. reflexivity. Qed.

Lemma content_path_not_mutable_head v cdir lp :
  starts_with K_MUTABLE_HEAD_EXT_DIR (content_path v cdir lp) = false.
Proof. reflexivity. Qed.

Lemma content_path_split v cdir lp : existsb (fun x => code x =? 47) cdir = false ->
  split_slash (content_path v cdir lp) [] = vdisplay v :: cdir :: split_slash lp [].
Proof.
  intros H. unfold content_path.
  rewrite (split_no_slash _ _ _ (vdisplay_no_slash v)). cbn [rev app].
  now rewrite (split_no_slash _ _ _ H).
Qed.

Lemma vdisplay_part_legal v : part_illegal (vdisplay v) = false.
Proof. reflexivity. Qed.

Lemma validate_content_dir_parts cdir : validate_content_dir cdir = true ->
  bytes_eqb cdir [DOT] = false /\ bytes_eqb cdir [DOT; DOT] = false /\
  existsb (fun x => code x =? 47) cdir = false.
Proof.
  unfold validate_content_dir. intros H. apply negb_true_iff in H.
  apply orb_false_iff in H as [H H3]. apply orb_false_iff in H as [H1 H2]. auto.
Qed.

(** ** the content path of an accepted logical path is read back unchanged *)
Lemma content_path_reads v cdir lp :
  vwf v = true -> vfits v = true ->
  validate_content_dir cdir = true -> is_empty cdir = false ->
  lpath_try_from lp = Ok lp -> is_empty lp = false ->
  cpath_read (content_path v cdir lp) = Some (content_path v cdir lp).
Proof.
  intros Hwf Hfit Hc Hcne Hlp Hlpne.
  destruct (validate_content_dir_parts _ Hc) as (Hd1 & Hd2 & Hns).
  unfold cpath_read.
  rewrite content_path_head, (content_path_no_trailing v cdir lp Hlp Hlpne). cbn [orb].
  assert (El : lpath_try_from (content_path v cdir lp) = Ok (content_path v cdir lp)).
  { unfold lpath_try_from.
    rewrite (trim_start_fix _ (content_path_head v cdir lp)).
    rewrite (trim_end_fix _ (content_path_no_trailing v cdir lp Hlp Hlpne)).
    change (is_empty (content_path v cdir lp)) with false. cbv iota.
    rewrite (content_path_split v cdir lp Hns). cbn [existsb].
    rewrite vdisplay_part_legal, (lpath_parts_legal lp Hlp Hlpne).
    unfold part_illegal at 1. rewrite Hd1, Hd2, Hcne. reflexivity. }
  rewrite El, content_path_not_mutable_head.
  unfold content_path. rewrite (before_slash_app _ _ (vdisplay_no_slash v)).
  now rewrite (vparse_vdisplay v Hwf Hfit).
Qed.

(** ** with an empty content directory no content path can be read *)
Lemma content_path_empty_cdir_unreadable v lp : cpath_read (content_path v [] lp) = None.
Proof.
  unfold cpath_read. rewrite content_path_head. cbn [orb].
  destruct (ends_with_slash (content_path v [] lp)) eqn:E; [reflexivity|].
  unfold lpath_try_from.
  rewrite (trim_start_fix _ (content_path_head v [] lp)), (trim_end_fix _ E).
  change (is_empty (content_path v [] lp)) with false. cbv iota.
  rewrite (content_path_split v [] lp eq_refl). cbn [existsb].
  change (part_illegal []) with true. now rewrite orb_true_r.
Qed.
