(** C10 - the round trip writer -> rocfl's reader for every string position of an
    inventory, and the accepted inputs of create_object / cp / commit. *)
From Rocfl Require Import Base.Bytes Model.VersionNum Model.Json Generated.Consts
  Proofs.BytesFacts Proofs.VersionNumFacts Proofs.JsonFacts Proofs.JsonPathFacts.
From Coq Require Import Lia.
Open Scope N_scope.

(** * UTF-8 validity of concatenations *)
Lemma utf8_valid_app_aux n : forall a b2, (List.length a <= n)%nat ->
  utf8_valid a = true -> utf8_valid (a ++ b2) = utf8_valid b2.
Proof.
  induction n as [|n IH]; intros a b2 Hl Ha.
  - destruct a; [reflexivity|cbn in Hl; lia].
  - destruct a as [|c r]; [reflexivity|]. cbn [List.length] in Hl.
    cbn [app]. cbn [utf8_valid] in Ha |- *.
    destruct (code c <? 128); [apply IH; [lia|exact Ha]|].
    destruct (in_range 194 223 c).
    { destruct r as [|b1 r1]; [discriminate|]. cbn [app].
      apply andb_true_iff in Ha as [Hp Hr]. rewrite Hp. cbn [andb]. apply IH; [cbn in Hl; lia|exact Hr]. }
    destruct (in_range 224 239 c).
    { destruct r as [|b1 [|b3 r2]]; try discriminate. cbn [app].
      apply andb_true_iff in Ha as [Hp Hr]. rewrite Hp. cbn [andb]. apply IH; [cbn in Hl; lia|exact Hr]. }
    destruct (in_range 240 244 c); [|discriminate].
    destruct r as [|b1 [|b3 [|b4 r3]]]; try discriminate. cbn [app].
    apply andb_true_iff in Ha as [Hp Hr]. rewrite Hp. cbn [andb]. apply IH; [cbn in Hl; lia|exact Hr].
Qed.

Lemma utf8_valid_app a b2 : utf8_valid a = true -> utf8_valid (a ++ b2) = utf8_valid b2.
Proof. apply (utf8_valid_app_aux (List.length a)). lia. Qed.

Lemma utf8_valid_ascii s : forallb (fun c => code c <? 128) s = true -> utf8_valid s = true.
Proof.
  induction s as [|c s IH]; [reflexivity|]. cbn [forallb utf8_valid]. intros H.
  apply andb_true_iff in H as [Hc Hs]. rewrite Hc. now apply IH.
Qed.

Lemma digits_ascii s : forallb is_digit s = true -> forallb (fun c => code c <? 128) s = true.
Proof.
  induction s as [|c s IH]; [reflexivity|]. cbn [forallb]. intros H.
  apply andb_true_iff in H as [Hc Hs]. rewrite (IH Hs), andb_true_r.
  unfold is_digit in Hc. apply andb_true_iff in Hc as [H1 H2]. lia.
Qed.

Lemma vdisplay_utf8 v : utf8_valid (vdisplay v) = true.
Proof.
  apply utf8_valid_ascii. unfold vdisplay. cbn [forallb]. change (code "v"%char <? 128) with true. cbn [andb].
  apply digits_ascii. unfold pad_left0. rewrite forallb_app, forallb_is_digit_dec_digits, andb_true_r.
  apply forallb_replicate. reflexivity.
Qed.

Lemma utf8_valid_slash s : utf8_valid (SL :: s) = utf8_valid s.
Proof. reflexivity. Qed.

Lemma content_path_utf8 v cdir lp : utf8_valid cdir = true -> utf8_valid lp = true ->
  utf8_valid (content_path v cdir lp) = true.
Proof.
  intros Hc Hl. unfold content_path.
  now rewrite (utf8_valid_app _ _ (vdisplay_utf8 v)), utf8_valid_slash, (utf8_valid_app _ _ Hc), utf8_valid_slash.
Qed.

(** * writer followed by rocfl's reader, per position *)
Lemma post_visit_ok p s : pos_value_ok p s = true -> post_visit p s = Some s.
Proof.
  unfold pos_value_ok. destruct (post_visit p s) as [r|]; [|discriminate].
  intros H. apply bytes_eqb_eq in H. now subst.
Qed.

(** ** a version name is never escaped by the writer: 'v' [0-9]+ has no quote, no
    backslash and no control character *)
Lemma digits_no_escape ds : forallb is_digit ds = true -> needs_escape ds = false.
Proof.
  induction ds as [|c ds IH]; [reflexivity|]. cbn [forallb]. intros H.
  apply andb_true_iff in H as [Hc Hs]. unfold needs_escape in *. cbn [existsb]. rewrite (IH Hs), orb_false_r.
  unfold is_digit in Hc. apply andb_true_iff in Hc as [H1 H2]. unfold needs_esc_byte. lia.
Qed.

Lemma vparse_ok_no_escape s : is_ok (vparse s) = true -> needs_escape s = false.
Proof.
  unfold vparse. destruct s as [|c ds]; [discriminate|].
  destruct (Ascii.eqb c "v"%char) eqn:Ec; cbn [negb]; [|discriminate].
  destruct ds as [|d0 ds']; [discriminate|].
  destruct (forallb is_digit (d0 :: ds')) eqn:Ed; cbn [negb]; [|discriminate].
  intros _. apply Ascii.eqb_eq in Ec. subst c.
  unfold needs_escape. cbn [existsb]. change (needs_esc_byte "v"%char) with false. cbn [orb].
  exact (digits_no_escape _ Ed).
Qed.

(** the two positions still read through a borrowed-only type hold version names only *)
Lemma version_name_never_escaped p s :
  main_pos_borrowed p = true -> pos_value_ok p s = true -> needs_escape s = false.
Proof.
  intros B V. unfold pos_value_ok in V.
  destruct p; try discriminate; cbn [post_visit] in V;
    (destruct (is_ok (vparse s)) eqn:E; [now apply vparse_ok_no_escape|discriminate]).
Qed.

(** ** the CURRENT main reader (after bb69bb9): every string rocfl writes at a position whose
    visitor maps it to itself is read back, whatever it contains *)
Lemma main_read_roundtrip p s :
  utf8_valid s = true -> pos_value_ok p s = true ->
  main_read_pos p (serde_escape s) = Some s.
Proof.
  intros U V. unfold main_read_pos.
  assert (K : (main_pos_borrowed p && needs_escape s) = false).
  { destruct (main_pos_borrowed p) eqn:B; [|reflexivity]. cbn [andb]. now apply (version_name_never_escaped p). }
  rewrite (read_with_escape _ _ U K). now apply post_visit_ok.
Qed.

(** on ARBITRARY tokens (also those other software writes) the main reader is the conforming
    decoder followed by the position's visitor, except for an escaped spelling of head / a
    version key *)
Lemma main_read_conforming p t :
  escaped_version_name_token p t = false ->
  main_read_pos p t = match decode_string t with Some s => post_visit p s | None => None end.
Proof.
  unfold escaped_version_name_token, main_read_pos, read_with, read_borrowed.
  destruct (main_pos_borrowed p); cbn [andb]; [|reflexivity].
  intros ->. destruct (decode_string t); reflexivity.
Qed.

Lemma main_read_conforming_outside_versions p t :
  main_pos_borrowed p = false ->
  main_read_pos p t = match decode_string t with Some s => post_visit p s | None => None end.
Proof. intros B. apply main_read_conforming. unfold escaped_version_name_token. now rewrite B. Qed.

Lemma main_read_escaped_version_name_refused p t :
  escaped_version_name_token p t = true -> main_read_pos p t = None.
Proof.
  unfold escaped_version_name_token, main_read_pos, read_with, read_borrowed. intros H.
  apply andb_true_iff in H as [-> ->]. destruct (decode_string t); reflexivity.
Qed.

(** rocfl never writes a token of that class *)
Lemma written_token_not_escaped_version_name p s :
  pos_value_ok p s = true -> escaped_version_name_token p (serde_escape s) = false.
Proof.
  intros V. unfold escaped_version_name_token. rewrite has_escape_serde.
  destruct (main_pos_borrowed p) eqn:B; [|reflexivity]. cbn [andb]. now apply (version_name_never_escaped p).
Qed.

(** ** the CURRENT validator reader (after 2f36fc5) is the conforming decoder at every position *)
Lemma val_read_conforming p t : val_read_pos p t = decode_string t.
Proof. reflexivity. Qed.

Lemma val_read_roundtrip p s : utf8_valid s = true -> val_read_pos p (serde_escape s) = Some s.
Proof. intros U. unfold val_read_pos. now apply decode_string_escape. Qed.

Lemma reads_back_true p s : reads_back p s = true <-> write_read p s = Some s.
Proof.
  unfold reads_back. destruct (write_read p s) as [r|]; split; try discriminate.
  - intros H. apply bytes_eqb_eq in H. now subst.
  - intros H. injection H as ->. apply bytes_eqb_refl.
Qed.

(** free-text positions: the visitor is the identity *)
Definition free_text (p : pos) : bool :=
  match p with
  | PId | PType | PContentDir | PCreated | PMessage | PUserName | PUserAddress
  | PManifestDigest | PStateDigest => true
  | _ => false
  end.

Lemma free_text_value_ok p s : free_text p = true -> pos_value_ok p s = true.
Proof. destruct p; try discriminate; intros _; unfold pos_value_ok; cbn [post_visit]; apply bytes_eqb_refl. Qed.

(** id, contentDirectory, message, user name, address and the digests: they always read
    back, whatever they contain *)
Lemma owned_text_roundtrip p s :
  free_text p = true -> utf8_valid s = true ->
  main_read_pos p (serde_escape s) = Some s.
Proof. intros F U. apply main_read_roundtrip; [assumption|now apply free_text_value_ok]. Qed.

(** ** HISTORICAL readers (before bb69bb9 / 2f36fc5): read back exactly outside the positions
    then borrowed; facts about [main_read_pos_before_fix] / [val_read_pos_before_fix], not about the current code *)
Lemma rocfl_read_roundtrip_before_fix p s :
  utf8_valid s = true -> pos_value_ok p s = true -> (main_pos_borrowed_before_fix p && needs_escape s) = false ->
  main_read_pos_before_fix p (serde_escape s) = Some s.
Proof.
  intros U V K. unfold main_read_pos_before_fix. rewrite (read_with_escape _ _ U K). now apply post_visit_ok.
Qed.

Lemma rocfl_read_wedge_before_fix p s :
  (main_pos_borrowed_before_fix p && needs_escape s) = true -> main_read_pos_before_fix p (serde_escape s) = None.
Proof. intros K. unfold main_read_pos_before_fix. now rewrite (read_with_escape_fails _ _ K). Qed.

Lemma validator_read_fails_before_fix p s :
  (val_pos_borrowed_before_fix p && needs_escape s) = true -> val_read_pos_before_fix p (serde_escape s) = None.
Proof. intros K. unfold val_read_pos_before_fix. now apply read_with_escape_fails. Qed.

(** * accepted inputs *)

(** cp: the stored logical path is canonical, hence mapped to itself by insert_path *)
Lemma cp_path_value_ok dst src lp : cp_logical_path dst src = Ok lp -> pos_value_ok PLogicalPath lp = true.
Proof.
  intros H. unfold pos_value_ok. cbn [post_visit]. rewrite (cp_logical_path_canonical _ _ _ H).
  apply bytes_eqb_refl.
Qed.

(** every accepted cp (no exception any more): the staged inventory is readable *)
Lemma cp_no_wedge dst src lp :
  cp_logical_path dst src = Ok lp -> utf8_valid lp = true ->
  main_read_pos PLogicalPath (serde_escape lp) = Some lp /\
  val_read_pos PLogicalPath (serde_escape lp) = Some lp.
Proof.
  intros H U. split; [|now apply val_read_roundtrip].
  apply main_read_roundtrip; [assumption|]. eapply cp_path_value_ok; eassumption.
Qed.

Lemma cp_wedge_before_fix dst src lp :
  cp_logical_path dst src = Ok lp -> needs_escape lp = true ->
  main_read_pos_before_fix PLogicalPath (serde_escape lp) = None.
Proof. intros _ K. apply rocfl_read_wedge_before_fix. now rewrite K. Qed.

(** * the content directory names create_object accepts (repo.rs:579-590) *)
Lemma starts_with_app p s : starts_with p (p ++ s) = true.
Proof.
  induction p as [|c p IH]; [reflexivity|]. cbn [app starts_with].
  now rewrite Ascii.eqb_refl, IH.
Qed.

Lemma create_object_cdir_parts c : create_object_cdir c = true ->
  validate_content_dir c = true /\ is_empty c = false /\
  bytes_eqb c K_INVENTORY_FILE = false /\ starts_with K_INVENTORY_SIDECAR_PREFIX c = false /\
  cdir_not_a_file_name c = false.
Proof.
  unfold create_object_cdir, cdir_reserved. intros H.
  apply andb_true_iff in H as [H Hn]. apply negb_true_iff in Hn.
  apply andb_true_iff in H as [Hv Hr]. apply negb_true_iff in Hr.
  apply orb_false_iff in Hr as [Hr H3]. apply orb_false_iff in Hr as [H1 H2]. auto.
Qed.

Lemma create_object_cdir_iff c : create_object_cdir c = true <->
  validate_content_dir c = true /\ is_empty c = false /\
  bytes_eqb c K_INVENTORY_FILE = false /\ starts_with K_INVENTORY_SIDECAR_PREFIX c = false /\
  cdir_not_a_file_name c = false.
Proof.
  split; [apply create_object_cdir_parts|].
  intros (Hv & H1 & H2 & H3 & H4). unfold create_object_cdir, cdir_reserved. now rewrite Hv, H1, H2, H3, H4.
Qed.

(** an accepted name can be the name of a directory: no NUL, at most 255 bytes (the
    environment's [fs_name_ok]), so neither the first cp nor the stage cleanup of commit
    (fs.rs:852-855) meets a name the file system refuses *)
Lemma accepted_cdir_is_file_name c : create_object_cdir c = true -> fs_name_ok c = true.
Proof.
  intros H. destruct (create_object_cdir_parts _ H) as (_ & _ & _ & _ & Hn).
  unfold cdir_not_a_file_name in Hn. apply orb_false_iff in Hn as [Hl Hz].
  unfold fs_name_ok. rewrite Hz. cbn [negb andb]. lia.
Qed.

(** the fix only refuses more: an accepted name passes validate_content_dir *)
Lemma create_object_cdir_validates c : create_object_cdir c = true -> validate_content_dir c = true.
Proof. intros H. apply (create_object_cdir_parts _ H). Qed.

Lemma accepted_cdir_nonempty c : create_object_cdir c = true -> is_empty c = false.
Proof. intros H. apply (create_object_cdir_parts _ H). Qed.

(** no accepted name is one of the two inventory files of the version directory,
    whatever the digest algorithm of the object is *)
Lemma accepted_cdir_no_collision c alg : create_object_cdir c = true -> cdir_collides c alg = false.
Proof.
  intros H. destruct (create_object_cdir_parts _ H) as (_ & _ & H2 & H3 & _).
  unfold cdir_collides. rewrite H2. cbn [orb].
  destruct (bytes_eqb c (K_INVENTORY_SIDECAR_PREFIX ++ alg)) eqn:E; [|reflexivity].
  apply bytes_eqb_eq in E. subst c. now rewrite starts_with_app in H3.
Qed.

(** every colliding name is refused *)
Lemma collision_refused c alg : cdir_collides c alg = true -> create_object_cdir c = false.
Proof.
  intros H. destruct (create_object_cdir c) eqn:E; [|reflexivity].
  now rewrite (accepted_cdir_no_collision _ alg E) in H.
Qed.

(** the manifest entry written for an accepted logical path *)
Lemma content_path_value_ok v cdir lp :
  vwf v = true -> vfits v = true ->
  create_object_cdir cdir = true ->
  lpath_try_from lp = Ok lp -> is_empty lp = false ->
  pos_value_ok PContentPath (content_path v cdir lp) = true.
Proof.
  intros Hwf Hfit Hc Hlp Hne. destruct (create_object_cdir_parts _ Hc) as (Hv & Hcne & _ & _).
  unfold pos_value_ok. cbn [post_visit]. rewrite content_path_reads by assumption.
  apply bytes_eqb_refl.
Qed.

Lemma content_path_roundtrip v cdir lp :
  vwf v = true -> vfits v = true ->
  create_object_cdir cdir = true ->
  lpath_try_from lp = Ok lp -> is_empty lp = false ->
  utf8_valid cdir = true -> utf8_valid lp = true ->
  main_read_pos PContentPath (serde_escape (content_path v cdir lp)) = Some (content_path v cdir lp).
Proof.
  intros. apply main_read_roundtrip; [now apply content_path_utf8 | now apply content_path_value_ok].
Qed.

(** create_object followed by the first cp and a commit: the contentDirectory string and
    the manifest entry are read back unchanged by every later command, and the commit
    does not find the content directory in the place of an inventory file *)
Lemma accepted_cdir_no_wedge v cdir lp alg :
  vwf v = true -> vfits v = true ->
  create_object_cdir cdir = true ->
  lpath_try_from lp = Ok lp -> is_empty lp = false ->
  utf8_valid cdir = true -> utf8_valid lp = true ->
  main_read_pos PContentDir (serde_escape cdir) = Some cdir /\
  main_read_pos PContentPath (serde_escape (content_path v cdir lp)) = Some (content_path v cdir lp) /\
  cdir_collides cdir alg = false /\ fs_name_ok cdir = true.
Proof.
  intros Hwf Hfit Hc Hlp Hne Uc Ul. split; [|split; [|split]].
  - now apply owned_text_roundtrip.
  - now apply content_path_roundtrip.
  - now apply accepted_cdir_no_collision.
  - now apply accepted_cdir_is_file_name.
Qed.

(** historical (before d88c1da): the blank name and both inventory names were accepted *)
Lemma before_fix_accepted_blank_and_inventory_names alg :
  create_object_cdir_before_fix [] = true /\
  create_object_cdir_before_fix K_INVENTORY_FILE = true /\ cdir_collides K_INVENTORY_FILE alg = true /\
  (existsb (fun x => code x =? 47) alg = false ->
   create_object_cdir_before_fix (K_INVENTORY_SIDECAR_PREFIX ++ alg) = true /\
   cdir_collides (K_INVENTORY_SIDECAR_PREFIX ++ alg) alg = true).
Proof.
  split; [reflexivity|]. split; [reflexivity|]. split; [reflexivity|].
  intros Hns. split.
  - unfold create_object_cdir_before_fix, validate_content_dir.
    rewrite existsb_app, Hns. reflexivity.
  - unfold cdir_collides. now rewrite bytes_eqb_refl, orb_true_r.
Qed.

Lemma content_path_empty_cdir_wedge v lp :
  main_read_pos PContentPath (serde_escape (content_path v [] lp)) = None.
Proof.
  unfold main_read_pos. cbn [main_pos_borrowed read_with].
  destruct (decode_string (serde_escape (content_path v [] lp))) as [r|] eqn:E; [|reflexivity].
  apply decode_string_escape_inv in E as [-> _]. cbn [post_visit]. apply content_path_empty_cdir_unreadable.
Qed.

(** create_object's id (repo.rs:551-557, 577) *)
Lemma trim_nonblank_nonempty id : is_empty (rust_trim id) = false -> is_empty id = false.
Proof. destruct id; [intros H; vm_compute in H; discriminate|reflexivity]. Qed.

Lemma create_object_id_stored id t :
  create_object_id id = Ok t -> t = id /\ is_empty (rust_trim id) = false /\ is_empty id = false.
Proof.
  unfold create_object_id. destruct (is_empty (rust_trim id)) eqn:E; [discriminate|].
  destruct (is_empty id) eqn:E2; [discriminate|].
  intros H. injection H as <-. auto.
Qed.

(** the id is stored exactly as given: no exception *)
Lemma create_object_id_same id t : create_object_id id = Ok t -> t = id.
Proof. intros H. apply (create_object_id_stored _ _ H). Qed.

(** accepted exactly when something is left after trimming Unicode white space *)
Lemma create_object_id_accepts_iff id :
  create_object_id id = Ok id <-> is_empty (rust_trim id) = false.
Proof.
  split.
  - intros H. apply (create_object_id_stored _ _ H).
  - intros H. unfold create_object_id. now rewrite H, (trim_nonblank_nonempty _ H).
Qed.

Lemma create_object_id_refuses_blank id :
  is_empty (rust_trim id) = true -> create_object_id id = Err.
Proof. intros H. unfold create_object_id. now rewrite H. Qed.

Lemma create_object_id_total id :
  (is_empty (rust_trim id) = false /\ create_object_id id = Ok id) \/
  (is_empty (rust_trim id) = true /\ create_object_id id = Err).
Proof.
  destruct (is_empty (rust_trim id)) eqn:E.
  - right. split; [reflexivity|now apply create_object_id_refuses_blank].
  - left. split; [reflexivity|now apply create_object_id_accepts_iff].
Qed.

(** an accepted id is written so that every later command reads the very string given *)
Lemma create_object_id_roundtrip id t :
  create_object_id id = Ok t -> utf8_valid id = true ->
  t = id /\ main_read_pos PId (serde_escape t) = Some id /\ val_read_pos PId (serde_escape t) = Some id.
Proof.
  intros H U. rewrite (create_object_id_same _ _ H). split; [reflexivity|]. split.
  - now apply owned_text_roundtrip.
  - now apply val_read_roundtrip.
Qed.

(** historical (before 031a721): the trimmed string was stored *)
Lemma create_object_id_before_fix_differs id t :
  create_object_id_before_fix id = Ok t -> rust_trim id <> id -> t <> id.
Proof.
  unfold create_object_id_before_fix. destruct (is_empty (rust_trim id)); [discriminate|].
  intros H N. injection H as <-. exact N.
Qed.
