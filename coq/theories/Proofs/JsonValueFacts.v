(** C07 - facts about Model/JsonValue.v.
    (A) every legal RFC 8259 spelling of a string (raw bytes, two-character escapes,
        \uXXXX, surrogate pairs, in any mixture) is scanned and decoded to the same bytes;
        serde_json's own escaping is one such spelling;
    (B) the parser inverts the compact printer on well-formed values;
    (C) more fuel never changes a successful parse. *)
From Rocfl Require Import Base.Bytes Model.Json Model.JsonValue Proofs.BytesFacts Proofs.JsonFacts.
From Coq Require Import Lia ZArith ZifyBool ZifyN ZifyNat.
Ltac Zify.zify_post_hook ::= Z.div_mod_to_equations.
Open Scope N_scope.

(** * (A) Legal spellings of a JSON string, RFC 8259 section 7 *)

(** the two-character escapes: the byte after the backslash and the byte it denotes
    %x22 / %x5C / %x2F / b / f / n / r / t *)
Definition simple_unescape (e : ascii) : option ascii :=
  let n := code e in
  if n =? 34 then Some DQ
  else if n =? 92 then Some BSL
  else if n =? 47 then Some SL
  else if n =? 98 then Some (ascii_of_N 8)
  else if n =? 102 then Some (ascii_of_N 12)
  else if n =? 110 then Some (ascii_of_N 10)
  else if n =? 114 then Some (ascii_of_N 13)
  else if n =? 116 then Some (ascii_of_N 9)
  else None.

(** one unit of a string body and the UTF-8 bytes it stands for *)
Inductive spell1 : bytes -> bytes -> Prop :=
| sp_raw c : 32 <= code c -> code c <> 34 -> code c <> 92 -> spell1 [c] [c]
| sp_simple e d : simple_unescape e = Some d -> spell1 [BSL; e] [d]
| sp_u4 h1 h2 h3 h4 n :
    hex4 [h1; h2; h3; h4] = Some (n, []) -> (n < 55296 \/ 57343 < n) ->
    spell1 (BSL :: "u"%char :: [h1; h2; h3; h4]) (utf8_encode n)
| sp_pair h1 h2 h3 h4 l1 l2 l3 l4 n1 n2 :
    hex4 [h1; h2; h3; h4] = Some (n1, []) -> hex4 [l1; l2; l3; l4] = Some (n2, []) ->
    55296 <= n1 <= 56319 -> 56320 <= n2 <= 57343 ->
    spell1 (BSL :: "u"%char :: [h1; h2; h3; h4] ++ BSL :: "u"%char :: [l1; l2; l3; l4])
           (utf8_encode (N.lor (N.shiftl (n1 - 55296) 10) (n2 - 56320) + 65536)).

Inductive spells : bytes -> bytes -> Prop :=
| spells_nil : spells [] []
| spells_app t1 s1 t s : spell1 t1 s1 -> spells t s -> spells (t1 ++ t) (s1 ++ s).

(** ** the decoder on one unit *)
Lemma hex4_ext a b0 c d n : hex4 [a; b0; c; d] = Some (n, []) ->
  forall r, hex4 (a :: b0 :: c :: d :: r) = Some (n, r).
Proof.
  unfold hex4. destruct (hex_val a), (hex_val b0), (hex_val c), (hex_val d); try discriminate.
  intros H r. injection H as <-. reflexivity.
Qed.

Lemma dec_body_bsl f r :
  dec_body (S f) (BSL :: r) =
  match parse_escape r with
  | Some (out, r') => option_map (app out) (dec_body f r')
  | None => None
  end.
Proof. reflexivity. Qed.

Lemma parse_escape_u r1 :
  parse_escape ("u"%char :: r1) =
  match hex4 r1 with
  | None => None
  | Some (n1, r2) =>
      if (56320 <=? n1) && (n1 <=? 57343) then None
      else if (55296 <=? n1) && (n1 <=? 56319) then
        match r2 with
        | b1 :: u1 :: r3 =>
            if (code b1 =? 92) && (code u1 =? 117) then
              match hex4 r3 with
              | None => None
              | Some (n2, r4) =>
                  if (n2 <? 56320) || (57343 <? n2) then None
                  else Some (utf8_encode (N.lor (N.shiftl (n1 - 55296) 10) (n2 - 56320) + 65536), r4)
              end
            else None
        | _ => None
        end
      else Some (utf8_encode n1, r2)
  end.
Proof. reflexivity. Qed.

Lemma dec_spell1 t1 s1 : spell1 t1 s1 -> forall f rest,
  dec_body (S f) (t1 ++ rest) = option_map (app s1) (dec_body f rest).
Proof.
  intros H f rest. destruct H as [c H1 H2 H3 | e d Hs | h1 h2 h3 h4 n Hh Hn
                                  | h1 h2 h3 h4 l1 l2 l3 l4 n1 n2 Hh Hl Hn1 Hn2].
  - cbn [app dec_body].
    replace (code c =? 34) with false by lia. replace (code c =? 92) with false by lia.
    replace (code c <? 32) with false by lia.
    destruct (dec_body f rest); reflexivity.
  - all_bytes e; vm_compute in Hs; try discriminate Hs; injection Hs as <-; reflexivity.
  - cbn [app]. rewrite dec_body_bsl, parse_escape_u, (hex4_ext _ _ _ _ _ Hh).
    replace ((56320 <=? n) && (n <=? 57343)) with false by lia.
    replace ((55296 <=? n) && (n <=? 56319)) with false by lia.
    reflexivity.
  - cbn [app]. rewrite dec_body_bsl, parse_escape_u, (hex4_ext _ _ _ _ _ Hh).
    replace ((56320 <=? n1) && (n1 <=? 57343)) with false by lia.
    replace ((55296 <=? n1) && (n1 <=? 56319)) with true by lia.
    change ((code BSL =? 92) && (code "u"%char =? 117)) with true. cbv iota.
    rewrite (hex4_ext _ _ _ _ _ Hl).
    replace ((n2 <? 56320) || (57343 <? n2)) with false by lia.
    reflexivity.
Qed.

Lemma spell1_length t1 s1 : spell1 t1 s1 -> (1 <= List.length t1)%nat.
Proof. intros H. destruct H; cbn [List.length app]; lia. Qed.

Lemma dec_spells t s : spells t s -> forall f, (List.length t <= f)%nat ->
  dec_body (S f) (t ++ [DQ]) = Some s.
Proof.
  induction 1 as [|t1 s1 t s H1 _ IH]; intros f Hf.
  - reflexivity.
  - pose proof (spell1_length _ _ H1) as L. rewrite app_length in Hf.
    destruct f as [|f]; [lia|].
    rewrite <- app_assoc, (dec_spell1 _ _ H1), IH by lia. reflexivity.
Qed.

Lemma decode_raw_any_spelling t s : spells t s -> decode_raw (DQ :: t ++ [DQ]) = Some s.
Proof.
  intros H. unfold decode_raw. change (code DQ =? 34) with true. cbv iota.
  apply dec_spells; [exact H|]. rewrite app_length. cbn [List.length]. lia.
Qed.

Theorem decode_any_spelling : forall t s, spells t s -> utf8_valid s = true ->
  decode_string (DQ :: t ++ [DQ]) = Some s.
Proof.
  intros t s H U. unfold decode_string. now rewrite (decode_raw_any_spelling _ _ H), U.
Qed.

(** ** the token scanner on one unit *)
Definition scan_unit (t1 : bytes) : Prop := forall r,
  scan_tok false (t1 ++ r) =
  match scan_tok false r with Some (t, rest) => Some (t1 ++ t, rest) | None => None end.

Lemma scan_unit_plain c : code c <> 34 -> code c <> 92 -> scan_unit [c].
Proof.
  intros H1 H2 r. cbn [app scan_tok].
  replace (code c =? 34) with false by lia. replace (code c =? 92) with false by lia.
  reflexivity.
Qed.

Lemma scan_unit_escaped e : scan_unit [BSL; e].
Proof.
  intros r. cbn [app scan_tok]. change (code BSL =? 34) with false. change (code BSL =? 92) with true.
  cbv iota. destruct (scan_tok false r) as [[t rest]|]; reflexivity.
Qed.

Lemma scan_unit_app t1 t2 : scan_unit t1 -> scan_unit t2 -> scan_unit (t1 ++ t2).
Proof.
  intros H1 H2 r. rewrite <- app_assoc, H1, H2.
  destruct (scan_tok false r) as [[t rest]|]; [|reflexivity]. now rewrite app_assoc.
Qed.

Lemma hex_val_plain h : hex_val h <> None -> code h <> 34 /\ code h <> 92.
Proof. unfold hex_val. intros H. split; intros E; rewrite E in H; apply H; reflexivity. Qed.

Lemma scan_unit_hex4 a b0 c d n r0 : hex4 [a; b0; c; d] = Some (n, r0) -> scan_unit [a; b0; c; d].
Proof.
  unfold hex4. intros H.
  destruct (hex_val a) eqn:Ea; [|discriminate]. destruct (hex_val b0) eqn:Eb; [|discriminate].
  destruct (hex_val c) eqn:Ec; [|discriminate]. destruct (hex_val d) eqn:Ed; [|discriminate].
  assert (Ha : hex_val a <> None) by congruence. assert (Hb : hex_val b0 <> None) by congruence.
  assert (Hc : hex_val c <> None) by congruence. assert (Hd : hex_val d <> None) by congruence.
  apply hex_val_plain in Ha as [? ?], Hb as [? ?], Hc as [? ?], Hd as [? ?].
  change [a; b0; c; d] with ([a] ++ [b0] ++ [c] ++ [d]).
  repeat apply scan_unit_app; apply scan_unit_plain; assumption.
Qed.

Lemma scan_spell1 t1 s1 : spell1 t1 s1 -> scan_unit t1.
Proof.
  intros H. destruct H as [c H1 H2 H3 | e d Hs | h1 h2 h3 h4 n Hh Hn
                           | h1 h2 h3 h4 l1 l2 l3 l4 n1 n2 Hh Hl Hn1 Hn2].
  - now apply scan_unit_plain.
  - apply scan_unit_escaped.
  - change (BSL :: "u"%char :: [h1; h2; h3; h4]) with ([BSL; "u"%char] ++ [h1; h2; h3; h4]).
    apply scan_unit_app; [apply scan_unit_escaped | eapply scan_unit_hex4; eassumption].
  - change (BSL :: "u"%char :: [h1; h2; h3; h4] ++ BSL :: "u"%char :: [l1; l2; l3; l4])
      with (([BSL; "u"%char] ++ [h1; h2; h3; h4]) ++ ([BSL; "u"%char] ++ [l1; l2; l3; l4])).
    repeat apply scan_unit_app; try apply scan_unit_escaped; eapply scan_unit_hex4; eassumption.
Qed.

Lemma scan_tok_dq rest : scan_tok false (DQ :: rest) = Some ([DQ], rest).
Proof. reflexivity. Qed.

Theorem scan_any_spelling : forall t s rest, spells t s ->
  scan_tok false (t ++ DQ :: rest) = Some (t ++ [DQ], rest).
Proof.
  intros t s rest H. induction H as [|t1 s1 t s H1 _ IH].
  - reflexivity.
  - rewrite <- app_assoc, (scan_spell1 _ _ H1), IH, app_assoc. reflexivity.
Qed.

Theorem parse_string_any_spelling : forall t s rest, spells t s -> utf8_valid s = true ->
  parse_string_with decode_string DQ (t ++ DQ :: rest) = Some (s, rest).
Proof.
  intros t s rest H U. unfold parse_string_with.
  rewrite (scan_any_spelling _ _ rest H), (decode_any_spelling _ _ H U). reflexivity.
Qed.

(** ** particular spellings *)
Lemma spells_flat_map (f : ascii -> bytes) s :
  (forall c, In c s -> spell1 (f c) [c]) -> spells (flat_map f s) s.
Proof.
  induction s as [|c s IH]; intros H; [constructor|].
  cbn [flat_map]. change (c :: s) with ([c] ++ s). constructor.
  - apply H. now left.
  - apply IH. intros x Hx. apply H. now right.
Qed.

(** \u00XY for a byte below 128 *)
Lemma spell1_u00 c : code c < 128 ->
  spell1 [BSL; "u"%char; "0"%char; "0"%char; hex_lower (code c / 16); hex_lower (code c mod 16)] [c].
Proof.
  intros H. all_bytes c; try (exfalso; vm_compute in H; discriminate H);
  match goal with
  | |- spell1 _ [?c] =>
      change [c] with (utf8_encode (code c)); apply sp_u4; [reflexivity | left; reflexivity]
  end.
Qed.

Lemma code_eq_ascii c n : code c = n -> c = ascii_of_N n.
Proof. intros <-. symmetry. apply ascii_N_embedding. Qed.

(** serde_json's writer produces one of the legal spellings *)
Lemma spell1_esc_byte c : spell1 (esc_byte c) [c].
Proof.
  destruct (code c <? 32) eqn:E.
  - all_bytes c; try discriminate E;
      first [ apply sp_simple; reflexivity
            | match goal with |- spell1 _ [?c] => apply (spell1_u00 c); reflexivity end ].
  - destruct (code c =? 34) eqn:E1; [|destruct (code c =? 92) eqn:E2].
    + assert (c = DQ) as -> by (apply code_eq_ascii; lia).
      apply sp_simple; reflexivity.
    + assert (c = BSL) as -> by (apply code_eq_ascii; lia).
      apply sp_simple; reflexivity.
    + unfold esc_byte. cbv zeta. rewrite E1, E2, E.
      replace (code c =? 8) with false by lia. replace (code c =? 9) with false by lia.
      replace (code c =? 10) with false by lia. replace (code c =? 12) with false by lia.
      replace (code c =? 13) with false by lia.
      apply sp_raw; lia.
Qed.

Theorem serde_is_spelling : forall s, spells (esc_contents s) s.
Proof. intros s. apply spells_flat_map. intros c _. apply spell1_esc_byte. Qed.

(** every character written as \u00XY *)
Definition esc_u_all (s : bytes) : bytes :=
  flat_map (fun c => [BSL; "u"%char; "0"%char; "0"%char;
                      hex_lower (code c / 16); hex_lower (code c mod 16)]) s.

Lemma ascii_utf8_valid s : forallb (fun c => code c <? 128) s = true -> utf8_valid s = true.
Proof.
  induction s as [|c s IH]; [reflexivity|]. cbn [forallb utf8_valid]. intros H.
  apply andb_true_iff in H as [H1 H2]. rewrite H1. now apply IH.
Qed.

Theorem u_escape_all_spelling : forall s,
  forallb (fun c => code c <? 128) s = true -> spells (esc_u_all s) s.
Proof.
  intros s H. apply spells_flat_map. intros c Hc.
  rewrite forallb_forall in H. specialize (H c Hc). apply spell1_u00. lia.
Qed.

Corollary u_escape_all_decodes : forall s,
  forallb (fun c => code c <? 128) s = true -> decode_string (DQ :: esc_u_all s ++ [DQ]) = Some s.
Proof.
  intros s H. apply decode_any_spelling; [now apply u_escape_all_spelling | now apply ascii_utf8_valid].
Qed.

(** serde's escaping, but with every solidus written as \/ *)
Definition esc_slash_byte (c : ascii) : bytes := if code c =? 47 then [BSL; SL] else esc_byte c.
Definition esc_slash (s : bytes) : bytes := flat_map esc_slash_byte s.

Theorem slash_escape_spelling : forall s, spells (esc_slash s) s.
Proof.
  intros s. apply spells_flat_map. intros c _. unfold esc_slash_byte.
  destruct (code c =? 47) eqn:E; [|apply spell1_esc_byte].
  assert (c = SL) as -> by (apply code_eq_ascii; lia).
  apply sp_simple; reflexivity.
Qed.

Corollary slash_escape_decodes : forall s, utf8_valid s = true ->
  decode_string (DQ :: esc_slash s ++ [DQ]) = Some s.
Proof. intros s U. apply decode_any_spelling; [apply slash_escape_spelling | exact U]. Qed.

Corollary slash_escape_parses : forall s rest, utf8_valid s = true ->
  parse_string_with decode_string DQ (esc_slash s ++ DQ :: rest) = Some (s, rest).
Proof. intros s rest U. apply parse_string_any_spelling; [apply slash_escape_spelling | exact U]. Qed.

(** non-vacuity: U+00E9 written as one u-escape (backslash u00e9), U+1F600 written as the
    surrogate pair (backslash ud83d backslash uDE00); the backslashes are spelled [BSL] here *)
Definition tok_e_acute : bytes := BSL :: b "u00e9".
Definition tok_grin : bytes := BSL :: b "ud83d" ++ BSL :: b "uDE00".

Example decode_e_acute :
  decode_string (DQ :: tok_e_acute ++ [DQ]) = Some (bs [195; 169]).
Proof. vm_compute. reflexivity. Qed.

Example decode_surrogate_pair :
  decode_string (DQ :: tok_grin ++ [DQ]) = Some (bs [240; 159; 152; 128]).
Proof. vm_compute. reflexivity. Qed.

Lemma spell1_conv t s t' s' : spell1 t s -> t = t' -> s = s' -> spell1 t' s'.
Proof. intros H <- <-. exact H. Qed.

(** a mixture: raw byte, two-character escape, u-escape, surrogate pair, escaped solidus *)
Example spells_mixed :
  spells (b "a" ++ [BSL; "n"%char] ++ tok_e_acute ++ tok_grin ++ [BSL; "/"%char] ++ [])
         (bs [97] ++ bs [10] ++ bs [195; 169] ++ bs [240; 159; 152; 128] ++ bs [47] ++ []).
Proof.
  constructor; [apply (sp_raw "a"%char); vm_compute; congruence|].
  constructor; [eapply spell1_conv; [apply (sp_simple "n"%char); reflexivity|reflexivity|reflexivity]|].
  constructor; [eapply spell1_conv; [apply (sp_u4 "0" "0" "e" "9" 233); [reflexivity|lia]|reflexivity|reflexivity]|].
  constructor; [eapply spell1_conv; [apply (sp_pair "d" "8" "3" "d" "D" "E" "0" "0" 55357 56832); [reflexivity|reflexivity|lia|lia]|reflexivity|reflexivity]|].
  constructor; [eapply spell1_conv; [apply (sp_simple "/"%char); reflexivity|reflexivity|reflexivity]|].
  constructor.
Qed.

Example parse_mixed :
  parse_string_with decode_string DQ
    ((b "a" ++ [BSL; "n"%char] ++ tok_e_acute ++ tok_grin ++ [BSL; "/"%char] ++ []) ++ DQ :: b ",1]")
  = Some (bs [97; 10; 195; 169; 240; 159; 152; 128; 47], b ",1]").
Proof. vm_compute. reflexivity. Qed.

(** * (B) the parser inverts the compact printer *)

(** ** induction over the nested inductive [jv] *)
Fixpoint jv_ind2 (P : jv -> Prop)
  (Hnull : P JNull) (Hbool : forall v, P (JBool v)) (Hnum : forall r, P (JNum r))
  (Hstr : forall s, P (JStr s))
  (Harr : forall l, Forall P l -> P (JArr l))
  (Hobj : forall m, Forall (fun kv => P (snd kv)) m -> P (JObj m))
  (v : jv) {struct v} : P v :=
  match v with
  | JNull => Hnull
  | JBool x => Hbool x
  | JNum r => Hnum r
  | JStr s => Hstr s
  | JArr l =>
      Harr l ((fix go (l : list jv) : Forall P l :=
                 match l with
                 | [] => Forall_nil P
                 | x :: r => Forall_cons x (jv_ind2 P Hnull Hbool Hnum Hstr Harr Hobj x) (go r)
                 end) l)
  | JObj m =>
      Hobj m ((fix go (m : list (bytes * jv)) : Forall (fun kv => P (snd kv)) m :=
                 match m with
                 | [] => Forall_nil _
                 | kv :: r =>
                     Forall_cons kv
                       (match kv as p return P (snd p) with
                        | (k, x) => jv_ind2 P Hnull Hbool Hnum Hstr Harr Hobj x
                        end) (go r)
                 end) m)
  end.

(** ** the printer's local fixpoints as top-level functions *)
Fixpoint print_elems (l : list jv) : bytes :=
  match l with
  | [] => []
  | [x] => print_json x
  | x :: r => print_json x ++ ","%char :: print_elems r
  end.

Fixpoint print_mems (m : list (bytes * jv)) : bytes :=
  match m with
  | [] => []
  | [(k, x)] => serde_escape k ++ ":"%char :: print_json x
  | (k, x) :: r => serde_escape k ++ ":"%char :: print_json x ++ ","%char :: print_mems r
  end.

Lemma print_arr l : print_json (JArr l) = "["%char :: print_elems l ++ ["]"%char].
Proof. reflexivity. Qed.

Lemma print_obj m : print_json (JObj m) = "{"%char :: print_mems m ++ ["}"%char].
Proof. reflexivity. Qed.

Lemma print_elems_one x : print_elems [x] = print_json x.
Proof. reflexivity. Qed.

Lemma print_elems_more x y r :
  print_elems (x :: y :: r) = print_json x ++ ","%char :: print_elems (y :: r).
Proof. reflexivity. Qed.

Lemma print_mems_one k x : print_mems [(k, x)] = serde_escape k ++ ":"%char :: print_json x.
Proof. reflexivity. Qed.

Lemma print_mems_more k x p r :
  print_mems ((k, x) :: p :: r) =
  serde_escape k ++ ":"%char :: print_json x ++ ","%char :: print_mems (p :: r).
Proof. reflexivity. Qed.

(** ** numbers *)
Lemma num_step_char st c st' : num_step st c = Some st' -> is_num_char c = true.
Proof.
  unfold num_step, is_num_char, is_digit. cbv zeta. intros H.
  repeat match type of H with context [if ?b then _ else _] => destruct b eqn:? end;
    try discriminate H; lia.
Qed.

Lemma num_run_chars raw : forall st, num_run st raw = true -> forallb is_num_char raw = true.
Proof.
  induction raw as [|c r IH]; intros st H; [reflexivity|].
  cbn [num_run] in H. destruct (num_step st c) as [st'|] eqn:E; [|discriminate].
  cbn [forallb]. now rewrite (num_step_char _ _ _ E), (IH _ H).
Qed.

Lemma num_ok_first raw : num_ok raw = true ->
  exists c r, raw = c :: r /\ ((code c =? 45) || is_digit c) = true.
Proof.
  unfold num_ok. destruct raw as [|c r]; intros H; [vm_compute in H; discriminate H|].
  exists c, r. split; [reflexivity|].
  cbn [num_run] in H. destruct (num_step 0 c) as [st'|] eqn:E; [|discriminate].
  clear H. unfold num_step, is_digit in *. cbv zeta in E. change (0 =? 0) with true in E. cbv iota in E.
  repeat match type of E with context [if ?b then _ else _] => destruct b eqn:? end;
    try discriminate E; lia.
Qed.

(** what follows a printed value never continues a number *)
Definition rest_ok (rest : bytes) : bool :=
  match rest with [] => true | c :: _ => negb (is_num_char c) end.

Lemma span_num_app raw rest : forallb is_num_char raw = true -> rest_ok rest = true ->
  span_num (raw ++ rest) = (raw, rest).
Proof.
  intros H R. induction raw as [|c r IH].
  - destruct rest as [|d rest]; [reflexivity|]. cbn [app span_num]. cbn [rest_ok] in R.
    destruct (is_num_char d); [discriminate|reflexivity].
  - cbn [forallb] in H. apply andb_true_iff in H as [H1 H2].
    cbn [app span_num]. now rewrite H1, (IH H2).
Qed.

Lemma parse_number_print raw rest : num_ok raw = true -> rest_ok rest = true ->
  parse_number (raw ++ rest) = Some (raw, rest).
Proof.
  intros H R. unfold parse_number.
  rewrite (span_num_app raw rest (num_run_chars _ _ H) R), H. reflexivity.
Qed.

(** ** one step of [parse_val] on each kind of first byte *)
Lemma pv_null dec f rest : parse_val dec (S f) (b "null" ++ rest) = Some (JNull, rest).
Proof. reflexivity. Qed.

Lemma pv_true dec f rest : parse_val dec (S f) (b "true" ++ rest) = Some (JBool true, rest).
Proof. reflexivity. Qed.

Lemma pv_false dec f rest : parse_val dec (S f) (b "false" ++ rest) = Some (JBool false, rest).
Proof. reflexivity. Qed.

Lemma pv_str dec f r :
  parse_val dec (S f) (DQ :: r) =
  match parse_string_with dec DQ r with Some (v, rest) => Some (JStr v, rest) | None => None end.
Proof. reflexivity. Qed.

Lemma pv_num dec f c r : ((code c =? 45) || is_digit c) = true ->
  parse_val dec (S f) (c :: r) =
  match parse_number (c :: r) with Some (raw, rest) => Some (JNum raw, rest) | None => None end.
Proof. intros H. all_bytes c; try (vm_compute in H; discriminate H); reflexivity. Qed.

Lemma pv_arr_nil dec f rest :
  parse_val dec (S f) ("["%char :: "]"%char :: rest) = Some (JArr [], rest).
Proof. reflexivity. Qed.

Lemma pv_obj_nil dec f rest :
  parse_val dec (S f) ("{"%char :: "}"%char :: rest) = Some (JObj [], rest).
Proof. reflexivity. Qed.

(** the first byte of a printed value *)
Definition val_start (c : ascii) : bool :=
  let n := code c in
  (n =? 34) || (n =? 91) || (n =? 123) || (n =? 116) || (n =? 102) || (n =? 110) || (n =? 45) || is_digit c.

Lemma pv_arr dec f c r : val_start c = true ->
  parse_val dec (S f) ("["%char :: c :: r) =
  match parse_elems dec f (c :: r) with Some (l, rest) => Some (JArr l, rest) | None => None end.
Proof. intros H. all_bytes c; try (vm_compute in H; discriminate H); reflexivity. Qed.

Lemma pv_obj dec f r :
  parse_val dec (S f) ("{"%char :: DQ :: r) =
  match parse_members dec f (DQ :: r) with Some (m, rest) => Some (JObj m, rest) | None => None end.
Proof. reflexivity. Qed.

Lemma print_first v : jv_wf v = true -> exists c r, print_json v = c :: r /\ val_start c = true.
Proof.
  destruct v as [|[]|raw|s|l|m]; intros W; cbn [print_json].
  1-3: (eexists; eexists; split; reflexivity).
  - cbn [jv_wf] in W. destruct (num_ok_first raw W) as (c & r & -> & H).
    exists c, r. split; [reflexivity|]. unfold val_start, is_digit in *. cbv zeta. lia.
  - eexists; eexists; split; reflexivity.
  - eexists; eexists; split; reflexivity.
  - eexists; eexists; split; reflexivity.
Qed.

Lemma print_elems_first l : l <> [] -> forallb jv_wf l = true ->
  exists c r, print_elems l = c :: r /\ val_start c = true.
Proof.
  destruct l as [|x l]; [congruence|]. intros _ W. cbn [forallb] in W.
  apply andb_true_iff in W as [W _]. destruct (print_first x W) as (c & r & E & H).
  destruct l as [|y l].
  - rewrite print_elems_one. now exists c, r.
  - rewrite print_elems_more, E. exists c. eexists. split; [reflexivity|exact H].
Qed.

(** ** one step of [parse_elems] / [parse_members] *)
Lemma parse_elems_S dec f s :
  parse_elems dec (S f) s =
  match parse_val dec f s with
  | Some (v, rest) =>
      match skip_ws rest with
      | c :: r =>
          if code c =? 44 then
            match parse_elems dec f r with Some (l, rest') => Some (v :: l, rest') | None => None end
          else if code c =? 93 then Some ([v], r)
          else None
      | [] => None
      end
  | None => None
  end.
Proof. reflexivity. Qed.

Lemma parse_elems_last dec f s v rest :
  parse_val dec f s = Some (v, "]"%char :: rest) -> parse_elems dec (S f) s = Some ([v], rest).
Proof. intros H. rewrite parse_elems_S, H. reflexivity. Qed.

Lemma parse_elems_more dec f s v r l rest :
  parse_val dec f s = Some (v, ","%char :: r) -> parse_elems dec f r = Some (l, rest) ->
  parse_elems dec (S f) s = Some (v :: l, rest).
Proof.
  intros H1 H2. rewrite parse_elems_S, H1.
  change (skip_ws (","%char :: r)) with (","%char :: r). cbv iota beta.
  change (code ","%char =? 44) with true. cbv iota. rewrite H2. reflexivity.
Qed.

Lemma parse_members_S dec f s :
  parse_members dec (S f) s =
  match skip_ws s with
  | q :: r0 =>
      if code q =? 34 then
        match parse_string_with dec q r0 with
        | Some (k, r1) =>
            match skip_ws r1 with
            | c :: r2 =>
                if code c =? 58 then
                  match parse_val dec f r2 with
                  | Some (v, r3) =>
                      match skip_ws r3 with
                      | d :: r4 =>
                          if code d =? 44 then
                            match parse_members dec f r4 with
                            | Some (m, rest) => Some ((k, v) :: m, rest)
                            | None => None
                            end
                          else if code d =? 125 then Some ([(k, v)], r4)
                          else None
                      | [] => None
                      end
                  | None => None
                  end
                else None
            | [] => None
            end
        | None => None
        end
      else None
  | [] => None
  end.
Proof. reflexivity. Qed.

Lemma parse_members_key dec f r0 k r2 :
  parse_string_with dec DQ r0 = Some (k, ":"%char :: r2) ->
  parse_members dec (S f) (DQ :: r0) =
  match parse_val dec f r2 with
  | Some (v, r3) =>
      match skip_ws r3 with
      | d :: r4 =>
          if code d =? 44 then
            match parse_members dec f r4 with
            | Some (m, rest) => Some ((k, v) :: m, rest)
            | None => None
            end
          else if code d =? 125 then Some ([(k, v)], r4)
          else None
      | [] => None
      end
  | None => None
  end.
Proof.
  intros H. rewrite parse_members_S.
  change (skip_ws (DQ :: r0)) with (DQ :: r0). cbv iota beta.
  change (code DQ =? 34) with true. cbv iota. rewrite H.
  change (skip_ws (":"%char :: r2)) with (":"%char :: r2). cbv iota beta.
  change (code ":"%char =? 58) with true. cbv iota. reflexivity.
Qed.

Lemma parse_members_last dec f r0 k r2 v rest :
  parse_string_with dec DQ r0 = Some (k, ":"%char :: r2) ->
  parse_val dec f r2 = Some (v, "}"%char :: rest) ->
  parse_members dec (S f) (DQ :: r0) = Some ([(k, v)], rest).
Proof. intros H1 H2. rewrite (parse_members_key _ _ _ _ _ H1), H2. reflexivity. Qed.

Lemma parse_members_more dec f r0 k r2 v r4 m rest :
  parse_string_with dec DQ r0 = Some (k, ":"%char :: r2) ->
  parse_val dec f r2 = Some (v, ","%char :: r4) ->
  parse_members dec f r4 = Some (m, rest) ->
  parse_members dec (S f) (DQ :: r0) = Some ((k, v) :: m, rest).
Proof.
  intros H1 H2 H3. rewrite (parse_members_key _ _ _ _ _ H1), H2.
  change (skip_ws (","%char :: r4)) with (","%char :: r4). cbv iota beta.
  change (code ","%char =? 44) with true. cbv iota. rewrite H3. reflexivity.
Qed.

(** ** strings *)
Lemma serde_escape_app k R : serde_escape k ++ R = DQ :: esc_contents k ++ DQ :: R.
Proof. unfold serde_escape. cbn [app]. rewrite <- app_assoc. reflexivity. Qed.

Lemma parse_string_print s rest : utf8_valid s = true ->
  parse_string_with decode_string DQ (esc_contents s ++ DQ :: rest) = Some (s, rest).
Proof. intros U. apply parse_string_any_spelling; [apply serde_is_spelling | exact U]. Qed.

Lemma serde_escape_length s : (2 <= List.length (serde_escape s))%nat.
Proof. unfold serde_escape. cbn [List.length]. rewrite app_length. cbn [List.length]. lia. Qed.

(** ** the generalised round trip: any fuel at least the printed length, any
    continuation that does not extend a number *)
Definition PV (v : jv) : Prop :=
  jv_wf v = true -> forall f rest, (List.length (print_json v) <= f)%nat -> rest_ok rest = true ->
  parse_val decode_string f (print_json v ++ rest) = Some (v, rest).

Lemma parse_print_elems l : Forall PV l -> l <> [] -> forallb jv_wf l = true ->
  forall f rest, (S (List.length (print_elems l)) <= f)%nat ->
  parse_elems decode_string f (print_elems l ++ "]"%char :: rest) = Some (l, rest).
Proof.
  induction 1 as [|x r Hx Hr IH]; intros Hne W f rest Hf; [congruence|].
  cbn [forallb] in W. apply andb_true_iff in W as [Wx Wr].
  destruct f as [|f]; [lia|].
  destruct r as [|y r'].
  - rewrite print_elems_one in *. apply parse_elems_last.
    apply Hx; [exact Wx | lia | reflexivity].
  - rewrite print_elems_more in *. rewrite app_length in Hf. cbn [List.length] in Hf.
    rewrite <- app_assoc. cbn [app].
    eapply parse_elems_more.
    + apply Hx; [exact Wx | lia | reflexivity].
    + apply IH; [discriminate | exact Wr | lia].
Qed.

Lemma parse_print_mems m : Forall (fun kv => PV (snd kv)) m -> m <> [] ->
  forallb (fun kv => utf8_valid (fst kv) && jv_wf (snd kv)) m = true ->
  forall f rest, (S (List.length (print_mems m)) <= f)%nat ->
  parse_members decode_string f (print_mems m ++ "}"%char :: rest) = Some (m, rest).
Proof.
  induction 1 as [|[k x] r Hx Hr IH]; intros Hne W f rest Hf; [congruence|].
  cbn [forallb fst snd] in W, Hx. apply andb_true_iff in W as [Wx Wr].
  apply andb_true_iff in Wx as [Wk Wx].
  destruct f as [|f]; [lia|].
  pose proof (serde_escape_length k) as Lk.
  destruct r as [|p r'].
  - rewrite print_mems_one in *. rewrite app_length in Hf. cbn [List.length] in Hf.
    rewrite <- app_assoc, serde_escape_app. cbn [app].
    eapply parse_members_last.
    + apply parse_string_print. exact Wk.
    + apply Hx; [exact Wx | lia | reflexivity].
  - rewrite print_mems_more in *. rewrite app_length in Hf. cbn [List.length] in Hf.
    rewrite app_length in Hf. cbn [List.length] in Hf.
    rewrite <- app_assoc, serde_escape_app. cbn [app]. rewrite <- app_assoc. cbn [app].
    eapply parse_members_more.
    + apply parse_string_print. exact Wk.
    + apply Hx; [exact Wx | lia | reflexivity].
    + apply IH; [discriminate | exact Wr | lia].
Qed.

Lemma parse_print_val : forall v, PV v.
Proof.
  apply jv_ind2; unfold PV.
  - intros _ f rest Hf _. destruct f as [|f]; [cbn in Hf; lia|]. apply pv_null.
  - intros [] _ f rest Hf _; (destruct f as [|f]; [cbn in Hf; lia|]); [apply pv_true | apply pv_false].
  - intros raw W f rest Hf R. cbn [jv_wf print_json] in *.
    destruct (num_ok_first raw W) as (c & r & E & Hc).
    destruct f as [|f]; [rewrite E in Hf; cbn in Hf; lia|].
    pose proof (parse_number_print raw rest W R) as Hn. rewrite E in Hn |- *. cbn [app] in Hn |- *.
    rewrite (pv_num _ _ _ _ Hc), Hn. reflexivity.
  - intros s W f rest Hf R. cbn [jv_wf print_json] in *.
    destruct f as [|f]; [pose proof (serde_escape_length s); lia|].
    rewrite serde_escape_app, pv_str, (parse_string_print s rest W). reflexivity.
  - intros l HF W f rest Hf R. cbn [jv_wf] in W. rewrite print_arr in *.
    cbn [List.length] in Hf. rewrite app_length in Hf. cbn [List.length] in Hf.
    destruct f as [|f]; [lia|].
    cbn [app]. rewrite <- app_assoc. cbn [app].
    destruct l as [|x l'].
    + apply pv_arr_nil.
    + assert (Hne : x :: l' <> []) by discriminate.
      destruct (print_elems_first _ Hne W) as (c & t & E & Hc).
      pose proof (parse_print_elems _ HF Hne W f rest) as Hp.
      rewrite E in Hp |- *. cbn [app] in Hp |- *.
      rewrite (pv_arr _ _ _ _ Hc), Hp; [reflexivity|].
      rewrite <- E. lia.
  - intros m HF W f rest Hf R. cbn [jv_wf] in W. rewrite print_obj in *.
    cbn [List.length] in Hf. rewrite app_length in Hf. cbn [List.length] in Hf.
    destruct f as [|f]; [lia|].
    cbn [app]. rewrite <- app_assoc. cbn [app].
    destruct m as [|[k x] m'].
    + apply pv_obj_nil.
    + assert (Hne : (k, x) :: m' <> []) by discriminate.
      pose proof (parse_print_mems _ HF Hne W f rest) as Hp.
      assert (E : exists t, print_mems ((k, x) :: m') = DQ :: t).
      { destruct m' as [|p m'']; [rewrite print_mems_one | rewrite print_mems_more];
          rewrite serde_escape_app; eexists; reflexivity. }
      destruct E as (t & E). rewrite E in Hp |- *. cbn [app] in Hp |- *.
      rewrite pv_obj, Hp; [reflexivity|].
      rewrite <- E. lia.
Qed.

Theorem parse_print : forall v, jv_wf v = true -> parse_json (print_json v) = Some v.
Proof.
  intros v W. unfold parse_json, parse_json_with.
  pose proof (parse_print_val v W (json_fuel (print_json v)) []) as H.
  rewrite app_nil_r in H. rewrite H; [reflexivity | unfold json_fuel; lia | reflexivity].
Qed.

(** the printed text followed by anything that cannot extend a number *)
Corollary parse_val_print : forall v f rest, jv_wf v = true ->
  (List.length (print_json v) <= f)%nat -> rest_ok rest = true ->
  parse_val decode_string f (print_json v ++ rest) = Some (v, rest).
Proof. intros v f rest W. now apply parse_print_val. Qed.

(** the printer is injective on well-formed values *)
Corollary print_json_injective : forall v w, jv_wf v = true -> jv_wf w = true ->
  print_json v = print_json w -> v = w.
Proof.
  intros v w Wv Ww E. pose proof (parse_print v Wv) as H. rewrite E, (parse_print w Ww) in H. congruence.
Qed.

Example parse_print_example :
  let v := JObj [(b "a/b", JArr [JNum (b "-1.5e+3"); JStr (bs [195; 169; 10]); JNull; JObj []; JArr []]);
                 (b "a/b", JBool false)] in
  jv_wf v = true /\ parse_json (print_json v) = Some v.
Proof. vm_compute. split; reflexivity. Qed.

(** * (C) fuel adequacy: more fuel never changes a successful parse *)
Lemma parse_val_S dec f s :
  parse_val dec (S f) s =
  match skip_ws s with
  | [] => None
  | c :: r =>
      let n := code c in
      if n =? 34 then
        match parse_string_with dec c r with Some (v, rest) => Some (JStr v, rest) | None => None end
      else if n =? 91 then
        match skip_ws r with
        | d :: r' =>
            if code d =? 93 then Some (JArr [], r')
            else match parse_elems dec f r with Some (l, rest) => Some (JArr l, rest) | None => None end
        | [] => None
        end
      else if n =? 123 then
        match skip_ws r with
        | d :: r' =>
            if code d =? 125 then Some (JObj [], r')
            else match parse_members dec f r with Some (m, rest) => Some (JObj m, rest) | None => None end
        | [] => None
        end
      else if starts_with (b "true") (c :: r) then Some (JBool true, skipn 4 (c :: r))
      else if starts_with (b "false") (c :: r) then Some (JBool false, skipn 5 (c :: r))
      else if starts_with (b "null") (c :: r) then Some (JNull, skipn 4 (c :: r))
      else match parse_number (c :: r) with Some (raw, rest) => Some (JNum raw, rest) | None => None end
  end.
Proof. reflexivity. Qed.

Ltac fuel_mono IHv IHe IHm L :=
  cbv beta iota zeta;
  repeat (match goal with
  | |- None = Some _ -> _ => discriminate
  | |- ?a = Some _ -> ?a = Some _ => exact (fun H => H)
  | |- (match parse_val ?d ?f ?x with _ => _ end = _) -> _ =>
      let E := fresh "E" in
      destruct (parse_val d f x) as [[? ?]|] eqn:E; [rewrite (IHv _ _ _ E L)|]
  | |- (match parse_elems ?d ?f ?x with _ => _ end = _) -> _ =>
      let E := fresh "E" in
      destruct (parse_elems d f x) as [[? ?]|] eqn:E; [rewrite (IHe _ _ _ E L)|]
  | |- (match parse_members ?d ?f ?x with _ => _ end = _) -> _ =>
      let E := fresh "E" in
      destruct (parse_members d f x) as [[? ?]|] eqn:E; [rewrite (IHm _ _ _ E L)|]
  | |- (match ?x with _ => _ end = _) -> _ => destruct x
  | |- ((if ?x then _ else _) = _) -> _ => destruct x
  end; cbv beta iota zeta).

Lemma parse_fuel_mono_all dec : forall f,
  (forall f' s r, parse_val dec f s = Some r -> (f <= f')%nat -> parse_val dec f' s = Some r) /\
  (forall f' s r, parse_elems dec f s = Some r -> (f <= f')%nat -> parse_elems dec f' s = Some r) /\
  (forall f' s r, parse_members dec f s = Some r -> (f <= f')%nat -> parse_members dec f' s = Some r).
Proof.
  induction f as [|f (IHv & IHe & IHm)].
  - repeat split; intros f' s r H; discriminate H.
  - repeat split; intros f' s r H L; (destruct f' as [|f']; [lia|]);
      assert (L' : (f <= f')%nat) by lia.
    + rewrite parse_val_S in H |- *. revert H. fuel_mono IHv IHe IHm L'.
    + rewrite parse_elems_S in H |- *. revert H. fuel_mono IHv IHe IHm L'.
    + rewrite parse_members_S in H |- *. revert H. fuel_mono IHv IHe IHm L'.
Qed.

Theorem parse_fuel_mono : forall f f' s r,
  parse_val decode_string f s = Some r -> (f <= f')%nat -> parse_val decode_string f' s = Some r.
Proof. intros f f' s r. apply (parse_fuel_mono_all decode_string f). Qed.

Theorem parse_elems_fuel_mono : forall f f' s r,
  parse_elems decode_string f s = Some r -> (f <= f')%nat -> parse_elems decode_string f' s = Some r.
Proof. intros f f' s r. apply (parse_fuel_mono_all decode_string f). Qed.

Theorem parse_members_fuel_mono : forall f f' s r,
  parse_members decode_string f s = Some r -> (f <= f')%nat -> parse_members decode_string f' s = Some r.
Proof. intros f f' s r. apply (parse_fuel_mono_all decode_string f). Qed.

(** two successful runs agree whatever their fuel *)
Corollary parse_val_fuel_det : forall dec f1 f2 s r1 r2,
  parse_val dec f1 s = Some r1 -> parse_val dec f2 s = Some r2 -> r1 = r2.
Proof.
  intros dec f1 f2 s r1 r2 H1 H2.
  apply (proj1 (parse_fuel_mono_all dec f1) (Nat.max f1 f2)) in H1; [|lia].
  apply (proj1 (parse_fuel_mono_all dec f2) (Nat.max f1 f2)) in H2; [|lia].
  congruence.
Qed.
