(** Witness of the known finding failed-commit-dedup-persisted: a staged inventory that
    satisfies the invariant, its de-duplication (any outcome the code may choose), and a
    removal on the de-duplicated inventory that leaves a digest without content. *)
From Coq Require Import NArith Ascii.
From stdpp Require Import gmap.
From Rocfl Require Import Model.Inventory Model.InvSpec Model.KnownC01 Proofs.InventoryFacts.

Definition kf_a : lpath := [["a"%char]].
Definition kf_b : lpath := [["b"%char]].

(** new object; the same content staged under two names *)
Definition kf_pre : inventory := sapply (SAdd 7 kf_b) (sapply (SAdd 7 kf_a) new_inventory).
Definition kf_post : inventory := dedup_canon kf_pre.

(** the logical path whose direct content path survived the de-duplication *)
Definition kf_keeper : lpath :=
  if bool_decide (i_manifest kf_post !! ncp kf_post kf_a = Some 7%N) then kf_a else kf_b.

Lemma kf_pre_wf : StagedWF kf_pre.
Proof. unfold kf_pre. apply sapply_wf, sapply_wf, new_inventory_wf. Qed.

Lemma kf_post_is_a_dedup : dedup_okb kf_pre kf_post = true.
Proof. vm_compute. reflexivity. Qed.

Lemma kf_pre_outside_class : c01_failed_commit_dedup kf_pre = false.
Proof. vm_compute. reflexivity. Qed.

Lemma kf_post_in_class : c01_failed_commit_dedup kf_post = true.
Proof. vm_compute. reflexivity. Qed.

(** the completed commit is fine ... *)
Lemma kf_post_valid : InvOK kf_post.
Proof. exact (dedup_valid _ _ kf_pre_wf kf_post_is_a_dedup). Qed.

(** ... but staging on the de-duplicated inventory is not: rm of the keeper leaves the
    other path with a digest that has no content (E050 after the next commit) *)
Lemma kf_rm_keeper_dangles :
  dangling_digest (sapply (SRemove kf_keeper) kf_post) = true ∧
  dangling_digest (sapply (SRemove kf_keeper) kf_pre) = false.
Proof. split; vm_compute; reflexivity. Qed.

Theorem failed_commit_dedup_witness :
  ∃ pre post p,
    StagedWF pre ∧ dedup_okb pre post = true ∧
    c01_failed_commit_dedup pre = false ∧ c01_failed_commit_dedup post = true ∧
    dangling_digest (sapply (SRemove p) post) = true ∧
    dangling_digest (sapply (SRemove p) pre) = false.
Proof.
  exists kf_pre, kf_post, kf_keeper.
  split; [exact kf_pre_wf|]. split; [exact kf_post_is_a_dedup|].
  split; [exact kf_pre_outside_class|]. split; [exact kf_post_in_class|].
  exact kf_rm_keeper_dangles.
Qed.

(** inside the invariant the class is empty: the classifier is exactly "I5 fails" *)
Lemma staged_wf_outside_class i : StagedWF i → c01_failed_commit_dedup i = false.
Proof.
  intros Hwf. unfold c01_failed_commit_dedup.
  apply not_true_is_false. intros Hex.
  apply existsb_exists in Hex as [[p d] [Hin Hb]].
  apply elem_of_list_In, elem_of_map_to_list in Hin.
  apply andb_true_iff in Hb as [Hb1 Hb2]. cbn [fst snd] in *.
  destruct (sw_I5 _ Hwf p d Hin) as [Hm|[cp [Hlt Hcp]]].
  - rewrite bool_decide_eq_true_2 in Hb1 by exact Hm. discriminate.
  - apply negb_true_iff in Hb2. apply not_true_iff_false in Hb2. apply Hb2.
    unfold committed_copyb. apply existsb_exists. exists (cp, d). split.
    + apply elem_of_list_In, elem_of_map_to_list. exact Hcp.
    + cbn [fst snd]. apply andb_true_iff. split; [apply N.ltb_lt; exact Hlt|apply bool_decide_eq_true_2; reflexivity].
Qed.
