(** "Ignoring case" in the prefix removal of 0006/0007.

    - the documents' reading ([LayoutSpec.ci_starts] / [after_last]: a stretch of the id
      is the delimiter when both have the same lower-case form) in terms of the position
      [last_ci] of the right-most occurrence, and its declarative meaning;
    - the code of 0006 since fix 91d5aeb ([Layout.rfind_ignore_case], layout.rs:798-812)
      computes exactly that position, for EVERY id and delimiter;
    - the byte-wise searches (0006 with a delimiter that has no case, 0007) find the same
      position under the conditions [Layout.unicode_ok] on the case information;
    - the narrower character-by-character reading agrees whenever every lower-case form
      is one character. *)
From Rocfl Require Import Base.Bytes Model.Layout Model.LayoutSpec
  Proofs.BytesFacts Proofs.LayoutFacts Proofs.LayoutPrefixFacts.
From Coq Require Import ZArith Lia ZifyBool ZifyN ZifyNat.
Ltac Zify.zify_post_hook ::= Z.div_mod_to_equations.
Open Scope N_scope.
Arguments N.add : simpl never.
Arguments N.mul : simpl never.
Arguments N.sub : simpl never.
Arguments N.ltb : simpl never.
Arguments N.leb : simpl never.
Arguments N.eqb : simpl never.

(** * strip_bytes *)
Lemma strip_bytes_spec p : forall s r, strip_bytes p s = Some r <-> s = p ++ r.
Proof.
  induction p as [|c p IH]; intros s r; cbn [strip_bytes app].
  - split; [intros H; injection H as ->; reflexivity|intros ->; reflexivity].
  - destruct s as [|x s]; [split; discriminate|].
    destruct (Ascii.eqb c x) eqn:E.
    + apply Ascii.eqb_eq in E. subst x. rewrite IH. split; [intros ->; reflexivity|intros H; now injection H].
    + split; [discriminate|]. intros H. injection H as -> _. rewrite Ascii.eqb_refl in E. discriminate.
Qed.

Lemma strip_bytes_starts p : forall s,
  starts_with p s = match strip_bytes p s with Some _ => true | None => false end.
Proof.
  induction p as [|c p IH]; intros s; [reflexivity|].
  destruct s as [|x s]; [reflexivity|]. cbn [starts_with strip_bytes].
  destruct (Ascii.eqb c x); [apply IH|reflexivity].
Qed.

Lemma strip_bytes_wf x y z : wf_char x = true -> wf_char y = true ->
  strip_bytes x (y ++ z) = if bytes_eqb x y then Some z else None.
Proof.
  intros Hx Hy. destruct (bytes_eqb x y) eqn:E.
  - apply bytes_eqb_eq in E. subst y. now apply strip_bytes_spec.
  - pose proof (starts_with_wf x y [] z Hx Hy) as S. rewrite app_nil_r, E in S. cbn [andb] in S.
    rewrite strip_bytes_starts in S. destruct (strip_bytes x (y ++ z)); [discriminate|reflexivity].
Qed.

Lemma app_prefix_related (x : bytes) : forall y r r', x ++ r = y ++ r' -> prefix_related x y = true.
Proof.
  unfold prefix_related. induction x as [|c x IH]; intros y r r' H; [reflexivity|].
  destruct y as [|d y]; [reflexivity|].
  cbn [app] in H. injection H as -> H. cbn [starts_with]. rewrite Ascii.eqb_refl. cbn [andb].
  exact (IH _ _ _ H).
Qed.

Lemma starts_with_ascii p : forall s, starts_with p s = true -> is_ascii s = true -> is_ascii p = true.
Proof.
  induction p as [|c p IH]; intros s H A; [reflexivity|].
  destruct s as [|x s]; [discriminate|]. cbn [starts_with] in H. apply andb_true_iff in H as [E H].
  apply Ascii.eqb_eq in E. subst x. cbn [is_ascii forallb] in *. apply andb_true_iff in A as [A1 A2].
  rewrite A1. cbn [andb]. exact (IH _ H A2).
Qed.

Lemma rfind_some_ascii needle : forall hay i, rfind hay needle = Some i -> is_ascii hay = true -> is_ascii needle = true.
Proof.
  induction hay as [|c t IH]; intros i H A.
  - cbn [rfind] in H. destruct (starts_with needle []) eqn:S; [|discriminate]. exact (starts_with_ascii _ _ S A).
  - cbn [rfind] in H. assert (At : is_ascii t = true).
    { cbn [is_ascii forallb] in A. now apply andb_true_iff in A as [_ A]. }
    destruct (rfind t needle) as [j|] eqn:R; [exact (IH _ eq_refl At)|].
    destruct (starts_with needle (c :: t)) eqn:S; [|discriminate]. exact (starts_with_ascii _ _ S A).
Qed.

(** * occurrences by lower-case form, generically in the key *)
Section KStarts.
  Variable key : uchar -> bytes.
  Notation KK := (K key).

  Fixpoint kstarts (s : list uchar) (t : bytes) : option nat :=
    match t with
    | [] => Some 0%nat
    | _ :: _ =>
        match s with
        | [] => None
        | c :: s' => match strip_bytes (key c) t with
                     | Some rest => match kstarts s' rest with Some k => Some (S k) | None => None end
                     | None => None
                     end
        end
    end.

  (** (start, number of characters) of the right-most occurrence *)
  Fixpoint last_ci (t : bytes) (s : list uchar) : option (nat * nat) :=
    match s with
    | [] => match t with [] => Some (0%nat, 0%nat) | _ => None end
    | _ :: s' => match last_ci t s' with
                 | Some (p, k) => Some (S p, k)
                 | None => match kstarts s t with Some k => Some (0%nat, k) | None => None end
                 end
    end.

  Lemma kstarts_nil s : kstarts s [] = Some 0%nat.
  Proof. destruct s; reflexivity. Qed.

  Lemma kstarts_cons c s t : t <> [] ->
    kstarts (c :: s) t = match strip_bytes (key c) t with
                         | Some rest => match kstarts s rest with Some k => Some (S k) | None => None end
                         | None => None
                         end.
  Proof. destruct t; [congruence|reflexivity]. Qed.

  Lemma kstarts_nil_l t : t <> [] -> kstarts [] t = None.
  Proof. destruct t; [congruence|reflexivity]. Qed.

  (** sound: the lower-case forms of the k leading characters spell t *)
  Lemma kstarts_sound s : forall t k, kstarts s t = Some k ->
    (k <= List.length s)%nat /\ KK (firstn k s) = t.
  Proof.
    induction s as [|c s IH]; intros t k H.
    - destruct t; [|discriminate]. cbn in H. injection H as <-. split; [cbn; lia|reflexivity].
    - destruct t as [|x t]; [cbn in H; injection H as <-; split; [cbn; lia|reflexivity]|].
      rewrite kstarts_cons in H by discriminate.
      destruct (strip_bytes (key c) (x :: t)) as [rest|] eqn:E; [|discriminate].
      apply strip_bytes_spec in E.
      destruct (kstarts s rest) as [j|] eqn:E2; [|discriminate]. injection H as <-.
      destruct (IH _ _ E2) as [L Q]. split; [cbn [List.length]; lia|].
      cbn [firstn]. rewrite K_cons, Q. now symmetry.
  Qed.

  (** complete, and it is the shortest stretch *)
  Lemma kstarts_complete s : forall t j, (j <= List.length s)%nat -> KK (firstn j s) = t ->
    exists k, kstarts s t = Some k /\ (k <= j)%nat.
  Proof.
    induction s as [|c s IH]; intros t j L Q.
    - rewrite firstn_nil in Q. subst t. exists 0%nat. split; [reflexivity|lia].
    - destruct t as [|x t]; [exists 0%nat; split; [reflexivity|lia]|].
      destruct j as [|j]; [discriminate Q|].
      cbn [firstn] in Q. rewrite K_cons in Q. rewrite kstarts_cons by discriminate.
      assert (E : strip_bytes (key c) (x :: t) = Some (KK (firstn j s))) by (apply strip_bytes_spec; now symmetry).
      rewrite E. cbn [List.length] in L. destruct (IH (KK (firstn j s)) j) as (k & Hk & Lk); [lia|reflexivity|].
      rewrite Hk. exists (S k). split; [reflexivity|lia].
  Qed.

  Lemma last_ci_none t s : last_ci t s = None ->
    forall p', (p' <= List.length s)%nat -> kstarts (skipn p' s) t = None.
  Proof.
    induction s as [|c s IH]; intros H p' L.
    - cbn [last_ci] in H. destruct t; [discriminate|]. now rewrite skipn_nil.
    - cbn [last_ci] in H. destruct (last_ci t s) as [[q j]|]; [discriminate|].
      destruct (kstarts (c :: s) t) eqn:E; [discriminate|].
      destruct p' as [|p']; [exact E|]. cbn [skipn List.length] in *. apply IH; [reflexivity|lia].
  Qed.

  Lemma last_ci_spec t s : forall p k, last_ci t s = Some (p, k) ->
    (p <= List.length s)%nat /\ kstarts (skipn p s) t = Some k /\
    forall p', (p < p' <= List.length s)%nat -> kstarts (skipn p' s) t = None.
  Proof.
    induction s as [|c s IH]; intros p k H.
    - cbn [last_ci] in H. destruct t; [|discriminate]. injection H as <- <-.
      split; [cbn; lia|]. split; [reflexivity|]. intros p' L. cbn in L. lia.
    - cbn [last_ci] in H. destruct (last_ci t s) as [[q j]|] eqn:EL.
      + injection H as <- <-. destruct (IH _ _ eq_refl) as (L & S1 & R).
        split; [cbn [List.length]; lia|]. split; [exact S1|].
        intros p' L'. destruct p' as [|p']; [lia|]. cbn [skipn List.length] in *. apply R. lia.
      + destruct (kstarts (c :: s) t) as [j|] eqn:E; [|discriminate]. injection H as <- <-.
        split; [lia|]. split; [exact E|]. intros p' L'. destruct p' as [|p']; [lia|].
        cbn [skipn List.length] in *. apply (last_ci_none _ _ EL). lia.
  Qed.

  Lemma last_ci_bound t s p k : last_ci t s = Some (p, k) -> (p + k <= List.length s)%nat.
  Proof.
    intros H. destruct (last_ci_spec _ _ _ _ H) as (L & S1 & _).
    destruct (kstarts_sound _ _ _ S1) as [L2 _]. rewrite skipn_length in L2. lia.
  Qed.

  (** the character-by-character occurrences of LayoutPrefixFacts ([kprefix], [last_occ])
      are these occurrences when every key is one well-formed character *)
  Lemma kstarts_kprefix ds : forall cs, keys_wf key ds -> keys_wf key cs ->
    kstarts cs (KK ds) = if kprefix key ds cs then Some (List.length ds) else None.
  Proof.
    induction ds as [|a ds IH]; intros cs Wd Wc.
    - apply kstarts_nil.
    - inversion Wd as [|? ? Ha Wd']; subst.
      assert (NE : KK (a :: ds) <> []).
      { rewrite K_cons. destruct (wf_char_inv _ Ha) as (c0 & r & -> & _). discriminate. }
      destruct cs as [|c cs]; [now apply kstarts_nil_l|].
      inversion Wc as [|? ? Hc Wc']; subst.
      rewrite kstarts_cons by exact NE. rewrite K_cons, strip_bytes_wf by assumption.
      cbn [kprefix]. rewrite (bytes_eqb_sym (key a)).
      destruct (bytes_eqb (key c) (key a)); [|reflexivity]. cbn [andb].
      rewrite IH by assumption. destruct (kprefix key ds cs); reflexivity.
  Qed.

  Lemma last_ci_last_occ ds cs : keys_wf key ds -> keys_wf key cs -> ds <> [] ->
    last_ci (KK ds) cs =
    match last_occ key ds cs with Some p => Some (p, List.length ds) | None => None end.
  Proof.
    intros Wd Wc N. destruct (K_nonempty key ds Wd N) as (n0 & nrest & En & _).
    induction cs as [|c cs IH].
    - cbn [last_ci last_occ]. rewrite En. destruct ds; [congruence|reflexivity].
    - inversion Wc as [|? ? Hc Wc']; subst. cbn [last_ci last_occ]. rewrite IH by exact Wc'.
      destruct (last_occ key ds cs); [reflexivity|].
      rewrite kstarts_kprefix by assumption. destruct (kprefix key ds (c :: cs)); reflexivity.
  Qed.
End KStarts.

(** * the documents (LayoutSpec.v) in terms of [last_ci] on lower-case forms *)
Lemma ci_starts_kstarts s : forall t, ci_starts s t = kstarts u_low s t.
Proof.
  induction s as [|c s IH]; intros t; destruct t as [|x t]; reflexivity.
Qed.

Lemma lower_text_K cs : lower_text cs = K u_low cs.
Proof. reflexivity. Qed.

Lemma after_last_ci t s :
  after_last t s = match last_ci u_low t s with Some (p, k) => Some (skipn (p + k) s) | None => None end.
Proof.
  induction s as [|c s IH].
  - cbn [after_last last_ci]. destruct t; reflexivity.
  - cbn [after_last last_ci]. rewrite IH. destruct (last_ci u_low t s) as [[p k]|]; [reflexivity|].
    rewrite ci_starts_kstarts. destruct (kstarts u_low (c :: s) t); reflexivity.
Qed.

Definition omitted (d id : ustr) : res bytes :=
  res_bind (omit_prefix (us_chars d) (us_chars id)) (fun r => Ok (text r)).

Lemma omitted_last_ci d id :
  omitted d id =
  match last_ci u_low (lower_text (us_chars d)) (us_chars id) with
  | None => Ok (O (us_chars id))
  | Some (p, k) => match skipn (p + k) (us_chars id) with [] => Err | r => Ok (O r) end
  end.
Proof.
  unfold omitted, omit_prefix. rewrite after_last_ci.
  destruct (last_ci u_low _ _) as [[p k]|]; [|reflexivity].
  destruct (skipn _ _); reflexivity.
Qed.

(** the remainder is a suffix of the id's characters *)
Lemma omit_prefix_suffix d id r : omit_prefix d id = Ok r -> exists j, r = skipn j id.
Proof.
  unfold omit_prefix. rewrite after_last_ci.
  destruct (last_ci u_low (lower_text d) id) as [[p k]|].
  - destruct (skipn (p + k) id) eqn:E; [discriminate|]. intros H. injection H as <-. eauto.
  - intros H. injection H as <-. exists 0%nat. reflexivity.
Qed.

(** * the code of 0006 since fix 91d5aeb: rfind_ignore_case finds that occurrence *)
Lemma O_cons u cs : O (u :: cs) = u_orig u ++ O cs.
Proof. reflexivity. Qed.

(** a [lowered] that cannot be completed to the delimiter never matches *)
Lemma ric_inner_dead delim : forall cs lowered offset,
  (forall x, lowered ++ x <> delim) -> ric_inner delim lowered offset cs = None.
Proof.
  induction cs as [|c cs IH]; intros lowered offset H; [reflexivity|].
  cbn [ric_inner]. destruct (blen delim <=? blen (lowered ++ u_low c)).
  - destruct (bytes_eqb (lowered ++ u_low c) delim) eqn:E; [|reflexivity].
    apply bytes_eqb_eq in E. exfalso. exact (H _ E).
  - apply IH. intros x. rewrite <- app_assoc. apply H.
Qed.

Lemma ric_inner_spec delim : forall cs lowered t offset, delim = lowered ++ t -> t <> [] ->
  ric_inner delim lowered offset cs =
  match kstarts u_low cs t with Some k => Some (offset + blen (O (firstn k cs))) | None => None end.
Proof.
  induction cs as [|c cs IH]; intros lowered t offset E NE.
  - rewrite kstarts_nil_l by exact NE. reflexivity.
  - rewrite kstarts_cons by exact NE. cbn [ric_inner].
    destruct (strip_bytes (u_low c) t) as [rest|] eqn:ES.
    + apply strip_bytes_spec in ES. subst t.
      assert (E' : delim = (lowered ++ u_low c) ++ rest) by (rewrite <- app_assoc; exact E).
      destruct rest as [|x rest].
      * rewrite app_nil_r in E'. rewrite <- E'. replace (blen delim <=? blen delim) with true by lia.
        rewrite bytes_eqb_refl, kstarts_nil. cbn [firstn]. rewrite O_cons. unfold O at 1. cbn [K List.map List.concat].
        now rewrite app_nil_r.
      * replace (blen delim <=? blen (lowered ++ u_low c)) with false
          by (rewrite E', !blen_app, blen_cons; lia).
        rewrite (IH _ (x :: rest) _ E') by discriminate.
        destruct (kstarts u_low cs (x :: rest)) as [k|]; [|reflexivity].
        cbn [firstn]. rewrite O_cons, blen_app. f_equal. lia.
    + assert (D : forall y, u_low c ++ y <> t).
      { intros y Hy. symmetry in Hy. apply strip_bytes_spec in Hy. congruence. }
      destruct (blen delim <=? blen (lowered ++ u_low c)).
      * destruct (bytes_eqb (lowered ++ u_low c) delim) eqn:EB; [|reflexivity].
        apply bytes_eqb_eq in EB. rewrite E in EB. apply app_inv_head in EB.
        exfalso. apply (D []). now rewrite app_nil_r.
      * apply ric_inner_dead. intros y Hy. rewrite E, <- app_assoc in Hy. apply app_inv_head in Hy.
        exact (D _ Hy).
Qed.

Lemma rfind_ignore_case_spec delim : delim <> [] -> forall cs start,
  rfind_ignore_case cs start delim =
  match last_ci u_low delim cs with
  | Some (p, k) => Some (start + blen (O (firstn p cs)), blen (O (firstn k (skipn p cs))))
  | None => None
  end.
Proof.
  intros NE. induction cs as [|c cs IH]; intros start.
  - cbn [rfind_ignore_case last_ci]. destruct delim; [congruence|reflexivity].
  - cbn [rfind_ignore_case last_ci]. rewrite IH.
    destruct (last_ci u_low delim cs) as [[p k]|].
    + cbn [firstn skipn]. rewrite O_cons, blen_app. f_equal. f_equal. lia.
    + rewrite (ric_inner_spec delim (c :: cs) [] delim 0 eq_refl NE).
      destruct (kstarts u_low (c :: cs) delim) as [k|]; [|reflexivity].
      cbn [firstn skipn]. change (blen (O [])) with 0. f_equal. f_equal; lia.
Qed.

(** from a position in characters to the outcome: shared by all branches *)
Lemma outcome_at cs p k : keys_wf u_orig cs -> (p + k <= List.length cs)%nat ->
  (if blen (O cs) =? blen (O (firstn p cs)) + blen (O (firstn k (skipn p cs))) then Panic
   else str_from (O cs) (blen (O (firstn p cs)) + blen (O (firstn k (skipn p cs))))) =
  match skipn (p + k) cs with [] => Panic | r => Ok (O r) end.
Proof.
  intros W L.
  assert (E : blen (O (firstn p cs)) + blen (O (firstn k (skipn p cs))) = blen (O (firstn (p + k) cs))).
  { rewrite firstn_add. unfold O. now rewrite K_app, blen_app. }
  rewrite E. now apply slice_after.
Qed.

Lemma lower_text_nonempty d : lows_nonempty d = true -> us_chars d <> [] -> lower_text (us_chars d) <> [].
Proof.
  unfold lows_nonempty. destruct (us_chars d) as [|u l]; [congruence|]. intros H _.
  cbn [forallb] in H. apply andb_true_iff in H as [H _].
  unfold lower_text. cbn [List.map List.concat]. destruct (u_low u); [discriminate|discriminate].
Qed.

(** 0006, delimiter with case: no condition on the case information beyond a non-empty
    lower-case form of the delimiter *)
Lemma strip_prefix_0006_cased d id :
  ustr_wf id = true -> case_matters d = true -> lower_text (us_chars d) <> [] ->
  refusal (strip_prefix_0006 d id) = omitted d id.
Proof.
  intros Wi CM NE. rewrite omitted_last_ci.
  unfold strip_prefix_0006, find_0006, norm_delim_0006, lowercase_chars. rewrite CM.
  rewrite rfind_ignore_case_spec by exact NE.
  destruct (last_ci u_low (lower_text (us_chars d)) (us_chars id)) as [[p k]|] eqn:EL; [|reflexivity].
  change (us_bytes id) with (O (us_chars id)).
  rewrite N.add_0_l, outcome_at.
  - destruct (skipn (p + k) (us_chars id)); reflexivity.
  - now apply ustr_wf_keys.
  - exact (last_ci_bound _ _ _ _ _ EL).
Qed.

(** * a delimiter without case: comparing bytes is comparing lower-case forms *)
Lemma caseless_ok_inv d id : caseless_ok d id = true ->
  Forall (fun a => u_low a = u_orig a) (us_chars d) /\
  Forall (fun c => u_low c = u_orig c \/
                   Forall (fun a => u_orig a <> u_orig c /\ prefix_related (u_low c) (u_orig a) = false) (us_chars d))
         (us_chars id).
Proof.
  unfold caseless_ok. intros H. apply andb_true_iff in H as [H1 H2]. split.
  - apply forallb_Forall in H1. eapply Forall_impl; [|exact H1]. intros a Ha. now apply bytes_eqb_eq.
  - apply forallb_Forall in H2. eapply Forall_impl; [|exact H2]. intros c Hc. cbn beta in Hc.
    apply orb_true_iff in Hc as [Hc|Hc]; [left; now apply bytes_eqb_eq|right].
    apply forallb_Forall in Hc. eapply Forall_impl; [|exact Hc]. intros a Ha. cbn beta in Ha.
    apply andb_true_iff in Ha as [A1 A2]. apply negb_true_iff in A1, A2. split; [now apply bytes_eqb_neq|exact A2].
Qed.

Lemma K_same key1 key2 cs : Forall (fun a => key1 a = key2 a) cs -> K key1 cs = K key2 cs.
Proof. induction 1 as [|a cs Ha _ IH]; [reflexivity|]. now rewrite !K_cons, Ha, IH. Qed.

Lemma kstarts_caseless D : forall cs ds,
  keys_wf u_orig cs -> keys_wf u_orig ds -> incl ds D ->
  Forall (fun c => u_low c = u_orig c \/
                   Forall (fun a => u_orig a <> u_orig c /\ prefix_related (u_low c) (u_orig a) = false) D) cs ->
  kstarts u_low cs (O ds) = kstarts u_orig cs (O ds).
Proof.
  induction cs as [|c cs IH]; intros ds Wc Wd I H.
  - destruct (O ds); reflexivity.
  - destruct ds as [|a ds]; [reflexivity|].
    inversion Wc as [|? ? Hc Wc']; subst. inversion Wd as [|? ? Ha Wd']; subst.
    inversion H as [|? ? Hcase H']; subst.
    assert (NE : O (a :: ds) <> []).
    { rewrite O_cons. destruct (wf_char_inv _ Ha) as (c0 & r & -> & _). discriminate. }
    rewrite !kstarts_cons by exact NE.
    assert (I' : incl ds D) by (intros x Hx; apply I; now right).
    destruct Hcase as [E|F].
    + rewrite E. destruct (strip_bytes (u_orig c) (O (a :: ds))) as [rest|] eqn:ES; [|reflexivity].
      rewrite O_cons, strip_bytes_wf in ES by assumption.
      destruct (bytes_eqb (u_orig c) (u_orig a)); [|discriminate]. injection ES as <-.
      now rewrite IH.
    + rewrite Forall_forall in F. destruct (F a (I a (or_introl eq_refl))) as [F1 F2].
      assert (S2 : strip_bytes (u_orig c) (O (a :: ds)) = None).
      { rewrite O_cons, strip_bytes_wf by assumption.
        replace (bytes_eqb (u_orig c) (u_orig a)) with false; [reflexivity|].
        symmetry. apply bytes_eqb_neq. congruence. }
      rewrite S2. destruct (strip_bytes (u_low c) (O (a :: ds))) as [rest|] eqn:ES; [|reflexivity].
      apply strip_bytes_spec in ES. rewrite O_cons in ES. symmetry in ES.
      apply app_prefix_related in ES. congruence.
Qed.

Lemma last_ci_same (t : bytes) (P : list uchar -> Prop) key1 key2 :
  (forall c cs, P (c :: cs) -> P cs) ->
  (forall cs, P cs -> kstarts key1 cs t = kstarts key2 cs t) ->
  forall cs, P cs -> last_ci key1 t cs = last_ci key2 t cs.
Proof.
  intros Ptail HS. induction cs as [|c cs IH]; intros HP; [reflexivity|].
  cbn [last_ci]. rewrite IH by (eapply Ptail; exact HP). now rewrite (HS _ HP).
Qed.

Lemma last_ci_caseless d id : ustr_wf d = true -> ustr_wf id = true -> caseless_ok d id = true ->
  last_ci u_low (lower_text (us_chars d)) (us_chars id) = last_ci u_orig (O (us_chars d)) (us_chars id).
Proof.
  intros Wd Wi H. destruct (caseless_ok_inv _ _ H) as [H1 H2].
  rewrite lower_text_K, (K_same u_low u_orig _ H1). fold (O (us_chars d)).
  apply (last_ci_same _ (fun cs => keys_wf u_orig cs /\
      Forall (fun c => u_low c = u_orig c \/
                       Forall (fun a => u_orig a <> u_orig c /\ prefix_related (u_low c) (u_orig a) = false) (us_chars d)) cs)).
  - intros c cs [A1 A2]. inversion A1; subst. inversion A2; subst. now split.
  - intros cs [A1 A2]. apply (kstarts_caseless (us_chars d)); try assumption.
    + now apply ustr_wf_keys.
    + apply incl_refl.
  - split; [now apply ustr_wf_keys|exact H2].
Qed.

(** the byte-wise search with the original bytes as keys (layout.rs:558-560 for 0006,
    627-633 for 0007 when the delimiter has no case) *)
Lemma strip_core_caseless d id :
  ustr_wf d = true -> ustr_wf id = true -> us_chars d <> [] -> caseless_ok d id = true ->
  refusal (strip_core u_orig (us_chars d) (us_chars id)) = omitted d id.
Proof.
  intros Wd Wi N H. rewrite omitted_last_ci, last_ci_caseless by assumption.
  pose proof (ustr_wf_keys _ Wd) as Kd. pose proof (ustr_wf_keys _ Wi) as Ki.
  unfold O at 1. rewrite last_ci_last_occ by assumption.
  rewrite strip_core_correct; try assumption; [|apply Forall_forall; reflexivity].
  destruct (last_occ u_orig (us_chars d) (us_chars id)) as [p|]; [|reflexivity].
  destruct (skipn _ _); reflexivity.
Qed.

(** * 0007 with a delimiter that has case: the id is ASCII (guard, layout.rs:622), so the
    lower-cased id has the bytes of the id at the same places *)
Lemma Forall_skipn {A} (P : A -> Prop) j l : Forall P l -> Forall P (skipn j l).
Proof.
  revert l. induction j as [|j IH]; intros l H; [exact H|].
  destruct l; [constructor|]. inversion H; subst. cbn [skipn]. now apply IH.
Qed.
Lemma Forall_firstn {A} (P : A -> Prop) j l : Forall P l -> Forall P (firstn j l).
Proof.
  revert l. induction j as [|j IH]; intros l H; [constructor|].
  destruct l; [constructor|]. inversion H; subst. cbn [firstn]. constructor; [assumption|now apply IH].
Qed.

Lemma lower_ascii_byte c : is_ascii_byte c = true -> is_ascii_byte (to_ascii_lower c) = true.
Proof.
  unfold is_ascii_byte, to_ascii_lower. intros H.
  destruct ((65 <=? code c) && (code c <=? 90)) eqn:E; [|exact H].
  unfold code. rewrite N_ascii_embedding; unfold code in *; lia.
Qed.

Lemma is_ascii_map_lower s : is_ascii s = true -> is_ascii (List.map to_ascii_lower s) = true.
Proof.
  unfold is_ascii. induction s as [|c s IH]; [reflexivity|]. cbn [forallb List.map]. intros H.
  apply andb_true_iff in H as [H1 H2]. now rewrite lower_ascii_byte, IH.
Qed.

Lemma wf_char_ascii c : is_ascii_byte c = true -> wf_char [c] = true.
Proof.
  unfold is_ascii_byte, wf_char, utf8_len. intros H. rewrite H. reflexivity.
Qed.

Lemma K_ascii key cs : Forall (fun u => is_ascii (key u) = true) cs -> is_ascii (K key cs) = true.
Proof.
  induction 1 as [|u cs Hu _ IH]; [reflexivity|]. now rewrite K_cons, is_ascii_app, Hu, IH.
Qed.

Lemma K_map_lower cs : Forall (fun u => u_low u = List.map to_ascii_lower (u_orig u)) cs ->
  K u_low cs = List.map to_ascii_lower (O cs).
Proof.
  induction 1 as [|u cs Hu _ IH]; [reflexivity|]. now rewrite K_cons, O_cons, map_app, Hu, IH.
Qed.

(** the characters of an id that passed the guard *)
Definition one_ascii (u : uchar) : Prop := exists c, u_orig u = [c] /\ is_ascii_byte c = true.
Lemma in_range_one_ascii cs : forallb in_range cs = true -> Forall one_ascii cs.
Proof.
  intros H. apply forallb_Forall in H. eapply Forall_impl; [|exact H]. intros u Hu.
  unfold in_range in Hu. unfold one_ascii. destruct (u_orig u) as [|c [|? ?]]; try discriminate.
  exists c. split; [reflexivity|]. unfold is_ascii_byte. lia.
Qed.

Lemma O_one_ascii cs : Forall one_ascii cs -> is_ascii (O cs) = true.
Proof.
  intros H. apply K_ascii. eapply Forall_impl; [|exact H]. intros u (c & -> & Hc).
  cbn [is_ascii forallb]. now rewrite Hc.
Qed.

(** a fake "delimiter" of one-byte characters that spells an ASCII text: lets the
    byte-wise lemma [strip_core_correct] talk about str::to_lowercase of the delimiter *)
Definition achars (t : bytes) : list uchar := List.map (fun c => mkU [c] [c]) t.
Lemma K_achars t : K u_low (achars t) = t.
Proof. induction t as [|c t IH]; [reflexivity|]. unfold achars in *. cbn [List.map]. rewrite K_cons, IH. reflexivity. Qed.
Lemma achars_wf t : is_ascii t = true -> keys_wf u_low (achars t).
Proof.
  unfold is_ascii, keys_wf, achars. induction t as [|c t IH]; intros H; [constructor|].
  cbn [forallb] in H. apply andb_true_iff in H as [H1 H2]. cbn [List.map]. constructor; [|now apply IH].
  now apply wf_char_ascii.
Qed.

Lemma strip_prefix_0007_cased d id :
  ustr_wf id = true -> forallb in_range (us_chars id) = true ->
  case_matters d = true -> lower_text (us_chars d) <> [] ->
  ascii_lower_ok id = true -> lower_str_ok d = true ->
  refusal (strip_prefix d id) = omitted d id.
Proof.
  intros Wi IR CM NE AL LS. rewrite omitted_last_ci.
  set (cs := us_chars id) in *. set (T := lower_text (us_chars d)) in *.
  pose proof (in_range_one_ascii _ IR) as One.
  pose proof (O_one_ascii _ One) as Aid.
  unfold ascii_lower_ok in AL. change (us_bytes id) with (O cs) in AL. rewrite Aid in AL.
  apply andb_true_iff in AL as [AL1 AL2]. apply bytes_eqb_eq in AL1.
  assert (Lows : Forall (fun u => u_low u = List.map to_ascii_lower (u_orig u)) cs).
  { apply forallb_Forall in AL2. eapply Forall_impl; [|exact AL2]. intros u Hu. now apply bytes_eqb_eq. }
  assert (Low1 : Forall (fun u => exists c, u_orig u = [c] /\ u_low u = [to_ascii_lower c] /\ is_ascii_byte c = true) cs).
  { rewrite Forall_forall in *. intros u Hu. destruct (One u Hu) as (c & E & A). exists c.
    split; [exact E|]. split; [|exact A]. rewrite (Lows u Hu), E. reflexivity. }
  assert (Ekid : K u_low cs = us_lower id) by (rewrite AL1; now apply K_map_lower).
  assert (Wl : keys_wf u_low cs).
  { eapply Forall_impl; [|exact Low1]. intros u (c & _ & -> & A). apply wf_char_ascii. now apply lower_ascii_byte. }
  assert (SL : Forall (fun u => blen (u_low u) = blen (u_orig u)) cs).
  { eapply Forall_impl; [|exact Low1]. intros u (c & -> & -> & _). reflexivity. }
  assert (Alow : Forall (fun u => is_ascii (u_low u) = true) cs).
  { eapply Forall_impl; [|exact Low1]. intros u (c & _ & -> & A). cbn [is_ascii forallb]. now rewrite lower_ascii_byte. }
  unfold strip_prefix, test_id, norm_delim. rewrite CM.
  destruct (is_ascii T) eqn:AT.
  - (* str::to_lowercase of the delimiter is its per-character lower-case form *)
    unfold lower_str_ok in LS. fold T in LS. rewrite AT in LS. cbn [negb] in LS.
    rewrite andb_false_r, orb_false_r in LS. apply bytes_eqb_eq in LS.
    assert (S : (match rfind (us_lower id) (us_lower d) with
                 | Some index => if blen (us_bytes id) =? index + blen (us_lower d) then Panic
                                 else str_from (us_bytes id) (index + blen (us_lower d))
                 | None => Ok (us_bytes id)
                 end) = strip_core u_low (achars T) cs).
    { unfold strip_core. rewrite K_achars, Ekid, LS. reflexivity. }
    rewrite S. clear S.
    assert (NA : achars T <> []) by (unfold achars; destruct T; [congruence|discriminate]).
    rewrite strip_core_correct; try assumption; try (now apply achars_wf); try (now apply ustr_wf_keys).
    rewrite <- (K_achars T) at 2. rewrite last_ci_last_occ; try assumption; try (now apply achars_wf).
    destruct (last_occ u_low (achars T) cs) as [p|]; [|reflexivity].
    destruct (skipn _ _); reflexivity.
  - (* a non-ASCII delimiter never occurs in an ASCII id, whichever lower-case form is taken *)
    assert (AD : is_ascii (us_lower d) = false).
    { unfold lower_str_ok in LS. fold T in LS. apply orb_true_iff in LS as [LS|LS].
      - apply bytes_eqb_eq in LS. now rewrite LS.
      - apply andb_true_iff in LS as [LS _]. now apply negb_true_iff in LS. }
    assert (R : rfind (us_lower id) (us_lower d) = None).
    { destruct (rfind (us_lower id) (us_lower d)) as [i|] eqn:R; [|reflexivity].
      apply rfind_some_ascii in R; [congruence|]. rewrite AL1. now apply is_ascii_map_lower. }
    rewrite R.
    destruct (last_ci u_low T cs) as [[p k]|] eqn:EL; [|reflexivity].
    exfalso. destruct (last_ci_spec _ _ _ _ _ EL) as (_ & S1 & _).
    destruct (kstarts_sound _ _ _ _ S1) as [_ Q].
    assert (is_ascii T = true); [|congruence].
    rewrite <- Q. apply K_ascii. apply Forall_firstn. now apply Forall_skipn.
Qed.

(** * the two prefix removals against the documents *)
Lemma unicode_ok_inv d id : unicode_ok d id = true ->
  lows_nonempty d = true /\ (case_matters d = false -> caseless_ok d id = true) /\
  ascii_lower_ok id = true /\ lower_str_ok d = true.
Proof.
  unfold unicode_ok. intros H. apply andb_true_iff in H as [H H4]. apply andb_true_iff in H as [H H3].
  apply andb_true_iff in H as [H1 H2]. repeat split; try assumption.
  intros CM. now rewrite CM in H2.
Qed.

Theorem strip_prefix_0006_correct d id :
  ustr_wf d = true -> ustr_wf id = true -> us_chars d <> [] -> unicode_ok d id = true ->
  refusal (strip_prefix_0006 d id) = omitted d id.
Proof.
  intros Wd Wi N U. destruct (unicode_ok_inv _ _ U) as (LN & CL & _ & _).
  destruct (case_matters d) eqn:CM.
  - apply strip_prefix_0006_cased; try assumption. now apply lower_text_nonempty.
  - rewrite <- strip_core_caseless by auto.
    unfold strip_prefix_0006, find_0006, norm_delim_0006, strip_core. rewrite CM.
    change (us_bytes id) with (O (us_chars id)). change (us_bytes d) with (O (us_chars d)). unfold O.
    destruct (rfind _ _); reflexivity.
Qed.

Theorem strip_prefix_correct d id :
  ustr_wf d = true -> ustr_wf id = true -> us_chars d <> [] -> unicode_ok d id = true ->
  forallb in_range (us_chars id) = true ->
  refusal (strip_prefix d id) = omitted d id.
Proof.
  intros Wd Wi N U IR. destruct (unicode_ok_inv _ _ U) as (LN & CL & AL & LS).
  destruct (case_matters d) eqn:CM.
  - apply strip_prefix_0007_cased; try assumption. now apply lower_text_nonempty.
  - rewrite <- strip_core_caseless by auto.
    unfold strip_prefix, test_id, norm_delim, strip_core. rewrite CM. reflexivity.
Qed.

(** * what the documents' prefix removal means, without an algorithm *)
Lemma skipn_nil_length {A} n (l : list A) : (n <= List.length l)%nat -> skipn n l = [] -> n = List.length l.
Proof. intros L E. pose proof (skipn_length n l) as H. rewrite E in H. cbn in H. lia. Qed.

Theorem omit_prefix_meaning d s :
  match omit_prefix d s with
  | Ok r => (r = s /\ forall p k, ~ occurs_at d s p k) \/
            (exists p k, occurs_at d s p k /\ r = skipn (p + k) s /\ r <> [] /\
                         (forall p' k', occurs_at d s p' k' -> (p' <= p)%nat) /\
                         (forall k', occurs_at d s p k' -> (k <= k')%nat))
  | Err => exists p k, occurs_at d s p k /\ (p + k)%nat = List.length s /\
                       (forall p' k', occurs_at d s p' k' -> (p' <= p)%nat) /\
                       (forall k', occurs_at d s p k' -> (k <= k')%nat)
  | Panic => False
  end.
Proof.
  unfold omit_prefix. rewrite after_last_ci. set (t := lower_text d).
  assert (Complete : forall p' k', occurs_at d s p' k' ->
            exists k0, kstarts u_low (skipn p' s) t = Some k0 /\ (k0 <= k')%nat).
  { intros p' k' [L Q]. apply kstarts_complete; [rewrite skipn_length; lia|exact Q]. }
  destruct (last_ci u_low t s) as [[p k]|] eqn:EL.
  - destruct (last_ci_spec _ _ _ _ _ EL) as (Lp & S1 & R).
    pose proof (last_ci_bound _ _ _ _ _ EL) as Lpk.
    destruct (kstarts_sound _ _ _ _ S1) as [_ Q].
    assert (Occ : occurs_at d s p k) by (split; assumption).
    assert (Right : forall p' k', occurs_at d s p' k' -> (p' <= p)%nat).
    { intros p' k' Hocc. destruct (Complete _ _ Hocc) as (k0 & Hk0 & _).
      destruct (Nat.le_gt_cases p' p) as [Hle|Hgt]; [exact Hle|].
      destruct Hocc as [L' _]. rewrite R in Hk0 by lia. discriminate. }
    assert (Short : forall k', occurs_at d s p k' -> (k <= k')%nat).
    { intros k' Hocc. destruct (Complete _ _ Hocc) as (k0 & Hk0 & Lk0). rewrite S1 in Hk0. injection Hk0 as <-. exact Lk0. }
    destruct (skipn (p + k) s) as [|c r] eqn:ES.
    + exists p, k. split; [exact Occ|]. split; [now apply skipn_nil_length|]. split; assumption.
    + right. exists p, k. split; [exact Occ|]. split; [now rewrite ES|]. split; [discriminate|]. split; assumption.
  - left. split; [reflexivity|]. intros p k Hocc. destruct (Complete _ _ Hocc) as (k0 & Hk0 & _).
    destruct Hocc as [L _]. rewrite (last_ci_none _ _ _ EL) in Hk0 by lia. discriminate.
Qed.

(** * the narrower character-by-character reading gives the same remainder whenever every
    lower-case form is one well-formed character (in Unicode: no U+0130 in sight) *)
Theorem readings_agree d s : d <> [] ->
  Forall (fun u => wf_char (u_low u) = true) d -> Forall (fun u => wf_char (u_low u) = true) s ->
  after_last (lower_text d) s = after_last_simple d s.
Proof.
  intros N Wd Ws. rewrite after_last_ci, after_last_simple_occ, lower_text_K, last_ci_last_occ by assumption.
  destruct (last_occ u_low d s); reflexivity.
Qed.
