(** StorageLayout::new (Model/Layout.v) accepts exactly the configurations the extension
    documents allow (Model/LayoutSpec.v parse) and reads the documented parameter
    values (no known class is left: a missing delimiter of 0007 and a missing config.json
    mean the defaults since fix dec6d3f, a JSON array is refused since fix 8478633). *)
From Rocfl Require Import Base.Bytes Generated.Consts Model.Layout Model.LayoutSpec
  Proofs.BytesFacts Proofs.LayoutFacts Proofs.LayoutMapFacts.
From Coq Require Import ZArith Lia ZifyBool ZifyN ZifyNat.
Ltac Zify.zify_post_hook ::= Z.div_mod_to_equations.
Open Scope N_scope.
Arguments N.add : simpl never.
Arguments N.mul : simpl never.
Arguments N.sub : simpl never.
Arguments N.div : simpl never.
Arguments N.ltb : simpl never.
Arguments N.leb : simpl never.
Arguments N.eqb : simpl never.

Definition new_agrees (m : res cfg) (sp : option cfg) : Prop :=
  match m, sp with
  | Ok c, Some sc => same_params c sc = true
  | Err, None => True
  | _, _ => False
  end.

(** * names *)
Lemma registered_is_ext_name e : registered_name e = ext_name e.
Proof. destruct e; reflexivity. Qed.

Lemma ext_lookup e x :
  bytes_eqb x (registered_name e) =
  match ext_of_name x with Some e' => ext_eqb e' e | None => false end.
Proof.
  unfold ext_of_name, all_exts. cbn [find].
  repeat match goal with
  | |- context [bytes_eqb (ext_name ?k) x] =>
      let E := fresh "E" in destruct (bytes_eqb (ext_name k) x) eqn:E;
      [apply bytes_eqb_eq in E; subst x; destruct e; reflexivity|apply bytes_eqb_neq in E]
  end.
  apply bytes_eqb_neq. rewrite registered_is_ext_name. destruct e; congruence.
Qed.

Lemma alg_lookup x : alg_named x = alg_of_name x.
Proof.
  unfold alg_named, alg_of_name, all_algs. cbn [find alg_name].
  repeat (rewrite (bytes_eqb_sym x); match goal with |- context [bytes_eqb ?k x] => destruct (bytes_eqb k x); [reflexivity|] end).
  reflexivity.
Qed.

Lemma hex_chars_is_hexlen a : hex_chars a = alg_hexlen a.
Proof. destruct a; reflexivity. Qed.

Lemma ustr_eqb_refl s : ustr_eqb s s = true.
Proof.
  unfold ustr_eqb. rewrite !bytes_eqb_refl. cbn [andb].
  induction (us_chars s) as [|u l IH]; [reflexivity|]. now rewrite !bytes_eqb_refl, IH.
Qed.
Lemma alg_eqb_refl a : alg_eqb a a = true.
Proof. unfold alg_eqb. apply N.eqb_refl. Qed.
Lemma ext_eqb_refl e : ext_eqb e e = true.
Proof. destruct e; reflexivity. Qed.
Lemma ext_eqb_eq a c : ext_eqb a c = true -> a = c.
Proof. destruct a, c; try discriminate; reflexivity. Qed.

(** * field readers of the code against the documented parameter types *)
Lemma name_view e v :
  (name_allowed e v = true /\ get_ext v (Some e) = Ok e) \/
  (name_allowed e v = false /\
   (get_ext v (Some e) = Err \/ exists e', get_ext v (Some e) = Ok e' /\ ext_eqb e' e = false)).
Proof.
  destruct v as [|n|s|x|]; cbn [name_allowed get_ext]; auto.
  change (text (us_chars s)) with (us_bytes s). rewrite ext_lookup.
  destruct (ext_of_name (us_bytes s)) as [e'|]; [|auto].
  destruct (ext_eqb e' e) eqn:E.
  - apply ext_eqb_eq in E. subst. auto.
  - right. split; [reflexivity|]. right. eauto.
Qed.

Lemma get_ext_present e v : is_absent v = false -> get_ext v None = get_ext v (Some e).
Proof. destruct v; try reflexivity. discriminate. Qed.

Lemma alg_view v :
  (exists a, get_alg v = Ok a /\ alg_param v = Some a) \/ (get_alg v = Err /\ alg_param v = None).
Proof.
  destruct v as [|n|s|x|]; cbn [get_alg alg_param]; eauto.
  change (text (us_chars s)) with (us_bytes s). rewrite alg_lookup.
  destruct (alg_of_name (us_bytes s)); eauto.
Qed.

(** tupleSize / numberOfTuples of 0003/0004: serde reads any usize, the documents want 0..32 *)
Lemma num_view0 v :
  (exists n, get_usize v = Ok n /\
     num_param 0 32 v = if n <=? 32 then Some n else None) \/
  (get_usize v = Err /\ num_param 0 32 v = None).
Proof.
  destruct v as [|n|s|x|]; cbn [get_usize num_param]; auto.
  - left. exists 3. split; reflexivity.
  - unfold USIZE_MAX. destruct (n <=? 18446744073709551615) eqn:E.
    + left. exists n. split; [reflexivity|]. replace (0 <=? n) with true by lia. reflexivity.
    + right. split; [reflexivity|]. replace ((0 <=? n) && (n <=? 32)) with false by lia. reflexivity.
Qed.

Lemma num_view v :
  (exists n, get_usize v = Ok n /\
     num_param 1 32 v = if (1 <=? n) && (n <=? 32) then Some n else None) \/
  (get_usize v = Err /\ num_param 1 32 v = None).
Proof.
  destruct v as [|n|s|x|]; cbn [get_usize num_param]; auto.
  - left. exists 3. split; reflexivity.
  - unfold USIZE_MAX. destruct (n <=? 18446744073709551615) eqn:E.
    + left. exists n. split; reflexivity.
    + right. split; [reflexivity|]. replace ((1 <=? n) && (n <=? 32)) with false by lia. reflexivity.
Qed.

Lemma bool_view v :
  (exists x, get_bool v = Ok x /\ bool_param v = Some x) \/ (get_bool v = Err /\ bool_param v = None).
Proof. destruct v; cbn [get_bool bool_param]; eauto. Qed.

Lemma pad_view v :
  (exists x, get_pad v = Ok x /\ pad_param v = Some x) \/ (get_pad v = Err /\ pad_param v = None).
Proof.
  destruct v as [|n|s|x|]; cbn [get_pad pad_param]; eauto.
  change (text (us_chars s)) with (us_bytes s).
  destruct (bytes_eqb (us_bytes s) (b "left")); eauto.
  destruct (bytes_eqb (us_bytes s) (b "right")); eauto.
Qed.

(** delimiter of 0006 (no default) *)
Lemma delim_view6 v :
  (exists d, get_delim v None = Ok d /\
     delim_param None v = match us_chars d with [] => None | _ => Some d end) \/
  (get_delim v None = Err /\ delim_param None v = None).
Proof. destruct v; cbn [get_delim delim_param]; eauto. Qed.

(** delimiter of 0007: the serde default of the code (layout.rs:190, 814-816) is the
    documents' default ":" *)
Lemma delim_view7 v : jv_wf v = true ->
  (exists d, get_delim v (Some default_delimiter) = Ok d /\ ustr_wf d = true /\
     delim_param (Some colon) v = match us_chars d with [] => None | _ => Some d end) \/
  (get_delim v (Some default_delimiter) = Err /\ delim_param (Some colon) v = None).
Proof.
  destruct v as [|n|s|x|]; cbn [get_delim delim_param jv_wf]; intros W.
  - left. exists default_delimiter. repeat split; reflexivity.
  - right. split; reflexivity.
  - left. exists s. split; [reflexivity|]. split; [exact W|reflexivity].
  - right. split; reflexivity.
  - right. split; reflexivity.
Qed.

Lemma validate_bad_name dbg c : ext_eqb (c_name c) (c_ext c) = false -> validate dbg c = Err.
Proof. intros H. unfold validate. now rewrite H. Qed.

Lemma wf_delim_empty_iff d : ustr_wf d = true -> (us_bytes d = [] <-> us_chars d = []).
Proof.
  intros W. split; [|intros E; unfold us_bytes; now rewrite E].
  unfold us_bytes, ustr_wf in *. destruct (us_chars d) as [|u l]; [reflexivity|].
  cbn [forallb] in W. apply andb_true_iff in W as [W _].
  unfold wf_char in W. cbn [List.map List.concat]. destruct (u_orig u); [discriminate|discriminate].
Qed.

(** * the tuple rules of 0003/0004 *)
Lemma same_params_hashed e n1 n2 a ts nt sh d1 d2 p1 p2 r1 r2 : e = E0003 \/ e = E0004 ->
  same_params (mkCfg e n1 a ts nt sh d1 p1 r1) (mkCfg e n2 a ts nt sh d2 p2 r2) = true.
Proof.
  intros [-> | ->]; unfold same_params; cbn [c_ext c_alg c_ts c_nt c_short ext_eqb andb];
    rewrite alg_eqb_refl, !N.eqb_refl; cbn [andb]; try apply Bool.eqb_reflx; reflexivity.
Qed.

(** validate() of 0003/0004 against the documents' rules, for ALL numbers: bounds (fix
    d1aca14), zero coupling, product within the digest, and for 0004 the shortObjectRoot
    rule (fix a91c61b).  No hypothesis on the numbers: above 32 the first test of
    validate_tuple_config refuses, so the product is never computed for large factors. *)
Lemma validate_hashed dbg e a ts nt sh d1 d2 : e = E0003 \/ e = E0004 ->
  (e = E0003 -> sh = false) ->
  new_agrees (validate dbg (mkCfg e e a ts nt sh d1 true false))
             (if (ts <=? 32) && (nt <=? 32) && tuple_rules a ts nt sh
              then Some (mkCfg e e a ts nt sh d2 true false) else None).
Proof.
  intros He H3. unfold validate, tuple_rules. cbn [c_name c_ext c_ts c_nt c_alg c_short].
  rewrite ext_eqb_refl. cbn [negb]. rewrite hex_chars_is_hexlen.
  unfold validate_tuple_config. rewrite max_tuple_config.
  destruct (ts <=? 32) eqn:B1; cbn [andb].
  2:{ replace ((32 <? ts) || (32 <? nt)) with true by lia. cbn [negb]. destruct He as [-> | ->]; exact I. }
  destruct (nt <=? 32) eqn:B2; cbn [andb].
  2:{ replace ((32 <? ts) || (32 <? nt)) with true by lia. cbn [negb]. destruct He as [-> | ->]; exact I. }
  replace ((32 <? ts) || (32 <? nt)) with false by lia.
  assert (Hh : 32 <= alg_hexlen a) by (destruct a; cbn; lia).
  unfold validate_digest_algorithm. rewrite !usize_mul_small by lia. cbn [res_bind].
  destruct (((ts =? 0) || (nt =? 0)) && (negb (ts =? 0) || negb (nt =? 0))) eqn:E1; cbn [negb].
  { replace (Bool.eqb (ts =? 0) (nt =? 0)) with false by (destruct (ts =? 0), (nt =? 0); cbn in *; congruence).
    cbn [andb]. destruct He as [-> | ->]; exact I. }
  replace (Bool.eqb (ts =? 0) (nt =? 0)) with true by (destruct (ts =? 0), (nt =? 0); cbn in *; congruence).
  cbn [andb].
  destruct (alg_hexlen a <? ts * nt) eqn:E3; cbn [res_bind].
  { replace (ts * nt <=? alg_hexlen a) with false by lia. cbn [andb]. destruct He as [-> | ->]; exact I. }
  replace (ts * nt <=? alg_hexlen a) with true by lia. cbn [andb].
  destruct He as [-> | ->].
  - rewrite (H3 eq_refl). cbn [andb negb new_agrees]. apply same_params_hashed. now left.
  - destruct sh; cbn [andb negb].
    + replace (alg_hexlen a =? ts * nt) with (ts * nt =? alg_hexlen a) by lia.
      destruct (ts * nt =? alg_hexlen a); cbn [negb new_agrees]; [exact I|]. apply same_params_hashed. now right.
    + cbn [new_agrees]. apply same_params_hashed. now right.
Qed.

(** * the five extensions, object form *)
Ltac use_alg o := let a := fresh "a" in let H1 := fresh "Ha" in let H2 := fresh "Ha'" in
  destruct (alg_view (r_alg o)) as [(a & H1 & H2) | [H1 H2]]; rewrite H1, ?H2; cbn [res_bind opt_bind]; [|try exact I].
Ltac use_bool v := let x := fresh "x" in let H1 := fresh "Hb" in let H2 := fresh "Hb'" in
  destruct (bool_view v) as [(x & H1 & H2) | [H1 H2]]; rewrite H1, ?H2; cbn [res_bind opt_bind]; [|try exact I].

Lemma new_obj_0002 dbg o : new_agrees (new dbg E0002 (RawObj o)) (parse E0002 (RawObj o)).
Proof.
  unfold new, parse, Layout.parse_obj, LayoutSpec.parse_obj.
  destruct (name_view E0002 (r_ext o)) as [[Hn Hg] | [Hn [Hg | (e' & Hg & He')]]]; rewrite Hn, Hg; cbn [negb res_bind].
  - reflexivity.
  - exact I.
  - rewrite validate_bad_name by exact He'. exact I.
Qed.

Ltac use_num0 v n := let H1 := fresh "Hn" in let H2 := fresh "Hn'" in
  destruct (num_view0 v) as [(n & H1 & H2) | [H1 H2]]; rewrite H1, ?H2; cbn [res_bind opt_bind].

Lemma new_obj_0004 dbg o : new_agrees (new dbg E0004 (RawObj o)) (parse E0004 (RawObj o)).
Proof.
  unfold new, parse, Layout.parse_obj, LayoutSpec.parse_obj.
  destruct (name_view E0004 (r_ext o)) as [[Hn Hg] | [Hn [Hg | (e' & Hg & He')]]]; rewrite Hn, Hg; cbn [negb res_bind].
  - use_alg o.
    use_num0 (r_ts o) ts; [|exact I].
    use_num0 (r_nt o) nt; [|destruct (ts <=? 32); exact I].
    use_bool (r_short o); [|destruct (ts <=? 32); [|exact I]; cbn [opt_bind]; destruct (nt <=? 32); exact I].
    pose proof (validate_hashed dbg E0004 a ts nt x no_delim filler (or_intror eq_refl)) as V.
    destruct (ts <=? 32); cbn [opt_bind andb] in *; [|apply V; discriminate].
    destruct (nt <=? 32); cbn [opt_bind andb] in *; apply V; discriminate.
  - exact I.
  - use_alg o.
    use_num0 (r_ts o) ts; [|exact I].
    use_num0 (r_nt o) nt; [|exact I].
    use_bool (r_short o). rewrite validate_bad_name by exact He'. exact I.
Qed.

Lemma new_obj_0003 dbg o : new_agrees (new dbg E0003 (RawObj o)) (parse E0003 (RawObj o)).
Proof.
  unfold new, parse, Layout.parse_obj, LayoutSpec.parse_obj.
  destruct (name_view E0003 (r_ext o)) as [[Hn Hg] | [Hn [Hg | (e' & Hg & He')]]]; rewrite Hn, Hg; cbn [negb res_bind].
  - use_alg o.
    use_num0 (r_ts o) ts; [|exact I].
    use_num0 (r_nt o) nt; [|destruct (ts <=? 32); exact I].
    pose proof (validate_hashed dbg E0003 a ts nt false no_delim filler (or_introl eq_refl) (fun _ => eq_refl)) as V.
    destruct (ts <=? 32); cbn [opt_bind andb] in *; [|exact V].
    destruct (nt <=? 32); cbn [opt_bind andb] in *; exact V.
  - exact I.
  - use_alg o.
    use_num0 (r_ts o) ts; [|exact I].
    use_num0 (r_nt o) nt; [|exact I].
    rewrite validate_bad_name by exact He'. exact I.
Qed.

Lemma raw_wf_delim o : raw_wf (RawObj o) = true -> jv_wf (r_delim o) = true.
Proof.
  cbn [raw_wf]. intros H. repeat (apply andb_true_iff in H as [H ?]). assumption.
Qed.

Lemma new_obj_0006 dbg o : raw_wf (RawObj o) = true -> cfg_determined E0006 (RawObj o) = true ->
  new_agrees (new dbg E0006 (RawObj o)) (parse E0006 (RawObj o)).
Proof.
  intros W D. apply raw_wf_delim in W. cbn [cfg_determined] in D. apply negb_true_iff in D.
  unfold new, parse, Layout.parse_obj, LayoutSpec.parse_obj.
  rewrite (get_ext_present E0006) by exact D.
  destruct (name_view E0006 (r_ext o)) as [[Hn Hg] | [Hn [Hg | (e' & Hg & He')]]]; rewrite Hn, Hg; cbn [negb res_bind].
  - destruct (r_delim o) as [|n|s|x|]; cbn [get_delim delim_param res_bind opt_bind]; try exact I.
    cbn [jv_wf] in W. pose proof (wf_delim_empty_iff s W) as [I1 I2].
    unfold validate. cbn [c_name c_ext c_delim ext_eqb negb].
    destruct (us_chars s) as [|u l] eqn:EC.
    + rewrite I2 by reflexivity. exact I.
    + destruct (us_bytes s) eqn:EB; [specialize (I1 eq_refl); discriminate|].
      cbn [opt_bind new_agrees]. unfold same_params. cbn [c_ext c_delim ext_eqb andb]. apply ustr_eqb_refl.
  - exact I.
  - destruct (r_delim o) as [|n|s|x|]; cbn [get_delim res_bind]; try exact I.
    rewrite validate_bad_name by exact He'. exact I.
Qed.

Lemma validate_0007 dbg ts nt s p rv : us_bytes s <> [] ->
  new_agrees (validate dbg (mkCfg E0007 E0007 Sha256 ts nt false s p rv))
    (if (1 <=? ts) && (ts <=? 32) then
       if (1 <=? nt) && (nt <=? 32) then Some (mkCfg E0007 E0007 Sha256 ts nt false s p rv) else None
     else None).
Proof.
  intros NE. unfold validate. cbn [c_name c_ext c_delim c_ts c_nt ext_eqb negb].
  destruct (us_bytes s) eqn:EB; [congruence|].
  destruct ((1 <=? ts) && (ts <=? 32)) eqn:E1.
  - replace ((ts <? 1) || (32 <? ts)) with false by lia.
    destruct ((1 <=? nt) && (nt <=? 32)) eqn:E2.
    + replace ((nt <? 1) || (32 <? nt)) with false by lia. cbn [new_agrees].
      unfold same_params. cbn [c_ext c_delim c_ts c_nt c_padleft c_rev ext_eqb andb].
      now rewrite ustr_eqb_refl, !N.eqb_refl, !Bool.eqb_reflx.
    + replace ((nt <? 1) || (32 <? nt)) with true by lia. exact I.
  - replace ((ts <? 1) || (32 <? ts)) with true by lia. exact I.
Qed.

Lemma new_obj_0007 dbg o : raw_wf (RawObj o) = true -> cfg_determined E0007 (RawObj o) = true ->
  new_agrees (new dbg E0007 (RawObj o)) (parse E0007 (RawObj o)).
Proof.
  intros W D. apply raw_wf_delim in W. cbn [cfg_determined] in D. apply negb_true_iff in D.
  unfold new, parse, Layout.parse_obj, LayoutSpec.parse_obj.
  rewrite (get_ext_present E0007) by exact D.
  destruct (name_view E0007 (r_ext o)) as [[Hn Hg] | [Hn [Hg | (e' & Hg & He')]]]; rewrite Hn, Hg; cbn [negb res_bind].
  - destruct (delim_view7 _ W) as [(s & Hd & Ws & Hd') | [Hd Hd']]; rewrite Hd, Hd'; cbn [res_bind opt_bind]; [|exact I].
    pose proof (wf_delim_empty_iff s Ws) as [I1 I2].
    destruct (num_view (r_ts o)) as [(ts & Ht & Ht') | [Ht Ht']]; rewrite Ht, Ht'; cbn [res_bind opt_bind].
    2:{ destruct (us_chars s); exact I. }
    destruct (num_view (r_nt o)) as [(nt & Hq & Hq') | [Hq Hq']]; rewrite Hq, Hq'; cbn [res_bind opt_bind].
    2:{ destruct (us_chars s); [exact I|]. cbn [opt_bind]. destruct ((1 <=? ts) && (ts <=? 32)); exact I. }
    destruct (pad_view (r_pad o)) as [(p & Hp & Hp') | [Hp Hp']]; rewrite Hp, Hp'; cbn [res_bind opt_bind].
    2:{ destruct (us_chars s); [exact I|]. cbn [opt_bind]. destruct ((1 <=? ts) && (ts <=? 32)); [|exact I].
        cbn [opt_bind]. destruct ((1 <=? nt) && (nt <=? 32)); exact I. }
    destruct (bool_view (r_rev o)) as [(rv & Hr & Hr') | [Hr Hr']]; rewrite Hr, Hr'; cbn [res_bind opt_bind].
    2:{ destruct (us_chars s); [exact I|]. cbn [opt_bind]. destruct ((1 <=? ts) && (ts <=? 32)); [|exact I].
        cbn [opt_bind]. destruct ((1 <=? nt) && (nt <=? 32)); exact I. }
    destruct (us_chars s) as [|u l] eqn:EC.
    + unfold validate. cbn [c_name c_ext c_delim ext_eqb negb]. rewrite I2 by reflexivity. exact I.
    + cbn [opt_bind].
      assert (NE : us_bytes s <> []) by (intros E; specialize (I1 E); discriminate).
      pose proof (validate_0007 dbg ts nt s p rv NE) as V.
      destruct ((1 <=? ts) && (ts <=? 32)); cbn [opt_bind]; [|exact V].
      destruct ((1 <=? nt) && (nt <=? 32)); cbn [opt_bind]; exact V.
  - exact I.
  - destruct (get_delim (r_delim o) (Some default_delimiter)) as [s| |] eqn:EG; cbn [res_bind]; try exact I.
    2:{ destruct (r_delim o); discriminate EG. }
    destruct (num_view (r_ts o)) as [(ts & Ht & Ht') | [Ht Ht']]; rewrite Ht; cbn [res_bind]; [|exact I].
    destruct (num_view (r_nt o)) as [(nt & Hq & Hq') | [Hq Hq']]; rewrite Hq; cbn [res_bind]; [|exact I].
    destruct (pad_view (r_pad o)) as [(p & Hp & Hp') | [Hp Hp']]; rewrite Hp; cbn [res_bind]; [|exact I].
    destruct (bool_view (r_rev o)) as [(rv & Hr & Hr') | [Hr Hr']]; rewrite Hr; cbn [res_bind]; [|exact I].
    rewrite validate_bad_name by exact He'. exact I.
Qed.

(** * StorageLayout::new against the documents *)
Theorem new_correct dbg e r :
  raw_wf r = true -> cfg_determined e r = true ->
  new_agrees (new dbg e r) (parse e r).
Proof.
  intros W D. destruct r as [|o|l|].
  - destruct e; try (vm_compute; reflexivity); exact I.
  - destruct e.
    + apply new_obj_0002.
    + apply new_obj_0003.
    + apply new_obj_0004.
    + now apply new_obj_0006.
    + now apply new_obj_0007.
  - exact I.
  - exact I.
Qed.

Lemma new_accepts_iff_allowed dbg e r :
  raw_wf r = true -> cfg_determined e r = true ->
  (exists c, new dbg e r = Ok c) <-> allowed e r = true.
Proof.
  intros W D. pose proof (new_correct dbg e r W D) as H. unfold allowed, new_agrees in *.
  destruct (new dbg e r) as [c| |], (parse e r) as [sc|]; try contradiction.
  - split; [reflexivity|eauto].
  - split; [intros [c Hc]; discriminate|discriminate].
Qed.

Lemma new_never_panics dbg e r :
  raw_wf r = true -> cfg_determined e r = true -> new dbg e r <> Panic.
Proof.
  intros W D. pose proof (new_correct dbg e r W D) as H. unfold new_agrees in H.
  destruct (new dbg e r); [discriminate|discriminate|]. destruct (parse e r); contradiction.
Qed.

(** * what an accepted configuration satisfies (links new to the mapping theorems) *)
Lemma validate_same dbg c c' : validate dbg c = Ok c' -> c' = c.
Proof.
  unfold validate, validate_digest_algorithm, usize_mul.
  repeat match goal with
  | |- context [if ?x then _ else _] => destruct x
  | |- context [match c_ext c with _ => _ end] => destruct (c_ext c)
  | |- context [match us_bytes ?d with _ => _ end] => destruct (us_bytes d)
  | |- _ => progress cbn [res_bind]
  end; intros H; try discriminate; now injection H.
Qed.

Lemma parse_obj_ext e o c : Layout.parse_obj e o = Ok c -> c_ext c = e.
Proof.
  unfold Layout.parse_obj. destruct e;
  repeat match goal with
  | |- context [res_bind ?x _] => destruct x; cbn [res_bind]; try discriminate
  end; intros H; injection H as <-; reflexivity.
Qed.

Lemma new_ok_cfg_ok e r c : new true e r = Ok c -> cfg_ok c = true /\ c_ext c = e.
Proof.
  unfold new. destruct r as [|o|l|]; try discriminate.
  - destruct e; try discriminate; intros H; injection H as <-; split; reflexivity.
  - destruct (Layout.parse_obj e o) as [c0| |] eqn:P; cbn [res_bind]; try discriminate.
    intros V. pose proof (validate_same _ _ _ V) as ->. split; [unfold cfg_ok; now rewrite V|].
    now apply parse_obj_ext in P.
Qed.

(** * for EVERY form of the configuration (object, array, none, not JSON) *)
(** the usize product can no longer overflow (fix d1aca14): debug and release builds agree *)
Lemma validate_dbg_irrelevant c : validate false c = validate true c.
Proof.
  unfold validate. destruct (negb (ext_eqb (c_name c) (c_ext c))); [reflexivity|].
  destruct (c_ext c); try reflexivity;
    (destruct (validate_tuple_config (c_ts c) (c_nt c)) eqn:V; [|reflexivity]);
    destruct (validate_tuple_config_inv _ _ V) as (L1 & L2 & _);
    unfold validate_digest_algorithm; now rewrite !usize_mul_small by assumption.
Qed.

Lemma new_dbg_irrelevant e r : new false e r = new true e r.
Proof.
  unfold new. destruct r as [|o|l|]; try reflexivity.
  - destruct (Layout.parse_obj e o); cbn [res_bind]; try reflexivity. apply validate_dbg_irrelevant.
Qed.

Lemma new_total dbg e r : new dbg e r <> Panic.
Proof.
  assert (G : new true e r <> Panic).
  { assert (V : forall c, validate true c <> Panic).
    { intros c. unfold validate. destruct (negb (ext_eqb (c_name c) (c_ext c))); [discriminate|].
      destruct (c_ext c); try discriminate.
      - destruct (validate_tuple_config (c_ts c) (c_nt c)) eqn:V; [|discriminate].
        destruct (validate_tuple_config_inv _ _ V) as (L1 & L2 & _).
        unfold validate_digest_algorithm. rewrite !usize_mul_small by assumption. cbn [negb res_bind].
        destruct (alg_hexlen (c_alg c) <? c_ts c * c_nt c); discriminate.
      - destruct (validate_tuple_config (c_ts c) (c_nt c)) eqn:V; [|discriminate].
        destruct (validate_tuple_config_inv _ _ V) as (L1 & L2 & _).
        unfold validate_digest_algorithm. rewrite !usize_mul_small by assumption. cbn [negb res_bind].
        destruct (alg_hexlen (c_alg c) <? c_ts c * c_nt c); cbn [res_bind]; [discriminate|].
        destruct (c_short c); [|discriminate].
        destruct (alg_hexlen (c_alg c) =? c_ts c * c_nt c); discriminate.
      - destruct (us_bytes (c_delim c)); discriminate.
      - destruct (us_bytes (c_delim c)); [discriminate|].
        destruct ((c_ts c <? 1) || (32 <? c_ts c)); [discriminate|].
        destruct ((c_nt c <? 1) || (32 <? c_nt c)); discriminate. }
    assert (P : forall o, Layout.parse_obj e o <> Panic).
    { intros o. unfold Layout.parse_obj. destruct e;
      repeat match goal with
      | |- context [res_bind ?x _] =>
          let E := fresh "E" in destruct x eqn:E; cbn [res_bind]; try discriminate;
          try (exfalso; revert E; clear;
               match goal with |- ?f ?v = Panic -> False => destruct v; cbn; repeat match goal with |- context [match ?y with _ => _ end] => destruct y end; discriminate
                          | |- ?f ?v ?w = Panic -> False => destruct v; cbn; repeat match goal with |- context [match ?y with _ => _ end] => destruct y end; discriminate end)
      end; discriminate. }
    unfold new. destruct r as [|o|l|]; try discriminate.
    - destruct e; discriminate.
    - destruct (Layout.parse_obj e o) eqn:E; cbn [res_bind]; [apply V|discriminate|now apply P in E]. }
  destruct dbg; [exact G|]. now rewrite new_dbg_irrelevant.
Qed.

(** whatever the form of the configuration, an accepted 0003/0004 configuration obeys
    the documents' rules on the numbers (bounds, zero coupling, product, shortObjectRoot) *)
Lemma accepted_hashed_rules dbg e r c : e = E0003 \/ e = E0004 -> new dbg e r = Ok c ->
  c_ts c <= 32 /\ c_nt c <= 32 /\
  tuple_rules (c_alg c) (c_ts c) (c_nt c) (match e with E0004 => c_short c | _ => false end) = true.
Proof.
  intros He H. assert (H' : new true e r = Ok c) by (destruct dbg; [exact H|now rewrite <- new_dbg_irrelevant]).
  destruct (new_ok_cfg_ok e r c H') as [Hok Hc].
  assert (He' : c_ext c = E0003 \/ c_ext c = E0004) by (rewrite Hc; exact He).
  destruct (cfg_ok_hashed_full c He' Hok) as (L1 & L2 & Z & P & S).
  split; [exact L1|]. split; [exact L2|].
  unfold tuple_rules. rewrite hex_chars_is_hexlen.
  replace (Bool.eqb (c_ts c =? 0) (c_nt c =? 0)) with true
    by (destruct (c_ts c =? 0) eqn:A, (c_nt c =? 0) eqn:B; cbn; try reflexivity; exfalso; lia).
  replace (c_ts c * c_nt c <=? alg_hexlen (c_alg c)) with true by lia. cbn [andb].
  destruct He as [-> | ->]; [reflexivity|].
  destruct (c_short c) eqn:SH; [|reflexivity]. cbn [andb].
  rewrite Hc in S. specialize (S eq_refl eq_refl).
  replace (c_ts c * c_nt c =? alg_hexlen (c_alg c)) with false by lia. reflexivity.
Qed.
