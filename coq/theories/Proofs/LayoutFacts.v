(** Lemmas about the storage layout model (Model/Layout.v): byte strings, Rust str
    slicing on ASCII data, lower_percent_escape, to_tuples, and the path joining of the
    specification (Model/LayoutSpec.v). *)
From Rocfl Require Import Base.Bytes Generated.Consts Model.Layout Model.LayoutSpec Proofs.BytesFacts.
From Coq Require Import ZArith Lia ZifyBool ZifyN ZifyNat.
Ltac Zify.zify_post_hook ::= Z.div_mod_to_equations.
Open Scope N_scope.
Arguments N.add : simpl never.
Arguments N.mul : simpl never.
Arguments N.sub : simpl never.
Arguments N.div : simpl never.
Arguments N.modulo : simpl never.
Arguments N.pow : simpl never.
Arguments N.ltb : simpl never.
Arguments N.leb : simpl never.
Arguments N.eqb : simpl never.

(** * every statement about one byte can be decided by enumeration *)
Definition all_bytes : list ascii := List.map ascii_of_nat (seq 0 256).
Lemma ascii_forall (f : ascii -> bool) : forallb f all_bytes = true -> forall c, f c = true.
Proof.
  intros H c. rewrite forallb_forall in H. apply H.
  unfold all_bytes. rewrite <- (ascii_nat_embedding c). apply in_map. apply in_seq.
  pose proof (nat_ascii_bounded c). lia.
Qed.

(** * lengths *)
Lemma blen_nil : blen [] = 0. Proof. reflexivity. Qed.
Lemma blen_cons c (s : bytes) : blen (c :: s) = blen s + 1.
Proof. unfold blen. cbn [List.length]. lia. Qed.
Lemma blen_app (x y : bytes) : blen (x ++ y) = blen x + blen y.
Proof. unfold blen. rewrite app_length. lia. Qed.
Lemma blen_to_nat (s : bytes) : N.to_nat (blen s) = List.length s.
Proof. unfold blen. lia. Qed.

Lemma bytes_eqb_sym x y : bytes_eqb x y = bytes_eqb y x.
Proof.
  destruct (bytes_eqb x y) eqn:E.
  - apply bytes_eqb_eq in E. subst. now rewrite bytes_eqb_refl.
  - destruct (bytes_eqb y x) eqn:E2; [|reflexivity].
    apply bytes_eqb_eq in E2. subst. now rewrite bytes_eqb_refl in E.
Qed.
Lemma bytes_eqb_neq x y : bytes_eqb x y = false <-> x <> y.
Proof.
  split.
  - intros E ->. now rewrite bytes_eqb_refl in E.
  - intros N. destruct (bytes_eqb x y) eqn:E; [|reflexivity]. apply bytes_eqb_eq in E. contradiction.
Qed.

(** * starts_with *)
Lemma starts_with_nil_r p : starts_with p [] = match p with [] => true | _ => false end.
Proof. destruct p; reflexivity. Qed.

Lemma starts_with_app_len (a a' x y : bytes) : List.length a = List.length a' ->
  starts_with (a ++ x) (a' ++ y) = bytes_eqb a a' && starts_with x y.
Proof.
  revert a'. induction a as [|c a IH]; intros [|d a'] L; cbn in L; try discriminate.
  - reflexivity.
  - cbn [app starts_with bytes_eqb]. rewrite IH by lia. now rewrite andb_assoc.
Qed.

(** * ASCII strings: every index is a char boundary *)
Lemma is_ascii_app x y : is_ascii (x ++ y) = is_ascii x && is_ascii y.
Proof. unfold is_ascii. apply forallb_app. Qed.
Lemma is_ascii_byte_not_cont c : is_ascii_byte c = true -> is_cont c = false.
Proof. unfold is_ascii_byte, is_cont. lia. Qed.

Lemma char_boundary_ascii s i : is_ascii s = true -> i <= blen s -> char_boundary s i = true.
Proof.
  intros A L. unfold char_boundary.
  destruct (i =? 0) eqn:E0; [reflexivity|].
  destruct (blen s <? i) eqn:E1; [lia|].
  destruct (i =? blen s) eqn:E2; [reflexivity|].
  destruct (nth_error s (N.to_nat i)) as [c|] eqn:E3.
  - apply nth_error_In in E3. unfold is_ascii in A. rewrite forallb_forall in A.
    now rewrite is_ascii_byte_not_cont by (apply A; exact E3).
  - apply nth_error_None in E3. unfold blen in *. lia.
Qed.

Lemma str_slice_ascii s a z : is_ascii s = true -> a <= z -> z <= blen s ->
  str_slice s a z = Ok (firstn (N.to_nat (z - a)) (skipn (N.to_nat a) s)).
Proof.
  intros A L1 L2. unfold str_slice.
  rewrite !char_boundary_ascii by (assumption || lia).
  replace (a <=? z) with true by lia. reflexivity.
Qed.
Lemma str_from_ascii s a : is_ascii s = true -> a <= blen s ->
  str_from s a = Ok (skipn (N.to_nat a) s).
Proof.
  intros A L. unfold str_from. rewrite str_slice_ascii by (assumption || lia).
  f_equal. apply firstn_all2. rewrite skipn_length. unfold blen in *. lia.
Qed.
Lemma str_to_ascii s z : is_ascii s = true -> z <= blen s ->
  str_to s z = Ok (firstn (N.to_nat z) s).
Proof.
  intros A L. unfold str_to. rewrite str_slice_ascii by (assumption || lia).
  now rewrite N.sub_0_r.
Qed.

(** * lower_percent_escape *)
(** a percent-encoded text is a sequence of literal bytes (not '%') and escapes
    '%' x y with two arbitrary bytes *)
Inductive tok := Lit (c : ascii) | Esc (x y : ascii).
Definition render_tok (t : tok) : bytes :=
  match t with Lit c => [c] | Esc x y => ["%"%char; x; y] end.
Definition render (ts : list tok) : bytes := flat_map render_tok ts.
Definition lower_tok (t : tok) : tok :=
  match t with Lit c => Lit c | Esc x y => Esc (to_ascii_lower x) (to_ascii_lower y) end.
Definition lit_ok (t : tok) : bool :=
  match t with Lit c => negb (Ascii.eqb c "%"%char) | Esc _ _ => true end.

Lemma lpe_is_loop0 s : lower_percent_escape s = lpe_loop 0 s.
Proof.
  induction s as [|c s IH]; [reflexivity|].
  cbn [lower_percent_escape lpe_loop]. replace (0 <? 0) with false by lia.
  destruct (Ascii.eqb c "%"%char); [reflexivity|]. now rewrite IH.
Qed.

Lemma lpe_loop_tokens ts : forallb lit_ok ts = true ->
  lpe_loop 0 (render ts) = render (List.map lower_tok ts).
Proof.
  induction ts as [|t ts IH]; intros H; [reflexivity|].
  cbn [forallb] in H. apply andb_true_iff in H as [H1 H2].
  unfold render in *. cbn [flat_map List.map]. destruct t as [c|x y]; cbn [render_tok lower_tok app].
  - cbn [lpe_loop]. replace (0 <? 0) with false by lia.
    cbn [lit_ok] in H1. apply negb_true_iff in H1. rewrite H1. now rewrite IH.
  - cbn [lpe_loop]. replace (0 <? 0) with false by lia.
    rewrite Ascii.eqb_refl.
    replace (0 <? 2) with true by lia. replace (2 - 1) with 1 by lia.
    replace (0 <? 1) with true by lia. replace (1 - 1) with 0 by lia.
    now rewrite IH.
Qed.

(** lower_percent_escape lowers exactly the two bytes after each '%' that starts an
    escape and nothing else *)
Lemma lower_percent_escape_tokens ts : forallb lit_ok ts = true ->
  lower_percent_escape (render ts) = render (List.map lower_tok ts).
Proof. intros H. rewrite lpe_is_loop0. now apply lpe_loop_tokens. Qed.

(** the encoder's output as tokens *)
Definition pct_tok_upper (c : ascii) : tok :=
  if pct_keep c then Lit c else Esc (hex_upper (code c / 16)) (hex_upper (code c mod 16)).
Definition pct_byte_lower (c : ascii) : bytes :=
  if pct_keep c then [c] else ["%"%char; hex_lower (code c / 16); hex_lower (code c mod 16)].
Definition percent_encode_lower (s : bytes) : bytes := flat_map pct_byte_lower s.

Lemma percent_encode_upper_render s : percent_encode_upper s = render (List.map pct_tok_upper s).
Proof.
  unfold percent_encode_upper, render. induction s as [|c s IH]; [reflexivity|].
  cbn [flat_map List.map]. rewrite IH. f_equal.
  unfold pct_byte_upper, pct_tok_upper. destruct (pct_keep c); reflexivity.
Qed.

Lemma pct_tok_upper_ok c : lit_ok (pct_tok_upper c) = true.
Proof.
  revert c. apply ascii_forall. vm_compute. reflexivity.
Qed.

Lemma pct_tok_lower c : render_tok (lower_tok (pct_tok_upper c)) = pct_byte_lower c.
Proof.
  apply bytes_eqb_eq. revert c. apply ascii_forall. vm_compute. reflexivity.
Qed.

Lemma lower_percent_escape_encode s :
  lower_percent_escape (percent_encode_upper s) = percent_encode_lower s.
Proof.
  rewrite percent_encode_upper_render, lower_percent_escape_tokens.
  - unfold render, percent_encode_lower. induction s as [|c s IH]; [reflexivity|].
    cbn [List.map flat_map]. now rewrite IH, pct_tok_lower.
  - rewrite forallb_forall. intros t Ht. apply in_map_iff in Ht as [c [<- _]]. apply pct_tok_upper_ok.
Qed.

(** * to_tuples and the specification's tuples / join *)
Definition slashed (segs : list bytes) : bytes := List.concat (List.map (fun t => t ++ ["/"%char]) segs).

Lemma join_cons s r : r <> [] -> join (s :: r) = s ++ "/"%char :: join r.
Proof. destruct r; [congruence|reflexivity]. Qed.

Lemma join_snoc segs last : join (segs ++ [last]) = slashed segs ++ last.
Proof.
  induction segs as [|s segs IH]; [reflexivity|].
  cbn [app]. rewrite join_cons by (destruct segs; discriminate).
  rewrite IH. unfold slashed. cbn [List.map List.concat]. rewrite <- !app_assoc. reflexivity.
Qed.

Lemma skipn_skipn {A} (a c : nat) (l : list A) : skipn a (skipn c l) = skipn (c + a) l.
Proof.
  revert l. induction c as [|c IH]; intros l; [reflexivity|].
  destruct l; [now rewrite !skipn_nil|]. cbn [skipn Nat.add]. apply IH.
Qed.

Lemma to_tuples_loop_ascii v size : is_ascii v = true -> forall n i,
  (i + N.of_nat n) * size <= blen v ->
  to_tuples_loop v size n i = Ok (slashed (tuples n (N.to_nat size) (skipn (N.to_nat (i * size)) v))).
Proof.
  intros A. induction n as [|n IH]; intros i L; [reflexivity|].
  cbn [to_tuples_loop tuples].
  rewrite str_slice_ascii by (assumption || lia).
  cbn [res_bind]. rewrite IH by lia. cbn [res_bind].
  unfold slashed. cbn [List.map List.concat]. rewrite <- app_assoc. cbn [app].
  replace (i * size + size - i * size) with size by lia.
  rewrite skipn_skipn. replace (N.to_nat (i * size) + N.to_nat size)%nat with (N.to_nat ((i + 1) * size)) by lia.
  reflexivity.
Qed.

Lemma to_tuples_ascii v size n : is_ascii v = true -> n * size <= blen v ->
  to_tuples v size n = Ok (slashed (tuples (N.to_nat n) (N.to_nat size) v)).
Proof.
  intros A L. unfold to_tuples.
  replace ((0 <? size) && (blen v <? n * size)) with false by lia.
  rewrite to_tuples_loop_ascii by (assumption || lia).
  replace (N.to_nat (0 * size)) with 0%nat by lia. reflexivity.
Qed.

Lemma to_tuples_too_short v size n : 0 < size -> blen v < n * size -> to_tuples v size n = Panic.
Proof.
  intros H L. unfold to_tuples. replace ((0 <? size) && (blen v <? n * size)) with true by lia. reflexivity.
Qed.

(** every tuple has exactly [size] characters and together they are a prefix of the value *)
Lemma tuples_shape {A} n size (s : list A) : (n * size <= List.length s)%nat ->
  List.length (tuples n size s) = n /\
  Forall (fun t => List.length t = size) (tuples n size s) /\
  List.concat (tuples n size s) = firstn (n * size) s.
Proof.
  revert s. induction n as [|n IH]; intros s L; cbn [tuples].
  - repeat split; constructor.
  - assert (L2 : (n * size <= List.length (skipn size s))%nat) by (rewrite skipn_length; lia).
    destruct (IH _ L2) as (H1 & H2 & H3). repeat split.
    + cbn [List.length]. now rewrite H1.
    + constructor; [|exact H2]. rewrite firstn_length. lia.
    + cbn [List.concat]. rewrite H3.
      replace (S n * size)%nat with (size + n * size)%nat by lia.
      rewrite <- (firstn_skipn size s) at 3.
      rewrite firstn_app, firstn_firstn, firstn_length.
      replace (Nat.min (size + n * size) size) with size by lia.
      replace (size + n * size - Nat.min size (List.length s))%nat with (n * size)%nat by lia.
      reflexivity.
Qed.
