(** The C11 statements assembled from the Layout* lemma files. *)
From Rocfl Require Import Base.Bytes Generated.Consts Model.Layout Model.LayoutSpec Model.KnownC11
  Proofs.BytesFacts Proofs.LayoutFacts Proofs.LayoutMapFacts Proofs.LayoutPrefixFacts Proofs.LayoutCaseFacts
  Proofs.LayoutOmitFacts Proofs.LayoutCfgFacts.
From Coq Require Import ZArith Lia ZifyBool ZifyN ZifyNat.
Open Scope N_scope.

Lemma inputs_ok_inv c id dg : inputs_ok c id dg = true ->
  ustr_wf id = true /\ ustr_wf (c_delim c) = true /\ digest_ok c dg = true.
Proof.
  unfold inputs_ok. intros H. apply andb_true_iff in H as [H _].
  apply andb_true_iff in H as [H H3]. apply andb_true_iff in H as [H1 H2]. auto.
Qed.

(** the conditions on the case information matter for 0006 and 0007 only *)
Lemma inputs_ok_case c id dg : inputs_ok c id dg = true -> case_info_ok c id = true.
Proof. unfold inputs_ok. intros H. now apply andb_true_iff in H as [_ H]. Qed.

(** all five extensions, every validated configuration, every id: no class is left out *)
Theorem map_is_spec c id dg :
  cfg_ok c = true -> inputs_ok c id dg = true ->
  refusal (Layout.map c id dg) = LayoutSpec.map c id dg.
Proof.
  intros Hok Hin.
  destruct (inputs_ok_inv _ _ _ Hin) as (W1 & W2 & W3).
  pose proof (inputs_ok_case _ _ _ Hin) as CI. unfold case_info_ok in CI.
  destruct (c_ext c) eqn:E.
  - now apply map_0002_correct.
  - now apply map_0003_correct.
  - now apply map_0004_correct.
  - now apply map_0006_correct.
  - now apply map_0007_correct.
Qed.

(** the same statement in the shape Proofs/FootprintLayout.v (property C12) still uses:
    [known_c11] is constantly false (Model/KnownC11.v), the third hypothesis is idle *)
Theorem map_correct c id dg :
  cfg_ok c = true -> inputs_ok c id dg = true -> known_c11 c id = false ->
  refusal (Layout.map c id dg) = LayoutSpec.map c id dg.
Proof. intros Hok Hin _. now apply map_is_spec. Qed.

(** an id the documents cannot map is never mapped to some path *)
Lemma unmappable_refused c id dg :
  cfg_ok c = true -> inputs_ok c id dg = true ->
  LayoutSpec.map c id dg = Err -> forall p, Layout.map c id dg <> Ok p.
Proof.
  intros Hok Hin HE p HP. pose proof (map_is_spec c id dg Hok Hin) as M.
  rewrite HP, HE in M. discriminate.
Qed.

(** and an id the documents map is mapped, to that path *)
Lemma mappable_mapped c id dg p :
  cfg_ok c = true -> inputs_ok c id dg = true ->
  LayoutSpec.map c id dg = Ok p -> Layout.map c id dg = Ok p.
Proof.
  intros Hok Hin HE. pose proof (map_is_spec c id dg Hok Hin) as M.
  rewrite HE in M. destruct (Layout.map c id dg); cbn in M; congruence.
Qed.

(** map_object_id itself has no error channel *)
Lemma map_never_err c id dg : Layout.map c id dg <> Err.
Proof.
  assert (SF : forall s a, str_from s a <> Err).
  { intros s a. unfold str_from, str_slice. destruct (_ && _); discriminate. }
  assert (TL : forall v size n i, to_tuples_loop v size n i <> Err).
  { intros v size n. induction n as [|n IH]; intros i; cbn [to_tuples_loop]; [discriminate|].
    unfold str_slice. destruct (_ && _); cbn [res_bind]; [|discriminate].
    specialize (IH (i + 1)). destruct (to_tuples_loop v size n (i + 1)); cbn [res_bind]; congruence. }
  assert (TT : forall v size n, to_tuples v size n <> Err).
  { intros v size n. unfold to_tuples. destruct (_ && _); [discriminate|apply TL]. }
  assert (S7 : forall d x, strip_prefix d x <> Err).
  { intros d x. unfold strip_prefix. destruct (rfind _ _); [|discriminate].
    destruct (_ =? _); [discriminate|apply SF]. }
  unfold Layout.map. destruct (c_ext c).
  - discriminate.
  - unfold map_0003. specialize (TT dg (c_ts c) (c_nt c)).
    destruct (to_tuples dg (c_ts c) (c_nt c)); cbn [res_bind]; try congruence.
    destruct (_ <=? _); [discriminate|]. unfold str_to, str_slice. destruct (_ && _); discriminate.
  - unfold map_0004. destruct (c_ts c =? 0); [discriminate|]. specialize (TT dg (c_ts c) (c_nt c)).
    destruct (to_tuples dg (c_ts c) (c_nt c)); cbn [res_bind]; try congruence.
    destruct (c_short c); [|discriminate]. specialize (SF dg (c_ts c * c_nt c)).
    destruct (str_from dg (c_ts c * c_nt c)); cbn [res_bind]; congruence.
  - unfold map_0006, strip_prefix_0006. destruct (find_0006 _ _) as [[i l]|]; [|discriminate].
    destruct (_ =? _); [discriminate|apply SF].
  - unfold map_0007. destruct (negb _); [discriminate|]. unfold map_0007_mapped.
    specialize (S7 (c_delim c) id). destruct (strip_prefix (c_delim c) id) as [r| |]; cbn [res_bind]; try congruence.
    match goal with |- context [to_tuples ?v ?a ?n] => specialize (TT v a n); destruct (to_tuples v a n) end;
      cbn [res_bind]; congruence.
Qed.

(** to_tuples: n tuples of exactly [size] characters that spell the first n*size
    characters of the value, each followed by '/'; a panic when the value is too short *)
Lemma to_tuples_spec v size n : is_ascii v = true -> n * size <= blen v ->
  exists segs, to_tuples v size n = Ok (slashed segs) /\
    List.length segs = N.to_nat n /\
    Forall (fun t => List.length t = N.to_nat size) segs /\
    List.concat segs = firstn (N.to_nat (n * size)) v.
Proof.
  intros A L. exists (tuples (N.to_nat n) (N.to_nat size) v).
  split; [now apply to_tuples_ascii|].
  replace (N.to_nat (n * size)) with (N.to_nat n * N.to_nat size)%nat by lia.
  apply tuples_shape. unfold blen in L. lia.
Qed.

(** 0003: the encapsulation directory is the encoded id, or its first 100 characters,
    '-' and the digest *)
Lemma truncation_0003 id dg :
  let enc := flat_map encode_char id in
  ((List.length enc <= 100)%nat -> encapsulation id dg = enc) /\
  ((100 < List.length enc)%nat ->
     encapsulation id dg = firstn 100 enc ++ "-"%char :: dg /\
     List.length (encapsulation id dg) = (101 + List.length dg)%nat).
Proof.
  cbv zeta. unfold encapsulation. set (E := flat_map encode_char id).
  destruct (Nat.ltb 100 (List.length E)) eqn:L; split; intros H; try lia; try reflexivity.
  split; [reflexivity|]. rewrite app_length, firstn_length. cbn [List.length]. lia.
Qed.

(** the code computes that directory name (for every well-formed id) *)
Lemma encapsulation_code id dg : ustr_wf id = true -> is_ascii dg = true ->
  let lower := lower_percent_escape (percent_encode_upper (us_bytes id)) in
  (if blen lower <=? K_MAX_0003_ENCAPSULATION_LENGTH then Ok lower
   else res_bind (str_to lower K_MAX_0003_ENCAPSULATION_LENGTH) (fun head => Ok (head ++ "-"%char :: dg)))
  = Ok (encapsulation (us_chars id) dg).
Proof.
  intros W A. cbv zeta. rewrite encode_id by exact W. rewrite max_0003. unfold encapsulation.
  set (E := flat_map encode_char (us_chars id)).
  destruct (blen E <=? 100) eqn:L.
  - replace (Nat.ltb 100 (List.length E)) with false by (unfold blen in L; lia). reflexivity.
  - replace (Nat.ltb 100 (List.length E)) with true by (unfold blen in L; lia).
    rewrite str_to_ascii by (try apply encoded_id_ascii; assumption || lia). reflexivity.
Qed.
