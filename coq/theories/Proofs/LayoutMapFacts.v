(** Refinement lemmas: the code model of map_object_id (Model/Layout.v) against the
    transcription of the extension documents (Model/LayoutSpec.v) for 0002, 0003, 0004,
    and the part of 0007 that follows the prefix removal. *)
From Rocfl Require Import Base.Bytes Generated.Consts Model.Layout Model.LayoutSpec
  Proofs.BytesFacts Proofs.LayoutFacts.
From Coq Require Import ZArith Lia ZifyBool ZifyN ZifyNat.
Ltac Zify.zify_post_hook ::= Z.div_mod_to_equations.
Open Scope N_scope.
Arguments N.add : simpl never.
Arguments N.mul : simpl never.
Arguments N.sub : simpl never.
Arguments N.div : simpl never.
Arguments N.modulo : simpl never.
Arguments N.pow : simpl never.
Arguments N.ltb : simpl never.
Arguments N.leb : simpl never.
Arguments N.eqb : simpl never.

(** * what validate() establishes *)
Lemma cfg_ok_name c : cfg_ok c = true -> c_name c = c_ext c.
Proof.
  unfold cfg_ok, validate. destruct (ext_eqb (c_name c) (c_ext c)) eqn:E; cbn [negb]; [|discriminate].
  intros _. destruct (c_name c), (c_ext c); try discriminate; reflexivity.
Qed.

Lemma max_tuple_config : K_MAX_TUPLE_CONFIG = 32.
Proof. reflexivity. Qed.

Lemma validate_tuple_config_inv ts nt : validate_tuple_config ts nt = true ->
  ts <= 32 /\ nt <= 32 /\ (ts = 0 <-> nt = 0).
Proof.
  unfold validate_tuple_config. rewrite max_tuple_config.
  destruct ((32 <? ts) || (32 <? nt)) eqn:E0; [discriminate|].
  destruct (((ts =? 0) || (nt =? 0)) && (negb (ts =? 0) || negb (nt =? 0))) eqn:E1; [discriminate|].
  intros _. lia.
Qed.

Lemma usize_mul_small dbg x y : x <= 32 -> y <= 32 -> usize_mul dbg x y = Ok (x * y).
Proof.
  intros Hx Hy. unfold usize_mul, USIZE_MAX. assert (x * y <= 1024) by nia.
  replace (x * y <=? 18446744073709551615) with true by lia. reflexivity.
Qed.

(** what 0003 and 0004 share: bounds, zero coupling, product within the digest *)
Lemma cfg_ok_hashed_full c : (c_ext c = E0003 \/ c_ext c = E0004) -> cfg_ok c = true ->
  c_ts c <= 32 /\ c_nt c <= 32 /\ (c_ts c = 0 <-> c_nt c = 0) /\ c_ts c * c_nt c <= alg_hexlen (c_alg c) /\
  (c_ext c = E0004 -> c_short c = true -> c_ts c * c_nt c <> alg_hexlen (c_alg c)).
Proof.
  intros He. unfold cfg_ok, validate.
  destruct (negb (ext_eqb (c_name c) (c_ext c))); [discriminate|].
  destruct (validate_tuple_config (c_ts c) (c_nt c)) eqn:V.
  2:{ destruct He as [-> | ->]; discriminate. }
  destruct (validate_tuple_config_inv _ _ V) as (L1 & L2 & Z).
  unfold validate_digest_algorithm. rewrite !usize_mul_small by assumption. cbn [negb res_bind].
  destruct (alg_hexlen (c_alg c) <? c_ts c * c_nt c) eqn:E3.
  { destruct He as [-> | ->]; discriminate. }
  cbn [res_bind].
  destruct He as [He | He]; rewrite He.
  - intros _. repeat split; try lia; try apply Z; discriminate.
  - destruct (c_short c).
    + destruct (alg_hexlen (c_alg c) =? c_ts c * c_nt c) eqn:E4; [discriminate|].
      intros _. repeat split; try lia; apply Z.
    + intros _. repeat split; try lia; try apply Z; discriminate.
Qed.

Lemma cfg_ok_hashed c : (c_ext c = E0003 \/ c_ext c = E0004) -> cfg_ok c = true ->
  (c_ts c = 0 <-> c_nt c = 0) /\ c_ts c * c_nt c <= alg_hexlen (c_alg c).
Proof.
  intros He Hok. destruct (cfg_ok_hashed_full c He Hok) as (_ & _ & Z & P & _). split; assumption.
Qed.

Lemma cfg_ok_0006 c : c_ext c = E0006 -> cfg_ok c = true -> us_bytes (c_delim c) <> [].
Proof.
  intros He. unfold cfg_ok, validate. rewrite He.
  destruct (negb (ext_eqb (c_name c) E0006)); [discriminate|].
  destruct (us_bytes (c_delim c)); [discriminate|discriminate].
Qed.

Lemma cfg_ok_0007 c : c_ext c = E0007 -> cfg_ok c = true ->
  us_bytes (c_delim c) <> [] /\ 1 <= c_ts c <= 32 /\ 1 <= c_nt c <= 32.
Proof.
  intros He. unfold cfg_ok, validate. rewrite He.
  destruct (negb (ext_eqb (c_name c) E0007)); [discriminate|].
  destruct (us_bytes (c_delim c)); [discriminate|].
  destruct ((c_ts c <? 1) || (32 <? c_ts c)) eqn:E1; [discriminate|].
  destruct ((c_nt c <? 1) || (32 <? c_nt c)) eqn:E2; [discriminate|].
  intros _. split; [discriminate|lia].
Qed.

(** * digests *)
Lemma is_hex_lower_ascii c : is_hex_lower c = true -> is_ascii_byte c = true.
Proof. unfold is_hex_lower, is_ascii_byte. lia. Qed.
Lemma digest_ok_ascii c dg : digest_ok c dg = true -> is_ascii dg = true /\ blen dg = alg_hexlen (c_alg c).
Proof.
  unfold digest_ok. intros H. apply andb_true_iff in H as [H1 H2]. split; [|lia].
  unfold is_ascii. rewrite forallb_forall in *. intros x Hx. apply is_hex_lower_ascii, H2, Hx.
Qed.

(** * 0002 *)
Lemma map_0002_correct c id dg : c_ext c = E0002 ->
  refusal (Layout.map c id dg) = LayoutSpec.map c id dg.
Proof. intros He. unfold Layout.map, LayoutSpec.map. rewrite He. reflexivity. Qed.

(** * 0004 *)
Lemma map_0004_correct c id dg : c_ext c = E0004 -> cfg_ok c = true -> digest_ok c dg = true ->
  refusal (Layout.map c id dg) = LayoutSpec.map c id dg.
Proof.
  intros He Hok Hd. unfold Layout.map, LayoutSpec.map. rewrite He.
  destruct (cfg_ok_hashed c (or_intror He) Hok) as [Hz Hp].
  destruct (digest_ok_ascii _ _ Hd) as [Ha Hl].
  unfold map_0004, spec_0004.
  destruct (c_ts c =? 0) eqn:E0.
  - assert (T : c_ts c = 0) by lia. assert (T2 : c_nt c = 0) by (apply Hz; exact T).
    rewrite T, T2. cbn [N.to_nat tuples app Nat.mul skipn join]. destruct (c_short c); reflexivity.
  - rewrite to_tuples_ascii by (assumption || lia). cbn [res_bind].
    rewrite join_snoc.
    destruct (c_short c).
    + rewrite str_from_ascii by (assumption || lia). cbn [res_bind refusal].
      rewrite N2Nat.inj_mul. reflexivity.
    + reflexivity.
Qed.

(** * 0003 *)
Definition safe_byte (c : ascii) : bool :=
  ((65 <=? code c) && (code c <=? 90)) || ((97 <=? code c) && (code c <=? 122)) ||
  ((48 <=? code c) && (code c <=? 57)) || (code c =? 45) || (code c =? 95).

Lemma pct_byte_lower_single c :
  pct_byte_lower c = if safe_byte c then [c] else pct c.
Proof. apply bytes_eqb_eq. revert c. apply ascii_forall. vm_compute. reflexivity. Qed.

Lemma pct_byte_lower_high c : 128 <=? code c = true -> pct_byte_lower c = pct c.
Proof.
  intros H.
  assert (G : (negb (128 <=? code c) || bytes_eqb (pct_byte_lower c) (pct c)) = true).
  { revert c H. intros c _. revert c. apply ascii_forall. vm_compute. reflexivity. }
  rewrite H in G. cbn [negb orb] in G. now apply bytes_eqb_eq.
Qed.

Lemma pct_byte_lower_ascii c : is_ascii (pct_byte_lower c) = true.
Proof. revert c. apply ascii_forall. vm_compute. reflexivity. Qed.

Lemma percent_encode_lower_app x y :
  percent_encode_lower (x ++ y) = percent_encode_lower x ++ percent_encode_lower y.
Proof. unfold percent_encode_lower. apply flat_map_app. Qed.

Lemma percent_encode_lower_ascii s : is_ascii (percent_encode_lower s) = true.
Proof.
  induction s as [|c s IH]; [reflexivity|].
  change (c :: s) with ([c] ++ s). rewrite percent_encode_lower_app, is_ascii_app, IH.
  unfold percent_encode_lower. cbn [flat_map]. rewrite app_nil_r, pct_byte_lower_ascii. reflexivity.
Qed.

Lemma utf8_len_1 c : utf8_len c = 1 -> code c < 128.
Proof. unfold utf8_len. repeat match goal with |- context [if ?x then _ else _] => destruct x eqn:? end; lia. Qed.
Lemma utf8_len_multi c k : utf8_len c = 1 + k -> 0 < k -> 192 <= code c.
Proof. unfold utf8_len. repeat match goal with |- context [if ?x then _ else _] => destruct x eqn:? end; lia. Qed.

Lemma flat_map_pct_high s : forallb (fun c => 128 <=? code c) s = true ->
  percent_encode_lower s = flat_map pct s.
Proof.
  induction s as [|c s IH]; intros H; [reflexivity|].
  cbn [forallb] in H. apply andb_true_iff in H as [H1 H2].
  unfold percent_encode_lower in *. cbn [flat_map]. rewrite IH by exact H2.
  now rewrite pct_byte_lower_high.
Qed.

Lemma encode_char_wf u : wf_char (u_orig u) = true -> percent_encode_lower (u_orig u) = encode_char u.
Proof.
  unfold wf_char, encode_char, safe_char. destruct (u_orig u) as [|c r] eqn:E; [discriminate|].
  intros H. apply andb_true_iff in H as [H1 H2].
  destruct r as [|d r].
  - unfold percent_encode_lower. cbn [flat_map]. rewrite app_nil_r, pct_byte_lower_single.
    unfold safe_byte. destruct (_ || _ || _ || _ || _); [reflexivity|]. cbn [flat_map]. now rewrite app_nil_r.
  - apply flat_map_pct_high. cbn [forallb].
    assert (L : 192 <= code c).
    { apply utf8_len_multi with (k := blen (d :: r)); [lia|]. rewrite blen_cons. lia. }
    replace (128 <=? code c) with true by lia. cbn [andb].
    cbn [forallb] in H2. apply andb_true_iff in H2 as [H3 H4].
    apply andb_true_iff; split.
    + unfold is_cont in H3. lia.
    + rewrite forallb_forall in *. intros x Hx. specialize (H4 x Hx). unfold is_cont in H4. lia.
Qed.

Lemma encode_id id : ustr_wf id = true ->
  lower_percent_escape (percent_encode_upper (us_bytes id)) = flat_map encode_char (us_chars id).
Proof.
  intros W. rewrite lower_percent_escape_encode. unfold us_bytes, ustr_wf in *.
  induction (us_chars id) as [|u cs IH]; [reflexivity|].
  cbn [forallb] in W. apply andb_true_iff in W as [W1 W2].
  cbn [List.map List.concat flat_map]. rewrite percent_encode_lower_app, IH by exact W2.
  now rewrite encode_char_wf.
Qed.

Lemma encoded_id_ascii id : ustr_wf id = true -> is_ascii (flat_map encode_char (us_chars id)) = true.
Proof.
  intros W. rewrite <- encode_id by exact W. rewrite lower_percent_escape_encode.
  apply percent_encode_lower_ascii.
Qed.

Lemma max_0003 : K_MAX_0003_ENCAPSULATION_LENGTH = 100.
Proof. reflexivity. Qed.

(** also for tupleSize = numberOfTuples = 0: no tuples, the root is the encapsulation
    directory (a known finding until fix e1de1bb) *)
Lemma map_0003_correct c id dg : c_ext c = E0003 -> cfg_ok c = true -> digest_ok c dg = true ->
  ustr_wf id = true ->
  refusal (Layout.map c id dg) = LayoutSpec.map c id dg.
Proof.
  intros He Hok Hd W. unfold Layout.map, LayoutSpec.map. rewrite He.
  destruct (cfg_ok_hashed c (or_introl He) Hok) as [Hz Hp].
  destruct (digest_ok_ascii _ _ Hd) as [Ha Hl].
  unfold map_0003, spec_0003.
  rewrite to_tuples_ascii by (assumption || lia). cbn [res_bind].
  rewrite join_snoc, encode_id by exact W. rewrite max_0003.
  unfold encapsulation.
  set (E := flat_map encode_char (us_chars id)).
  destruct (blen E <=? 100) eqn:L.
  - replace (Nat.ltb 100 (List.length E)) with false by (unfold blen in L; lia). reflexivity.
  - replace (Nat.ltb 100 (List.length E)) with true by (unfold blen in L; lia).
    rewrite str_to_ascii by (try apply encoded_id_ascii; assumption || lia).
    cbn [res_bind refusal]. reflexivity.
Qed.
