(** 0006 and 0007: code model = documents, for every id and every validated configuration
    (no known class is left since fix 91d5aeb). *)
From Rocfl Require Import Base.Bytes Model.Layout Model.LayoutSpec
  Proofs.BytesFacts Proofs.LayoutFacts Proofs.LayoutMapFacts Proofs.LayoutPrefixFacts Proofs.LayoutCaseFacts.
From Coq Require Import ZArith Lia ZifyBool ZifyN ZifyNat.
Ltac Zify.zify_post_hook ::= Z.div_mod_to_equations.
Open Scope N_scope.
Arguments N.add : simpl never.
Arguments N.mul : simpl never.
Arguments N.sub : simpl never.
Arguments N.ltb : simpl never.
Arguments N.leb : simpl never.
Arguments N.eqb : simpl never.

(** * 0006 *)
Lemma map_0006_correct c id dg : c_ext c = E0006 -> cfg_ok c = true ->
  ustr_wf id = true -> ustr_wf (c_delim c) = true -> unicode_ok (c_delim c) id = true ->
  refusal (Layout.map c id dg) = LayoutSpec.map c id dg.
Proof.
  intros He Hok Wi Wd U. unfold Layout.map, LayoutSpec.map. rewrite He.
  unfold map_0006, spec_0006.
  apply strip_prefix_0006_correct; try assumption.
  apply delim_chars_nonempty. now apply cfg_ok_0006.
Qed.

(** what the path of 0006 is, said without an algorithm: the whole id when the delimiter
    does not occur in it ignoring case; else the characters of the ORIGINAL id after the
    right-most occurrence; a panic only when that occurrence ends the id *)
Lemma map_0006_meaning c id dg : c_ext c = E0006 -> cfg_ok c = true ->
  ustr_wf id = true -> ustr_wf (c_delim c) = true -> unicode_ok (c_delim c) id = true ->
  let d := us_chars (c_delim c) in let s := us_chars id in
  match Layout.map c id dg with
  | Ok r => (r = us_bytes id /\ forall p k, ~ occurs_at d s p k) \/
            (exists p k, occurs_at d s p k /\ r = text (skipn (p + k) s) /\ skipn (p + k) s <> [] /\
                         (forall p' k', occurs_at d s p' k' -> (p' <= p)%nat) /\
                         (forall k', occurs_at d s p k' -> (k <= k')%nat))
  | Panic => exists p k, occurs_at d s p k /\ (p + k)%nat = List.length s /\
                         (forall p' k', occurs_at d s p' k' -> (p' <= p)%nat)
  | Err => False
  end.
Proof.
  intros He Hok Wi Wd U d s.
  pose proof (map_0006_correct c id dg He Hok Wi Wd U) as M.
  unfold LayoutSpec.map in M. rewrite He in M. unfold spec_0006 in M. fold d s in M.
  pose proof (omit_prefix_meaning d s) as Mean.
  assert (NoErr : Layout.map c id dg <> Err).
  { unfold Layout.map. rewrite He. unfold map_0006, strip_prefix_0006.
    destruct (find_0006 (c_delim c) id) as [[i l]|]; [|discriminate].
    destruct (blen (us_bytes id) =? i + l); [discriminate|].
    unfold str_from, str_slice. destruct (_ && _); discriminate. }
  destruct (omit_prefix d s) as [r| |] eqn:EO; cbn [res_bind] in M.
  - destruct (Layout.map c id dg) as [r'| |]; try discriminate. cbn [refusal] in M. injection M as ->.
    destruct Mean as [[-> NoOcc]|(p & k & Occ & -> & NE & Rest)].
    + left. split; [reflexivity|exact NoOcc].
    + right. exists p, k. destruct Rest as [R1 R2]. split; [exact Occ|]. split; [reflexivity|]. split; [exact NE|]. split; assumption.
  - destruct (Layout.map c id dg) as [r'| |]; try discriminate; [congruence|].
    destruct Mean as (p & k & Occ & L & R & _). exists p, k. split; [exact Occ|]. split; assumption.
  - contradiction.
Qed.

(** * 0007: characters of the ASCII range are single bytes *)
Definition byte_of (u : uchar) : ascii := match u_orig u with [c] => c | _ => "0"%char end.
Definition single (u : uchar) : Prop := exists c, u_orig u = [c] /\ code c < 128.

Lemma in_range_single u : in_range u = true -> single u.
Proof.
  unfold in_range, single. destruct (u_orig u) as [|c [|? ?]]; try discriminate.
  intros H. exists c. split; [reflexivity|lia].
Qed.

Lemma text_single cs : Forall single cs -> text cs = List.map byte_of cs.
Proof.
  induction 1 as [|u cs (c & E & _) _ IH]; [reflexivity|].
  unfold text in *. cbn [List.map List.concat]. rewrite IH. unfold byte_of at 2. rewrite E. reflexivity.
Qed.

Lemma text_single_ascii cs : Forall single cs -> is_ascii (text cs) = true.
Proof.
  intros H. rewrite text_single by exact H. unfold is_ascii. rewrite forallb_forall.
  intros x Hx. apply in_map_iff in Hx as (u & <- & Hu).
  rewrite Forall_forall in H. destruct (H u Hu) as (c & E & L).
  unfold byte_of. rewrite E. unfold is_ascii_byte. lia.
Qed.

Lemma Forall_replicate {A} (P : A -> Prop) n a : P a -> Forall P (replicate n a).
Proof. intros H. induction n; cbn [replicate]; constructor; assumption. Qed.

Lemma tuples_text n size : forall cs, Forall single cs ->
  List.map text (tuples n size cs) = tuples n size (text cs).
Proof.
  induction n as [|n IH]; intros cs H; [reflexivity|].
  cbn [tuples List.map]. rewrite IH by (now apply Forall_skipn).
  rewrite (text_single cs) by exact H.
  rewrite (text_single (firstn size cs)) by (now apply Forall_firstn).
  rewrite (text_single (skipn size cs)) by (now apply Forall_skipn).
  now rewrite firstn_map, skipn_map.
Qed.

Lemma text_app x y : text (x ++ y) = text x ++ text y.
Proof. unfold text. now rewrite map_app, concat_app. Qed.

Lemma text_replicate_zero n : text (replicate n zero_char) = replicate n "0"%char.
Proof. induction n as [|n IH]; [reflexivity|]. cbn [replicate]. unfold text in *. cbn [List.map List.concat]. now rewrite IH. Qed.

Lemma map_replicate {A B} (f : A -> B) n a : List.map f (replicate n a) = replicate n (f a).
Proof. induction n as [|n IH]; [reflexivity|]. cbn [replicate List.map]. now rewrite IH. Qed.

Lemma char_count_ascii s : is_ascii s = true -> char_count s = blen s.
Proof.
  intros A. unfold char_count. f_equal.
  induction s as [|c s IH]; [reflexivity|].
  cbn [is_ascii forallb] in A. apply andb_true_iff in A as [A1 A2].
  cbn [filter]. rewrite is_ascii_byte_not_cont by exact A1. cbn [negb]. f_equal. now apply IH.
Qed.

Lemma is_ascii_replicate n c : is_ascii_byte c = true -> is_ascii (replicate n c) = true.
Proof. intros H. induction n as [|n IH]; [reflexivity|]. cbn [replicate is_ascii forallb]. now rewrite H. Qed.

Lemma is_ascii_rev s : is_ascii (rev s) = is_ascii s.
Proof.
  unfold is_ascii. induction s as [|c s IH]; [reflexivity|].
  cbn [rev forallb]. rewrite forallb_app, IH. cbn [forallb]. rewrite andb_true_r. apply andb_comm.
Qed.

(** the guard of the code (every BYTE in 0x20..=0x7F, layout.rs:608) is the documents'
    range test (every CHARACTER a code point 0x20 to 0x7F): a multi-byte character
    starts with a byte >= 0xC0 *)
Lemma byte_range_iff_in_range cs : keys_wf u_orig cs ->
  forallb in_0007_range (O cs) = forallb in_range cs.
Proof.
  induction 1 as [|u cs Hu _ IH]; [reflexivity|].
  unfold O in *. rewrite K_cons. rewrite forallb_app, IH. cbn [forallb]. f_equal.
  destruct (wf_char_inv _ Hu) as (c & r & E & L & Hr & _).
  unfold in_range. rewrite E in *. destruct r as [|d r].
  - cbn [forallb]. unfold in_0007_range. now rewrite andb_true_r.
  - assert (192 <= code c).
    { apply utf8_len_multi with (k := blen (d :: r)); [exact L|rewrite blen_cons; lia]. }
    cbn [forallb]. unfold in_0007_range at 1. replace (code c <=? 127) with false by lia.
    now rewrite andb_false_r.
Qed.

Lemma rev_map_byte cs : rev (List.map byte_of cs) = List.map byte_of (rev cs).
Proof. now rewrite map_rev. Qed.

(** also for ids with control characters: refused by code and documents (a known finding
    until fix 970818d) *)
Lemma map_0007_correct c id dg : c_ext c = E0007 -> cfg_ok c = true ->
  ustr_wf id = true -> ustr_wf (c_delim c) = true ->
  unicode_ok (c_delim c) id = true ->
  refusal (Layout.map c id dg) = LayoutSpec.map c id dg.
Proof.
  intros He Hok Wi Wd K1. unfold Layout.map, LayoutSpec.map. rewrite He.
  destruct (cfg_ok_0007 c He Hok) as (Hd & Hts & Hnt).
  unfold map_0007, map_0007_mapped, spec_0007.
  change (us_bytes id) with (O (us_chars id)) in *.
  rewrite byte_range_iff_in_range by (apply ustr_wf_keys; assumption).
  destruct (forallb in_range (us_chars id)) eqn:IR; cbn [negb]; [|reflexivity].
  assert (Sid : Forall single (us_chars id)).
  { apply Forall_forall. intros u Hu. apply in_range_single. rewrite forallb_forall in IR. now apply IR. }
  pose proof (strip_prefix_correct (c_delim c) id Wd Wi (delim_chars_nonempty _ Hd) K1 IR) as SP.
  unfold omitted in SP.
  destruct (omit_prefix (us_chars (c_delim c)) (us_chars id)) as [rest| |] eqn:EO; cbn [res_bind] in *.
  2:{ destruct (strip_prefix (c_delim c) id); try discriminate; reflexivity. }
  2:{ destruct (strip_prefix (c_delim c) id); discriminate. }
  destruct (strip_prefix (c_delim c) id) as [p| |] eqn:ES; try discriminate.
  cbn [refusal] in SP. injection SP as ->. cbn [res_bind].
  destruct (omit_prefix_suffix _ _ _ EO) as [j ->].
  set (rest := skipn j (us_chars id)) in *.
  assert (Sr : Forall single rest) by (now apply Forall_skipn).
  assert (Ar : is_ascii (text rest) = true) by (now apply text_single_ascii).
  set (ts := N.to_nat (c_ts c)). set (nt := N.to_nat (c_nt c)).
  assert (Lr : List.length (text rest) = List.length rest).
  { rewrite text_single by exact Sr. apply map_length. }
  (* the padded characters of the documents and the padded bytes of the code *)
  set (fill := replicate (ts * nt - List.length rest) zero_char).
  set (pc := if c_padleft c then fill ++ rest else rest ++ fill).
  assert (Spc : Forall single pc).
  { assert (Sf : Forall single fill).
    { apply Forall_replicate. exists "0"%char. split; reflexivity. }
    unfold pc. destruct (c_padleft c); apply Forall_app; split; assumption. }
  assert (Epad : pad_str (c_padleft c) (c_ts c * c_nt c) (text rest) = text pc).
  { unfold pad_str. rewrite char_count_ascii by exact Ar. unfold pc, fill, zeros.
    replace (N.to_nat (c_ts c * c_nt c - blen (text rest))) with (ts * nt - List.length rest)%nat
      by (unfold blen, ts, nt; lia).
    destruct (c_ts c * c_nt c <=? blen (text rest)) eqn:EW.
    - replace (ts * nt - List.length rest)%nat with 0%nat by (unfold blen, ts, nt in *; lia).
      cbn [replicate]. destruct (c_padleft c); [reflexivity|now rewrite app_nil_r].
    - destruct (c_padleft c); now rewrite text_app, text_replicate_zero. }
  rewrite Epad.
  set (pc' := if c_rev c then rev pc else pc).
  assert (Spc' : Forall single pc').
  { unfold pc'. destruct (c_rev c); [|exact Spc]. apply Forall_rev. exact Spc. }
  assert (Erev : (if c_rev c then rev (text pc) else text pc) = text pc').
  { unfold pc'. destruct (c_rev c); [|reflexivity].
    rewrite (text_single pc), (text_single (rev pc)) by (try apply Forall_rev; assumption).
    apply rev_map_byte. }
  rewrite Erev.
  assert (Lpc : (ts * nt <= List.length pc')%nat).
  { assert (L0 : (ts * nt <= List.length pc)%nat).
    { unfold pc, fill. destruct (c_padleft c); rewrite app_length, replicate_length; lia. }
    unfold pc'. destruct (c_rev c); [rewrite rev_length|]; exact L0. }
  rewrite to_tuples_ascii.
  - cbn [res_bind refusal]. rewrite join_snoc. rewrite tuples_text by exact Spc'. reflexivity.
  - now apply text_single_ascii.
  - assert (List.length (text pc') = List.length pc') by (rewrite text_single by exact Spc'; apply map_length).
    unfold blen, ts, nt in *. lia.
Qed.
