(** The byte-wise prefix removal ([rfind] on concatenated keys of the characters, the byte
    index applied to the original id: 0007, and 0006 with a delimiter that has no case)
    in terms of character positions: [strip_core_correct].  The bridge is the prefix-code
    structure of UTF-8.  (What the occurrences mean "ignoring case": LayoutCaseFacts.v.) *)
From Rocfl Require Import Base.Bytes Model.Layout Model.LayoutSpec
  Proofs.BytesFacts Proofs.LayoutFacts.
From Coq Require Import ZArith Lia ZifyBool ZifyN ZifyNat.
Ltac Zify.zify_post_hook ::= Z.div_mod_to_equations.
Open Scope N_scope.
Arguments N.add : simpl never.
Arguments N.mul : simpl never.
Arguments N.sub : simpl never.
Arguments N.ltb : simpl never.
Arguments N.leb : simpl never.
Arguments N.eqb : simpl never.

(** * well-formed characters *)
Lemma wf_char_inv s : wf_char s = true ->
  exists c r, s = c :: r /\ utf8_len c = 1 + blen r /\ forallb is_cont r = true /\ is_cont c = false.
Proof.
  unfold wf_char. destruct s as [|c r]; [discriminate|]. intros H.
  apply andb_true_iff in H as [H1 H2]. exists c, r. repeat split; try assumption; try lia.
  assert (L : utf8_len c = 1 + blen r) by lia. clear H1.
  unfold utf8_len in L. unfold is_cont.
  repeat match type of L with context [if ?x then _ else _] => destruct x eqn:? end; lia.
Qed.

Lemma wf_same_head a a' : wf_char a = true -> wf_char a' = true ->
  hd_error a = hd_error a' -> List.length a = List.length a'.
Proof.
  intros H1 H2 E.
  destruct (wf_char_inv _ H1) as (c & r & -> & L1 & _).
  destruct (wf_char_inv _ H2) as (c' & r' & -> & L2 & _).
  cbn in E. injection E as ->. cbn [List.length]. unfold blen in *. lia.
Qed.

Lemma starts_with_wf a a' x y : wf_char a = true -> wf_char a' = true ->
  starts_with (a ++ x) (a' ++ y) = bytes_eqb a a' && starts_with x y.
Proof.
  intros H1 H2.
  destruct (wf_char_inv _ H1) as (c & r & Ea & L1 & _).
  destruct (wf_char_inv _ H2) as (c' & r' & Ea' & L2 & _).
  destruct (Ascii.eqb c c') eqn:E.
  - apply starts_with_app_len. apply wf_same_head; try assumption.
    subst. cbn. apply Ascii.eqb_eq in E. now subst.
  - subst. cbn [app starts_with bytes_eqb]. rewrite E. reflexivity.
Qed.

Section Keyed.
  Variable key : uchar -> bytes.

  Definition K (cs : list uchar) : bytes := List.concat (List.map key cs).
  Definition keys_wf (cs : list uchar) : Prop := Forall (fun u => wf_char (key u) = true) cs.

  Fixpoint kprefix (ds cs : list uchar) : bool :=
    match ds, cs with
    | [], _ => true
    | a :: d', c :: s' => bytes_eqb (key a) (key c) && kprefix d' s'
    | _ :: _, [] => false
    end.

  (** char index of the right-most occurrence *)
  Fixpoint last_occ (ds cs : list uchar) : option nat :=
    match cs with
    | [] => match ds with [] => Some 0%nat | _ => None end
    | _ :: t => match last_occ ds t with
                | Some k => Some (S k)
                | None => if kprefix ds cs then Some 0%nat else None
                end
    end.

  Lemma K_cons u cs : K (u :: cs) = key u ++ K cs.
  Proof. reflexivity. Qed.
  Lemma K_app x y : K (x ++ y) = K x ++ K y.
  Proof. unfold K. now rewrite map_app, concat_app. Qed.

  Lemma K_nonempty ds : keys_wf ds -> ds <> [] -> exists n0 rest, K ds = n0 :: rest /\ is_cont n0 = false.
  Proof.
    intros W N. destruct ds as [|d ds]; [congruence|].
    inversion W as [|? ? Hd _]; subst.
    destruct (wf_char_inv _ Hd) as (c & r & E & _ & _ & Hc).
    exists c, (r ++ K ds). rewrite K_cons, E. split; [reflexivity|exact Hc].
  Qed.

  Lemma starts_with_chars ds : forall cs, keys_wf ds -> keys_wf cs ->
    starts_with (K ds) (K cs) = kprefix ds cs.
  Proof.
    induction ds as [|a ds IH]; intros cs Wd Wc; [reflexivity|].
    inversion Wd as [|? ? Ha Wd']; subst.
    destruct cs as [|c cs].
    - cbn [kprefix]. rewrite K_cons. destruct (wf_char_inv _ Ha) as (c0 & r & -> & _). reflexivity.
    - inversion Wc as [|? ? Hc Wc']; subst.
      rewrite !K_cons. cbn [kprefix]. rewrite starts_with_wf by assumption.
      now rewrite IH.
  Qed.

  Lemma rfind_nil needle : needle <> [] -> rfind [] needle = None.
  Proof. destruct needle; [congruence|reflexivity]. Qed.

  (** continuation bytes cannot start an occurrence of a needle that begins with a lead byte *)
  Lemma rfind_skip_cont r rest n0 nrest : forallb is_cont r = true -> is_cont n0 = false ->
    rfind (r ++ rest) (n0 :: nrest) =
    match rfind rest (n0 :: nrest) with Some i => Some (i + blen r) | None => None end.
  Proof.
    intros Hr Hn. induction r as [|d r IH].
    - cbn [app]. destruct (rfind rest (n0 :: nrest)); [|reflexivity]. f_equal. rewrite blen_nil. lia.
    - cbn [forallb] in Hr. apply andb_true_iff in Hr as [Hd Hr].
      cbn [app rfind]. rewrite IH by exact Hr.
      destruct (rfind rest (n0 :: nrest)) as [i|].
      + f_equal. rewrite blen_cons. lia.
      + cbn [starts_with].
        assert (E : Ascii.eqb n0 d = false).
        { destruct (Ascii.eqb n0 d) eqn:E; [|reflexivity]. apply Ascii.eqb_eq in E. subst. congruence. }
        rewrite E. reflexivity.
  Qed.

  Lemma rfind_char c rest n0 nrest : wf_char c = true -> is_cont n0 = false ->
    rfind (c ++ rest) (n0 :: nrest) =
    match rfind rest (n0 :: nrest) with
    | Some i => Some (i + blen c)
    | None => if starts_with (n0 :: nrest) (c ++ rest) then Some 0 else None
    end.
  Proof.
    intros Hc Hn. destruct (wf_char_inv _ Hc) as (c0 & r & -> & _ & Hr & _).
    cbn [app rfind]. rewrite rfind_skip_cont by assumption.
    destruct (rfind rest (n0 :: nrest)) as [i|]; [|reflexivity].
    f_equal. rewrite blen_cons. lia.
  Qed.

  (** byte index found by rfind = byte offset of the last occurrence counted in characters *)
  Lemma rfind_chars ds cs : keys_wf ds -> keys_wf cs -> ds <> [] ->
    rfind (K cs) (K ds) =
    match last_occ ds cs with Some k => Some (blen (K (firstn k cs))) | None => None end.
  Proof.
    intros Wd Wc N. destruct (K_nonempty ds Wd N) as (n0 & nrest & En & Hn0).
    induction cs as [|c cs IH].
    - cbn [last_occ]. destruct ds; [congruence|]. unfold K at 1. cbn [List.map List.concat].
      apply rfind_nil. rewrite En. discriminate.
    - inversion Wc as [|? ? Hc Wc']; subst.
      rewrite K_cons. rewrite En at 1. rewrite rfind_char by assumption.
      rewrite <- En. rewrite IH by exact Wc'. cbn [last_occ].
      destruct (last_occ ds cs) as [k|].
      + f_equal. cbn [firstn]. rewrite K_cons, blen_app. lia.
      + rewrite <- K_cons, starts_with_chars by assumption.
        destruct (kprefix ds (c :: cs)); reflexivity.
  Qed.

  Lemma kprefix_firstn ds : forall cs, kprefix ds cs = true ->
    (List.length ds <= List.length cs)%nat /\ K (firstn (List.length ds) cs) = K ds.
  Proof.
    induction ds as [|a ds IH]; intros cs H.
    - cbn. split; [lia|reflexivity].
    - destruct cs as [|c cs]; [discriminate|]. cbn [kprefix] in H.
      apply andb_true_iff in H as [H1 H2]. apply bytes_eqb_eq in H1.
      destruct (IH _ H2) as [L E]. cbn [List.length firstn]. split; [lia|].
      rewrite !K_cons, E, H1. reflexivity.
  Qed.

  Lemma last_occ_spec ds cs k : last_occ ds cs = Some k ->
    (k <= List.length cs)%nat /\ kprefix ds (skipn k cs) = true.
  Proof.
    revert k. induction cs as [|c cs IH]; intros k H.
    - cbn [last_occ] in H. destruct ds; [|discriminate]. injection H as <-. split; [cbn; lia|reflexivity].
    - cbn [last_occ] in H. destruct (last_occ ds cs) as [j|].
      + injection H as <-. destruct (IH j eq_refl) as [L P]. cbn [List.length skipn]. split; [lia|exact P].
      + destruct (kprefix ds (c :: cs)) eqn:P; [|discriminate]. injection H as <-.
        split; [lia|exact P].
  Qed.

  Lemma firstn_add {A} (k m : nat) (l : list A) : firstn (k + m)%nat l = firstn k l ++ firstn m (skipn k l).
  Proof.
    revert l. induction k as [|k IH]; intros l; [reflexivity|].
    destruct l; [rewrite skipn_nil, !firstn_nil; reflexivity|]. cbn [Nat.add firstn skipn app]. now rewrite IH.
  Qed.

  (** the byte offset just after the last occurrence *)
  Lemma occ_end ds cs k : last_occ ds cs = Some k ->
    (k + List.length ds <= List.length cs)%nat /\
    blen (K (firstn k cs)) + blen (K ds) = blen (K (firstn (k + List.length ds) cs)).
  Proof.
    intros H. destruct (last_occ_spec _ _ _ H) as [L P].
    destruct (kprefix_firstn _ _ P) as [L2 E]. rewrite skipn_length in L2.
    split; [lia|]. rewrite firstn_add, K_app, blen_app, E. reflexivity.
  Qed.
End Keyed.

(** * slicing the original id at a character offset *)
Definition O (cs : list uchar) : bytes := K u_orig cs.

Lemma O_is_text cs : O cs = text cs.
Proof. reflexivity. Qed.

Lemma O_nil_iff cs : keys_wf u_orig cs -> (O cs = [] <-> cs = []).
Proof.
  intros W. split; [|intros ->; reflexivity].
  destruct cs as [|c cs]; [reflexivity|]. inversion W as [|? ? Hc _]; subst.
  unfold O. rewrite K_cons. destruct (wf_char_inv _ Hc) as (c0 & r & -> & _). discriminate.
Qed.

Lemma keys_wf_skipn key j cs : keys_wf key cs -> keys_wf key (skipn j cs).
Proof.
  unfold keys_wf. revert cs. induction j as [|j IH]; intros cs W; [exact W|].
  destruct cs; [constructor|]. inversion W; subst. cbn [skipn]. now apply IH.
Qed.

Lemma nth_error_app_exact {A} (x y : list A) : nth_error (x ++ y) (List.length x) = hd_error y.
Proof.
  induction x as [|a x IH]; [destruct y; reflexivity|]. exact IH.
Qed.

Lemma skipn_app_exact {A} (x y : list A) : skipn (List.length x) (x ++ y) = y.
Proof. induction x as [|a x IH]; [reflexivity|exact IH]. Qed.

Lemma str_from_char_offset cs j : keys_wf u_orig cs -> (j <= List.length cs)%nat ->
  skipn j cs <> [] ->
  blen (O cs) <> blen (O (firstn j cs)) /\
  str_from (O cs) (blen (O (firstn j cs))) = Ok (O (skipn j cs)).
Proof.
  intros W L NE.
  assert (Split : O cs = O (firstn j cs) ++ O (skipn j cs)).
  { unfold O. rewrite <- K_app, firstn_skipn. reflexivity. }
  assert (W2 := keys_wf_skipn u_orig j cs W).
  destruct (skipn j cs) as [|c rest] eqn:ES; [congruence|].
  inversion W2 as [|? ? Hc _]; subst.
  destruct (wf_char_inv _ Hc) as (c0 & r & Ec & _ & _ & Hc0).
  assert (Tail : O (c :: rest) = c0 :: (r ++ O rest)).
  { unfold O. rewrite K_cons, Ec. reflexivity. }
  set (P := O (firstn j cs)) in *.
  assert (Len : blen (O cs) = blen P + blen (O (c :: rest))) by (rewrite Split, blen_app; reflexivity).
  assert (Pos : 0 < blen (O (c :: rest))) by (rewrite Tail, blen_cons; lia).
  split; [lia|].
  unfold str_from, str_slice.
  assert (B1 : char_boundary (O cs) (blen P) = true).
  { unfold char_boundary. destruct (blen P =? 0) eqn:E0; [reflexivity|].
    replace (blen (O cs) <? blen P) with false by lia.
    replace (blen P =? blen (O cs)) with false by lia.
    rewrite blen_to_nat, Split, nth_error_app_exact, Tail. cbn [hd_error]. now rewrite Hc0. }
  assert (B2 : char_boundary (O cs) (blen (O cs)) = true).
  { unfold char_boundary. destruct (blen (O cs) =? 0); [reflexivity|].
    replace (blen (O cs) <? blen (O cs)) with false by lia.
    now rewrite N.eqb_refl. }
  rewrite B1, B2. replace (blen P <=? blen (O cs)) with true by lia. cbn [andb].
  f_equal. rewrite blen_to_nat. rewrite Split at 2. rewrite skipn_app_exact.
  apply firstn_all2. rewrite Len, Tail. unfold blen. lia.
Qed.

(** * the code's prefix removal, generically in the comparison key *)
Definition strip_core (key : uchar -> bytes) (ds cs : list uchar) : res bytes :=
  match rfind (K key cs) (K key ds) with
  | None => Ok (O cs)
  | Some index =>
      if blen (O cs) =? index + blen (K key ds) then Panic
      else str_from (O cs) (index + blen (K key ds))
  end.

Lemma same_length_offsets key cs : Forall (fun u => blen (key u) = blen (u_orig u)) cs ->
  forall j, blen (K key (firstn j cs)) = blen (O (firstn j cs)).
Proof.
  induction 1 as [|c cs Hc _ IH]; intros j.
  - now rewrite firstn_nil.
  - destruct j; [reflexivity|]. cbn [firstn]. unfold O. rewrite !K_cons, !blen_app.
    unfold O in IH. rewrite IH, Hc. reflexivity.
Qed.

Lemma strip_core_correct key ds cs :
  keys_wf key ds -> keys_wf key cs -> keys_wf u_orig cs -> ds <> [] ->
  Forall (fun u => blen (key u) = blen (u_orig u)) cs ->
  strip_core key ds cs =
  match last_occ key ds cs with
  | None => Ok (O cs)
  | Some k => match skipn (k + List.length ds) cs with [] => Panic | r => Ok (O r) end
  end.
Proof.
  intros Wd Wc Wo N SL. unfold strip_core. rewrite rfind_chars by assumption.
  destruct (last_occ key ds cs) as [k|] eqn:EL; [|reflexivity].
  destruct (occ_end key _ _ _ EL) as [Lk Eoff].
  rewrite Eoff, same_length_offsets by exact SL.
  set (j := (k + List.length ds)%nat) in *.
  destruct (skipn j cs) as [|c rest] eqn:ES.
  - assert (F : firstn j cs = cs).
    { rewrite <- (firstn_skipn j cs) at 2. rewrite ES, app_nil_r. reflexivity. }
    rewrite F, N.eqb_refl. reflexivity.
  - assert (NE : skipn j cs <> []) by (rewrite ES; discriminate).
    destruct (str_from_char_offset cs j Wo Lk NE) as [D S].
    replace (blen (O cs) =? blen (O (firstn j cs))) with false by lia.
    rewrite S, ES. reflexivity.
Qed.

(** * the narrower, character-by-character reading in terms of last_occ on lower-case forms *)
Lemma ci_prefix_kprefix d s : ci_prefix d s = kprefix u_low d s.
Proof.
  revert s. induction d as [|a d IH]; intros s; [reflexivity|].
  destruct s as [|c s]; [reflexivity|]. cbn [ci_prefix kprefix]. unfold same_ci. now rewrite IH.
Qed.

Lemma after_last_simple_occ d s :
  after_last_simple d s = match last_occ u_low d s with Some k => Some (skipn (k + List.length d) s) | None => None end.
Proof.
  induction s as [|c s IH].
  - cbn [after_last_simple last_occ]. destruct d; reflexivity.
  - cbn [after_last_simple last_occ]. rewrite IH.
    destruct (last_occ u_low d s) as [k|]; [reflexivity|].
    rewrite ci_prefix_kprefix. destruct (kprefix u_low d (c :: s)); reflexivity.
Qed.

Lemma forallb_Forall {A} (f : A -> bool) l : forallb f l = true -> Forall (fun x => f x = true) l.
Proof. intros H. apply Forall_forall. now apply forallb_forall. Qed.

Lemma ustr_wf_keys s : ustr_wf s = true -> keys_wf u_orig (us_chars s).
Proof. apply forallb_Forall. Qed.

Lemma delim_chars_nonempty d : us_bytes d <> [] -> us_chars d <> [].
Proof. intros H E. apply H. unfold us_bytes. now rewrite E. Qed.

(** slicing the id after its first j characters: the code's test "the id ends here" and
    its slice (layout.rs:564-571, 632-640) *)
Lemma slice_after cs j : keys_wf u_orig cs -> (j <= List.length cs)%nat ->
  (if blen (O cs) =? blen (O (firstn j cs)) then Panic else str_from (O cs) (blen (O (firstn j cs)))) =
  match skipn j cs with [] => Panic | r => Ok (O r) end.
Proof.
  intros Wo Lk. destruct (skipn j cs) as [|c rest] eqn:ES.
  - assert (F : firstn j cs = cs).
    { rewrite <- (firstn_skipn j cs) at 2. rewrite ES, app_nil_r. reflexivity. }
    rewrite F, N.eqb_refl. reflexivity.
  - assert (NE : skipn j cs <> []) by (rewrite ES; discriminate).
    destruct (str_from_char_offset cs j Wo Lk NE) as [D S].
    replace (blen (O cs) =? blen (O (firstn j cs))) with false by lia.
    rewrite S, ES. reflexivity.
Qed.
