(** Concrete inputs: the examples of the extension documents reproduced by the
    transcription (LayoutSpec.v) and by the code model, and the inputs of the seven
    repaired classes (no known class is left) on which code model and documents now
    agree (all by computation). *)
From Rocfl Require Import Base.Bytes Model.Layout Model.LayoutSpec.
Open Scope N_scope.

Definition au := ascii_ustr.
Definition cfg4 (a : alg) (ts nt : N) (sh : bool) : cfg := mkCfg E0004 E0004 a ts nt sh no_delim true false.
Definition cfg3 (a : alg) (ts nt : N) : cfg := mkCfg E0003 E0003 a ts nt false no_delim true false.
Definition cfg6 (d : ustr) : cfg := mkCfg E0006 E0006 Sha256 3 3 false d true false.
Definition cfg7 (d : ustr) (ts nt : N) (left rv : bool) : cfg := mkCfg E0007 E0007 Sha256 ts nt false d left rv.
Definition cfg2 : cfg := default_cfg E0002.

Definition sha256_object_01 := b "3c0ff4240c1e116dba14c7627f2319b58aa3d77606d0d90dfc6161608ac987d4".
Definition sha256_horrible := b "487326d8c2a3c0b885e23da1469b4d6671fd4e76978924b4443e9e3c316cda6d".
Definition md5_object_01 := b "ff75534492485eabb39f86356728884e".
Definition md5_horrible := b "08319766fb6c2935dd175b94267717e0".
Definition horrible := au (b "..hor/rib:le-$id").
Definition long101 := au (b "abcdefghijabcdefghijabcdefghijabcdefghijabcdefghijabcdefghijabcdefghijabcdefghijabcdefghijabcdefghija").
Definition sha256_long101 := b "5cc73e648fbcff136510e330871180922ddacf193b68fdeff855683a01464220".

(** both functions on one input, with the side conditions of the theorems *)
Definition both (c : cfg) (id : ustr) (dg : bytes) : res bytes * res bytes :=
  (Layout.map c id dg, LayoutSpec.map c id dg).
Definition side (c : cfg) (id : ustr) (dg : bytes) : bool * bool :=
  (cfg_ok c, inputs_ok c id dg).

(** * the mapping tables of the documents *)
Lemma doc_0002 :
  both cfg2 (au (b "object-01")) sha256_object_01 = (Ok (b "object-01"), Ok (b "object-01")).
Proof. vm_compute. reflexivity. Qed.

Lemma doc_0004_ex1 :
  both (cfg4 Sha256 3 3 false) (au (b "object-01")) sha256_object_01 =
    (Ok (b "3c0/ff4/240/3c0ff4240c1e116dba14c7627f2319b58aa3d77606d0d90dfc6161608ac987d4"),
     Ok (b "3c0/ff4/240/3c0ff4240c1e116dba14c7627f2319b58aa3d77606d0d90dfc6161608ac987d4")) /\
  side (cfg4 Sha256 3 3 false) (au (b "object-01")) sha256_object_01 = (true, true).
Proof. split; vm_compute; reflexivity. Qed.

Lemma doc_0004_ex2 :
  both (cfg4 Md5 2 15 true) horrible md5_horrible =
    (Ok (b "08/31/97/66/fb/6c/29/35/dd/17/5b/94/26/77/17/e0"), Ok (b "08/31/97/66/fb/6c/29/35/dd/17/5b/94/26/77/17/e0")) /\
  side (cfg4 Md5 2 15 true) horrible md5_horrible = (true, true).
Proof. split; vm_compute; reflexivity. Qed.

Lemma doc_0004_ex3 :
  both (cfg4 Sha256 0 0 false) horrible sha256_horrible = (Ok sha256_horrible, Ok sha256_horrible).
Proof. vm_compute. reflexivity. Qed.

Lemma doc_0003_ex1 :
  both (cfg3 Sha256 3 3) horrible sha256_horrible =
    (Ok (b "487/326/d8c/%2e%2ehor%2frib%3ale-%24id"), Ok (b "487/326/d8c/%2e%2ehor%2frib%3ale-%24id")) /\
  side (cfg3 Sha256 3 3) horrible sha256_horrible = (true, true).
Proof. split; vm_compute; reflexivity. Qed.

Lemma doc_0003_ex2 :
  both (cfg3 Md5 2 15) (au (b "object-01")) md5_object_01 =
    (Ok (b "ff/75/53/44/92/48/5e/ab/b3/9f/86/35/67/28/88/object-01"),
     Ok (b "ff/75/53/44/92/48/5e/ab/b3/9f/86/35/67/28/88/object-01")).
Proof. vm_compute. reflexivity. Qed.

Lemma doc_0003_long :
  both (cfg3 Sha256 3 3) long101 sha256_long101 =
    (Ok (b "5cc/73e/648/abcdefghijabcdefghijabcdefghijabcdefghijabcdefghijabcdefghijabcdefghijabcdefghijabcdefghijabcdefghij-5cc73e648fbcff136510e330871180922ddacf193b68fdeff855683a01464220"),
     Ok (b "5cc/73e/648/abcdefghijabcdefghijabcdefghijabcdefghijabcdefghijabcdefghijabcdefghijabcdefghijabcdefghijabcdefghij-5cc73e648fbcff136510e330871180922ddacf193b68fdeff855683a01464220")).
Proof. vm_compute. reflexivity. Qed.

Lemma doc_0006 :
  both (cfg6 (au (b "edu/"))) (au (b "https://institution.edu/abc/edu/f8.05v")) [] = (Ok (b "f8.05v"), Ok (b "f8.05v")) /\
  both (cfg6 (au (b ":"))) (au (b "urn:uuid:6e8bc430-9c3a-11d9-9669-0800200c9a66")) [] =
    (Ok (b "6e8bc430-9c3a-11d9-9669-0800200c9a66"), Ok (b "6e8bc430-9c3a-11d9-9669-0800200c9a66")) /\
  both (cfg6 (au (b "info:"))) (au (b "https://example.org/info:/12345/x54xz321/s3/f8.05v")) [] =
    (Ok (b "/12345/x54xz321/s3/f8.05v"), Ok (b "/12345/x54xz321/s3/f8.05v")) /\
  both (cfg6 (au (b "edu/"))) (au (b "https://institution.EDU/3448793")) [] = (Ok (b "3448793"), Ok (b "3448793")) /\
  both (cfg6 (au (b ":"))) (au (b "urn:uuid:")) [] = (Panic, Err) /\
  side (cfg6 (au (b "edu/"))) (au (b "https://institution.EDU/3448793")) sha256_object_01 = (true, true).
Proof. repeat split; vm_compute; reflexivity. Qed.

Lemma doc_0007 :
  both (cfg7 (au (b ":")) 4 2 true true) (au (b "namespace:12887296")) [] = (Ok (b "6927/8821/12887296"), Ok (b "6927/8821/12887296")) /\
  both (cfg7 (au (b ":")) 4 2 true true) (au (b "urn:uuid:6e8bc430-9c3a-11d9-9669-0800200c9a66")) [] =
    (Ok (b "66a9/c002/6e8bc430-9c3a-11d9-9669-0800200c9a66"), Ok (b "66a9/c002/6e8bc430-9c3a-11d9-9669-0800200c9a66")) /\
  both (cfg7 (au (b ":")) 4 2 true true) (au (b "abc123")) [] = (Ok (b "321c/ba00/abc123"), Ok (b "321c/ba00/abc123")) /\
  both (cfg7 (au (b "edu/")) 3 3 false false) (au (b "https://institution.edu/3448793")) [] = (Ok (b "344/879/300/3448793"), Ok (b "344/879/300/3448793")) /\
  both (cfg7 (au (b "edu/")) 3 3 false false) (au (b "https://institution.edu/abc/edu/f8.05v")) [] = (Ok (b "f8./05v/000/f8.05v"), Ok (b "f8./05v/000/f8.05v")) /\
  both (cfg7 (au (b ":")) 3 3 true false) (au (b "urn:")) [] = (Panic, Err) /\
  both (cfg7 (au (b ":")) 3 3 true false) (mkS [mkU (bs [195; 169]) (bs [195; 169])] (bs [195; 169]) (bs [195; 137])) [] = (Panic, Err) /\
  side (cfg7 (au (b "edu/")) 3 3 false false) (au (b "https://institution.edu/abc/edu/f8.05v")) sha256_object_01 = (true, true).
Proof. repeat split; vm_compute; reflexivity. Qed.

(** * the case-folding class (fix 91d5aeb): the former witnesses are agreements *)
(** U+212A KELVIN SIGN lower-cases to 'k': three bytes become one *)
Definition kelvin_id : ustr :=
  mkS (mkU (bs [226; 132; 170]) (b "k") :: us_chars (au (b "edu/x"))) (b "kedu/x") (bs [226; 132; 170; 69; 68; 85; 47; 88]).
(** final sigma: str::to_lowercase of "a" U+03A3 "/x" ends the word with U+03C2, of the
    delimiter U+03A3 "/" it is U+03C3 "/"; char::to_lowercase of U+03A3 is U+03C3 in both *)
Definition sigma_delim : ustr :=
  mkS [mkU (bs [206; 163]) (bs [207; 131]); mkU (b "/") (b "/")] (bs [207; 131; 47]) (bs [206; 163; 47]).
Definition sigma_id : ustr :=
  mkS [mkU (b "a") (b "a"); mkU (bs [206; 163]) (bs [207; 131]); mkU (b "/") (b "/"); mkU (b "x") (b "x")]
      (bs [97; 207; 130; 47; 120]) (bs [65; 206; 163; 47; 88]).
(** U+1E9E lower-cases to U+00DF: three bytes become two *)
Definition sharp_delim : ustr := mkS [mkU (bs [195; 159]) (bs [195; 159])] (bs [195; 159]) (b "SS").
Definition sharp_id : ustr :=
  mkS [mkU (b "a") (b "a"); mkU (bs [225; 186; 158]) (bs [195; 159]); mkU (b "b") (b "b")]
      (bs [97; 195; 159; 98]) (bs [65; 225; 186; 158; 66]).
(** U+0130 lower-cases to 'i' U+0307: two bytes become three, one character becomes two *)
Definition idot : uchar := mkU (bs [196; 176]) (bs [105; 204; 135]).
Definition idot_id : ustr :=
  mkS (idot :: us_chars (au (b "edu/xyz"))) (bs [105; 204; 135; 101; 100; 117; 47; 120; 121; 122])
      (bs [196; 176; 69; 68; 85; 47; 88; 89; 90]).
Definition idot_delim : ustr := mkS [idot] (bs [105; 204; 135]) (bs [196; 176]).
Definition i_dot_id : ustr :=     (* "x" "i" U+0307 "y" *)
  mkS [mkU (b "x") (b "x"); mkU (b "i") (b "i"); mkU (bs [204; 135]) (bs [204; 135]); mkU (b "y") (b "y")]
      (bs [120; 105; 204; 135; 121]) (bs [88; 73; 204; 135; 89]).

Lemma fixed_casefold :
  both (cfg6 (au (b "edu/"))) kelvin_id [] = (Ok (b "x"), Ok (b "x")) /\
  both (cfg6 sigma_delim) sigma_id [] = (Ok (b "x"), Ok (b "x")) /\
  both (cfg6 sharp_delim) sharp_id [] = (Ok (b "b"), Ok (b "b")) /\
  both (cfg6 (au (b "edu/"))) idot_id [] = (Ok (b "xyz"), Ok (b "xyz")) /\
  side (cfg6 (au (b "edu/"))) kelvin_id sha256_object_01 = (true, true) /\
  side (cfg6 sigma_delim) sigma_id sha256_object_01 = (true, true) /\
  side (cfg6 sharp_delim) sharp_id sha256_object_01 = (true, true) /\
  side (cfg6 (au (b "edu/"))) idot_id sha256_object_01 = (true, true).
Proof. repeat split; vm_compute; reflexivity. Qed.

(** the one place where the two readings of "case-insensitive" part: the delimiter U+0130
    against "i" U+0307 in the id (same lower-case form, not the same number of characters).
    Code and documents (as read in LayoutSpec.v) take it for an occurrence. *)
Lemma readings_part_at_idot :
  both (cfg6 idot_delim) i_dot_id [] = (Ok (b "y"), Ok (b "y")) /\
  side (cfg6 idot_delim) i_dot_id sha256_object_01 = (true, true) /\
  after_last_simple (us_chars idot_delim) (us_chars i_dot_id) = None.
Proof. repeat split; vm_compute; reflexivity. Qed.

(** historical note: BEFORE fix 91d5aeb layout 0006 removed the prefix the way 0007 still
    does (rfind on the lower-cased id, the byte index applied to the original id); that
    function, as a separate definition, disagrees with the documents on the three inputs *)
Definition map_0006_before_fix (c : cfg) (id : ustr) : res bytes := strip_prefix (c_delim c) id.
Lemma history_casefold_before_fix :
  map_0006_before_fix (cfg6 (au (b "edu/"))) kelvin_id = Ok (b "u/x") /\
  map_0006_before_fix (cfg6 sigma_delim) sigma_id = Ok (bs [97; 206; 163; 47; 120]) /\
  map_0006_before_fix (cfg6 sharp_delim) sharp_id = Panic /\
  LayoutSpec.map (cfg6 (au (b "edu/"))) kelvin_id [] = Ok (b "x") /\
  LayoutSpec.map (cfg6 sigma_delim) sigma_id [] = Ok (b "x") /\
  LayoutSpec.map (cfg6 sharp_delim) sharp_id [] = Ok (b "b").
Proof. repeat split; vm_compute; reflexivity. Qed.

(** * the classes repaired earlier: the former witnesses are agreements *)
(** 0003 without tuples (fix e1de1bb): the root is the encapsulation directory, also the
    truncated one *)
Lemma fixed_0003_zero_tuples :
  both (cfg3 Sha256 0 0) (au (b "object-01")) sha256_object_01 = (Ok (b "object-01"), Ok (b "object-01")) /\
  both (cfg3 Sha256 0 0) horrible sha256_horrible =
    (Ok (b "%2e%2ehor%2frib%3ale-%24id"), Ok (b "%2e%2ehor%2frib%3ale-%24id")) /\
  both (cfg3 Sha256 0 0) long101 sha256_long101 =
    (Ok (b "abcdefghijabcdefghijabcdefghijabcdefghijabcdefghijabcdefghijabcdefghijabcdefghijabcdefghijabcdefghij-5cc73e648fbcff136510e330871180922ddacf193b68fdeff855683a01464220"),
     Ok (b "abcdefghijabcdefghijabcdefghijabcdefghijabcdefghijabcdefghijabcdefghijabcdefghijabcdefghijabcdefghij-5cc73e648fbcff136510e330871180922ddacf193b68fdeff855683a01464220")) /\
  side (cfg3 Sha256 0 0) (au (b "object-01")) sha256_object_01 = (true, true).
Proof. repeat split; vm_compute; reflexivity. Qed.

(** 0007 (fix 970818d): a control character is refused like a non-ASCII one; 0x20 and
    0x7F, the ends of the documented range, are mapped *)
Definition ctrl_id : ustr := au (bs [97; 58; 98; 1; 99]).      (* "a:b\x01c" *)
Definition edge_id : ustr := au (bs [97; 58; 32; 127]).        (* "a: \x7f" *)
Lemma fixed_0007_ctrl :
  both (cfg7 (au (b ":")) 3 3 true false) ctrl_id [] = (Panic, Err) /\
  both (cfg7 (au (b ":")) 3 3 true false) (au (bs [31])) [] = (Panic, Err) /\
  both (cfg7 (au (b ":")) 3 3 true false) (au (bs [0; 58; 97])) [] = (Panic, Err) /\
  both (cfg7 (au (b ":")) 2 2 true false) edge_id [] =
    (Ok (bs [48; 48; 47; 32; 127; 47; 32; 127]), Ok (bs [48; 48; 47; 32; 127; 47; 32; 127])) /\
  side (cfg7 (au (b ":")) 3 3 true false) ctrl_id sha256_object_01 = (true, true).
Proof. repeat split; vm_compute; reflexivity. Qed.

(** historical note: the behaviour BEFORE the two fixes, as separate definitions (not part
    of the model), disagreed with the documents on these inputs *)
Definition map_0003_before_fix (c : cfg) (id : ustr) (dg : bytes) : res bytes :=
  if c_ts c =? 0 then Ok dg else map_0003 c id dg.
Definition map_0007_before_fix (c : cfg) (id : ustr) : res bytes :=
  if negb (is_ascii (us_bytes id)) then Panic else map_0007_mapped c id.
Lemma history_before_fix :
  map_0003_before_fix (cfg3 Sha256 0 0) (au (b "object-01")) sha256_object_01 = Ok sha256_object_01 /\
  LayoutSpec.map (cfg3 Sha256 0 0) (au (b "object-01")) sha256_object_01 = Ok (b "object-01") /\
  map_0007_before_fix (cfg7 (au (b ":")) 3 3 true false) ctrl_id =
    Ok (bs [48; 48; 48; 47; 48; 48; 48; 47; 98; 1; 99; 47; 98; 1; 99]) /\
  LayoutSpec.map (cfg7 (au (b ":")) 3 3 true false) ctrl_id [] = Err.
Proof. repeat split; vm_compute; reflexivity. Qed.

(** configurations *)
Definition obj (ext alg ts nt short delim pad rv : jv) : raw := RawObj (mkRaw ext alg ts nt short delim pad rv).
Definition is_accepted (r : res cfg) : bool := match r with Ok _ => true | _ => false end.
Definition new_params_agree (m : res cfg) (sp : option cfg) : bool :=
  match m, sp with Ok c, Some sc => same_params c sc | Err, None => true | _, _ => false end.

(** numbers above 32 (fix d1aca14) are refused by code and documents: 33, 64, u32::MAX+1
    squared (the former overflow panic) and usize::MAX, in debug and release arithmetic;
    32 is still accepted *)
Definition usize_max : N := 18446744073709551615.
Lemma fixed_cfg_bounds :
  new true E0004 (obj JAbsent JAbsent (JNum 33) (JNum 1) JAbsent JAbsent JAbsent JAbsent) = Err /\
  allowed E0004 (obj JAbsent JAbsent (JNum 33) (JNum 1) JAbsent JAbsent JAbsent JAbsent) = false /\
  new true E0003 (obj JAbsent JAbsent (JNum 1) (JNum 64) JAbsent JAbsent JAbsent JAbsent) = Err /\
  allowed E0003 (obj JAbsent JAbsent (JNum 1) (JNum 64) JAbsent JAbsent JAbsent JAbsent) = false /\
  new true E0004 (obj JAbsent JAbsent (JNum 4294967296) (JNum 4294967296) JAbsent JAbsent JAbsent JAbsent) = Err /\
  new false E0004 (obj JAbsent JAbsent (JNum 4294967296) (JNum 4294967296) JAbsent JAbsent JAbsent JAbsent) = Err /\
  new true E0003 (obj JAbsent JAbsent (JNum usize_max) (JNum usize_max) JAbsent JAbsent JAbsent JAbsent) = Err /\
  new false E0003 (obj JAbsent JAbsent (JNum 0) (JNum usize_max) JAbsent JAbsent JAbsent JAbsent) = Err /\
  is_accepted (new true E0004 (obj JAbsent (JStr (au (b "sha512"))) (JNum 32) (JNum 4) JAbsent JAbsent JAbsent JAbsent)) = true /\
  allowed E0004 (obj JAbsent (JStr (au (b "sha512"))) (JNum 32) (JNum 4) JAbsent JAbsent JAbsent JAbsent) = true /\
  is_accepted (new true E0003 (obj JAbsent (JStr (au (b "md5"))) (JNum 1) (JNum 32) JAbsent JAbsent JAbsent JAbsent)) = true.
Proof. repeat split; vm_compute; reflexivity. Qed.

(** shortObjectRoot with the whole digest in the tuples (fix a91c61b) is refused; one
    character less than the digest is accepted, and so is the whole digest without
    shortObjectRoot *)
Lemma fixed_cfg_short_root :
  new true E0004 (obj JAbsent JAbsent (JNum 4) (JNum 16) (JBool true) JAbsent JAbsent JAbsent) = Err /\
  allowed E0004 (obj JAbsent JAbsent (JNum 4) (JNum 16) (JBool true) JAbsent JAbsent JAbsent) = false /\
  is_accepted (new true E0004 (obj JAbsent JAbsent (JNum 4) (JNum 16) (JBool false) JAbsent JAbsent JAbsent)) = true /\
  allowed E0004 (obj JAbsent JAbsent (JNum 4) (JNum 16) (JBool false) JAbsent JAbsent JAbsent) = true /\
  is_accepted (new true E0004 (obj JAbsent JAbsent (JNum 7) (JNum 9) (JBool true) JAbsent JAbsent JAbsent)) = true /\
  allowed E0004 (obj JAbsent JAbsent (JNum 7) (JNum 9) (JBool true) JAbsent JAbsent JAbsent) = true /\
  both (cfg4 Sha256 7 9 true) (au (b "object-01")) sha256_object_01 =
    (Ok (b "3c0ff42/40c1e11/6dba14c/7627f23/19b58aa/3d77606/d0d90df/c616160/8ac987d/4"),
     Ok (b "3c0ff42/40c1e11/6dba14c/7627f23/19b58aa/3d77606/d0d90df/c616160/8ac987d/4")) /\
  new true E0004 (obj (JStr (au (ext_name E0004))) (JStr (au (b "md5"))) (JNum 2) (JNum 16) (JBool true) JAbsent JAbsent JAbsent) = Err.
Proof. repeat split; vm_compute; reflexivity. Qed.

(** 0007 without delimiter and without config.json (fix dec6d3f): accepted, with the
    documented defaults (delimiter ":", 3 x 3, left padding, no reversal) *)
Definition path_under (r : res cfg) (id : ustr) : res bytes := res_bind r (fun c => Layout.map c id []).
Lemma fixed_cfg_0007_defaults :
  new_params_agree (new true E0007 RawNone) (parse E0007 RawNone) = true /\
  allowed E0007 RawNone = true /\
  new_params_agree (new true E0007 (obj (JStr (au (ext_name E0007))) JAbsent JAbsent JAbsent JAbsent JAbsent JAbsent JAbsent))
                   (parse E0007 (obj (JStr (au (ext_name E0007))) JAbsent JAbsent JAbsent JAbsent JAbsent JAbsent JAbsent)) = true /\
  allowed E0007 (obj (JStr (au (ext_name E0007))) JAbsent JAbsent JAbsent JAbsent JAbsent JAbsent JAbsent) = true /\
  path_under (new true E0007 RawNone) (au (b "ns:12")) = Ok (b "000/000/012/12") /\
  path_under (new true E0007 (obj (JStr (au (ext_name E0007))) JAbsent (JNum 2) JAbsent JAbsent JAbsent JAbsent JAbsent)) (au (b "urn:uuid:12345")) =
    Ok (b "01/23/45/12345") /\
  new true E0006 RawNone = Err /\ allowed E0006 RawNone = false /\
  new true E0006 (obj (JStr (au (ext_name E0006))) JAbsent JAbsent JAbsent JAbsent JAbsent JAbsent JAbsent) = Err /\
  allowed E0006 (obj (JStr (au (ext_name E0006))) JAbsent JAbsent JAbsent JAbsent JAbsent JAbsent JAbsent) = false.
Proof. repeat split; vm_compute; reflexivity. Qed.

(** a JSON array (fix 8478633) is refused by code and documents, for all five extensions *)
Lemma fixed_cfg_array :
  new true E0004 (RawSeq [JStr (au (ext_name E0004)); JStr (au (b "md5")); JNum 2; JNum 2]) = Err /\
  allowed E0004 (RawSeq [JStr (au (ext_name E0004)); JStr (au (b "md5")); JNum 2; JNum 2]) = false /\
  new true E0002 (RawSeq [JStr (au (ext_name E0002))]) = Err /\
  new true E0003 (RawSeq [JStr (au (ext_name E0003)); JStr (au (b "md5")); JNum 2; JNum 2]) = Err /\
  new true E0006 (RawSeq [JStr (au (ext_name E0006)); JStr (au (b ":"))]) = Err /\
  new true E0007 (RawSeq [JStr (au (ext_name E0007)); JStr (au (b ":")); JNum 2; JNum 2]) = Err /\
  new true E0007 (RawSeq []) = Err /\
  is_accepted (new true E0004 (obj (JStr (au (ext_name E0004))) (JStr (au (b "md5"))) (JNum 2) (JNum 2) JAbsent JAbsent JAbsent JAbsent)) = true.
Proof. repeat split; vm_compute; reflexivity. Qed.

(** configurations the theorems talk about exist on both sides *)
Lemma cfg_examples :
  is_accepted (new true E0004 (obj (JStr (au (ext_name E0004))) (JStr (au (b "md5"))) (JNum 2) (JNum 15) (JBool true) JAbsent JAbsent JAbsent)) = true /\
  allowed E0004 (obj (JStr (au (ext_name E0004))) (JStr (au (b "md5"))) (JNum 2) (JNum 15) (JBool true) JAbsent JAbsent JAbsent) = true /\
  new true E0004 (obj (JStr (au (ext_name E0004))) (JStr (au (b "md5"))) (JNum 2) (JNum 17) JAbsent JAbsent JAbsent JAbsent) = Err /\
  allowed E0004 (obj (JStr (au (ext_name E0004))) (JStr (au (b "md5"))) (JNum 2) (JNum 17) JAbsent JAbsent JAbsent JAbsent) = false /\
  new true E0003 (obj JAbsent JAbsent (JNum 3) (JNum 0) JAbsent JAbsent JAbsent JAbsent) = Err /\
  new true E0006 (obj (JStr (au (ext_name E0006))) JAbsent JAbsent JAbsent JAbsent (JStr (au [])) JAbsent JAbsent) = Err /\
  is_accepted (new true E0007 (obj (JStr (au (ext_name E0007))) JAbsent (JNum 32) (JNum 32) JAbsent (JStr (au (b "edu/"))) (JStr (au (b "right"))) (JBool true))) = true /\
  new true E0007 (obj (JStr (au (ext_name E0007))) JAbsent (JNum 33) (JNum 1) JAbsent (JStr (au (b ":"))) JAbsent JAbsent) = Err /\
  new true E0007 (obj (JStr (au (ext_name E0007))) JAbsent (JNum 0) (JNum 1) JAbsent (JStr (au (b ":"))) JAbsent JAbsent) = Err.
Proof. repeat split; vm_compute; reflexivity. Qed.
