(** C19, part 1: the JSON text of the id field and the regex pre-filter
    (Model/Listing.v [json_escape], [parse_inventory_id], [extract_object_id]). *)
From Rocfl Require Import Base.Bytes Generated.Consts Model.Listing Proofs.BytesFacts.
From Coq Require Import Lia.
Open Scope N_scope.

(** * Pinned constants: a change of these in /repo breaks the proofs *)
Lemma object_id_matcher_pinned :
  K_OBJECT_ID_MATCHER = b """id""\s*:\s*(""(?:[^""\\]|\\.)+"")".
Proof. reflexivity. Qed.

Lemma listing_consts_pinned :
  K_EXTENSIONS_DIR = b "extensions" /\ K_INVENTORY_FILE = b "inventory.json" /\
  K_OBJECT_NAMASTE_FILE_PREFIX = b "0=ocfl_object_" /\
  K_MUTABLE_HEAD_EXT_DIR = b "extensions/0005-mutable-head" /\
  MUTABLE_HEAD_INV = [K_EXTENSIONS_DIR; b "0005-mutable-head"; b "head"; K_INVENTORY_FILE].
Proof. repeat split; reflexivity. Qed.

(** the key the scan looks for is the literal head of the regex *)
Lemma id_key_is_regex_head : starts_with ID_KEY K_OBJECT_ID_MATCHER = true.
Proof. reflexivity. Qed.

Ltac all_bytes c := destruct c as [[] [] [] [] [] [] [] []].

Definition notq (c : ascii) : bool := negb (code c =? 34).
Definition notnl (c : ascii) : bool := negb (code c =? 10).

(** * Facts about one escaped byte (256 cases each) *)
Lemma esc_byte_unquote c X :
  json_unquote (json_escape_byte c ++ X) = prepend [c] (json_unquote X).
Proof. all_bytes c; reflexivity. Qed.

Lemma tsb_plain c X :
  ((code c =? 34) || (code c =? 10) || (code c =? 92)) = false ->
  take_string_body (c :: X) = prepend [c] (take_string_body X).
Proof.
  intros H. apply orb_false_iff in H as [H H3]. apply orb_false_iff in H as [H1 H2].
  cbn [take_string_body]. now rewrite H1, H2, H3.
Qed.

Lemma tsb_esc e X :
  (code e =? 10) = false -> take_string_body (BSL :: e :: X) = prepend [BSL; e] (take_string_body X).
Proof.
  intros H. cbn [take_string_body]. change (code BSL =? 34) with false. change (code BSL =? 10) with false.
  change (code BSL =? 92) with true. cbv iota. now rewrite H.
Qed.

Lemma prepend_prepend a c o : prepend a (prepend c o) = prepend (a ++ c) o.
Proof. destruct o as [[x z]|]; [|reflexivity]. cbn [prepend]. now rewrite app_assoc. Qed.

(** the regex units of the pre-filter consume an escaped byte as a whole *)
Lemma esc_byte_body c X :
  take_string_body (json_escape_byte c ++ X) = prepend (json_escape_byte c) (take_string_body X).
Proof.
  all_bytes c; lazy -[take_string_body prepend];
    rewrite ?tsb_esc by reflexivity; rewrite ?tsb_plain by reflexivity; rewrite ?prepend_prepend; reflexivity.
Qed.

Lemma esc_byte_no_nl c : forallb notnl (json_escape_byte c) = true.
Proof. all_bytes c; reflexivity. Qed.

Lemma esc_byte_quote c : forallb notq (json_escape_byte c) = notq c.
Proof. all_bytes c; reflexivity. Qed.

Lemma esc_byte_head c : exists h r, json_escape_byte c = h :: r /\ notq h = true.
Proof. all_bytes c; eexists; eexists; split; reflexivity. Qed.

Lemma esc_byte_len c :
  (List.length (json_escape_byte c) =
   if needs_escape_byte c then S (S (Nat.pred (Nat.pred (List.length (json_escape_byte c))))) else 1)%nat.
Proof. all_bytes c; reflexivity. Qed.

Lemma esc_byte_plain c : needs_escape_byte c = false -> json_escape_byte c = [c].
Proof. intros H. unfold json_escape_byte. now rewrite H. Qed.

Lemma needs_escape_byte_notq c : needs_escape_byte c = false -> notq c = true.
Proof. all_bytes c; intros H; try reflexivity; discriminate H. Qed.

(** * Escaping as a whole *)
Lemma json_escape_cons c s : json_escape (c :: s) = json_escape_byte c ++ json_escape s.
Proof. reflexivity. Qed.

Lemma unquote_escape i z : json_unquote (json_escape i ++ QUO :: z) = Some (i, z).
Proof.
  induction i as [|c i IH].
  - reflexivity.
  - rewrite json_escape_cons, <- app_assoc, esc_byte_unquote, IH. reflexivity.
Qed.

Lemma json_escape_no_nl i : forallb notnl (json_escape i) = true.
Proof.
  induction i as [|c i IH]; [reflexivity|].
  rewrite json_escape_cons, forallb_app, esc_byte_no_nl, IH. reflexivity.
Qed.

Lemma json_escape_quote_free i : forallb notq i = true -> forallb notq (json_escape i) = true.
Proof.
  induction i as [|c i IH]; [reflexivity|]. cbn [forallb]. intros H.
  apply andb_true_iff in H as [H1 H2].
  rewrite json_escape_cons, forallb_app, esc_byte_quote, H1, (IH H2). reflexivity.
Qed.

Lemma json_escape_plain i : needs_escape i = false -> json_escape i = i.
Proof.
  induction i as [|c i IH]; [reflexivity|]. unfold needs_escape. cbn [existsb]. intros H.
  apply orb_false_iff in H as [H1 H2].
  rewrite json_escape_cons, (esc_byte_plain _ H1), (IH H2). reflexivity.
Qed.

Lemma needs_escape_false_notq i : needs_escape i = false -> forallb notq i = true.
Proof.
  induction i as [|c i IH]; [reflexivity|]. unfold needs_escape. cbn [existsb forallb]. intros H.
  apply orb_false_iff in H as [H1 H2]. rewrite (needs_escape_byte_notq _ H1). apply (IH H2).
Qed.

Lemma json_escape_length i :
  (List.length i <= List.length (json_escape i))%nat /\
  (needs_escape i = true -> (List.length i < List.length (json_escape i))%nat).
Proof.
  induction i as [|c i [IH1 IH2]].
  - split; [apply le_n| discriminate].
  - rewrite json_escape_cons, app_length. unfold needs_escape. cbn [existsb List.length].
    pose proof (esc_byte_len c) as L. destruct (needs_escape_byte c) eqn:E.
    + split; [lia| intros _; lia].
    + cbn [orb]. split; [lia|]. intros H. specialize (IH2 H). lia.
Qed.

(** * The string the pre-filter captures from an inventory written by rocfl:
    the whole escaped id, which decodes to the id *)
Lemma body_escape i z : take_string_body (json_escape i ++ QUO :: z) = Some (json_escape i, z).
Proof.
  induction i as [|c i IH].
  - reflexivity.
  - rewrite json_escape_cons, <- app_assoc, esc_byte_body, IH. cbn [prepend]. reflexivity.
Qed.

Lemma decode_escape i : decode_id_text (json_escape i) = i.
Proof. unfold decode_id_text. now rewrite unquote_escape. Qed.

Lemma json_escape_nonempty i : i <> [] -> nonempty (json_escape i) = true.
Proof.
  destruct i as [|c i]; [congruence|]. intros _. rewrite json_escape_cons.
  destruct (esc_byte_head c) as (h & r & -> & _). reflexivity.
Qed.

(** * Whitespace skipping stops at a byte that starts no white-space character *)
Definition ws_lead (a : N) : bool := (a =? 194) || (a =? 225) || (a =? 226) || (a =? 227).

Lemma skip_ws_stop c s : ws1 (code c) = false -> ws_lead (code c) = false -> skip_ws (c :: s) = c :: s.
Proof.
  intros H1 H2. unfold ws_lead in H2.
  apply orb_false_iff in H2 as [H2 H5]. apply orb_false_iff in H2 as [H2 H4]. apply orb_false_iff in H2 as [H2 H3].
  destruct s as [|c2 [|c3 r3]]; cbn [skip_ws]; rewrite H1; try reflexivity;
    unfold ws2, ws3; rewrite ?H2, ?H3, ?H4, ?H5; reflexivity.
Qed.

Lemma match_after_key_compact X :
  match_after_key (":"%char :: QUO :: X) =
  match take_string_body X with
  | Some (body, _) => if nonempty body then Some (decode_id_text body) else None
  | None => None
  end.
Proof.
  unfold match_after_key. rewrite (skip_ws_stop ":"%char) by reflexivity.
  change (code ":"%char =? 58) with true. cbv iota.
  rewrite (skip_ws_stop QUO) by reflexivity.
  change (code QUO =? 34) with true. cbv iota. reflexivity.
Qed.

Lemma match_after_key_pretty X :
  match_after_key (":"%char :: " "%char :: QUO :: X) =
  match take_string_body X with
  | Some (body, _) => if nonempty body then Some (decode_id_text body) else None
  | None => None
  end.
Proof.
  unfold match_after_key. rewrite (skip_ws_stop ":"%char) by reflexivity.
  change (code ":"%char =? 58) with true. cbv iota.
  change (skip_ws (" "%char :: QUO :: X)) with (skip_ws (QUO :: X)).
  rewrite (skip_ws_stop QUO) by reflexivity.
  change (code QUO =? 34) with true. cbv iota. reflexivity.
Qed.

Lemma match_after_key_escaped i rest :
  i <> [] ->
  match take_string_body (json_escape i ++ QUO :: rest) with
  | Some (body, _) => if nonempty body then Some (decode_id_text body) else None
  | None => None
  end = Some i.
Proof. intros Hi. now rewrite body_escape, (json_escape_nonempty i Hi), decode_escape. Qed.

(** * What the pre-filter extracts from an inventory written by rocfl: the id,
    whatever bytes it is made of (5a727de) *)
Lemma extract_serialized pretty i rest :
  i <> [] -> extract_object_id (serialize_inventory pretty i rest) = Some i.
Proof.
  intros Hi. destruct pretty.
  - change (serialize_inventory true i rest) with
      ("{"%char :: ascii_of_N 10 :: " "%char :: " "%char :: QUO :: "i"%char :: "d"%char :: QUO ::
       ":"%char :: " "%char :: QUO :: (json_escape i ++ QUO :: rest)).
    change (extract_object_id
      ("{"%char :: ascii_of_N 10 :: " "%char :: " "%char :: QUO :: "i"%char :: "d"%char :: QUO ::
       ":"%char :: " "%char :: QUO :: (json_escape i ++ QUO :: rest)))
      with (match match_after_key (":"%char :: " "%char :: QUO :: (json_escape i ++ QUO :: rest)) with
            | Some x => Some x
            | None => extract_object_id ("i"%char :: "d"%char :: QUO ::
                        ":"%char :: " "%char :: QUO :: (json_escape i ++ QUO :: rest))
            end).
    rewrite match_after_key_pretty, (match_after_key_escaped i rest Hi). reflexivity.
  - change (serialize_inventory false i rest) with
      ("{"%char :: QUO :: "i"%char :: "d"%char :: QUO :: ":"%char :: QUO :: (json_escape i ++ QUO :: rest)).
    change (extract_object_id
      ("{"%char :: QUO :: "i"%char :: "d"%char :: QUO :: ":"%char :: QUO :: (json_escape i ++ QUO :: rest)))
      with (match match_after_key (":"%char :: QUO :: (json_escape i ++ QUO :: rest)) with
            | Some x => Some x
            | None => extract_object_id ("i"%char :: "d"%char :: QUO ::
                        ":"%char :: QUO :: (json_escape i ++ QUO :: rest))
            end).
    rewrite match_after_key_compact, (match_after_key_escaped i rest Hi). reflexivity.
Qed.

(** * Historical note: the pre-filter before 5a727de ([extract_object_id_before_fix])
    captured the escaped id up to its first quote and compared that text *)
Fixpoint until_quote (s : bytes) : bytes :=
  match s with
  | [] => []
  | c :: r => if code c =? 34 then [] else c :: until_quote r
  end.

Definition raw_capture (id : bytes) : bytes := until_quote (json_escape id).

Lemma until_quote_free s : forallb notq (until_quote s) = true.
Proof.
  induction s as [|c s IH]; [reflexivity|]. cbn [until_quote].
  destruct (code c =? 34) eqn:E; [reflexivity|]. cbn [forallb]. unfold notq at 1. now rewrite E, IH.
Qed.

Lemma until_quote_id s : forallb notq s = true -> until_quote s = s.
Proof.
  induction s as [|c s IH]; [reflexivity|]. cbn [forallb until_quote]. intros H.
  apply andb_true_iff in H as [H1 H2]. unfold notq in H1. apply negb_true_iff in H1.
  now rewrite H1, (IH H2).
Qed.

Lemma code_34 c : (code c =? 34) = true -> c = QUO.
Proof. all_bytes c; intros H; try reflexivity; discriminate H. Qed.

Lemma take_nonquote_app e z :
  forallb notnl e = true ->
  exists z', take_nonquote (e ++ QUO :: z) = (until_quote e, QUO :: z').
Proof.
  induction e as [|c e IH]; intros H.
  - exists z. reflexivity.
  - cbn [forallb] in H. apply andb_true_iff in H as [H1 H2]. unfold notnl in H1. apply negb_true_iff in H1.
    cbn [app take_nonquote until_quote]. rewrite H1. destruct (code c =? 34) eqn:E.
    + cbn [orb]. rewrite (code_34 _ E). eexists. reflexivity.
    + cbn [orb]. destruct (IH H2) as [z' ->]. exists z'. reflexivity.
Qed.

Lemma raw_capture_nonempty i : i <> [] -> nonempty (raw_capture i) = true.
Proof.
  destruct i as [|c i]; [congruence|]. intros _. unfold raw_capture. rewrite json_escape_cons.
  destruct (esc_byte_head c) as (h & r & -> & Hq). cbn [app until_quote].
  unfold notq in Hq. apply negb_true_iff in Hq. rewrite Hq. reflexivity.
Qed.

Lemma match_after_key_before_fix_compact X :
  match_after_key_before_fix (":"%char :: QUO :: X) =
  match take_nonquote X with
  | (cap, q2 :: _) => if (code q2 =? 34) && nonempty cap then Some cap else None
  | (_, []) => None
  end.
Proof.
  unfold match_after_key_before_fix. rewrite (skip_ws_stop ":"%char) by reflexivity.
  change (code ":"%char =? 58) with true. cbv iota.
  rewrite (skip_ws_stop QUO) by reflexivity.
  change (code QUO =? 34) with true. cbv iota. reflexivity.
Qed.

Lemma match_after_key_before_fix_pretty X :
  match_after_key_before_fix (":"%char :: " "%char :: QUO :: X) =
  match take_nonquote X with
  | (cap, q2 :: _) => if (code q2 =? 34) && nonempty cap then Some cap else None
  | (_, []) => None
  end.
Proof.
  unfold match_after_key_before_fix. rewrite (skip_ws_stop ":"%char) by reflexivity.
  change (code ":"%char =? 58) with true. cbv iota.
  change (skip_ws (" "%char :: QUO :: X)) with (skip_ws (QUO :: X)).
  rewrite (skip_ws_stop QUO) by reflexivity.
  change (code QUO =? 34) with true. cbv iota. reflexivity.
Qed.

Lemma match_after_key_before_fix_escaped i rest :
  i <> [] ->
  match take_nonquote (json_escape i ++ QUO :: rest) with
  | (cap, q2 :: _) => if (code q2 =? 34) && nonempty cap then Some cap else None
  | (_, []) => None
  end = Some (raw_capture i).
Proof.
  intros Hi. destruct (take_nonquote_app (json_escape i) rest (json_escape_no_nl i)) as [z' ->].
  change (code QUO =? 34) with true. fold (raw_capture i). rewrite (raw_capture_nonempty i Hi). reflexivity.
Qed.

Lemma extract_serialized_before_fix pretty i rest :
  i <> [] -> extract_object_id_before_fix (serialize_inventory pretty i rest) = Some (raw_capture i).
Proof.
  intros Hi. destruct pretty.
  - change (serialize_inventory true i rest) with
      ("{"%char :: ascii_of_N 10 :: " "%char :: " "%char :: QUO :: "i"%char :: "d"%char :: QUO ::
       ":"%char :: " "%char :: QUO :: (json_escape i ++ QUO :: rest)).
    change (extract_object_id_before_fix
      ("{"%char :: ascii_of_N 10 :: " "%char :: " "%char :: QUO :: "i"%char :: "d"%char :: QUO ::
       ":"%char :: " "%char :: QUO :: (json_escape i ++ QUO :: rest)))
      with (match match_after_key_before_fix (":"%char :: " "%char :: QUO :: (json_escape i ++ QUO :: rest)) with
            | Some x => Some x
            | None => extract_object_id_before_fix ("i"%char :: "d"%char :: QUO ::
                        ":"%char :: " "%char :: QUO :: (json_escape i ++ QUO :: rest))
            end).
    rewrite match_after_key_before_fix_pretty, (match_after_key_before_fix_escaped i rest Hi). reflexivity.
  - change (serialize_inventory false i rest) with
      ("{"%char :: QUO :: "i"%char :: "d"%char :: QUO :: ":"%char :: QUO :: (json_escape i ++ QUO :: rest)).
    change (extract_object_id_before_fix
      ("{"%char :: QUO :: "i"%char :: "d"%char :: QUO :: ":"%char :: QUO :: (json_escape i ++ QUO :: rest)))
      with (match match_after_key_before_fix (":"%char :: QUO :: (json_escape i ++ QUO :: rest)) with
            | Some x => Some x
            | None => extract_object_id_before_fix ("i"%char :: "d"%char :: QUO ::
                        ":"%char :: QUO :: (json_escape i ++ QUO :: rest))
            end).
    rewrite match_after_key_before_fix_compact, (match_after_key_before_fix_escaped i rest Hi). reflexivity.
Qed.

(** the old capture was the id itself exactly when the id needs no JSON escape *)
Lemma raw_capture_is_id i : raw_capture i = i <-> needs_escape i = false.
Proof.
  split.
  - intros H. destruct (needs_escape i) eqn:E; [|reflexivity]. exfalso.
    assert (Q : forallb notq i = true) by (rewrite <- H; apply until_quote_free).
    unfold raw_capture in H. rewrite (until_quote_id _ (json_escape_quote_free i Q)) in H.
    destruct (json_escape_length i) as [_ L]. specialize (L E). rewrite H in L. lia.
  - intros H. unfold raw_capture. rewrite (json_escape_plain i H).
    apply until_quote_id, needs_escape_false_notq, H.
Qed.

Lemma extract_before_fix_spec pretty i rest :
  i <> [] ->
  (extract_object_id_before_fix (serialize_inventory pretty i rest) = Some i <-> needs_escape i = false).
Proof.
  intros Hi. rewrite (extract_serialized_before_fix pretty i rest Hi). split.
  - intros H. apply raw_capture_is_id. congruence.
  - intros H. f_equal. apply raw_capture_is_id, H.
Qed.

Lemma extract_before_fix_history pretty i rest :
  i <> [] ->
  extract_object_id_before_fix (serialize_inventory pretty i rest) = Some (raw_capture i) /\
  (extract_object_id_before_fix (serialize_inventory pretty i rest) = Some i <-> needs_escape i = false).
Proof. intros H. split; [apply extract_serialized_before_fix, H| apply extract_before_fix_spec, H]. Qed.

(** * Parsing the id of the whole inventory *)
Lemma parse_serialized pretty i rest :
  i <> [] -> parse_inventory_id (serialize_inventory pretty i rest) = Some i.
Proof.
  intros Hi.
  assert (E : parse_inventory_id (serialize_inventory pretty i rest) =
              match json_unquote (json_escape i ++ QUO :: rest) with
              | Some (j, _) => if nonempty j then Some j else None
              | None => None
              end) by (destruct pretty; reflexivity).
  rewrite E, unquote_escape. destruct i; [congruence| reflexivity].
Qed.
