(** C19, part 3: lookup through a path (layout or cache), purge, the cache
    (Model/Listing.v [get_inventory_by_path], [remove_at], [get_inventory]). *)
From Rocfl Require Import Base.Bytes Generated.Consts Model.Listing Model.KnownC19
  Proofs.BytesFacts Proofs.ListingFacts Proofs.ListingWalkFacts.
From Coq Require Import Lia Permutation.
Open Scope N_scope.

(** * Unique names: the first entry with a name is the only one *)
Lemma existsb_name_in n (es : entries) c : In (n, c) es -> existsb (bytes_eqb n) (map fst es) = true.
Proof.
  intros H. apply existsb_exists. exists n. split; [|apply bytes_eqb_refl].
  apply in_map_iff. exists (n, c). now split.
Qed.

Lemma lookup1_unique (es : entries) n c :
  nodup_names (map fst es) = true -> In (n, c) es -> lookup1 es n = Some c.
Proof.
  induction es as [|[m d] es IH]; [intros _ []|].
  cbn [map fst nodup_names lookup1 snd]. intros U H. apply andb_true_iff in U as [U1 U2].
  destruct H as [H|H].
  - injection H as -> ->. now rewrite bytes_eqb_refl.
  - destruct (bytes_eqb m n) eqn:E.
    + apply bytes_eqb_eq in E. subst m. rewrite (existsb_name_in n es c H) in U1. discriminate.
    + apply IH; assumption.
Qed.

Lemma names_unique_dir es :
  names_unique (Dir es) = true ->
  nodup_names (map fst es) = true /\ forall e, In e es -> names_unique (snd e) = true.
Proof.
  cbn [names_unique]. intros H. apply andb_true_iff in H as [H1 H2]. split; [exact H1|].
  intros [n c] Hin. rewrite forallb_forall in H2. apply (H2 _ Hin).
Qed.

Lemma step_in deep n c r :
  In r (step deep (n, c)) ->
  exists ces, c = Dir ces /\ (deep && bytes_eqb n EXT) = false /\
    ((is_object_root ces = true /\ r = ([n], ces)) \/
     (is_object_root ces = false /\ exists r', In r' (walk_gen deep c) /\ r = push n r')).
Proof.
  destruct c as [fc|ces]; [intros []|]. cbn [step]. intros H. exists ces. split; [reflexivity|].
  destruct (deep && bytes_eqb n EXT); [destruct H|]. split; [reflexivity|].
  destruct (is_object_root ces).
  - left. destruct H as [<-|[]]. now split.
  - right. split; [reflexivity|]. apply in_map_iff in H as (r' & <- & Hr'). eauto.
Qed.

Lemma lookup_walk deep t :
  names_unique t = true -> forall p ces, In (p, ces) (walk_gen deep t) -> lookup_path t p = Some (Dir ces).
Proof.
  induction t as [c|es IH] using tree_ind2; intros U p ces H; [destruct H|].
  rewrite walk_gen_dir in H. apply in_flat_map in H as ([n c] & Hin & Hr).
  destruct (names_unique_dir es U) as [U1 U2].
  apply step_in in Hr as (ces' & -> & _ & [[_ E]|[_ (r' & Hr' & E)]]).
  - injection E as -> ->. cbn [lookup_path]. now rewrite (lookup1_unique es n _ U1 Hin).
  - destruct r' as [p' ces'']. unfold push in E. cbn [fst snd] in E. injection E as -> ->.
    cbn [lookup_path]. rewrite (lookup1_unique es n _ U1 Hin).
    rewrite Forall_forall in IH. apply (IH _ Hin (U2 _ Hin)), Hr'.
Qed.

(** the same for the specification's roots (the top-level extensions entry is filtered first) *)
Lemma lookup1_filter_ext (es : entries) n c :
  lookup1 (filter (fun e => negb (bytes_eqb (fst e) EXT)) es) n = Some c -> n <> EXT ->
  lookup1 es n = Some c.
Proof.
  induction es as [|[m d] es IH]; [discriminate|]. cbn [filter fst]. intros H Hn.
  cbn [lookup1 fst snd]. destruct (bytes_eqb m EXT) eqn:E; cbn [negb] in H.
  - apply bytes_eqb_eq in E. subst m. destruct (bytes_eqb EXT n) eqn:E2.
    + apply bytes_eqb_eq in E2. congruence.
    + apply IH; assumption.
  - cbn [lookup1 fst snd] in H. destruct (bytes_eqb m n); [exact H| apply IH; assumption].
Qed.

Lemma lookup1_in (es : entries) n c : lookup1 es n = Some c -> exists m, In (m, c) es /\ bytes_eqb m n = true.
Proof.
  induction es as [|[m d] es IH]; [discriminate|]. cbn [lookup1 fst snd].
  destruct (bytes_eqb m n) eqn:E.
  - intros H. injection H as ->. exists m. split; [now left| exact E].
  - intros H. destruct (IH H) as (m' & A & B). exists m'. split; [now right| exact B].
Qed.

Lemma nodup_names_filter (f : name * tree -> bool) (es : entries) :
  nodup_names (map fst es) = true -> nodup_names (map fst (filter f es)) = true.
Proof.
  induction es as [|[m d] es IH]; [reflexivity|]. cbn [map fst nodup_names filter]. intros U.
  apply andb_true_iff in U as [U1 U2]. destruct (f (m, d)); [|apply IH, U2].
  cbn [map fst nodup_names]. rewrite (IH U2), andb_true_r.
  apply negb_true_iff. apply negb_true_iff in U1.
  destruct (existsb (bytes_eqb m) (map fst (filter f es))) eqn:E; [|reflexivity].
  apply existsb_exists in E as (x & Hx & Ex). apply in_map_iff in Hx as (e & <- & He).
  apply filter_In in He as [He _].
  assert (existsb (bytes_eqb m) (map fst es) = true).
  { apply existsb_exists. exists (fst e). split; [apply in_map, He| exact Ex]. }
  congruence.
Qed.

Lemma names_unique_drop t : names_unique t = true -> names_unique (drop_top_ext t) = true.
Proof.
  destruct t as [c|es]; [trivial|]. intros U. destruct (names_unique_dir es U) as [U1 U2].
  cbn [drop_top_ext names_unique]. rewrite (nodup_names_filter _ es U1). cbn [andb].
  apply forallb_forall. intros [n c] H. apply filter_In in H as [H _]. apply (U2 _ H).
Qed.

Lemma spec_roots_head t p ces : In (p, ces) (spec_roots t) -> exists n q, p = n :: q /\ n <> EXT.
Proof.
  unfold spec_roots. destruct t as [c|es]; [intros []|]. cbn [drop_top_ext]. rewrite walk_gen_dir.
  intros H. apply in_flat_map in H as ([n c] & Hin & Hr). apply filter_In in Hin as [_ Hn].
  cbn [fst] in Hn. apply negb_true_iff, bytes_eqb_neq in Hn.
  apply step_in in Hr as (ces' & -> & _ & [[_ E]|[_ (r' & _ & E)]]).
  - injection E as -> ->. eauto.
  - unfold push in E. injection E as -> ->. eauto.
Qed.

Lemma lookup_spec t p ces :
  names_unique t = true -> In (p, ces) (spec_roots t) -> lookup_path t p = Some (Dir ces).
Proof.
  intros U H. destruct (spec_roots_head t p ces H) as (n & q & -> & Hn).
  pose proof (lookup_walk false (drop_top_ext t) (names_unique_drop t U) _ _ H) as L.
  destruct t as [c|es]; [discriminate L|]. cbn [drop_top_ext lookup_path] in *.
  destruct (lookup1 (filter (fun e => negb (bytes_eqb (fst e) EXT)) es) n) as [c|] eqn:E; [|discriminate].
  now rewrite (lookup1_filter_ext es n c E Hn).
Qed.

(** * Lookup through the layout path *)
Definition Placed (m : bytes -> path) (t : tree) : Prop :=
  forall r i, In r (spec_roots t) -> In i (root_id r) -> fst r = m i.

Lemma in_committed_inv t i : In i (committed_ids t) -> exists r, In r (spec_roots t) /\ In i (root_id r).
Proof. unfold committed_ids. intros H. apply in_flat_map in H. exact H. Qed.

Lemma root_id_parse r i : In i (root_id r) -> parse_inventory (snd r) = Ok i.
Proof.
  unfold root_id. destruct (parse_inventory (snd r)) as [j| |]; [|intros []|intros []].
  intros [<-|[]]. reflexivity.
Qed.

Lemma walk_gen_paths_nonempty deep t r : In r (walk_gen deep t) -> fst r <> [].
Proof.
  destruct t as [c|es]; [intros []|]. rewrite walk_gen_dir. intros H.
  apply in_flat_map in H as ([n c] & _ & Hr). destruct (step_head deep n c r Hr) as [q ->]. discriminate.
Qed.

(** * No object root the walk yields lies inside another object *)
Lemma lookup1_filter_ext_eq (es : entries) n :
  n <> EXT -> lookup1 (filter (fun e => negb (bytes_eqb (fst e) EXT)) es) n = lookup1 es n.
Proof.
  intros Hn. induction es as [|[m d] es IH]; [reflexivity|]. cbn [filter fst lookup1 snd].
  destruct (bytes_eqb m EXT) eqn:E; cbn [negb].
  - apply bytes_eqb_eq in E. subst m. destruct (bytes_eqb EXT n) eqn:E2; [|exact IH].
    apply bytes_eqb_eq in E2. congruence.
  - cbn [lookup1 fst snd]. destruct (bytes_eqb m n); [reflexivity| exact IH].
Qed.

Lemma walk_not_nested deep t :
  names_unique t = true -> forall p ces, In (p, ces) (walk_gen deep t) -> nested_in_object t p = false.
Proof.
  induction t as [c|es IH] using tree_ind2; intros U p ces H; [destruct H|].
  rewrite walk_gen_dir in H. apply in_flat_map in H as ([n c] & Hin & Hr).
  destruct (names_unique_dir es U) as [U1 U2].
  apply step_in in Hr as (ces' & -> & _ & [[_ E]|[Hroot (r' & Hr' & E)]]).
  - injection E as -> ->. reflexivity.
  - destruct r' as [q ces'']. unfold push in E. cbn [fst snd] in E. injection E as -> ->.
    pose proof (walk_gen_paths_nonempty deep _ _ Hr') as Hq. cbn [fst] in Hq.
    destruct q as [|n2 q]; [congruence|].
    cbn [nested_in_object]. rewrite (lookup1_unique es n _ U1 Hin), Hroot. cbn [orb].
    rewrite Forall_forall in IH. apply (IH _ Hin (U2 _ Hin) _ _ Hr').
Qed.

Lemma nested_drop_top t n q :
  n <> EXT -> nested_in_object (drop_top_ext t) (n :: q) = nested_in_object t (n :: q).
Proof.
  intros Hn. destruct t as [c|es]; [reflexivity|]. destruct q as [|n2 q]; [reflexivity|].
  cbn [drop_top_ext nested_in_object]. now rewrite (lookup1_filter_ext_eq es n Hn).
Qed.

Lemma spec_root_not_nested t p ces :
  names_unique t = true -> In (p, ces) (spec_roots t) -> nested_in_object t p = false.
Proof.
  intros U H. destruct (spec_roots_head t p ces H) as (n & q & -> & Hn).
  rewrite <- (nested_drop_top t n q Hn).
  apply (walk_not_nested false (drop_top_ext t) (names_unique_drop t U) _ _ H).
Qed.

(** the root of an object answers for that object *)
Lemma get_by_path_root t p ces i :
  names_unique t = true -> In (p, ces) (spec_roots t) -> In i (root_id (p, ces)) ->
  get_inventory_by_path t i p = Found p i.
Proof.
  intros U Hr Hi. pose proof (walk_gen_paths_nonempty false _ _ Hr) as Np. cbn [fst] in Np.
  pose proof (walk_gen_roots false _ _ Hr) as R. cbn [snd] in R.
  pose proof (root_id_parse _ _ Hi) as Q. cbn [snd] in Q.
  unfold get_inventory_by_path, object_like. destruct p as [|n q]; [congruence|].
  rewrite (spec_root_not_nested t _ ces U Hr), (lookup_spec t _ ces U Hr), R. cbn [orb].
  now rewrite Q, bytes_eqb_refl.
Qed.

Lemma get_by_path_committed m t i :
  names_unique t = true -> Placed m t -> In i (committed_ids t) ->
  get_inventory_by_path t i (m i) = Found (m i) i.
Proof.
  intros U P H. destruct (in_committed_inv t i H) as ([p ces] & Hr & Hi).
  pose proof (P _ _ Hr Hi) as E. cbn [fst] in E. subst p. apply (get_by_path_root t _ ces i U Hr Hi).
Qed.

(** whatever is at the path, if it does not look like an object the answer is NotFound
    (nothing, a regular file, a directory without declaration and inventory) *)
Lemma get_by_path_not_object t i p : object_like t p = false -> get_inventory_by_path t i p = NotFound.
Proof.
  intros H. unfold get_inventory_by_path. destruct p; [reflexivity|]. rewrite H.
  now destruct (nested_in_object t (n :: p)).
Qed.

(** nothing inside another object is ever taken for an object *)
Lemma get_by_path_nested t i p : nested_in_object t p = true -> get_inventory_by_path t i p = NotFound.
Proof. intros H. unfold get_inventory_by_path. destruct p; [reflexivity|]. now rewrite H. Qed.

Lemma object_like_free t p : lookup_path t p = None -> object_like t p = false.
Proof. intros H. unfold object_like. now rewrite H. Qed.

Lemma get_by_path_free t i p : lookup_path t p = None -> get_inventory_by_path t i p = NotFound.
Proof. intros H. apply get_by_path_not_object, object_like_free, H. Qed.

(** * purge *)
Lemma step_paths_head deep n c r : In r (step deep (n, c)) -> exists q, fst r = n :: q.
Proof.
  intros H. apply step_in in H as (ces & _ & _ & [[_ ->]|[_ (r' & _ & ->)]]); cbn [fst push]; eauto.
Qed.

Definition not_at (p : path) (r : objroot) : bool := negb (path_eqb (fst r) p).

Lemma filter_not_at_other deep n q e :
  bytes_eqb (fst e) n = false -> filter (not_at (n :: q)) (step deep e) = step deep e.
Proof.
  intros H. apply filter_all, forallb_forall. intros r Hr. destruct e as [m c].
  destruct (step_paths_head deep m c r Hr) as [q' E]. unfold not_at. rewrite E. cbn [path_eqb fst] in *.
  now rewrite H.
Qed.

Lemma not_in_names n (es : entries) :
  existsb (bytes_eqb n) (map fst es) = false -> forall e, In e es -> bytes_eqb (fst e) n = false.
Proof.
  intros H e He. destruct (bytes_eqb (fst e) n) eqn:E; [|reflexivity].
  assert (existsb (bytes_eqb n) (map fst es) = true).
  { apply existsb_exists. exists (fst e). split; [apply in_map, He| now rewrite bytes_eqb_sym]. }
  congruence.
Qed.

Lemma filter_not_at_rest deep n q (es : entries) :
  (forall e, In e es -> bytes_eqb (fst e) n = false) ->
  filter (not_at (n :: q)) (flat_map (step deep) es) = flat_map (step deep) es.
Proof.
  intros H. rewrite filter_flat_map. apply flat_map_ext_in. intros e He.
  apply filter_not_at_other, H, He.
Qed.

(** entries that are directories never are declarations *)
Lemma is_object_root_filter_dirs (f : name * tree -> bool) (es : entries) :
  (forall e, In e es -> f e = false -> is_decl_entry e = false) ->
  is_object_root (filter f es) = is_object_root es.
Proof.
  unfold is_object_root. induction es as [|e es IH]; [reflexivity|]. intros H. cbn [filter existsb].
  destruct (f e) eqn:E; cbn [existsb].
  - rewrite IH; [reflexivity|]. intros x Hx. apply H. now right.
  - rewrite (H e (or_introl eq_refl) E), IH; [reflexivity|]. intros x Hx. apply H. now right.
Qed.

Lemma is_object_root_map_dirs (g : name * tree -> name * tree) (es : entries) :
  (forall e, is_decl_entry (g e) = is_decl_entry e) -> is_object_root (map g es) = is_object_root es.
Proof.
  intros H. unfold is_object_root. induction es as [|e es IH]; [reflexivity|]. cbn [map existsb]. now rewrite H, IH.
Qed.

Lemma remove_at_dir_shape t p : (exists es, t = Dir es) -> exists es', remove_at t p = Dir es'.
Proof.
  intros [es ->]. destruct p as [|n [|n2 q]]; cbn [remove_at]; eauto.
Qed.

Lemma remove_at_decl n m c q :
  is_decl_entry (if bytes_eqb m n then (m, remove_at c q) else (m, c)) = is_decl_entry (m, c).
Proof.
  destruct (bytes_eqb m n); [|reflexivity]. unfold is_decl_entry. cbn [fst snd].
  destruct c as [fc|es]; [reflexivity|]. destruct (remove_at_dir_shape (Dir es) q (ex_intro _ es eq_refl)) as [es' ->].
  reflexivity.
Qed.

Lemma map_push_filter_not_at n p l :
  map (push n) (filter (not_at p) l) = filter (not_at (n :: p)) (map (push n) l).
Proof.
  induction l as [|r l IH]; [reflexivity|]. cbn [filter map].
  assert (X : not_at (n :: p) (push n r) = not_at p r).
  { unfold not_at, push. cbn [fst path_eqb]. now rewrite bytes_eqb_refl. }
  rewrite X. destruct (not_at p r); cbn [map]; now rewrite IH.
Qed.

Lemma map_upd_id n (g : tree -> tree) (es : entries) :
  (forall e, In e es -> bytes_eqb (fst e) n = false) ->
  map (fun e : name * tree => let '(m, c) := e in if bytes_eqb m n then (m, g c) else (m, c)) es = es.
Proof.
  induction es as [|[k kc] es IH]; [reflexivity|]. intros R. cbn [map].
  pose proof (R (k, kc) (or_introl eq_refl)) as Rk. cbn [fst] in Rk. rewrite Rk. f_equal.
  apply IH. intros e He. apply R. now right.
Qed.

Lemma root_child_not_decl deep ces' n2 ces :
  names_unique (Dir ces') = true -> In ([n2], ces) (walk_gen deep (Dir ces')) ->
  forall e, In e ces' -> fst e = n2 -> is_decl_entry e = false.
Proof.
  intros U H e He Hn. pose proof (lookup_walk deep _ U _ _ H) as L. cbn [lookup_path] in L.
  destruct (names_unique_dir ces' U) as [U1 _]. destruct e as [m c]. cbn [fst] in Hn. subst m.
  rewrite (lookup1_unique ces' n2 c U1 He) in L. injection L as ->. reflexivity.
Qed.

Lemma walk_remove deep t :
  names_unique t = true -> forall p ces, In (p, ces) (walk_gen deep t) ->
  walk_gen deep (remove_at t p) = filter (not_at p) (walk_gen deep t).
Proof.
  induction t as [c|es IH] using tree_ind2; intros U p ces H; [destruct H|].
  destruct (names_unique_dir es U) as [U1 U2]. rewrite Forall_forall in IH.
  rewrite walk_gen_dir in H. apply in_flat_map in H as ([n c] & Hin & Hr).
  apply step_in in Hr as (ces' & -> & Hskip & [[Hroot E]|[Hroot (r' & Hr' & E)]]).
  - (* the object root is a direct child: its entry is removed *)
    injection E as -> ->. cbn [remove_at]. rewrite !walk_gen_dir. clear IH U U2.
    induction es as [|[m d] es IHes]; [destruct Hin|].
    cbn [map fst nodup_names] in U1. apply andb_true_iff in U1 as [Ua Ub]. apply negb_true_iff in Ua.
    cbn [filter fst flat_map]. rewrite filter_app. destruct Hin as [Hin|Hin].
    + injection Hin as -> ->. rewrite bytes_eqb_refl. cbn [negb].
      pose proof (not_in_names n es Ua) as R.
      assert (A1 : filter (fun e : name * tree => negb (bytes_eqb (fst e) n)) es = es).
      { apply filter_all, forallb_forall. intros e He. now rewrite (R e He). }
      assert (A2 : filter (not_at [n]) (step deep (n, Dir ces')) = []).
      { cbn [step]. rewrite Hskip, Hroot. cbn [filter]. unfold not_at. cbn [fst]. now rewrite path_eqb_refl. }
      pose proof (filter_not_at_rest deep n [] es R) as A3.
      etransitivity; [apply f_equal, A1|]. symmetry.
      etransitivity; [apply f_equal2; [apply A2| apply A3]|]. reflexivity.
    + destruct (bytes_eqb m n) eqn:E.
      * apply bytes_eqb_eq in E. subst m. rewrite (existsb_name_in n es _ Hin) in Ua. discriminate.
      * cbn [negb flat_map]. rewrite IHes by assumption. f_equal. symmetry.
        apply (filter_not_at_other deep n [] (m, d)). exact E.
  - (* the object root is deeper: recurse into the one child with that name *)
    destruct r' as [q ces'']. unfold push in E. cbn [fst snd] in E. injection E as -> ->.
    pose proof (walk_gen_paths_nonempty deep _ _ Hr') as Hq. cbn [fst] in Hq.
    destruct q as [|n2 q]; [congruence|].
    pose proof (IH _ Hin (U2 _ Hin) (n2 :: q) ces'' Hr') as IHc. cbn [snd] in IHc.
    pose proof (U2 _ Hin) as Uc. cbn [snd] in Uc. clear IH U U2.
    (* the child stays a directory that is no object root *)
    destruct (remove_at_dir_shape (Dir ces') (n2 :: q) (ex_intro _ ces' eq_refl)) as [es' Es'].
    assert (Ro : is_object_root es' = false).
    { revert Es'. destruct q as [|n3 q]; cbn [remove_at]; intros Es'; injection Es' as <-.
      - rewrite is_object_root_filter_dirs; [exact Hroot|].
        intros e He Hf. apply negb_false_iff, bytes_eqb_eq in Hf.
        apply (root_child_not_decl deep ces' n2 ces'' Uc Hr' e He Hf).
      - rewrite is_object_root_map_dirs; [exact Hroot|]. intros [k kc]. apply remove_at_decl. }
    assert (Child : step deep (n, remove_at (Dir ces') (n2 :: q)) =
                    filter (not_at (n :: n2 :: q)) (step deep (n, Dir ces'))).
    { rewrite Es' in *. cbn [step]. rewrite Hskip, Hroot, Ro, IHc.
      apply map_push_filter_not_at. }
    change (remove_at (Dir es) (n :: n2 :: q)) with
      (Dir (map (fun e : name * tree => let '(m, c) := e in
                   if bytes_eqb m n then (m, remove_at c (n2 :: q)) else (m, c)) es)).
    rewrite !walk_gen_dir.
    induction es as [|[m d] es IHes]; [destruct Hin|].
    cbn [map fst nodup_names] in U1. apply andb_true_iff in U1 as [Ua Ub]. apply negb_true_iff in Ua.
    cbn [map flat_map]. rewrite filter_app. destruct Hin as [Hin|Hin].
    + injection Hin as -> ->. rewrite bytes_eqb_refl.
      pose proof (not_in_names n es Ua) as R.
      apply f_equal2; [exact Child|].
      etransitivity; [|symmetry; apply (filter_not_at_rest deep n (n2 :: q) es R)].
      apply f_equal. apply (map_upd_id n (fun c => remove_at c (n2 :: q)) es R).
    + destruct (bytes_eqb m n) eqn:E.
      * apply bytes_eqb_eq in E. subst m. rewrite (existsb_name_in n es _ Hin) in Ua. discriminate.
      * rewrite IHes by assumption. f_equal. symmetry.
        apply (filter_not_at_other deep n (n2 :: q) (m, d)). exact E.
Qed.

Lemma lookup1_filter_self n (es : entries) :
  lookup1 (filter (fun e => negb (bytes_eqb (fst e) n)) es) n = None.
Proof.
  induction es as [|[m d] es IH]; [reflexivity|]. cbn [filter fst].
  destruct (bytes_eqb m n) eqn:E; cbn [negb]; [exact IH|]. cbn [lookup1 fst]. now rewrite E.
Qed.

Lemma lookup1_map_upd n (g : tree -> tree) (es : entries) :
  lookup1 (map (fun e : name * tree => let '(m, c) := e in if bytes_eqb m n then (m, g c) else (m, c)) es) n =
  option_map g (lookup1 es n).
Proof.
  induction es as [|[m d] es IH]; [reflexivity|]. cbn [map lookup1 fst snd].
  destruct (bytes_eqb m n) eqn:E; cbn [fst snd lookup1]; rewrite E; [reflexivity| exact IH].
Qed.

(** after the removal nothing exists at that path any more *)
Lemma lookup_removed p : p <> [] -> forall t, lookup_path (remove_at t p) p = None.
Proof.
  induction p as [|n q IH]; [congruence|]. intros _ t. destruct t as [c|es]; [reflexivity|].
  destruct q as [|n2 q].
  - cbn [remove_at lookup_path]. now rewrite lookup1_filter_self.
  - change (remove_at (Dir es) (n :: n2 :: q)) with
      (Dir (map (fun e : name * tree => let '(m, c) := e in
                   if bytes_eqb m n then (m, remove_at c (n2 :: q)) else (m, c)) es)).
    cbn [lookup_path]. rewrite (lookup1_map_upd n (fun c => remove_at c (n2 :: q)) es).
    destruct (lookup1 es n) as [c|]; [|reflexivity]. cbn [option_map]. apply IH. discriminate.
Qed.

(** removal below the top level commutes with dropping the top-level extensions entry *)
Lemma filter_comm {A} (f g : A -> bool) l : filter f (filter g l) = filter g (filter f l).
Proof.
  induction l as [|a l IH]; [reflexivity|]. cbn [filter].
  destruct (g a) eqn:G, (f a) eqn:F; cbn [filter]; rewrite ?G, ?F, IH; reflexivity.
Qed.

Lemma drop_remove_comm t n q :
  n <> EXT -> drop_top_ext (remove_at t (n :: q)) = remove_at (drop_top_ext t) (n :: q).
Proof.
  intros Hn. destruct t as [c|es]; [reflexivity|]. destruct q as [|n2 q].
  - cbn [remove_at drop_top_ext]. f_equal. apply filter_comm.
  - change (remove_at (Dir es) (n :: n2 :: q)) with
      (Dir (map (fun e : name * tree => let '(m, c) := e in
                   if bytes_eqb m n then (m, remove_at c (n2 :: q)) else (m, c)) es)).
    cbn [drop_top_ext].
    change (remove_at (Dir (filter (fun e => negb (bytes_eqb (fst e) EXT)) es)) (n :: n2 :: q)) with
      (Dir (map (fun e : name * tree => let '(m, c) := e in
                   if bytes_eqb m n then (m, remove_at c (n2 :: q)) else (m, c))
                (filter (fun e => negb (bytes_eqb (fst e) EXT)) es))).
    f_equal. induction es as [|[m d] es IH]; [reflexivity|]. cbn [map filter fst].
    destruct (bytes_eqb m n) eqn:E1; cbn [fst]; destruct (bytes_eqb m EXT) eqn:E2; cbn [negb map];
      rewrite ?E1, IH; reflexivity.
Qed.

(** * The ids of the remaining roots *)
Lemma NoDup_app_disj {A} (l l' : list A) x : NoDup (l ++ l') -> In x l -> In x l' -> False.
Proof.
  induction l as [|a l IH]; [intros _ []|]. cbn [app]. intros N [->|H] H'.
  - inversion N as [|? ? Hn _]; subst. apply Hn, in_or_app. now right.
  - inversion N; subst. eapply IH; eassumption.
Qed.

Lemma NoDup_app_tail {A} (l l' : list A) : NoDup (l ++ l') -> NoDup l'.
Proof. induction l as [|a l IH]; [trivial|]. cbn [app]. intros N. inversion N; subst. now apply IH. Qed.

Lemma nodup_flat_inj {A B} (f : A -> list B) l a c x :
  NoDup (flat_map f l) -> In a l -> In c l -> In x (f a) -> In x (f c) -> a = c.
Proof.
  induction l as [|d l IH]; [intros _ []|]. cbn [flat_map]. intros N Ha Hc Xa Xc.
  destruct Ha as [->|Ha], Hc as [->|Hc].
  - reflexivity.
  - exfalso. apply (NoDup_app_disj _ _ x N Xa). apply in_flat_map. eauto.
  - exfalso. apply (NoDup_app_disj _ _ x N Xc). apply in_flat_map. eauto.
  - apply IH; try assumption. apply (NoDup_app_tail _ _ N).
Qed.

Lemma flat_filter_ids (fP : objroot -> bool) (gP : bytes -> bool) l :
  (forall r, In r l -> exists j, root_id r = [j] /\ fP r = gP j) ->
  flat_map root_id (filter fP l) = filter gP (flat_map root_id l).
Proof.
  induction l as [|r l IH]; [reflexivity|]. intros H. cbn [filter flat_map]. rewrite filter_app.
  destruct (H r (or_introl eq_refl)) as (j & Ej & Ef). rewrite Ej, Ef. cbn [filter].
  rewrite <- IH by (intros x Hx; apply H; now right).
  destruct (gP j); cbn [flat_map app]; [now rewrite Ej| reflexivity].
Qed.

Section Purge.
  Variable t : tree.
  Variable p : path.
  Variable ces : entries.
  Variable i : bytes.
  Hypothesis W : WellFormedRepo t.
  Hypothesis U : names_unique t = true.
  Hypothesis Hin : In (p, ces) (walk t).
  Hypothesis Hi : In i (root_id (p, ces)).

  Let neq_i (j : bytes) : bool := negb (bytes_eqb j i).

  Lemma purge_elem r : In r (spec_roots t) -> exists j, root_id r = [j] /\ not_at p r = neq_i j.
  Proof.
    intros Hr. destruct W as [Wf N]. rewrite Forall_forall in Wf. destruct (Wf r Hr) as [j Hj].
    exists j. split; [apply (wf_root_id j r Hj)|]. pose proof (wf_root_id j r Hj) as Ej.
    pose proof (walk_in_spec t _ Hin) as Hs.
    unfold not_at, neq_i. f_equal. destruct (path_eqb (fst r) p) eqn:E1.
    - apply path_eqb_eq in E1. destruct r as [p' ces']. cbn [fst] in E1. subst p'.
      pose proof (lookup_spec t p ces' U Hr) as L1. pose proof (lookup_spec t p ces U Hs) as L2.
      rewrite L1 in L2. injection L2 as ->. rewrite Ej in Hi. destruct Hi as [<-|[]].
      symmetry. apply bytes_eqb_refl.
    - destruct (bytes_eqb j i) eqn:E2; [|reflexivity]. apply bytes_eqb_eq in E2. subst j.
      assert (r = (p, ces)).
      { apply (nodup_flat_inj root_id (spec_roots t) r (p, ces) i N Hr Hs); [rewrite Ej; now left| exact Hi]. }
      subst r. cbn [fst] in E1. rewrite path_eqb_refl in E1. discriminate.
  Qed.

  Lemma purge_walk : walk (remove_at t p) = filter (not_at p) (spec_roots t).
  Proof.
    pose proof (walk_in_spec t _ Hin) as Hs. rewrite walk_is_spec.
    destruct (spec_roots_head t p ces Hs) as (n & q & E & Hn). unfold spec_roots. rewrite E in *.
    rewrite (drop_remove_comm t n q Hn).
    apply (walk_remove false (drop_top_ext t) (names_unique_drop t U) (n :: q) ces Hs).
  Qed.

  Lemma purge_ids : flat_map root_id (walk (remove_at t p)) = filter neq_i (committed_ids t).
  Proof. rewrite purge_walk. apply flat_filter_ids. intros r Hr. apply purge_elem, Hr. Qed.

  Lemma purged_listing gm :
    listed_ids (list_objects gm (remove_at t p) None) = filter neq_i (committed_ids t).
  Proof. unfold list_objects. cbn [option_map]. rewrite listed_ids_iter_none. apply purge_ids. Qed.

  Lemma purge_spec_roots : spec_roots (remove_at t p) = filter (not_at p) (spec_roots t).
  Proof. rewrite <- walk_is_spec. apply purge_walk. Qed.

  Lemma purge_committed_ids : committed_ids (remove_at t p) = filter neq_i (committed_ids t).
  Proof. unfold committed_ids at 1. rewrite <- walk_is_spec. apply purge_ids. Qed.

  (** the repository stays well formed *)
  Lemma purge_wf : WellFormedRepo (remove_at t p).
  Proof.
    destruct W as [Wf N]. split.
    - rewrite purge_spec_roots. rewrite Forall_forall in *. intros r Hr. apply filter_In in Hr as [Hr _]. auto.
    - rewrite purge_committed_ids. apply NoDup_filter, N.
  Qed.

  Lemma purge_iter id :
    iter_items (Some (bytes_eqb id)) (remove_at t p) = flat_map (hits id) (walk (remove_at t p)).
  Proof.
    unfold iter_items. apply flat_map_ext_in. intros r Hr. rewrite purge_walk in Hr.
    apply filter_In in Hr as [Hr _]. destruct W as [Wf N]. rewrite Forall_forall in Wf.
    destruct (Wf r Hr) as [j Hj]. pose proof (wf_root_id j r Hj) as Ej.
    rewrite (wf_root_some _ j r Hj).
    unfold hits. rewrite Ej. cbn [flat_map]. now rewrite app_nil_r.
  Qed.

  Lemma purged_scan :
    scan_for_inventory (remove_at t p) i = NotFound /\
    (forall j, j <> i -> In j (committed_ids t) -> exists p', scan_for_inventory (remove_at t p) j = Found p' j).
  Proof.
    unfold scan_for_inventory. split.
    - rewrite purge_iter. apply (first_ok_hits i). rewrite purge_ids. intros H.
      apply filter_In in H as [_ H]. unfold neq_i in H. now rewrite bytes_eqb_refl in H.
    - intros j Hj Hc. rewrite purge_iter. apply (first_ok_hits j). rewrite purge_ids.
      apply filter_In. split; [exact Hc|]. unfold neq_i. apply negb_true_iff, bytes_eqb_neq, Hj.
  Qed.
End Purge.

(** * Lookup with the cache *)
Lemma rooted_lookup t i p :
  names_unique t = true -> existsb (root_is i p) (spec_roots t) = true ->
  get_inventory_by_path t i p = Found p i /\ In i (committed_ids t).
Proof.
  intros U E. apply existsb_exists in E as ([p' ces] & Hr & Hx). unfold root_is in Hx.
  apply andb_true_iff in Hx as [Hp Hx]. cbn [fst] in Hp. apply path_eqb_eq in Hp. subst p'.
  apply existsb_exists in Hx as (j & Hj & Ej). apply bytes_eqb_eq in Ej. subst j. split.
  - apply (get_by_path_root t p ces i U Hr Hj).
  - unfold committed_ids. apply in_flat_map. eauto.
Qed.

Lemma cache_sound_get c t i p :
  cache_sound c t = true -> cache_get c i = Some p -> existsb (root_is i p) (spec_roots t) = true.
Proof.
  unfold cache_sound. induction c as [|[j q] c IH]; [discriminate|]. cbn [forallb cache_get fst snd].
  intros H. apply andb_true_iff in H as [H1 H2]. destruct (bytes_eqb j i) eqn:E.
  - apply bytes_eqb_eq in E. subst j. intros X. injection X as <-. exact H1.
  - apply IH, H2.
Qed.

Lemma cache_of_layout_get m c i p :
  cache_of_layout m c = true -> cache_get c i = Some p -> p = m i.
Proof.
  unfold cache_of_layout. induction c as [|[j q] c IH]; [discriminate|]. cbn [forallb cache_get fst snd].
  intros H. apply andb_true_iff in H as [H1 H2]. destruct (bytes_eqb j i) eqn:E.
  - apply bytes_eqb_eq in E. subst j. intros X. injection X as <-. now apply path_eqb_eq in H1.
  - apply IH, H2.
Qed.

Lemma get_inventory_nolayout c t i :
  Forall wf_root (spec_roots t) -> names_unique t = true ->
  cache_sound c t = true ->
  (In i (committed_ids t) -> exists p, fst (get_inventory None c t i) = Found p i) /\
  (~ In i (committed_ids t) -> fst (get_inventory None c t i) = NotFound).
Proof.
  intros W U S. unfold get_inventory. destruct (cache_get c i) as [p|] eqn:G.
  - destruct (rooted_lookup t i p U (cache_sound_get c t i p S G)) as [A B]. cbn [fst]. split; [eauto|].
    intros N. contradiction.
  - destruct (scan_spec t i W) as (_ & A & B & _). split.
    + intros H. destruct (A H) as [p ->]. cbn [fst]. eauto.
    + intros H. now rewrite (B H).
Qed.

Lemma get_inventory_layout m c t i :
  names_unique t = true -> Placed m t -> cache_of_layout m c = true ->
  (In i (committed_ids t) -> exists p, fst (get_inventory (Some m) c t i) = Found p i) /\
  (~ In i (committed_ids t) -> object_like t (m i) = false -> fst (get_inventory (Some m) c t i) = NotFound).
Proof.
  intros U P S.
  assert (E : fst (get_inventory (Some m) c t i) = get_inventory_by_path t i (m i)).
  { unfold get_inventory. destruct (cache_get c i) as [p|] eqn:G; [|reflexivity].
    now rewrite (cache_of_layout_get m c i p S G). }
  rewrite E. split.
  - intros H. exists (m i). apply get_by_path_committed; assumption.
  - intros _ L. apply get_by_path_not_object, L.
Qed.

Lemma purged_not_found_lemma gm t p ces i :
  WellFormedRepo t -> names_unique t = true ->
  In (p, ces) (walk t) -> In i (root_id (p, ces)) ->
  Permutation (listed_ids (list_objects gm (remove_at t p) None))
              (filter (fun j => negb (bytes_eqb j i)) (committed_ids t)) /\
  scan_for_inventory (remove_at t p) i = NotFound /\
  (forall j, j <> i -> In j (committed_ids t) -> exists p', scan_for_inventory (remove_at t p) j = Found p' j) /\
  get_inventory_by_path (remove_at t p) i p = NotFound.
Proof.
  intros W U Hin Hi.
  split; [|split; [|split]].
  - rewrite (purged_listing t p ces i W U Hin Hi gm). apply Permutation_refl.
  - apply (purged_scan t p ces i W U Hin Hi).
  - apply (purged_scan t p ces i W U Hin Hi).
  - apply get_by_path_free, lookup_removed.
    rewrite walk_is_spec in Hin. apply (walk_gen_paths_nonempty false _ (p, ces) Hin).
Qed.

Lemma staged_listing_exact_lemma gm s :
  WellFormedRepo s ->
  Permutation (listed_ids (list_staged_objects gm s None)) (committed_ids s) /\
  NoDup (listed_ids (list_staged_objects gm s None)) /\
  listed_errors (list_staged_objects gm s None) = [].
Proof. unfold list_staged_objects. apply listing_exact. Qed.

Lemma staged_listing_glob_lemma gm s g :
  WellFormedRepo s ->
  Permutation (listed_ids (list_staged_objects gm s (Some g))) (filter (gm g) (committed_ids s)) /\
  listed_errors (list_staged_objects gm s (Some g)) = [].
Proof. unfold list_staged_objects. apply listing_glob_lemma. Qed.

Lemma get_by_layout_path_lemma m t i :
  names_unique t = true -> Placed m t ->
  (In i (committed_ids t) -> get_inventory_by_path t i (m i) = Found (m i) i) /\
  (object_like t (m i) = false -> get_inventory_by_path t i (m i) = NotFound).
Proof.
  intros U P. split; [exact (get_by_path_committed m t i U P)| exact (get_by_path_not_object t i (m i))].
Qed.
