(** C19, part 5: one handle over a history of lookups, purges and writes
    (Model/Listing.v [get_inventory], [purge_object], the id->path cache).
    Since /repo 4564259 purge forgets the cached path, so the cache of a handle
    stays truthful along every history that goes through this handle. *)
From Rocfl Require Import Base.Bytes Generated.Consts Model.Listing Model.KnownC19
  Proofs.BytesFacts Proofs.ListingFacts Proofs.ListingWalkFacts Proofs.ListingGetFacts.
From Coq Require Import Lia Permutation.
Open Scope N_scope.

(** * The guard of purge accepts every object root the walk yields *)
Lemma spec_root_validates t p ces :
  names_unique t = true -> In (p, ces) (spec_roots t) -> validate_object_root t p = true.
Proof.
  intros U H. destruct (spec_roots_head t p ces H) as (n & q & -> & Hn).
  unfold validate_object_root. apply bytes_eqb_neq in Hn. rewrite Hn. cbn [negb andb].
  apply bytes_eqb_neq in Hn. now rewrite (spec_root_not_nested t _ ces U H).
Qed.

Lemma walk_root_validates t p ces :
  names_unique t = true -> In (p, ces) (walk t) -> validate_object_root t p = true.
Proof. intros U H. rewrite walk_is_spec in H. exact (spec_root_validates t p ces U H). Qed.

(** * purge of the root of the named object removes exactly that directory *)
Definition Rooted (t : tree) (i : bytes) (p : path) : Prop :=
  exists ces, In (p, ces) (spec_roots t) /\ In i (root_id (p, ces)).

Lemma rooted_of_root_is t i p : existsb (root_is i p) (spec_roots t) = true -> Rooted t i p.
Proof.
  intros E. apply existsb_exists in E as ([p' ces] & Hr & Hx). unfold root_is in Hx.
  apply andb_true_iff in Hx as [Hp Hx]. cbn [fst] in Hp. apply path_eqb_eq in Hp. subst p'.
  apply existsb_exists in Hx as (j & Hj & Ej). apply bytes_eqb_eq in Ej. subst j. exists ces. now split.
Qed.

Lemma root_is_of_rooted t i p : Rooted t i p -> existsb (root_is i p) (spec_roots t) = true.
Proof.
  intros (ces & Hr & Hi). apply existsb_exists. exists (p, ces). split; [exact Hr|].
  unfold root_is. cbn [fst]. rewrite path_eqb_refl. cbn [andb]. apply existsb_exists. exists i.
  split; [exact Hi| apply bytes_eqb_refl].
Qed.

Lemma rooted_committed t i p : Rooted t i p -> In i (committed_ids t).
Proof. intros (ces & Hr & Hi). unfold committed_ids. apply in_flat_map. eauto. Qed.

Lemma purge_at_rooted t i p :
  names_unique t = true -> Rooted t i p -> purge_at t i p = (POk, remove_at t p).
Proof.
  intros U (ces & Hr & Hi). unfold purge_at. rewrite (spec_root_validates t p ces U Hr). cbn [negb].
  rewrite (lookup_spec t p ces U Hr).
  pose proof (walk_gen_roots false _ _ Hr) as R. cbn [snd] in R. rewrite R.
  pose proof (root_id_parse _ _ Hi) as Q. cbn [snd] in Q. now rewrite Q, bytes_eqb_refl.
Qed.

(** * What a scan finds is the root of the requested object *)
Lemma first_ok_in l p j : first_ok l = Found p j -> In (IOk p j) l.
Proof.
  induction l as [|[q k|q] l IH]; cbn [first_ok]; [discriminate| |].
  - intros H. injection H as -> ->. now left.
  - intros H. right. now apply IH.
Qed.

Lemma scan_found_rooted t i p j :
  Forall wf_root (spec_roots t) ->
  scan_for_inventory t i = Found p j -> j = i /\ Rooted t i p.
Proof.
  intros W. unfold scan_for_inventory. rewrite (iter_some_wf _ t W). intros H.
  apply first_ok_in, in_flat_map in H as ([p' ces] & Hr & Hx). cbn [fst] in Hx.
  apply in_flat_map in Hx as (k & Hk & Hx). destruct (bytes_eqb i k) eqn:E; [|destruct Hx].
  apply bytes_eqb_eq in E. subst k. destruct Hx as [Hx|[]]. injection Hx as -> ->.
  split; [reflexivity|]. exists ces. now split.
Qed.

(** * The cache *)
Lemma cache_sound_forall c t :
  cache_sound c t = true <-> forall e, In e c -> existsb (root_is (fst e) (snd e)) (spec_roots t) = true.
Proof. unfold cache_sound. apply forallb_forall. Qed.

Lemma cache_get_remove_same c i : cache_get (cache_remove c i) i = None.
Proof.
  induction c as [|[j q] c IH]; [reflexivity|]. cbn [cache_remove filter fst].
  destruct (bytes_eqb j i) eqn:E; cbn [negb]; [exact IH|]. cbn [cache_get fst]. rewrite E. exact IH.
Qed.

Lemma cache_remove_cons_same c i p : cache_remove ((i, p) :: c) i = cache_remove c i.
Proof. cbn [cache_remove filter fst]. now rewrite bytes_eqb_refl. Qed.

Lemma cache_remove_in c i e : In e (cache_remove c i) -> In e c /\ fst e <> i.
Proof.
  unfold cache_remove. intros H. apply filter_In in H as [H1 H2]. split; [exact H1|].
  apply negb_true_iff in H2. now apply bytes_eqb_neq.
Qed.

Lemma cache_of_layout_remove m c i : cache_of_layout m c = true -> cache_of_layout m (cache_remove c i) = true.
Proof.
  unfold cache_of_layout. rewrite !forallb_forall. intros H e He. apply cache_remove_in in He as [He _]. auto.
Qed.

(** the state of the repository the cache entries speak about may grow: every
    object stays where it is (a new object is created, a new version is
    committed - through this handle or otherwise) *)
Definition Keeps (t t' : tree) : Prop :=
  forall r, In r (spec_roots t) -> exists r', In r' (spec_roots t') /\ fst r' = fst r /\ root_id r' = root_id r.

Lemma root_is_congr i p r r' : fst r' = fst r -> root_id r' = root_id r -> root_is i p r' = root_is i p r.
Proof. unfold root_is. now intros -> ->. Qed.

Lemma cache_sound_keeps c t t' : Keeps t t' -> cache_sound c t = true -> cache_sound c t' = true.
Proof.
  intros K. rewrite !cache_sound_forall. intros H e He. specialize (H e He).
  apply existsb_exists in H as (r & Hr & Hx). destruct (K r Hr) as (r' & Hr' & E1 & E2).
  apply existsb_exists. exists r'. split; [exact Hr'|]. now rewrite (root_is_congr _ _ r r' E1 E2).
Qed.

(** the class of repositories the handle theorems speak about: every object
    written by rocfl's serialiser, ids pairwise different, names unique per
    directory.  (Until 5a727de the class also had to exclude ids that need a
    JSON escape.) *)
Definition Good (t : tree) : Prop :=
  WellFormedRepo t /\ names_unique t = true.

Lemma cache_sound_get_step c t i :
  Good t -> cache_sound c t = true -> cache_sound (snd (get_inventory None c t i)) t = true.
Proof.
  intros ([W _] & U) S. unfold get_inventory. destruct (cache_get c i); [exact S|].
  destruct (scan_for_inventory t i) as [p j| | |] eqn:E; try exact S.
  destruct (scan_found_rooted t i p j W E) as [-> R]. cbn [snd cache_sound forallb fst].
  rewrite (root_is_of_rooted t i p R). exact S.
Qed.

(** names stay unique when a directory is removed *)
Lemma map_fst_upd n (g : tree -> tree) (es : entries) :
  map fst (map (fun e : name * tree => let '(m, c) := e in if bytes_eqb m n then (m, g c) else (m, c)) es) = map fst es.
Proof.
  induction es as [|[m d] es IH]; [reflexivity|]. cbn [map]. rewrite IH. now destruct (bytes_eqb m n).
Qed.

Lemma names_unique_remove t : names_unique t = true -> forall p, names_unique (remove_at t p) = true.
Proof.
  induction t as [c|es IH] using tree_ind2; intros U p; [exact U|].
  destruct (names_unique_dir es U) as [U1 U2]. destruct p as [|n [|n2 q]]; [exact U| |].
  - cbn [remove_at names_unique]. rewrite (nodup_names_filter _ es U1). cbn [andb].
    apply forallb_forall. intros [m c] H. apply filter_In in H as [H _]. apply (U2 _ H).
  - change (remove_at (Dir es) (n :: n2 :: q)) with
      (Dir (map (fun e : name * tree => let '(m, c) := e in
                   if bytes_eqb m n then (m, remove_at c (n2 :: q)) else (m, c)) es)).
    cbn [names_unique]. rewrite map_fst_upd, U1. cbn [andb].
    apply forallb_forall. intros [m c] H. apply in_map_iff in H as ([m' c'] & E & H).
    rewrite Forall_forall in IH. pose proof (IH _ H (U2 _ H)) as I. cbn [snd] in I.
    destruct (bytes_eqb m' n); injection E as <- <-; [apply I| apply (U2 _ H)].
Qed.

(** * purge through the handle *)
Section PurgeHandle.
  Variable t : tree.
  Variable i : bytes.
  Variable p : path.
  Hypothesis G : Good t.
  Hypothesis R : Rooted t i p.

  Let W : WellFormedRepo t := proj1 G.
  Let U : names_unique t = true := proj2 G.

  Lemma rooted_in_walk : exists ces, In (p, ces) (walk t) /\ In i (root_id (p, ces)).
  Proof. destruct R as (ces & Hr & Hi). exists ces. rewrite walk_is_spec. now split. Qed.

  Lemma good_after_purge : Good (remove_at t p).
  Proof.
    destruct rooted_in_walk as (ces & Hin & Hi). split.
    - apply (purge_wf t p ces i W U Hin Hi).
    - apply names_unique_remove, U.
  Qed.

  Lemma committed_after_purge :
    committed_ids (remove_at t p) = filter (fun j => negb (bytes_eqb j i)) (committed_ids t).
  Proof. destruct rooted_in_walk as (ces & Hin & Hi). apply (purge_committed_ids t p ces i W U Hin Hi). Qed.

  (** the other objects stay cached correctly, the purged id is forgotten *)
  Lemma cache_sound_after_purge c :
    cache_sound c t = true -> cache_sound (cache_remove c i) (remove_at t p) = true.
  Proof.
    destruct rooted_in_walk as (ces & Hin & Hi).
    rewrite !cache_sound_forall. intros S e He. apply cache_remove_in in He as [He Hne].
    specialize (S e He). apply existsb_exists in S as (r & Hr & Hx).
    apply existsb_exists. exists r. split; [|exact Hx].
    rewrite (purge_spec_roots t p ces i U Hin Hi). apply filter_In. split; [exact Hr|].
    destruct (purge_elem t p ces i W U Hin Hi r Hr) as (j & Ej & ->).
    unfold root_is in Hx. apply andb_true_iff in Hx as [_ Hx]. rewrite Ej in Hx. cbn [existsb] in Hx.
    rewrite orb_false_r in Hx. apply bytes_eqb_eq in Hx. subst j.
    apply negb_true_iff, bytes_eqb_neq, Hne.
  Qed.
End PurgeHandle.

(** [find_root] of a committed id is its root *)
Lemma find_root_nolayout c t i :
  Good t -> cache_sound c t = true ->
  (In i (committed_ids t) ->
     exists p, Rooted t i p /\ fst (find_root None c t i) = Some p /\
               cache_remove (snd (find_root None c t i)) i = cache_remove c i) /\
  (~ In i (committed_ids t) -> find_root None c t i = (None, c)).
Proof.
  intros ([W _] & U) S. unfold find_root. destruct (cache_get c i) as [p|] eqn:E.
  - pose proof (rooted_of_root_is t i p (cache_sound_get c t i p S E)) as R. split.
    + intros _. exists p. now split.
    + intros N. destruct (N (rooted_committed t i p R)).
  - destruct (scan_spec t i W) as (_ & A & B & _). split.
    + intros H. destruct (A H) as [p Ep]. rewrite Ep. destruct (scan_found_rooted t i p i W Ep) as [_ R].
      exists p. cbn [fst snd]. split; [exact R|]. split; [reflexivity| apply cache_remove_cons_same].
    + intros H. now rewrite (B H).
Qed.

Lemma purge_object_nolayout c t i :
  Good t -> cache_sound c t = true ->
  (In i (committed_ids t) ->
     exists p, Rooted t i p /\ purge_object None c t i = (POk, remove_at t p, cache_remove c i)) /\
  (~ In i (committed_ids t) -> purge_object None c t i = (POk, t, c)).
Proof.
  intros G S. destruct (find_root_nolayout c t i G S) as [A B]. unfold purge_object. split.
  - intros H. destruct (A H) as (p & R & E1 & E2). exists p. split; [exact R|].
    destruct (find_root None c t i) as [o c1]. cbn [fst snd] in *. subst o.
    rewrite (purge_at_rooted t i p (proj2 G) R), E2. reflexivity.
  - intros H. now rewrite (B H).
Qed.

Lemma find_root_layout m c t i :
  cache_of_layout m c = true ->
  fst (find_root (Some m) c t i) = Some (m i) /\
  cache_of_layout m (snd (find_root (Some m) c t i)) = true.
Proof.
  intros S. unfold find_root. destruct (cache_get c i) as [p|] eqn:E.
  - rewrite (cache_of_layout_get m c i p S E). now split.
  - cbn [fst snd cache_of_layout forallb]. rewrite path_eqb_refl. now split.
Qed.

Lemma purge_object_layout m c t i :
  names_unique t = true -> Placed m t -> cache_of_layout m c = true -> In i (committed_ids t) ->
  fst (purge_object (Some m) c t i) = (POk, remove_at t (m i)).
Proof.
  intros U P S H. destruct (find_root_layout m c t i S) as [E _]. unfold purge_object.
  destruct (find_root (Some m) c t i) as [o c1]. cbn [fst] in E. subst o. cbn [fst].
  apply purge_at_rooted; [exact U|]. destruct (in_committed_inv t i H) as ([p ces] & Hr & Hi).
  pose proof (P _ _ Hr Hi) as Ep. cbn [fst] in Ep. subst p. exists ces. now split.
Qed.

(** * Histories of one handle *)
Definition StepOk (lay : option (bytes -> path)) (t : tree) : Prop :=
  match lay with None => Good t | Some _ => True end.

Inductive reachable (lay : option (bytes -> path)) : tree -> cache -> Prop :=
| R_open t : reachable lay t []                                             (* fs.rs:84, 103: a new handle *)
| R_get t c i : reachable lay t c -> StepOk lay t ->
    reachable lay t (snd (get_inventory lay c t i))
| R_find t c i : reachable lay t c -> StepOk lay t ->                         (* fs.rs:126-156: the root path lookup of *)
    reachable lay t (snd (find_root lay c t i))                               (* write_new_object, validate_object, ... *)
| R_purge t c i : reachable lay t c -> StepOk lay t ->
    reachable lay (snd (fst (purge_object lay c t i))) (snd (purge_object lay c t i))
| R_write t t' c : reachable lay t c -> Keeps t t' -> reachable lay t' c.

Lemma find_root_cache_nolayout c t i : snd (find_root None c t i) = snd (get_inventory None c t i).
Proof.
  unfold find_root, get_inventory. destruct (cache_get c i); [reflexivity|].
  destruct (scan_for_inventory t i); reflexivity.
Qed.

Lemma reachable_sound t c : reachable None t c -> cache_sound c t = true.
Proof.
  induction 1 as [t|t c i _ IH G|t c i _ IH G|t c i _ IH G|t t' c _ IH Kp].
  - reflexivity.
  - apply cache_sound_get_step; assumption.
  - rewrite find_root_cache_nolayout. apply cache_sound_get_step; assumption.
  - cbn [StepOk] in G. destruct (purge_object_nolayout c t i G IH) as [A B].
    destruct (in_dec (list_eq_dec Ascii.ascii_dec) i (committed_ids t)) as [H|H].
    + destruct (A H) as (p & R & ->). cbn [fst snd]. apply (cache_sound_after_purge t i p G R c IH).
    + rewrite (B H). exact IH.
  - apply (cache_sound_keeps c t t' Kp IH).
Qed.

Lemma reachable_layout m t c : reachable (Some m) t c -> cache_of_layout m c = true.
Proof.
  induction 1 as [t|t c i _ IH _|t c i _ IH _|t c i _ IH _|t t' c _ IH _].
  - reflexivity.
  - unfold get_inventory. destruct (cache_get c i); [exact IH|].
    cbn [snd cache_of_layout forallb fst]. now rewrite path_eqb_refl.
  - apply (find_root_layout m c t i IH).
  - destruct (find_root_layout m c t i IH) as [_ E]. unfold purge_object.
    destruct (find_root (Some m) c t i) as [[p|] c1]; cbn [snd] in *; [|exact E].
    apply cache_of_layout_remove, E.
  - exact IH.
Qed.

Lemma handle_nolayout t c i :
  reachable None t c -> Good t ->
  (In i (committed_ids t) -> exists p, fst (get_inventory None c t i) = Found p i) /\
  (~ In i (committed_ids t) -> fst (get_inventory None c t i) = NotFound).
Proof.
  intros Rch ([W N] & U). apply get_inventory_nolayout; try assumption. apply reachable_sound, Rch.
Qed.

Lemma handle_layout m t c i :
  reachable (Some m) t c -> names_unique t = true -> Placed m t ->
  (In i (committed_ids t) -> exists p, fst (get_inventory (Some m) c t i) = Found p i) /\
  (~ In i (committed_ids t) -> object_like t (m i) = false -> fst (get_inventory (Some m) c t i) = NotFound).
Proof. intros Rch U P. apply get_inventory_layout; try assumption. apply (reachable_layout m t c Rch). Qed.

(** purge through the handle, then the same handle is asked again *)
Lemma handle_purge_nolayout gm t c i :
  reachable None t c -> Good t -> In i (committed_ids t) ->
  exists p, Rooted t i p /\
    purge_object None c t i = (POk, remove_at t p, cache_remove c i) /\
    Permutation (listed_ids (list_objects gm (remove_at t p) None))
                (filter (fun j => negb (bytes_eqb j i)) (committed_ids t)) /\
    fst (get_inventory None (cache_remove c i) (remove_at t p) i) = NotFound /\
    (forall j, j <> i -> In j (committed_ids t) ->
       exists p', fst (get_inventory None (cache_remove c i) (remove_at t p) j) = Found p' j).
Proof.
  intros Rch G H. pose proof (reachable_sound t c Rch) as S.
  destruct (purge_object_nolayout c t i G S) as [A _]. destruct (A H) as (p & R & E).
  exists p. split; [exact R|]. split; [exact E|].
  pose proof (good_after_purge t i p G R) as G'.
  pose proof (committed_after_purge t i p G R) as C'.
  assert (Rch' : reachable None (remove_at t p) (cache_remove c i)).
  { pose proof (R_purge None t c i Rch G) as X. now rewrite E in X. }
  split; [|split].
  - rewrite listing_all_ids, C'. apply Permutation_refl.
  - apply (handle_nolayout _ _ i Rch' G'). rewrite C'. intros X. apply filter_In in X as [_ X].
    now rewrite bytes_eqb_refl in X.
  - intros j Hj Hc. apply (handle_nolayout _ _ j Rch' G'). rewrite C'. apply filter_In. split; [exact Hc|].
    apply negb_true_iff, bytes_eqb_neq, Hj.
Qed.

Lemma handle_purge_absent_nolayout t c i :
  reachable None t c -> Good t -> ~ In i (committed_ids t) -> purge_object None c t i = (POk, t, c).
Proof.
  intros Rch G H. apply (purge_object_nolayout c t i G (reachable_sound t c Rch)), H.
Qed.

Lemma handle_purge_layout m t c i :
  reachable (Some m) t c -> names_unique t = true -> Placed m t -> In i (committed_ids t) ->
  fst (purge_object (Some m) c t i) = (POk, remove_at t (m i)) /\
  fst (get_inventory (Some m) (snd (purge_object (Some m) c t i)) (remove_at t (m i)) i) = NotFound.
Proof.
  intros Rch U P H. pose proof (reachable_layout m t c Rch) as S.
  pose proof (purge_object_layout m c t i U P S H) as E. split; [exact E|].
  assert (S' : cache_of_layout m (snd (purge_object (Some m) c t i)) = true).
  { apply (reachable_layout m (snd (fst (purge_object (Some m) c t i)))), R_purge; [exact Rch| exact I]. }
  assert (X : forall c', cache_of_layout m c' = true ->
              fst (get_inventory (Some m) c' (remove_at t (m i)) i) = get_inventory_by_path (remove_at t (m i)) i (m i)).
  { intros c' Sc. unfold get_inventory. destruct (cache_get c' i) as [q|] eqn:Gq; [|reflexivity].
    now rewrite (cache_of_layout_get m c' i q Sc Gq). }
  rewrite (X _ S'). apply get_by_path_free, lookup_removed.
  destruct (in_committed_inv t i H) as ([p ces] & Hr & Hi). pose proof (P _ _ Hr Hi) as Ep. cbn [fst] in Ep.
  rewrite <- Ep. apply (walk_gen_paths_nonempty false _ (p, ces) Hr).
Qed.
