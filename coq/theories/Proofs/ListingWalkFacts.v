(** C19, part 2: the walk, the items it yields, listing with and without a glob,
    and the scan lookup (Model/Listing.v [walk_gen], [iter_items], [scan_for_inventory]). *)
From Rocfl Require Import Base.Bytes Generated.Consts Model.Listing Model.KnownC19
  Proofs.BytesFacts Proofs.ListingFacts.
From Coq Require Import Lia Permutation.
Open Scope N_scope.

(** * Induction over trees (nested through the entry list) *)
Section TreeInd.
  Variable P : tree -> Prop.
  Hypothesis HF : forall c, P (File c).
  Hypothesis HD : forall es, Forall (fun e => P (snd e)) es -> P (Dir es).
  Fixpoint tree_ind2 (t : tree) : P t :=
    match t with
    | File c => HF c
    | Dir es =>
        HD es ((fix go (l : entries) : Forall (fun e => P (snd e)) l :=
                  match l with
                  | [] => Forall_nil _
                  | e :: r => Forall_cons e (tree_ind2 (snd e)) (go r)
                  end) es)
    end.
End TreeInd.

(** * Small list facts *)
Lemma bytes_eqb_sym x y : bytes_eqb x y = bytes_eqb y x.
Proof.
  destruct (bytes_eqb x y) eqn:E.
  - apply bytes_eqb_eq in E. subst. symmetry. apply bytes_eqb_refl.
  - destruct (bytes_eqb y x) eqn:E2; [|reflexivity].
    apply bytes_eqb_eq in E2. subst. rewrite bytes_eqb_refl in E. discriminate.
Qed.

Lemma bytes_eqb_neq x y : bytes_eqb x y = false <-> x <> y.
Proof.
  split.
  - intros H E. subst. rewrite bytes_eqb_refl in H. discriminate.
  - intros H. destruct (bytes_eqb x y) eqn:E; [|reflexivity]. apply bytes_eqb_eq in E. contradiction.
Qed.

Lemma path_eqb_refl p : path_eqb p p = true.
Proof. induction p as [|x p IH]; [reflexivity|]. cbn [path_eqb]. now rewrite bytes_eqb_refl, IH. Qed.

Lemma path_eqb_eq p q : path_eqb p q = true <-> p = q.
Proof.
  revert q; induction p as [|x p IH]; intros [|y q]; cbn [path_eqb]; split; try congruence; try reflexivity.
  - intros H. apply andb_true_iff in H as [H1 H2]. apply bytes_eqb_eq in H1. apply IH in H2. congruence.
  - intros H. injection H as -> ->. now rewrite bytes_eqb_refl, path_eqb_refl.
Qed.

Lemma filter_all {A} (f : A -> bool) l : forallb f l = true -> filter f l = l.
Proof.
  induction l as [|a l IH]; [reflexivity|]. cbn [forallb filter]. intros H.
  apply andb_true_iff in H as [H1 H2]. now rewrite H1, (IH H2).
Qed.

Lemma filter_none {A} (f : A -> bool) l : forallb (fun a => negb (f a)) l = true -> filter f l = [].
Proof.
  induction l as [|a l IH]; [reflexivity|]. cbn [forallb filter]. intros H.
  apply andb_true_iff in H as [H1 H2]. apply negb_true_iff in H1. now rewrite H1, (IH H2).
Qed.

Lemma existsb_false_forallb {A} (f : A -> bool) l :
  existsb f l = false -> forallb (fun a => negb (f a)) l = true.
Proof.
  induction l as [|a l IH]; [reflexivity|]. cbn [existsb forallb]. intros H.
  apply orb_false_iff in H as [H1 H2]. now rewrite H1, (IH H2).
Qed.

Lemma flat_map_ext_in {A B} (f g : A -> list B) l :
  (forall a, In a l -> f a = g a) -> flat_map f l = flat_map g l.
Proof.
  induction l as [|a l IH]; [reflexivity|]. intros H. cbn [flat_map].
  rewrite (H a (or_introl eq_refl)), IH; [reflexivity|]. intros x Hx. apply H. now right.
Qed.

Lemma flat_map_flat_map {A B C} (f : A -> list B) (g : B -> list C) l :
  flat_map g (flat_map f l) = flat_map (fun a => flat_map g (f a)) l.
Proof.
  induction l as [|a l IH]; [reflexivity|]. cbn [flat_map]. now rewrite flat_map_app, IH.
Qed.

Lemma filter_flat_map {A B} (p : B -> bool) (f : A -> list B) l :
  filter p (flat_map f l) = flat_map (fun a => filter p (f a)) l.
Proof.
  induction l as [|a l IH]; [reflexivity|]. cbn [flat_map]. now rewrite filter_app, IH.
Qed.

Lemma flat_map_filter {A B} (p : A -> bool) (f : A -> list B) l :
  flat_map f (filter p l) = flat_map (fun a => if p a then f a else []) l.
Proof.
  induction l as [|a l IH]; [reflexivity|]. cbn [filter flat_map]. destruct (p a); cbn [flat_map app]; now rewrite IH.
Qed.

Lemma flat_map_nil {A B} (f : A -> list B) l : (forall a, In a l -> f a = []) -> flat_map f l = [].
Proof.
  induction l as [|a l IH]; [reflexivity|]. intros H. cbn [flat_map].
  rewrite (H a (or_introl eq_refl)), IH; [reflexivity|]. intros x Hx. apply H. now right.
Qed.

(** * One step of the walk *)
Definition push (n : name) (r : objroot) : objroot := (n :: fst r, snd r).

Definition step (deep : bool) (e : name * tree) : list objroot :=
  let '(n, c) := e in
  match c with
  | File _ => []
  | Dir ces =>
      if deep && bytes_eqb n EXT then []
      else if is_object_root ces then [([n], ces)]
      else map (push n) (walk_gen deep c)
  end.

Lemma walk_gen_dir deep es : walk_gen deep (Dir es) = flat_map (step deep) es.
Proof. reflexivity. Qed.

Definition noext (r : objroot) : bool := negb (has_ext (fst r)).

Lemma filter_noext_push n l :
  filter noext (map (push n) l) =
  if bytes_eqb EXT n then [] else map (push n) (filter noext l).
Proof.
  induction l as [|r l IH].
  - now destruct (bytes_eqb EXT n).
  - cbn [map filter].
    assert (X : noext (push n r) = negb (bytes_eqb EXT n) && noext r).
    { unfold noext, push, has_ext. cbn [fst existsb]. now rewrite negb_orb. }
    rewrite X, IH. destruct (bytes_eqb EXT n); cbn [negb andb]; [reflexivity|].
    destruct (noext r); reflexivity.
Qed.

(** the code's walk is the unrestricted walk minus every root with a path
    component named extensions *)
Lemma walk_true_filter t : walk_gen true t = filter noext (walk_gen false t).
Proof.
  induction t as [c|es IH] using tree_ind2; [reflexivity|].
  rewrite !walk_gen_dir, filter_flat_map.
  induction es as [|[n c] es IHes]; [reflexivity|].
  inversion IH as [|e l H1 H2]; subst. cbn [flat_map]. rewrite (IHes H2). f_equal.
  cbn [snd] in H1. destruct c as [fc|ces]; [reflexivity|].
  cbn [step]. cbn [andb]. rewrite (bytes_eqb_sym n EXT).
  destruct (is_object_root ces).
  - cbn [filter]. unfold noext, has_ext. cbn [fst existsb]. rewrite orb_false_r.
    destruct (bytes_eqb EXT n); reflexivity.
  - rewrite filter_noext_push, H1. destruct (bytes_eqb EXT n); reflexivity.
Qed.

Lemma step_true_ext_entry n c : bytes_eqb n EXT = true -> step true (n, c) = [].
Proof. intros H. destruct c; [reflexivity|]. cbn [step andb]. now rewrite H. Qed.

Lemma app_nil_eq {A} (x y : list A) : x = [] -> y = x ++ y.
Proof. now intros ->. Qed.

Lemma walk_drop_top t : walk_gen true (drop_top_ext t) = walk_gen true t.
Proof.
  destruct t as [c|es]; [reflexivity|]. cbn [drop_top_ext]. rewrite !walk_gen_dir.
  induction es as [|[n c] es IH]; [reflexivity|]. cbn [filter fst flat_map].
  destruct (bytes_eqb n EXT) eqn:E; cbn [negb].
  - rewrite IH. apply app_nil_eq, step_true_ext_entry, E.
  - cbn [flat_map]. now rewrite IH.
Qed.

(** the walk before 38fe584 lost every root below a directory named extensions *)
Lemma walk_before_fix_filtered t : walk_before_fix t = filter noext (spec_roots t).
Proof. unfold walk_before_fix, spec_roots. now rewrite <- walk_true_filter, walk_drop_top. Qed.

(** the walk of the current code: the top level tests the name, below it nothing is skipped *)
Definition step_top (e : name * tree) : list objroot :=
  if bytes_eqb (fst e) EXT then [] else step false e.

Lemma walk_dir es : walk (Dir es) = flat_map step_top es.
Proof.
  cbn [walk]. apply flat_map_ext_in. intros [n c] _. unfold step_top. cbn [fst step andb].
  destruct c as [fc|ces]; destruct (bytes_eqb n EXT); reflexivity.
Qed.

(** the walk yields exactly the objects of the repository (no class is excluded any more) *)
Lemma walk_is_spec t : walk t = spec_roots t.
Proof.
  destruct t as [c|es]; [reflexivity|]. rewrite walk_dir. unfold spec_roots. cbn [drop_top_ext].
  rewrite walk_gen_dir, flat_map_filter. apply flat_map_ext_in. intros [n c] _. unfold step_top. cbn beta. cbn [fst].
  destruct (bytes_eqb n EXT); cbn [negb]; reflexivity.
Qed.

Lemma walk_in_spec t r : In r (walk t) -> In r (spec_roots t).
Proof. now rewrite walk_is_spec. Qed.

Lemma step_head deep n c r : In r (step deep (n, c)) -> exists q, fst r = n :: q.
Proof.
  destruct c as [fc|ces]; [intros []|]. cbn [step]. destruct (deep && bytes_eqb n EXT); [intros []|].
  destruct (is_object_root ces).
  - intros [<-|[]]. cbn [fst]. eauto.
  - intros H. apply in_map_iff in H as (r' & <- & _). cbn [push fst]. eauto.
Qed.

(** no yielded root lies at or below the storage root's extensions directory *)
Lemma walk_no_root_ext t r : In r (walk t) -> in_root_ext (fst r) = false.
Proof.
  destruct t as [c|es]; [intros []|]. rewrite walk_dir. intros H.
  apply in_flat_map in H as ([n c] & _ & Hr). unfold step_top in Hr. cbn [fst] in Hr.
  destruct (bytes_eqb n EXT) eqn:E; [destruct Hr|].
  destruct (step_head false n c r Hr) as [q ->]. cbn [in_root_ext]. exact E.
Qed.

(** every yielded root is a directory with an object declaration *)
Lemma walk_gen_roots deep t r : In r (walk_gen deep t) -> is_object_root (snd r) = true.
Proof.
  revert r. induction t as [c|es IH] using tree_ind2; intros r; [intros []|].
  rewrite walk_gen_dir. intros H. apply in_flat_map in H as ([n c] & Hin & Hr).
  rewrite Forall_forall in IH. specialize (IH _ Hin). cbn [snd] in IH.
  destruct c as [fc|ces]; [destruct Hr|]. cbn [step] in Hr.
  destruct (deep && bytes_eqb n EXT); [destruct Hr|].
  destruct (is_object_root ces) eqn:E.
  - destruct Hr as [<-|[]]. exact E.
  - apply in_map_iff in Hr as (r' & <- & Hr'). cbn [push snd]. apply IH, Hr'.
Qed.

(** * Items *)
Lemma listed_ids_app a c : listed_ids (a ++ c) = listed_ids a ++ listed_ids c.
Proof. apply flat_map_app. Qed.

Lemma listed_errors_app a c : listed_errors (a ++ c) = listed_errors a ++ listed_errors c.
Proof. apply flat_map_app. Qed.

Lemma listed_ids_none r : listed_ids (create_if_matches None r) = root_id r.
Proof.
  destruct r as [p ces]. unfold root_id. cbn [create_if_matches snd].
  destruct (parse_inventory ces); reflexivity.
Qed.

Lemma listed_ids_iter_none t : listed_ids (iter_items None t) = flat_map root_id (walk t).
Proof.
  unfold iter_items, listed_ids. rewrite flat_map_flat_map. apply flat_map_ext_in.
  intros r _. apply listed_ids_none.
Qed.

(** * Well-formed repositories: every object of the repository carries an
    inventory.json written by rocfl's serialiser for a non-blank id, no
    mutable-HEAD inventory, and the ids are pairwise different.  (That the roots
    hold an object declaration and are not nested is true of [spec_roots] by
    construction, see [walk_gen_roots].) *)
Definition wf_root_with (i : bytes) (r : objroot) : Prop :=
  i <> [] /\
  (exists pretty rest, lookup1 (snd r) INV = Some (File (serialize_inventory pretty i rest))) /\
  lookup_path (Dir (snd r)) MUTABLE_HEAD_INV = None.

Definition wf_root (r : objroot) : Prop := exists i, wf_root_with i r.

Definition WellFormedRepo (t : tree) : Prop :=
  Forall wf_root (spec_roots t) /\ NoDup (committed_ids t).

Lemma wf_root_parse i r : wf_root_with i r -> parse_inventory (snd r) = Ok i.
Proof.
  intros (Hi & (pretty & rest & Hl) & Hm). unfold parse_inventory. rewrite Hm, Hl.
  now rewrite (parse_serialized pretty i rest Hi).
Qed.

Lemma wf_root_id i r : wf_root_with i r -> root_id r = [i].
Proof. intros H. unfold root_id. now rewrite (wf_root_parse i r H). Qed.

Lemma wf_root_none i r : wf_root_with i r -> create_if_matches None r = [IOk (fst r) i].
Proof.
  intros H. pose proof (wf_root_parse i r H) as P. destruct r as [p ces]. cbn [snd] in P.
  cbn [create_if_matches fst]. now rewrite P.
Qed.

(** the pre-filter hands the matcher the id itself, whatever bytes it is made of (5a727de) *)
Lemma wf_root_some m i r :
  wf_root_with i r ->
  create_if_matches (Some m) r = if m i then [IOk (fst r) i] else [].
Proof.
  intros H. pose proof (wf_root_parse i r H) as P. destruct H as (Hi & (pretty & rest & Hl) & Hm).
  destruct r as [p ces]. cbn [create_if_matches fst snd] in *. rewrite Hl.
  rewrite (extract_serialized pretty i rest Hi), P. reflexivity.
Qed.

Lemma in_committed t r i : In r (spec_roots t) -> root_id r = [i] -> In i (committed_ids t).
Proof.
  intros Hr Hi. unfold committed_ids. apply in_flat_map. exists r. split; [exact Hr|]. rewrite Hi. now left.
Qed.

(** * Listing without a glob: exact *)
Lemma listing_all_ids gm t :
  listed_ids (list_objects gm t None) = committed_ids t.
Proof.
  unfold list_objects. cbn [option_map]. rewrite listed_ids_iter_none, (walk_is_spec t). reflexivity.
Qed.

Lemma listing_all_no_errors gm t :
  Forall wf_root (spec_roots t) -> listed_errors (list_objects gm t None) = [].
Proof.
  intros W. unfold list_objects, iter_items, listed_errors. cbn [option_map].
  rewrite flat_map_flat_map. apply flat_map_nil. intros r Hr.
  apply walk_in_spec in Hr. rewrite Forall_forall in W. destruct (W r Hr) as [i Hi].
  rewrite (wf_root_none i r Hi). reflexivity.
Qed.

Lemma listing_exact gm t :
  WellFormedRepo t ->
  Permutation (listed_ids (list_objects gm t None)) (committed_ids t) /\
  NoDup (listed_ids (list_objects gm t None)) /\
  listed_errors (list_objects gm t None) = [].
Proof.
  intros [W N]. rewrite (listing_all_ids gm t). repeat split.
  - apply Permutation_refl.
  - exact N.
  - apply listing_all_no_errors, W.
Qed.

(** * Listing with a matcher *)
Lemma iter_some_wf m t :
  Forall wf_root (spec_roots t) ->
  iter_items (Some m) t =
  flat_map (fun r => flat_map (fun i => if m i then [IOk (fst r) i] else []) (root_id r)) (spec_roots t).
Proof.
  intros W.
  unfold iter_items. rewrite (walk_is_spec t). apply flat_map_ext_in. intros r Hr.
  rewrite Forall_forall in W. destruct (W r Hr) as [i Hi].
  pose proof (wf_root_id i r Hi) as Ei. rewrite Ei. cbn [flat_map]. rewrite app_nil_r.
  apply wf_root_some, Hi.
Qed.

Lemma listing_glob_lemma gm t g :
  WellFormedRepo t ->
  Permutation (listed_ids (list_objects gm t (Some g))) (filter (gm g) (committed_ids t)) /\
  listed_errors (list_objects gm t (Some g)) = [].
Proof.
  intros [W N]. unfold list_objects. cbn [option_map]. rewrite (iter_some_wf (gm g) t W).
  unfold committed_ids. split.
  - rewrite filter_flat_map. unfold listed_ids. rewrite flat_map_flat_map.
    erewrite flat_map_ext_in; [apply Permutation_refl|]. intros r _. cbn beta.
    induction (root_id r) as [|i l IH]; [reflexivity|]. cbn [flat_map filter].
    rewrite flat_map_app, IH. destruct (gm g i); reflexivity.
  - unfold listed_errors. rewrite flat_map_flat_map. apply flat_map_nil. intros r _.
    induction (root_id r) as [|i l IH]; [reflexivity|]. cbn [flat_map].
    rewrite flat_map_app, IH. destruct (gm g i); reflexivity.
Qed.

(** * Nothing at or below the storage root's extensions directory is ever yielded *)
Lemma item_path_in_walk m t it :
  In it (iter_items m t) ->
  exists r, In r (walk t) /\ match it with IOk p _ => p = fst r | IErr p => p = fst r end.
Proof.
  unfold iter_items. intros H. apply in_flat_map in H as (r & Hr & Hit). exists r. split; [exact Hr|].
  destruct r as [p ces]. cbn [fst]. unfold create_if_matches in Hit.
  assert (X : forall x, In it [item_of_res p x] -> match it with IOk q _ => q = p | IErr q => q = p end).
  { intros x [<-|[]]. destruct x; reflexivity. }
  destruct m as [m|].
  - destruct (lookup1 ces INV) as [[c|?]|].
    + destruct (extract_object_id c) as [x|].
      * destruct (m x); [eapply X, Hit| destruct Hit].
      * destruct Hit as [<-|[]]. reflexivity.
    + destruct Hit as [<-|[]]. reflexivity.
    + destruct Hit as [<-|[]]. reflexivity.
  - eapply X, Hit.
Qed.

Lemma no_extension_items gm t glob it :
  In it (list_objects gm t glob) ->
  in_root_ext (match it with IOk p _ => p | IErr p => p end) = false.
Proof.
  unfold list_objects. intros H. apply item_path_in_walk in H as (r & Hr & E).
  apply walk_no_root_ext in Hr. destruct it; now subst.
Qed.

(** * The scan lookup *)
Lemma first_ok_app_nil l r : (forall it, In it l -> False) -> first_ok (l ++ r) = first_ok r.
Proof. destruct l as [|a l]; [reflexivity|]. intros H. destruct (H a (or_introl eq_refl)). Qed.

Definition hits (id : bytes) (r : objroot) : list item :=
  flat_map (fun i => if bytes_eqb id i then [IOk (fst r) i] else []) (root_id r).

Lemma first_ok_hits id l :
  (forall p j, first_ok (flat_map (hits id) l) = Found p j -> j = id /\ In id (flat_map root_id l)) /\
  (In id (flat_map root_id l) -> exists p, first_ok (flat_map (hits id) l) = Found p id) /\
  (~ In id (flat_map root_id l) -> first_ok (flat_map (hits id) l) = NotFound) /\
  first_ok (flat_map (hits id) l) <> Corrupt /\ first_ok (flat_map (hits id) l) <> GenErr.
Proof.
  assert (G : forall x (rr : objroot) tl,
    (first_ok (flat_map (fun i => if bytes_eqb id i then [IOk (fst rr) i] else []) x ++ tl) = first_ok tl /\ ~ In id x) \/
    (first_ok (flat_map (fun i => if bytes_eqb id i then [IOk (fst rr) i] else []) x ++ tl) = Found (fst rr) id /\ In id x)).
  { induction x as [|i x IH]; intros rr tl; [left; split; [reflexivity| intros []]|].
    cbn [flat_map]. destruct (bytes_eqb id i) eqn:E.
    - right. apply bytes_eqb_eq in E. subst i. split; [reflexivity| now left].
    - cbn [app]. apply bytes_eqb_neq in E. destruct (IH rr tl) as [[A B]|[A B]].
      + left. split; [exact A| intros [X|X]; [congruence| contradiction]].
      + right. split; [exact A| now right]. }
  induction l as [|r l (I1 & I2 & I3 & I4 & I5)].
  - cbn [flat_map first_ok]. repeat split; try discriminate; try (intros []); try reflexivity.
  - cbn [flat_map]. unfold hits at 1 3 5 7 9. destruct (G (root_id r) r (flat_map (hits id) l)) as [[A B]|[A B]]; rewrite A.
    + repeat split; try assumption.
      * apply I1 in H. tauto.
      * apply I1 in H. apply in_or_app. right. tauto.
      * intros H. apply in_app_or in H as [H|H]; [contradiction| auto].
      * intros H. apply I3. intros X. apply H, in_or_app. now right.
    + repeat split; try discriminate.
      * congruence.
      * apply in_or_app. now left.
      * intros _. eexists. reflexivity.
      * intros H. exfalso. apply H, in_or_app. now left.
Qed.

Lemma scan_spec t id :
  Forall wf_root (spec_roots t) ->
  (forall p j, scan_for_inventory t id = Found p j -> j = id /\ In id (committed_ids t)) /\
  (In id (committed_ids t) -> exists p, scan_for_inventory t id = Found p id) /\
  (~ In id (committed_ids t) -> scan_for_inventory t id = NotFound) /\
  scan_for_inventory t id <> Corrupt /\ scan_for_inventory t id <> GenErr.
Proof.
  intros W. unfold scan_for_inventory. rewrite (iter_some_wf _ t W).
  apply (first_ok_hits id (spec_roots t)).
Qed.
