(** C19, part 4: concrete repositories - non-vacuity of the hypotheses, and the
    repaired classes (38fe584, 4564259, 01aa490 + 3802aa0, 5a727de) as positive
    examples, each with a historical note about the code before the repair
    (all by evaluation). *)
From Rocfl Require Import Base.Bytes Generated.Consts Model.Listing Model.KnownC19
  Proofs.BytesFacts Proofs.ListingFacts Proofs.ListingWalkFacts Proofs.ListingGetFacts Proofs.ListingHandle.
Open Scope N_scope.

Definition w_rest : bytes := b ",""type"":""https://ocfl.io/1.1/spec/#inventory""}".
Definition w_obj (pretty : bool) (i : bytes) : entries :=
  [(b "0=ocfl_object_1.1", File (b "ocfl_object_1.1"));
   (INV, File (serialize_inventory pretty i w_rest));
   (b "v1", Dir [(INV, File (serialize_inventory pretty i w_rest))])].

Ltac wf_obj pretty i :=
  exists i; split; [intros H; vm_compute in H; discriminate H|];
  split; [exists pretty, w_rest; reflexivity| reflexivity].

Definition lit_match (g i : bytes) : bool := bytes_eqb g i.

(** ** A good repository: two objects (one id with glob metacharacters, one
    pretty-printed), a staged-only object below extensions/rocfl-staging *)
Definition w_good : tree :=
  Dir [(b "0=ocfl_1.1", File (b "ocfl_1.1"));
       (EXT, Dir [(b "rocfl-staging", Dir [(b "abc", Dir (w_obj false (b "staged-only")))])]);
       (b "a", Dir [(b "b", Dir (w_obj true (b "one")));
                    (b "c", Dir (w_obj false (b "two*[x]")))])].

Lemma w_good_wf : WellFormedRepo w_good.
Proof.
  split.
  - change (spec_roots w_good) with
      [([b "a"; b "b"], w_obj true (b "one")); ([b "a"; b "c"], w_obj false (b "two*[x]"))].
    constructor; [wf_obj true (b "one")|]. constructor; [wf_obj false (b "two*[x]")| constructor].
  - change (committed_ids w_good) with [b "one"; b "two*[x]"].
    constructor; [intros [H|[]]; vm_compute in H; discriminate H|].
    constructor; [intros []| constructor].
Qed.

Lemma w_good_facts :
  names_unique w_good = true /\
  committed_ids w_good = [b "one"; b "two*[x]"] /\
  list_objects lit_match w_good None = [IOk [b "a"; b "b"] (b "one"); IOk [b "a"; b "c"] (b "two*[x]")] /\
  list_objects lit_match w_good (Some (b "two*[x]")) = [IOk [b "a"; b "c"] (b "two*[x]")] /\
  scan_for_inventory w_good (b "one") = Found [b "a"; b "b"] (b "one") /\
  scan_for_inventory w_good (b "staged-only") = NotFound /\
  In ([b "a"; b "b"], w_obj true (b "one")) (walk w_good) /\
  listed_ids (list_objects lit_match (remove_at w_good [b "a"; b "b"]) None) = [b "two*[x]"].
Proof. repeat split; try (vm_compute; reflexivity). left. reflexivity. Qed.

(** the staging root of that repository, taken as a repository of its own *)
Definition w_staging : tree := Dir [(b "abc", Dir (w_obj false (b "staged-only")))].

Lemma w_staging_wf : WellFormedRepo w_staging /\
  list_staged_objects lit_match w_staging None = [IOk [b "abc"] (b "staged-only")].
Proof.
  split; [|vm_compute; reflexivity]. split.
  - change (spec_roots w_staging) with [([b "abc"], w_obj false (b "staged-only"))].
    constructor; [wf_obj false (b "staged-only")| constructor].
  - change (committed_ids w_staging) with [b "staged-only"]. constructor; [intros []| constructor].
Qed.

(** ** Repaired (38fe584, was known finding root-named-extensions): layout 0003,
    id extensions - the object root is a directory NAMED extensions below the
    first level; the storage root's own extensions directory holds a staged object *)
Definition w_ext : tree :=
  Dir [(b "0=ocfl_1.1", File (b "ocfl_1.1"));
       (EXT, Dir [(b "rocfl-staging", Dir [(b "abc", Dir (w_obj false (b "staged-only")))])]);
       (b "20e", Dir [(b "f77", Dir [(b "39e", Dir [(b "extensions", Dir (w_obj false (b "extensions")))])])])].
Definition w_ext_path : path := [b "20e"; b "f77"; b "39e"; b "extensions"].

Lemma w_ext_wf : WellFormedRepo w_ext.
Proof.
  split.
  - change (spec_roots w_ext) with [(w_ext_path, w_obj false (b "extensions"))].
    constructor; [wf_obj false (b "extensions")| constructor].
  - change (committed_ids w_ext) with [b "extensions"]. constructor; [intros []| constructor].
Qed.

Lemma w_ext_facts :
  committed_ids w_ext = [b "extensions"] /\
  list_objects lit_match w_ext None = [IOk w_ext_path (b "extensions")] /\
  list_objects lit_match w_ext (Some (b "extensions")) = [IOk w_ext_path (b "extensions")] /\
  scan_for_inventory w_ext (b "extensions") = Found w_ext_path (b "extensions") /\
  get_inventory_by_path w_ext (b "extensions") w_ext_path = Found w_ext_path (b "extensions") /\
  validate_object_root w_ext w_ext_path = true /\
  validate_object_root w_ext [EXT; b "rocfl-staging"; b "abc"] = false.
Proof. repeat split; vm_compute; reflexivity. Qed.

(** historical note: the walk before 38fe584 skipped the name at every depth and lost the object *)
Lemma w_ext_before_fix : walk_before_fix w_ext = [] /\ walk w_ext = [(w_ext_path, w_obj false (b "extensions"))].
Proof. split; vm_compute; reflexivity. Qed.

(** ** Repaired (5a727de, was known finding id-needs-json-escape): no layout, ids
    id QUOTE q  and  q QUOTE BACKSLASH TAB 0x01 LF (pretty printed) next to a plain one;
    id BACKSLASH is the text the old pre-filter cut out of the first id - never committed *)
Definition w_idq : bytes := bs [105; 100; 34; 113].      (* id QUOTE q *)
Definition w_idb : bytes := bs [105; 100; 92].           (* id\  *)
Definition w_idc : bytes := bs [113; 34; 92; 9; 1; 10].  (* q QUOTE BACKSLASH TAB 0x01 LF *)
Definition w_esc : tree :=
  Dir [(b "0=ocfl_1.1", File (b "ocfl_1.1"));
       (b "objs", Dir [(b "x", Dir (w_obj false w_idq)); (b "y", Dir (w_obj true (b "plain")));
                       (b "z", Dir (w_obj true w_idc))])].

Lemma w_esc_wf : WellFormedRepo w_esc.
Proof.
  split.
  - change (spec_roots w_esc) with
      [([b "objs"; b "x"], w_obj false w_idq); ([b "objs"; b "y"], w_obj true (b "plain"));
       ([b "objs"; b "z"], w_obj true w_idc)].
    constructor; [wf_obj false w_idq|]. constructor; [wf_obj true (b "plain")|].
    constructor; [wf_obj true w_idc| constructor].
  - change (committed_ids w_esc) with [w_idq; b "plain"; w_idc].
    constructor; [intros [H|[H|[]]]; vm_compute in H; discriminate H|].
    constructor; [intros [H|[]]; vm_compute in H; discriminate H|].
    constructor; [intros []| constructor].
Qed.

Lemma w_esc_facts :
  names_unique w_esc = true /\
  needs_escape w_idq = true /\ needs_escape w_idc = true /\
  listed_ids (list_objects lit_match w_esc None) = [w_idq; b "plain"; w_idc] /\
  extract_object_id (serialize_inventory false w_idq w_rest) = Some w_idq /\
  extract_object_id (serialize_inventory true w_idc w_rest) = Some w_idc /\
  scan_for_inventory w_esc w_idq = Found [b "objs"; b "x"] w_idq /\       (* committed: found *)
  scan_for_inventory w_esc w_idc = Found [b "objs"; b "z"] w_idc /\
  scan_for_inventory w_esc w_idb = NotFound /\                            (* never committed: not found *)
  list_objects lit_match w_esc (Some w_idq) = [IOk [b "objs"; b "x"] w_idq] /\
  list_objects lit_match w_esc (Some w_idb) = [] /\
  (* the cache holds the true root, a second lookup through the same handle finds the object again *)
  get_inventory None [] w_esc w_idq = (Found [b "objs"; b "x"] w_idq, [(w_idq, [b "objs"; b "x"])]) /\
  fst (get_inventory None [(w_idq, [b "objs"; b "x"])] w_esc w_idq) = Found [b "objs"; b "x"] w_idq /\
  get_inventory None [] w_esc w_idb = (NotFound, []) /\
  purge_object None [(w_idq, [b "objs"; b "x"])] w_esc w_idq = (POk, remove_at w_esc [b "objs"; b "x"], []).
Proof. repeat split; vm_compute; reflexivity. Qed.

(** historical note: before 5a727de the pre-filter compared the escaped text cut at its first quote *)
Lemma w_esc_before_fix :
  raw_capture w_idq = w_idb /\
  extract_object_id_before_fix (serialize_inventory false w_idq w_rest) = Some w_idb /\
  extract_object_id_before_fix (serialize_inventory true w_idc w_rest) = Some (b "q\").
Proof. repeat split; vm_compute; reflexivity. Qed.

(** ** Hand-written inventories: what the pre-filter reads and what the full parse reads.
    A string serde_json cannot decode (raw TAB, unknown escape, lone surrogate) is
    compared as the raw text between the quotes (fs.rs:1069) and fails the full parse. *)
Definition w_tail : bytes := b ",""type"":""x""}".
Lemma w_prefilter_examples :
  (* escaped quotes do not end the string; the id member spelled inside it is no second id *)
  extract_object_id (b "{""id"":""a\""id\"":\""zz""" ++ w_tail) = Some (b "a""id"":""zz") /\
  parse_inventory_id (b "{""id"":""a\""id\"":\""zz""" ++ w_tail) = Some (b "a""id"":""zz") /\
  (* \u escapes, a surrogate pair *)
  extract_object_id (b "{ ""id"" : ""c6\u0041\ud83d\ude00""" ++ w_tail) = Some (b "c6A" ++ bs [240; 159; 152; 128]) /\
  parse_inventory_id (b "{ ""id"" : ""c6\u0041\ud83d\ude00""" ++ w_tail) = Some (b "c6A" ++ bs [240; 159; 152; 128]) /\
  (* fallback: raw TAB / unknown escape / lone surrogate / short \u escape *)
  extract_object_id (b "{""id"":""a" ++ bs [9] ++ b "b""" ++ w_tail) = Some (b "a" ++ bs [9] ++ b "b") /\
  parse_inventory_id (b "{""id"":""a" ++ bs [9] ++ b "b""" ++ w_tail) = None /\
  extract_object_id (b "{""id"":""x\qy""" ++ w_tail) = Some (b "x\qy") /\
  parse_inventory_id (b "{""id"":""x\qy""" ++ w_tail) = None /\
  extract_object_id (b "{""id"":""\ud800x""" ++ w_tail) = Some (b "\ud800x") /\
  extract_object_id (b "{""id"":""\u00""" ++ w_tail) = Some (b "\u00") /\
  (* no match in the first candidate (empty string; string not closed on its line): the scan goes on *)
  extract_object_id (b "{""id"":"""",""x"":{""id"":""in""}}") = Some (b "in") /\
  extract_object_id (b "{""id"":""a" ++ bs [10] ++ b "b"",""id"":""second""}") = Some (b "second") /\
  extract_object_id (b "{""id"":""a\" ++ bs [10] ++ b """}") = None.
Proof. repeat split; vm_compute; reflexivity. Qed.

(** ** Repaired (01aa490 + 3802aa0, was known finding layout-path-occupied): layouts
    0002/0006 map the ids extensions, 0=ocfl_1.1, (a flat id that is a prefix
    directory of other objects) a and (a path inside another object that holds an
    inventory file, its version directory) a/b/v1 onto paths that exist without
    being objects *)
Lemma w_occupied_facts :
  ~ In (b "extensions") (committed_ids w_good) /\
  object_like w_good [b "extensions"] = false /\
  get_inventory_by_path w_good (b "extensions") [b "extensions"] = NotFound /\
  get_inventory_by_path w_good (b "0=ocfl_1.1") [b "0=ocfl_1.1"] = NotFound /\
  get_inventory_by_path w_good (b "a") [b "a"] = NotFound /\
  nested_in_object w_good [b "a"; b "b"; b "v1"] = true /\
  object_like w_good [b "a"; b "b"; b "v1"] = true /\
  get_inventory_by_path w_good (b "a/b/v1") [b "a"; b "b"; b "v1"] = NotFound /\
  fst (get_inventory (Some (fun i => [i])) [] w_good (b "extensions")) = NotFound /\
  (* a real object at the path still answers, and still refuses another id *)
  get_inventory_by_path w_good (b "one") [b "a"; b "b"] = Found [b "a"; b "b"] (b "one") /\
  get_inventory_by_path w_good (b "zzz") [b "a"; b "b"] = Corrupt.
Proof.
  split; [|repeat split; vm_compute; reflexivity].
  change (committed_ids w_good) with [b "one"; b "two*[x]"].
  intros [H|[H|[]]]; vm_compute in H; discriminate H.
Qed.

(** historical note: before 01aa490 / 3802aa0 these lookups were general errors / CorruptObject *)
Lemma w_occupied_before_fix :
  get_inventory_by_path_before_fix w_good (b "extensions") [b "extensions"] = GenErr /\
  get_inventory_by_path_before_fix w_good (b "0=ocfl_1.1") [b "0=ocfl_1.1"] = GenErr /\
  get_inventory_by_path_before_fix w_good (b "a") [b "a"] = GenErr /\
  get_inventory_by_path_before_fix w_good (b "a/b/v1") [b "a"; b "b"; b "v1"] = Corrupt.
Proof. repeat split; vm_compute; reflexivity. Qed.

(** ** Repaired (4564259, was known finding stale-id-path-cache): one handle looks A1
    up, purges it, B1 is created at the same object root, A1 is looked up again *)
Definition w_reuse (i : bytes) : tree :=
  Dir [(b "0=ocfl_1.1", File (b "ocfl_1.1")); (b "reuse", Dir [(b "x", Dir (w_obj false i))])].
Definition w_stale0 : tree := w_reuse (b "A1").
Definition w_stale : tree := w_reuse (b "B1").
Definition w_cache : cache := [(b "A1", [b "reuse"; b "x"])].

Lemma w_reuse_good i : i <> [] -> Good (w_reuse i).
Proof.
  intros Hi. split.
  - split.
    + change (spec_roots (w_reuse i)) with [([b "reuse"; b "x"], w_obj false i)].
      constructor; [|constructor]. exists i. split; [exact Hi|].
      split; [exists false, w_rest; reflexivity| reflexivity].
    + assert (E : parse_inventory (w_obj false i) = Ok i).
      { apply (wf_root_parse i ([], w_obj false i)). split; [exact Hi|].
        split; [exists false, w_rest; reflexivity| reflexivity]. }
      unfold committed_ids. change (spec_roots (w_reuse i)) with [([b "reuse"; b "x"], w_obj false i)].
      cbn [flat_map]. unfold root_id. cbn [snd]. rewrite E. cbn [app]. constructor; [intros []| constructor].
  - reflexivity.
Qed.

Lemma w_stale_history :
  (* lookup, then purge through the handle: the entry is gone *)
  snd (get_inventory None [] w_stale0 (b "A1")) = w_cache /\
  purge_object None w_cache w_stale0 (b "A1") = (POk, remove_at w_stale0 [b "reuse"; b "x"], []) /\
  (* B1 now lives at the same root *)
  committed_ids w_stale = [b "B1"] /\
  reachable None w_stale [] /\
  fst (get_inventory None [] w_stale (b "A1")) = NotFound /\
  fst (get_inventory None [] w_stale (b "B1")) = Found [b "reuse"; b "x"] (b "B1").
Proof.
  assert (G0 : Good w_stale0) by (apply w_reuse_good; discriminate).
  split; [vm_compute; reflexivity|]. split; [vm_compute; reflexivity|]. split; [vm_compute; reflexivity|].
  split; [|split; vm_compute; reflexivity].
  pose proof (R_get None w_stale0 [] (b "A1") (R_open None w_stale0) G0) as R1.
  pose proof (R_purge None w_stale0 _ (b "A1") R1 G0) as R2.
  apply (R_write None _ w_stale _ R2).
  intros r Hr. vm_compute in Hr. destruct Hr.
Qed.

(** historical note: before 4564259 purge left the entry behind and the same
    handle answered CorruptObject for the purged id *)
Lemma w_stale_before_fix :
  purge_cache_before_fix None w_cache w_stale0 (b "A1") = w_cache /\
  cache_sound w_cache w_stale = false /\
  fst (get_inventory None w_cache w_stale (b "A1")) = Corrupt.
Proof. repeat split; vm_compute; reflexivity. Qed.
