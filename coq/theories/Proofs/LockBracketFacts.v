(** C13 - one bracket per operation: in every trace of the model the events of each operation spell
    Acq ; Mut* ; Rel  and then nothing (a refused operation: Fail and then nothing), whatever the
    outcome of its body; hence every trace is accepted by the strict automaton [strict_ok] of
    Model/Lock.v, and conversely the per-operation automaton accepts nothing but those shapes. *)
From Coq Require Import List Bool Arith Lia.
From Rocfl Require Import Model.Lock Proofs.LockFacts.
Import ListNotations.

Lemma repeat_snoc {A} (a : A) n : repeat a n ++ [a] = repeat a (S n).
Proof. induction n as [|n IH]; cbn; [reflexivity|]. f_equal. exact IH. Qed.

Lemma nth_error_combine_seq {A} (l : list A) : forall s i a,
  nth_error l i = Some a -> In (s + i, a) (combine (seq s (length l)) l).
Proof.
  induction l as [|h t IH]; intros s [|i] a H; cbn in *; try discriminate.
  - injection H as <-. left. f_equal. lia.
  - right. replace (s + S i) with (S s + i) by lia. apply IH. exact H.
Qed.

Lemma In_combine_seq {A} (l : list A) : forall s i a,
  In (i, a) (combine (seq s (length l)) l) -> s <= i /\ nth_error l (i - s) = Some a.
Proof.
  induction l as [|h t IH]; intros s i a H; cbn in *; [contradiction|].
  destruct H as [H|H].
  - injection H as <- <-. split; [lia|]. rewrite Nat.sub_diag. reflexivity.
  - apply IH in H. destruct H as [Hle Hn]. split; [lia|].
    replace (i - s) with (S (i - S s)) by lia. exact Hn.
Qed.

Section LockBracketFacts.
  Variables oid key data : Type.
  Variable oid_eqb : oid -> oid -> bool.
  Variable key_eqb : key -> key -> bool.
  Variable hash : oid -> key.
  Hypothesis key_eqb_spec : forall a b, key_eqb a b = true <-> a = b.

  Notation sys := (Lock.sys oid key data).
  Notation op := (Lock.op oid data).
  Notation pc := (Lock.pc data).
  Notation ev := (Lock.ev key).
  Notation step := (Lock.step oid key data oid_eqb key_eqb hash).
  Notation run_sched := (Lock.run_sched oid key data oid_eqb key_eqb hash).
  Notation init := (Lock.init oid key data).
  Notation wb_run := (Lock.wb_run key key_eqb).
  Notation ob_step := (Lock.ob_step key key_eqb).
  Notation ob_run := (Lock.ob_run key key_eqb).
  Notation proj := (Lock.proj key).
  Notation one_bracket := (Lock.one_bracket key key_eqb).
  Notation phase_of := (Lock.phase_of data).
  Notation op_shape := (Lock.op_shape key data).
  Notation strict_ok := (Lock.strict_ok key key_eqb).
  Notation strict_done := (Lock.strict_done key key_eqb).
  Notation brackets := (Lock.brackets key key_eqb).
  Notation tids_known := (Lock.tids_known key).
  Notation all_finished := (Lock.all_finished oid key data).
  Notation step_cases := (LockFacts.step_cases oid key data oid_eqb key_eqb hash key_eqb_spec).

  Lemma kk k : key_eqb k k = true.
  Proof. apply key_eqb_spec. reflexivity. Qed.

  (** ** projections *)

  Lemma proj_snoc i es (e : ev) :
    proj i (es ++ [e]) = proj i es ++ (if Nat.eqb (ev_tid e) i then [e] else []).
  Proof. unfold Lock.proj. rewrite filter_app. cbn. destruct (Nat.eqb (ev_tid e) i); reflexivity. Qed.

  Lemma proj_snoc_same i es kd k : proj i (es ++ [mkEv i kd k]) = proj i es ++ [mkEv i kd k].
  Proof. rewrite proj_snoc. cbn [ev_tid]. rewrite Nat.eqb_refl. reflexivity. Qed.

  Lemma proj_snoc_other i j es kd k : j <> i -> proj i (es ++ [mkEv j kd k]) = proj i es.
  Proof.
    intros N. rewrite proj_snoc. cbn [ev_tid]. apply Nat.eqb_neq in N. rewrite N. apply app_nil_r.
  Qed.

  Lemma proj_nil_no_event i es (e : ev) : proj i es = [] -> In e es -> ev_tid e <> i.
  Proof.
    intros P Hin E. assert (H : In e (proj i es)).
    { unfold Lock.proj. apply filter_In. split; [exact Hin|]. apply Nat.eqb_eq. exact E. }
    rewrite P in H. exact H.
  Qed.

  (** ** the per-operation automaton *)

  Lemma ob_run_app k ph a c :
    ob_run k ph (a ++ c) = match ob_run k ph a with Some ph' => ob_run k ph' c | None => None end.
  Proof.
    revert ph. induction a as [|e r IH]; intros ph; cbn; auto.
    destruct (ob_step k ph e); auto.
  Qed.

  Lemma ob_run_muts k i n : ob_run k PInside (repeat (mkEv i KMut k) n) = Some PInside.
  Proof.
    induction n as [|n IH]; cbn; [reflexivity|].
    unfold Lock.ob_step. cbn [ev_key ev_kind]. rewrite kk. exact IH.
  Qed.

  (** the shapes are accepted, and lead to the phase of the program counter *)
  Lemma op_shape_accepted i k (p : pc) tr :
    op_shape i k p tr -> ob_run k PFresh tr = Some (phase_of (Some p)).
  Proof.
    destruct p as [|rest|[out|]]; cbn [Lock.op_shape Lock.phase_of].
    - intros ->. reflexivity.
    - intros [n ->]. cbn. unfold Lock.ob_step at 1. cbn [ev_key ev_kind]. rewrite kk. apply ob_run_muts.
    - intros [n ->]. cbn. unfold Lock.ob_step at 1. cbn [ev_key ev_kind]. rewrite kk.
      rewrite ob_run_app, ob_run_muts. cbn. unfold Lock.ob_step. cbn [ev_key ev_kind]. rewrite kk. reflexivity.
    - intros ->. cbn. unfold Lock.ob_step. cbn [ev_key ev_kind]. rewrite kk. reflexivity.
  Qed.

  (** ... and nothing else is: the language of the automaton *)
  Lemma ob_step_inv k ph (e : ev) ph' :
    ob_step k ph e = Some ph' ->
    ev_key e = k /\
    ((ph = PFresh /\ ev_kind e = KAcq /\ ph' = PInside) \/ (ph = PFresh /\ ev_kind e = KFail /\ ph' = PClosed) \/
     (ph = PInside /\ ev_kind e = KMut /\ ph' = PInside) \/ (ph = PInside /\ ev_kind e = KRel /\ ph' = PClosed)).
  Proof.
    unfold Lock.ob_step. destruct (key_eqb (ev_key e) k) eqn:E; [|discriminate].
    apply key_eqb_spec in E. intros H. split; [exact E|].
    destruct ph, (ev_kind e); try discriminate; injection H as <-; tauto.
  Qed.

  Lemma ob_run_closed k es ph : ob_run k PClosed es = Some ph -> es = [].
  Proof.
    destruct es as [|e r]; [reflexivity|]. cbn.
    destruct (ob_step k PClosed e) as [q|] eqn:E; [|discriminate].
    apply ob_step_inv in E. destruct E as [_ [[H _]|[[H _]|[[H _]|[H _]]]]]; discriminate.
  Qed.

  Lemma ev_eta (e : ev) : e = mkEv (ev_tid e) (ev_kind e) (ev_key e).
  Proof. destruct e; reflexivity. Qed.

  Lemma ob_run_inside_shape k i es ph :
    (forall e, In e es -> ev_tid e = i) ->
    ob_run k PInside es = Some ph ->
    (ph = PInside /\ exists n, es = repeat (mkEv i KMut k) n) \/
    (ph = PClosed /\ exists n, es = repeat (mkEv i KMut k) n ++ [mkEv i KRel k]).
  Proof.
    induction es as [|e r IH]; intros T H.
    - cbn in H. injection H as <-. left. split; [reflexivity|]. exists 0. reflexivity.
    - cbn in H. destruct (ob_step k PInside e) as [q|] eqn:E; [|discriminate].
      assert (Te : ev_tid e = i) by (apply T; left; reflexivity).
      assert (Tr : forall x, In x r -> ev_tid x = i) by (intros x Hx; apply T; right; exact Hx).
      apply ob_step_inv in E. destruct E as [Ek [[C _]|[[C _]|[[_ [Ekd ->]]|[_ [Ekd ->]]]]]]; try discriminate.
      + assert (Ee : e = mkEv i KMut k) by (rewrite (ev_eta e), Te, Ekd, Ek; reflexivity).
        destruct (IH Tr H) as [[-> [n ->]]|[-> [n ->]]].
        * left. split; [reflexivity|]. exists (S n). rewrite Ee. reflexivity.
        * right. split; [reflexivity|]. exists (S n). rewrite Ee. reflexivity.
      + assert (Ee : e = mkEv i KRel k) by (rewrite (ev_eta e), Te, Ekd, Ek; reflexivity).
        assert (R := ob_run_closed k r ph H). subst r. cbn in H. injection H as <-.
        right. split; [reflexivity|]. exists 0. rewrite Ee. reflexivity.
  Qed.

  (** what the strict per-operation automaton accepts: nothing / Acq Mut* / Acq Mut* Rel / Fail *)
  Lemma ob_run_language k i es ph :
    (forall e, In e es -> ev_tid e = i) ->
    ob_run k PFresh es = Some ph ->
    (ph = PFresh /\ es = []) \/
    (ph = PInside /\ exists n, es = mkEv i KAcq k :: repeat (mkEv i KMut k) n) \/
    (ph = PClosed /\ ((exists n, es = mkEv i KAcq k :: repeat (mkEv i KMut k) n ++ [mkEv i KRel k]) \/
                      es = [mkEv i KFail k])).
  Proof.
    destruct es as [|e r]; intros T H.
    - cbn in H. injection H as <-. left. auto.
    - right. cbn in H. destruct (ob_step k PFresh e) as [q|] eqn:E; [|discriminate].
      assert (Te : ev_tid e = i) by (apply T; left; reflexivity).
      assert (Tr : forall x, In x r -> ev_tid x = i) by (intros x Hx; apply T; right; exact Hx).
      apply ob_step_inv in E. destruct E as [Ek [[_ [Ekd ->]]|[[_ [Ekd ->]]|[[C _]|[C _]]]]]; try discriminate.
      + assert (Ee : e = mkEv i KAcq k) by (rewrite (ev_eta e), Te, Ekd, Ek; reflexivity).
        destruct (ob_run_inside_shape k i r ph Tr H) as [[-> [n ->]]|[-> [n ->]]].
        * left. split; [reflexivity|]. exists n. rewrite Ee. reflexivity.
        * right. split; [reflexivity|]. left. exists n. rewrite Ee. reflexivity.
      + assert (Ee : e = mkEv i KFail k) by (rewrite (ev_eta e), Te, Ekd, Ek; reflexivity).
        assert (R := ob_run_closed k r ph H). subst r. cbn in H. injection H as <-.
        right. split; [reflexivity|]. right. rewrite Ee. reflexivity.
  Qed.

  Lemma proj_tids i es : forall e : ev, In e (proj i es) -> ev_tid e = i.
  Proof. intros e H. unfold Lock.proj in H. apply filter_In in H. apply Nat.eqb_eq. apply H. Qed.

  (** on the events of operation i of any trace: accepted and closed = exactly one acquire, all
      mutations between it and the one release, nothing after it (or the operation was refused) *)
  Lemma one_bracket_closed_shape k i es :
    one_bracket k i es = Some PClosed ->
    (exists n, proj i es = mkEv i KAcq k :: repeat (mkEv i KMut k) n ++ [mkEv i KRel k]) \/
    proj i es = [mkEv i KFail k].
  Proof.
    unfold Lock.one_bracket. intros H.
    destruct (ob_run_language k i _ PClosed (proj_tids i es) H) as [[C _]|[[C _]|[_ R]]]; try discriminate.
    exact R.
  Qed.

  (** ** the invariant: the events of every operation have the shape its program counter says *)

  Definition shape_inv (st : sys) : Prop :=
    forall i,
      match nth_error (ops st) i, nth_error (pcs st) i with
      | Some o, Some p => op_shape i (hash (op_obj o)) p (proj i (events st))
      | _, _ => proj i (events st) = []
      end.

  Lemma nth_error_map_const {A B} (l : list A) (b : B) i :
    nth_error (map (fun _ => b) l) i = match nth_error l i with Some _ => Some b | None => None end.
  Proof. revert i. induction l as [|h t IH]; intros [|i]; cbn; auto. Qed.

  Lemma shape_inv_init os d0 : shape_inv (init os d0).
  Proof.
    intros i. cbn [Lock.init ops pcs events]. rewrite nth_error_map_const.
    destruct (nth_error os i); reflexivity.
  Qed.

  Lemma ops_step st i : ops (step st i) = ops st.
  Proof.
    destruct (step_cases st i) as [E | o Eo Ep Hn | o Eo Ep Hin | o u next Eo Ep | o out Eo Ep]; reflexivity.
  Qed.

  Lemma ops_run st sched : ops (run_sched st sched) = ops st.
  Proof.
    revert st. induction sched as [|i s IH]; intros st; cbn; [reflexivity|].
    rewrite IH. apply ops_step.
  Qed.

  Lemma shape_inv_step st j : shape_inv st -> shape_inv (step st j).
  Proof.
    intros I i. specialize (I i).
    destruct (step_cases st j) as [E | o Eo Ep Hn | o Eo Ep Hin | o u next Eo Ep | o out Eo Ep];
      [exact I| | | | ]; cbn [Lock.apply_action ops pcs events];
      (destruct (Nat.eq_dec j i) as [<-|N];
       [ rewrite Eo, Ep in I; rewrite Eo; erewrite nth_error_upd_nth_eq by exact Ep;
         rewrite proj_snoc_same; cbn [Lock.op_shape] in I |- *
       | rewrite nth_error_upd_nth_neq by exact N; rewrite proj_snoc_other by exact N; exact I ]).
    - rewrite I. exists 0. reflexivity.
    - rewrite I. reflexivity.
    - destruct I as [n ->]. exists (S n). rewrite <- repeat_snoc. reflexivity.
    - destruct I as [n ->]. exists n. reflexivity.
  Qed.

  Lemma shape_inv_run st sched : shape_inv st -> shape_inv (run_sched st sched).
  Proof.
    revert st. induction sched as [|i s IH]; intros st I; cbn; auto.
    apply IH. apply shape_inv_step. exact I.
  Qed.

  Lemma shape_inv_reachable os d0 sched : shape_inv (run_sched (init os d0) sched).
  Proof. apply shape_inv_run. apply shape_inv_init. Qed.

  Lemma length_pcs_step st i : length (pcs (step st i)) = length (pcs st).
  Proof.
    destruct (step_cases st i) as [E | o Eo Ep Hn | o Eo Ep Hin | o u next Eo Ep | o out Eo Ep];
      cbn [Lock.apply_action pcs]; try reflexivity; apply length_upd_nth.
  Qed.

  Lemma length_pcs_run os d0 sched : length (pcs (run_sched (init os d0) sched)) = length os.
  Proof.
    assert (G : forall st, length (pcs (run_sched st sched)) = length (pcs st)).
    { induction sched as [|i s IH]; intros st; cbn; [reflexivity|]. rewrite IH. apply length_pcs_step. }
    rewrite G. cbn. apply map_length.
  Qed.

  (** ** the statements used by Props/C13.v *)

  (** the events of operation i have the shape that its program counter prescribes: nothing before it
      asked; Acq Mut* while inside its body; Fail alone when refused; Acq Mut* Rel when it returned,
      for EVERY outcome (Ok, Err, Panic) of its body *)
  Lemma operation_trace_shape os d0 sched i o p :
    nth_error os i = Some o ->
    nth_error (pcs (run_sched (init os d0) sched)) i = Some p ->
    op_shape i (hash (op_obj o)) p (proj i (events (run_sched (init os d0) sched))).
  Proof.
    intros Eo Ep. assert (I := shape_inv_reachable os d0 sched i).
    rewrite ops_run in I. cbn [Lock.init ops] in I. rewrite Eo, Ep in I. exact I.
  Qed.

  Lemma one_bracket_per_operation os d0 sched i o :
    nth_error os i = Some o ->
    one_bracket (hash (op_obj o)) i (events (run_sched (init os d0) sched))
    = Some (phase_of (nth_error (pcs (run_sched (init os d0) sched)) i)).
  Proof.
    intros Eo. unfold Lock.one_bracket.
    destruct (nth_error (pcs (run_sched (init os d0) sched)) i) as [p|] eqn:Ep.
    - eapply op_shape_accepted. eapply operation_trace_shape; eassumption.
    - exfalso. apply nth_error_None in Ep. rewrite length_pcs_run in Ep.
      assert (H : i < length os) by (apply nth_error_Some; rewrite Eo; discriminate). lia.
  Qed.

  (** the operation returned (any outcome): exactly one acquire, then only its mutations, then the one
      release, and no event after it *)
  Lemma returned_one_bracket os d0 sched i o (out : outcome) :
    nth_error os i = Some o ->
    nth_error (pcs (run_sched (init os d0) sched)) i = Some (Finished (RRet out)) ->
    exists n, proj i (events (run_sched (init os d0) sched))
              = mkEv i KAcq (hash (op_obj o)) :: repeat (mkEv i KMut (hash (op_obj o))) n
                ++ [mkEv i KRel (hash (op_obj o))].
  Proof. intros Eo Ep. exact (operation_trace_shape os d0 sched i o _ Eo Ep). Qed.

  Lemma refused_single_event os d0 sched i o :
    nth_error os i = Some o ->
    nth_error (pcs (run_sched (init os d0) sched)) i = Some (Finished RLock) ->
    proj i (events (run_sched (init os d0) sched)) = [mkEv i KFail (hash (op_obj o))].
  Proof. intros Eo Ep. exact (operation_trace_shape os d0 sched i o _ Eo Ep). Qed.

  Lemma events_tids_known os d0 sched :
    tids_known (length os) (events (run_sched (init os d0) sched)) = true.
  Proof.
    unfold Lock.tids_known. apply forallb_forall. intros e Hin. apply Nat.ltb_lt.
    destruct (Nat.lt_ge_cases (ev_tid e) (length os)) as [L|G]; [exact L|exfalso].
    assert (I := shape_inv_reachable os d0 sched (ev_tid e)).
    rewrite ops_run in I. cbn [Lock.init ops] in I.
    apply nth_error_None in G. rewrite G in I.
    exact (proj_nil_no_event _ _ e I Hin eq_refl).
  Qed.

  Lemma brackets_of_run os d0 sched r :
    In r (brackets (map (fun o => hash (op_obj o)) os) (events (run_sched (init os d0) sched))) ->
    exists i o, nth_error os i = Some o /\
                r = Some (phase_of (nth_error (pcs (run_sched (init os d0) sched)) i)).
  Proof.
    unfold Lock.brackets. intros H. apply in_map_iff in H. destruct H as [[i k] [<- Hin]].
    apply In_combine_seq in Hin. destruct Hin as [_ Hn]. rewrite Nat.sub_0_r in Hn.
    cbn [fst snd]. rewrite nth_error_map in Hn.
    destruct (nth_error os i) as [o|] eqn:Eo; [|discriminate]. cbn in Hn. injection Hn as <-.
    exists i, o. split; [exact Eo|]. apply one_bracket_per_operation. exact Eo.
  Qed.

  (** every trace of the model is accepted by the strict automaton *)
  Lemma traces_strict os d0 sched :
    strict_ok (map (fun o => hash (op_obj o)) os) (events (run_sched (init os d0) sched)) = true.
  Proof.
    unfold Lock.strict_ok.
    rewrite (traces_well_bracketed oid key data oid_eqb key_eqb hash key_eqb_spec os d0 sched).
    rewrite map_length, events_tids_known. cbn [andb].
    apply forallb_forall. intros r Hr. apply brackets_of_run in Hr.
    destruct Hr as [i [o [_ ->]]]. reflexivity.
  Qed.

  (** ... and the trace of a complete run leaves the automaton with no lock held and no operation
      between its acquire and its release *)
  Lemma complete_traces_strict os d0 sched :
    all_finished (run_sched (init os d0) sched) = true ->
    strict_done (map (fun o => hash (op_obj o)) os) (events (run_sched (init os d0) sched)) = true.
  Proof.
    intros F. unfold Lock.strict_done.
    rewrite (complete_traces_balanced oid key data oid_eqb key_eqb hash key_eqb_spec os d0 sched F).
    rewrite map_length, events_tids_known. cbn [andb].
    apply forallb_forall. intros r Hr. apply brackets_of_run in Hr.
    destruct Hr as [i [o [Eo ->]]].
    destruct (nth_error (pcs (run_sched (init os d0) sched)) i) as [p|] eqn:Ep; [|reflexivity].
    unfold Lock.all_finished in F. rewrite forallb_forall in F.
    apply nth_error_In in Ep. apply F in Ep. destruct p; try discriminate. reflexivity.
  Qed.

End LockBracketFacts.
