(** C13 - facts about the lock model (Model/Lock.v): the invariant of the interleaving
    semantics and its consequences (mutual exclusion, release on every exit, no data step
    without the lock, a failed acquire changes nothing, well-bracketed traces). *)
From Coq Require Import List Bool Arith Lia.
From Rocfl Require Import Model.Lock.
Import ListNotations.

(** * generic list facts *)

Lemma nth_error_upd_nth_eq {A} (l : list A) i a x :
  nth_error l i = Some x -> nth_error (upd_nth l i a) i = Some a.
Proof.
  revert i. induction l as [|h t IH]; intros [|i] H; cbn in *; try discriminate; auto.
Qed.

Lemma nth_error_upd_nth_neq {A} (l : list A) i j a :
  i <> j -> nth_error (upd_nth l i a) j = nth_error l j.
Proof.
  revert i j. induction l as [|h t IH]; intros [|i] [|j] H; cbn; auto; try congruence.
Qed.

Lemma length_upd_nth {A} (l : list A) i a : length (upd_nth l i a) = length l.
Proof. revert i. induction l as [|h t IH]; intros [|i]; cbn; auto. Qed.

Lemma upd_nth_comm {A} (l : list A) i j a b :
  i <> j -> upd_nth (upd_nth l i a) j b = upd_nth (upd_nth l j b) i a.
Proof.
  revert i j. induction l as [|h t IH]; intros [|i] [|j] H; cbn; auto; try congruence.
  f_equal. apply IH. congruence.
Qed.

Lemma nth_error_upd_nth_none {A} (l : list A) i a :
  nth_error l i = None -> upd_nth l i a = l.
Proof.
  revert i. induction l as [|h t IH]; intros [|i] H; cbn in *; try discriminate; auto.
  f_equal. auto.
Qed.

Lemma NoDup_map_fst_unique {A B} (l : list (A * B)) k a b :
  NoDup (map fst l) -> In (k, a) l -> In (k, b) l -> a = b.
Proof.
  induction l as [|[k' v] t IH]; cbn; intros Hnd Ha Hb; [contradiction|].
  inversion Hnd as [|? ? Hnin Hnd']; subst.
  destruct Ha as [Ha|Ha], Hb as [Hb|Hb].
  - congruence.
  - exfalso. inversion Ha; subst. apply Hnin. apply (in_map fst) in Hb. exact Hb.
  - exfalso. inversion Hb; subst. apply Hnin. apply (in_map fst) in Ha. exact Ha.
  - auto.
Qed.

Section LockFacts.
  Variables oid key data : Type.
  Variable oid_eqb : oid -> oid -> bool.
  Variable key_eqb : key -> key -> bool.
  Variable hash : oid -> key.
  Hypothesis oid_eqb_spec : forall a b, oid_eqb a b = true <-> a = b.
  Hypothesis key_eqb_spec : forall a b, key_eqb a b = true <-> a = b.

  Notation sys := (Lock.sys oid key data).
  Notation op := (Lock.op oid data).
  Notation prog := (Lock.prog data).
  Notation pc := (Lock.pc data).
  Notation ev := (Lock.ev key).
  Notation step := (Lock.step oid key data oid_eqb key_eqb hash).
  Notation action_of := (Lock.action_of oid key data key_eqb hash).
  Notation apply_action := (Lock.apply_action oid key data oid_eqb key_eqb).
  Notation run_sched := (Lock.run_sched oid key data oid_eqb key_eqb hash).
  Notation init := (Lock.init oid key data).
  Notation mem_key := (Lock.mem_key key key_eqb).
  Notation remove_key := (Lock.remove_key key key_eqb).
  Notation remove_held := (Lock.remove_held key key_eqb).
  Notation owns := (Lock.owns key key_eqb).
  Notation upd := (Lock.upd oid data oid_eqb).
  Notation wb_step := (Lock.wb_step key key_eqb).
  Notation wb_run := (Lock.wb_run key key_eqb).
  Notation serial_step := (Lock.serial_step oid data oid_eqb).
  Notation serial_data := (Lock.serial_data oid data oid_eqb).
  Notation serial_run := (Lock.serial_run oid data oid_eqb).
  Notation all_finished := (Lock.all_finished oid key data).
  Notation running_at := (Lock.running_at oid key data).
  Notation reachable := (Lock.reachable oid key data oid_eqb key_eqb hash).

  (** ** boolean helpers *)

  Lemma key_eqb_refl k : key_eqb k k = true.
  Proof. apply key_eqb_spec. reflexivity. Qed.

  Lemma key_eqb_false a b : key_eqb a b = false <-> a <> b.
  Proof.
    split.
    - intros H E. apply key_eqb_spec in E. congruence.
    - intros H. destruct (key_eqb a b) eqn:E; auto. apply key_eqb_spec in E. contradiction.
  Qed.

  Lemma oid_eqb_refl o : oid_eqb o o = true.
  Proof. apply oid_eqb_spec. reflexivity. Qed.

  Lemma oid_eqb_false a b : oid_eqb a b = false <-> a <> b.
  Proof.
    split.
    - intros H E. apply oid_eqb_spec in E. congruence.
    - intros H. destruct (oid_eqb a b) eqn:E; auto. apply oid_eqb_spec in E. contradiction.
  Qed.

  Lemma mem_key_In k l : mem_key k l = true <-> In k l.
  Proof.
    unfold Lock.mem_key. rewrite existsb_exists. split.
    - intros [x [Hin E]]. apply key_eqb_spec in E. subst. exact Hin.
    - intros H. exists k. split; [exact H|apply key_eqb_refl].
  Qed.

  Lemma mem_key_notIn k l : mem_key k l = false <-> ~ In k l.
  Proof.
    split.
    - intros H Hin. apply mem_key_In in Hin. congruence.
    - intros H. destruct (mem_key k l) eqn:E; auto. apply mem_key_In in E. contradiction.
  Qed.

  Lemma In_remove_key x k l : In x (remove_key k l) <-> In x l /\ x <> k.
  Proof.
    unfold Lock.remove_key. rewrite filter_In. split.
    - intros [Hin E]. split; auto. intros ->. rewrite key_eqb_refl in E. discriminate.
    - intros [Hin N]. split; auto. apply negb_true_iff. apply key_eqb_false. congruence.
  Qed.

  Lemma In_remove_held x j k h : In (x, j) (remove_held k h) <-> In (x, j) h /\ x <> k.
  Proof.
    unfold Lock.remove_held. rewrite filter_In. cbn [fst]. split.
    - intros [Hin E]. split; auto. intros ->. rewrite key_eqb_refl in E. discriminate.
    - intros [Hin N]. split; auto. apply negb_true_iff. apply key_eqb_false. congruence.
  Qed.

  Lemma map_fst_remove_held k h : map fst (remove_held k h) = remove_key k (map fst h).
  Proof.
    unfold Lock.remove_held, Lock.remove_key.
    induction h as [|[x j] t IH]; cbn; auto.
    destruct (key_eqb k x); cbn; [exact IH|f_equal; exact IH].
  Qed.

  Lemma NoDup_remove_key k l : NoDup l -> NoDup (remove_key k l).
  Proof. apply NoDup_filter. Qed.

  Lemma owns_In h k i : owns h k i = true <-> In (k, i) h.
  Proof.
    unfold Lock.owns. rewrite existsb_exists. split.
    - intros [[x j] [Hin E]]. cbn [fst snd] in E. apply andb_true_iff in E. destruct E as [E1 E2].
      apply key_eqb_spec in E1. apply Nat.eqb_eq in E2. subst. exact Hin.
    - intros H. exists (k, i). split; [exact H|]. cbn [fst snd].
      rewrite key_eqb_refl, Nat.eqb_refl. reflexivity.
  Qed.

  Lemma upd_same s o v : upd s o v o = v.
  Proof. unfold Lock.upd. rewrite oid_eqb_refl. reflexivity. Qed.

  Lemma upd_other s o v o' : o <> o' -> upd s o v o' = s o'.
  Proof. intros H. unfold Lock.upd. apply oid_eqb_false in H. rewrite H. reflexivity. Qed.

  Lemma wb_run_app h a c :
    wb_run h (a ++ c) = match wb_run h a with Some h' => wb_run h' c | None => None end.
  Proof.
    revert h. induction a as [|e r IH]; intros h; cbn; auto.
    destruct (wb_step h e); auto.
  Qed.

  (** ** the shape of a step *)

  Inductive step_case (st : sys) (i : nat) : sys -> Prop :=
  | SC_none : action_of st i = ANone -> step_case st i st
  | SC_acq o :
      nth_error (ops st) i = Some o -> nth_error (pcs st) i = Some Waiting ->
      ~ In (hash (op_obj o)) (locks st) ->
      step_case st i (apply_action st i (AAcq (hash (op_obj o)) (op_body o)))
  | SC_fail o :
      nth_error (ops st) i = Some o -> nth_error (pcs st) i = Some Waiting ->
      In (hash (op_obj o)) (locks st) ->
      step_case st i (apply_action st i (AFail (hash (op_obj o))))
  | SC_mut o u next :
      nth_error (ops st) i = Some o -> nth_error (pcs st) i = Some (Running (Step u next)) ->
      step_case st i (apply_action st i (AMut (hash (op_obj o)) (op_obj o)
                                               (u (store st (op_obj o))) (next (store st (op_obj o)))))
  | SC_rel o out :
      nth_error (ops st) i = Some o -> nth_error (pcs st) i = Some (Running (Done out)) ->
      step_case st i (apply_action st i (ARel (hash (op_obj o)) out)).

  Lemma step_cases st i : step_case st i (step st i).
  Proof.
    unfold Lock.step.
    destruct (nth_error (ops st) i) as [o|] eqn:Eo.
    2:{ assert (E : action_of st i = ANone) by (unfold Lock.action_of; rewrite Eo; reflexivity).
        rewrite E. cbn. apply SC_none. exact E. }
    destruct (nth_error (pcs st) i) as [[|[out|u next]|r]|] eqn:Ep.
    - destruct (mem_key (hash (op_obj o)) (locks st)) eqn:Em.
      + assert (E : action_of st i = AFail (hash (op_obj o)))
          by (unfold Lock.action_of; rewrite Eo, Ep, Em; reflexivity).
        rewrite E. apply SC_fail; auto. apply mem_key_In. exact Em.
      + assert (E : action_of st i = AAcq (hash (op_obj o)) (op_body o))
          by (unfold Lock.action_of; rewrite Eo, Ep, Em; reflexivity).
        rewrite E. apply SC_acq; auto. apply mem_key_notIn. exact Em.
    - assert (E : action_of st i = ARel (hash (op_obj o)) out)
        by (unfold Lock.action_of; rewrite Eo, Ep; reflexivity).
      rewrite E. apply SC_rel; auto.
    - assert (E : action_of st i = AMut (hash (op_obj o)) (op_obj o) (u (store st (op_obj o))) (next (store st (op_obj o))))
        by (unfold Lock.action_of; rewrite Eo, Ep; reflexivity).
      rewrite E. apply SC_mut; auto.
    - assert (E : action_of st i = ANone) by (unfold Lock.action_of; rewrite Eo, Ep; reflexivity).
      rewrite E. cbn. apply SC_none. exact E.
    - assert (E : action_of st i = ANone) by (unfold Lock.action_of; rewrite Eo, Ep; reflexivity).
      rewrite E. cbn. apply SC_none. exact E.
  Qed.

  (** ** the invariant *)

  Record inv (st : sys) : Prop := mkInv {
    inv_len : length (pcs st) = length (ops st);
    inv_map : map fst (held st) = locks st;
    inv_nodup : NoDup (locks st);
    inv_run_held : forall i o p, running_at st i o p -> In (hash (op_obj o), i) (held st);
    inv_held_run : forall k i, In (k, i) (held st) ->
                               exists o p, running_at st i o p /\ hash (op_obj o) = k;
    inv_wb : wb_run [] (events st) = Some (held st)
  }.

  Lemma inv_init os d0 : inv (init os d0).
  Proof.
    constructor; cbn.
    - apply map_length.
    - reflexivity.
    - constructor.
    - intros i o p [_ H]. exfalso.
      assert (Hm : forall (l : list op) n, nth_error (map (fun _ => @Waiting data) l) n <> Some (Running p)).
      { induction l as [|h t IH]; intros [|n]; cbn; try discriminate. apply IH. }
      exact (Hm _ _ H).
    - intros k i [].
    - reflexivity.
  Qed.

  Lemma inv_step st i : inv st -> inv (step st i).
  Proof.
    intros I. destruct I as [Ilen Imap Ind Irh Ihr Iwb].
    destruct (step_cases st i) as [E | o Eo Ep Hn | o Eo Ep Hin | o u next Eo Ep | o out Eo Ep].
    - constructor; assumption.
    - (* acquire *)
      constructor; unfold Lock.running_at; cbn [Lock.apply_action locks store ops pcs held acq_log events].
      + rewrite length_upd_nth. exact Ilen.
      + cbn. f_equal. exact Imap.
      + constructor; assumption.
      + intros j o' p [Ho Hp]. destruct (Nat.eq_dec i j) as [<-|N].
        * rewrite Eo in Ho. injection Ho as <-. left. reflexivity.
        * rewrite nth_error_upd_nth_neq in Hp by exact N. right. apply (Irh j o' p). split; assumption.
      + intros k j [Hk|Hk].
        * injection Hk as <- <-. exists o, (op_body o). split; [|reflexivity].
          split; [exact Eo|]. eapply nth_error_upd_nth_eq. exact Ep.
        * destruct (Ihr k j Hk) as [o' [p [[Ho Hp] Hh]]].
          exists o', p. split; [|exact Hh]. split; [exact Ho|].
          rewrite nth_error_upd_nth_neq; [exact Hp|]. intros <-. rewrite Ep in Hp. discriminate.
      + rewrite wb_run_app, Iwb. cbn. unfold Lock.wb_step. cbn [ev_kind ev_key ev_tid].
        rewrite Imap. apply mem_key_notIn in Hn. rewrite Hn. reflexivity.
    - (* failed acquire *)
      constructor; unfold Lock.running_at; cbn [Lock.apply_action locks store ops pcs held acq_log events].
      + rewrite length_upd_nth. exact Ilen.
      + exact Imap.
      + exact Ind.
      + intros j o' p [Ho Hp]. destruct (Nat.eq_dec i j) as [<-|N].
        * erewrite nth_error_upd_nth_eq in Hp by exact Ep. discriminate.
        * rewrite nth_error_upd_nth_neq in Hp by exact N. apply (Irh j o' p). split; assumption.
      + intros k j Hk. destruct (Ihr k j Hk) as [o' [p [[Ho Hp] Hh]]].
        exists o', p. split; [|exact Hh]. split; [exact Ho|].
        rewrite nth_error_upd_nth_neq; [exact Hp|]. intros <-. rewrite Ep in Hp. discriminate.
      + rewrite wb_run_app, Iwb. cbn. unfold Lock.wb_step. cbn [ev_kind ev_key ev_tid].
        rewrite Imap. apply mem_key_In in Hin. rewrite Hin. reflexivity.
    - (* data step *)
      assert (Hheld : In (hash (op_obj o), i) (held st)) by (apply (Irh i o (Step u next)); split; assumption).
      constructor; unfold Lock.running_at; cbn [Lock.apply_action locks store ops pcs held acq_log events].
      + rewrite length_upd_nth. exact Ilen.
      + exact Imap.
      + exact Ind.
      + intros j o' p [Ho Hp]. destruct (Nat.eq_dec i j) as [<-|N].
        * rewrite Eo in Ho. injection Ho as <-. exact Hheld.
        * rewrite nth_error_upd_nth_neq in Hp by exact N. apply (Irh j o' p). split; assumption.
      + intros k j Hk. destruct (Ihr k j Hk) as [o' [p [[Ho Hp] Hh]]].
        destruct (Nat.eq_dec i j) as [<-|N].
        * exists o', (next (store st (op_obj o))). split; [|exact Hh]. split; [exact Ho|].
          eapply nth_error_upd_nth_eq. exact Ep.
        * exists o', p. split; [|exact Hh]. split; [exact Ho|].
          rewrite nth_error_upd_nth_neq by exact N. exact Hp.
      + rewrite wb_run_app, Iwb. cbn. unfold Lock.wb_step. cbn [ev_kind ev_key ev_tid].
        apply owns_In in Hheld. rewrite Hheld. reflexivity.
    - (* release *)
      assert (Hheld : In (hash (op_obj o), i) (held st)) by (apply (Irh i o (Done out)); split; assumption).
      assert (Hnd : NoDup (map fst (held st))) by (rewrite Imap; exact Ind).
      constructor; unfold Lock.running_at; cbn [Lock.apply_action locks store ops pcs held acq_log events].
      + rewrite length_upd_nth. exact Ilen.
      + rewrite map_fst_remove_held. rewrite Imap. reflexivity.
      + apply NoDup_remove_key. exact Ind.
      + intros j o' p [Ho Hp]. destruct (Nat.eq_dec i j) as [<-|N].
        * erewrite nth_error_upd_nth_eq in Hp by exact Ep. discriminate.
        * rewrite nth_error_upd_nth_neq in Hp by exact N.
          assert (Hj : In (hash (op_obj o'), j) (held st)) by (apply (Irh j o' p); split; assumption).
          apply In_remove_held. split; [exact Hj|].
          intros Ek. rewrite Ek in Hj. apply N. eapply NoDup_map_fst_unique; eassumption.
      + intros k j Hk. apply In_remove_held in Hk. destruct Hk as [Hk Hne].
        destruct (Ihr k j Hk) as [o' [p [[Ho Hp] Hh]]].
        exists o', p. split; [|exact Hh]. split; [exact Ho|].
        rewrite nth_error_upd_nth_neq; [exact Hp|].
        intros <-. rewrite Eo in Ho. injection Ho as <-. congruence.
      + rewrite wb_run_app, Iwb. cbn. unfold Lock.wb_step. cbn [ev_kind ev_key ev_tid].
        apply owns_In in Hheld. rewrite Hheld. reflexivity.
  Qed.

  Lemma inv_run st sched : inv st -> inv (run_sched st sched).
  Proof.
    revert st. induction sched as [|i s IH]; intros st I; cbn; auto.
    apply IH. apply inv_step. exact I.
  Qed.

  Lemma inv_reachable os d0 st : reachable os d0 st -> inv st.
  Proof. intros [s ->]. apply inv_run. apply inv_init. Qed.

  (** ** consequences *)

  (** mutual exclusion, on lock keys (no injectivity needed: a collision only excludes more) *)
  Lemma mutex_keys st i j oi oj p q :
    inv st -> running_at st i oi p -> running_at st j oj q ->
    hash (op_obj oi) = hash (op_obj oj) -> i = j.
  Proof.
    intros I Hi Hj E.
    assert (A := inv_run_held st I i oi p Hi).
    assert (B := inv_run_held st I j oj q Hj).
    rewrite E in A. eapply NoDup_map_fst_unique; [|exact A|exact B].
    rewrite (inv_map st I). exact (inv_nodup st I).
  Qed.

  Lemma mutex_reachable os d0 st i j oi oj p q :
    reachable os d0 st -> running_at st i oi p -> running_at st j oj q ->
    op_obj oi = op_obj oj -> i = j.
  Proof.
    intros R Hi Hj E. eapply mutex_keys; eauto using inv_reachable. rewrite E. reflexivity.
  Qed.

  (** a lock in the table always belongs to an operation that is inside its body (no leak),
      and an operation inside its body always has its lock in the table *)
  Lemma lock_iff_running st k :
    inv st -> (In k (locks st) <-> exists i o p, running_at st i o p /\ hash (op_obj o) = k).
  Proof.
    intros I. rewrite <- (inv_map st I). split.
    - intros H. apply in_map_iff in H. destruct H as [[k' i] [E Hin]]. cbn in E. subst k'.
      destruct (inv_held_run st I k i Hin) as [o [p [Hr Hh]]]. exists i, o, p. auto.
    - intros [i [o [p [Hr Hh]]]]. apply (inv_run_held st I) in Hr. rewrite Hh in Hr.
      apply (in_map fst) in Hr. exact Hr.
  Qed.

  (** released on return: the step that finishes operation i (whatever the outcome of its body:
      Ok, Err or Panic) removes the lock of its object from the table *)
  Lemma released_on_return_step st i o out :
    inv st -> running_at st i o (Done out) ->
    nth_error (pcs (step st i)) i = Some (Finished (RRet out)) /\
    ~ In (hash (op_obj o)) (locks (step st i)).
  Proof.
    intros I [Eo Ep].
    assert (E : action_of st i = ARel (hash (op_obj o)) out)
      by (unfold Lock.action_of; rewrite Eo, Ep; reflexivity).
    unfold Lock.step. rewrite E. cbn [Lock.apply_action locks pcs]. split.
    - eapply nth_error_upd_nth_eq. exact Ep.
    - intros H. apply In_remove_key in H. destruct H as [_ H]. apply H. reflexivity.
  Qed.

  Lemma finished_stays st i r j :
    nth_error (pcs st) i = Some (Finished r) -> nth_error (pcs (step st j)) i = Some (Finished r).
  Proof.
    intros H.
    destruct (step_cases st j) as [E | o Eo Ep Hn | o Eo Ep Hin | o u next Eo Ep | o out Eo Ep];
      cbn [Lock.apply_action pcs]; auto;
      (destruct (Nat.eq_dec j i) as [<-|N]; [rewrite Ep in H; discriminate|
                                             rewrite nth_error_upd_nth_neq by exact N; exact H]).
  Qed.

  (** when every operation has returned the table is empty *)
  Lemma all_finished_no_locks st : inv st -> all_finished st = true -> locks st = [].
  Proof.
    intros I F. destruct (locks st) as [|k l] eqn:E; auto. exfalso.
    assert (Hin : In k (locks st)) by (rewrite E; left; reflexivity).
    apply (lock_iff_running st k I) in Hin. destruct Hin as [i [o [p [[_ Hp] _]]]].
    unfold Lock.all_finished in F. rewrite forallb_forall in F.
    apply nth_error_In in Hp. apply F in Hp. discriminate.
  Qed.

  (** no data step outside the lock: a step that changes the data of some object is a step of an
      operation on that object which is inside its body and whose lock is in the table *)
  Lemma no_mutation_outside_lock_step st i o :
    inv st -> store (step st i) o <> store st o ->
    exists x p, running_at st i x p /\ op_obj x = o /\ In (hash o) (locks st) /\ In (hash o, i) (held st).
  Proof.
    intros I Hne.
    destruct (step_cases st i) as [E | x Eo Ep Hn | x Eo Ep Hin | x u next Eo Ep | x out Eo Ep];
      cbn [Lock.apply_action store] in Hne; try (exfalso; apply Hne; reflexivity).
    destruct (oid_eqb (op_obj x) o) eqn:Eq.
    - apply oid_eqb_spec in Eq. subst o.
      assert (Hr : running_at st i x (Step u next)) by (split; assumption).
      exists x, (Step u next). split; [exact Hr|]. split; [reflexivity|].
      assert (Hh := inv_run_held st I i x _ Hr). split; [|exact Hh].
      rewrite <- (inv_map st I). apply (in_map fst) in Hh. exact Hh.
    - exfalso. apply Hne. unfold Lock.upd. rewrite Eq. reflexivity.
  Qed.

  (** a failed acquire changes nothing but the caller's own result *)
  Lemma failed_acquire_changes_nothing_step st i o :
    nth_error (ops st) i = Some o -> nth_error (pcs st) i = Some Waiting ->
    In (hash (op_obj o)) (locks st) ->
    locks (step st i) = locks st /\ store (step st i) = store st /\ held (step st i) = held st /\
    acq_log (step st i) = acq_log st /\ ops (step st i) = ops st /\
    nth_error (pcs (step st i)) i = Some (Finished RLock) /\
    (forall j, j <> i -> nth_error (pcs (step st i)) j = nth_error (pcs st) j).
  Proof.
    intros Eo Ep Hin. apply mem_key_In in Hin.
    assert (E : action_of st i = AFail (hash (op_obj o)))
      by (unfold Lock.action_of; rewrite Eo, Ep, Hin; reflexivity).
    unfold Lock.step. rewrite E. cbn [Lock.apply_action locks store held acq_log ops pcs].
    repeat split; auto.
    - eapply nth_error_upd_nth_eq. exact Ep.
    - intros j N. apply nth_error_upd_nth_neq. congruence.
  Qed.

  (** ... and an acquire fails exactly when the lock is taken (fail fast, no waiting) *)
  Lemma acquire_succeeds_iff_free st i o :
    nth_error (ops st) i = Some o -> nth_error (pcs st) i = Some Waiting ->
    (~ In (hash (op_obj o)) (locks st) <-> nth_error (pcs (step st i)) i = Some (Running (op_body o))) /\
    (In (hash (op_obj o)) (locks st) <-> nth_error (pcs (step st i)) i = Some (Finished RLock)).
  Proof.
    intros Eo Ep. unfold Lock.step, Lock.action_of. rewrite Eo, Ep.
    destruct (mem_key (hash (op_obj o)) (locks st)) eqn:Em; cbn [Lock.apply_action pcs];
      erewrite nth_error_upd_nth_eq by exact Ep.
    - apply mem_key_In in Em. split; split; intros H; auto; try discriminate. contradiction.
    - apply mem_key_notIn in Em. split; split; intros H; auto; try discriminate. contradiction.
  Qed.

  (** every trace of the model is accepted by the bracket automaton; after a complete run the
      automaton is back in its initial state *)
  Lemma traces_well_bracketed os d0 sched :
    wb_run [] (events (run_sched (init os d0) sched)) = Some (held (run_sched (init os d0) sched)).
  Proof. apply inv_wb. apply inv_run. apply inv_init. Qed.

  Lemma complete_traces_balanced os d0 sched :
    all_finished (run_sched (init os d0) sched) = true ->
    wb_run [] (events (run_sched (init os d0) sched)) = Some [].
  Proof.
    intros F. rewrite traces_well_bracketed. f_equal.
    assert (I : inv (run_sched (init os d0) sched)) by (apply inv_run, inv_init).
    assert (L := all_finished_no_locks _ I F). rewrite <- (inv_map _ I) in L.
    destruct (held (run_sched (init os d0) sched)); [reflexivity|discriminate].
  Qed.

End LockFacts.
