(** C13 - the serial execution used as the reference of serializability is itself a run of the
    model: for every duplicate-free list of operations there is a schedule in which they run
    strictly one after the other (one block of steps per operation, in that order), nobody is ever
    refused, and the data left is [serial_data].  Together with LockSerialFacts.serializable_complete:
    every complete interleaving ends with the data of such a serial schedule of its acquire log. *)
From Coq Require Import List Bool Arith Lia.
From Rocfl Require Import Model.Lock Proofs.LockFacts Proofs.LockSerialFacts.
Import ListNotations.

Section LockSchedule.
  Variables oid key data : Type.
  Variable oid_eqb : oid -> oid -> bool.
  Variable key_eqb : key -> key -> bool.
  Variable hash : oid -> key.
  Hypothesis oid_eqb_spec : forall a b, oid_eqb a b = true <-> a = b.
  Hypothesis key_eqb_spec : forall a b, key_eqb a b = true <-> a = b.

  Notation sys := (Lock.sys oid key data).
  Notation op := (Lock.op oid data).
  Notation prog := (Lock.prog data).
  Notation step := (Lock.step oid key data oid_eqb key_eqb hash).
  Notation action_of := (Lock.action_of oid key data key_eqb hash).
  Notation run_sched := (Lock.run_sched oid key data oid_eqb key_eqb hash).
  Notation init := (Lock.init oid key data).
  Notation mem_key := (Lock.mem_key key key_eqb).
  Notation remove_key := (Lock.remove_key key key_eqb).
  Notation upd := (Lock.upd oid data oid_eqb).
  Notation serial_step := (Lock.serial_step oid data oid_eqb).
  Notation serial_data := (Lock.serial_data oid data oid_eqb).
  Notation all_finished := (Lock.all_finished oid key data).

  Lemma run_sched_app st a c : run_sched st (a ++ c) = run_sched (run_sched st a) c.
  Proof. revert st. induction a as [|i r IH]; intros st; cbn; auto. Qed.

  Lemma remove_key_notin k l : ~ In k l -> remove_key k l = l.
  Proof.
    unfold Lock.remove_key. induction l as [|h t IH]; cbn; intros H; auto.
    destruct (key_eqb k h) eqn:E.
    - apply key_eqb_spec in E. subst h. exfalso. apply H. left. reflexivity.
    - cbn. f_equal. apply IH. intros Hin. apply H. right. exact Hin.
  Qed.

  (** effect of a block of steps of operation i on the state, relative to [st] *)
  Definition block_effect (st st' : sys) (i : nat) (x : op) (d : data) : Prop :=
    (forall o, store st' o = if oid_eqb (op_obj x) o then d else store st o) /\
    ops st' = ops st /\
    (forall j, j <> i -> nth_error (pcs st') j = nth_error (pcs st) j).

  (** an operation inside its body runs to the end of its body when scheduled alone *)
  Lemma run_body (p : prog) : forall (st : sys) i x,
    nth_error (ops st) i = Some x -> nth_error (pcs st) i = Some (Running p) ->
    exists n, let st' := run_sched st (repeat i n) in
      nth_error (pcs st') i = Some (Running (Done (snd (run_prog p (store st (op_obj x)))))) /\
      block_effect st st' i x (fst (run_prog p (store st (op_obj x)))) /\
      locks st' = locks st /\ acq_log st' = acq_log st.
  Proof.
    induction p as [out|u next IH]; intros st i x Eo Ep.
    - exists 0. cbn. split; [exact Ep|]. split; [|split; reflexivity].
      split; [|split; auto]. intros o. destruct (oid_eqb (op_obj x) o) eqn:E; [|reflexivity].
      apply oid_eqb_spec in E. subst o. reflexivity.
    - set (d := store st (op_obj x)).
      assert (Ea : action_of st i = AMut (hash (op_obj x)) (op_obj x) (u d) (next d))
        by (unfold Lock.action_of; rewrite Eo, Ep; reflexivity).
      set (st1 := step st i).
      assert (E1 : st1 = Lock.apply_action oid key data oid_eqb key_eqb st i
                           (AMut (hash (op_obj x)) (op_obj x) (u d) (next d)))
        by (unfold st1, Lock.step; rewrite Ea; reflexivity).
      assert (Eo1 : nth_error (ops st1) i = Some x) by (rewrite E1; exact Eo).
      assert (Ep1 : nth_error (pcs st1) i = Some (Running (next d))).
      { rewrite E1. cbn [Lock.apply_action pcs]. eapply nth_error_upd_nth_eq. exact Ep. }
      assert (Es1 : store st1 (op_obj x) = u d).
      { rewrite E1. cbn [Lock.apply_action store]. apply (LockFacts.upd_same oid data oid_eqb oid_eqb_spec). }
      destruct (IH d st1 i x Eo1 Ep1) as [n [Hp [[Hs [Ho Hj]] [Hl Ha]]]].
      exists (S n). cbn [repeat Lock.run_sched]. fold st1. cbn zeta in *.
      rewrite Es1 in Hp, Hs. cbn [run_prog]. fold d.
      split; [exact Hp|]. split; [|split].
      + split; [|split].
        * intros o. rewrite (Hs o). destruct (oid_eqb (op_obj x) o) eqn:E; [reflexivity|].
          rewrite E1. cbn [Lock.apply_action store]. unfold Lock.upd. rewrite E. reflexivity.
        * rewrite Ho, E1. reflexivity.
        * intros j N. rewrite (Hj j N), E1. cbn [Lock.apply_action pcs].
          apply nth_error_upd_nth_neq. congruence.
      + rewrite Hl, E1. reflexivity.
      + rewrite Ha, E1. reflexivity.
  Qed.

  (** an operation that finds its lock free runs from the call to the return when scheduled alone *)
  Lemma run_op (st : sys) i x :
    nth_error (ops st) i = Some x -> nth_error (pcs st) i = Some Waiting ->
    ~ In (hash (op_obj x)) (locks st) ->
    exists n, let st' := run_sched st (repeat i n) in
      nth_error (pcs st') i = Some (Finished (RRet (snd (run_prog (op_body x) (store st (op_obj x)))))) /\
      block_effect st st' i x (fst (run_prog (op_body x) (store st (op_obj x)))) /\
      locks st' = locks st /\ acq_log st' = acq_log st ++ [i].
  Proof.
    intros Eo Ep Hn.
    assert (Hm := proj2 (LockFacts.mem_key_notIn key key_eqb key_eqb_spec _ _) Hn).
    assert (Ea : action_of st i = AAcq (hash (op_obj x)) (op_body x))
      by (unfold Lock.action_of; rewrite Eo, Ep, Hm; reflexivity).
    set (st1 := step st i).
    assert (E1 : st1 = Lock.apply_action oid key data oid_eqb key_eqb st i (AAcq (hash (op_obj x)) (op_body x)))
      by (unfold st1, Lock.step; rewrite Ea; reflexivity).
    assert (Eo1 : nth_error (ops st1) i = Some x) by (rewrite E1; exact Eo).
    assert (Ep1 : nth_error (pcs st1) i = Some (Running (op_body x))).
    { rewrite E1. cbn [Lock.apply_action pcs]. eapply nth_error_upd_nth_eq. exact Ep. }
    assert (Es1 : store st1 = store st) by (rewrite E1; reflexivity).
    destruct (run_body (op_body x) st1 i x Eo1 Ep1) as [n [Hp [[Hs [Ho Hj]] [Hl Ha]]]].
    cbn zeta in *. rewrite Es1 in Hp, Hs.
    set (st2 := run_sched st1 (repeat i n)) in *.
    set (out := snd (run_prog (op_body x) (store st (op_obj x)))) in *.
    assert (Eo2 : nth_error (ops st2) i = Some x) by (rewrite Ho; exact Eo1).
    assert (Ea2 : action_of st2 i = ARel (hash (op_obj x)) out)
      by (unfold Lock.action_of; rewrite Eo2, Hp; reflexivity).
    exists (S (n + 1)). cbn [repeat Lock.run_sched]. fold st1.
    rewrite repeat_app, run_sched_app. fold st2. cbn [repeat Lock.run_sched].
    unfold Lock.step. rewrite Ea2. unfold block_effect. cbn [Lock.apply_action pcs store ops locks acq_log].
    split; [eapply nth_error_upd_nth_eq; exact Hp|]. split; [|split].
    - split; [|split].
      + exact Hs.
      + rewrite Ho, E1. reflexivity.
      + intros j N. rewrite nth_error_upd_nth_neq by congruence. rewrite (Hj j N), E1.
        cbn [Lock.apply_action pcs]. apply nth_error_upd_nth_neq. congruence.
    - rewrite Hl, E1. cbn [Lock.apply_action locks]. unfold Lock.remove_key. cbn [filter].
      rewrite (LockFacts.key_eqb_refl key key_eqb key_eqb_spec). cbn [negb].
      apply remove_key_notin. exact Hn.
    - rewrite Ha, E1. reflexivity.
  Qed.

  Lemma nth_error_init_pcs (os : list op) i x :
    nth_error os i = Some x -> nth_error (map (fun _ : op => @Waiting data) os) i = Some Waiting.
  Proof. intros H. rewrite nth_error_map, H. reflexivity. Qed.

  Lemma serial_schedule_exists (os : list op) (d0 : oid -> data) (log : list nat) :
    NoDup log -> (forall i, In i log -> exists x, nth_error os i = Some x) ->
    exists bl, map fst bl = log /\
      let st := run_sched (init os d0) (blocks_sched bl) in
      acq_log st = log /\ locks st = [] /\ ops st = os /\
      (forall o, store st o = serial_data os d0 log o) /\
      (forall i, In i log -> exists out, nth_error (pcs st) i = Some (Finished (RRet out))) /\
      (forall i, ~ In i log -> nth_error (pcs st) i = nth_error (pcs (init os d0)) i).
  Proof.
    induction log as [|i l IH] using rev_ind; intros Hnd Hval.
    - exists []. cbn. repeat split; auto. intros i [].
    - apply NoDup_remove in Hnd. rewrite app_nil_r in Hnd. destruct Hnd as [Hnd Hni].
      destruct IH as [bl [Hbl [Hlog [Hlk [Hops [Hst [Hfin Hrest]]]]]]]; [exact Hnd| |].
      { intros j Hj. apply Hval. apply in_or_app. left. exact Hj. }
      cbn zeta in *. set (st := run_sched (init os d0) (blocks_sched bl)) in *.
      destruct (Hval i) as [x Hx]; [apply in_or_app; right; left; reflexivity|].
      assert (Eo : nth_error (ops st) i = Some x) by (rewrite Hops; exact Hx).
      assert (Ep : nth_error (pcs st) i = Some Waiting).
      { rewrite (Hrest i Hni). cbn. apply (nth_error_init_pcs os i x Hx). }
      assert (Hfree : ~ In (hash (op_obj x)) (locks st)) by (rewrite Hlk; intros []).
      destruct (run_op st i x Eo Ep Hfree) as [n [Hp [[Hs [Ho Hj]] [Hl Ha]]]].
      cbn zeta in *.
      exists (bl ++ [(i, n)]). split; [rewrite map_app, Hbl; reflexivity|].
      unfold blocks_sched. rewrite flat_map_app. cbn [flat_map fst snd]. rewrite app_nil_r.
      rewrite run_sched_app. fold (blocks_sched bl). fold st.
      set (st' := run_sched st (repeat i n)) in *.
      split; [rewrite Ha, Hlog; reflexivity|]. split; [rewrite Hl; exact Hlk|].
      split; [rewrite Ho; exact Hops|]. split; [|split].
      + intros o. rewrite (Hs o). rewrite (LockSerialFacts.serial_data_snoc oid data oid_eqb).
        unfold Lock.serial_step. rewrite Hx.
        destruct (oid_eqb (op_obj x) o) eqn:E.
        * apply oid_eqb_spec in E. subst o. rewrite (Hst (op_obj x)). reflexivity.
        * apply Hst.
      + intros j Hj'. apply in_app_or in Hj'. destruct Hj' as [Hj'|[<-|[]]].
        * destruct (Hfin j Hj') as [out Hout]. exists out. rewrite Hj; [exact Hout|].
          intros ->. contradiction.
        * eexists. exact Hp.
      + intros j Hj'. rewrite Hj.
        * apply Hrest. intros H. apply Hj'. apply in_or_app. left. exact H.
        * intros ->. apply Hj'. apply in_or_app. right. left. reflexivity.
  Qed.

  (** every complete interleaving ends with the data of a serial schedule of its acquire log *)
  Lemma equivalent_serial_schedule (os : list op) (d0 : oid -> data) (sched : list nat) :
    all_finished (run_sched (init os d0) sched) = true ->
    exists bl,
      map fst bl = acq_log (run_sched (init os d0) sched) /\
      let st := run_sched (init os d0) sched in
      let ss := run_sched (init os d0) (blocks_sched bl) in
      acq_log ss = acq_log st /\ locks ss = [] /\ locks st = [] /\
      (forall o, store st o = store ss o) /\
      (forall i, In i (acq_log st) -> exists out, nth_error (pcs ss) i = Some (Finished (RRet out))
                                                 /\ nth_error (pcs st) i = Some (Finished (RRet out))).
  Proof.
    intros F. set (st := run_sched (init os d0) sched) in *.
    destruct (LockSerialFacts.acq_log_exact oid key data oid_eqb key_eqb hash key_eqb_spec os d0 sched) as [Hnd Hlog].
    fold st in Hnd, Hlog.
    assert (I : LockFacts.inv oid key data key_eqb hash st)
      by (apply (LockFacts.inv_run oid key data oid_eqb key_eqb hash key_eqb_spec), LockFacts.inv_init).
    destruct (LockSerialFacts.ser_inv_run oid key data oid_eqb key_eqb hash oid_eqb_spec key_eqb_spec os d0 (init os d0) sched
                (LockFacts.inv_init oid key data key_eqb hash os d0)
                (LockSerialFacts.ser_inv_init oid key data oid_eqb os d0)) as [_ [Hops _]].
    fold st in Hops.
    assert (Hval : forall i, In i (acq_log st) -> exists x, nth_error os i = Some x).
    { intros i Hi. apply Hlog in Hi. destruct Hi as [p [Hp _]].
      assert (Hlt : i < length (pcs st)) by (apply nth_error_Some; congruence).
      rewrite (LockFacts.inv_len _ _ _ _ _ _ I), Hops in Hlt.
      destruct (nth_error os i) as [x|] eqn:E; [exists x; reflexivity|].
      apply nth_error_None in E. lia. }
    destruct (serial_schedule_exists os d0 (acq_log st) Hnd Hval) as [bl [Hbl [Ha [Hl [Ho [Hs [Hf Hr]]]]]]].
    cbn zeta in *. exists bl. split; [exact Hbl|].
    split; [exact Ha|]. split; [exact Hl|].
    split; [apply (LockFacts.all_finished_no_locks oid key data key_eqb hash st I F)|].
    split.
    - intros o. rewrite (Hs o).
      apply (LockSerialFacts.serializable_complete oid key data oid_eqb key_eqb hash oid_eqb_spec key_eqb_spec os d0 sched F o).
    - intros i Hi. destruct (Hf i Hi) as [out Hout].
      assert (Hi' := Hi). apply Hlog in Hi'. destruct Hi' as [p [Hp Hacq]].
      unfold Lock.all_finished in F. rewrite forallb_forall in F.
      assert (Hfin := F p (nth_error_In _ _ Hp)).
      destruct p as [|rest|[out'|]]; try discriminate.
      (* both outcomes are the outcome of the serial execution *)
      apply in_split in Hi. destruct Hi as [pre [post Hsplit]].
      destruct (Hval i) as [x Hx]; [rewrite Hsplit; apply in_elt|].
      assert (E1 := LockSerialFacts.serializable_outcomes oid key data oid_eqb key_eqb hash oid_eqb_spec key_eqb_spec
                      os d0 sched pre post i x out' Hsplit Hx Hp).
      (* the serial schedule is itself a schedule: apply the same theorem to it *)
      assert (Hss : exists s2, blocks_sched bl = s2) by (eexists; reflexivity).
      destruct Hss as [s2 Hs2]. rewrite Hs2 in *.
      assert (Hsplit2 : acq_log (run_sched (init os d0) s2) = pre ++ i :: post) by (rewrite Ha; exact Hsplit).
      assert (E2 := LockSerialFacts.serializable_outcomes oid key data oid_eqb key_eqb hash oid_eqb_spec key_eqb_spec
                      os d0 s2 pre post i x out Hsplit2 Hx Hout).
      exists out. split; [exact Hout|]. rewrite E2, <- E1. exact Hp.
  Qed.

End LockSchedule.
