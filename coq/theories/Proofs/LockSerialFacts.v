(** C13 - serializability and commutation for the lock model (Model/Lock.v):
    every interleaving leaves each object with the data a serial execution, in acquire order,
    of the operations that got their lock would leave; every operation reports the outcome
    it has in that serial execution; steps of operations on different objects commute. *)
From Coq Require Import List Bool Arith Lia.
From Rocfl Require Import Model.Lock Proofs.LockFacts.
Import ListNotations.

Lemma NoDup_snoc {A} (l : list A) a : NoDup l -> ~ In a l -> NoDup (l ++ [a]).
Proof.
  induction l as [|h t IH]; cbn; intros Hnd Hn.
  - constructor; [intros []|constructor].
  - inversion Hnd as [|? ? Hh Ht]; subst. constructor.
    + rewrite in_app_iff. cbn. intros [H|[H|[]]]; [contradiction|]. apply Hn. left. symmetry. exact H.
    + apply IH; [exact Ht|]. intros H. apply Hn. right. exact H.
Qed.

Section LockSerial.
  Variables oid key data : Type.
  Variable oid_eqb : oid -> oid -> bool.
  Variable key_eqb : key -> key -> bool.
  Variable hash : oid -> key.
  Hypothesis oid_eqb_spec : forall a b, oid_eqb a b = true <-> a = b.
  Hypothesis key_eqb_spec : forall a b, key_eqb a b = true <-> a = b.

  Notation sys := (Lock.sys oid key data).
  Notation op := (Lock.op oid data).
  Notation prog := (Lock.prog data).
  Notation pc := (Lock.pc data).
  Notation step := (Lock.step oid key data oid_eqb key_eqb hash).
  Notation action_of := (Lock.action_of oid key data key_eqb hash).
  Notation apply_action := (Lock.apply_action oid key data oid_eqb key_eqb).
  Notation run_sched := (Lock.run_sched oid key data oid_eqb key_eqb hash).
  Notation init := (Lock.init oid key data).
  Notation mem_key := (Lock.mem_key key key_eqb).
  Notation remove_key := (Lock.remove_key key key_eqb).
  Notation upd := (Lock.upd oid data oid_eqb).
  Notation serial_step := (Lock.serial_step oid data oid_eqb).
  Notation serial_data := (Lock.serial_data oid data oid_eqb).
  Notation serial_run := (Lock.serial_run oid data oid_eqb).
  Notation all_finished := (Lock.all_finished oid key data).
  Notation inv := (LockFacts.inv oid key data key_eqb hash).
  Notation running_at := (Lock.running_at oid key data).
  Notation sys_equiv := (Lock.sys_equiv oid key data).
  Notation acquired := (@Lock.acquired data).
  Notation step_cases := (LockFacts.step_cases oid key data oid_eqb key_eqb hash key_eqb_spec).
  Notation inv_step := (LockFacts.inv_step oid key data oid_eqb key_eqb hash key_eqb_spec).
  Notation mutex_keys := (LockFacts.mutex_keys oid key data key_eqb hash).

  Lemma serial_data_snoc os d0 log i o :
    serial_data os d0 (log ++ [i]) o = serial_step os o (serial_data os d0 log o) i.
  Proof. unfold Lock.serial_data. rewrite fold_left_app. reflexivity. Qed.

  (** ** the serializability invariant *)

  Definition ser_inv (os : list op) (d0 : oid -> data) (st : sys) : Prop :=
    ops st = os /\
    forall o,
      (forall i x p, running_at st i x p -> op_obj x = o ->
                     fst (run_prog p (store st o)) = serial_data os d0 (acq_log st) o) /\
      ((forall i x p, running_at st i x p -> op_obj x <> o) ->
       store st o = serial_data os d0 (acq_log st) o).

  Lemma ser_inv_init os d0 : ser_inv os d0 (init os d0).
  Proof.
    split; [reflexivity|]. intros o. split.
    - intros i x p [_ H]. exfalso. cbn in H.
      assert (Hm : forall (l : list op) n, nth_error (map (fun _ => @Waiting data) l) n <> Some (Running p)).
      { induction l as [|h t IH]; intros [|n]; cbn; try discriminate. apply IH. }
      exact (Hm _ _ H).
    - intros _. reflexivity.
  Qed.

  Lemma ser_inv_step os d0 st i : inv st -> ser_inv os d0 st -> ser_inv os d0 (step st i).
  Proof.
    intros I [Hops S]. subst os.
    destruct (step_cases st i) as [E | x Eo Ep Hn | x Eo Ep Hin | x u next Eo Ep | x out Eo Ep].
    - split; [reflexivity|assumption].
    - (* acquire *)
      assert (Hfree : forall j y q, running_at st j y q -> op_obj y <> op_obj x).
      { intros j y q Hr E. apply Hn. rewrite <- E.
        apply (LockFacts.lock_iff_running oid key data key_eqb hash st _ I).
        exists j, y, q. split; [exact Hr|reflexivity]. }
      split; [reflexivity|]. intros o.
      unfold Lock.running_at. cbn [Lock.apply_action store ops pcs acq_log].
      rewrite serial_data_snoc. unfold Lock.serial_step. rewrite Eo.
      destruct (S o) as [S1 S2]. split.
      + intros j y p [Ho Hp] Hy. destruct (Nat.eq_dec i j) as [<-|N].
        * rewrite Eo in Ho. injection Ho as <-.
          erewrite nth_error_upd_nth_eq in Hp by exact Ep. injection Hp as <-.
          subst o. rewrite (proj2 (oid_eqb_spec _ _) eq_refl).
          rewrite (proj2 (S (op_obj x))); [reflexivity|]. exact Hfree.
        * rewrite nth_error_upd_nth_neq in Hp by exact N.
          assert (Hr : running_at st j y p) by (split; assumption).
          assert (Hne : op_obj x <> o) by (intros E; apply (Hfree j y p Hr); congruence).
          rewrite (proj2 (LockFacts.oid_eqb_false oid oid_eqb oid_eqb_spec _ _) Hne).
          apply (S1 j y p Hr Hy).
      + intros Hno.
        assert (Hne : op_obj x <> o).
        { apply (Hno i x (op_body x)). split; [exact Eo|]. eapply nth_error_upd_nth_eq. exact Ep. }
        rewrite (proj2 (LockFacts.oid_eqb_false oid oid_eqb oid_eqb_spec _ _) Hne).
        apply S2. intros j y p [Ho Hp]. apply (Hno j y p). split; [exact Ho|].
        rewrite nth_error_upd_nth_neq; [exact Hp|]. intros <-. rewrite Ep in Hp. discriminate.
    - (* failed acquire *)
      split; [reflexivity|]. intros o.
      unfold Lock.running_at. cbn [Lock.apply_action store ops pcs acq_log].
      destruct (S o) as [S1 S2]. split.
      + intros j y p [Ho Hp] Hy. destruct (Nat.eq_dec i j) as [<-|N].
        * erewrite nth_error_upd_nth_eq in Hp by exact Ep. discriminate.
        * rewrite nth_error_upd_nth_neq in Hp by exact N. apply (S1 j y p); [split|]; assumption.
      + intros Hno. apply S2. intros j y p [Ho Hp]. apply (Hno j y p). split; [exact Ho|].
        rewrite nth_error_upd_nth_neq; [exact Hp|]. intros <-. rewrite Ep in Hp. discriminate.
    - (* data step *)
      assert (Hri : running_at st i x (Step u next)) by (split; assumption).
      split; [reflexivity|]. intros o.
      unfold Lock.running_at. cbn [Lock.apply_action store ops pcs acq_log].
      destruct (S o) as [S1 S2]. split.
      + intros j y p [Ho Hp] Hy. destruct (Nat.eq_dec i j) as [<-|N].
        * rewrite Eo in Ho. injection Ho as <-.
          erewrite nth_error_upd_nth_eq in Hp by exact Ep. injection Hp as <-.
          subst o. rewrite (LockFacts.upd_same oid data oid_eqb oid_eqb_spec).
          rewrite <- (S1 i x (Step u next) Hri eq_refl). reflexivity.
        * rewrite nth_error_upd_nth_neq in Hp by exact N.
          assert (Hr : running_at st j y p) by (split; assumption).
          assert (Hne : op_obj x <> o).
          { intros E. apply N. apply (mutex_keys st i j x y _ _ I Hri Hr). congruence. }
          rewrite (LockFacts.upd_other oid data oid_eqb oid_eqb_spec) by exact Hne.
          apply (S1 j y p Hr Hy).
      + intros Hno.
        assert (Hne : op_obj x <> o).
        { apply (Hno i x (next (store st (op_obj x)))). split; [exact Eo|].
          eapply nth_error_upd_nth_eq. exact Ep. }
        rewrite (LockFacts.upd_other oid data oid_eqb oid_eqb_spec) by exact Hne.
        apply S2. intros j y p [Ho Hp]. destruct (Nat.eq_dec i j) as [<-|N].
        * rewrite Eo in Ho. injection Ho as <-. exact Hne.
        * apply (Hno j y p). split; [exact Ho|]. rewrite nth_error_upd_nth_neq by exact N. exact Hp.
    - (* release *)
      assert (Hri : running_at st i x (Done out)) by (split; assumption).
      split; [reflexivity|]. intros o.
      unfold Lock.running_at. cbn [Lock.apply_action store ops pcs acq_log].
      destruct (S o) as [S1 S2]. split.
      + intros j y p [Ho Hp] Hy. destruct (Nat.eq_dec i j) as [<-|N].
        * erewrite nth_error_upd_nth_eq in Hp by exact Ep. discriminate.
        * rewrite nth_error_upd_nth_neq in Hp by exact N. apply (S1 j y p); [split|]; assumption.
      + intros Hno. destruct (oid_eqb (op_obj x) o) eqn:Eq.
        * apply oid_eqb_spec in Eq. rewrite <- (S1 i x (Done out) Hri Eq). reflexivity.
        * apply (LockFacts.oid_eqb_false oid oid_eqb oid_eqb_spec) in Eq.
          apply S2. intros j y p [Ho Hp]. destruct (Nat.eq_dec i j) as [<-|N].
          -- rewrite Eo in Ho. injection Ho as <-. exact Eq.
          -- apply (Hno j y p). split; [exact Ho|]. rewrite nth_error_upd_nth_neq by exact N. exact Hp.
  Qed.

  Lemma ser_inv_run os d0 st sched :
    inv st -> ser_inv os d0 st -> inv (run_sched st sched) /\ ser_inv os d0 (run_sched st sched).
  Proof.
    revert st. induction sched as [|i s IH]; intros st I S; cbn; auto.
    apply IH; [apply inv_step; exact I|apply ser_inv_step; assumption].
  Qed.

  (** for EVERY schedule, complete or not: an object on which no operation is inside its body
      holds exactly the data of the serial execution of the operations that acquired the lock *)
  Lemma serializable_any os d0 sched o :
    let st := run_sched (init os d0) sched in
    (forall i x p, running_at st i x p -> op_obj x <> o) ->
    store st o = serial_data os d0 (acq_log st) o.
  Proof.
    cbn zeta. intros Hno.
    destruct (ser_inv_run os d0 (init os d0) sched
                (LockFacts.inv_init oid key data key_eqb hash os d0) (ser_inv_init os d0)) as [_ [_ S]].
    apply (proj2 (S o)). exact Hno.
  Qed.

  Lemma serializable_complete os d0 sched :
    let st := run_sched (init os d0) sched in
    all_finished st = true -> forall o, store st o = serial_data os d0 (acq_log st) o.
  Proof.
    cbn zeta. intros F o. apply serializable_any. intros i x p [_ Hp] _.
    unfold Lock.all_finished in F. rewrite forallb_forall in F.
    apply nth_error_In in Hp. apply F in Hp. discriminate.
  Qed.

  (** the store-threading formulation computes the same data *)
  Lemma serial_run_store os log : forall s o, fst (serial_run os s log) o = serial_data os s log o.
  Proof.
    induction log as [|i r IH]; intros s o; [reflexivity|].
    cbn [Lock.serial_run]. unfold Lock.serial_data. cbn [fold_left].
    unfold Lock.serial_step at 2. destruct (nth_error os i) as [x|] eqn:E.
    - destruct (run_prog (op_body x) (s (op_obj x))) as [d out] eqn:Er.
      destruct (serial_run os (upd s (op_obj x) d) r) as [s' outs] eqn:Es.
      cbn [fst]. replace s' with (fst (serial_run os (upd s (op_obj x) d) r)) by (rewrite Es; reflexivity).
      rewrite IH. unfold Lock.serial_data. f_equal.
      unfold Lock.upd. destruct (oid_eqb (op_obj x) o) eqn:Eq.
      + apply oid_eqb_spec in Eq. subst o. rewrite Er. reflexivity.
      + reflexivity.
    - apply IH.
  Qed.

  (** ** which operations are in the acquire log *)

  Definition log_inv (st : sys) : Prop :=
    NoDup (acq_log st) /\
    forall i, In i (acq_log st) <-> exists p, nth_error (pcs st) i = Some p /\ acquired p = true.

  Lemma log_inv_init os d0 : log_inv (init os d0).
  Proof.
    split; [constructor|]. intros i. split; [intros []|]. intros [p [H A]]. exfalso. cbn in H.
    assert (Hm : forall (l : list op) n q, nth_error (map (fun _ => @Waiting data) l) n = Some q -> q = Waiting).
    { induction l as [|h t IH]; intros [|n] q; cbn; try discriminate; [congruence|apply IH]. }
    apply Hm in H. subst p. discriminate.
  Qed.

  Lemma log_inv_step st i : log_inv st -> log_inv (step st i).
  Proof.
    intros [Hnd L].
    destruct (step_cases st i) as [E | x Eo Ep Hn | x Eo Ep Hin | x u next Eo Ep | x out Eo Ep];
      [split; assumption| | | |]; unfold log_inv; cbn [Lock.apply_action pcs acq_log].
    - (* acquire *)
      assert (Hni : ~ In i (acq_log st)).
      { intros H. apply L in H. destruct H as [p [Hp A]]. rewrite Ep in Hp. injection Hp as <-. discriminate. }
      split.
      + apply NoDup_snoc; assumption.
      + intros j. rewrite in_app_iff. cbn [In]. destruct (Nat.eq_dec i j) as [<-|N].
        * split; [intros _|auto]. exists (Running (op_body x)). split; [|reflexivity].
          eapply nth_error_upd_nth_eq. exact Ep.
        * rewrite nth_error_upd_nth_neq by exact N. rewrite L. intuition congruence.
    - (* failed acquire *)
      split; [exact Hnd|]. intros j. destruct (Nat.eq_dec i j) as [<-|N].
      + erewrite nth_error_upd_nth_eq by exact Ep. rewrite L. rewrite Ep. split.
        * intros [p [Hp A]]. injection Hp as <-. discriminate.
        * intros [p [Hp A]]. injection Hp as <-. discriminate.
      + rewrite nth_error_upd_nth_neq by exact N. apply L.
    - (* data step *)
      split; [exact Hnd|]. intros j. destruct (Nat.eq_dec i j) as [<-|N].
      + erewrite nth_error_upd_nth_eq by exact Ep. rewrite L. rewrite Ep. split.
        * intros _. eexists. split; reflexivity.
        * intros _. eexists. split; reflexivity.
      + rewrite nth_error_upd_nth_neq by exact N. apply L.
    - (* release *)
      split; [exact Hnd|]. intros j. destruct (Nat.eq_dec i j) as [<-|N].
      + erewrite nth_error_upd_nth_eq by exact Ep. rewrite L. rewrite Ep. split.
        * intros _. eexists. split; reflexivity.
        * intros _. eexists. split; reflexivity.
      + rewrite nth_error_upd_nth_neq by exact N. apply L.
  Qed.

  Lemma log_inv_run st sched : log_inv st -> log_inv (run_sched st sched).
  Proof.
    revert st. induction sched as [|i s IH]; intros st L; cbn; auto. apply IH, log_inv_step, L.
  Qed.

  (** the acquire log holds, without repetition, exactly the operations that did not get the lock error *)
  Lemma acq_log_exact os d0 sched :
    let st := run_sched (init os d0) sched in
    NoDup (acq_log st) /\
    forall i, In i (acq_log st) <-> exists p, nth_error (pcs st) i = Some p /\ acquired p = true.
  Proof. cbn zeta. apply log_inv_run, log_inv_init. Qed.

  (** ** outcomes: every operation reports what it reports in the serial execution *)

  Definition out_inv (os : list op) (d0 : oid -> data) (st : sys) : Prop :=
    forall pre post i x, acq_log st = pre ++ i :: post -> nth_error (ops st) i = Some x ->
      (forall p, nth_error (pcs st) i = Some (Running p) ->
                 snd (run_prog p (store st (op_obj x))) =
                 snd (run_prog (op_body x) (serial_data os d0 pre (op_obj x)))) /\
      (forall out, nth_error (pcs st) i = Some (Finished (RRet out)) ->
                   out = snd (run_prog (op_body x) (serial_data os d0 pre (op_obj x)))).

  Lemma app_snoc_split {A} (l pre post : list A) (a b : A) :
    l ++ [a] = pre ++ b :: post ->
    (post = [] /\ pre = l /\ b = a) \/ (exists post', post = post' ++ [a] /\ l = pre ++ b :: post').
  Proof.
    destruct (exists_last (l := b :: post)) as [q [z E]]; [discriminate|].
    intros H. rewrite E in H.
    replace (pre ++ q ++ [z]) with ((pre ++ q) ++ [z]) in H by (rewrite app_assoc; reflexivity).
    apply app_inj_tail in H. destruct H as [H1 H2]. subst z.
    destruct q as [|b' q'].
    - cbn in E. injection E as E1 E2. left. rewrite app_nil_r in H1. auto.
    - cbn in E. injection E as E1 E2. subst b'. right. exists q'. split; [exact E2|exact H1].
  Qed.

  Lemma out_inv_step os d0 st i :
    inv st -> ser_inv os d0 st -> log_inv st -> out_inv os d0 st -> out_inv os d0 (step st i).
  Proof.
    intros I [Hops S] [Hnd L] O. subst os.
    destruct (step_cases st i) as [E | x Eo Ep Hn | x Eo Ep Hin | x u next Eo Ep | x out Eo Ep];
      [exact O| | | |]; unfold out_inv; cbn [Lock.apply_action store ops pcs acq_log].
    - (* acquire *)
      intros pre post j y Hlog Hy.
      apply app_snoc_split in Hlog. destruct Hlog as [[-> [-> ->]] | [post' [-> Hlog]]].
      + rewrite Eo in Hy. injection Hy as <-.
        erewrite nth_error_upd_nth_eq by exact Ep. split.
        * intros p Hp. injection Hp as <-.
          rewrite (proj2 (S (op_obj x))); [reflexivity|].
          intros j y q Hr E. apply Hn. rewrite <- E.
          apply (LockFacts.lock_iff_running oid key data key_eqb hash st _ I).
          exists j, y, q. split; [exact Hr|reflexivity].
        * intros out Hp. discriminate.
      + assert (N : i <> j).
        { intros <-. assert (Hj : In i (acq_log st)) by (rewrite Hlog; apply in_elt).
          apply L in Hj. destruct Hj as [p [Hp A]]. rewrite Ep in Hp. injection Hp as <-. discriminate. }
        rewrite nth_error_upd_nth_neq by exact N. apply (O pre post' j y Hlog Hy).
    - (* failed acquire *)
      intros pre post j y Hlog Hy.
      assert (N : i <> j).
      { intros <-. assert (Hj : In i (acq_log st)) by (rewrite Hlog; apply in_elt).
        apply L in Hj. destruct Hj as [p [Hp A]]. rewrite Ep in Hp. injection Hp as <-. discriminate. }
      rewrite nth_error_upd_nth_neq by exact N. apply (O pre post j y Hlog Hy).
    - (* data step *)
      assert (Hri : running_at st i x (Step u next)) by (split; assumption).
      intros pre post j y Hlog Hy. destruct (O pre post j y Hlog Hy) as [O1 O2].
      destruct (Nat.eq_dec i j) as [<-|N].
      + rewrite Eo in Hy. injection Hy as <-.
        erewrite nth_error_upd_nth_eq by exact Ep. split.
        * intros p Hp. injection Hp as <-.
          rewrite (LockFacts.upd_same oid data oid_eqb oid_eqb_spec).
          rewrite <- (O1 _ Ep). reflexivity.
        * intros out Hp. discriminate.
      + rewrite nth_error_upd_nth_neq by exact N. split; [|exact O2].
        intros p Hp.
        assert (Hr : running_at st j y p) by (split; assumption).
        assert (Hne : op_obj x <> op_obj y).
        { intros E. apply N. apply (mutex_keys st i j x y _ _ I Hri Hr). congruence. }
        rewrite (LockFacts.upd_other oid data oid_eqb oid_eqb_spec) by exact Hne.
        apply (O1 p Hp).
    - (* release *)
      intros pre post j y Hlog Hy. destruct (O pre post j y Hlog Hy) as [O1 O2].
      destruct (Nat.eq_dec i j) as [<-|N].
      + rewrite Eo in Hy. injection Hy as <-.
        erewrite nth_error_upd_nth_eq by exact Ep. split.
        * intros p Hp. discriminate.
        * intros out' Hp. injection Hp as <-. rewrite <- (O1 _ Ep). reflexivity.
      + rewrite nth_error_upd_nth_neq by exact N. split; assumption.
  Qed.

  Lemma out_inv_init os d0 : out_inv os d0 (init os d0).
  Proof. intros pre post i x H. cbn in H. destruct pre; discriminate. Qed.

  Lemma all_inv_run os d0 st sched :
    inv st -> ser_inv os d0 st -> log_inv st -> out_inv os d0 st ->
    out_inv os d0 (run_sched st sched).
  Proof.
    revert st. induction sched as [|i s IH]; intros st I S L O; cbn; auto.
    apply IH; [apply inv_step; exact I|apply ser_inv_step; assumption|apply log_inv_step; exact L|
               apply out_inv_step; assumption].
  Qed.

  Lemma serializable_outcomes os d0 sched pre post i x out :
    let st := run_sched (init os d0) sched in
    acq_log st = pre ++ i :: post -> nth_error os i = Some x ->
    nth_error (pcs st) i = Some (Finished (RRet out)) ->
    out = snd (run_prog (op_body x) (serial_data os d0 pre (op_obj x))).
  Proof.
    cbn zeta. intros Hlog Hx Hp.
    assert (O := all_inv_run os d0 (init os d0) sched
                   (LockFacts.inv_init oid key data key_eqb hash os d0) (ser_inv_init os d0)
                   (log_inv_init os d0) (out_inv_init os d0)).
    assert (Hops : ops (run_sched (init os d0) sched) = os).
    { destruct (ser_inv_run os d0 (init os d0) sched
                  (LockFacts.inv_init oid key data key_eqb hash os d0) (ser_inv_init os d0)) as [_ [H _]].
      exact H. }
    rewrite <- Hops in Hx. exact (proj2 (O pre post i x Hlog Hx) out Hp).
  Qed.

  (** ** commutation of steps of operations with different lock keys *)

  Lemma sys_equiv_refl a : sys_equiv a a.
  Proof. unfold Lock.sys_equiv. repeat split; auto. Qed.

  Definition akey (a : Lock.action oid key data) : option key :=
    match a with
    | ANone => None | AAcq k _ => Some k | AFail k => Some k | AMut k _ _ _ => Some k | ARel k _ => Some k
    end.
  Definition aobj (a : Lock.action oid key data) : option oid :=
    match a with AMut _ o _ _ => Some o | _ => None end.

  Lemma action_of_key st i a x :
    action_of st i = a -> nth_error (ops st) i = Some x ->
    (forall k, akey a = Some k -> k = hash (op_obj x)) /\ (forall o, aobj a = Some o -> o = op_obj x).
  Proof.
    intros <- Eo. unfold Lock.action_of. rewrite Eo.
    destruct (nth_error (pcs st) i) as [[|[out|u next]|r]|]; cbn; try (split; intros; discriminate).
    - destruct (mem_key (hash (op_obj x)) (locks st)); cbn; split; intros; try discriminate; congruence.
    - split; intros; try discriminate; congruence.
    - split; intros; congruence.
  Qed.

  Lemma action_of_none_ops st i : nth_error (ops st) i = None -> action_of st i = ANone.
  Proof. intros E. unfold Lock.action_of. rewrite E. reflexivity. Qed.

  Lemma mem_key_cons_other k k' l : k <> k' -> mem_key k (k' :: l) = mem_key k l.
  Proof.
    intros N. unfold Lock.mem_key. cbn [existsb].
    rewrite (proj2 (LockFacts.key_eqb_false key key_eqb key_eqb_spec _ _) N). reflexivity.
  Qed.

  Lemma mem_key_remove_other k k' l : k <> k' -> mem_key k (remove_key k' l) = mem_key k l.
  Proof.
    intros N. destruct (mem_key k l) eqn:E.
    - apply (LockFacts.mem_key_In key key_eqb key_eqb_spec).
      apply (LockFacts.In_remove_key key key_eqb key_eqb_spec). split; [|exact N].
      apply (LockFacts.mem_key_In key key_eqb key_eqb_spec). exact E.
    - apply (LockFacts.mem_key_notIn key key_eqb key_eqb_spec). intros H.
      apply (LockFacts.In_remove_key key key_eqb key_eqb_spec) in H. destruct H as [H _].
      apply (LockFacts.mem_key_In key key_eqb key_eqb_spec) in H. congruence.
  Qed.

  (** the next action of i does not depend on a step of j when their lock keys differ *)
  Lemma action_of_after_other st i j :
    i <> j ->
    (forall x y, nth_error (ops st) i = Some x -> nth_error (ops st) j = Some y ->
                 hash (op_obj x) <> hash (op_obj y)) ->
    action_of (step st j) i = action_of st i.
  Proof.
    intros N K.
    destruct (nth_error (ops st) i) as [x|] eqn:Ex.
    2:{ rewrite (action_of_none_ops st i Ex). apply action_of_none_ops.
        destruct (step_cases st j) as [E | y Eo Ep Hn | y Eo Ep Hin | y u next Eo Ep | y out Eo Ep];
          cbn [Lock.apply_action ops]; exact Ex. }
    destruct (step_cases st j) as [E | y Eo Ep Hn | y Eo Ep Hin | y u next Eo Ep | y out Eo Ep];
      [reflexivity| | | |]; assert (Hk := K x y eq_refl Eo);
      unfold Lock.action_of; cbn [Lock.apply_action locks store ops pcs];
      rewrite Ex, (nth_error_upd_nth_neq _ j i _ (not_eq_sym N)).
    - rewrite (mem_key_cons_other _ _ _ Hk). reflexivity.
    - reflexivity.
    - assert (Ho : op_obj y <> op_obj x) by (intros E; apply Hk; congruence).
      rewrite (LockFacts.upd_other oid data oid_eqb oid_eqb_spec) by exact Ho. reflexivity.
    - rewrite (mem_key_remove_other _ _ _ Hk). reflexivity.
  Qed.

  Lemma apply_action_comm st i j ai aj :
    i <> j ->
    (forall k k', akey ai = Some k -> akey aj = Some k' -> k <> k') ->
    (forall o o', aobj ai = Some o -> aobj aj = Some o' -> o <> o') ->
    sys_equiv (apply_action (apply_action st j aj) i ai) (apply_action (apply_action st i ai) j aj).
  Proof.
    intros N K O.
    assert (Hupd : forall a c, upd_nth (upd_nth (pcs st) j a) i c = upd_nth (upd_nth (pcs st) i c) j a)
      by (intros a c; apply upd_nth_comm; congruence).
    destruct ai as [|ki bi|ki|ki oi vi ri|ki outi], aj as [|kj bj|kj|kj oj vj rj|kj outj];
      unfold Lock.sys_equiv; cbn [Lock.apply_action locks store ops pcs];
      (split; [|split; [|split; [try reflexivity; try apply Hupd|reflexivity]]]);
      try (intros ?; reflexivity);
      try (assert (Hk : ki <> kj) by (apply K; reflexivity));
      try (intros k; cbn [In];
           rewrite ?(LockFacts.In_remove_key key key_eqb key_eqb_spec); cbn [In];
           rewrite ?(LockFacts.In_remove_key key key_eqb key_eqb_spec); intuition (subst; congruence)).
    (* two data steps *)
    assert (Ho : oi <> oj) by (apply O; reflexivity).
    intros o. unfold Lock.upd.
    destruct (oid_eqb oi o) eqn:E1, (oid_eqb oj o) eqn:E2; try reflexivity.
    apply oid_eqb_spec in E1. apply oid_eqb_spec in E2. congruence.
  Qed.

  Lemma independent_commute_keys st i j :
    i <> j ->
    (forall x y, nth_error (ops st) i = Some x -> nth_error (ops st) j = Some y ->
                 hash (op_obj x) <> hash (op_obj y)) ->
    sys_equiv (step (step st j) i) (step (step st i) j).
  Proof.
    intros N K.
    assert (Hi : action_of (step st j) i = action_of st i) by (apply action_of_after_other; assumption).
    assert (Hj : action_of (step st i) j = action_of st j).
    { apply action_of_after_other; [congruence|]. intros y x Hy Hx E. apply (K x y Hx Hy). congruence. }
    unfold Lock.step at 1 3. rewrite Hi, Hj. unfold Lock.step.
    destruct (nth_error (ops st) i) as [x|] eqn:Ex.
    2:{ rewrite (action_of_none_ops st i Ex). cbn [Lock.apply_action].
        apply sys_equiv_refl. }
    destruct (nth_error (ops st) j) as [y|] eqn:Ey.
    2:{ rewrite (action_of_none_ops st j Ey). cbn [Lock.apply_action].
        apply sys_equiv_refl. }
    destruct (action_of_key st i _ x eq_refl Ex) as [Ki Oi].
    destruct (action_of_key st j _ y eq_refl Ey) as [Kj Oj].
    apply apply_action_comm; [exact N| |].
    - intros k k' Hk Hk'. rewrite (Ki k Hk), (Kj k' Hk'). apply (K x y eq_refl eq_refl).
    - intros o o' Ho Ho'. rewrite (Oi o Ho), (Oj o' Ho'). intros E.
      apply (K x y eq_refl eq_refl). congruence.
  Qed.

  (** ** with an injective hash: different objects never interfere *)
  Section Injective.
    Hypothesis hash_inj : forall a b, hash a = hash b -> a = b.

    Lemma independent_commute_objects st i j :
      i <> j ->
      (forall x y, nth_error (ops st) i = Some x -> nth_error (ops st) j = Some y ->
                   op_obj x <> op_obj y) ->
      sys_equiv (step (step st j) i) (step (step st i) j).
    Proof.
      intros N K. apply independent_commute_keys; [exact N|].
      intros x y Hx Hy E. apply (K x y Hx Hy). apply hash_inj. exact E.
    Qed.

    (** an operation is refused only when an operation ON THE SAME OBJECT is inside its body *)
    Lemma acquire_not_blocked_by_others st i x :
      inv st -> nth_error (ops st) i = Some x -> nth_error (pcs st) i = Some Waiting ->
      (forall j y p, running_at st j y p -> op_obj y <> op_obj x) ->
      nth_error (pcs (step st i)) i = Some (Running (op_body x)).
    Proof.
      intros I Eo Ep Hno.
      apply (proj1 (LockFacts.acquire_succeeds_iff_free oid key data oid_eqb key_eqb hash key_eqb_spec st i x Eo Ep)).
      intros Hin.
      apply (LockFacts.lock_iff_running oid key data key_eqb hash st _ I) in Hin.
      destruct Hin as [j [y [p [Hr Hh]]]]. apply (Hno j y p Hr). apply hash_inj. exact Hh.
    Qed.
  End Injective.

End LockSerial.
