(** Lemmas about the multi-client model (Model/MultiClient.v): what holds in every reachable
    state ([mc_wf]: numbering, accepted commits keep the history), the lineage-aware invariant
    of the runs in which commit metadata never repeats ([mc_inv]: append-only version lists per
    lineage, re-created lineages refused, no silent merge), refusal of stale commits. *)
From Rocfl Require Import Base.Bytes Model.VersionNum Model.MultiClient
  Proofs.BytesFacts Proofs.VersionNumFacts.
From Coq Require Import ZArith Lia ZifyBool ZifyN ZifyNat.
Ltac Zify.zify_post_hook ::= Z.div_mod_to_equations.

Arguments N.add : simpl never.
Arguments N.mul : simpl never.
Arguments N.sub : simpl never.
Arguments N.pow : simpl never.
Arguments N.ltb : simpl never.
Arguments N.leb : simpl never.
Arguments N.eqb : simpl never.

(** * Association lists *)
Section AMapFacts.
  Variables K V : Type.
  Variable eqb : K -> K -> bool.
  Hypothesis eqb_eq : forall a c, eqb a c = true <-> a = c.

  Lemma aget_adel k k' (m : list (K * V)) :
    aget eqb k' (adel eqb k m) = if eqb k' k then None else aget eqb k' m.
  Proof.
    induction m as [|[k1 v] r IH]; cbn [aget adel].
    - destruct (eqb k' k); reflexivity.
    - destruct (eqb k k1) eqn:E1.
      + apply eqb_eq in E1. subst k1. rewrite IH. destruct (eqb k' k); reflexivity.
      + cbn [aget]. rewrite IH.
        destruct (eqb k' k1) eqn:E2, (eqb k' k) eqn:E3; try reflexivity.
        apply eqb_eq in E2. apply eqb_eq in E3. subst.
        assert (Hkk : eqb k1 k1 = true) by (apply eqb_eq; reflexivity). congruence.
  Qed.

  Lemma aget_aput k k' v (m : list (K * V)) :
    aget eqb k' (aput eqb k v m) = if eqb k' k then Some v else aget eqb k' m.
  Proof.
    unfold aput. cbn [aget]. rewrite aget_adel. destruct (eqb k' k); reflexivity.
  Qed.
End AMapFacts.

Lemma skey_eqb_eq a c : skey_eqb a c = true <-> a = c.
Proof.
  destruct a as [a1 a2], c as [c1 c2]. unfold skey_eqb. cbn [fst snd].
  rewrite andb_true_iff, N.eqb_eq, bytes_eqb_eq. split.
  - intros [-> ->]. reflexivity.
  - intros [= -> ->]. split; reflexivity.
Qed.

Lemma bytes_eqb_false x y : bytes_eqb x y = false <-> x <> y.
Proof.
  split.
  - intros H E. apply bytes_eqb_eq in E. congruence.
  - intros H. destruct (bytes_eqb x y) eqn:E; [|reflexivity]. apply bytes_eqb_eq in E. contradiction.
Qed.

Lemma skey_eqb_false a c : skey_eqb a c = false <-> a <> c.
Proof.
  split.
  - intros H E. apply skey_eqb_eq in E. congruence.
  - intros H. destruct (skey_eqb a c) eqn:E; [|reflexivity]. apply skey_eqb_eq in E. contradiction.
Qed.

Lemma skey_eqb_refl a : skey_eqb a a = true.
Proof. apply skey_eqb_eq. reflexivity. Qed.

(** * Reading the states the operations build *)
Lemma mget_set_stag st c id s id' : mget (set_stag st c id s) id' = mget st id'.
Proof. reflexivity. Qed.
Lemma next_set_stag st c id s : mc_next (set_stag st c id s) = mc_next st.
Proof. reflexivity. Qed.
Lemma sget_set_stag st c id s c' id' :
  sget (set_stag st c id s) c' id' = if skey_eqb (c', id') (c, id) then Some s else sget st c' id'.
Proof. unfold sget, set_stag. cbn [mc_stag]. apply aget_aput. exact skey_eqb_eq. Qed.

Lemma mget_del_stag st c id id' : mget (del_stag st c id) id' = mget st id'.
Proof. reflexivity. Qed.
Lemma next_del_stag st c id : mc_next (del_stag st c id) = mc_next st.
Proof. reflexivity. Qed.
Lemma sget_del_stag st c id c' id' :
  sget (del_stag st c id) c' id' = if skey_eqb (c', id') (c, id) then None else sget st c' id'.
Proof. unfold sget, del_stag. cbn [mc_stag]. apply aget_adel. exact skey_eqb_eq. Qed.

Lemma mget_install st c id o n id' :
  mget (install st c id o n) id' = if bytes_eqb id' id then Some o else mget st id'.
Proof. unfold mget, install. cbn [mc_main]. apply aget_aput. exact bytes_eqb_eq. Qed.
Lemma next_install st c id o n : mc_next (install st c id o n) = n.
Proof. reflexivity. Qed.
Lemma sget_install st c id o n c' id' :
  sget (install st c id o n) c' id' = if skey_eqb (c', id') (c, id) then None else sget st c' id'.
Proof. unfold sget, install. cbn [mc_stag]. apply aget_adel. exact skey_eqb_eq. Qed.

Lemma mget_purge_st st c id id' :
  mget (purge_st st c id) id' = if bytes_eqb id' id then None else mget st id'.
Proof. unfold mget, purge_st. cbn [mc_main]. apply aget_adel. exact bytes_eqb_eq. Qed.
Lemma next_purge_st st c id : mc_next (purge_st st c id) = mc_next st.
Proof. reflexivity. Qed.
Lemma sget_purge_st st c id c' id' :
  sget (purge_st st c id) c' id' = if skey_eqb (c', id') (c, id) then None else sget st c' id'.
Proof. unfold sget, purge_st. cbn [mc_stag]. apply aget_adel. exact skey_eqb_eq. Qed.

(** membership of metadata tokens *)
Lemma aget_In {K V} (eqb : K -> K -> bool) (Heq : forall a c, eqb a c = true <-> a = c) k (m : list (K * V)) v :
  aget eqb k m = Some v -> In (k, v) m.
Proof.
  induction m as [|[k1 v1] r IH]; cbn [aget]; [discriminate|].
  destruct (eqb k k1) eqn:E.
  - intros [= ->]. apply Heq in E. subst. left. reflexivity.
  - intros H. right. apply IH. exact H.
Qed.

Lemma st_metas_main st id o m :
  mget st id = Some o -> In m (metas (o_versions o)) -> In m (st_metas st).
Proof.
  intros Hg Hin. unfold st_metas. apply in_or_app. left. apply in_flat_map.
  exists (id, o). split; [apply (aget_In bytes_eqb bytes_eqb_eq); exact Hg|exact Hin].
Qed.

Lemma st_metas_stag st c id s m :
  sget st c id = Some s -> In m (metas (s_versions s)) -> In m (st_metas st).
Proof.
  intros Hg Hin. unfold st_metas. apply in_or_app. right. apply in_flat_map.
  exists ((c, id), s). split; [apply (aget_In skey_eqb skey_eqb_eq); exact Hg|exact Hin].
Qed.

Lemma step_fresh_commit st c id m : step_fresh st c (Commit id m) = true -> ~ In m (st_metas st).
Proof.
  cbn [step_fresh]. intros H Hin. apply negb_true_iff in H.
  assert (Ht : existsb (N.eqb m) (st_metas st) = true).
  { apply existsb_exists. exists m. split; [exact Hin|apply N.eqb_refl]. }
  congruence.
Qed.

Lemma metas_snoc l x m : In m (metas (l ++ [x])) -> In m (metas l) \/ m = fst x.
Proof.
  unfold metas. rewrite map_app. intros H. apply in_app_or in H. destruct H as [H|H]; [left; exact H|].
  cbn [map In] in H. destruct H as [H|[]]. right. symmetry. exact H.
Qed.

Local Opaque mget sget set_stag del_stag install purge_st.

Ltac getsimp :=
  repeat (rewrite ?mget_set_stag, ?next_set_stag, ?sget_set_stag, ?mget_del_stag, ?next_del_stag,
                  ?sget_del_stag, ?mget_install, ?next_install, ?sget_install, ?mget_purge_st,
                  ?next_purge_st, ?sget_purge_st in * ).

(** * The operations as a relation (one constructor per successful branch) *)
Inductive step_rel (dbg : bool) (st : mc) (c : N) : op -> mc -> res unit -> Prop :=
| SR_fail o r : r <> Ok tt -> step_rel dbg st c o st r
| SR_new id w k :
    mget st id = None -> sget st c id = None ->
    step_rel dbg st c (New id w k) (set_stag st c id (mkStg None (v1_stored w) [] [] [] k)) (Ok tt)
| SR_stage_old id e s :
    sget st c id = Some s ->
    step_rel dbg st c (Stage id e)
      (set_stag st c id (mkStg (s_base s) (s_head s) (s_versions s) (apply_edit e (s_state s)) (s_edits s ++ [e]) (s_cfg s)))
      (Ok tt)
| SR_stage_clone id e o h :
    sget st c id = None -> mget st id = Some o -> vnext dbg (o_head o) = Ok h ->
    step_rel dbg st c (Stage id e)
      (set_stag st c id (mkStg (Some (o_lineage o)) h (o_versions o) (apply_edit e (last_state (o_versions o))) [e] (o_cfg o)))
      (Ok tt)
| SR_commit_new id m s :
    sget st c id = Some s -> vn_number (s_head s) = 1 -> mget st id = None ->
    step_rel dbg st c (Commit id m)
      (install st c id (mkObj (mc_next st) (s_head s) (s_versions s ++ [(m, s_state s)]) (s_cfg s)) (mc_next st + 1)) (Ok tt)
| SR_commit_ver id m s o p :
    sget st c id = Some s -> vn_number (s_head s) <> 1 -> mget st id = Some o ->
    vprev dbg (s_head s) = Ok p -> vn_number (o_head o) = vn_number p ->
    vn_width (o_head o) = vn_width (s_head s) -> o_cfg o = s_cfg s ->
    base_same (o_versions o) (s_versions s ++ [(m, s_state s)]) = true ->
    step_rel dbg st c (Commit id m)
      (install st c id (mkObj (o_lineage o) (s_head s) (s_versions s ++ [(m, s_state s)]) (s_cfg s)) (mc_next st)) (Ok tt)
| SR_reset id : step_rel dbg st c (ResetAll id) (del_stag st c id) (Ok tt)
| SR_purge id : step_rel dbg st c (Purge id) (purge_st st c id) (Ok tt).

Lemma step_sound dbg st c o : step_rel dbg st c o (fst (step dbg st c o)) (snd (step dbg st c o)).
Proof.
  destruct o as [id w k|id e|id m|id|id]; cbn [step].
  - destruct (mget st id) eqn:Em; cbn [fst snd]; [apply SR_fail; discriminate|].
    destruct (sget st c id) eqn:Es; cbn [fst snd]; [apply SR_fail; discriminate|].
    apply SR_new; assumption.
  - destruct (sget st c id) as [s|] eqn:Es; cbn [fst snd]; [apply SR_stage_old; assumption|].
    destruct (mget st id) as [o|] eqn:Em; cbn [fst snd]; [|apply SR_fail; discriminate].
    destruct (vnext dbg (o_head o)) as [h| |] eqn:En; cbn [fst snd]; try (apply SR_fail; discriminate).
    apply SR_stage_clone; assumption.
  - destruct (sget st c id) as [s|] eqn:Es; cbn [fst snd]; [|apply SR_fail; discriminate].
    destruct (vn_number (s_head s) =? 1) eqn:E1.
    + destruct (mget st id) as [o|] eqn:Em; cbn [fst snd]; [apply SR_fail; discriminate|].
      apply SR_commit_new; [assumption|lia|assumption].
    + destruct (mget st id) as [o|] eqn:Em; cbn [fst snd]; [|apply SR_fail; discriminate].
      destruct (vprev dbg (s_head s)) as [p| |] eqn:Ep; cbn [fst snd]; try (apply SR_fail; discriminate).
      destruct (vn_number (o_head o) =? vn_number p) eqn:E2; cbn [fst snd]; [|apply SR_fail; discriminate].
      destruct ((vn_width (o_head o) =? vn_width (s_head s)) && (o_cfg o =? s_cfg s)) eqn:Ec; cbn [fst snd];
        [|apply SR_fail; discriminate].
      destruct (base_same (o_versions o) (s_versions s ++ [(m, s_state s)])) eqn:Eb; cbn [fst snd];
        [|apply SR_fail; discriminate].
      apply andb_true_iff in Ec. destruct Ec as [Ec1 Ec2].
      eapply SR_commit_ver; try eassumption; lia.
  - apply SR_reset.
  - apply SR_purge.
Qed.

(** * Invariant of the states reachable when no commit repeats the metadata of a known version *)

Definition obj_ok (next : N) (o : obj) : Prop :=
  o_lineage o < next /\ vnumok (o_head o) = true /\ vfits (o_head o) = true /\
  vn_number (o_head o) = N.of_nat (List.length (o_versions o)).

Definition stg_ok (st : mc) (id : bytes) (s : staged) : Prop :=
  vnumok (s_head s) = true /\ vfits (s_head s) = true /\
  vn_number (s_head s) = N.of_nat (List.length (s_versions s)) + 1 /\
  s_state s = apply_edits (s_edits s) (last_state (s_versions s)) /\
  match s_base s with
  | None => s_versions s = []
  | Some l =>
      l < mc_next st /\ s_versions s <> [] /\
      forall o, mget st id = Some o -> o_lineage o = l ->
        extends (s_versions s) (o_versions o) /\ vn_width (o_head o) = vn_width (s_head s)
  end.

(** a metadata token occurs in one object of the main repository only ... *)
Definition metas_main_unique (st : mc) : Prop :=
  forall id1 id2 o1 o2 m, mget st id1 = Some o1 -> mget st id2 = Some o2 ->
    In m (metas (o_versions o1)) -> In m (metas (o_versions o2)) -> id1 = id2.
(** ... and a staged copy that shares one with an object was cloned from that very object *)
Definition metas_stag_lineage (st : mc) : Prop :=
  forall id o c id' s l m, mget st id = Some o -> sget st c id' = Some s -> s_base s = Some l ->
    In m (metas (o_versions o)) -> In m (metas (s_versions s)) -> id' = id /\ l = o_lineage o.

Definition mc_inv (st : mc) : Prop :=
  (forall id o, mget st id = Some o -> obj_ok (mc_next st) o) /\
  (forall c id s, sget st c id = Some s -> stg_ok st id s) /\
  metas_main_unique st /\ metas_stag_lineage st.

Lemma mc_inv_init : mc_inv mc_init.
Proof. repeat split; intros; discriminate. Qed.

Lemma v1_stored_ok w :
  vnumok (v1_stored w) = true /\ vfits (v1_stored w) = true /\ vn_number (v1_stored w) = 1.
Proof.
  unfold v1_stored. destruct (w =? 1) eqn:E1; [repeat split; reflexivity|].
  cbn [vn_number]. split; [reflexivity|]. split; [|reflexivity].
  unfold vfits, max_for_width. cbn [vn_number vn_width].
  destruct (w =? 0) eqn:E0; [reflexivity|]. destruct (w <=? 10) eqn:E10; [|reflexivity].
  assert (Hp : 10 ^ 1 <= 10 ^ (w - 1)) by (apply N.pow_le_mono_r; lia).
  change (10 ^ 1) with 10 in Hp. lia.
Qed.

(** what every later command reads back from the staged inventory.json, for every u32 width *)
Lemma v1_stored_reparse w : w <= U32MAX -> vparse (vdisplay (mkV 1 w)) = Ok (v1_stored w).
Proof.
  intros H. unfold v1_stored. destruct (w =? 1) eqn:E1.
  - assert (w = 1) by lia. subst w. vm_compute. reflexivity.
  - apply vparse_vdisplay.
    + unfold vwf. cbn [vn_number vn_width]. unfold U32MAX in *. lia.
    + pose proof (v1_stored_ok w) as (_ & Hf & _). unfold v1_stored in Hf. rewrite E1 in Hf. exact Hf.
Qed.

Lemma apply_edits_snoc es e s : apply_edits (es ++ [e]) s = apply_edit e (apply_edits es s).
Proof. unfold apply_edits. rewrite fold_left_app. reflexivity. Qed.

Lemma extends_refl l : extends l l.
Proof. exists []. rewrite app_nil_r. reflexivity. Qed.

Lemma extends_same_length l l' : extends l l' -> List.length l' = List.length l -> l' = l.
Proof.
  intros [tl ->] H. rewrite app_length in H. destruct tl; [apply app_nil_r|cbn [List.length] in H; lia].
Qed.

Lemma extends_snoc l l' x : extends l l' -> extends l (l' ++ [x]).
Proof. intros [tl ->]. exists (tl ++ [x]). rewrite app_assoc. reflexivity. Qed.

Lemma skey_case c id c' id' :
  (skey_eqb (c', id') (c, id) = true /\ c' = c /\ id' = id) \/
  (skey_eqb (c', id') (c, id) = false /\ (c' <> c \/ id' <> id)).
Proof.
  destruct (skey_eqb (c', id') (c, id)) eqn:E.
  - left. apply skey_eqb_eq in E. injection E as -> ->. auto.
  - right. split; [reflexivity|]. apply skey_eqb_false in E.
    destruct (N.eq_dec c' c) as [->|Hc]; [|auto]. right. intros ->. apply E. reflexivity.
Qed.

Lemma bytes_case id id' :
  (bytes_eqb id' id = true /\ id' = id) \/ (bytes_eqb id' id = false /\ id' <> id).
Proof.
  destruct (bytes_eqb id' id) eqn:E.
  - left. apply bytes_eqb_eq in E. auto.
  - right. apply bytes_eqb_false in E. auto.
Qed.

(** the staged-entry invariant only looks at [mget st id] and [mc_next st] *)
Lemma stg_ok_transfer st st' id s :
  stg_ok st id s -> mc_next st <= mc_next st' ->
  (forall o', mget st' id = Some o' ->
     forall l, s_base s = Some l -> o_lineage o' = l ->
     extends (s_versions s) (o_versions o') /\ vn_width (o_head o') = vn_width (s_head s)) ->
  stg_ok st' id s.
Proof.
  intros (H1 & H2 & H4 & H5 & H6) Hn Hm. repeat split; try assumption.
  destruct (s_base s) as [l|] eqn:Eb; [|assumption].
  destruct H6 as (Hl & Hne & _).
  split; [lia|]. split; [exact Hne|].
  intros o Hg Hlin. exact (Hm o Hg l eq_refl Hlin).
Qed.

Lemma stg_ok_same st st' id s :
  stg_ok st id s -> mc_next st' = mc_next st -> mget st' id = mget st id -> stg_ok st' id s.
Proof. unfold stg_ok. intros H Hn Hm. rewrite Hn, Hm. exact H. Qed.

Lemma obj_ok_mono n n' o : obj_ok n o -> n <= n' -> obj_ok n' o.
Proof. unfold obj_ok. intros (H1 & H2) Hn. split; [lia|assumption]. Qed.

(** base versions that pass the comparison of fs.rs:446-459 come from the very object that
    is in the main repository now *)
Lemma base_same_lineage st c id s o x :
  mc_inv st -> sget st c id = Some s -> mget st id = Some o -> vn_number (s_head s) <> 1 ->
  base_same (o_versions o) (s_versions s ++ [x]) = true -> s_base s = Some (o_lineage o).
Proof.
  intros (Hmain & Hstag & HK & HJ) Es Em H1 Hbs.
  destruct (Hstag _ _ _ Es) as (Swf & Sfit & Snum & Sstate & Sbase).
  destruct (Hmain _ _ Em) as (Olin & Owf & Ofit & Onum).
  destruct (s_base s) as [l|] eqn:Eb.
  - destruct Sbase as (_ & Hne & _).
    destruct (o_versions o) as [|x0 r0] eqn:Ev.
    { cbn [List.length] in Onum. unfold vnumok in Owf. lia. }
    destruct (s_versions s) as [|y0 r1] eqn:Esv; [congruence|].
    cbn [app base_same] in Hbs. apply andb_true_iff in Hbs. destruct Hbs as [Hc _].
    unfold cver_same in Hc. apply andb_true_iff in Hc. destruct Hc as [Hm _].
    assert (Hmm : fst x0 = fst y0) by lia.
    destruct (HJ id o c id s l (fst x0) Em Es Eb) as (_ & ->).
    + rewrite Ev. cbn [metas map]. left. reflexivity.
    + rewrite Esv. cbn [metas map]. left. symmetry. exact Hmm.
    + reflexivity.
  - rewrite Sbase in Snum. cbn [List.length] in Snum. lia.
Qed.

(** What a successful commit of a new VERSION knows about its base: the staged copy was
    cloned from exactly the object that is in the main repository now. *)
Lemma commit_ver_facts dbg st c id m s o p :
  mc_inv st -> sget st c id = Some s -> vn_number (s_head s) <> 1 -> mget st id = Some o ->
  vprev dbg (s_head s) = Ok p -> vn_number (o_head o) = vn_number p ->
  base_same (o_versions o) (s_versions s ++ [(m, s_state s)]) = true ->
  s_base s = Some (o_lineage o) /\ s_versions s = o_versions o /\
  s_head s = mkV (vn_number (o_head o) + 1) (vn_width (o_head o)) /\
  s_state s = apply_edits (s_edits s) (last_state (o_versions o)).
Proof.
  intros Hinv Es Hn1 Em Ep Hnum Hbs.
  pose proof (base_same_lineage _ _ _ _ _ _ Hinv Es Em Hn1 Hbs) as Eb.
  destruct Hinv as (Hmain & Hstag & _).
  destruct (Hstag _ _ _ Es) as (Swf & Sfit & Snum & Sstate & Sbase).
  destruct (Hmain _ _ Em) as (Olin & Owf & Ofit & Onum).
  rewrite vprev_correct in Ep by assumption.
  assert (Hn1' : (vn_number (s_head s) =? 1) = false) by lia. rewrite Hn1' in Ep.
  injection Ep as <-. cbn [vn_number] in Hnum.
  assert (Hge : 1 <= vn_number (s_head s)) by (unfold vnumok in Swf; lia).
  rewrite Eb in Sbase.
  destruct Sbase as (_ & _ & Hb). destruct (Hb _ Em eq_refl) as (Hext & Hw).
  assert (Hv : o_versions o = s_versions s) by (apply extends_same_length; [assumption|lia]).
  repeat split.
  - exact Eb.
  - symmetry. exact Hv.
  - destruct (s_head s) as [n w]. cbn [vn_number vn_width] in *. f_equal; lia.
  - rewrite Hv. exact Sstate.
Qed.

Lemma step_rel_inv12 dbg st c o st' r :
  mc_inv st -> step_rel dbg st c o st' r ->
  (forall id o, mget st' id = Some o -> obj_ok (mc_next st') o) /\
  (forall c id s, sget st' c id = Some s -> stg_ok st' id s).
Proof.
  intros Hinv Hstep. pose proof Hinv as (Hmain & Hstag & _).
  destruct Hstep as [o r Hr|id w k Em Es|id e s Es|id e ob h Es Em En|id m s Es H1 Em|id m s ob p Es H1 Em Ep Hnum Hw Hcfg Hbs|id|id].
  - split; assumption.
  - (* New *)
    split.
    + intros id' o' Hg. getsimp. eapply Hmain; exact Hg.
    + intros c' id' s' Hg. getsimp.
      destruct (skey_case c id c' id') as [(E & -> & ->)|(E & Hne)]; rewrite E in Hg.
      * injection Hg as <-. destruct (v1_stored_ok w) as (A1 & A2 & A4).
        unfold stg_ok. cbn [s_head s_versions s_state s_edits s_base List.length].
        repeat split; try assumption; try lia; try reflexivity.
      * apply stg_ok_same with (st := st); [apply Hstag with (c := c'); exact Hg|reflexivity|reflexivity].
  - (* Stage, existing staged copy *)
    split.
    + intros id' o' Hg. getsimp. eapply Hmain; exact Hg.
    + intros c' id' s' Hg. getsimp.
      destruct (skey_case c id c' id') as [(E & -> & ->)|(E & Hne)]; rewrite E in Hg.
      * injection Hg as <-. destruct (Hstag _ _ _ Es) as (A1 & A2 & A4 & A5 & A6).
        unfold stg_ok. cbn [s_head s_versions s_state s_edits s_base].
        repeat split; try assumption.
        rewrite apply_edits_snoc, <- A5. reflexivity.
      * apply stg_ok_same with (st := st); [apply Hstag with (c := c'); exact Hg|reflexivity|reflexivity].
  - (* Stage, clone from main *)
    destruct (Hmain _ _ Em) as (Olin & Owf & Ofit & Onum).
    destruct (vnext_ok_plus_one _ _ _ Owf En) as (Nn & Nw & Nfit & Nwf).
    split.
    + intros id' o' Hg. getsimp. eapply Hmain; exact Hg.
    + intros c' id' s' Hg. getsimp.
      destruct (skey_case c id c' id') as [(E & -> & ->)|(E & Hne)]; rewrite E in Hg.
      * injection Hg as <-.
        unfold stg_ok. cbn [s_head s_versions s_state s_edits s_base].
        split; [exact Nwf|]. split; [exact Nfit|]. split; [lia|]. split; [reflexivity|].
        split; [exact Olin|]. split.
        -- intros E0. rewrite E0 in Onum. cbn [List.length] in Onum. unfold vnumok in Owf. lia.
        -- intros o2 Hg2 _. getsimp. rewrite Em in Hg2. injection Hg2 as <-.
           split; [apply extends_refl|symmetry; exact Nw].
      * apply stg_ok_same with (st := st); [apply Hstag with (c := c'); exact Hg|reflexivity|reflexivity].
  - (* Commit, new object *)
    destruct (Hstag _ _ _ Es) as (Swf & Sfit & Snum & Sstate & Sbase).
    split.
    + intros id' o' Hg. getsimp.
      destruct (bytes_case id id') as [(E & ->)|(E & Hne)]; rewrite E in Hg.
      * injection Hg as <-. unfold obj_ok. cbn [o_lineage o_head o_versions].
        rewrite app_length. cbn [List.length]. repeat split; try assumption; lia.
      * apply obj_ok_mono with (n := mc_next st); [apply Hmain with (id := id'); exact Hg|lia].
    + intros c' id' s' Hg. getsimp.
      destruct (skey_case c id c' id') as [(E & -> & ->)|(E & Hne)]; rewrite E in Hg; [discriminate|].
      pose proof (Hstag _ _ _ Hg) as Hold.
      apply stg_ok_transfer with (st := st); [exact Hold|getsimp; lia|].
      intros o' Hg' l Hb Hl. getsimp.
      destruct Hold as (_ & _ & _ & _ & B). rewrite Hb in B. destruct B as (Bl & _ & Bf).
      destruct (bytes_case id id') as [(E' & ->)|(E' & Hne')]; rewrite E' in Hg'.
      * injection Hg' as <-. cbn [o_lineage] in Hl. lia.
      * apply Bf; assumption.
  - (* Commit, new version *)
    destruct (commit_ver_facts _ _ _ _ _ _ _ _ Hinv Es H1 Em Ep Hnum Hbs) as (Fb & Fv & Fh & Fs).
    destruct (Hstag _ _ _ Es) as (Swf & Sfit & Snum & Sstate & Sbase).
    destruct (Hmain _ _ Em) as (Olin & Owf & Ofit & Onum).
    split.
    + intros id' o' Hg. getsimp.
      destruct (bytes_case id id') as [(E & ->)|(E & Hne)]; rewrite E in Hg.
      * injection Hg as <-. unfold obj_ok. cbn [o_lineage o_head o_versions].
        rewrite app_length. cbn [List.length]. repeat split; try assumption; lia.
      * apply Hmain with (id := id'). exact Hg.
    + intros c' id' s' Hg. getsimp.
      destruct (skey_case c id c' id') as [(E & -> & ->)|(E & Hne)]; rewrite E in Hg; [discriminate|].
      pose proof (Hstag _ _ _ Hg) as Hold.
      apply stg_ok_transfer with (st := st); [exact Hold|getsimp; lia|].
      intros o' Hg' l Hb Hl. getsimp.
      destruct Hold as (_ & _ & _ & _ & B). rewrite Hb in B. destruct B as (Bl & _ & Bf).
      destruct (bytes_case id id') as [(E' & ->)|(E' & Hne')]; rewrite E' in Hg'.
      * injection Hg' as <-. cbn [o_lineage o_head o_versions] in *.
        destruct (Bf _ Em Hl) as (Bext & Bw). split.
        -- rewrite Fv. apply extends_snoc. exact Bext.
        -- rewrite Fh. cbn [vn_width]. exact Bw.
      * apply Bf; assumption.
  - (* ResetAll *)
    split.
    + intros id' o' Hg. getsimp. eapply Hmain; exact Hg.
    + intros c' id' s' Hg. getsimp.
      destruct (skey_case c id c' id') as [(E & -> & ->)|(E & Hne)]; rewrite E in Hg; [discriminate|].
      apply stg_ok_same with (st := st); [apply Hstag with (c := c'); exact Hg|reflexivity|reflexivity].
  - (* Purge *)
    split.
    + intros id' o' Hg. getsimp.
      destruct (bytes_case id id') as [(E & ->)|(E & Hne)]; rewrite E in Hg; [discriminate|].
      apply Hmain with (id := id'). exact Hg.
    + intros c' id' s' Hg. getsimp.
      destruct (skey_case c id c' id') as [(E & -> & ->)|(E & Hne)]; rewrite E in Hg; [discriminate|].
      pose proof (Hstag _ _ _ Hg) as Hold.
      apply stg_ok_transfer with (st := st); [exact Hold|getsimp; lia|].
      intros o' Hg' l Hb Hl. getsimp.
      destruct Hold as (_ & _ & _ & _ & B). rewrite Hb in B. destruct B as (Bl & _ & Bf).
      destruct (bytes_case id id') as [(E' & ->)|(E' & Hne')]; rewrite E' in Hg'; [discriminate|].
      apply Bf; assumption.
Qed.

Lemma stg_new_no_versions st id s : stg_ok st id s -> vn_number (s_head s) = 1 -> s_versions s = [].
Proof.
  intros (_ & _ & Snum & _) H1. destruct (s_versions s); [reflexivity|]. cbn [List.length] in Snum. lia.
Qed.

Lemma step_rel_invK dbg st c o st' r :
  mc_inv st -> step_fresh st c o = true -> step_rel dbg st c o st' r -> metas_main_unique st'.
Proof.
  intros Hinv Hfresh Hstep. pose proof Hinv as (Hmain & Hstag & HK & HJ).
  destruct Hstep as [o r Hr|id w k Em Es|id e s Es|id e ob h Es Em En|id m s Es H1 Em|id m s ob p Es H1 Em Ep Hnum Hw Hcfg Hbs|id|id];
    intros id1 id2 o1 o2 m0 G1 G2 I1 I2; getsimp.
  1-4,7: eapply HK; eassumption.
  - (* Commit, new object *)
    pose proof (step_fresh_commit _ _ _ _ Hfresh) as Hf.
    pose proof (stg_new_no_versions _ _ _ (Hstag _ _ _ Es) H1) as Hnil.
    destruct (bytes_case id id1) as [(E1 & ->)|(E1 & N1)]; rewrite E1 in G1;
      destruct (bytes_case id id2) as [(E2 & ->)|(E2 & N2)]; rewrite E2 in G2; try reflexivity.
    + injection G1 as <-. cbn [o_versions] in I1. rewrite Hnil in I1. cbn [app metas map In] in I1.
      destruct I1 as [<-|[]]. exfalso. apply Hf. eapply st_metas_main; eassumption.
    + injection G2 as <-. cbn [o_versions] in I2. rewrite Hnil in I2. cbn [app metas map In] in I2.
      destruct I2 as [<-|[]]. exfalso. apply Hf. eapply st_metas_main; eassumption.
    + eapply HK; eassumption.
  - (* Commit, new version *)
    pose proof (step_fresh_commit _ _ _ _ Hfresh) as Hf.
    destruct (commit_ver_facts _ _ _ _ _ _ _ _ Hinv Es H1 Em Ep Hnum Hbs) as (Fb & Fv & Fh & Fs).
    destruct (bytes_case id id1) as [(E1 & ->)|(E1 & N1)]; rewrite E1 in G1;
      destruct (bytes_case id id2) as [(E2 & ->)|(E2 & N2)]; rewrite E2 in G2; try reflexivity.
    + injection G1 as <-. cbn [o_versions] in I1. rewrite Fv in I1.
      destruct (metas_snoc _ _ _ I1) as [I1' | ->].
      * eapply HK; [exact Em|exact G2|exact I1'|exact I2].
      * exfalso. apply Hf. cbn [fst]. eapply st_metas_main; eassumption.
    + injection G2 as <-. cbn [o_versions] in I2. rewrite Fv in I2.
      destruct (metas_snoc _ _ _ I2) as [I2' | ->].
      * eapply HK; [exact G1|exact Em|exact I1|exact I2'].
      * exfalso. apply Hf. cbn [fst]. eapply st_metas_main; eassumption.
    + eapply HK; eassumption.
  - (* Purge *)
    destruct (bytes_case id id1) as [(E1 & ->)|(E1 & N1)]; rewrite E1 in G1; [discriminate|].
    destruct (bytes_case id id2) as [(E2 & ->)|(E2 & N2)]; rewrite E2 in G2; [discriminate|].
    eapply HK; eassumption.
Qed.

Lemma step_rel_invJ dbg st c o st' r :
  mc_inv st -> step_fresh st c o = true -> step_rel dbg st c o st' r -> metas_stag_lineage st'.
Proof.
  intros Hinv Hfresh Hstep. pose proof Hinv as (Hmain & Hstag & HK & HJ).
  destruct Hstep as [o r Hr|id w k Em Es|id e s Es|id e ob h Es Em En|id m s Es H1 Em|id m s ob p Es H1 Em Ep Hnum Hw Hcfg Hbs|id|id];
    intros id0 o0 c0 id0' s0 l m0 G S B I1 I2; getsimp.
  - eapply HJ; eassumption.
  - destruct (skey_case c id c0 id0') as [(E & -> & ->)|(E & Hne)]; rewrite E in S.
    + injection S as <-. discriminate B.
    + eapply HJ; eassumption.
  - destruct (skey_case c id c0 id0') as [(E & -> & ->)|(E & Hne)]; rewrite E in S.
    + injection S as <-. cbn [s_base s_versions] in *. eapply HJ; eassumption.
    + eapply HJ; eassumption.
  - destruct (skey_case c id c0 id0') as [(E & -> & ->)|(E & Hne)]; rewrite E in S.
    + injection S as <-. cbn [s_base s_versions] in *. injection B as <-.
      assert (id0 = id) by (eapply HK; [exact G|exact Em|exact I1|exact I2]). subst id0.
      rewrite Em in G. injection G as <-. split; reflexivity.
    + eapply HJ; eassumption.
  - (* Commit, new object *)
    pose proof (step_fresh_commit _ _ _ _ Hfresh) as Hf.
    pose proof (stg_new_no_versions _ _ _ (Hstag _ _ _ Es) H1) as Hnil.
    destruct (skey_case c id c0 id0') as [(E & -> & ->)|(E & Hne)]; rewrite E in S; [discriminate|].
    destruct (bytes_case id id0) as [(E1 & ->)|(E1 & N1)]; rewrite E1 in G.
    + injection G as <-. cbn [o_versions] in I1. rewrite Hnil in I1. cbn [app metas map In] in I1.
      destruct I1 as [<-|[]]. exfalso. apply Hf. eapply st_metas_stag; eassumption.
    + eapply HJ; eassumption.
  - (* Commit, new version *)
    pose proof (step_fresh_commit _ _ _ _ Hfresh) as Hf.
    destruct (commit_ver_facts _ _ _ _ _ _ _ _ Hinv Es H1 Em Ep Hnum Hbs) as (Fb & Fv & Fh & Fs).
    destruct (skey_case c id c0 id0') as [(E & -> & ->)|(E & Hne)]; rewrite E in S; [discriminate|].
    destruct (bytes_case id id0) as [(E1 & ->)|(E1 & N1)]; rewrite E1 in G.
    + injection G as <-. cbn [o_versions o_lineage] in *. rewrite Fv in I1.
      destruct (metas_snoc _ _ _ I1) as [I1' | ->].
      * eapply HJ; [exact Em|exact S|exact B|exact I1'|exact I2].
      * exfalso. apply Hf. cbn [fst]. eapply st_metas_stag; eassumption.
    + eapply HJ; eassumption.
  - destruct (skey_case c id c0 id0') as [(E & -> & ->)|(E & Hne)]; rewrite E in S; [discriminate|].
    eapply HJ; eassumption.
  - destruct (skey_case c id c0 id0') as [(E & -> & ->)|(E & Hne)]; rewrite E in S; [discriminate|].
    destruct (bytes_case id id0) as [(E1 & ->)|(E1 & N1)]; rewrite E1 in G; [discriminate|].
    eapply HJ; eassumption.
Qed.

Lemma step_rel_inv dbg st c o st' r :
  mc_inv st -> step_fresh st c o = true -> step_rel dbg st c o st' r -> mc_inv st'.
Proof.
  intros Hinv Hf Hstep. destruct (step_rel_inv12 _ _ _ _ _ _ Hinv Hstep) as [H1 H2].
  split; [exact H1|]. split; [exact H2|]. split.
  - eapply step_rel_invK; eassumption.
  - eapply step_rel_invJ; eassumption.
Qed.

Lemma step_inv dbg st c o :
  mc_inv st -> step_fresh st c o = true -> mc_inv (fst (step dbg st c o)).
Proof. intros Hinv Hc. eapply step_rel_inv; [exact Hinv|exact Hc|apply step_sound]. Qed.

Lemma run_inv dbg es : forall st,
  mc_inv st -> run_fresh dbg st es = true -> mc_inv (run dbg st es).
Proof.
  induction es as [|[c o] r IH]; intros st Hinv Hc; cbn [run run_fresh] in *.
  - exact Hinv.
  - apply andb_true_iff in Hc. destruct Hc as [Hc1 Hc2].
    apply IH; [apply step_inv; assumption|exact Hc2].
Qed.

(** every refused (or aborted) operation leaves the whole system - the main
    repository and every staging root - exactly as it was *)
Lemma step_refused_unchanged dbg st c o :
  snd (step dbg st c o) <> Ok tt -> fst (step dbg st c o) = st.
Proof.
  intros H. destruct (step_sound dbg st c o); try reflexivity; exfalso; apply H; reflexivity.
Qed.

(** * One step, read backwards: where does an object of the new state come from? *)
Definition grows_from (o o1 : obj) : Prop :=
  o_lineage o1 = o_lineage o /\
  exists tl, o_versions o1 = o_versions o ++ tl /\ (List.length tl <= 1)%nat /\
             vn_number (o_head o1) = vn_number (o_head o) + N.of_nat (List.length tl) /\
             vn_width (o_head o1) = vn_width (o_head o).

Lemma grows_from_refl o : grows_from o o.
Proof.
  split; [reflexivity|]. exists []. rewrite app_nil_r. cbn [List.length]. repeat split; lia.
Qed.

Lemma step_rel_back dbg st c o st' r :
  mc_inv st -> step_rel dbg st c o st' r ->
  mc_next st <= mc_next st' /\
  forall id o1, mget st' id = Some o1 ->
    (exists o0, mget st id = Some o0 /\ grows_from o0 o1) \/ mc_next st <= o_lineage o1.
Proof.
  intros Hinv Hstep.
  destruct Hstep as [o r Hr|id w k Em Es|id e s Es|id e ob h Es Em En|id m s Es H1 Em|id m s ob p Es H1 Em Ep Hnum Hw Hcfg Hbs|id|id];
    getsimp.
  1-4,7: split; [lia|]; intros id' o1 Hg; getsimp; left; exists o1; split; [exact Hg|apply grows_from_refl].
  - split; [lia|]. intros id' o1 Hg. getsimp.
    destruct (bytes_case id id') as [(E & ->)|(E & Hne)]; rewrite E in Hg.
    + injection Hg as <-. right. cbn [o_lineage]. lia.
    + left. exists o1. split; [exact Hg|apply grows_from_refl].
  - split; [lia|]. intros id' o1 Hg. getsimp.
    destruct (commit_ver_facts _ _ _ _ _ _ _ _ Hinv Es H1 Em Ep Hnum Hbs) as (Fb & Fv & Fh & Fs).
    destruct (bytes_case id id') as [(E & ->)|(E & Hne)]; rewrite E in Hg.
    + injection Hg as <-. left. exists ob. split; [exact Em|].
      split; [reflexivity|]. exists [(m, s_state s)]. cbn [o_versions o_head List.length].
      rewrite Fv, Fh. cbn [vn_number vn_width]. repeat split; lia.
    + left. exists o1. split; [exact Hg|apply grows_from_refl].
  - split; [lia|]. intros id' o1 Hg. getsimp.
    destruct (bytes_case id id') as [(E & ->)|(E & Hne)]; rewrite E in Hg; [discriminate|].
    left. exists o1. split; [exact Hg|apply grows_from_refl].
Qed.

(** * Runs: the version list of a lineage only ever grows at its end *)
Definition extends_obj (o o1 : obj) : Prop :=
  o_lineage o1 = o_lineage o /\
  exists tl, o_versions o1 = o_versions o ++ tl /\
             vn_number (o_head o1) = vn_number (o_head o) + N.of_nat (List.length tl) /\
             vn_width (o_head o1) = vn_width (o_head o).

Lemma run_back dbg es : forall st,
  mc_inv st -> run_fresh dbg st es = true ->
  mc_next st <= mc_next (run dbg st es) /\
  forall id o1, mget (run dbg st es) id = Some o1 ->
    (exists o0, mget st id = Some o0 /\ extends_obj o0 o1) \/ mc_next st <= o_lineage o1.
Proof.
  induction es as [|[c o] r IH]; intros st Hinv Hc; cbn [run run_fresh] in *.
  - split; [lia|]. intros id o1 Hg. left. exists o1. split; [exact Hg|].
    split; [reflexivity|]. exists []. rewrite app_nil_r. cbn [List.length]. split; [reflexivity|split; lia].
  - apply andb_true_iff in Hc. destruct Hc as [Hc1 Hc2].
    destruct (step_rel_back dbg st c o _ _ Hinv (step_sound dbg st c o)) as [Hn1 Hb1].
    destruct (IH _ (step_inv dbg st c o Hinv Hc1) Hc2) as [Hn2 Hb2].
    split; [lia|]. intros id o2 Hg.
    destruct (Hb2 _ _ Hg) as [(o1 & Hg1 & Hl & tl2 & Hv2 & Hnum2 & Hw2)|Hfresh]; [|right; lia].
    destruct (Hb1 _ _ Hg1) as [(o0 & Hg0 & Hl1 & tl1 & Hv1 & _ & Hnum1 & Hw1)|Hfresh]; [|right; lia].
    left. exists o0. split; [exact Hg0|]. split; [congruence|].
    exists (tl1 ++ tl2). rewrite Hv2, Hv1, <- app_assoc, app_length. repeat split; [lia|congruence].
Qed.

(** * What holds in EVERY reachable state, whatever metadata the clients pass *)

Definition obj_wf (next : N) (o : obj) : Prop :=
  o_lineage o < next /\ vnumok (o_head o) = true /\ vfits (o_head o) = true /\
  vn_number (o_head o) = N.of_nat (List.length (o_versions o)).
Definition stg_wf (s : staged) : Prop :=
  vnumok (s_head s) = true /\ vfits (s_head s) = true /\
  vn_number (s_head s) = N.of_nat (List.length (s_versions s)) + 1 /\
  s_state s = apply_edits (s_edits s) (last_state (s_versions s)).
Definition mc_wf (st : mc) : Prop :=
  (forall id o, mget st id = Some o -> obj_wf (mc_next st) o) /\
  (forall c id s, sget st c id = Some s -> stg_wf s).

Lemma mc_wf_init : mc_wf mc_init.
Proof. split; intros; discriminate. Qed.

Lemma mc_inv_wf st : mc_inv st -> mc_wf st.
Proof.
  intros (Hmain & Hstag & _). split.
  - intros id o Hg. exact (Hmain _ _ Hg).
  - intros c id s Hg. destruct (Hstag _ _ _ Hg) as (A1 & A2 & A3 & A4 & _). repeat split; assumption.
Qed.

Lemma obj_wf_mono n n' o : obj_wf n o -> n <= n' -> obj_wf n' o.
Proof. unfold obj_wf. intros (H1 & H2) Hn. split; [lia|assumption]. Qed.

Lemma step_rel_wf dbg st c o st' r : mc_wf st -> step_rel dbg st c o st' r -> mc_wf st'.
Proof.
  intros [Hmain Hstag] Hstep.
  destruct Hstep as [o r Hr|id w k Em Es|id e s Es|id e ob h Es Em En|id m s Es H1 Em|id m s ob p Es H1 Em Ep Hnum Hw Hcfg Hbs|id|id].
  - split; assumption.
  - split.
    + intros id' o' Hg. getsimp. eapply Hmain; exact Hg.
    + intros c' id' s' Hg. getsimp.
      destruct (skey_case c id c' id') as [(E & -> & ->)|(E & Hne)]; rewrite E in Hg.
      * injection Hg as <-. destruct (v1_stored_ok w) as (A1 & A2 & A4).
        unfold stg_wf. cbn [s_head s_versions s_state s_edits List.length].
        split; [exact A1|]. split; [exact A2|]. split; [lia|reflexivity].
      * eapply Hstag; exact Hg.
  - split.
    + intros id' o' Hg. getsimp. eapply Hmain; exact Hg.
    + intros c' id' s' Hg. getsimp.
      destruct (skey_case c id c' id') as [(E & -> & ->)|(E & Hne)]; rewrite E in Hg.
      * injection Hg as <-. destruct (Hstag _ _ _ Es) as (A1 & A2 & A4 & A5).
        unfold stg_wf. cbn [s_head s_versions s_state s_edits].
        split; [exact A1|]. split; [exact A2|]. split; [exact A4|].
        rewrite apply_edits_snoc, <- A5. reflexivity.
      * eapply Hstag; exact Hg.
  - destruct (Hmain _ _ Em) as (Olin & Owf & Ofit & Onum).
    destruct (vnext_ok_plus_one _ _ _ Owf En) as (Nn & Nw & Nfit & Nwf).
    split.
    + intros id' o' Hg. getsimp. eapply Hmain; exact Hg.
    + intros c' id' s' Hg. getsimp.
      destruct (skey_case c id c' id') as [(E & -> & ->)|(E & Hne)]; rewrite E in Hg.
      * injection Hg as <-. unfold stg_wf. cbn [s_head s_versions s_state s_edits].
        split; [exact Nwf|]. split; [exact Nfit|]. split; [lia|reflexivity].
      * eapply Hstag; exact Hg.
  - destruct (Hstag _ _ _ Es) as (Swf & Sfit & Snum & Sstate).
    split.
    + intros id' o' Hg. getsimp.
      destruct (bytes_case id id') as [(E & ->)|(E & Hne)]; rewrite E in Hg.
      * injection Hg as <-. unfold obj_wf. cbn [o_lineage o_head o_versions].
        rewrite app_length. cbn [List.length]. repeat split; try assumption; lia.
      * apply obj_wf_mono with (n := mc_next st); [eapply Hmain; exact Hg|lia].
    + intros c' id' s' Hg. getsimp.
      destruct (skey_case c id c' id') as [(E & -> & ->)|(E & Hne)]; rewrite E in Hg; [discriminate|].
      eapply Hstag; exact Hg.
  - destruct (Hstag _ _ _ Es) as (Swf & Sfit & Snum & Sstate).
    destruct (Hmain _ _ Em) as (Olin & _).
    split.
    + intros id' o' Hg. getsimp.
      destruct (bytes_case id id') as [(E & ->)|(E & Hne)]; rewrite E in Hg.
      * injection Hg as <-. unfold obj_wf. cbn [o_lineage o_head o_versions].
        rewrite app_length. cbn [List.length]. repeat split; try assumption; lia.
      * eapply Hmain; exact Hg.
    + intros c' id' s' Hg. getsimp.
      destruct (skey_case c id c' id') as [(E & -> & ->)|(E & Hne)]; rewrite E in Hg; [discriminate|].
      eapply Hstag; exact Hg.
  - split.
    + intros id' o' Hg. getsimp. eapply Hmain; exact Hg.
    + intros c' id' s' Hg. getsimp.
      destruct (skey_case c id c' id') as [(E & -> & ->)|(E & Hne)]; rewrite E in Hg; [discriminate|].
      eapply Hstag; exact Hg.
  - split.
    + intros id' o' Hg. getsimp.
      destruct (bytes_case id id') as [(E & ->)|(E & Hne)]; rewrite E in Hg; [discriminate|].
      eapply Hmain; exact Hg.
    + intros c' id' s' Hg. getsimp.
      destruct (skey_case c id c' id') as [(E & -> & ->)|(E & Hne)]; rewrite E in Hg; [discriminate|].
      eapply Hstag; exact Hg.
Qed.

Lemma run_wf dbg es : forall st, mc_wf st -> mc_wf (run dbg st es).
Proof.
  induction es as [|[c o] r IH]; intros st Hwf; cbn [run]; [exact Hwf|].
  apply IH. eapply step_rel_wf; [exact Hwf|apply step_sound].
Qed.

(** * The statements of the property *)

(** ALL interleavings, any metadata: every object's head number is the number of its versions
    (none skipped, none repeated) and fits its padding width *)
Lemma reachable_wf dbg es : mc_wf (run dbg mc_init es).
Proof. apply run_wf. apply mc_wf_init. Qed.

Lemma reachable_heads dbg es id o :
  mget (run dbg mc_init es) id = Some o ->
  vn_number (o_head o) = N.of_nat (List.length (o_versions o)) /\ 1 <= vn_number (o_head o) /\
  vfits (o_head o) = true.
Proof.
  intros Hg. destruct (reachable_wf dbg es) as [Hmain _].
  destruct (Hmain _ _ Hg) as (_ & Hwf & Hfit & Hnum). unfold vnumok in Hwf. repeat split; try assumption; lia.
Qed.

(** interleavings in which no commit repeats the metadata of a known version (what Local::now()
    gives) satisfy the stronger, lineage-aware invariant *)
Lemma reachable_inv dbg es : run_fresh dbg mc_init es = true -> mc_inv (run dbg mc_init es).
Proof. apply run_inv. apply mc_inv_init. Qed.

Lemma commit_ver_unfold dbg st c id m s st' :
  sget st c id = Some s -> vn_number (s_head s) <> 1 -> step dbg st c (Commit id m) = (st', Ok tt) ->
  exists o p, mget st id = Some o /\ vprev dbg (s_head s) = Ok p /\ vn_number (o_head o) = vn_number p /\
    vn_width (o_head o) = vn_width (s_head s) /\ o_cfg o = s_cfg s /\
    base_same (o_versions o) (s_versions s ++ [(m, s_state s)]) = true /\
    st' = install st c id (mkObj (o_lineage o) (s_head s) (s_versions s ++ [(m, s_state s)]) (s_cfg s)) (mc_next st).
Proof.
  intros Es H1 Hstep. cbn [step] in Hstep. rewrite Es in Hstep.
  assert (E1 : (vn_number (s_head s) =? 1) = false) by lia. rewrite E1 in Hstep.
  destruct (mget st id) as [o|] eqn:Em; [|discriminate].
  destruct (vprev dbg (s_head s)) as [p| |] eqn:Ep; try discriminate.
  destruct (vn_number (o_head o) =? vn_number p) eqn:E2; [|discriminate].
  destruct ((vn_width (o_head o) =? vn_width (s_head s)) && (o_cfg o =? s_cfg s)) eqn:Ec; [|discriminate].
  destruct (base_same (o_versions o) (s_versions s ++ [(m, s_state s)])) eqn:Eb; [|discriminate].
  apply andb_true_iff in Ec. destruct Ec as [Ec1 Ec2].
  injection Hstep as <-. exists o, p. repeat split; try reflexivity; try assumption; lia.
Qed.

Lemma base_same_app_l main stg x :
  List.length main = List.length stg -> base_same main (stg ++ [x]) = base_same main stg.
Proof.
  revert stg. induction main as [|a r IH]; intros [|y s'] Hl; cbn [List.length] in Hl; try lia; [reflexivity|].
  cbn [app base_same]. rewrite IH by lia. reflexivity.
Qed.

(** ANY accepted commit of a new version (no hypothesis on metadata): the new head is the old
    head number + 1, exactly one version - the client's staged state with the commit's
    metadata - is added at the end, and each earlier version keeps its metadata and its state
    ([base_same]): none is overwritten by a different one, skipped or merged *)
Lemma commit_keeps_history dbg st c id m s st' :
  mc_wf st -> sget st c id = Some s -> vn_number (s_head s) <> 1 ->
  step dbg st c (Commit id m) = (st', Ok tt) ->
  exists o, mget st id = Some o /\
    mget st' id = Some (mkObj (o_lineage o) (mkV (vn_number (o_head o) + 1) (vn_width (o_head o)))
                              (s_versions s ++ [(m, s_state s)]) (o_cfg o)) /\
    List.length (s_versions s) = List.length (o_versions o) /\
    base_same (o_versions o) (s_versions s) = true /\
    (forall id', id' <> id -> mget st' id' = mget st id') /\
    sget st' c id = None /\
    (forall c' id', (c', id') <> (c, id) -> sget st' c' id' = sget st c' id') /\
    mc_next st' = mc_next st.
Proof.
  intros [Hmain Hstag] Es H1 Hstep.
  destruct (commit_ver_unfold _ _ _ _ _ _ _ Es H1 Hstep) as (o & p & Em & Ep & Hnum & Hw & Hcfg & Hbs & ->).
  destruct (Hstag _ _ _ Es) as (Swf & _ & Snum & _).
  destruct (Hmain _ _ Em) as (_ & _ & _ & Onum).
  rewrite vprev_correct in Ep by assumption.
  assert (E1 : (vn_number (s_head s) =? 1) = false) by lia. rewrite E1 in Ep.
  injection Ep as <-. cbn [vn_number] in Hnum. unfold vnumok in Swf.
  assert (Hlen : List.length (s_versions s) = List.length (o_versions o)) by lia.
  assert (Hh : s_head s = mkV (vn_number (o_head o) + 1) (vn_width (o_head o))).
  { destruct (s_head s) as [n w]. cbn [vn_number vn_width] in *. f_equal; lia. }
  exists o. split; [exact Em|]. getsimp. repeat split.
  - rewrite bytes_eqb_refl, Hh, Hcfg. reflexivity.
  - exact Hlen.
  - rewrite base_same_app_l in Hbs by lia. exact Hbs.
  - intros id' Hne. getsimp. apply bytes_eqb_false in Hne. rewrite Hne. reflexivity.
  - rewrite skey_eqb_refl. reflexivity.
  - intros c' id' Hne. getsimp. apply skey_eqb_false in Hne. rewrite Hne. reflexivity.
Qed.

(** in a state reached without repeated metadata: exact statement, with lineage and width *)
Lemma commit_appends_exactly_next dbg st c id m s st' :
  mc_inv st -> sget st c id = Some s -> vn_number (s_head s) <> 1 ->
  step dbg st c (Commit id m) = (st', Ok tt) ->
  exists o, mget st id = Some o /\
    mget st' id = Some (mkObj (o_lineage o) (mkV (vn_number (o_head o) + 1) (vn_width (o_head o)))
                              (o_versions o ++ [(m, s_state s)]) (o_cfg o)) /\
    (forall id', id' <> id -> mget st' id' = mget st id') /\
    sget st' c id = None /\
    (forall c' id', (c', id') <> (c, id) -> sget st' c' id' = sget st c' id') /\
    mc_next st' = mc_next st.
Proof.
  intros Hinv Es H1 Hstep.
  destruct (commit_ver_unfold _ _ _ _ _ _ _ Es H1 Hstep) as (o & p & Em & Ep & Hnum & Hw & Hcfg & Hbs & ->).
  destruct (commit_ver_facts _ _ _ _ _ _ _ _ Hinv Es H1 Em Ep Hnum Hbs) as (Fb & Fv & Fh & Fs).
  exists o. split; [exact Em|]. getsimp. repeat split.
  - rewrite bytes_eqb_refl, Fv, Fh, Hcfg. reflexivity.
  - intros id' Hne. getsimp. apply bytes_eqb_false in Hne. rewrite Hne. reflexivity.
  - rewrite skey_eqb_refl. reflexivity.
  - intros c' id' Hne. getsimp. apply skey_eqb_false in Hne. rewrite Hne. reflexivity.
Qed.

Lemma lineage_known_exact dbg st c id m s o st' :
  mc_inv st -> sget st c id = Some s -> vn_number (s_head s) <> 1 -> mget st id = Some o ->
  step dbg st c (Commit id m) = (st', Ok tt) ->
  s_base s = Some (o_lineage o) /\ s_versions s = o_versions o /\
  s_state s = apply_edits (s_edits s) (last_state (o_versions o)).
Proof.
  intros Hinv Es H1 Em Hstep.
  destruct (commit_ver_unfold _ _ _ _ _ _ _ Es H1 Hstep) as (o' & p & Em' & Ep & Hnum & _ & _ & Hbs & _).
  rewrite Em in Em'. injection Em' as <-.
  destruct (commit_ver_facts _ _ _ _ _ _ _ _ Hinv Es H1 Em Ep Hnum Hbs) as (Fb & Fv & Fh & Fs).
  repeat split; assumption.
Qed.

(** the main repository's head is not the staged head - 1 (or the object is gone): refused,
    nothing changes - neither the repository nor the client's staged changes *)
Lemma stale_commit_refused_unchanged dbg st c id m s :
  sget st c id = Some s -> vnumok (s_head s) = true -> vn_number (s_head s) <> 1 ->
  (forall o, mget st id = Some o -> vn_number (o_head o) + 1 <> vn_number (s_head s)) ->
  step dbg st c (Commit id m) = (st, Err).
Proof.
  intros Es Hwf H1 Hm. cbn [step]. rewrite Es.
  assert (E1 : (vn_number (s_head s) =? 1) = false) by lia. rewrite E1.
  destruct (mget st id) as [o|] eqn:Em; [|reflexivity].
  rewrite vprev_correct by assumption. rewrite E1. cbn [vn_number].
  specialize (Hm o eq_refl). unfold vnumok in Hwf.
  replace (vn_number (o_head o) =? vn_number (s_head s) - 1) with false by lia. reflexivity.
Qed.

(** some version of the object differs - in metadata or in state - from the staged copy's:
    refused, nothing changes (fix e1679ed) *)
Lemma foreign_base_refused dbg st c id m s o :
  sget st c id = Some s -> vnumok (s_head s) = true -> vn_number (s_head s) <> 1 ->
  mget st id = Some o -> base_same (o_versions o) (s_versions s ++ [(m, s_state s)]) = false ->
  step dbg st c (Commit id m) = (st, Err).
Proof.
  intros Es Hwf H1 Em Hbs. cbn [step]. rewrite Es.
  assert (E1 : (vn_number (s_head s) =? 1) = false) by lia. rewrite E1, Em.
  rewrite vprev_correct by assumption. rewrite E1, Hbs.
  destruct (vn_number (o_head o) =? vn_number (mkV (vn_number (s_head s) - 1) (vn_width (s_head s)))); [|reflexivity].
  destruct ((vn_width (o_head o) =? vn_width (s_head s)) && (o_cfg o =? s_cfg s)); reflexivity.
Qed.

(** the object has another padding width, digest algorithm or content directory than the staged
    copy: refused, nothing changes (fix 5c18ef1) *)
Lemma foreign_config_refused dbg st c id m s o :
  sget st c id = Some s -> vnumok (s_head s) = true -> vn_number (s_head s) <> 1 ->
  mget st id = Some o -> (vn_width (o_head o) <> vn_width (s_head s) \/ o_cfg o <> s_cfg s) ->
  step dbg st c (Commit id m) = (st, Err).
Proof.
  intros Es Hwf H1 Em Hd. cbn [step]. rewrite Es.
  assert (E1 : (vn_number (s_head s) =? 1) = false) by lia. rewrite E1, Em.
  rewrite vprev_correct by assumption. rewrite E1.
  destruct (vn_number (o_head o) =? vn_number (mkV (vn_number (s_head s) - 1) (vn_width (s_head s)))); [|reflexivity].
  replace ((vn_width (o_head o) =? vn_width (s_head s)) && (o_cfg o =? s_cfg s)) with false by lia.
  reflexivity.
Qed.

(** the formerly known class: a staged copy cloned from another lineage of the id (the object
    was purged and created again) is refused whatever the head numbers are *)
Lemma recreated_lineage_refused dbg st c id m s o l :
  mc_inv st -> sget st c id = Some s -> s_base s = Some l -> mget st id = Some o ->
  l <> o_lineage o -> step dbg st c (Commit id m) = (st, Err).
Proof.
  intros Hinv Es Eb Em Hl. pose proof Hinv as (Hmain & Hstag & _).
  destruct (Hstag _ _ _ Es) as (Swf & _ & Snum & _ & Sbase). rewrite Eb in Sbase.
  destruct Sbase as (_ & Hne & _).
  assert (H1 : vn_number (s_head s) <> 1).
  { destruct (s_versions s); [congruence|]. cbn [List.length] in Snum. lia. }
  apply foreign_base_refused with (s := s) (o := o); try assumption.
  destruct (base_same (o_versions o) (s_versions s ++ [(m, s_state s)])) eqn:Hbs; [|reflexivity].
  pose proof (base_same_lineage _ _ _ _ _ _ Hinv Es Em H1 Hbs) as Eb'. congruence.
Qed.

Lemma new_object_refused_if_exists dbg st c id o :
  mget st id = Some o ->
  (forall w k, step dbg st c (New id w k) = (st, Err)) /\
  (forall m s, sget st c id = Some s -> vn_number (s_head s) = 1 -> step dbg st c (Commit id m) = (st, Err)).
Proof.
  intros Em. split.
  - intros w k. cbn [step]. rewrite Em. reflexivity.
  - intros m s Es H1. cbn [step]. rewrite Es.
    replace (vn_number (s_head s) =? 1) with true by lia. rewrite Em. reflexivity.
Qed.

Lemma versions_append_only dbg es st id o o1 :
  mc_inv st -> run_fresh dbg st es = true ->
  mget st id = Some o -> mget (run dbg st es) id = Some o1 ->
  (o_lineage o1 = o_lineage o -> extends_obj o o1) /\
  (o_lineage o1 <> o_lineage o -> mc_next st <= o_lineage o1).
Proof.
  intros Hinv Hc Hg Hg1. destruct (run_back dbg es st Hinv Hc) as [_ Hb].
  destruct Hinv as [Hmain _]. destruct (Hmain _ _ Hg) as (Hlin & _).
  destruct (Hb _ _ Hg1) as [(o0 & Hg0 & Hext)|Hfresh].
  - rewrite Hg in Hg0. injection Hg0 as <-. split; [intros _; exact Hext|].
    intros Hne. destruct Hext as [Hl _]. contradiction.
  - split; [intros Hl; lia|intros _; exact Hfresh].
Qed.

Lemma stage_refused_at_width_max dbg st c id o e :
  mc_wf st -> sget st c id = None -> mget st id = Some o ->
  max_for_width (vn_width (o_head o)) < vn_number (o_head o) + 1 ->
  step dbg st c (Stage id e) = (st, Err).
Proof.
  intros [Hmain _] Es Em Hmax. destruct (Hmain _ _ Em) as (_ & Hwf & _).
  cbn [step]. rewrite Es, Em. rewrite (vnext_refuses_at_max dbg _ Hwf Hmax). reflexivity.
Qed.

(** no operation ever panics in a reachable state (in particular not [next], at any width) *)
Lemma step_never_panics dbg st c o : mc_wf st -> snd (step dbg st c o) <> Panic.
Proof.
  intros [Hmain Hstag]. destruct o as [id w k|id e|id m|id|id]; cbn [step].
  - destruct (mget st id); [discriminate|]. destruct (sget st c id); discriminate.
  - destruct (sget st c id) as [s|]; [discriminate|].
    destruct (mget st id) as [o|] eqn:Em; [|discriminate].
    destruct (Hmain _ _ Em) as (_ & Hok & _).
    pose proof (vnext_never_panics dbg _ Hok) as Hp.
    destruct (vnext dbg (o_head o)); [discriminate|discriminate|contradiction].
  - destruct (sget st c id) as [s|] eqn:Es; [|discriminate].
    destruct (Hstag _ _ _ Es) as (Hok & _).
    destruct (vn_number (s_head s) =? 1) eqn:E1.
    + destruct (mget st id); discriminate.
    + destruct (mget st id) as [o|]; [|discriminate].
      rewrite vprev_correct by assumption. rewrite E1.
      destruct (vn_number (o_head o) =? vn_number (mkV (vn_number (s_head s) - 1) (vn_width (s_head s))));
        [|discriminate].
      destruct ((vn_width (o_head o) =? vn_width (s_head s)) && (o_cfg o =? s_cfg s)); [|discriminate].
      destruct (base_same (o_versions o) (s_versions s ++ [(m, s_state s)])); discriminate.
  - discriminate.
  - discriminate.
Qed.

(** * No silent merge *)
Definition stale (st : mc) (c : N) (id : bytes) : Prop :=
  exists s o, sget st c id = Some s /\ mget st id = Some o /\
    (vn_number (s_head s) = 1 \/ s_base s <> Some (o_lineage o) \/
     vn_number (s_head s) <= vn_number (o_head o)).

Lemma stale_commit_err dbg st c id m :
  mc_inv st -> stale st c id -> step dbg st c (Commit id m) = (st, Err).
Proof.
  intros Hinv (s & o & Es & Em & Hd). pose proof Hinv as (Hmain & Hstag & _).
  destruct (Hstag _ _ _ Es) as (Swf & _ & Snum & _ & Sbase).
  destruct (N.eq_dec (vn_number (s_head s)) 1) as [H1|H1].
  - destruct (new_object_refused_if_exists dbg st c id o Em) as [_ Hc]. apply Hc with (s := s); assumption.
  - destruct Hd as [Hd|[Hd|Hd]]; [contradiction| |].
    + destruct (s_base s) as [l|] eqn:Eb.
      * apply recreated_lineage_refused with (s := s) (o := o) (l := l); try assumption.
        intros ->. apply Hd. reflexivity.
      * rewrite Sbase in Snum. cbn [List.length] in Snum. lia.
    + apply stale_commit_refused_unchanged with (s := s); try assumption.
      intros o' Em'. rewrite Em in Em'. injection Em' as <-. lia.
Qed.

Lemma commit_makes_stale dbg st a c id m sc st1 :
  mc_inv st -> a <> c -> sget st c id = Some sc ->
  step dbg st a (Commit id m) = (st1, Ok tt) -> stale st1 c id.
Proof.
  intros Hinv Hac Esc Hstep. pose proof Hinv as (Hmain & Hstag & _).
  destruct (Hstag _ _ _ Esc) as (_ & _ & Cnum & _ & Cbase).
  assert (Hne : skey_eqb (c, id) (a, id) = false) by (apply skey_eqb_false; intros [= ->]; apply Hac; reflexivity).
  pose proof Hstep as Hstep0.
  cbn [step] in Hstep. destruct (sget st a id) as [s|] eqn:Es; [|discriminate].
  destruct (vn_number (s_head s) =? 1) eqn:E1.
  - destruct (mget st id) as [o|] eqn:Em; [discriminate|]. injection Hstep as <-.
    exists sc. eexists. getsimp. rewrite Hne, bytes_eqb_refl. split; [exact Esc|]. split; [reflexivity|].
    cbn [o_lineage o_head]. destruct (s_base sc) as [l|] eqn:Eb.
    + right. left. destruct Cbase as (Hl & _). intros [= ->]. lia.
    + left. rewrite Cbase in Cnum. cbn [List.length] in Cnum. lia.
  - assert (H1 : vn_number (s_head s) <> 1) by lia.
    destruct (commit_ver_unfold _ _ _ _ _ _ _ Es H1 Hstep0) as (o & p & Em & Ep & Hnum & _ & _ & Hbs & ->).
    destruct (commit_ver_facts _ _ _ _ _ _ _ _ Hinv Es H1 Em Ep Hnum Hbs) as (Fb & Fv & Fh & Fs).
    destruct (Hmain _ _ Em) as (_ & _ & _ & Onum).
    exists sc. eexists. getsimp. rewrite Hne, bytes_eqb_refl. split; [exact Esc|]. split; [reflexivity|].
    cbn [o_lineage o_head]. destruct (s_base sc) as [l|] eqn:Eb.
    + destruct (N.eq_dec l (o_lineage o)) as [->|Hl].
      * right. right. destruct Cbase as (_ & _ & Hb). destruct (Hb _ Em eq_refl) as ([tl Hext] & _).
        rewrite Fh. cbn [vn_number]. rewrite Hext, app_length in Onum. lia.
      * right. left. intros [= ->]. apply Hl. reflexivity.
    + left. rewrite Cbase in Cnum. cbn [List.length] in Cnum. lia.
Qed.

Lemma ev_keeps_key c id c' o :
  ev_keeps c id (c', o) = true ->
  match o with
  | Purge i => i <> id
  | ResetAll i | Commit i _ => ~ (c' = c /\ i = id)
  | _ => True
  end.
Proof.
  unfold ev_keeps. cbn [fst snd]. destruct o as [i w k|i e|i m|i|i]; try (intros _; exact I); intros H.
  - intros [-> ->]. rewrite N.eqb_refl, bytes_eqb_refl in H. discriminate.
  - intros [-> ->]. rewrite N.eqb_refl, bytes_eqb_refl in H. discriminate.
  - intros ->. rewrite bytes_eqb_refl in H. discriminate.
Qed.

Lemma stale_step dbg st c id c' o st' r :
  mc_inv st -> stale st c id -> ev_keeps c id (c', o) = true ->
  step_rel dbg st c' o st' r -> stale st' c id.
Proof.
  intros Hinv (s & ob & Es & Em & Hd) Hkeep Hstep.
  apply ev_keeps_key in Hkeep.
  destruct Hstep as [o r Hr|i w k Em' Es'|i e s' Es'|i e ob' h Es' Em' En|i m s' Es' H1 Em'|i m s' ob' p Es' H1 Em' Ep Hnum Hw Hcfg Hbs|i|i].
  - exists s, ob. auto.
  - exists s, ob. getsimp.
    destruct (skey_case c' i c id) as [(E & -> & ->)|(E & Hne)]; [congruence|]. rewrite E. auto.
  - destruct (skey_case c' i c id) as [(E & -> & ->)|(E & Hne)].
    + rewrite Es in Es'. injection Es' as <-. eexists. exists ob. getsimp. rewrite E.
      split; [reflexivity|]. split; [exact Em|]. cbn [s_head s_base]. exact Hd.
    + exists s, ob. getsimp. rewrite E. auto.
  - exists s, ob. getsimp.
    destruct (skey_case c' i c id) as [(E & -> & ->)|(E & Hne)]; [congruence|]. rewrite E. auto.
  - exists s, ob. getsimp.
    destruct (bytes_case i id) as [(E & ->)|(E & Hne)]; [congruence|]. rewrite E.
    destruct (skey_case c' i c id) as [(E' & -> & ->)|(E' & Hne')]; [contradiction|]. rewrite E'. auto.
  - destruct (bytes_case i id) as [(E & ->)|(E & Hne)].
    + rewrite Em in Em'. injection Em' as <-.
      destruct (commit_ver_facts _ _ _ _ _ _ _ _ Hinv Es' H1 Em Ep Hnum Hbs) as (Fb & Fv & Fh & Fs).
      exists s. eexists. getsimp. rewrite E.
      destruct (skey_case c' i c i) as [(E' & -> & _)|(E' & Hne')]; [exfalso; apply Hkeep; auto|].
      rewrite E'. split; [exact Es|]. split; [reflexivity|]. cbn [o_lineage o_head].
      rewrite Fh. cbn [vn_number]. destruct Hd as [Hd|[Hd|Hd]]; [auto|auto|right; right; lia].
    + exists s, ob. getsimp. rewrite E.
      destruct (skey_case c' i c id) as [(E' & -> & ->)|(E' & Hne')]; [contradiction|]. rewrite E'. auto.
  - exists s, ob. getsimp.
    destruct (skey_case c' i c id) as [(E & -> & ->)|(E & Hne)]; [exfalso; apply Hkeep; auto|]. rewrite E. auto.
  - exists s, ob. getsimp.
    destruct (bytes_case i id) as [(E & ->)|(E & Hne)]; [contradiction|]. rewrite E.
    destruct (skey_case c' i c id) as [(E' & -> & ->)|(E' & Hne')]; [contradiction|]. rewrite E'. auto.
Qed.

Lemma stale_run dbg c id es : forall st,
  mc_inv st -> stale st c id -> run_fresh dbg st es = true -> forallb (ev_keeps c id) es = true ->
  stale (run dbg st es) c id.
Proof.
  induction es as [|[c' o] r IH]; intros st Hinv Hs Hc Hk; cbn [run run_fresh forallb] in *.
  - exact Hs.
  - apply andb_true_iff in Hc. destruct Hc as [Hc1 Hc2].
    apply andb_true_iff in Hk. destruct Hk as [Hk1 Hk2].
    apply IH; [apply step_inv; assumption| |exact Hc2|exact Hk2].
    eapply stale_step; [exact Hinv|exact Hs|exact Hk1|apply step_sound].
Qed.

Lemma no_silent_merge dbg st a c id m sc st1 es m' :
  mc_inv st -> a <> c -> sget st c id = Some sc ->
  step_fresh st a (Commit id m) = true -> step dbg st a (Commit id m) = (st1, Ok tt) ->
  run_fresh dbg st1 es = true -> forallb (ev_keeps c id) es = true ->
  step dbg (run dbg st1 es) c (Commit id m') = (run dbg st1 es, Err).
Proof.
  intros Hinv Hac Esc Hfresh Hstep Hrc Hkeep.
  assert (Hinv1 : mc_inv st1).
  { pose proof (step_inv dbg st a (Commit id m) Hinv Hfresh) as H. rewrite Hstep in H. exact H. }
  apply stale_commit_err; [apply run_inv; assumption|].
  apply stale_run; try assumption.
  exact (commit_makes_stale dbg st a c id m sc st1 Hinv Hac Esc Hstep).
Qed.

(** * Concrete interleavings: the repaired classes and non-vacuity *)

Definition wit_id : bytes := b "o".
(** A (client 0) creates the object with two versions and stages a third *)
Definition wit_base : list event :=
  [ (0, New wit_id 0 0); (0, Stage wit_id (b "a.txt", Some 1)); (0, Commit wit_id 1);
    (0, Stage wit_id (b "b.txt", Some 2)); (0, Commit wit_id 2);
    (0, Stage wit_id (b "c.txt", Some 3)) ].
(** B (client 1) purges the object and creates it again with the same files: padding width [w],
    configuration [k], metadata [m1], [m2] *)
Definition wit_recreate (w k m1 m2 : N) : list event :=
  [ (1, Purge wit_id); (1, New wit_id w k); (1, Stage wit_id (b "a.txt", Some 1)); (1, Commit wit_id m1);
    (1, Stage wit_id (b "b.txt", Some 2)); (1, Commit wit_id m2) ].

(** the formerly known class recreated-lineage (fix e1679ed): same states, head numbers match,
    metadata of the re-created versions fresh - A's commit is refused, nothing changes *)
Lemma recreated_lineage_now_refused :
  let es := wit_base ++ wit_recreate 0 0 3 4 in
  run_fresh true mc_init es = true /\
  step true (run true mc_init es) 0 (Commit wit_id 5) = (run true mc_init es, Err).
Proof. cbv zeta. split; vm_compute; reflexivity. Qed.

(** identical metadata AND states on the re-created lineage: accepted - the two histories are
    indistinguishable, the object's earlier versions are what they were *)
Lemma recreated_same_history_accepted :
  let st := run true mc_init (wit_base ++ wit_recreate 0 0 1 2) in
  run_fresh true mc_init (wit_base ++ wit_recreate 0 0 1 2) = false /\
  snd (step true st 0 (Commit wit_id 5)) = Ok tt /\
  exists o o1, mget st wit_id = Some o /\ mget (fst (step true st 0 (Commit wit_id 5))) wit_id = Some o1 /\
    o_versions o1 = o_versions o ++ [(5, [(b "c.txt", 3); (b "b.txt", 2); (b "a.txt", 1)])] /\
    o_head o1 = mkV 3 0 /\ o_cfg o1 = o_cfg o.
Proof.
  cbv zeta. split; [vm_compute; reflexivity|]. split; [vm_compute; reflexivity|].
  eexists. eexists. split; [vm_compute; reflexivity|]. split; [vm_compute; reflexivity|].
  split; [vm_compute; reflexivity|]. split; vm_compute; reflexivity.
Qed.

(** ... but not with another padding width, digest algorithm or content directory (fix 5c18ef1) *)
Lemma recreated_same_history_other_config_refused :
  (let st := run true mc_init (wit_base ++ wit_recreate 2 0 1 2) in
   step true st 0 (Commit wit_id 5) = (st, Err)) /\
  (let st := run true mc_init (wit_base ++ wit_recreate 0 1 1 2) in
   step true st 0 (Commit wit_id 5) = (st, Err)).
Proof. cbv zeta. split; vm_compute; reflexivity. Qed.

(** two clients clone v1, both stage a change, both commit: in either order exactly the first wins *)
Definition race_prefix : list event :=
  [ (0, New wit_id 0 0); (0, Stage wit_id (b "a.txt", Some 1)); (0, Commit wit_id 1);
    (0, Stage wit_id (b "x.txt", Some 2)); (1, Stage wit_id (b "y.txt", Some 3)) ].

Lemma race_exactly_one_wins :
  let st := run true mc_init race_prefix in
  run_fresh true mc_init (race_prefix ++ [(0, Commit wit_id 2); (1, Commit wit_id 3)]) = true /\
  run_fresh true mc_init (race_prefix ++ [(1, Commit wit_id 2); (0, Commit wit_id 3)]) = true /\
  run_results true st [(0, Commit wit_id 2); (1, Commit wit_id 3)] = [Ok tt; Err] /\
  run_results true st [(1, Commit wit_id 2); (0, Commit wit_id 3)] = [Ok tt; Err] /\
  (exists o, mget (run true st [(0, Commit wit_id 2); (1, Commit wit_id 3)]) wit_id = Some o /\
             vn_number (o_head o) = 2 /\ List.length (o_versions o) = 2%nat) /\
  (exists s, sget (run true st [(0, Commit wit_id 2); (1, Commit wit_id 3)]) 1 wit_id = Some s /\
             s_state s = [(b "y.txt", 3); (b "a.txt", 1)]).
Proof.
  cbv zeta.
  split; [vm_compute; reflexivity|]. split; [vm_compute; reflexivity|].
  split; [vm_compute; reflexivity|]. split; [vm_compute; reflexivity|].
  split.
  - eexists. split; [vm_compute; reflexivity|]. split; vm_compute; reflexivity.
  - eexists. split; vm_compute; reflexivity.
Qed.

(** an object created with `-z 2` reaches v9 and then refuses to stage v10; nothing changes *)
Fixpoint n_versions (k : nat) : list event :=
  match k with
  | O => []
  | S k' => n_versions k' ++ [(0, Stage wit_id (b "f.txt", Some (N.of_nat k))); (0, Commit wit_id (N.of_nat k))]
  end.
Definition width2_run : list event := (0, New wit_id 2 0) :: n_versions 9.

Lemma width2_refuses_v10 :
  let st := run true mc_init width2_run in
  run_fresh true mc_init width2_run = true /\
  (exists o, mget st wit_id = Some o /\ o_head o = mkV 9 2 /\ List.length (o_versions o) = 9%nat) /\
  step true st 1 (Stage wit_id (b "g.txt", Some 77)) = (st, Err) /\
  step false st 1 (Stage wit_id (b "g.txt", Some 77)) = (st, Err).
Proof.
  cbv zeta.
  split; [vm_compute; reflexivity|].
  split; [eexists; split; [vm_compute; reflexivity|split; vm_compute; reflexivity]|].
  split; vm_compute; reflexivity.
Qed.

(** the hypotheses of the commit theorems are met by a concrete state *)
Lemma commit_nonvacuous :
  let st := run true mc_init race_prefix in
  mc_inv st /\ (exists s, sget st 1 wit_id = Some s /\ vn_number (s_head s) <> 1) /\
  step_fresh st 1 (Commit wit_id 9) = true /\
  snd (step true st 1 (Commit wit_id 9)) = Ok tt.
Proof.
  cbv zeta.
  split; [apply reachable_inv; vm_compute; reflexivity|].
  split; [eexists; split; [vm_compute; reflexivity|vm_compute; discriminate]|].
  split; vm_compute; reflexivity.
Qed.
