(** Lemmas about the multi-client model (Model/MultiClient.v): invariant of the
    reachable states, append-only version lists per lineage, refusal of stale
    commits, exactness of the known class [c14_recreated_lineage]. *)
From Rocfl Require Import Base.Bytes Model.VersionNum Model.MultiClient Model.KnownC14
  Proofs.BytesFacts Proofs.VersionNumFacts.
From Coq Require Import ZArith Lia ZifyBool ZifyN ZifyNat.
Ltac Zify.zify_post_hook ::= Z.div_mod_to_equations.

Arguments N.add : simpl never.
Arguments N.mul : simpl never.
Arguments N.sub : simpl never.
Arguments N.pow : simpl never.
Arguments N.ltb : simpl never.
Arguments N.leb : simpl never.
Arguments N.eqb : simpl never.

(** * Association lists *)
Section AMapFacts.
  Variables K V : Type.
  Variable eqb : K -> K -> bool.
  Hypothesis eqb_eq : forall a c, eqb a c = true <-> a = c.

  Lemma aget_adel k k' (m : list (K * V)) :
    aget eqb k' (adel eqb k m) = if eqb k' k then None else aget eqb k' m.
  Proof.
    induction m as [|[k1 v] r IH]; cbn [aget adel].
    - destruct (eqb k' k); reflexivity.
    - destruct (eqb k k1) eqn:E1.
      + apply eqb_eq in E1. subst k1. rewrite IH. destruct (eqb k' k); reflexivity.
      + cbn [aget]. rewrite IH.
        destruct (eqb k' k1) eqn:E2, (eqb k' k) eqn:E3; try reflexivity.
        apply eqb_eq in E2. apply eqb_eq in E3. subst.
        assert (Hkk : eqb k1 k1 = true) by (apply eqb_eq; reflexivity). congruence.
  Qed.

  Lemma aget_aput k k' v (m : list (K * V)) :
    aget eqb k' (aput eqb k v m) = if eqb k' k then Some v else aget eqb k' m.
  Proof.
    unfold aput. cbn [aget]. rewrite aget_adel. destruct (eqb k' k); reflexivity.
  Qed.
End AMapFacts.

Lemma skey_eqb_eq a c : skey_eqb a c = true <-> a = c.
Proof.
  destruct a as [a1 a2], c as [c1 c2]. unfold skey_eqb. cbn [fst snd].
  rewrite andb_true_iff, N.eqb_eq, bytes_eqb_eq. split.
  - intros [-> ->]. reflexivity.
  - intros [= -> ->]. split; reflexivity.
Qed.

Lemma bytes_eqb_false x y : bytes_eqb x y = false <-> x <> y.
Proof.
  split.
  - intros H E. apply bytes_eqb_eq in E. congruence.
  - intros H. destruct (bytes_eqb x y) eqn:E; [|reflexivity]. apply bytes_eqb_eq in E. contradiction.
Qed.

Lemma skey_eqb_false a c : skey_eqb a c = false <-> a <> c.
Proof.
  split.
  - intros H E. apply skey_eqb_eq in E. congruence.
  - intros H. destruct (skey_eqb a c) eqn:E; [|reflexivity]. apply skey_eqb_eq in E. contradiction.
Qed.

Lemma skey_eqb_refl a : skey_eqb a a = true.
Proof. apply skey_eqb_eq. reflexivity. Qed.

(** * Reading the states the operations build *)
Lemma mget_set_stag st c id s id' : mget (set_stag st c id s) id' = mget st id'.
Proof. reflexivity. Qed.
Lemma next_set_stag st c id s : mc_next (set_stag st c id s) = mc_next st.
Proof. reflexivity. Qed.
Lemma sget_set_stag st c id s c' id' :
  sget (set_stag st c id s) c' id' = if skey_eqb (c', id') (c, id) then Some s else sget st c' id'.
Proof. unfold sget, set_stag. cbn [mc_stag]. apply aget_aput. exact skey_eqb_eq. Qed.

Lemma mget_del_stag st c id id' : mget (del_stag st c id) id' = mget st id'.
Proof. reflexivity. Qed.
Lemma next_del_stag st c id : mc_next (del_stag st c id) = mc_next st.
Proof. reflexivity. Qed.
Lemma sget_del_stag st c id c' id' :
  sget (del_stag st c id) c' id' = if skey_eqb (c', id') (c, id) then None else sget st c' id'.
Proof. unfold sget, del_stag. cbn [mc_stag]. apply aget_adel. exact skey_eqb_eq. Qed.

Lemma mget_install st c id o n id' :
  mget (install st c id o n) id' = if bytes_eqb id' id then Some o else mget st id'.
Proof. unfold mget, install. cbn [mc_main]. apply aget_aput. exact bytes_eqb_eq. Qed.
Lemma next_install st c id o n : mc_next (install st c id o n) = n.
Proof. reflexivity. Qed.
Lemma sget_install st c id o n c' id' :
  sget (install st c id o n) c' id' = if skey_eqb (c', id') (c, id) then None else sget st c' id'.
Proof. unfold sget, install. cbn [mc_stag]. apply aget_adel. exact skey_eqb_eq. Qed.

Lemma mget_purge_st st c id id' :
  mget (purge_st st c id) id' = if bytes_eqb id' id then None else mget st id'.
Proof. unfold mget, purge_st. cbn [mc_main]. apply aget_adel. exact bytes_eqb_eq. Qed.
Lemma next_purge_st st c id : mc_next (purge_st st c id) = mc_next st.
Proof. reflexivity. Qed.
Lemma sget_purge_st st c id c' id' :
  sget (purge_st st c id) c' id' = if skey_eqb (c', id') (c, id) then None else sget st c' id'.
Proof. unfold sget, purge_st. cbn [mc_stag]. apply aget_adel. exact skey_eqb_eq. Qed.

Local Opaque mget sget set_stag del_stag install purge_st.

Ltac getsimp :=
  repeat (rewrite ?mget_set_stag, ?next_set_stag, ?sget_set_stag, ?mget_del_stag, ?next_del_stag,
                  ?sget_del_stag, ?mget_install, ?next_install, ?sget_install, ?mget_purge_st,
                  ?next_purge_st, ?sget_purge_st in * ).

(** * The operations as a relation (one constructor per successful branch) *)
Inductive step_rel (dbg : bool) (st : mc) (c : N) : op -> mc -> res unit -> Prop :=
| SR_fail o r : r <> Ok tt -> step_rel dbg st c o st r
| SR_new id w :
    mget st id = None -> sget st c id = None ->
    step_rel dbg st c (New id w) (set_stag st c id (mkStg None (v1_stored w) [] [] [])) (Ok tt)
| SR_stage_old id e s :
    sget st c id = Some s ->
    step_rel dbg st c (Stage id e)
      (set_stag st c id (mkStg (s_base s) (s_head s) (s_versions s) (apply_edit e (s_state s)) (s_edits s ++ [e])))
      (Ok tt)
| SR_stage_clone id e o h :
    sget st c id = None -> mget st id = Some o -> vnext dbg (o_head o) = Ok h ->
    step_rel dbg st c (Stage id e)
      (set_stag st c id (mkStg (Some (o_lineage o)) h (o_versions o) (apply_edit e (last_state (o_versions o))) [e]))
      (Ok tt)
| SR_commit_new id s :
    sget st c id = Some s -> vn_number (s_head s) = 1 -> mget st id = None ->
    step_rel dbg st c (Commit id)
      (install st c id (mkObj (mc_next st) (s_head s) (s_versions s ++ [s_state s])) (mc_next st + 1)) (Ok tt)
| SR_commit_ver id s o p :
    sget st c id = Some s -> vn_number (s_head s) <> 1 -> mget st id = Some o ->
    vprev dbg (s_head s) = Ok p -> vn_number (o_head o) = vn_number p ->
    step_rel dbg st c (Commit id)
      (install st c id (mkObj (o_lineage o) (s_head s) (s_versions s ++ [s_state s])) (mc_next st)) (Ok tt)
| SR_reset id : step_rel dbg st c (ResetAll id) (del_stag st c id) (Ok tt)
| SR_purge id : step_rel dbg st c (Purge id) (purge_st st c id) (Ok tt).

Lemma step_sound dbg st c o : step_rel dbg st c o (fst (step dbg st c o)) (snd (step dbg st c o)).
Proof.
  destruct o as [id w|id e|id|id|id]; cbn [step].
  - destruct (mget st id) eqn:Em; cbn [fst snd]; [apply SR_fail; discriminate|].
    destruct (sget st c id) eqn:Es; cbn [fst snd]; [apply SR_fail; discriminate|].
    apply SR_new; assumption.
  - destruct (sget st c id) as [s|] eqn:Es; cbn [fst snd]; [apply SR_stage_old; assumption|].
    destruct (mget st id) as [o|] eqn:Em; cbn [fst snd]; [|apply SR_fail; discriminate].
    destruct (vnext dbg (o_head o)) as [h| |] eqn:En; cbn [fst snd]; try (apply SR_fail; discriminate).
    apply SR_stage_clone; assumption.
  - destruct (sget st c id) as [s|] eqn:Es; cbn [fst snd]; [|apply SR_fail; discriminate].
    destruct (vn_number (s_head s) =? 1) eqn:E1.
    + destruct (mget st id) as [o|] eqn:Em; cbn [fst snd]; [apply SR_fail; discriminate|].
      apply SR_commit_new; [assumption|lia|assumption].
    + destruct (mget st id) as [o|] eqn:Em; cbn [fst snd]; [|apply SR_fail; discriminate].
      destruct (vprev dbg (s_head s)) as [p| |] eqn:Ep; cbn [fst snd]; try (apply SR_fail; discriminate).
      destruct (vn_number (o_head o) =? vn_number p) eqn:E2; cbn [fst snd]; [|apply SR_fail; discriminate].
      eapply SR_commit_ver; try eassumption; lia.
  - apply SR_reset.
  - apply SR_purge.
Qed.

(** * Invariant of the states reachable outside the known classes *)

Definition obj_ok (next : N) (o : obj) : Prop :=
  o_lineage o < next /\ vnumok (o_head o) = true /\ vfits (o_head o) = true /\
  vn_number (o_head o) = N.of_nat (List.length (o_versions o)).

Definition stg_ok (st : mc) (id : bytes) (s : staged) : Prop :=
  vnumok (s_head s) = true /\ vfits (s_head s) = true /\
  vn_number (s_head s) = N.of_nat (List.length (s_versions s)) + 1 /\
  s_state s = apply_edits (s_edits s) (last_state (s_versions s)) /\
  match s_base s with
  | None => s_versions s = []
  | Some l =>
      l < mc_next st /\ s_versions s <> [] /\
      forall o, mget st id = Some o -> o_lineage o = l ->
        extends (s_versions s) (o_versions o) /\ vn_width (o_head o) = vn_width (s_head s)
  end.

Definition mc_inv (st : mc) : Prop :=
  (forall id o, mget st id = Some o -> obj_ok (mc_next st) o) /\
  (forall c id s, sget st c id = Some s -> stg_ok st id s).

Lemma mc_inv_init : mc_inv mc_init.
Proof. split; intros; discriminate. Qed.

Lemma v1_stored_ok w :
  vnumok (v1_stored w) = true /\ vfits (v1_stored w) = true /\ vn_number (v1_stored w) = 1.
Proof.
  unfold v1_stored. destruct (w =? 1) eqn:E1; [repeat split; reflexivity|].
  cbn [vn_number]. split; [reflexivity|]. split; [|reflexivity].
  unfold vfits, max_for_width. cbn [vn_number vn_width].
  destruct (w =? 0) eqn:E0; [reflexivity|]. destruct (w <=? 10) eqn:E10; [|reflexivity].
  assert (Hp : 10 ^ 1 <= 10 ^ (w - 1)) by (apply N.pow_le_mono_r; lia).
  change (10 ^ 1) with 10 in Hp. lia.
Qed.

(** what every later command reads back from the staged inventory.json, for every u32 width *)
Lemma v1_stored_reparse w : w <= U32MAX -> vparse (vdisplay (mkV 1 w)) = Ok (v1_stored w).
Proof.
  intros H. unfold v1_stored. destruct (w =? 1) eqn:E1.
  - assert (w = 1) by lia. subst w. vm_compute. reflexivity.
  - apply vparse_vdisplay.
    + unfold vwf. cbn [vn_number vn_width]. unfold U32MAX in *. lia.
    + pose proof (v1_stored_ok w) as (_ & Hf & _). unfold v1_stored in Hf. rewrite E1 in Hf. exact Hf.
Qed.

Lemma apply_edits_snoc es e s : apply_edits (es ++ [e]) s = apply_edit e (apply_edits es s).
Proof. unfold apply_edits. rewrite fold_left_app. reflexivity. Qed.

Lemma extends_refl l : extends l l.
Proof. exists []. rewrite app_nil_r. reflexivity. Qed.

Lemma extends_same_length l l' : extends l l' -> List.length l' = List.length l -> l' = l.
Proof.
  intros [tl ->] H. rewrite app_length in H. destruct tl; [apply app_nil_r|cbn [List.length] in H; lia].
Qed.

Lemma extends_snoc l l' x : extends l l' -> extends l (l' ++ [x]).
Proof. intros [tl ->]. exists (tl ++ [x]). rewrite app_assoc. reflexivity. Qed.

Lemma skey_case c id c' id' :
  (skey_eqb (c', id') (c, id) = true /\ c' = c /\ id' = id) \/
  (skey_eqb (c', id') (c, id) = false /\ (c' <> c \/ id' <> id)).
Proof.
  destruct (skey_eqb (c', id') (c, id)) eqn:E.
  - left. apply skey_eqb_eq in E. injection E as -> ->. auto.
  - right. split; [reflexivity|]. apply skey_eqb_false in E.
    destruct (N.eq_dec c' c) as [->|Hc]; [|auto]. right. intros ->. apply E. reflexivity.
Qed.

Lemma bytes_case id id' :
  (bytes_eqb id' id = true /\ id' = id) \/ (bytes_eqb id' id = false /\ id' <> id).
Proof.
  destruct (bytes_eqb id' id) eqn:E.
  - left. apply bytes_eqb_eq in E. auto.
  - right. apply bytes_eqb_false in E. auto.
Qed.

(** the staged-entry invariant only looks at [mget st id] and [mc_next st] *)
Lemma stg_ok_transfer st st' id s :
  stg_ok st id s -> mc_next st <= mc_next st' ->
  (forall o', mget st' id = Some o' ->
     forall l, s_base s = Some l -> o_lineage o' = l ->
     extends (s_versions s) (o_versions o') /\ vn_width (o_head o') = vn_width (s_head s)) ->
  stg_ok st' id s.
Proof.
  intros (H1 & H2 & H4 & H5 & H6) Hn Hm. repeat split; try assumption.
  destruct (s_base s) as [l|] eqn:Eb; [|assumption].
  destruct H6 as (Hl & Hne & _).
  split; [lia|]. split; [exact Hne|].
  intros o Hg Hlin. exact (Hm o Hg l eq_refl Hlin).
Qed.

Lemma stg_ok_same st st' id s :
  stg_ok st id s -> mc_next st' = mc_next st -> mget st' id = mget st id -> stg_ok st' id s.
Proof. unfold stg_ok. intros H Hn Hm. rewrite Hn, Hm. exact H. Qed.

Lemma obj_ok_mono n n' o : obj_ok n o -> n <= n' -> obj_ok n' o.
Proof. unfold obj_ok. intros (H1 & H2) Hn. split; [lia|assumption]. Qed.

(** What a successful, not-known commit of a new VERSION knows about its base:
    the staged copy was cloned from exactly the object that is in the main
    repository now. *)
Lemma commit_ver_facts dbg st c id s o p :
  mc_inv st -> sget st c id = Some s -> vn_number (s_head s) <> 1 -> mget st id = Some o ->
  vprev dbg (s_head s) = Ok p -> vn_number (o_head o) = vn_number p ->
  c14_recreated_lineage st c id = false ->
  s_base s = Some (o_lineage o) /\ s_versions s = o_versions o /\
  s_head s = mkV (vn_number (o_head o) + 1) (vn_width (o_head o)) /\
  s_state s = apply_edits (s_edits s) (last_state (o_versions o)).
Proof.
  intros [Hmain Hstag] Es Hn1 Em Ep Hnum Hk.
  destruct (Hstag _ _ _ Es) as (Swf & Sfit & Snum & Sstate & Sbase).
  destruct (Hmain _ _ Em) as (Olin & Owf & Ofit & Onum).
  rewrite vprev_correct in Ep by assumption.
  assert (Hn1' : (vn_number (s_head s) =? 1) = false) by lia. rewrite Hn1' in Ep.
  injection Ep as <-. cbn [vn_number] in Hnum.
  assert (Hge : 1 <= vn_number (s_head s)) by (unfold vnumok in Swf; lia).
  unfold c14_recreated_lineage in Hk. rewrite Es, Em, Hn1' in Hk. cbn [negb andb] in Hk.
  replace (vn_number (o_head o) + 1 =? vn_number (s_head s)) with true in Hk by lia.
  rewrite andb_true_r in Hk.
  destruct (s_base s) as [l|] eqn:Eb; [|discriminate].
  assert (l = o_lineage o) by lia. subst l.
  destruct Sbase as (_ & _ & Hb). destruct (Hb _ Em eq_refl) as (Hext & Hw).
  assert (Hv : o_versions o = s_versions s) by (apply extends_same_length; [assumption|lia]).
  repeat split.
  - symmetry. exact Hv.
  - destruct (s_head s) as [n w]. cbn [vn_number vn_width] in *. f_equal; lia.
  - rewrite Hv. exact Sstate.
Qed.

Lemma step_rel_inv dbg st c o st' r :
  mc_inv st -> step_clean st c o = true -> step_rel dbg st c o st' r -> mc_inv st'.
Proof.
  intros Hinv Hclean Hstep. pose proof Hinv as [Hmain Hstag].
  pose proof Hclean as Hkn. unfold step_clean in Hkn. apply negb_true_iff in Hkn.
  destruct Hstep as [o r Hr|id w Em Es|id e s Es|id e ob h Es Em En|id s Es H1 Em|id s ob p Es H1 Em Ep Hnum|id|id].
  - exact Hinv.
  - (* New *)
    split.
    + intros id' o' Hg. getsimp. eapply Hmain; exact Hg.
    + intros c' id' s' Hg. getsimp.
      destruct (skey_case c id c' id') as [(E & -> & ->)|(E & Hne)]; rewrite E in Hg.
      * injection Hg as <-. destruct (v1_stored_ok w) as (A1 & A2 & A4).
        unfold stg_ok. cbn [s_head s_versions s_state s_edits s_base List.length].
        repeat split; try assumption; try lia; try reflexivity.
      * apply stg_ok_same with (st := st); [apply Hstag with (c := c'); exact Hg|reflexivity|reflexivity].
  - (* Stage, existing staged copy *)
    split.
    + intros id' o' Hg. getsimp. eapply Hmain; exact Hg.
    + intros c' id' s' Hg. getsimp.
      destruct (skey_case c id c' id') as [(E & -> & ->)|(E & Hne)]; rewrite E in Hg.
      * injection Hg as <-. destruct (Hstag _ _ _ Es) as (A1 & A2 & A4 & A5 & A6).
        unfold stg_ok. cbn [s_head s_versions s_state s_edits s_base].
        repeat split; try assumption.
        rewrite apply_edits_snoc, <- A5. reflexivity.
      * apply stg_ok_same with (st := st); [apply Hstag with (c := c'); exact Hg|reflexivity|reflexivity].
  - (* Stage, clone from main *)
    destruct (Hmain _ _ Em) as (Olin & Owf & Ofit & Onum).
    destruct (vnext_ok_plus_one _ _ _ Owf En) as (Nn & Nw & Nfit & Nwf).
    split.
    + intros id' o' Hg. getsimp. eapply Hmain; exact Hg.
    + intros c' id' s' Hg. getsimp.
      destruct (skey_case c id c' id') as [(E & -> & ->)|(E & Hne)]; rewrite E in Hg.
      * injection Hg as <-.
        unfold stg_ok. cbn [s_head s_versions s_state s_edits s_base].
        split; [exact Nwf|]. split; [exact Nfit|]. split; [lia|]. split; [reflexivity|].
        split; [exact Olin|]. split.
        -- intros E0. rewrite E0 in Onum. cbn [List.length] in Onum. unfold vnumok in Owf. lia.
        -- intros o2 Hg2 _. getsimp. rewrite Em in Hg2. injection Hg2 as <-.
           split; [apply extends_refl|symmetry; exact Nw].
      * apply stg_ok_same with (st := st); [apply Hstag with (c := c'); exact Hg|reflexivity|reflexivity].
  - (* Commit, new object *)
    destruct (Hstag _ _ _ Es) as (Swf & Sfit & Snum & Sstate & Sbase).
    split.
    + intros id' o' Hg. getsimp.
      destruct (bytes_case id id') as [(E & ->)|(E & Hne)]; rewrite E in Hg.
      * injection Hg as <-. unfold obj_ok. cbn [o_lineage o_head o_versions].
        rewrite app_length. cbn [List.length]. repeat split; try assumption; lia.
      * apply obj_ok_mono with (n := mc_next st); [apply Hmain with (id := id'); exact Hg|lia].
    + intros c' id' s' Hg. getsimp.
      destruct (skey_case c id c' id') as [(E & -> & ->)|(E & Hne)]; rewrite E in Hg; [discriminate|].
      pose proof (Hstag _ _ _ Hg) as Hold.
      apply stg_ok_transfer with (st := st); [exact Hold|getsimp; lia|].
      intros o' Hg' l Hb Hl. getsimp.
      destruct Hold as (_ & _ & _ & _ & B). rewrite Hb in B. destruct B as (Bl & _ & Bf).
      destruct (bytes_case id id') as [(E' & ->)|(E' & Hne')]; rewrite E' in Hg'.
      * injection Hg' as <-. cbn [o_lineage] in Hl. lia.
      * apply Bf; assumption.
  - (* Commit, new version *)
    cbn [step_known] in Hkn.
    destruct (commit_ver_facts _ _ _ _ _ _ _ Hinv Es H1 Em Ep Hnum Hkn) as (Fb & Fv & Fh & Fs).
    destruct (Hstag _ _ _ Es) as (Swf & Sfit & Snum & Sstate & Sbase).
    destruct (Hmain _ _ Em) as (Olin & Owf & Ofit & Onum).
    split.
    + intros id' o' Hg. getsimp.
      destruct (bytes_case id id') as [(E & ->)|(E & Hne)]; rewrite E in Hg.
      * injection Hg as <-. unfold obj_ok. cbn [o_lineage o_head o_versions].
        rewrite app_length. cbn [List.length]. repeat split; try assumption; lia.
      * apply Hmain with (id := id'). exact Hg.
    + intros c' id' s' Hg. getsimp.
      destruct (skey_case c id c' id') as [(E & -> & ->)|(E & Hne)]; rewrite E in Hg; [discriminate|].
      pose proof (Hstag _ _ _ Hg) as Hold.
      apply stg_ok_transfer with (st := st); [exact Hold|getsimp; lia|].
      intros o' Hg' l Hb Hl. getsimp.
      destruct Hold as (_ & _ & _ & _ & B). rewrite Hb in B. destruct B as (Bl & _ & Bf).
      destruct (bytes_case id id') as [(E' & ->)|(E' & Hne')]; rewrite E' in Hg'.
      * injection Hg' as <-. cbn [o_lineage o_head o_versions] in *.
        destruct (Bf _ Em Hl) as (Bext & Bw). split.
        -- rewrite Fv. apply extends_snoc. exact Bext.
        -- rewrite Fh. cbn [vn_width]. exact Bw.
      * apply Bf; assumption.
  - (* ResetAll *)
    split.
    + intros id' o' Hg. getsimp. eapply Hmain; exact Hg.
    + intros c' id' s' Hg. getsimp.
      destruct (skey_case c id c' id') as [(E & -> & ->)|(E & Hne)]; rewrite E in Hg; [discriminate|].
      apply stg_ok_same with (st := st); [apply Hstag with (c := c'); exact Hg|reflexivity|reflexivity].
  - (* Purge *)
    split.
    + intros id' o' Hg. getsimp.
      destruct (bytes_case id id') as [(E & ->)|(E & Hne)]; rewrite E in Hg; [discriminate|].
      apply Hmain with (id := id'). exact Hg.
    + intros c' id' s' Hg. getsimp.
      destruct (skey_case c id c' id') as [(E & -> & ->)|(E & Hne)]; rewrite E in Hg; [discriminate|].
      pose proof (Hstag _ _ _ Hg) as Hold.
      apply stg_ok_transfer with (st := st); [exact Hold|getsimp; lia|].
      intros o' Hg' l Hb Hl. getsimp.
      destruct Hold as (_ & _ & _ & _ & B). rewrite Hb in B. destruct B as (Bl & _ & Bf).
      destruct (bytes_case id id') as [(E' & ->)|(E' & Hne')]; rewrite E' in Hg'; [discriminate|].
      apply Bf; assumption.
Qed.

Lemma step_inv dbg st c o :
  mc_inv st -> step_clean st c o = true -> mc_inv (fst (step dbg st c o)).
Proof. intros Hinv Hc. eapply step_rel_inv; [exact Hinv|exact Hc|apply step_sound]. Qed.

Lemma run_inv dbg es : forall st,
  mc_inv st -> run_clean dbg st es = true -> mc_inv (run dbg st es).
Proof.
  induction es as [|[c o] r IH]; intros st Hinv Hc; cbn [run run_clean] in *.
  - exact Hinv.
  - apply andb_true_iff in Hc. destruct Hc as [Hc1 Hc2].
    apply IH; [apply step_inv; assumption|exact Hc2].
Qed.

(** every refused (or aborted) operation leaves the whole system - the main
    repository and every staging root - exactly as it was *)
Lemma step_refused_unchanged dbg st c o :
  snd (step dbg st c o) <> Ok tt -> fst (step dbg st c o) = st.
Proof.
  intros H. destruct (step_sound dbg st c o); try reflexivity; exfalso; apply H; reflexivity.
Qed.

(** * One step, read backwards: where does an object of the new state come from? *)
Definition grows_from (o o1 : obj) : Prop :=
  o_lineage o1 = o_lineage o /\
  exists tl, o_versions o1 = o_versions o ++ tl /\ (List.length tl <= 1)%nat /\
             vn_number (o_head o1) = vn_number (o_head o) + N.of_nat (List.length tl) /\
             vn_width (o_head o1) = vn_width (o_head o).

Lemma grows_from_refl o : grows_from o o.
Proof.
  split; [reflexivity|]. exists []. rewrite app_nil_r. cbn [List.length]. repeat split; lia.
Qed.

Lemma step_rel_back dbg st c o st' r :
  mc_inv st -> step_clean st c o = true -> step_rel dbg st c o st' r ->
  mc_next st <= mc_next st' /\
  forall id o1, mget st' id = Some o1 ->
    (exists o0, mget st id = Some o0 /\ grows_from o0 o1) \/ mc_next st <= o_lineage o1.
Proof.
  intros Hinv Hclean Hstep.
  pose proof Hclean as Hkn. unfold step_clean in Hkn. apply negb_true_iff in Hkn.
  destruct Hstep as [o r Hr|id w Em Es|id e s Es|id e ob h Es Em En|id s Es H1 Em|id s ob p Es H1 Em Ep Hnum|id|id];
    getsimp.
  1-4,7: split; [lia|]; intros id' o1 Hg; getsimp; left; exists o1; split; [exact Hg|apply grows_from_refl].
  - split; [lia|]. intros id' o1 Hg. getsimp.
    destruct (bytes_case id id') as [(E & ->)|(E & Hne)]; rewrite E in Hg.
    + injection Hg as <-. right. cbn [o_lineage]. lia.
    + left. exists o1. split; [exact Hg|apply grows_from_refl].
  - split; [lia|]. intros id' o1 Hg. getsimp.
    cbn [step_known] in Hkn.
    destruct (commit_ver_facts _ _ _ _ _ _ _ Hinv Es H1 Em Ep Hnum Hkn) as (Fb & Fv & Fh & Fs).
    destruct (bytes_case id id') as [(E & ->)|(E & Hne)]; rewrite E in Hg.
    + injection Hg as <-. left. exists ob. split; [exact Em|].
      split; [reflexivity|]. exists [s_state s]. cbn [o_versions o_head List.length].
      rewrite Fv, Fh. cbn [vn_number vn_width]. repeat split; lia.
    + left. exists o1. split; [exact Hg|apply grows_from_refl].
  - split; [lia|]. intros id' o1 Hg. getsimp.
    destruct (bytes_case id id') as [(E & ->)|(E & Hne)]; rewrite E in Hg; [discriminate|].
    left. exists o1. split; [exact Hg|apply grows_from_refl].
Qed.

(** * Runs: the version list of a lineage only ever grows at its end *)
Definition extends_obj (o o1 : obj) : Prop :=
  o_lineage o1 = o_lineage o /\
  exists tl, o_versions o1 = o_versions o ++ tl /\
             vn_number (o_head o1) = vn_number (o_head o) + N.of_nat (List.length tl) /\
             vn_width (o_head o1) = vn_width (o_head o).

Lemma run_back dbg es : forall st,
  mc_inv st -> run_clean dbg st es = true ->
  mc_next st <= mc_next (run dbg st es) /\
  forall id o1, mget (run dbg st es) id = Some o1 ->
    (exists o0, mget st id = Some o0 /\ extends_obj o0 o1) \/ mc_next st <= o_lineage o1.
Proof.
  induction es as [|[c o] r IH]; intros st Hinv Hc; cbn [run run_clean] in *.
  - split; [lia|]. intros id o1 Hg. left. exists o1. split; [exact Hg|].
    split; [reflexivity|]. exists []. rewrite app_nil_r. cbn [List.length]. split; [reflexivity|split; lia].
  - apply andb_true_iff in Hc. destruct Hc as [Hc1 Hc2].
    destruct (step_rel_back dbg st c o _ _ Hinv Hc1 (step_sound dbg st c o)) as [Hn1 Hb1].
    destruct (IH _ (step_inv dbg st c o Hinv Hc1) Hc2) as [Hn2 Hb2].
    split; [lia|]. intros id o2 Hg.
    destruct (Hb2 _ _ Hg) as [(o1 & Hg1 & Hl & tl2 & Hv2 & Hnum2 & Hw2)|Hfresh]; [|right; lia].
    destruct (Hb1 _ _ Hg1) as [(o0 & Hg0 & Hl1 & tl1 & Hv1 & _ & Hnum1 & Hw1)|Hfresh]; [|right; lia].
    left. exists o0. split; [exact Hg0|]. split; [congruence|].
    exists (tl1 ++ tl2). rewrite Hv2, Hv1, <- app_assoc, app_length. repeat split; [lia|congruence].
Qed.

(** * The statements of the property *)

(** reachable states (no known class on the way) satisfy the invariant: every
    object's head number is the number of its versions, fits its padding width ... *)
Lemma reachable_inv dbg es : run_clean dbg mc_init es = true -> mc_inv (run dbg mc_init es).
Proof. apply run_inv. apply mc_inv_init. Qed.

Lemma reachable_heads dbg es id o :
  run_clean dbg mc_init es = true -> mget (run dbg mc_init es) id = Some o ->
  vn_number (o_head o) = N.of_nat (List.length (o_versions o)) /\ 1 <= vn_number (o_head o) /\
  vfits (o_head o) = true.
Proof.
  intros Hc Hg. destruct (reachable_inv dbg es Hc) as [Hmain _].
  destruct (Hmain _ _ Hg) as (_ & Hwf & Hfit & Hnum). unfold vnumok in Hwf. repeat split; try assumption; lia.
Qed.

Lemma commit_ver_unfold dbg st c id s st' :
  sget st c id = Some s -> vn_number (s_head s) <> 1 -> step dbg st c (Commit id) = (st', Ok tt) ->
  exists o p, mget st id = Some o /\ vprev dbg (s_head s) = Ok p /\ vn_number (o_head o) = vn_number p /\
    st' = install st c id (mkObj (o_lineage o) (s_head s) (s_versions s ++ [s_state s])) (mc_next st).
Proof.
  intros Es H1 Hstep. cbn [step] in Hstep. rewrite Es in Hstep.
  assert (E1 : (vn_number (s_head s) =? 1) = false) by lia. rewrite E1 in Hstep.
  destruct (mget st id) as [o|] eqn:Em; [|discriminate].
  destruct (vprev dbg (s_head s)) as [p| |] eqn:Ep; try discriminate.
  destruct (vn_number (o_head o) =? vn_number p) eqn:E2; [|discriminate].
  injection Hstep as <-. exists o, p. repeat split; try reflexivity. lia.
Qed.

Lemma commit_appends_exactly_next dbg st c id s st' :
  mc_inv st -> sget st c id = Some s -> vn_number (s_head s) <> 1 ->
  c14_recreated_lineage st c id = false ->
  step dbg st c (Commit id) = (st', Ok tt) ->
  exists o, mget st id = Some o /\
    mget st' id = Some (mkObj (o_lineage o) (mkV (vn_number (o_head o) + 1) (vn_width (o_head o)))
                              (o_versions o ++ [s_state s])) /\
    (forall id', id' <> id -> mget st' id' = mget st id') /\
    sget st' c id = None /\
    (forall c' id', (c', id') <> (c, id) -> sget st' c' id' = sget st c' id') /\
    mc_next st' = mc_next st.
Proof.
  intros Hinv Es H1 Hk Hstep.
  destruct (commit_ver_unfold _ _ _ _ _ _ Es H1 Hstep) as (o & p & Em & Ep & Hnum & ->).
  destruct (commit_ver_facts _ _ _ _ _ _ _ Hinv Es H1 Em Ep Hnum Hk) as (Fb & Fv & Fh & Fs).
  exists o. split; [exact Em|]. getsimp. repeat split.
  - rewrite bytes_eqb_refl, Fv, Fh. reflexivity.
  - intros id' Hne. getsimp. apply bytes_eqb_false in Hne. rewrite Hne. reflexivity.
  - rewrite skey_eqb_refl. reflexivity.
  - intros c' id' Hne. getsimp. apply skey_eqb_false in Hne. rewrite Hne. reflexivity.
Qed.

Lemma lineage_known_exact dbg st c id s o st' :
  mc_inv st -> sget st c id = Some s -> vn_number (s_head s) <> 1 -> mget st id = Some o ->
  c14_recreated_lineage st c id = false -> step dbg st c (Commit id) = (st', Ok tt) ->
  s_base s = Some (o_lineage o) /\ s_versions s = o_versions o /\
  s_state s = apply_edits (s_edits s) (last_state (o_versions o)).
Proof.
  intros Hinv Es H1 Em Hk Hstep.
  destruct (commit_ver_unfold _ _ _ _ _ _ Es H1 Hstep) as (o' & p & Em' & Ep & Hnum & _).
  rewrite Em in Em'. injection Em' as <-.
  destruct (commit_ver_facts _ _ _ _ _ _ _ Hinv Es H1 Em Ep Hnum Hk) as (Fb & Fv & Fh & Fs).
  repeat split; assumption.
Qed.

(** the main repository's head is not the staged head - 1 (or the object is gone): refused,
    nothing changes - neither the repository nor the client's staged changes *)
Lemma stale_commit_refused_unchanged dbg st c id s :
  sget st c id = Some s -> vnumok (s_head s) = true -> vn_number (s_head s) <> 1 ->
  (forall o, mget st id = Some o -> vn_number (o_head o) + 1 <> vn_number (s_head s)) ->
  step dbg st c (Commit id) = (st, Err).
Proof.
  intros Es Hwf H1 Hm. cbn [step]. rewrite Es.
  assert (E1 : (vn_number (s_head s) =? 1) = false) by lia. rewrite E1.
  destruct (mget st id) as [o|] eqn:Em; [|reflexivity].
  rewrite vprev_correct by assumption. rewrite E1. cbn [vn_number].
  specialize (Hm o eq_refl). unfold vnumok in Hwf.
  replace (vn_number (o_head o) =? vn_number (s_head s) - 1) with false by lia. reflexivity.
Qed.

Lemma new_object_refused_if_exists dbg st c id o :
  mget st id = Some o ->
  (forall w, step dbg st c (New id w) = (st, Err)) /\
  (forall s, sget st c id = Some s -> vn_number (s_head s) = 1 -> step dbg st c (Commit id) = (st, Err)).
Proof.
  intros Em. split.
  - intros w. cbn [step]. rewrite Em. reflexivity.
  - intros s Es H1. cbn [step]. rewrite Es.
    replace (vn_number (s_head s) =? 1) with true by lia. rewrite Em. reflexivity.
Qed.

Lemma versions_append_only dbg es st id o o1 :
  mc_inv st -> run_clean dbg st es = true ->
  mget st id = Some o -> mget (run dbg st es) id = Some o1 ->
  (o_lineage o1 = o_lineage o -> extends_obj o o1) /\
  (o_lineage o1 <> o_lineage o -> mc_next st <= o_lineage o1).
Proof.
  intros Hinv Hc Hg Hg1. destruct (run_back dbg es st Hinv Hc) as [_ Hb].
  destruct Hinv as [Hmain _]. destruct (Hmain _ _ Hg) as (Hlin & _).
  destruct (Hb _ _ Hg1) as [(o0 & Hg0 & Hext)|Hfresh].
  - rewrite Hg in Hg0. injection Hg0 as <-. split; [intros _; exact Hext|].
    intros Hne. destruct Hext as [Hl _]. contradiction.
  - split; [intros Hl; lia|intros _; exact Hfresh].
Qed.

Lemma stage_refused_at_width_max dbg st c id o e :
  mc_inv st -> sget st c id = None -> mget st id = Some o ->
  max_for_width (vn_width (o_head o)) < vn_number (o_head o) + 1 ->
  step dbg st c (Stage id e) = (st, Err).
Proof.
  intros [Hmain _] Es Em Hmax. destruct (Hmain _ _ Em) as (_ & Hwf & _).
  cbn [step]. rewrite Es, Em. rewrite (vnext_refuses_at_max dbg _ Hwf Hmax). reflexivity.
Qed.

(** no operation ever panics in a reachable state (in particular not [next], at any width) *)
Lemma step_never_panics dbg st c o : mc_inv st -> snd (step dbg st c o) <> Panic.
Proof.
  intros [Hmain Hstag]. destruct o as [id w|id e|id|id|id]; cbn [step].
  - destruct (mget st id); [discriminate|]. destruct (sget st c id); discriminate.
  - destruct (sget st c id) as [s|]; [discriminate|].
    destruct (mget st id) as [o|] eqn:Em; [|discriminate].
    destruct (Hmain _ _ Em) as (_ & Hok & _).
    pose proof (vnext_never_panics dbg _ Hok) as Hp.
    destruct (vnext dbg (o_head o)); [discriminate|discriminate|contradiction].
  - destruct (sget st c id) as [s|] eqn:Es; [|discriminate].
    destruct (Hstag _ _ _ Es) as (Hok & _).
    destruct (vn_number (s_head s) =? 1) eqn:E1.
    + destruct (mget st id); discriminate.
    + destruct (mget st id) as [o|]; [|discriminate].
      rewrite vprev_correct by assumption. rewrite E1.
      destruct (vn_number (o_head o) =? vn_number (mkV (vn_number (s_head s) - 1) (vn_width (s_head s)))); discriminate.
  - discriminate.
  - discriminate.
Qed.

(** * No silent merge *)
Definition stale (st : mc) (c : N) (id : bytes) : Prop :=
  exists s o, sget st c id = Some s /\ mget st id = Some o /\
    (vn_number (s_head s) = 1 \/ s_base s <> Some (o_lineage o) \/
     vn_number (s_head s) <= vn_number (o_head o)).

Lemma stale_commit_err dbg st c id :
  mc_inv st -> stale st c id -> c14_recreated_lineage st c id = false ->
  step dbg st c (Commit id) = (st, Err).
Proof.
  intros [Hmain Hstag] (s & o & Es & Em & Hd) Hk.
  destruct (Hstag _ _ _ Es) as (Swf & _).
  destruct (N.eq_dec (vn_number (s_head s)) 1) as [H1|H1].
  - destruct (new_object_refused_if_exists dbg st c id o Em) as [_ Hc]. apply Hc with (s := s); assumption.
  - apply stale_commit_refused_unchanged with (s := s); try assumption.
    intros o' Em'. rewrite Em in Em'. injection Em' as <-.
    destruct Hd as [Hd|[Hd|Hd]]; [contradiction| |lia].
    unfold c14_recreated_lineage in Hk. rewrite Es, Em in Hk.
    assert (E1 : (vn_number (s_head s) =? 1) = false) by lia. rewrite E1 in Hk. cbn [negb andb] in Hk.
    destruct (s_base s) as [l|] eqn:Eb.
    + assert (Hl : l <> o_lineage o) by (intros ->; apply Hd; reflexivity).
      replace (l =? o_lineage o) with false in Hk by lia. cbn [negb andb] in Hk. lia.
    + cbn [andb] in Hk. lia.
Qed.

Lemma commit_makes_stale dbg st a c id sc st1 :
  mc_inv st -> a <> c -> sget st c id = Some sc ->
  step_clean st a (Commit id) = true -> step dbg st a (Commit id) = (st1, Ok tt) ->
  stale st1 c id.
Proof.
  intros Hinv Hac Esc Hclean Hstep. pose proof Hinv as [Hmain Hstag].
  destruct (Hstag _ _ _ Esc) as (_ & _ & Cnum & _ & Cbase).
  assert (Hne : skey_eqb (c, id) (a, id) = false) by (apply skey_eqb_false; intros [= ->]; apply Hac; reflexivity).
  pose proof Hclean as Hkn. unfold step_clean in Hkn. apply negb_true_iff in Hkn. cbn [step_known] in Hkn.
  cbn [step] in Hstep. destruct (sget st a id) as [s|] eqn:Es; [|discriminate].
  destruct (vn_number (s_head s) =? 1) eqn:E1.
  - destruct (mget st id) as [o|] eqn:Em; [discriminate|]. injection Hstep as <-.
    exists sc. eexists. getsimp. rewrite Hne, bytes_eqb_refl. split; [exact Esc|]. split; [reflexivity|].
    cbn [o_lineage o_head]. destruct (s_base sc) as [l|] eqn:Eb.
    + right. left. destruct Cbase as (Hl & _). intros [= ->]. lia.
    + left. rewrite Cbase in Cnum. cbn [List.length] in Cnum. lia.
  - assert (H1 : vn_number (s_head s) <> 1) by lia.
    assert (Hstep' : step dbg st a (Commit id) = (st1, Ok tt)).
    { cbn [step]. rewrite Es, E1. exact Hstep. }
    destruct (commit_ver_unfold _ _ _ _ _ _ Es H1 Hstep') as (o & p & Em & Ep & Hnum & ->).
    destruct (commit_ver_facts _ _ _ _ _ _ _ Hinv Es H1 Em Ep Hnum Hkn) as (Fb & Fv & Fh & Fs).
    destruct (Hmain _ _ Em) as (_ & _ & _ & Onum).
    exists sc. eexists. getsimp. rewrite Hne, bytes_eqb_refl. split; [exact Esc|]. split; [reflexivity|].
    cbn [o_lineage o_head]. destruct (s_base sc) as [l|] eqn:Eb.
    + destruct (N.eq_dec l (o_lineage o)) as [->|Hl].
      * right. right. destruct Cbase as (_ & _ & Hb). destruct (Hb _ Em eq_refl) as ([tl Hext] & _).
        rewrite Fh. cbn [vn_number]. rewrite Hext, app_length in Onum. lia.
      * right. left. intros [= ->]. apply Hl. reflexivity.
    + left. rewrite Cbase in Cnum. cbn [List.length] in Cnum. lia.
Qed.

Lemma ev_keeps_key c id c' o :
  ev_keeps c id (c', o) = true ->
  match o with
  | Purge i => i <> id
  | ResetAll i | Commit i => ~ (c' = c /\ i = id)
  | _ => True
  end.
Proof.
  unfold ev_keeps. cbn [fst snd]. destruct o as [i w|i e|i|i|i]; try (intros _; exact I); intros H.
  - intros [-> ->]. rewrite N.eqb_refl, bytes_eqb_refl in H. discriminate.
  - intros [-> ->]. rewrite N.eqb_refl, bytes_eqb_refl in H. discriminate.
  - intros ->. rewrite bytes_eqb_refl in H. discriminate.
Qed.

Lemma stale_step dbg st c id c' o st' r :
  mc_inv st -> stale st c id -> step_clean st c' o = true -> ev_keeps c id (c', o) = true ->
  step_rel dbg st c' o st' r -> stale st' c id.
Proof.
  intros Hinv (s & ob & Es & Em & Hd) Hclean Hkeep Hstep.
  apply ev_keeps_key in Hkeep.
  pose proof Hclean as Hkn. unfold step_clean in Hkn. apply negb_true_iff in Hkn.
  destruct Hstep as [o r Hr|i w Em' Es'|i e s' Es'|i e ob' h Es' Em' En|i s' Es' H1 Em'|i s' ob' p Es' H1 Em' Ep Hnum|i|i].
  - exists s, ob. auto.
  - exists s, ob. getsimp.
    destruct (skey_case c' i c id) as [(E & -> & ->)|(E & Hne)]; [congruence|]. rewrite E. auto.
  - destruct (skey_case c' i c id) as [(E & -> & ->)|(E & Hne)].
    + rewrite Es in Es'. injection Es' as <-. eexists. exists ob. getsimp. rewrite E.
      split; [reflexivity|]. split; [exact Em|]. cbn [s_head s_base]. exact Hd.
    + exists s, ob. getsimp. rewrite E. auto.
  - exists s, ob. getsimp.
    destruct (skey_case c' i c id) as [(E & -> & ->)|(E & Hne)]; [congruence|]. rewrite E. auto.
  - exists s, ob. getsimp.
    destruct (bytes_case i id) as [(E & ->)|(E & Hne)]; [congruence|]. rewrite E.
    destruct (skey_case c' i c id) as [(E' & -> & ->)|(E' & Hne')]; [contradiction|]. rewrite E'. auto.
  - destruct (bytes_case i id) as [(E & ->)|(E & Hne)].
    + rewrite Em in Em'. injection Em' as <-.
      cbn [step_known] in Hkn.
      destruct (commit_ver_facts _ _ _ _ _ _ _ Hinv Es' H1 Em Ep Hnum Hkn) as (Fb & Fv & Fh & Fs).
      exists s. eexists. getsimp. rewrite E.
      destruct (skey_case c' i c i) as [(E' & -> & _)|(E' & Hne')]; [exfalso; apply Hkeep; auto|].
      rewrite E'. split; [exact Es|]. split; [reflexivity|]. cbn [o_lineage o_head].
      rewrite Fh. cbn [vn_number]. destruct Hd as [Hd|[Hd|Hd]]; [auto|auto|right; right; lia].
    + exists s, ob. getsimp. rewrite E.
      destruct (skey_case c' i c id) as [(E' & -> & ->)|(E' & Hne')]; [contradiction|]. rewrite E'. auto.
  - exists s, ob. getsimp.
    destruct (skey_case c' i c id) as [(E & -> & ->)|(E & Hne)]; [exfalso; apply Hkeep; auto|]. rewrite E. auto.
  - exists s, ob. getsimp.
    destruct (bytes_case i id) as [(E & ->)|(E & Hne)]; [contradiction|]. rewrite E.
    destruct (skey_case c' i c id) as [(E' & -> & ->)|(E' & Hne')]; [contradiction|]. rewrite E'. auto.
Qed.

Lemma stale_run dbg c id es : forall st,
  mc_inv st -> stale st c id -> run_clean dbg st es = true -> forallb (ev_keeps c id) es = true ->
  stale (run dbg st es) c id.
Proof.
  induction es as [|[c' o] r IH]; intros st Hinv Hs Hc Hk; cbn [run run_clean forallb] in *.
  - exact Hs.
  - apply andb_true_iff in Hc. destruct Hc as [Hc1 Hc2].
    apply andb_true_iff in Hk. destruct Hk as [Hk1 Hk2].
    apply IH; [apply step_inv; assumption| |exact Hc2|exact Hk2].
    eapply stale_step; [exact Hinv|exact Hs|exact Hc1|exact Hk1|apply step_sound].
Qed.

Lemma no_silent_merge dbg st a c id sc st1 es :
  mc_inv st -> a <> c -> sget st c id = Some sc ->
  step_clean st a (Commit id) = true -> step dbg st a (Commit id) = (st1, Ok tt) ->
  run_clean dbg st1 es = true -> forallb (ev_keeps c id) es = true ->
  c14_recreated_lineage (run dbg st1 es) c id = false ->
  step dbg (run dbg st1 es) c (Commit id) = (run dbg st1 es, Err).
Proof.
  intros Hinv Hac Esc Hclean Hstep Hrc Hkeep Hk.
  assert (Hinv1 : mc_inv st1).
  { pose proof (step_inv dbg st a (Commit id) Hinv Hclean) as H. rewrite Hstep in H. exact H. }
  apply stale_commit_err; [apply run_inv; assumption| |exact Hk].
  apply stale_run; try assumption.
  exact (commit_makes_stale dbg st a c id sc st1 Hinv Hac Esc Hclean Hstep).
Qed.

(** * The known class is a genuine defect of the modelled code: witness *)

(** A (client 0): new, cp, commit, cp, commit, cp (staged v3 of lineage 0);
    B (client 1): purge, new, cp, commit, cp, commit (lineage 1 at v2);
    A: commit - succeeds and replaces B's two versions by A's three. *)
Definition wit_id : bytes := b "o".
Definition wit_run : list event :=
  [ (0, New wit_id 0); (0, Stage wit_id (b "a.txt", Some 1)); (0, Commit wit_id);
    (0, Stage wit_id (b "b.txt", Some 2)); (0, Commit wit_id);
    (0, Stage wit_id (b "c.txt", Some 3));
    (1, Purge wit_id); (1, New wit_id 0); (1, Stage wit_id (b "d.txt", Some 4)); (1, Commit wit_id);
    (1, Stage wit_id (b "e.txt", Some 5)); (1, Commit wit_id) ].

Lemma recreated_lineage_refuted :
  exists es c id,
    run_clean true mc_init es = true /\
    c14_recreated_lineage (run true mc_init es) c id = true /\
    snd (step true (run true mc_init es) c (Commit id)) = Ok tt /\
    exists o o1, mget (run true mc_init es) id = Some o /\
      mget (fst (step true (run true mc_init es) c (Commit id))) id = Some o1 /\
      o_lineage o1 = o_lineage o /\ ~ extends (o_versions o) (o_versions o1).
Proof.
  exists wit_run, 0, wit_id.
  split; [vm_compute; reflexivity|]. split; [vm_compute; reflexivity|]. split; [vm_compute; reflexivity|].
  eexists. eexists. split; [vm_compute; reflexivity|]. split; [vm_compute; reflexivity|].
  split; [reflexivity|]. intros [tl H]. vm_compute in H. discriminate H.
Qed.

(** outside the class the same schedule is refused: with the re-created object still at v1
    A's staged v3 does not fit *)
Lemma recreated_lineage_boundary :
  let es := firstn 10 wit_run in
  c14_recreated_lineage (run true mc_init es) 0 wit_id = false /\
  step true (run true mc_init es) 0 (Commit wit_id) = (run true mc_init es, Err).
Proof. split; vm_compute; reflexivity. Qed.

(** * Non-vacuity *)

(** two clients clone v1, both stage a change, both commit: in either order exactly the first wins *)
Definition race_prefix : list event :=
  [ (0, New wit_id 0); (0, Stage wit_id (b "a.txt", Some 1)); (0, Commit wit_id);
    (0, Stage wit_id (b "x.txt", Some 2)); (1, Stage wit_id (b "y.txt", Some 3)) ].

Lemma race_exactly_one_wins :
  let st := run true mc_init race_prefix in
  run_clean true mc_init (race_prefix ++ [(0, Commit wit_id); (1, Commit wit_id)]) = true /\
  run_clean true mc_init (race_prefix ++ [(1, Commit wit_id); (0, Commit wit_id)]) = true /\
  run_results true st [(0, Commit wit_id); (1, Commit wit_id)] = [Ok tt; Err] /\
  run_results true st [(1, Commit wit_id); (0, Commit wit_id)] = [Ok tt; Err] /\
  (exists o, mget (run true st [(0, Commit wit_id); (1, Commit wit_id)]) wit_id = Some o /\
             vn_number (o_head o) = 2 /\ List.length (o_versions o) = 2%nat) /\
  (exists s, sget (run true st [(0, Commit wit_id); (1, Commit wit_id)]) 1 wit_id = Some s /\
             s_state s = [(b "y.txt", 3); (b "a.txt", 1)]).
Proof.
  cbv zeta.
  split; [vm_compute; reflexivity|]. split; [vm_compute; reflexivity|].
  split; [vm_compute; reflexivity|]. split; [vm_compute; reflexivity|].
  split.
  - eexists. split; [vm_compute; reflexivity|]. split; vm_compute; reflexivity.
  - eexists. split; vm_compute; reflexivity.
Qed.

(** an object created with `-z 2` reaches v9 and then refuses to stage v10; nothing changes *)
Fixpoint n_versions (k : nat) : list event :=
  match k with
  | O => []
  | S k' => n_versions k' ++ [(0, Stage wit_id (b "f.txt", Some (N.of_nat k))); (0, Commit wit_id)]
  end.
Definition width2_run : list event := (0, New wit_id 2) :: n_versions 9.

Lemma width2_refuses_v10 :
  let st := run true mc_init width2_run in
  run_clean true mc_init width2_run = true /\
  (exists o, mget st wit_id = Some o /\ o_head o = mkV 9 2 /\ List.length (o_versions o) = 9%nat) /\
  step true st 1 (Stage wit_id (b "g.txt", Some 77)) = (st, Err) /\
  step false st 1 (Stage wit_id (b "g.txt", Some 77)) = (st, Err).
Proof.
  cbv zeta.
  split; [vm_compute; reflexivity|].
  split; [eexists; split; [vm_compute; reflexivity|split; vm_compute; reflexivity]|].
  split; vm_compute; reflexivity.
Qed.

(** the hypotheses of the commit theorems are met by a concrete state *)
Lemma commit_nonvacuous :
  let st := run true mc_init race_prefix in
  mc_inv st /\ (exists s, sget st 1 wit_id = Some s /\ vn_number (s_head s) <> 1) /\
  c14_recreated_lineage st 1 wit_id = false /\
  snd (step true st 1 (Commit wit_id)) = Ok tt.
Proof.
  cbv zeta.
  split; [apply reachable_inv; vm_compute; reflexivity|].
  split; [eexists; split; [vm_compute; reflexivity|vm_compute; discriminate]|].
  split; vm_compute; reflexivity.
Qed.
