(** * Basic facts about abstract trees: decidable equalities, prefixes, lookups, listings (C06) *)

From Coq Require Import List NArith Bool Lia.
From Rocfl Require Import Model.ObjTree.
Import ListNotations.
Open Scope N_scope.

(** ** equalities *)

Lemma alg_eqb_eq a b : alg_eqb a b = true <-> a = b.
Proof. destruct a, b; cbn; split; congruence. Qed.
Lemma alg_eqb_refl a : alg_eqb a a = true.
Proof. now apply alg_eqb_eq. Qed.
Lemma alg_eqb_neq a b : alg_eqb a b = false <-> a <> b.
Proof. destruct a, b; cbn; split; congruence. Qed.

Lemma spec_eqb_eq a b : spec_eqb a b = true <-> a = b.
Proof. destruct a, b; cbn; split; congruence. Qed.
Lemma spec_eqb_refl a : spec_eqb a a = true.
Proof. now apply spec_eqb_eq. Qed.
Lemma spec_leb_refl a : spec_leb a a = true.
Proof. now destruct a. Qed.

Lemma seg_eqb_eq a b : seg_eqb a b = true <-> a = b.
Proof.
  destruct a, b; cbn; split; intros H; try congruence; try discriminate.
  - apply spec_eqb_eq in H. congruence.
  - injection H as ->. apply spec_eqb_refl.
  - apply alg_eqb_eq in H. congruence.
  - injection H as ->. apply alg_eqb_refl.
  - apply andb_true_iff in H as [H1 H2]. apply N.eqb_eq in H1, H2. congruence.
  - injection H as -> ->. now rewrite !N.eqb_refl.
  - apply N.eqb_eq in H. congruence.
  - injection H as ->. apply N.eqb_refl.
Qed.
Lemma seg_eqb_refl a : seg_eqb a a = true.
Proof. now apply seg_eqb_eq. Qed.

Lemma list_eqb_eq {A} (eqb : A -> A -> bool) :
  (forall x y, eqb x y = true <-> x = y) -> forall a b, list_eqb eqb a b = true <-> a = b.
Proof.
  intros E a. induction a as [|x a IH]; intros [|y b]; cbn; split; intros H; try congruence; try discriminate.
  - apply andb_true_iff in H as [H1 H2]. apply E in H1. apply IH in H2. congruence.
  - injection H as -> ->. apply andb_true_iff. split; [now apply E | now apply IH].
Qed.

Lemma path_eqb_eq a b : path_eqb a b = true <-> a = b.
Proof. apply list_eqb_eq, seg_eqb_eq. Qed.
Lemma path_eqb_refl a : path_eqb a a = true.
Proof. now apply path_eqb_eq. Qed.
Lemma path_eqb_neq a b : path_eqb a b = false <-> a <> b.
Proof.
  split; intros H.
  - intros ->. now rewrite path_eqb_refl in H.
  - destruct (path_eqb a b) eqn:E; [|reflexivity]. apply path_eqb_eq in E. contradiction.
Qed.
Lemma path_eqb_sym a b : path_eqb a b = path_eqb b a.
Proof.
  destruct (path_eqb a b) eqn:E; symmetry.
  - apply path_eqb_eq in E. subst. apply path_eqb_refl.
  - apply path_eqb_neq. apply path_eqb_neq in E. congruence.
Qed.

Lemma lpath_eqb_eq a b : lpath_eqb a b = true <-> a = b.
Proof. apply list_eqb_eq. intros. apply N.eqb_eq. Qed.
Lemma lpath_eqb_refl a : lpath_eqb a a = true.
Proof. now apply lpath_eqb_eq. Qed.

Lemma nilb_true {A} (l : list A) : nilb l = true <-> l = [].
Proof. destruct l; cbn; split; congruence. Qed.
Lemma nilb_false {A} (l : list A) : nilb l = false <-> l <> [].
Proof. destruct l; cbn; split; congruence. Qed.

Lemma flat_map_nil {A B} (f : A -> list B) l :
  flat_map f l = [] <-> forall x, In x l -> f x = [].
Proof.
  induction l as [|a l IH]; cbn; split; intros H.
  - intros x [].
  - reflexivity.
  - apply app_eq_nil in H as [H1 H2]. intros x [<-|Hx]; [assumption|]. now apply IH.
  - rewrite (H a (or_introl eq_refl)). cbn. apply IH. intros x Hx. apply H. now right.
Qed.

Lemma mem_path_In p l : mem_path p l = true <-> In p l.
Proof.
  unfold mem_path. rewrite existsb_exists. split.
  - intros [x [Hx E]]. apply path_eqb_eq in E. now subst.
  - intros H. exists p. split; [assumption | apply path_eqb_refl].
Qed.
Lemma mem_lpath_In p l : mem_lpath p l = true <-> In p l.
Proof.
  unfold mem_lpath. rewrite existsb_exists. split.
  - intros [x [Hx E]]. apply lpath_eqb_eq in E. now subst.
  - intros H. exists p. split; [assumption | apply lpath_eqb_refl].
Qed.
Lemma mem_N_In x l : mem_N x l = true <-> In x l.
Proof.
  unfold mem_N. rewrite existsb_exists. split.
  - intros [y [Hy E]]. apply N.eqb_eq in E. now subst.
  - intros H. exists x. split; [assumption | apply N.eqb_refl].
Qed.
Lemma mem_alg_In x l : mem_alg x l = true <-> In x l.
Proof.
  unfold mem_alg. rewrite existsb_exists. split.
  - intros [y [Hy E]]. apply alg_eqb_eq in E. now subst.
  - intros H. exists x. split; [assumption | apply alg_eqb_refl].
Qed.

(** ** prefixes *)

Lemma strip_Some d : forall q r, strip d q = Some r <-> q = d ++ r.
Proof.
  induction d as [|x d IH]; intros q r; cbn.
  - split; congruence.
  - destruct q as [|y q].
    + split; discriminate.
    + destruct (seg_eqb x y) eqn:E.
      * apply seg_eqb_eq in E. subst y. rewrite IH. split; congruence.
      * split; [discriminate|]. intros H. injection H as -> _. now rewrite seg_eqb_refl in E.
Qed.

Lemma strip_app d r : strip d (d ++ r) = Some r.
Proof. now apply strip_Some. Qed.

Lemma strip_self d : strip d d = Some [].
Proof. apply strip_Some. now rewrite app_nil_r. Qed.

Lemma is_prefix_true d q : is_prefix d q = true <-> exists r, q = d ++ r.
Proof.
  unfold is_prefix. destruct (strip d q) as [r|] eqn:E; split; intros H; try discriminate.
  - exists r. now apply strip_Some.
  - reflexivity.
  - destruct H as [r ->]. now rewrite strip_app in E.
Qed.

Lemma is_prefix_refl d : is_prefix d d = true.
Proof. apply is_prefix_true. exists []. now rewrite app_nil_r. Qed.

Lemma is_prefix_app d r : is_prefix d (d ++ r) = true.
Proof. apply is_prefix_true. now exists r. Qed.

(** ** lookups *)

Lemma lookup_In p t n : lookup p t = Some n -> In (p, n) t.
Proof.
  induction t as [|[q m] t IH]; cbn; [discriminate|].
  destruct (path_eqb q p) eqn:E.
  - apply path_eqb_eq in E. intros H. injection H as ->. subst. now left.
  - intros H. right. now apply IH.
Qed.

Lemma lookup_None_In p t : lookup p t = None -> forall n, ~ In (p, n) t.
Proof.
  induction t as [|[q m] t IH]; cbn; intros H n; [tauto|].
  destruct (path_eqb q p) eqn:E; [discriminate|].
  intros [X|X].
  - injection X as -> _. now rewrite path_eqb_refl in E.
  - now apply (IH H n).
Qed.

Lemma file_tok_In p t k : file_tok p t = Some k -> In (p, File k) t.
Proof.
  unfold file_tok. destruct (lookup p t) as [[]|] eqn:E; try discriminate.
  intros H. injection H as ->. now apply lookup_In.
Qed.

Lemma file_tok_lookup p t k : file_tok p t = Some k <-> lookup p t = Some (File k).
Proof.
  unfold file_tok. destruct (lookup p t) as [[]|]; split; congruence.
Qed.

Lemma has_file_true d s t : has_file d s t = true <-> exists k, file_tok (d ++ [s]) t = Some k.
Proof.
  unfold has_file. destruct (file_tok (d ++ [s]) t) as [k|]; split; intros H; try discriminate.
  - now exists k.
  - reflexivity.
  - destruct H as [k H]. discriminate.
Qed.

Lemma below_true d t : below d t = true <-> exists q n s r, In (q, n) t /\ q = d ++ s :: r.
Proof.
  unfold below. rewrite existsb_exists. split.
  - intros [[q n] [Hin H]]. cbn in H. destruct (strip d q) as [[|s r]|] eqn:E; try discriminate.
    apply strip_Some in E. now exists q, n, s, r.
  - intros (q & n & s & r & Hin & ->). exists (d ++ s :: r, n). split; [assumption|].
    cbn. now rewrite strip_app.
Qed.

(** ** listings *)

Lemma list_dir_In d t k s :
  In (k, s) (list_dir d t) <->
  exists q n, In (q, n) t /\
    ((q = d /\ n <> Dir /\ k = node_kind n /\ s = SSelf)
     \/ (q = d ++ [s] /\ k = node_kind n)
     \/ (exists s2 r, q = d ++ s :: s2 :: r /\ k = KDir)).
Proof.
  unfold list_dir. rewrite in_flat_map. split.
  - intros [[q n] [Hin H]]. cbn [fst snd] in H. exists q, n. split; [assumption|].
    destruct (strip d q) as [[|s1 [|s2 r]]|] eqn:E; try (now destruct H).
    + apply strip_Some in E. rewrite app_nil_r in E. subst q.
      destruct n; cbn in H; try tauto; destruct H as [H|[]]; injection H as <- <-; left; repeat split; discriminate.
    + apply strip_Some in E. destruct H as [H|[]]. injection H as <- <-. right. left. now split.
    + apply strip_Some in E. destruct H as [H|[]]. injection H as <- <-. right. right. now exists s2, r.
  - intros (q & n & Hin & H). exists (q, n). split; [assumption|]. cbn [fst snd].
    destruct H as [(-> & Hn & -> & ->)|[(-> & ->)|(s2 & r & -> & ->)]].
    + rewrite strip_self. destruct n; cbn; tauto.
    + rewrite strip_app. now left.
    + rewrite strip_app. now left.
Qed.

Lemma list_rec_In d t k r :
  In (k, r) (list_rec d t) <->
  exists n, In (d ++ r, n) t /\ k = node_kind n /\ (r = [] -> n <> Dir).
Proof.
  unfold list_rec. rewrite in_flat_map. split.
  - intros [[q n] [Hin H]]. cbn [fst snd] in H. exists n.
    destruct (strip d q) as [[|s1 r1]|] eqn:E; try (now destruct H).
    + apply strip_Some in E. subst q.
      destruct n; cbn in H; try tauto; destruct H as [H|[]]; injection H as <- <-;
        (split; [assumption|split; [reflexivity|discriminate]]).
    + apply strip_Some in E. subst q. destruct H as [H|[]]. injection H as <- <-.
      split; [assumption|]. split; [reflexivity|discriminate].
  - intros (n & Hin & -> & Hn). exists (d ++ r, n). split; [assumption|]. cbn [fst snd].
    rewrite strip_app. destruct r as [|s r].
    + destruct n; cbn; tauto.
    + now left.
Qed.

(** ** version numbers *)

Lemma vnums_from_In {A} (l : list A) : forall s m, In m (vnums_from s l) <-> s <= m < s + nlength l.
Proof.
  induction l as [|x l IH]; intros s m; cbn [vnums_from nlength].
  - cbn. lia.
  - cbn [In]. rewrite IH. lia.
Qed.

Lemma vnums_In i m : In m (vnums i) <-> in_versions i m = true.
Proof.
  unfold vnums, in_versions, inv_head. rewrite vnums_from_In.
  rewrite andb_true_iff, !N.leb_le. lia.
Qed.

Lemma mdigest_In m p d : mdigest m p = Some d -> In (d, p) m.
Proof.
  induction m as [|[d' q] m IH]; cbn; [discriminate|].
  destruct (path_eqb q p) eqn:E.
  - apply path_eqb_eq in E. intros H. injection H as ->. subst. now left.
  - intros H. right. now apply IH.
Qed.

Lemma mdigest_None m p : mdigest m p = None <-> ~ In p (map snd m).
Proof.
  induction m as [|[d' q] m IH]; cbn; [tauto|].
  destruct (path_eqb q p) eqn:E.
  - apply path_eqb_eq in E. split; [discriminate|]. intros H. exfalso. apply H. now left.
  - apply path_eqb_neq in E. rewrite IH. tauto.
Qed.

Lemma mdigest_nodup m p d :
  nodup_pathb (map snd m) = true -> In (d, p) m -> mdigest m p = Some d.
Proof.
  induction m as [|[d' q] m IH]; cbn; [tauto|].
  intros H Hin. apply andb_true_iff in H as [H1 H2].
  destruct Hin as [E|Hin].
  - injection E as -> ->. now rewrite path_eqb_refl.
  - destruct (path_eqb q p) eqn:E.
    + apply path_eqb_eq in E. subst q. exfalso.
      apply negb_true_iff in H1. apply (in_map snd) in Hin. cbn in Hin.
      apply mem_path_In in Hin. congruence.
    + now apply IH.
Qed.
