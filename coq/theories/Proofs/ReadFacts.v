From Coq Require Import NArith Ascii Lia.
From stdpp Require Import gmap.
From Rocfl Require Import Model.Inventory Model.InvSpec Proofs.ConflictFacts Proofs.InventoryFacts.

(** * Reads of committed versions (C02) *)

(** [Extends m s]: the staged inventory [s] was derived from the committed inventory
    [m]: its committed versions are exactly m's versions and the manifest agrees on
    every content path of a committed version. *)
Definition Extends (m s : inventory) : Prop :=
  i_prev s = all_states m ∧ ∀ cp, (fst cp <= head m)%N → i_manifest s !! cp = i_manifest m !! cp.

(** [Grows m m']: m' is a later committed inventory of the same lineage *)
Definition Grows (m m' : inventory) : Prop :=
  all_states m `prefix_of` all_states m' ∧
  ∀ cp, (fst cp <= head m)%N → i_manifest m' !! cp = i_manifest m !! cp.

Lemma head_all_states i : head i = N.of_nat (length (all_states i)).
Proof. unfold head, all_states. rewrite app_length. cbn. f_equal. lia. Qed.

Lemma extends_head m s : Extends m s → head s = (head m + 1)%N.
Proof. intros [Hp _]. unfold head at 1. rewrite Hp, (head_all_states m). lia. Qed.

Lemma create_extends m : Extends m (create_staging_head m).
Proof. split; done. Qed.

Lemma sapply_prev o i : i_prev (sapply o i) = i_prev i.
Proof.
  destruct o as [d p|v src dst|src dst|p|p]; cbn [sapply].
  - unfold add_file_to_head. destruct (conflictb _ _); done.
  - destruct (_ && _); [done|]. destruct (staged_source i v src) as [[d|]|]; [| |done].
    + unfold add_file_to_head. destruct (conflictb _ _); done.
    + unfold copy_file_to_head. destruct (get_state i v); [|done]. destruct (_ !! src); [|done].
      destruct (conflictb _ _); done.
  - destruct (bool_decide _); [done|]. destruct (staged_source _ _ _) as [[d|]|]; [| |done].
    + unfold move_new_in_head_file. destruct (conflictb _ _); done.
    + unfold move_file_in_head. destruct (_ !! src); [|done]. destruct (conflictb _ _); done.
  - unfold remove_from_head. destruct (_ !! p); [|done]. destruct (_ !! ncp i p); done.
  - destruct (head i =? 1)%N; [done|].
    assert (H1 : i_prev (remove_from_head p i).1 = i_prev i).
    { unfold remove_from_head. destruct (_ !! p); [|done]. destruct (_ !! ncp i p); done. }
    unfold copy_file_to_head. destruct (get_state _ _); [|done]. destruct (_ !! p); [|done].
    destruct (conflictb _ _); done.
Qed.

(** the resolved operations only touch head-version manifest keys *)
Lemma sapply_manifest_frame o i cp :
  fst cp ≠ head i → i_manifest (sapply o i) !! cp = i_manifest i !! cp.
Proof.
  intros Hne.
  assert (Hk : ∀ q, ncp i q ≠ cp) by (intros q <-; done).
  destruct o as [d p|v src dst|src dst|p|p]; cbn [sapply].
  - unfold add_file_to_head. destruct (conflictb _ _); [done|]. cbn. by rewrite lookup_insert_ne by apply Hk.
  - destruct (_ && _); [done|]. destruct (staged_source i v src) as [[d|]|]; [| |done].
    + unfold add_file_to_head. destruct (conflictb _ _); [done|]. cbn. by rewrite lookup_insert_ne by apply Hk.
    + unfold copy_file_to_head. destruct (get_state i v); [|done]. destruct (_ !! src); [|done].
      destruct (conflictb _ _); [done|]. cbn. by rewrite lookup_delete_ne by apply Hk.
  - destruct (bool_decide _); [done|]. destruct (staged_source _ _ _) as [[d|]|]; [| |done].
    + unfold move_new_in_head_file. destruct (conflictb _ _); [done|]. cbn.
      rewrite lookup_insert_ne by apply Hk. by rewrite lookup_delete_ne by apply Hk.
    + unfold move_file_in_head. destruct (_ !! src); [|done]. destruct (conflictb _ _); [done|]. cbn.
      by rewrite lookup_delete_ne by apply Hk.
  - unfold remove_from_head. destruct (_ !! p); [|done]. destruct (_ !! ncp i p); [|done]. cbn.
    by rewrite lookup_delete_ne by apply Hk.
  - destruct (head i =? 1)%N; [done|].
    set (i1 := (remove_from_head p i).1).
    assert (H1 : i_manifest i1 !! cp = i_manifest i !! cp).
    { unfold i1, remove_from_head. destruct (_ !! p); [|done]. destruct (_ !! ncp i p); [|done]. cbn.
      by rewrite lookup_delete_ne by apply Hk. }
    assert (Hh : head i1 = head i).
    { unfold i1, remove_from_head. destruct (_ !! p); [|done]. destruct (_ !! ncp i p); done. }
    unfold copy_file_to_head. destruct (get_state _ _); [|done]. destruct (_ !! p); [|done].
    destruct (conflictb _ _); [done|]. cbn. rewrite lookup_delete_ne; [done|].
    unfold ncp. rewrite Hh. apply Hk.
Qed.

Lemma sapply_extends o m s : Extends m s → Extends m (sapply o s).
Proof.
  intros Hext. pose proof (extends_head _ _ Hext) as Hh. destruct Hext as [Hp Hm]. split.
  - by rewrite sapply_prev.
  - intros cp Hle. rewrite sapply_manifest_frame by lia. by apply Hm.
Qed.

Lemma dedup_grows m s post :
  StagedWF s → Extends m s → dedup_okb s post = true → Grows m post.
Proof.
  intros Hwf Hext Hok. pose proof (extends_head _ _ Hext) as Hh. destruct Hext as [Hp Hm].
  apply dedup_okb_spec in Hok as (Hpp & Hhh & Hsub & Hper). split.
  - unfold all_states at 2. rewrite Hpp, Hp. by apply prefix_app_r.
  - intros cp Hle. rewrite <- Hm by done.
    destruct (i_manifest s !! cp) as [d|] eqn:E.
    + destruct (Hper _ _ E) as (Hkeep & _ & _). apply Hkeep. lia.
    + destruct (i_manifest post !! cp) as [d|] eqn:E'; [|done]. apply Hsub in E'. congruence.
Qed.

Lemma grows_refl m : Grows m m.
Proof. split; done. Qed.

Lemma grows_head m m' : Grows m m' → (head m <= head m')%N.
Proof.
  intros [Hpre _]. rewrite !head_all_states. apply prefix_length in Hpre. lia.
Qed.

Lemma grows_trans a c e : Grows a c → Grows c e → Grows a e.
Proof.
  intros Hac Hce. pose proof (grows_head _ _ Hac). destruct Hac as [H1 H2], Hce as [H3 H4]. split.
  - by etrans.
  - intros cp Hle. rewrite H4 by lia. by apply H2.
Qed.

(** committed versions keep their listing and their content-path candidates *)
Lemma get_state_all_states i v :
  (1 <= v)%N → get_state i v = all_states i !! (N.to_nat v - 1)%nat.
Proof.
  intros Hv. unfold get_state, all_states, head.
  destruct (v =? N.of_nat (S (length (i_prev i))))%N eqn:E.
  - apply N.eqb_eq in E. rewrite lookup_app_r by lia.
    replace (N.to_nat v - 1 - length (i_prev i))%nat with 0%nat by lia. done.
  - apply N.eqb_neq in E. replace (v =? 0)%N with false by (symmetry; apply N.eqb_neq; lia).
    destruct (decide (N.to_nat v - 1 < length (i_prev i))%nat) as [Hlt|Hge].
    + by rewrite lookup_app_l.
    + rewrite lookup_ge_None_2 by lia. symmetry. apply lookup_ge_None_2. rewrite app_length. cbn. lia.
Qed.

Theorem read_stable m m' v :
  Grows m m' → (1 <= v <= head m)%N →
  get_state m' v = get_state m v ∧
  ∀ d cp, cp ∈ cpath_candidates m' d v ↔ cp ∈ cpath_candidates m d v.
Proof.
  intros [Hpre Hman] Hv. split.
  - rewrite !get_state_all_states by lia.
    destruct Hpre as [k ->]. rewrite lookup_app_l; [done|].
    rewrite <- (Nat2N.id (length (all_states m))), <- head_all_states. lia.
  - intros d cp. unfold cpath_candidates. rewrite !elem_of_list_filter, !elem_of_paths_of.
    split; intros [Hle Hcp]; (split; [done|]).
    + rewrite <- Hman; [done|]. apply Is_true_eq_true, N.leb_le in Hle. lia.
    + rewrite Hman; [done|]. apply Is_true_eq_true, N.leb_le in Hle. lia.
Qed.

(** a valid inventory always resolves a committed path to a content path that
    carries the path's digest *)
Theorem resolution_total i v st p d :
  InvOK i → (1 <= v <= head i)%N → get_state i v = Some st → st !! p = Some d →
  cpath_candidates i d v ≠ [] ∧ ∀ cp, cp ∈ cpath_candidates i d v → i_manifest i !! cp = Some d.
Proof.
  intros Hok Hv Hg Hp. rewrite get_state_all_states in Hg by lia.
  destruct (ok_resolve _ Hok _ _ Hg p d Hp) as (cp & Hle & Hcp). split.
  - intros Hnil. assert (Hin : cp ∈ cpath_candidates i d v).
    { unfold cpath_candidates. apply elem_of_list_filter. split; [|by apply elem_of_paths_of].
      apply Is_true_eq_left, N.leb_le. lia. }
    rewrite Hnil in Hin. by apply elem_of_nil in Hin.
  - intros c Hc. unfold cpath_candidates in Hc. apply elem_of_list_filter in Hc as [_ Hc].
    by apply elem_of_paths_of in Hc.
Qed.

(** * Life cycle: the main inventory only grows (no operation but purge rewrites history) *)
Definition Linked (s : ostate) : Prop :=
  ∀ m i, o_main s = Some m → o_staged s = Some i → Extends m i.

Lemma ostep_linked s o : OState_ok s → Linked s → Linked (ostep s o).
Proof.
  intros Hok Hl. destruct o as [|op|post| |]; cbn [ostep].
  - destruct (o_main s) eqn:Em; [done|]. destruct (o_staged s) eqn:Es; [done|].
    intros m i [=].
  - unfold ensure_staged. destruct (o_staged s) as [i|] eqn:Es.
    + intros m i' Hm [= <-]. cbn in Hm. apply sapply_extends. by apply Hl.
    + destruct (o_main s) as [m|] eqn:Em; [|done].
      intros m' i' [= <-] [= <-]. apply sapply_extends, create_extends.
  - destruct (o_staged s) as [i|] eqn:Es; [|done].
    destruct (dedup_okb i post); [|done]. intros m i' _ [=].
  - intros m i' _ [=].
  - intros m i' [=].
Qed.

Lemma ostep_grows s o m m' :
  OState_ok s → Linked s → (o ≠ OPurge) →
  o_main s = Some m → o_main (ostep s o) = Some m' → Grows m m'.
Proof.
  intros Hok Hl Hnp Hm. destruct o as [|op|post| |]; cbn [ostep].
  - rewrite Hm. rewrite Hm. intros [= <-]. apply grows_refl.
  - unfold ensure_staged. destruct (o_staged s) as [i|] eqn:Es.
    + cbn. rewrite Hm. intros [= <-]. apply grows_refl.
    + rewrite Hm. cbn. intros [= <-]. apply grows_refl.
  - destruct (o_staged s) as [i|] eqn:Es; [|rewrite Hm; intros [= <-]; apply grows_refl].
    destruct (dedup_okb i post) eqn:Ed; [|rewrite Hm; intros [= <-]; apply grows_refl].
    cbn. intros [= <-]. eapply dedup_grows; [|by apply Hl|exact Ed]. by apply (proj2 Hok).
  - cbn. rewrite Hm. intros [= <-]. apply grows_refl.
  - done.
Qed.

Lemma ostep_main_some s o m : o ≠ OPurge → o_main s = Some m → is_Some (o_main (ostep s o)).
Proof.
  intros Hnp Hm. destruct o as [|op|post| |]; cbn [ostep].
  - rewrite Hm. rewrite Hm. eauto.
  - unfold ensure_staged. destruct (o_staged s); cbn; rewrite Hm; cbn; eauto.
  - destruct (o_staged s); [|rewrite Hm; eauto]. destruct (dedup_okb _ _); cbn; [eauto|rewrite Hm; eauto].
  - cbn. rewrite Hm. eauto.
  - done.
Qed.

Theorem history_grows ops2 : ∀ s m m',
  OState_ok s → Linked s → Forall (λ o, o ≠ OPurge) ops2 →
  o_main s = Some m → o_main (foldl ostep s ops2) = Some m' → Grows m m'.
Proof.
  induction ops2 as [|o ops IH]; intros s m m' Hok Hl Hnp Hm; cbn [foldl].
  - rewrite Hm. intros [= <-]. apply grows_refl.
  - apply Forall_cons in Hnp as [Hno Hnp]. intros Hm'.
    destruct (ostep_main_some s o m Hno Hm) as [m1 Hm1].
    eapply grows_trans.
    + eapply (ostep_grows s o m m1); eauto.
    + eapply (IH (ostep s o)); eauto using ostep_ok, ostep_linked.
Qed.

Lemma linked_init : Linked oinit.
Proof. intros m i [=]. Qed.

Lemma reachable_linked ops : Linked (foldl ostep oinit ops).
Proof.
  assert (H : ∀ s, OState_ok s → Linked s → Linked (foldl ostep s ops)).
  { induction ops as [|o ops IH]; intros s Hok Hl; cbn [foldl]; [done|].
    apply IH; [by apply ostep_ok|by apply ostep_linked]. }
  apply H; [split; cbn; done|apply linked_init].
Qed.

(** whatever happens after a version was committed (any operations but purging the
    object), that version keeps its listing and its content-path candidates *)
Theorem committed_versions_stable ops1 ops2 m m' v :
  Forall (λ o, o ≠ OPurge) ops2 →
  o_main (foldl ostep oinit ops1) = Some m →
  o_main (foldl ostep oinit (ops1 ++ ops2)) = Some m' →
  (1 <= v <= head m)%N →
  get_state m' v = get_state m v ∧
  ∀ d cp, cp ∈ cpath_candidates m' d v ↔ cp ∈ cpath_candidates m d v.
Proof.
  intros Hnp Hm Hm' Hv. rewrite foldl_app in Hm'.
  apply read_stable; [|done].
  eapply history_grows; eauto using reachable_ok, reachable_linked.
Qed.
