(** A refused commit keeps the staged invariant; histories with refused commits keep every committed inventory
    valid and every staged inventory inside the invariant. *)
From Coq Require Import NArith Ascii Lia.
From stdpp Require Import gmap.
From Rocfl Require Import Model.Inventory Model.InvSpec Model.RefusedCommit Proofs.InventoryFacts.

Lemma refused_head i : head (refused_commit i) = head i.
Proof. reflexivity. Qed.

Lemma refused_lookup i cp d :
  i_manifest (refused_commit i) !! cp = Some d ↔
  i_manifest i !! cp = Some d ∧ (is_head_cp i cp = false ∨ has_nonhead i d = false).
Proof.
  unfold refused_commit. cbn [i_manifest]. rewrite map_filter_lookup_Some. cbn [fst snd].
  split; intros [H1 H2]; (split; [exact H1|]).
  - apply Is_true_eq_true in H2.
    apply orb_true_iff in H2 as [H2|H2]; apply negb_true_iff in H2; [by left|by right].
  - apply Is_true_eq_left. apply orb_true_iff. destruct H2 as [H2|H2]; rewrite H2; [by left|by right].
Qed.

Lemma refused_sub i cp d : i_manifest (refused_commit i) !! cp = Some d → i_manifest i !! cp = Some d.
Proof. intros H. by apply refused_lookup in H as [H _]. Qed.

Lemma refused_keeps_nonhead i cp d :
  (fst cp < head i)%N → i_manifest i !! cp = Some d → i_manifest (refused_commit i) !! cp = Some d.
Proof.
  intros Hlt Hcp. apply refused_lookup. split; [exact Hcp|]. left.
  unfold is_head_cp. apply N.eqb_neq. lia.
Qed.

Lemma refused_committed_copy i d : committed_copy i d → committed_copy (refused_commit i) d.
Proof.
  intros (cp & Hlt & Hcp). exists cp. rewrite refused_head. split; [exact Hlt|].
  by apply refused_keeps_nonhead.
Qed.

Lemma refused_commit_wf i : StagedWF i → StagedWF (refused_commit i).
Proof.
  intros Hwf. constructor.
  - (* prev_resolve *)
    intros k st Hk p d Hp. cbn [refused_commit i_prev] in Hk.
    destruct (sw_prev_resolve _ Hwf k st Hk p d Hp) as (cp & Hle & Hcp).
    exists cp. split; [exact Hle|]. apply refused_keeps_nonhead; [|exact Hcp].
    apply lookup_lt_Some in Hk. unfold head. lia.
  - intros st Hst. exact (sw_prev_noconf _ Hwf st Hst).
  - (* used *)
    intros cp d Hlt Hcp. rewrite refused_head in Hlt. apply refused_sub in Hcp.
    exact (sw_used _ Hwf cp d Hlt Hcp).
  - (* vers *)
    intros cp [d Hcp]. rewrite refused_head. apply refused_sub in Hcp.
    apply (sw_vers _ Hwf cp). eauto.
  - (* I3 *)
    intros p d Hcp. change (ncp (refused_commit i) p) with (ncp i p) in Hcp. apply refused_sub in Hcp.
    destruct (sw_I3 _ Hwf p d Hcp) as [H|H]; [by left|right; by apply refused_committed_copy].
  - (* I5 *)
    intros p d Hp. cbn [refused_commit i_hstate] in Hp. change (ncp (refused_commit i) p) with (ncp i p).
    destruct (sw_I5 _ Hwf p d Hp) as [H|H]; [|right; by apply refused_committed_copy].
    destruct (has_nonhead i d) eqn:Hnh.
    + right. apply refused_committed_copy. by apply has_nonhead_committed.
    + left. apply refused_lookup. split; [exact H|by right].
  - exact (sw_noconf _ Hwf).
  - (* cp_noconf *)
    intros v p q Hlt [dp Hp] [dq Hq]. rewrite refused_head in Hlt.
    apply refused_sub in Hp. apply refused_sub in Hq.
    apply (sw_cp_noconf _ Hwf v p q Hlt); eauto.
Qed.

(** what a refused commit removes is never the only content of a head path: every head path keeps its own direct
    content path unless its digest has committed content *)
Lemma refused_commit_keeps_own_files i p d :
  StagedWF i → i_hstate i !! p = Some d → has_nonhead i d = false →
  i_manifest (refused_commit i) !! ncp i p = Some d.
Proof.
  intros Hwf Hp Hnh. destruct (sw_I5 _ Hwf p d Hp) as [H|H].
  - apply refused_lookup. split; [exact H|by right].
  - apply has_nonhead_committed in H; [congruence|exact Hwf].
Qed.

Lemma ostep_r_ok s o : OState_ok s → OState_ok (ostep_r s o).
Proof.
  intros Hok. destruct o as [o|]; cbn [ostep_r]; [by apply ostep_ok|].
  destruct (o_staged s) as [i|] eqn:Es; [|exact Hok].
  destruct Hok as [Hm Hs]. split; cbn [o_main o_staged]; [exact Hm|].
  intros i' [= <-]. apply refused_commit_wf. by apply Hs.
Qed.

Theorem reachable_ok_r ops : OState_ok (foldl ostep_r oinit ops).
Proof.
  assert (H0 : OState_ok oinit) by (split; cbn; done).
  revert H0. generalize oinit. induction ops as [|o ops IH]; intros s Hs; cbn [foldl]; [done|].
  apply IH. by apply ostep_r_ok.
Qed.
