From Coq Require Import NArith Ascii.
From stdpp Require Import gmap.
From Rocfl Require Import Model.Inventory Model.InvSpec Model.Repo.

Lemma rstep_frame r x o y : y ≠ x → oget (rstep r (x, o)) y = oget r y.
Proof. intros Hne. unfold oget, rstep. cbn. by rewrite lookup_insert_ne. Qed.

Lemma rstep_frame_raw r x o y : y ≠ x → rstep r (x, o) !! y = r !! y.
Proof. intros Hne. unfold rstep. cbn. by rewrite lookup_insert_ne. Qed.

Lemma staging_keeps_main s o : is_staging_op o = true → o_main (ostep s o) = o_main s.
Proof.
  destruct s as [m st].
  destruct o as [|op|post| |]; cbn [is_staging_op ostep]; try done; intros _.
  - cbn. destruct m, st; done.
  - unfold ensure_staged. cbn. destruct st; [done|]. destruct m; done.
Qed.

(** reads of committed data answer identically whether or not changes are staged *)
Lemma reads_ignore_staging r x o :
  is_staging_op o = true →
  ∀ y v d, read_listing (rstep r (x, o)) y v = read_listing r y v ∧
           read_candidates (rstep r (x, o)) y v d = read_candidates r y v d.
Proof.
  intros Hs y v d. unfold read_listing, read_candidates.
  destruct (decide (y = x)) as [->|Hne].
  - unfold oget, rstep. cbn. rewrite lookup_insert. cbn. by rewrite staging_keeps_main.
  - by rewrite rstep_frame.
Qed.

Lemma reset_all_no_trace s ops :
  o_staged s = None → Forall (λ o, ∃ op, o = OStage op) ops →
  ostep (foldl ostep s ops) OResetAll = s.
Proof.
  intros Hs Hall.
  assert (H : o_main (foldl ostep s ops) = o_main s).
  { clear Hs. revert s. induction Hall as [|o ops [op ->] _ IH]; intros s; cbn [foldl]; [done|].
    rewrite IH. by apply staging_keeps_main. }
  cbn [ostep]. rewrite H. destruct s as [m st]. cbn in *. by subst.
Qed.

Lemma purge_exact r x : rstep r (x, OPurge) = <[x := oinit]> r.
Proof. done. Qed.

Lemma purge_then_not_found r x v : read_listing (rstep r (x, OPurge)) x v = None.
Proof. unfold read_listing, oget, rstep. cbn. by rewrite lookup_insert. Qed.
