(** Lemmas about the S3 model, part B: the request programs of write_new_version /
    write_new_object under the single-fault oracle (one mutating request of the commit fails
    without effect; a second failure, e.g. of a request that puts something back, is outside
    the failure model of C16). *)
From Rocfl Require Import Base.Bytes Generated.Consts Model.S3 Proofs.BytesFacts Proofs.S3Facts.
From Coq Require Import ZArith Lia ZifyBool ZifyN ZifyNat Permutation.
Open Scope N_scope.

(* ------------------------------------------------------------------ buckets *)

Lemma bytes_eqb_sym x y : bytes_eqb x y = bytes_eqb y x.
Proof.
  destruct (bytes_eqb x y) eqn:E.
  - apply bytes_eqb_eq in E. subst. now rewrite bytes_eqb_refl.
  - apply bytes_eqb_false in E. symmetry. apply bytes_eqb_false. congruence.
Qed.

Lemma bk_get_remove k x bk : bk_get x (bk_remove k bk) = if bytes_eqb x k then None else bk_get x bk.
Proof.
  induction bk as [|[k' v] r IH]; cbn [bk_remove bk_get].
  - now destruct (bytes_eqb x k).
  - destruct (bytes_eqb k k') eqn:E.
    + apply bytes_eqb_eq in E. subst k'. rewrite IH. now destruct (bytes_eqb x k).
    + cbn [bk_get]. rewrite IH. destruct (bytes_eqb x k') eqn:E2; [|reflexivity].
      apply bytes_eqb_eq in E2. subst k'. now rewrite bytes_eqb_sym, E.
Qed.

Lemma bk_get_put k v x bk : bk_get x (bk_put k v bk) = if bytes_eqb x k then Some v else bk_get x bk.
Proof.
  unfold bk_put. cbn [bk_get]. destruct (bytes_eqb x k) eqn:E; [reflexivity|].
  now rewrite bk_get_remove, E.
Qed.

Lemma bk_get_in_keys x bk : bk_get x bk <> None -> In x (bk_keys bk).
Proof.
  induction bk as [|[k v] r IH]; cbn [bk_get bk_keys map fst]; [congruence|].
  destruct (bytes_eqb x k) eqn:E.
  - apply bytes_eqb_eq in E. subst. now left.
  - intros H. right. now apply IH.
Qed.

Lemma clear_get_none rp bk x :
  (forall k, In k (bk_keys bk) -> starts_with rp k = false) -> starts_with rp x = true -> bk_get x bk = None.
Proof.
  intros Hc Hx. destruct (bk_get x bk) eqn:E; [|reflexivity].
  assert (In x (bk_keys bk)) as Hin by (apply bk_get_in_keys; congruence).
  rewrite (Hc _ Hin) in Hx. discriminate.
Qed.

(* ------------------------------------------------------------------ the fault oracle *)

Definition hit (fa : option N) (lo hi : N) : Prop := exists k, fa = Some k /\ lo <= k /\ k < hi.
Definition miss (fa : option N) (lo hi : N) : Prop := forall k, fa = Some k -> k < lo \/ hi <= k.
Definition fault_past (fa : option N) (n : N) : Prop := forall k, fa = Some k -> k < n.

Lemma hit_past fa lo hi : hit fa lo hi -> fault_past fa hi.
Proof. intros (k & -> & _ & H) k' E. injection E as <-. exact H. Qed.

Lemma fault_past_mono fa n m : fault_past fa n -> n <= m -> fault_past fa m.
Proof. intros H L k E. specialize (H k E). lia. Qed.

Lemma hit_widen fa lo hi lo' hi' : hit fa lo hi -> lo' <= lo -> hi <= hi' -> hit fa lo' hi'.
Proof. intros (k & E & H1 & H2) L1 L2. exists k. repeat split; [assumption|lia|lia]. Qed.

Lemma miss_join fa a m c : miss fa a m -> miss fa m c -> a <= m -> m <= c -> miss fa a c.
Proof. intros H1 H2 L1 L2 k E. destruct (H1 k E), (H2 k E); lia. Qed.

Lemma miss_hit_absurd fa lo hi lo' hi' : miss fa lo hi -> hit fa lo' hi' -> lo <= lo' -> hi' <= hi -> False.
Proof. intros M (k & E & H1 & H2) L1 L2. destruct (M k E); lia. Qed.

Lemma mreq_cases fa r eff s :
  (fst (mreq fa r eff s) = Ok tt /\ st_b (snd (mreq fa r eff s)) = eff (st_b s) /\ miss fa (st_n s) (st_n s + 1)) \/
  (fst (mreq fa r eff s) = Err /\ st_b (snd (mreq fa r eff s)) = st_b s /\ hit fa (st_n s) (st_n s + 1)).
Proof.
  unfold mreq. destruct fa as [k|]; cbn [fst snd st_b].
  - destruct (st_n s =? k) eqn:E.
    + right. repeat split. exists k. repeat split; lia.
    + left. repeat split. intros k' E'. injection E' as <-. lia.
  - left. repeat split. intros k' E'. discriminate.
Qed.

Lemma mreq_n fa r eff s : st_n (snd (mreq fa r eff s)) = st_n s + 1.
Proof. reflexivity. Qed.

Lemma mreq_same_b fa r s : st_b (snd (mreq fa r same s)) = st_b s.
Proof. unfold mreq, same. cbn [snd st_b]. now destruct (match fa with Some k => st_n s =? k | None => false end). Qed.

(** outcome of one step of a request program, without the log *)
Definition step_ok (fa : option N) (s : st) (cost : N) (eff : bucket -> bucket) (rs : res unit * st) : Prop :=
  (fst rs = Ok tt /\ st_b (snd rs) = eff (st_b s) /\ st_n (snd rs) = st_n s + cost /\ miss fa (st_n s) (st_n s + cost)) \/
  (fst rs = Err /\ st_b (snd rs) = st_b s /\ st_n s < st_n (snd rs) /\ hit fa (st_n s) (st_n (snd rs))).

Lemma mreq_step fa r eff s : step_ok fa s 1 eff (mreq fa r eff s).
Proof.
  destruct (mreq_cases fa r eff s) as [(A & B & C) | (A & B & C)]; [left|right]; rewrite ?mreq_n; repeat split; auto; lia.
Qed.

Lemma mp_parts_step fa key : forall todo i s,
  step_ok fa s (N.of_nat todo) same (mp_parts fa key i todo s).
Proof.
  induction todo as [|t IH]; intros i s.
  - left. cbn [mp_parts fst snd]. unfold same. repeat split; try lia. intros k _. lia.
  - cbn [mp_parts].
    pose proof (mreq_step fa (RMpPart key i) same s) as H1.
    destruct (mreq fa (RMpPart key i) same s) as [r1 s1] eqn:E1. unfold step_ok in H1; cbn [fst snd] in H1.
    destruct H1 as [(A & B & C & D) | (A & B & C & D)]; subst r1.
    + specialize (IH (i + 1) s1). unfold step_ok in IH |- *. destruct IH as [(A' & B' & C' & D') | (A' & B' & C' & D')].
      * left. repeat split; [assumption|unfold same in *; congruence|lia|].
        apply (miss_join fa _ (st_n s1) _); [rewrite C; exact D| |lia|lia].
        replace (st_n s + N.of_nat (S t)) with (st_n s1 + N.of_nat t) by lia. exact D'.
      * right. repeat split; [assumption|unfold same in *; congruence|lia|]. eapply hit_widen; [exact D'|lia|lia].
    + right. cbn [fst snd]. rewrite mreq_n, mreq_same_b. repeat split; [assumption|lia|]. eapply hit_widen; [exact D|lia|lia].
Qed.

Lemma put_cost_multipart len : K_S3_PART_SIZE <? len = true -> put_cost len = 1 + N.of_nat (N.to_nat (n_parts len)) + 1.
Proof. intros H. unfold put_cost. rewrite H. lia. Qed.

Lemma multipart_put_step fa key len tok s : K_S3_PART_SIZE <? len = true ->
  step_ok fa s (put_cost len) (bk_put key tok) (multipart_put fa key len tok s).
Proof.
  intros Hl. rewrite (put_cost_multipart _ Hl). unfold multipart_put.
  pose proof (mreq_step fa (RMpCreate key) same s) as H1.
  destruct (mreq fa (RMpCreate key) same s) as [r1 s1]. unfold step_ok in H1 |- *; cbn [fst snd] in H1.
  destruct H1 as [(A & B & C & D) | (A & B & C & D)]; subst r1.
  - pose proof (mp_parts_step fa key (N.to_nat (n_parts len)) 1 s1) as H2.
    destruct (mp_parts fa key 1 (N.to_nat (n_parts len)) s1) as [r2 s2]. unfold step_ok in H2; cbn [fst snd] in H2.
    destruct H2 as [(A2 & B2 & C2 & D2) | (A2 & B2 & C2 & D2)]; subst r2.
    + pose proof (mreq_step fa (RMpComplete key) (bk_put key tok) s2) as H3.
      destruct (mreq fa (RMpComplete key) (bk_put key tok) s2) as [r3 s3]. unfold step_ok in H3; cbn [fst snd] in H3.
      unfold same in *.
      destruct H3 as [(A3 & B3 & C3 & D3) | (A3 & B3 & C3 & D3)]; subst r3; cbn [fst snd].
      * left. repeat split; [congruence|lia|].
        apply (miss_join fa _ (st_n s2) _);
          [apply (miss_join fa _ (st_n s1) _); [rewrite C; exact D|rewrite C2; exact D2|lia|lia]
          |replace (st_n s + (1 + N.of_nat (N.to_nat (n_parts len)) + 1)) with (st_n s2 + 1) by lia; exact D3
          |lia|lia].
      * right. repeat split; [congruence|lia|]. eapply hit_widen; [exact D3|lia|lia].
    + right. cbn [fst snd]. unfold same in *. repeat split; [congruence|lia|]. eapply hit_widen; [exact D2|lia|lia].
  - right. cbn [fst snd]. repeat split; auto.
Qed.

Lemma put_object_file_step fa cp path len tok s :
  step_ok fa s (put_cost len) (bk_put (join cp path) tok) (put_object_file fa cp path len tok s).
Proof.
  unfold put_object_file. destruct (K_S3_PART_SIZE <? len) eqn:E.
  - now apply multipart_put_step.
  - replace (put_cost len) with 1 by (unfold put_cost; now rewrite E). apply mreq_step.
Qed.

(* ------------------------------------------------------------------ upload loop and rollback *)

(** [bk] agrees with the initial bucket [b0] outside the keys of the paths in [done] *)
Definition agrees (cp : bytes) (b0 : bucket) (done : list bytes) (bk : bucket) : Prop :=
  forall x, ~ In x (map (join cp) done) -> bk_get x bk = bk_get x b0.

Lemma agrees_put cp b0 done bk p tok :
  agrees cp b0 done bk -> agrees cp b0 (done ++ [p]) (bk_put (join cp p) tok bk).
Proof.
  intros H x Hx. rewrite map_app, in_app_iff in Hx. cbn [map In] in Hx.
  rewrite bk_get_put. destruct (bytes_eqb x (join cp p)) eqn:E.
  - apply bytes_eqb_eq in E. subst. exfalso. apply Hx. right. now left.
  - apply H. intros Hin. apply Hx. now left.
Qed.

Lemma agrees_weaken cp b0 done p bk : agrees cp b0 done bk -> agrees cp b0 (done ++ [p]) bk.
Proof. intros H x Hx. apply H. intros Hin. apply Hx. rewrite map_app, in_app_iff. now left. Qed.

Lemma upload_loop_spec fa cp dst b0 : forall files done s,
  agrees cp b0 done (st_b s) ->
  let out := upload_loop fa cp dst files done s in
  agrees cp b0 (snd (fst out)) (st_b (snd out)) /\
  Forall (fun p => In p done \/ exists f, In f files /\ p = join dst (uf_rel f)) (snd (fst out)) /\
  ((fst (fst out) = Ok tt /\ st_n (snd out) = st_n s + upload_cost files /\
    miss fa (st_n s) (st_n s + upload_cost files) /\
    snd (fst out) = done ++ map (fun f => join dst (uf_rel f)) files) \/
   (fst (fst out) = Err /\ st_n s < st_n (snd out) /\ hit fa (st_n s) (st_n (snd out)))).
Proof.
  induction files as [|f fs IH]; intros done s Hag; cbn zeta.
  - cbn [upload_loop fst snd upload_cost fold_right map]. split; [assumption|]. split.
    + rewrite Forall_forall. auto.
    + left. rewrite app_nil_r. repeat split; try lia. intros k _. lia.
  - cbn [upload_loop].
    pose proof (put_object_file_step fa cp (join dst (uf_rel f)) (uf_len f) (uf_tok f) s) as H1.
    destruct (put_object_file fa cp (join dst (uf_rel f)) (uf_len f) (uf_tok f) s) as [r1 s1].
    unfold step_ok in H1; cbn [fst snd] in H1. destruct H1 as [(A & B & C & D) | (A & B & C & D)]; subst r1.
    + assert (Hag1 : agrees cp b0 (done ++ [join dst (uf_rel f)]) (st_b s1)) by (rewrite B; now apply agrees_put).
      specialize (IH (done ++ [join dst (uf_rel f)]) s1 Hag1). cbn zeta in IH.
      destruct IH as (I1 & I2 & I3). split; [assumption|]. split.
      * rewrite Forall_forall in *. intros p Hp. destruct (I2 p Hp) as [Hin | (f' & Hf' & ->)].
        -- apply in_app_iff in Hin as [Hin | [<- | []]]; [now left|]. right. exists f. split; [now left|reflexivity].
        -- right. exists f'. split; [now right|reflexivity].
      * cbn [upload_cost fold_right] in *. fold (upload_cost fs).
        destruct I3 as [(J1 & J2 & J3 & J4) | (J1 & J2 & J3)].
        -- left. repeat split; [assumption|lia| |].
           ++ apply (miss_join fa _ (st_n s1) _); [rewrite C; exact D| |lia|lia].
              replace (st_n s + (put_cost (uf_len f) + upload_cost fs)) with (st_n s1 + upload_cost fs) by lia.
              exact J3.
           ++ rewrite J4. cbn [map]. now rewrite <- app_assoc.
        -- right. repeat split; [assumption|lia|]. eapply hit_widen; [exact J3|lia|lia].
    + cbn [fst snd]. split; [now rewrite B|]. split.
      * rewrite Forall_forall. auto.
      * right. repeat split; assumption.
Qed.

Lemma rollback_spec fa cp : forall done s, fault_past fa (st_n s) ->
  forall x, bk_get x (st_b (rollback fa cp done s)) =
            if existsb (bytes_eqb x) (map (join cp) done) then None else bk_get x (st_b s).
Proof.
  induction done as [|p r IH]; intros s Hp x; [reflexivity|].
  cbn [rollback map existsb]. unfold delete_object.
  destruct (mreq_cases fa (RDelete (join cp p)) (bk_remove (join cp p)) s) as [(A & B & C) | (A & B & (k & E & L1 & L2))].
  - rewrite IH by (rewrite mreq_n; eapply fault_past_mono; [exact Hp|lia]).
    rewrite B, bk_get_remove. destruct (bytes_eqb x (join cp p)); cbn [orb]; [|reflexivity].
    now destruct (existsb _ _).
  - specialize (Hp k E). lia.
Qed.

Lemma rollback_restores fa cp b0 done s :
  agrees cp b0 done (st_b s) -> fault_past fa (st_n s) ->
  (forall p, In p done -> bk_get (join cp p) b0 = None) ->
  forall x, bk_get x (st_b (rollback fa cp done s)) = bk_get x b0.
Proof.
  intros Hag Hp Habs x. rewrite rollback_spec by assumption.
  destruct (existsb (bytes_eqb x) (map (join cp) done)) eqn:E.
  - apply existsb_exists in E as (y & Hy & Ey). apply bytes_eqb_eq in Ey. subst y.
    apply in_map_iff in Hy as (p & <- & Hp'). symmetry. now apply Habs.
  - apply Hag. intros Hin. assert (existsb (bytes_eqb x) (map (join cp) done) = true) as X.
    { apply existsb_exists. exists x. split; [assumption|apply bytes_eqb_refl]. }
    congruence.
Qed.

(* ------------------------------------------------------------------ keys under the version prefix *)

Lemma under_prefix cp dst rel : pfx_ok cp = true -> relb dst = true -> relb rel = true ->
  starts_with (request_prefix cp dst) (join cp (join dst rel)) = true.
Proof.
  intros Hc Hd Hr. unfold request_prefix, join_ts.
  rewrite (join_relb dst rel) by assumption.
  rewrite (join_under cp dst), (join_under cp (dst ++ slash :: rel)) by (auto using relb_app).
  assert (R : relb (under cp dst) = true \/ cp <> []).
  { destruct cp; [left; exact Hd|right; discriminate]. }
  assert (L : last_is_slash (under cp dst) = false /\ under cp dst <> []).
  { apply relb_inv in Hd as (Hd1 & _ & Hd3). destruct cp as [|c cp]; cbn [under]; [auto|].
    split; [|discriminate]. destruct dst as [|d dst]; [congruence|].
    change (c :: cp ++ slash :: d :: dst) with ((c :: cp ++ [slash]) ++ d :: dst).
    now rewrite last_is_slash_app. }
  destruct L as [L1 L2]. apply is_nil_false in L2. rewrite L1, L2. cbn [negb andb].
  destruct cp as [|c cp]; cbn [under].
  - rewrite starts_with_app_same. reflexivity.
  - rewrite <- app_assoc. rewrite (starts_with_app_same (c :: cp)).
    cbn [app starts_with]. change (Ascii.eqb slash slash) with true. cbn [andb].
    rewrite starts_with_app_same. reflexivity.
Qed.

(* ------------------------------------------------------------------ the upload order (commit 4953bf6) *)

Lemma upload_rank_cases rel : upload_rank rel = 0 \/ upload_rank rel = 1 \/ upload_rank rel = 2.
Proof. unfold upload_rank. destruct (bytes_eqb _ _); [auto|]. destruct (starts_with _ _); auto. Qed.

(** the sort loses and invents nothing *)
Lemma upload_order_perm files : Permutation (upload_order files) files.
Proof.
  unfold upload_order. induction files as [|f fs IH]; [constructor|].
  cbn [filter].
  destruct (upload_rank_cases (uf_rel f)) as [E | [E | E]].
  - assert (rank_is 0 f = true /\ rank_is 1 f = false /\ rank_is 2 f = false) as (R0 & R1 & R2)
      by (unfold rank_is; rewrite E; repeat split; reflexivity).
    rewrite R0, R1, R2. cbn [app]. apply perm_skip. exact IH.
  - assert (rank_is 0 f = false /\ rank_is 1 f = true /\ rank_is 2 f = false) as (R0 & R1 & R2)
      by (unfold rank_is; rewrite E; repeat split; reflexivity).
    rewrite R0, R1, R2. cbn [app]. symmetry. apply Permutation_cons_app. symmetry. exact IH.
  - assert (rank_is 0 f = false /\ rank_is 1 f = false /\ rank_is 2 f = true) as (R0 & R1 & R2)
      by (unfold rank_is; rewrite E; repeat split; reflexivity).
    rewrite R0, R1, R2. rewrite app_assoc. symmetry. apply Permutation_cons_app. rewrite <- app_assoc. symmetry. exact IH.
Qed.

Lemma upload_order_forall (P : ufile -> Prop) files : Forall P files -> Forall P (upload_order files).
Proof.
  rewrite !Forall_forall. intros H f Hf. apply H. eapply Permutation_in; [apply upload_order_perm|exact Hf].
Qed.

Lemma upload_cost_perm l l' : Permutation l l' -> upload_cost l = upload_cost l'.
Proof.
  unfold upload_cost. induction 1; cbn [fold_right]; lia.
Qed.

Lemma upload_order_cost files : upload_cost (upload_order files) = upload_cost files.
Proof. apply upload_cost_perm, upload_order_perm. Qed.

Lemma rank_is_inv n f : rank_is n f = true -> upload_rank (uf_rel f) = n.
Proof. unfold rank_is. intros H. now apply N.eqb_eq in H. Qed.

Lemma rank_1_name f : rank_is 1 f = true -> uf_rel f = K_INVENTORY_FILE.
Proof.
  intros H. apply rank_is_inv in H. unfold upload_rank in H.
  destruct (bytes_eqb (uf_rel f) K_INVENTORY_FILE) eqn:E; [now apply bytes_eqb_eq in E|].
  destruct (starts_with _ _); discriminate.
Qed.

Lemma rank_2_name f : rank_is 2 f = true ->
  starts_with K_INVENTORY_SIDECAR_PREFIX (uf_rel f) = true /\ uf_rel f <> K_INVENTORY_FILE.
Proof.
  intros H. apply rank_is_inv in H. unfold upload_rank in H.
  destruct (bytes_eqb (uf_rel f) K_INVENTORY_FILE) eqn:E; [discriminate|].
  apply bytes_eqb_false in E. destruct (starts_with _ _); [auto|discriminate].
Qed.

Lemma rank_0_name f : rank_is 0 f = true ->
  uf_rel f <> K_INVENTORY_FILE /\ starts_with K_INVENTORY_SIDECAR_PREFIX (uf_rel f) = false.
Proof.
  intros H. apply rank_is_inv in H. unfold upload_rank in H.
  destruct (bytes_eqb (uf_rel f) K_INVENTORY_FILE) eqn:E; [discriminate|].
  apply bytes_eqb_false in E. destruct (starts_with _ _); [discriminate|auto].
Qed.

(* ------------------------------------------------------------------ well-formed commits *)

(** a declaration file name: a plain name "0=ocfl_object_<something>" *)
Definition decl_name_ok (name : bytes) : bool :=
  nameb name && starts_with K_OBJECT_NAMASTE_FILE_PREFIX name &&
  Nat.ltb (List.length K_OBJECT_NAMASTE_FILE_PREFIX) (List.length name).

Record nv_wf (cp : bytes) (i : nv_input) : Prop := mkNvWf {
  wf_cp : pfx_ok cp = true;
  wf_root : relb (nv_root i) = true;
  wf_root_boundary : head_is_boundary (nv_root i) = true;      (* object roots are Rust Strings *)
  wf_vstr : relb (nv_vstr i) = true;
  wf_files : Forall (fun f => relb (uf_rel f) = true) (nv_files i);
  wf_sidecar : nv_old_sidecar i = uf_rel (nv_sidecar i);       (* the digest algorithm of an object never changes *)
  wf_decl : forall name content, nv_upgrade i = Some (name, content) -> decl_name_ok name = true
}.

Definition vdst_of (i : nv_input) : bytes := join (nv_root i) (nv_vstr i).
Definition clear_under (cp dst : bytes) (bk : bucket) : Prop :=
  forall k, In k (bk_keys bk) -> starts_with (request_prefix cp dst) k = false.
Definition inv_key (cp : bytes) (i : nv_input) : bytes := join cp (join (nv_root i) K_INVENTORY_FILE).
Definition sc_key (cp : bytes) (i : nv_input) : bytes := join cp (join (nv_root i) (uf_rel (nv_sidecar i))).

(** the state a version commit starts from: nothing below <root>/vN/, and the object is there
    (write_new_version has just parsed its root inventory, s3.rs:557) with its sidecar *)
Record nv_ready (cp : bytes) (i : nv_input) (bk : bucket) : Prop := mkNvReady {
  rd_clear : clear_under cp (vdst_of i) bk;
  rd_inv : bk_get (inv_key cp i) bk <> None;
  rd_sc : bk_get (sc_key cp i) bk <> None
}.

Lemma rollback_n_mono fa cp : forall done s, st_n s <= st_n (rollback fa cp done s).
Proof.
  induction done as [|p r IH]; intros s; cbn [rollback]; [lia|].
  specialize (IH (snd (delete_object fa cp p s))). unfold delete_object in IH. rewrite mreq_n in IH.
  unfold delete_object. lia.
Qed.

Lemma agrees_refl cp b0 : agrees cp b0 [] b0.
Proof. intros x _. reflexivity. Qed.

Lemma upload_all_spec fa cp dst files s :
  pfx_ok cp = true -> relb dst = true -> Forall (fun f => relb (uf_rel f) = true) files ->
  clear_under cp dst (st_b s) ->
  let out := upload_all fa cp dst files s in
  (exists uploaded, fst out = Ok uploaded /\ agrees cp (st_b s) uploaded (st_b (snd out)) /\
     (forall p, In p uploaded -> bk_get (join cp p) (st_b s) = None) /\
     st_n (snd out) = st_n s + upload_cost files /\ miss fa (st_n s) (st_n s + upload_cost files)) \/
  (fst out = Err /\ (forall x, bk_get x (st_b (snd out)) = bk_get x (st_b s)) /\
   hit fa (st_n s) (st_n (snd out))).
Proof.
  intros Hc Hd Hf Hclear. cbn zeta. unfold upload_all, do_with_rollback. set (b0 := st_b s) in *.
  apply upload_order_forall in Hf. rewrite <- (upload_order_cost files).
  pose proof (upload_loop_spec fa cp dst b0 (upload_order files) [] s (agrees_refl cp b0)) as H.
  cbn zeta in H. destruct (upload_loop fa cp dst (upload_order files) [] s) as [[r done'] s1].
  cbn [fst snd] in H. destruct H as (Hag & Hall & Hres).
  assert (Habs : forall p, In p done' -> bk_get (join cp p) b0 = None).
  { rewrite Forall_forall in Hall, Hf. intros p Hp. destruct (Hall p Hp) as [[] | (f & Hin & ->)].
    apply (clear_get_none (request_prefix cp dst)); [exact Hclear|]. apply under_prefix; auto. }
  destruct Hres as [(-> & Hn & Hm & _) | (-> & Hlt & Hh)].
  - left. exists done'. cbn [fst snd] in *. repeat split; auto.
  - right. cbn [fst snd]. split; [reflexivity|]. split.
    + apply rollback_restores; auto. eapply hit_past; exact Hh.
    + eapply hit_widen; [exact Hh|lia|]. apply rollback_n_mono.
Qed.

(* ------------------------------------------------------------------ find_files: the delimited listing of the object root *)

Lemma map_res_ok_in {A B} (f : A -> res B) : forall l ys, map_res f l = Ok ys ->
  forall y, In y ys <-> exists x, In x l /\ f x = Ok y.
Proof.
  induction l as [|a r IH]; intros ys H y; cbn [map_res] in H.
  - injection H as <-. split; [intros []|intros (x & [] & _)].
  - destruct (f a) as [b0| |] eqn:Fa; [|discriminate|discriminate].
    destruct (map_res f r) as [xs| |] eqn:Fr; [|discriminate|discriminate].
    injection H as <-. specialize (IH xs eq_refl y). cbn [In]. split.
    + intros [<- | Hy]; [exists a; auto|]. apply IH in Hy as (x & Hx & E). exists x. auto.
    + intros (x & [<- | Hx] & E); [left; congruence|]. right. apply IH. eauto.
Qed.

Lemma map_res_all_ok {A B} (f : A -> res B) : forall l,
  (forall x, In x l -> exists y, f x = Ok y) -> exists ys, map_res f l = Ok ys.
Proof.
  induction l as [|a r IH]; intros H; [exists []; reflexivity|].
  destruct (H a (or_introl eq_refl)) as [y Ey]. destruct IH as [ys Eys]; [intros x Hx; apply H; now right|].
  exists (y :: ys). cbn [map_res]. now rewrite Ey, Eys.
Qed.

Lemma classify_key rp delim k e : classify rp delim k = Some (EKey e) -> e = k /\ starts_with rp k = true.
Proof.
  unfold classify. destruct (starts_with rp k); [|discriminate]. destruct delim.
  - destruct (upto_slash _); [discriminate|]. intros H. injection H as <-. auto.
  - intros H. injection H as <-. auto.
Qed.

Lemma upto_slash_some : forall s seg, upto_slash s = Some seg -> exists x, seg = x ++ [slash].
Proof.
  induction s as [|c r IH]; intros seg H; cbn [upto_slash] in H; [discriminate|].
  destruct (is_slash c) eqn:E.
  - injection H as <-. apply is_slash_eq in E. subst c. exists []. reflexivity.
  - destruct (upto_slash r) as [x|]; [|discriminate]. injection H as <-.
    destruct (IH x eq_refl) as [y ->]. exists (c :: y). reflexivity.
Qed.

Lemma upto_slash_noslash : forall s, noslash s = true -> upto_slash s = None.
Proof.
  induction s as [|c r IH]; intros H; [reflexivity|]. cbn [noslash forallb] in H.
  apply andb_true_iff in H as [H1 H2]. cbn [upto_slash]. destruct (is_slash c); [discriminate|].
  unfold noslash in IH. now rewrite IH.
Qed.

Lemma classify_pre rp k p : classify rp true k = Some (EPre p) ->
  starts_with rp k = true /\ exists x, p = rp ++ x ++ [slash].
Proof.
  unfold classify. destruct (starts_with rp k); [|discriminate].
  destruct (upto_slash _) as [seg|] eqn:U; [|discriminate]. intros H. injection H as <-.
  destruct (upto_slash_some _ _ U) as [x ->]. eauto.
Qed.

Lemma classify_plain rp name : noslash name = true -> classify rp true (rp ++ name) = Some (EKey (rp ++ name)).
Proof.
  intros H. unfold classify. rewrite starts_with_refl_app, skipn_length_app. now rewrite upto_slash_noslash.
Qed.

Lemma entries_keys_in rp keys : forall seen k,
  In k (keys_of_entries (entries_of seen rp true keys)) <-> In k keys /\ classify rp true k = Some (EKey k).
Proof.
  induction keys as [|k0 ks IH]; intros seen k; cbn [entries_of keys_of_entries flat_map In].
  - split; [intros []|intros [[] _]].
  - destruct (classify rp true k0) as [[e|p]|] eqn:C.
    + destruct (classify_key _ _ _ _ C) as [-> _]. cbn [keys_of_entries flat_map app In].
      fold (keys_of_entries (entries_of seen rp true ks)). rewrite IH. split.
      * intros [<- | [H1 H2]]; auto.
      * intros [[<- | H1] H2]; auto.
    + destruct (existsb (bytes_eqb p) seen).
      * rewrite IH. split; [intros [H1 H2]; auto|]. intros [[<- | H1] H2]; [congruence|auto].
      * cbn [keys_of_entries flat_map app]. fold (keys_of_entries (entries_of (p :: seen) rp true ks)).
        rewrite IH. split; [intros [H1 H2]; auto|]. intros [[<- | H1] H2]; [congruence|auto].
    + rewrite IH. split; [intros [H1 H2]; auto|]. intros [[<- | H1] H2]; [congruence|auto].
Qed.

Lemma entries_pres_in rp keys : forall seen p,
  In p (pres_of_entries (entries_of seen rp true keys)) -> exists k, In k keys /\ classify rp true k = Some (EPre p).
Proof.
  induction keys as [|k0 ks IH]; intros seen p; cbn [entries_of pres_of_entries flat_map In]; [intros []|].
  destruct (classify rp true k0) as [[e|q]|] eqn:C.
  - cbn [pres_of_entries flat_map app]. fold (pres_of_entries (entries_of seen rp true ks)).
    intros H. apply IH in H as (k & Hk & E). exists k. split; [now right|assumption].
  - destruct (existsb (bytes_eqb q) seen).
    + intros H. apply IH in H as (k & Hk & E). exists k. split; [now right|assumption].
    + cbn [pres_of_entries flat_map app In]. fold (pres_of_entries (entries_of (q :: seen) rp true ks)).
      intros [<- | H]; [exists k0; split; [now left|assumption]|].
      apply IH in H as (k & Hk & E). exists k. split; [now right|assumption].
  - intros H. apply IH in H as (k & Hk & E). exists k. split; [now right|assumption].
Qed.

Lemma head_boundary_app a r : a <> [] -> head_is_boundary (a ++ r) = head_is_boundary a.
Proof. destruct a; [congruence|reflexivity]. Qed.

Lemma under_app cp a r : a <> [] -> under cp a ++ r = under cp (a ++ r).
Proof.
  intros Ha. destruct cp as [|c cp]; cbn [under]; [reflexivity|].
  rewrite <- app_assoc. cbn [app]. reflexivity.
Qed.

Lemma slice_under_inv cp rel o : slice_from (prefix_offset cp) (under cp rel) = Ok o -> o = rel.
Proof.
  destruct cp as [|c cp].
  - unfold slice_from. cbn [prefix_offset under Nat.ltb Nat.leb skipn].
    destruct (head_is_boundary rel); [|discriminate]. intros H. now injection H.
  - unfold slice_from, prefix_offset, under.
    replace ((c :: cp) ++ slash :: rel) with (((c :: cp) ++ [slash]) ++ rel) by now rewrite <- app_assoc.
    replace (S (List.length (c :: cp))) with (List.length ((c :: cp) ++ [slash]))
      by (rewrite app_length; cbn; lia).
    rewrite skipn_length_app. destruct (Nat.ltb _ _); [discriminate|].
    destruct (head_is_boundary rel); [|discriminate]. intros H. now injection H.
Qed.

Lemma slice_dir_snoc off q : slice_dir off (q ++ [slash]) = slice_from off q.
Proof.
  unfold slice_dir. destruct (q ++ [slash]) eqn:Z; [destruct q; discriminate|]. rewrite <- Z.
  rewrite last_last, removelast_last. reflexivity.
Qed.

(** the delimited listing of an object root never fails to slice its answers, whatever the keys *)
Lemma list_dir_ok keys cp root :
  pfx_ok cp = true -> relb root = true -> head_is_boundary root = true ->
  exists objs dirs, list_all keys cp root true = Ok (objs, dirs) /\
    forall o, In o objs <-> exists k, In k keys /\ classify (request_prefix cp root) true k = Some (EKey k)
                                      /\ slice_from (prefix_offset cp) k = Ok o.
Proof.
  intros Hc Hr Hb. unfold list_all, process_page.
  pose proof (request_prefix_dir cp root Hc Hr) as RP. set (rp := request_prefix cp root) in *.
  assert (Hne : root <> []) by (now apply relb_inv in Hr).
  assert (RelOk : forall t, slice_from (prefix_offset cp) (rp ++ t) = Ok ((root ++ [slash]) ++ t)).
  { intros t. rewrite RP, under_app by (destruct root; discriminate).
    apply slice_under. rewrite <- app_assoc. now rewrite head_boundary_app. }
  destruct (map_res_all_ok (slice_from (prefix_offset cp)) (keys_of_entries (entries_of [] rp true keys))) as [objs Eo].
  { intros k Hk. apply entries_keys_in in Hk as [_ C]. apply classify_key in C as [_ S].
    apply starts_with_inv in S as [t ->]. eauto. }
  destruct (map_res_all_ok (slice_dir (prefix_offset cp)) (pres_of_entries (entries_of [] rp true keys))) as [dirs Ed].
  { intros p Hp. apply entries_pres_in in Hp as (k & _ & C). apply classify_pre in C as (_ & x & ->).
    rewrite app_assoc, slice_dir_snoc, RelOk. eauto. }
  exists objs, dirs. rewrite Eo, Ed. split; [reflexivity|].
  intros o. rewrite (map_res_ok_in _ _ _ Eo). split.
  - intros (k & Hk & E). apply entries_keys_in in Hk as [H1 H2]. eauto.
  - intros (k & H1 & H2 & E). exists k. split; [|assumption]. apply entries_keys_in. auto.
Qed.

Lemma namaste_prefix_relb : relb K_OBJECT_NAMASTE_FILE_PREFIX = true.
Proof. reflexivity. Qed.

Lemma decl_name_inv name : decl_name_ok name = true ->
  nameb name = true /\ starts_with K_OBJECT_NAMASTE_FILE_PREFIX name = true /\
  (List.length K_OBJECT_NAMASTE_FILE_PREFIX < List.length name)%nat.
Proof.
  unfold decl_name_ok. intros H. apply andb_true_iff in H as [H H3]. apply andb_true_iff in H as [H1 H2].
  apply Nat.ltb_lt in H3. auto.
Qed.

Lemma bk_keys_get x bk : In x (bk_keys bk) -> bk_get x bk <> None.
Proof.
  induction bk as [|[k v] r IH]; cbn [bk_keys map fst In bk_get]; [intros []|].
  destruct (bytes_eqb x k) eqn:E; [discriminate|]. intros [<- | H]; [now rewrite bytes_eqb_refl in E|].
  now apply IH.
Qed.

(** find_files on the object root answers, and it finds the declaration file [name] exactly
    when its key is stored *)
Lemma find_files_spec bk cp root name :
  pfx_ok cp = true -> relb root = true -> head_is_boundary root = true -> decl_name_ok name = true ->
  exists olds, find_files (bk_keys bk) cp root K_OBJECT_NAMASTE_FILE_PREFIX = Ok olds /\
    (In (join root name) olds <-> bk_get (join cp (join root name)) bk <> None).
Proof.
  intros Hc Hr Hb Hn. apply decl_name_inv in Hn as (Hn1 & Hn2 & Hn3).
  pose proof (nameb_relb _ Hn1) as Hnr. apply nameb_inv in Hn1 as (Hne & Hns & Hnb).
  unfold find_files. destruct (list_dir_ok (bk_keys bk) cp root Hc Hr Hb) as (objs & dirs & -> & Hobjs).
  eexists. split; [reflexivity|].
  pose proof (request_prefix_dir cp root Hc Hr) as RP.
  assert (Hrne : root <> []) by (now apply relb_inv in Hr).
  rewrite (join_relb root name Hr Hnr), (join_relb root _ Hr namaste_prefix_relb).
  rewrite (join_under cp (root ++ slash :: name)) by (auto using relb_app).
  rewrite filter_In, Hobjs. split.
  - intros [(k & Hk & C & E) _]. apply classify_key in C as [_ S].
    destruct (prefix_offset_exact cp root k Hc S) as (rel & -> & _).
    apply slice_under_inv in E. subst rel. now apply bk_keys_get.
  - intros H. apply bk_get_in_keys in H. split.
    + exists (under cp (root ++ slash :: name)). split; [assumption|].
      assert (E : under cp (root ++ slash :: name) = request_prefix cp root ++ name).
      { rewrite RP, under_app by (destruct root; discriminate). now rewrite <- app_assoc. }
      split.
      * rewrite E. now apply classify_plain.
      * apply slice_under. now rewrite head_boundary_app.
    + apply andb_true_iff. split.
      * apply Nat.ltb_lt. rewrite !app_length. cbn [List.length]. lia.
      * rewrite starts_with_app_same. cbn [starts_with]. change (Ascii.eqb slash slash) with true. exact Hn2.
Qed.

(* ------------------------------------------------------------------ requests after the fault has passed *)

Lemma mreq_past fa r eff s : fault_past fa (st_n s) ->
  mreq fa r eff s = (Ok tt, mkSt (eff (st_b s)) (st_n s + 1) (st_log s ++ [r])).
Proof.
  intros H. unfold mreq. destruct fa as [k|]; [|reflexivity].
  specialize (H k eq_refl). destruct (st_n s =? k) eqn:E; [lia|reflexivity].
Qed.

(** [fixed T cur x]: key [x] reads in [cur] as it does in the target bucket [T] *)
Definition fixed (T cur : bucket) (x : bytes) : Prop := bk_get x cur = bk_get x T.

Lemma restore_object_pres fa cp p T s : fault_past fa (st_n s) ->
  let s' := restore_object fa cp p (bk_get (join cp p) T) s in
  fault_past fa (st_n s') /\ (forall x, fixed T (st_b s) x -> fixed T (st_b s') x) /\
  (bk_get (join cp p) T <> None -> fixed T (st_b s') (join cp p)).
Proof.
  intros Hp. cbn zeta. unfold restore_object. destruct (bk_get (join cp p) T) as [c|] eqn:E.
  - unfold put_object_bytes. rewrite mreq_past by assumption. cbn [snd st_n st_b]. split; [|split].
    + eapply fault_past_mono; [exact Hp|lia].
    + intros x Hx. unfold fixed in *. rewrite bk_get_put. destruct (bytes_eqb x (join cp p)) eqn:X; [|assumption].
      apply bytes_eqb_eq in X. subst x. now rewrite E.
    + intros _. unfold fixed. now rewrite bk_get_put, bytes_eqb_refl, E.
  - split; [assumption|]. split; [auto|congruence].
Qed.

Lemma restore_each_pres fa cp T : forall paths s, fault_past fa (st_n s) ->
  let s' := restore_each fa cp (map (fun p => (p, bk_get (join cp p) T)) paths) s in
  fault_past fa (st_n s') /\ (forall x, fixed T (st_b s) x -> fixed T (st_b s') x) /\
  (forall p, In p paths -> bk_get (join cp p) T <> None -> fixed T (st_b s') (join cp p)).
Proof.
  induction paths as [|p r IH]; intros s Hp; cbn zeta; cbn [map restore_each].
  - split; [assumption|]. split; [auto|intros p []].
  - destruct (restore_object_pres fa cp p T s Hp) as (A1 & A2 & A3). cbn zeta in A1, A2, A3.
    destruct (IH _ A1) as (B1 & B2 & B3). cbn zeta in B1, B2, B3.
    split; [assumption|]. split; [auto|]. intros q [<- | Hq] Hn; auto.
Qed.

Lemma delete_pres fa cp p T s : fault_past fa (st_n s) -> bk_get (join cp p) T = None ->
  let s' := snd (delete_object fa cp p s) in
  fault_past fa (st_n s') /\ (forall x, fixed T (st_b s) x -> fixed T (st_b s') x) /\ fixed T (st_b s') (join cp p).
Proof.
  intros Hp E. cbn zeta. unfold delete_object. rewrite mreq_past by assumption. cbn [snd st_n st_b]. split; [|split].
  - eapply fault_past_mono; [exact Hp|lia].
  - intros x Hx. unfold fixed in *. rewrite bk_get_remove. destruct (bytes_eqb x (join cp p)) eqn:X; [|assumption].
    apply bytes_eqb_eq in X. subst x. now rewrite E.
  - unfold fixed. now rewrite bk_get_remove, bytes_eqb_refl, E.
Qed.

(* ------------------------------------------------------------------ outcome and frame of a request program *)

(** the program ran from [s]: either it succeeded and the fault lies outside its requests, or it
    failed and the fault lies among them *)
Definition outcome (fa : option N) (s : st) (rs : res unit * st) : Prop :=
  st_n s <= st_n (snd rs) /\
  ((fst rs = Ok tt /\ miss fa (st_n s) (st_n (snd rs))) \/ (fst rs = Err /\ hit fa (st_n s) (st_n (snd rs)))).

(** outside the keys [W] a key reads as before, or it is one of [D] and is gone *)
Definition frame (W D : list bytes) (b0 b1 : bucket) : Prop :=
  forall x, ~ In x W -> bk_get x b1 = bk_get x b0 \/ (bk_get x b1 = None /\ In x D).

Lemma frame_refl W D b0 : frame W D b0 b0.
Proof. intros x _. now left. Qed.

Lemma frame_trans W D b0 b1 b2 : frame W D b0 b1 -> frame W D b1 b2 -> frame W D b0 b2.
Proof.
  intros H1 H2 x Hx. destruct (H2 x Hx) as [E | E]; [|now right]. rewrite E. now apply H1.
Qed.

Lemma step_outcome fa s cost eff rs : step_ok fa s cost eff rs -> outcome fa s rs.
Proof.
  intros [(A & B & C & D) | (A & B & C & D)]; unfold outcome.
  - rewrite C. split; [lia|]. left. auto.
  - split; [lia|]. right. auto.
Qed.

Lemma step_put_frame fa s cost key tok rs W D :
  step_ok fa s cost (bk_put key tok) rs -> In key W -> frame W D (st_b s) (st_b (snd rs)).
Proof.
  intros [(A & B & C & E) | (A & B & C & E)] Hin x Hx; rewrite B; [|now left].
  left. rewrite bk_get_put. destruct (bytes_eqb x key) eqn:X; [|reflexivity].
  apply bytes_eqb_eq in X. subst x. contradiction.
Qed.

Lemma step_del_frame fa s cost key rs W D :
  step_ok fa s cost (bk_remove key) rs -> In key D -> frame W D (st_b s) (st_b (snd rs)).
Proof.
  intros [(A & B & C & E) | (A & B & C & E)] Hin x Hx; rewrite B; [|now left].
  rewrite bk_get_remove. destruct (bytes_eqb x key) eqn:X; [|now left].
  apply bytes_eqb_eq in X. subst x. right. auto.
Qed.

Lemma outcome_seq fa s r1 s1 rs2 :
  outcome fa s (r1, s1) -> r1 = Ok tt -> outcome fa s1 rs2 -> outcome fa s rs2.
Proof.
  unfold outcome. cbn [fst snd]. intros (L1 & O1) -> (L2 & O2). split; [lia|].
  destruct O1 as [(_ & M1) | (X & _)]; [|discriminate].
  destruct O2 as [(E2 & M2) | (E2 & H2)].
  - left. split; [assumption|]. eapply miss_join; eauto.
  - right. split; [assumption|]. eapply hit_widen; [exact H2|lia|lia].
Qed.

Lemma outcome_fail fa s r1 s1 : outcome fa s (r1, s1) -> r1 <> Ok tt -> outcome fa s (Err, s1).
Proof.
  unfold outcome. cbn [fst snd]. intros (L1 & [(E & _) | (E & H)]) Hne; [congruence|]. split; [assumption|]. right. auto.
Qed.

Lemma outcome_res fa s rs : outcome fa s rs -> fst rs = Ok tt \/ fst rs = Err.
Proof. intros (_ & [(E & _) | (E & _)]); auto. Qed.

Lemma delete_each_spec fa cp W : forall paths D s, incl (map (join cp) paths) D ->
  let rs := delete_each fa cp paths s in
  outcome fa s rs /\ frame W D (st_b s) (st_b (snd rs)).
Proof.
  induction paths as [|p r IH]; intros D s Hincl; cbn zeta; cbn [delete_each].
  - split; [|apply frame_refl]. unfold outcome. cbn [fst snd]. split; [lia|]. left. split; [reflexivity|].
    intros k _. lia.
  - unfold delete_object.
    pose proof (mreq_step fa (RDelete (join cp p)) (bk_remove (join cp p)) s) as H1.
    pose proof (step_outcome _ _ _ _ _ H1) as O1.
    assert (F1 : frame W D (st_b s) (st_b (snd (mreq fa (RDelete (join cp p)) (bk_remove (join cp p)) s)))).
    { eapply step_del_frame; [exact H1|]. apply Hincl. now left. }
    destruct (mreq fa (RDelete (join cp p)) (bk_remove (join cp p)) s) as [r1 s1]. cbn [snd] in F1.
    destruct r1 as [[]| |].
    + destruct (IH D s1) as [O2 F2]; [intros x Hx; apply Hincl; now right|]. cbn zeta in O2, F2. split.
      * eapply outcome_seq; eauto.
      * eapply frame_trans; eauto.
    + split; [|assumption]. eapply outcome_fail; [exact O1|discriminate].
    + split; [|assumption]. eapply outcome_fail; [exact O1|discriminate].
Qed.

(** the keys the install writes, and the keys it deletes *)
Definition new_key (cp : bytes) (i : nv_input) : list bytes :=
  match new_namaste (nv_root i) (nv_upgrade i) with Some nn => [join cp nn] | None => [] end.
Definition install_writes (cp : bytes) (i : nv_input) : list bytes := inv_key cp i :: sc_key cp i :: new_key cp i.

Lemma install_version_spec fa cp i olds s :
  let rs := install_version fa cp i olds s in
  outcome fa s rs /\ frame (install_writes cp i) (map (join cp) olds) (st_b s) (st_b (snd rs)).
Proof.
  cbn zeta. unfold install_version, do_with_rollback, install_body.
  set (W := install_writes cp i). set (D := map (join cp) olds).
  pose proof (put_object_file_step fa cp (join (nv_root i) K_INVENTORY_FILE) (uf_len (nv_inv i)) (uf_tok (nv_inv i)) s) as H1.
  pose proof (step_outcome _ _ _ _ _ H1) as O1.
  assert (F1 : frame W D (st_b s) (st_b (snd (put_object_file fa cp (join (nv_root i) K_INVENTORY_FILE) (uf_len (nv_inv i)) (uf_tok (nv_inv i)) s)))).
  { eapply step_put_frame; [exact H1|]. now left. }
  destruct (put_object_file fa cp (join (nv_root i) K_INVENTORY_FILE) _ _ s) as [r1 s1]. cbn [snd] in F1.
  destruct r1 as [[]| |]; cbn [rollback fst snd];
    [|split; [eapply outcome_fail; [exact O1|discriminate]|assumption]
     |split; [eapply outcome_fail; [exact O1|discriminate]|assumption]].
  pose proof (put_object_file_step fa cp (join (nv_root i) (uf_rel (nv_sidecar i))) (uf_len (nv_sidecar i)) (uf_tok (nv_sidecar i)) s1) as H2.
  pose proof (step_outcome _ _ _ _ _ H2) as O2.
  assert (F2 : frame W D (st_b s1) (st_b (snd (put_object_file fa cp (join (nv_root i) (uf_rel (nv_sidecar i))) (uf_len (nv_sidecar i)) (uf_tok (nv_sidecar i)) s1)))).
  { eapply step_put_frame; [exact H2|]. right. now left. }
  destruct (put_object_file fa cp (join (nv_root i) (uf_rel (nv_sidecar i))) _ _ s1) as [r2 s2]. cbn [snd] in F2.
  pose proof (outcome_seq _ _ _ _ _ O1 eq_refl O2) as O12.
  pose proof (frame_trans _ _ _ _ _ F1 F2) as F12.
  destruct r2 as [[]| |]; cbn [rollback fst snd];
    [|split; [eapply outcome_fail; [exact O12|discriminate]|assumption]
     |split; [eapply outcome_fail; [exact O12|discriminate]|assumption]].
  destruct (nv_upgrade i) as [[name content]|] eqn:U; [|split; assumption].
  unfold put_object_bytes.
  pose proof (mreq_step fa (RPut (join cp (join (nv_root i) name))) (bk_put (join cp (join (nv_root i) name)) content) s2) as H3.
  pose proof (step_outcome _ _ _ _ _ H3) as O3.
  assert (F3 : frame W D (st_b s2) (st_b (snd (mreq fa (RPut (join cp (join (nv_root i) name))) (bk_put (join cp (join (nv_root i) name)) content) s2)))).
  { eapply step_put_frame; [exact H3|]. right. right. unfold new_key. rewrite U. now left. }
  destruct (mreq fa (RPut (join cp (join (nv_root i) name))) _ s2) as [r3 s3]. cbn [snd] in F3.
  pose proof (outcome_seq _ _ _ _ _ O12 eq_refl O3) as O123.
  pose proof (frame_trans _ _ _ _ _ F12 F3) as F123.
  destruct r3 as [[]| |];
    [|split; [eapply outcome_fail; [exact O123|discriminate]|assumption]
     |split; [eapply outcome_fail; [exact O123|discriminate]|assumption]].
  destruct (delete_each_spec fa cp W
              (filter (fun o => negb (is_path o (new_namaste (nv_root i) (Some (name, content))))) olds) D s3) as [O4 F4].
  { intros x Hx. apply in_map_iff in Hx as (o & <- & Ho). apply filter_In in Ho as [Ho _]. now apply in_map. }
  cbn zeta in O4, F4. split.
  - eapply outcome_seq; [exact O123|reflexivity|exact O4].
  - eapply frame_trans; eauto.
Qed.

Lemma get_each_spec cp : forall paths rn s,
  get_each None rn cp paths s =
  (Ok (map (fun p => (p, bk_get (join cp p) (st_b s))) paths),
   mkSt (st_b s) (st_n s) (st_log s ++ map (fun p => RGet (join cp p)) paths)).
Proof.
  induction paths as [|p r IH]; intros rn s; cbn [get_each map].
  - rewrite app_nil_r. now destruct s.
  - unfold get_object. cbn [read_fails]. cbv iota. rewrite IH. cbn [st_b st_n st_log]. rewrite <- app_assoc. reflexivity.
Qed.

(* ------------------------------------------------------------------ undoing a failed install (commit 9053efb) *)

Lemma in_existsb_eqb x l : existsb (bytes_eqb x) l = true <-> In x l.
Proof.
  rewrite existsb_exists. split.
  - intros (y & Hy & E). apply bytes_eqb_eq in E. now subst.
  - intros H. exists x. split; [assumption|apply bytes_eqb_refl].
Qed.

(** [T] = the bucket as it was read before the commit wrote anything.  If the fault has passed, the new
    declaration is found by the listing exactly when it was stored, and the root inventory
    pair existed, then after the undo every key outside the uploaded ones reads as in [T],
    and the uploaded ones are gone *)
Lemma undo_install_spec fa cp i olds T uploaded s :
  fault_past fa (st_n s) ->
  nv_old_sidecar i = uf_rel (nv_sidecar i) ->
  bk_get (inv_key cp i) T <> None -> bk_get (sc_key cp i) T <> None ->
  (forall nn, new_namaste (nv_root i) (nv_upgrade i) = Some nn -> (In nn olds <-> bk_get (join cp nn) T <> None)) ->
  (forall x, existsb (bytes_eqb x) (map (join cp) uploaded) = false -> ~ In x (install_writes cp i) ->
     bk_get x (st_b s) = bk_get x T \/ (bk_get x (st_b s) = None /\ In x (map (join cp) olds))) ->
  let s' := undo_install fa cp i olds (map (fun p => (p, bk_get (join cp p) T)) olds)
                         (bk_get (inv_key cp i) T) (bk_get (sc_key cp i) T) uploaded s in
  forall x, bk_get x (st_b s') = if existsb (bytes_eqb x) (map (join cp) uploaded) then None else bk_get x T.
Proof.
  intros Hp Hsc Hinv Hscs Hnew Hfr. cbn zeta. unfold undo_install. rewrite Hsc.
  fold (inv_key cp i). fold (sc_key cp i).
  (* step a: the new declaration *)
  set (s1 := match new_namaste (nv_root i) (nv_upgrade i) with
             | Some nn => if existsb (bytes_eqb nn) olds then s else snd (delete_object fa cp nn s)
             | None => s end).
  assert (A : fault_past fa (st_n s1) /\ (forall x, fixed T (st_b s) x -> fixed T (st_b s1) x) /\
              (forall nn, new_namaste (nv_root i) (nv_upgrade i) = Some nn -> ~ In nn olds -> fixed T (st_b s1) (join cp nn))).
  { subst s1. destruct (new_namaste (nv_root i) (nv_upgrade i)) as [nn|] eqn:N.
    - destruct (existsb (bytes_eqb nn) olds) eqn:X.
      + split; [assumption|]. split; [auto|]. intros nn' E Hn. injection E as <-. apply in_existsb_eqb in X. contradiction.
      + assert (E0 : bk_get (join cp nn) T = None).
        { destruct (bk_get (join cp nn) T) eqn:G; [|reflexivity]. exfalso.
          assert (In nn olds) as Hin by (apply (Hnew nn eq_refl); congruence).
          apply in_existsb_eqb in Hin. congruence. }
        destruct (delete_pres fa cp nn T s Hp E0) as (B1 & B2 & B3). cbn zeta in B1, B2, B3.
        split; [assumption|]. split; [assumption|]. intros nn' E _. now injection E as <-.
    - split; [assumption|]. split; [auto|]. intros nn' E. discriminate. }
  destruct A as (A1 & A2 & A3).
  (* step b: the old declarations *)
  destruct (restore_each_pres fa cp T olds s1 A1) as (B1 & B2 & B3). cbn zeta in B1, B2, B3.
  set (s2 := restore_each fa cp (map (fun p => (p, bk_get (join cp p) T)) olds) s1) in *.
  (* step c: root inventory and sidecar *)
  destruct (restore_object_pres fa cp (join (nv_root i) K_INVENTORY_FILE) T s2 B1) as (C1 & C2 & C3).
  cbn zeta in C1, C2, C3. fold (inv_key cp i) in C1, C2, C3.
  set (s3 := restore_object fa cp (join (nv_root i) K_INVENTORY_FILE) (bk_get (inv_key cp i) T) s2) in *.
  destruct (restore_object_pres fa cp (join (nv_root i) (uf_rel (nv_sidecar i))) T s3 C1) as (D1 & D2 & D3).
  cbn zeta in D1, D2, D3. fold (sc_key cp i) in D1, D2, D3.
  set (s4 := restore_object fa cp (join (nv_root i) (uf_rel (nv_sidecar i))) (bk_get (sc_key cp i) T) s3) in *.
  intros x. rewrite rollback_spec by assumption.
  destruct (existsb (bytes_eqb x) (map (join cp) uploaded)) eqn:Xu; [reflexivity|].
  specialize (Hfr x Xu). change (fixed T (st_b s4) x).
  destruct (bytes_eqb x (sc_key cp i)) eqn:Xs; [apply bytes_eqb_eq in Xs; subst x; auto|].
  destruct (bytes_eqb x (inv_key cp i)) eqn:Xi; [apply bytes_eqb_eq in Xi; subst x; auto|].
  apply bytes_eqb_false in Xs, Xi.
  apply D2, C2.
  destruct (new_namaste (nv_root i) (nv_upgrade i)) as [nn|] eqn:N.
  - destruct (bytes_eqb x (join cp nn)) eqn:Xn.
    + apply bytes_eqb_eq in Xn. subst x.
      destruct (existsb (bytes_eqb nn) olds) eqn:X.
      * apply in_existsb_eqb in X. apply B3; [assumption|]. now apply (Hnew nn eq_refl).
      * apply B2, (A3 nn eq_refl). intros Hin. apply in_existsb_eqb in Hin. congruence.
    + apply bytes_eqb_false in Xn.
      destruct Hfr as [E | [E Hin]].
      { unfold install_writes, new_key. rewrite N. cbn [In]. intuition congruence. }
      * apply B2, A2. exact E.
      * apply in_map_iff in Hin as (o & <- & Ho).
        destruct (bk_get (join cp o) T) eqn:G.
        -- apply B3; [assumption|congruence].
        -- apply B2, A2. unfold fixed. congruence.
  - destruct Hfr as [E | [E Hin]].
    { unfold install_writes, new_key. rewrite N. cbn [In]. intuition congruence. }
    + apply B2, A2. exact E.
    + apply in_map_iff in Hin as (o & <- & Ho).
      destruct (bk_get (join cp o) T) eqn:G.
      * apply B3; [assumption|congruence].
      * apply B2, A2. unfold fixed. congruence.
Qed.

Lemma restore_object_n_mono fa cp p c s : st_n s <= st_n (restore_object fa cp p c s).
Proof. unfold restore_object. destruct c; [|lia]. unfold put_object_bytes. rewrite mreq_n. lia. Qed.

Lemma restore_each_n_mono fa cp : forall prev s, st_n s <= st_n (restore_each fa cp prev s).
Proof.
  induction prev as [|[p c] r IH]; intros s; cbn [restore_each]; [lia|].
  specialize (IH (restore_object fa cp p c s)). pose proof (restore_object_n_mono fa cp p c s). lia.
Qed.

Lemma undo_install_n_mono fa cp i olds prev pi ps uploaded s :
  st_n s <= st_n (undo_install fa cp i olds prev pi ps uploaded s).
Proof.
  unfold undo_install.
  set (s1 := match new_namaste (nv_root i) (nv_upgrade i) with
             | Some nn => if existsb (bytes_eqb nn) olds then s else snd (delete_object fa cp nn s)
             | None => s end).
  assert (st_n s <= st_n s1).
  { subst s1. destruct (new_namaste _ _); [|lia]. destruct (existsb _ _); [lia|].
    unfold delete_object. rewrite mreq_n. lia. }
  pose proof (restore_each_n_mono fa cp prev s1).
  pose proof (restore_object_n_mono fa cp (join (nv_root i) K_INVENTORY_FILE) pi (restore_each fa cp prev s1)).
  pose proof (restore_object_n_mono fa cp (join (nv_root i) (nv_old_sidecar i)) ps
                (restore_object fa cp (join (nv_root i) K_INVENTORY_FILE) pi (restore_each fa cp prev s1))).
  pose proof (rollback_n_mono fa cp uploaded
                (restore_object fa cp (join (nv_root i) (nv_old_sidecar i)) ps
                   (restore_object fa cp (join (nv_root i) K_INVENTORY_FILE) pi (restore_each fa cp prev s1)))).
  lia.
Qed.

(* ------------------------------------------------------------------ write_new_version after its reads *)

Lemma commit_version_spec fa cp i olds s4 :
  nv_wf cp i -> nv_ready cp i (st_b s4) ->
  (forall nn, new_namaste (nv_root i) (nv_upgrade i) = Some nn ->
              (In nn olds <-> bk_get (join cp nn) (st_b s4) <> None)) ->
  let rs := commit_version fa cp i olds (map (fun p => (p, bk_get (join cp p) (st_b s4))) olds)
                           (bk_get (inv_key cp i) (st_b s4)) (bk_get (sc_key cp i) (st_b s4)) s4 in
  (fst rs = Ok tt /\ miss fa (st_n s4) (st_n (snd rs))) \/
  (fst rs = Err /\ hit fa (st_n s4) (st_n (snd rs)) /\ forall x, bk_get x (st_b (snd rs)) = bk_get x (st_b s4)).
Proof.
  intros Hwf [Hclear Hinv Hsc] Hnew. cbn zeta. destruct Hwf as [Hc Hr Hb Hv Hf Hside Hdecl].
  set (T := st_b s4) in *. unfold commit_version. fold (vdst_of i).
  pose proof (upload_all_spec fa cp (vdst_of i) (nv_files i) s4 Hc (relb_join _ _ Hr Hv) Hf Hclear) as H.
  cbn zeta in H. fold T in H. destruct (upload_all fa cp (vdst_of i) (nv_files i) s4) as [r1 s5].
  cbn [fst snd] in H. destruct H as [(uploaded & -> & Hag & Habs & Hn & Hm) | (-> & Hb0 & Hh)];
    [|right; cbn [fst snd]; auto].
  destruct (install_version_spec fa cp i olds s5) as [O F]. cbn zeta in O, F.
  destruct (install_version fa cp i olds s5) as [r6 s6]. unfold outcome in O. cbn [fst snd] in O, F.
  rewrite <- Hn in Hm. destruct O as (L & [(-> & M) | (-> & H)]).
  - left. cbn [fst snd]. split; [reflexivity|].
    assert (st_n s4 <= st_n s5) by lia. eapply miss_join; [exact Hm|exact M|lia|lia].
  - right. cbn [fst snd]. split; [reflexivity|]. split.
    + eapply hit_widen; [exact H|lia|]. apply undo_install_n_mono.
    + intros x.
      rewrite (undo_install_spec fa cp i olds T uploaded s6); auto.
      * destruct (existsb (bytes_eqb x) (map (join cp) uploaded)) eqn:X; [|reflexivity].
        apply in_existsb_eqb in X. apply in_map_iff in X as (p & <- & Hp). symmetry. now apply Habs.
      * eapply hit_past; exact H.
      * intros y Yu Yw. destruct (F y Yw) as [E | E]; [|now right]. left. rewrite E. apply Hag.
        intros Hin. apply in_existsb_eqb in Hin. congruence.
Qed.

(** every run of a version commit from a ready bucket in which no read fails: it succeeds and no
    request was failed, or it reports an error, a request was failed, and every key reads as
    before the commit *)
Lemma version_commit_cases fa cp i bk :
  nv_wf cp i -> nv_ready cp i bk ->
  let out := write_new_version fa None cp i (init_st bk) in
  (fst out = Ok tt /\ miss fa 0 (st_n (snd out))) \/
  (fst out = Err /\ hit fa 0 (st_n (snd out)) /\ forall x, bk_get x (st_b (snd out)) = bk_get x bk).
Proof.
  intros Hwf Hrd. cbn zeta. pose proof Hwf as [Hc Hr Hb Hv Hf Hside Hdecl]. pose proof Hrd as [Hclear Hinv Hsc].
  unfold write_new_version. fold (vdst_of i). cbn [init_st st_b].
  assert (listing_empty (list_all (bk_keys bk) cp (vdst_of i) true) = Ok true) as ->
    by (apply listing_empty_iff; exact Hclear).
  unfold get_object. cbn [read_fails]. cbv beta iota. cbn [init_st st_b st_n st_log app].
  assert (Olds : exists olds,
            (match nv_upgrade i with
             | Some _ => find_files (bk_keys bk) cp (nv_root i) K_OBJECT_NAMASTE_FILE_PREFIX
             | None => Ok []
             end) = Ok olds /\
            (forall nn, new_namaste (nv_root i) (nv_upgrade i) = Some nn -> (In nn olds <-> bk_get (join cp nn) bk <> None))).
  { destruct (nv_upgrade i) as [[name content]|] eqn:U.
    - destruct (find_files_spec bk cp (nv_root i) name Hc Hr Hb (Hdecl _ _ eq_refl)) as (olds & E & Hiff).
      exists olds. split; [assumption|]. cbn [new_namaste]. intros nn H. injection H as <-. exact Hiff.
    - exists []. split; [reflexivity|]. cbn [new_namaste]. discriminate. }
  destruct Olds as (olds & -> & Hnew). rewrite get_each_spec. cbn [st_b st_n st_log].
  rewrite Hside. fold (inv_key cp i). fold (sc_key cp i).
  match goal with |- context [commit_version fa cp i olds _ _ _ ?s] => set (s4 := s) end.
  apply (commit_version_spec fa cp i olds s4); assumption.
Qed.

Lemma clear_lookup cp dst bk x : clear_under cp dst bk -> starts_with (request_prefix cp dst) x = true -> bk_get x bk = None.
Proof. intros H. now apply clear_get_none. Qed.

(** C16, second half: whichever request [k] of a version commit fails (upload, root inventory,
    root sidecar, new declaration, DELETE of an old declaration; PUT and multipart alike): if the
    request was reached the commit reports an error and every key of the bucket reads as before
    the commit - in particular nothing is left below <root>/vN/; if it was not reached (the
    commit has fewer requests) the commit succeeds *)
Lemma fault_cleanup_version cp i bk k :
  nv_wf cp i -> nv_ready cp i bk ->
  let out := write_new_version (Some k) None cp i (init_st bk) in
  (k < st_n (snd out) ->
     fst out = Err /\
     (forall x, bk_get x (st_b (snd out)) = bk_get x bk) /\
     (forall x, starts_with (request_prefix cp (vdst_of i)) x = true -> bk_get x (st_b (snd out)) = None)) /\
  (st_n (snd out) <= k -> fst out = Ok tt).
Proof.
  intros Hwf Hrd. cbn zeta. pose proof (version_commit_cases (Some k) cp i bk Hwf Hrd) as H. cbn zeta in H.
  destruct H as [(E & M) | (E & (k' & Ek & L1 & L2) & Hb)].
  - split; [|auto]. intros L. destruct (M k eq_refl); lia.
  - injection Ek as <-. split; [|lia]. intros _. split; [assumption|]. split; [assumption|].
    intros x Hx. rewrite Hb. eapply clear_lookup; [apply (rd_clear _ _ _ Hrd)|assumption].
Qed.

(** the fault-free commit succeeds *)
Lemma version_commit_succeeds cp i bk :
  nv_wf cp i -> nv_ready cp i bk -> fst (write_new_version None None cp i (init_st bk)) = Ok tt.
Proof.
  intros Hwf Hrd. pose proof (version_commit_cases None cp i bk Hwf Hrd) as H. cbn zeta in H.
  destruct H as [(E & _) | (_ & (k & Ek & _) & _)]; [assumption|discriminate].
Qed.

Lemma ready_lookup cp i bk bk' :
  (forall x, bk_get x bk' = bk_get x bk) -> nv_ready cp i bk -> nv_ready cp i bk'.
Proof.
  intros H [Hc Hi Hs]. constructor.
  - intros k Hk. apply Hc. apply bk_get_in_keys. rewrite <- H. now apply bk_keys_get.
  - now rewrite H.
  - now rewrite H.
Qed.

(** ... and so does the retry after a failed commit: the bucket is ready again *)
Lemma retry_succeeds cp i bk k :
  nv_wf cp i -> nv_ready cp i bk ->
  let out := write_new_version (Some k) None cp i (init_st bk) in
  fst out <> Ok tt ->
  nv_ready cp i (st_b (snd out)) /\ fst (write_new_version None None cp i (init_st (st_b (snd out)))) = Ok tt.
Proof.
  intros Hwf Hrd. cbn zeta. intros Hne.
  pose proof (version_commit_cases (Some k) cp i bk Hwf Hrd) as H. cbn zeta in H.
  destruct H as [(E & _) | (_ & _ & Hb)]; [congruence|].
  assert (R : nv_ready cp i (st_b (snd (write_new_version (Some k) None cp i (init_st bk))))) by (eapply ready_lookup; eauto).
  split; [assumption|]. now apply version_commit_succeeds.
Qed.

(* ------------------------------------------------------------------ failing reads (commit 862b96a) *)

(** the state moved on by reads only *)
Definition quiet (s s' : st) : Prop :=
  st_b s' = st_b s /\ st_n s' = st_n s /\ exists g, st_log s' = st_log s ++ g /\ Forall (fun r => is_get r = true) g.

Lemma quiet_refl s : quiet s s.
Proof. repeat split. exists []. split; [now rewrite app_nil_r|constructor]. Qed.

Lemma quiet_trans s s1 s2 : quiet s s1 -> quiet s1 s2 -> quiet s s2.
Proof.
  intros (A1 & A2 & g1 & A3 & A4) (B1 & B2 & g2 & B3 & B4). repeat split; [congruence|congruence|].
  exists (g1 ++ g2). split; [rewrite B3, A3; now rewrite app_assoc|now apply Forall_app].
Qed.

Lemma get_object_quiet fr rn cp p s : quiet s (snd (get_object fr rn cp p s)).
Proof.
  unfold get_object. destruct (read_fails fr rn); cbn [snd]; repeat split;
    exists [RGet (join cp p)]; split; try reflexivity; repeat constructor.
Qed.

Lemma get_object_cases fr rn cp p s :
  get_object fr rn cp p s = get_object None rn cp p s \/ fst (get_object fr rn cp p s) = Err.
Proof. unfold get_object. cbn [read_fails]. destruct (read_fails fr rn); [now right|now left]. Qed.

Lemma get_each_cases fr cp : forall paths rn s,
  get_each fr rn cp paths s = get_each None rn cp paths s \/
  (fst (get_each fr rn cp paths s) = Err /\ quiet s (snd (get_each fr rn cp paths s))).
Proof.
  induction paths as [|p r IH]; intros rn s; cbn [get_each]; [now left|].
  pose proof (get_object_quiet fr rn cp p s) as Q.
  destruct (get_object_cases fr rn cp p s) as [E | E].
  - rewrite E in *. clear E. destruct (get_object None rn cp p s) as [[c| |] s1] eqn:G; cbn [snd] in Q; [|right; auto..].
    destruct (IH (rn + 1) s1) as [E1 | (E1 & Q1)].
    + rewrite E1. now left.
    + right. destruct (get_each fr (rn + 1) cp r s1) as [[l| |] s2]; cbn [fst snd] in *; try discriminate;
        (split; [reflexivity|eapply quiet_trans; eauto]).
  - right. destruct (get_object fr rn cp p s) as [[c| |] s1]; cbn [fst snd] in *; try discriminate; auto.
Qed.

(** a failing read of a version commit: either this commit has no such read (and runs as if no
    read failed), or the commit ends with an error before its first mutating request - the
    bucket is literally untouched, only GETs were sent *)
Lemma read_fault_harmless fa fr cp i s :
  let out := write_new_version fa fr cp i s in
  out = write_new_version fa None cp i s \/ (fst out = Err /\ quiet s (snd out)).
Proof.
  cbn zeta. unfold write_new_version.
  destruct (listing_empty _) as [[|]| |]; [|now left..].
  pose proof (get_object_quiet fr 0 cp (join (nv_root i) K_INVENTORY_FILE) s) as Q0.
  destruct (get_object_cases fr 0 cp (join (nv_root i) K_INVENTORY_FILE) s) as [E | E];
    [|right; destruct (get_object fr 0 cp _ s) as [[c| |] s2]; cbn [fst snd] in *; try discriminate; auto].
  rewrite E in *. clear E. destruct (get_object None 0 cp (join (nv_root i) K_INVENTORY_FILE) s) as [[pi| |] s2];
    [|now left..]. cbn [snd] in Q0.
  pose proof (get_object_quiet fr 1 cp (join (nv_root i) (nv_old_sidecar i)) s2) as Q1.
  destruct (get_object_cases fr 1 cp (join (nv_root i) (nv_old_sidecar i)) s2) as [E | E];
    [|right; destruct (get_object fr 1 cp _ s2) as [[c| |] s3]; cbn [fst snd] in *; try discriminate;
      (split; [reflexivity|eapply quiet_trans; eauto])].
  rewrite E in *. clear E. destruct (get_object None 1 cp (join (nv_root i) (nv_old_sidecar i)) s2) as [[ps| |] s3];
    [|now left..]. cbn [snd] in Q1.
  assert (Q : quiet s s3) by (eapply quiet_trans; eauto).
  destruct (nv_upgrade i) as [[name content]|].
  - cbn [read_fails]. destruct (read_fails fr 2); [right; cbn [fst snd]; auto|].
    destruct (find_files _ _ _ _) as [olds| |]; [|now left..].
    destruct (get_each_cases fr cp olds 3 s3) as [E | (E & Q3)]; [rewrite E; now left|].
    right. destruct (get_each fr 3 cp olds s3) as [[l| |] s4]; cbn [fst snd] in *; try discriminate;
      (split; [reflexivity|eapply quiet_trans; eauto]).
  - destruct (get_each_cases fr cp [] 3 s3) as [E | (E & Q3)]; [rewrite E; now left|].
    cbn [get_each fst] in E. discriminate.
Qed.

(** ... and since the bucket is untouched the retried commit succeeds *)
Lemma read_fault_retry fa fr cp i bk :
  nv_wf cp i -> nv_ready cp i bk ->
  let out := write_new_version fa fr cp i (init_st bk) in
  out <> write_new_version fa None cp i (init_st bk) ->
  fst out = Err /\ st_b (snd out) = bk /\ st_n (snd out) = 0 /\
  Forall (fun r => is_get r = true) (st_log (snd out)) /\
  fst (write_new_version None None cp i (init_st (st_b (snd out)))) = Ok tt.
Proof.
  intros Hwf Hrd. cbn zeta. intros Hne.
  destruct (read_fault_harmless fa fr cp i (init_st bk)) as [E | (E & Q1 & Q2 & g & Q3 & Q4)]; [contradiction|].
  cbn zeta in *. cbn [init_st st_b st_n st_log app] in Q1, Q2, Q3.
  split; [assumption|]. split; [assumption|]. split; [assumption|]. split; [now rewrite Q3|].
  rewrite Q1. now apply version_commit_succeeds.
Qed.

Lemma fault_cleanup_object cp root files bk k :
  pfx_ok cp = true -> relb root = true -> Forall (fun f => relb (uf_rel f) = true) files ->
  clear_under cp root bk -> k < upload_cost files ->
  let out := write_new_object (Some k) cp root files (init_st bk) in
  fst out = Err /\ (forall x, bk_get x (st_b (snd out)) = bk_get x bk).
Proof.
  intros Hc Hr Hf Hclear Hk. cbn zeta. unfold write_new_object. cbn [init_st st_b].
  assert (listing_empty (list_all (bk_keys bk) cp root true) = Ok true) as ->
    by (apply listing_empty_iff; exact Hclear).
  pose proof (upload_all_spec (Some k) cp root files (init_st bk) Hc Hr Hf Hclear) as H.
  cbn zeta in H. destruct (upload_all (Some k) cp root files (init_st bk)) as [r1 s1].
  cbn [fst snd init_st st_b st_n] in H. destruct H as [(up & -> & Hag & Habs & Hn & Hm) | (-> & Hb & _)].
  - exfalso. destruct (Hm k eq_refl); lia.
  - cbn [fst snd]. auto.
Qed.

(** a refused commit (something already lies under the destination prefix) issues no request *)
Lemma write_new_version_refused fa fr cp i s :
  listing_empty (list_all (bk_keys (st_b s)) cp (vdst_of i) true) <> Ok true ->
  fst (write_new_version fa fr cp i s) <> Ok tt /\ snd (write_new_version fa fr cp i s) = s.
Proof.
  intros H. unfold write_new_version. fold (vdst_of i).
  destruct (listing_empty _) as [[|]| |]; [congruence| | |]; cbn [fst snd]; split; (discriminate || reflexivity).
Qed.

(* ------------------------------------------------------------------ fault-free runs: the exact request sequence *)

Lemma st_eta s : s = mkSt (st_b s) (st_n s) (st_log s).
Proof. now destruct s. Qed.

Lemma mreq_none r eff s : mreq None r eff s = (Ok tt, mkSt (eff (st_b s)) (st_n s + 1) (st_log s ++ [r])).
Proof. reflexivity. Qed.

Lemma mp_parts_none key : forall todo i s,
  mp_parts None key i todo s = (Ok tt, mkSt (st_b s) (st_n s + N.of_nat todo) (st_log s ++ part_reqs key i todo)).
Proof.
  induction todo as [|t IH]; intros i s.
  - cbn [mp_parts part_reqs]. rewrite app_nil_r. replace (st_n s + N.of_nat 0) with (st_n s) by lia.
    now rewrite <- st_eta.
  - cbn [mp_parts part_reqs]. rewrite mreq_none, IH. cbn [st_b st_n st_log]. unfold same.
    rewrite <- app_assoc. cbn [app]. do 2 f_equal. lia.
Qed.

Lemma put_object_file_none cp path len tok s :
  put_object_file None cp path len tok s =
  (Ok tt, mkSt (bk_put (join cp path) tok (st_b s)) (st_n s + put_cost len) (st_log s ++ put_reqs (join cp path) len)).
Proof.
  unfold put_object_file, put_cost, put_reqs. destruct (K_S3_PART_SIZE <? len).
  - unfold multipart_put. rewrite mreq_none, mp_parts_none, mreq_none. cbn [st_b st_n st_log]. unfold same.
    rewrite <- !app_assoc. cbn [app]. do 2 f_equal. lia.
  - now rewrite mreq_none.
Qed.

Definition upload_reqs (cp dst : bytes) (files : list ufile) : list req :=
  flat_map (fun f => put_reqs (join cp (join dst (uf_rel f))) (uf_len f)) files.
Definition upload_bucket (cp dst : bytes) (files : list ufile) (bk : bucket) : bucket :=
  fold_left (fun b0 f => bk_put (join cp (join dst (uf_rel f))) (uf_tok f) b0) files bk.

Lemma upload_loop_none cp dst : forall files done s,
  upload_loop None cp dst files done s =
  ((Ok tt, done ++ map (fun f => join dst (uf_rel f)) files),
   mkSt (upload_bucket cp dst files (st_b s)) (st_n s + upload_cost files) (st_log s ++ upload_reqs cp dst files)).
Proof.
  induction files as [|f fs IH]; intros done s.
  - cbn [upload_loop map upload_bucket fold_left upload_cost fold_right upload_reqs flat_map].
    rewrite !app_nil_r. replace (st_n s + 0) with (st_n s) by lia. now rewrite <- st_eta.
  - cbn [upload_loop]. rewrite put_object_file_none, IH. cbn [st_b st_n st_log map].
    cbn [upload_bucket fold_left upload_cost fold_right upload_reqs flat_map].
    rewrite <- !app_assoc. cbn [app]. do 2 f_equal. fold (upload_cost fs). lia.
Qed.

Lemma delete_each_none cp : forall olds s,
  delete_each None cp olds s =
  (Ok tt, mkSt (fold_left (fun b0 o => bk_remove (join cp o) b0) olds (st_b s)) (st_n s + N.of_nat (List.length olds))
               (st_log s ++ map (fun o => RDelete (join cp o)) olds)).
Proof.
  induction olds as [|o r IH]; intros s.
  - cbn [delete_each fold_left map List.length]. rewrite app_nil_r.
    replace (st_n s + N.of_nat 0) with (st_n s) by lia. now rewrite <- st_eta.
  - cbn [delete_each]. unfold delete_object. rewrite mreq_none, IH. cbn [st_b st_n st_log fold_left map List.length].
    rewrite <- app_assoc. cbn [app]. do 2 f_equal. lia.
Qed.

(** what the declaration swap may send: deletes, and the PUT of the new declaration *)
Definition swap_req_ok (cp root : bytes) (up : option (bytes * bytes)) (r : req) : Prop :=
  (stores_key r = None /\ is_get r = false) \/
  exists name content, up = Some (name, content) /\ r = RPut (join cp (join root name)).

Lemma part_reqs_keys key : forall todo i, Forall (fun r => req_key r = key) (part_reqs key i todo).
Proof. induction todo as [|t IH]; intros i; cbn [part_reqs]; constructor; auto. Qed.

Lemma put_reqs_keys key len : Forall (fun r => req_key r = key) (put_reqs key len).
Proof.
  unfold put_reqs. destruct (K_S3_PART_SIZE <? len).
  - constructor; [reflexivity|]. apply Forall_app. split; [apply part_reqs_keys|repeat constructor].
  - repeat constructor.
Qed.

Lemma upload_reqs_under cp dst files :
  pfx_ok cp = true -> relb dst = true -> Forall (fun f => relb (uf_rel f) = true) files ->
  Forall (fun r => starts_with (request_prefix cp dst) (req_key r) = true) (upload_reqs cp dst files).
Proof.
  intros Hc Hd Hf. unfold upload_reqs. rewrite Forall_forall in *. intros r Hr.
  apply in_flat_map in Hr as (f & Hin & Hr).
  pose proof (put_reqs_keys (join cp (join dst (uf_rel f))) (uf_len f)) as K. rewrite Forall_forall in K.
  rewrite (K _ Hr). apply under_prefix; auto.
Qed.

Lemma upload_reqs_app cp dst a c : upload_reqs cp dst (a ++ c) = upload_reqs cp dst a ++ upload_reqs cp dst c.
Proof. unfold upload_reqs. apply flat_map_app. Qed.

(** C16, first half: in a fault-free commit of a new version the requests are: the reads of what
    is about to be replaced, everything below <root>/vN/ (the version's own inventory and sidecar
    last), then the root inventory.json, then the root sidecar, then (upgrade only) the
    declaration swap; and the commit succeeds *)
Lemma root_inventory_last_version cp i bk :
  nv_wf cp i -> nv_ready cp i bk ->
  let out := write_new_version None None cp i (init_st bk) in
  let up := upload_reqs cp (vdst_of i) (upload_order (nv_files i)) in
  exists gets tail,
    fst out = Ok tt /\
    st_log (snd out) = gets ++ up ++ put_reqs (inv_key cp i) (uf_len (nv_inv i))
                          ++ put_reqs (sc_key cp i) (uf_len (nv_sidecar i)) ++ tail /\
    Forall (fun r => is_get r = true) gets /\
    Forall (fun r => starts_with (request_prefix cp (vdst_of i)) (req_key r) = true) up /\
    Forall (swap_req_ok cp (nv_root i) (nv_upgrade i)) tail /\
    (nv_upgrade i = None -> tail = [] /\ gets = [RGet (inv_key cp i); RGet (sc_key cp i)]).
Proof.
  intros Hwf Hrd. cbn zeta. pose proof (version_commit_succeeds cp i bk Hwf Hrd) as Hok.
  pose proof Hwf as [Hc Hr Hb Hv Hf Hside Hdecl]. destruct Hrd as [Hclear _ _].
  assert (Hup : Forall (fun r => starts_with (request_prefix cp (vdst_of i)) (req_key r) = true)
                       (upload_reqs cp (vdst_of i) (upload_order (nv_files i)))).
  { apply upload_reqs_under; auto; [now apply relb_join|now apply upload_order_forall]. }
  revert Hok. unfold write_new_version. fold (vdst_of i). cbn [init_st st_b].
  assert (listing_empty (list_all (bk_keys bk) cp (vdst_of i) true) = Ok true) as ->
    by (apply listing_empty_iff; exact Hclear).
  unfold get_object. cbn [read_fails]. cbv beta iota. cbn [init_st st_b st_n st_log app].
  rewrite Hside. fold (inv_key cp i). fold (sc_key cp i).
  destruct (nv_upgrade i) as [[name content]|] eqn:U.
  - destruct (find_files_spec bk cp (nv_root i) name Hc Hr Hb (Hdecl _ _ eq_refl)) as (olds & -> & _).
    rewrite get_each_spec. cbn [st_b st_n st_log app].
    unfold commit_version, upload_all, do_with_rollback. fold (vdst_of i). rewrite upload_loop_none. cbn [app st_b st_n st_log].
    unfold install_version, do_with_rollback, install_body. rewrite U.
    rewrite !put_object_file_none. cbn [st_b st_n st_log fst snd].
    unfold put_object_bytes. rewrite mreq_none, delete_each_none. cbn [st_b st_n st_log fst snd].
    fold (inv_key cp i). fold (sc_key cp i). intros Hok.
    exists (RGet (inv_key cp i) :: RGet (sc_key cp i) :: map (fun p => RGet (join cp p)) olds).
    exists (RPut (join cp (join (nv_root i) name)) ::
            map (fun o => RDelete (join cp o))
                (filter (fun o => negb (is_path o (new_namaste (nv_root i) (Some (name, content))))) olds)).
    split; [reflexivity|]. split; [cbn [app]; rewrite <- !app_assoc; cbn [app]; reflexivity|]. split.
    { constructor; [reflexivity|]. constructor; [reflexivity|]. rewrite Forall_forall. intros r Hin.
      apply in_map_iff in Hin as (p & <- & _). reflexivity. }
    split; [exact Hup|]. split; [|discriminate].
    constructor; [right; eauto|]. rewrite Forall_forall. intros r Hin.
    apply in_map_iff in Hin as (o & <- & _). left. auto.
  - cbn [get_each].
    unfold commit_version, upload_all, do_with_rollback. fold (vdst_of i). rewrite upload_loop_none. cbn [app st_b st_n st_log].
    unfold install_version, do_with_rollback, install_body. rewrite U.
    rewrite !put_object_file_none. cbn [st_b st_n st_log fst snd].
    fold (inv_key cp i). fold (sc_key cp i). intros Hok.
    exists [RGet (inv_key cp i); RGet (sc_key cp i)], [].
    split; [reflexivity|]. split; [cbn [app]; rewrite <- ?app_assoc; rewrite ?app_nil_r; cbn [app]; reflexivity|]. split; [repeat constructor|].
    split; [exact Hup|]. split; [constructor|auto].
Qed.

(** the root inventory key does not lie below the version prefix *)
Lemma inv_key_not_under cp root vstr name :
  pfx_ok cp = true -> relb root = true -> relb vstr = true -> relb name = true ->
  starts_with (vstr ++ [slash]) name = false ->
  starts_with (request_prefix cp (join root vstr)) (join cp (join root name)) = false.
Proof.
  intros Hc Hr Hv Hn Hs. unfold request_prefix, join_ts.
  rewrite (join_relb root vstr), (join_relb root name) by assumption.
  rewrite !join_under by (auto using relb_app).
  assert (L : last_is_slash (under cp (root ++ slash :: vstr)) = false /\ under cp (root ++ slash :: vstr) <> []).
  { pose proof (relb_app _ _ Hr Hv) as R. apply relb_inv in R as (R1 & _ & R3).
    destruct cp as [|c cp]; cbn [under]; [auto|]. split; [|discriminate].
    destruct (root ++ slash :: vstr) as [|d t]; [congruence|].
    change (c :: cp ++ slash :: d :: t) with ((c :: cp ++ [slash]) ++ d :: t). now rewrite last_is_slash_app. }
  destruct L as [L1 L2]. apply is_nil_false in L2. rewrite L1, L2. cbn [negb andb].
  destruct cp as [|c cp]; cbn [under].
  - replace ((root ++ slash :: vstr) ++ [slash]) with (root ++ (slash :: vstr ++ [slash]))
      by (now rewrite <- app_assoc).
    rewrite starts_with_app_same. cbn [starts_with]. change (Ascii.eqb slash slash) with true. exact Hs.
  - replace (((c :: cp) ++ slash :: root ++ slash :: vstr) ++ [slash])
      with ((c :: cp) ++ (slash :: root ++ (slash :: vstr ++ [slash])))
      by (rewrite <- !app_assoc; cbn [app]; now rewrite <- app_assoc).
    rewrite (starts_with_app_same (c :: cp)). cbn [starts_with]. change (Ascii.eqb slash slash) with true.
    cbn [andb]. rewrite starts_with_app_same. cbn [starts_with]. change (Ascii.eqb slash slash) with true. exact Hs.
Qed.

(** new objects (commit 4953bf6): whatever the directory walk yields, the requests are those of
    the files that are neither the root inventory nor a root sidecar (in walk order: the object
    declaration, everything below v1/, ...), then the root inventory.json, then its sidecar *)
Lemma root_inventory_last_object cp root files bk :
  clear_under cp root bk ->
  let out := write_new_object None cp root files (init_st bk) in
  exists others invs sidecars,
    fst out = Ok tt /\
    st_log (snd out) = upload_reqs cp root others ++ upload_reqs cp root invs ++ upload_reqs cp root sidecars /\
    Permutation (others ++ invs ++ sidecars) files /\
    Forall (fun f => uf_rel f <> K_INVENTORY_FILE /\ starts_with K_INVENTORY_SIDECAR_PREFIX (uf_rel f) = false) others /\
    Forall (fun f => uf_rel f = K_INVENTORY_FILE) invs /\
    Forall (fun f => starts_with K_INVENTORY_SIDECAR_PREFIX (uf_rel f) = true /\ uf_rel f <> K_INVENTORY_FILE) sidecars.
Proof.
  intros Hclear. cbn zeta. unfold write_new_object. cbn [init_st st_b].
  assert (listing_empty (list_all (bk_keys bk) cp root true) = Ok true) as ->
    by (apply listing_empty_iff; exact Hclear).
  unfold upload_all, do_with_rollback. rewrite upload_loop_none. cbn [fst snd st_log app].
  exists (filter (rank_is 0) files), (filter (rank_is 1) files), (filter (rank_is 2) files).
  split; [reflexivity|]. split; [unfold upload_order; now rewrite !upload_reqs_app|].
  split; [apply upload_order_perm|].
  split; [|split]; rewrite Forall_forall; intros f Hf; apply filter_In in Hf as [_ Hf].
  - now apply rank_0_name.
  - now apply rank_1_name.
  - now apply rank_2_name.
Qed.

(** everything below <vstr>/ is uploaded before the root inventory: such a name is not
    "inventory.json" (it has a slash) and does not begin with "inventory.json." unless the
    directory itself is named so, which no version directory ("v" and digits) is *)
Lemma starts_with_noslash_cut : forall p v t, noslash p = true ->
  starts_with p (v ++ slash :: t) = true -> starts_with p v = true.
Proof.
  induction p as [|c p IH]; intros v t Hp H; [reflexivity|].
  cbn [noslash forallb] in Hp. apply andb_true_iff in Hp as [Hc Hp].
  destruct v as [|d v]; cbn [app starts_with] in H |- *.
  - apply andb_true_iff in H as [H _]. apply Ascii.eqb_eq in H. subst c. discriminate.
  - apply andb_true_iff in H as [H1 H2]. rewrite H1. cbn [andb]. eapply IH; eauto.
Qed.

Lemma version_files_rank_0 vstr rel :
  starts_with K_INVENTORY_SIDECAR_PREFIX vstr = false ->
  starts_with (vstr ++ [slash]) rel = true -> upload_rank rel = 0.
Proof.
  intros H1 H3. apply starts_with_inv in H3 as [t ->]. rewrite <- app_assoc. cbn [app]. unfold upload_rank.
  destruct (starts_with K_INVENTORY_SIDECAR_PREFIX (vstr ++ slash :: t)) eqn:X.
  { apply starts_with_noslash_cut in X; [congruence|reflexivity]. }
  destruct (bytes_eqb (vstr ++ slash :: t) K_INVENTORY_FILE) eqn:E; [|reflexivity].
  apply bytes_eqb_eq in E. exfalso.
  assert (N : noslash (vstr ++ slash :: t) = true) by (rewrite E; reflexivity).
  unfold noslash in N. rewrite forallb_app in N. apply andb_true_iff in N as [_ N]. discriminate.
Qed.

(* ------------------------------------------------------------------ samples: the inputs of the two repaired classes *)

Definition wit_bucket : bucket :=
  [(b "pre/o1/0=ocfl_object_1.0", b "decl");
   (b "pre/o1/inventory.json", b "inv1"); (b "pre/o1/inventory.json.sha512", b "sc1");
   (b "pre/o1/v1/inventory.json", b "inv1"); (b "pre/o1/v1/inventory.json.sha512", b "sc1");
   (b "pre/o1/v1/content/a.txt", b "A")].
(** the staged v2 as WalkDir happens to list it: inventory first *)
Definition wit_input : nv_input :=
  mkNv (b "o1") (b "v2")
       [mkUf (b "inventory.json") 700 (b "inv2"); mkUf (b "content/b.txt") 3 (b "B");
        mkUf (b "inventory.json.sha512") 140 (b "sc2")]
       (mkUf (b "inventory.json") 700 (b "inv2")) (mkUf (b "inventory.json.sha512") 140 (b "sc2"))
       (b "inventory.json.sha512") None.
Definition wit_upgrade : nv_input :=
  mkNv (b "o1") (b "v2")
       [mkUf (b "inventory.json") 700 (b "inv2"); mkUf (b "inventory.json.sha512") 140 (b "sc2")]
       (mkUf (b "inventory.json") 700 (b "inv2")) (mkUf (b "inventory.json.sha512") 140 (b "sc2"))
       (b "inventory.json.sha512") (Some (b "0=ocfl_object_1.1", b "decl11")).

Definition opt_eqb (a c : option bytes) : bool :=
  match a, c with Some x, Some y => bytes_eqb x y | None, None => true | _, _ => false end.
(** the two buckets read alike at every key either of them has *)
Definition bk_equiv (a c : bucket) : bool :=
  forallb (fun k => opt_eqb (bk_get k a) (bk_get k c)) (bk_keys a ++ bk_keys c).
Definition is_err (r : res unit) : bool := match r with Err => true | _ => false end.

(** the input of the former class root-inventory-rollback: the root sidecar PUT (request 4) fails.
    Now the previous root inventory is PUT back and the version files are deleted. *)
Lemma sidecar_fault_sample :
  let out := write_new_version (Some 4) None (b "pre") wit_input (init_st wit_bucket) in
  fst out = Err /\ bk_equiv (st_b (snd out)) wit_bucket = true /\
  st_log (snd out) =
    [RGet (b "pre/o1/inventory.json"); RGet (b "pre/o1/inventory.json.sha512");
     RPut (b "pre/o1/v2/content/b.txt"); RPut (b "pre/o1/v2/inventory.json"); RPut (b "pre/o1/v2/inventory.json.sha512");
     RPut (b "pre/o1/inventory.json"); RPut (b "pre/o1/inventory.json.sha512");
     RPut (b "pre/o1/inventory.json"); RPut (b "pre/o1/inventory.json.sha512");
     RDelete (b "pre/o1/v2/content/b.txt"); RDelete (b "pre/o1/v2/inventory.json");
     RDelete (b "pre/o1/v2/inventory.json.sha512")].
Proof. vm_compute. repeat split; reflexivity. Qed.

(** an upgrade: the six mutating requests of the fault-free commit, and every one of them failed
    in turn - also the PUT of the new declaration (4) and the DELETE of the old one (5) *)
Lemma upgrade_sweep_sample :
  st_log (snd (write_new_version None None (b "pre") wit_upgrade (init_st wit_bucket))) =
    [RGet (b "pre/o1/inventory.json"); RGet (b "pre/o1/inventory.json.sha512"); RGet (b "pre/o1/0=ocfl_object_1.0");
     RPut (b "pre/o1/v2/inventory.json"); RPut (b "pre/o1/v2/inventory.json.sha512");
     RPut (b "pre/o1/inventory.json"); RPut (b "pre/o1/inventory.json.sha512");
     RPut (b "pre/o1/0=ocfl_object_1.1"); RDelete (b "pre/o1/0=ocfl_object_1.0")] /\
  forallb (fun k => let out := write_new_version (Some k) None (b "pre") wit_upgrade (init_st wit_bucket) in
                    is_err (fst out) && bk_equiv (st_b (snd out)) wit_bucket && (k <? st_n (snd out)))
          [0; 1; 2; 3; 4; 5] = true /\
  fst (write_new_version (Some 6) None (b "pre") wit_upgrade (init_st wit_bucket)) = Ok tt /\
  st_log (snd (write_new_version (Some 5) None (b "pre") wit_upgrade (init_st wit_bucket))) =
    [RGet (b "pre/o1/inventory.json"); RGet (b "pre/o1/inventory.json.sha512"); RGet (b "pre/o1/0=ocfl_object_1.0");
     RPut (b "pre/o1/v2/inventory.json"); RPut (b "pre/o1/v2/inventory.json.sha512");
     RPut (b "pre/o1/inventory.json"); RPut (b "pre/o1/inventory.json.sha512");
     RPut (b "pre/o1/0=ocfl_object_1.1"); RDelete (b "pre/o1/0=ocfl_object_1.0");
     RDelete (b "pre/o1/0=ocfl_object_1.1"); RPut (b "pre/o1/0=ocfl_object_1.0");
     RPut (b "pre/o1/inventory.json"); RPut (b "pre/o1/inventory.json.sha512");
     RDelete (b "pre/o1/v2/inventory.json"); RDelete (b "pre/o1/v2/inventory.json.sha512")].
Proof. vm_compute. repeat split; reflexivity. Qed.

(** the reads of the upgrade failed in turn (root inventory, root sidecar, find_files listing, old
    declaration): an error, the bucket literally untouched, no mutating request; read 4 does not exist *)
Lemma read_fault_sample :
  forallb (fun j => let out := write_new_version None (Some j) (b "pre") wit_upgrade (init_st wit_bucket) in
                    is_err (fst out) && bk_equiv (st_b (snd out)) wit_bucket && (st_n (snd out) =? 0)
                    && forallb is_get (st_log (snd out)))
          [0; 1; 2; 3] = true /\
  fst (write_new_version None (Some 4) (b "pre") wit_upgrade (init_st wit_bucket)) = Ok tt.
Proof. vm_compute. split; reflexivity. Qed.

Lemma wit_upgrade_wf : nv_wf (b "pre") wit_upgrade /\ nv_ready (b "pre") wit_upgrade wit_bucket.
Proof.
  split.
  - constructor; try reflexivity.
    + repeat constructor.
    + intros name content E. injection E as <- _. reflexivity.
  - constructor; [|discriminate|discriminate].
    intros k Hk. cbn in Hk. repeat (destruct Hk as [<- | Hk]; [reflexivity|]). destruct Hk.
Qed.

Lemma wit_input_wf : nv_wf (b "pre") wit_input /\ nv_ready (b "pre") wit_input wit_bucket.
Proof.
  split.
  - constructor; try reflexivity.
    + repeat constructor.
    + intros name content E. discriminate.
  - constructor; [|discriminate|discriminate].
    intros k Hk. cbn in Hk. repeat (destruct Hk as [<- | Hk]; [reflexivity|]). destruct Hk.
Qed.

(** the input of the former class new-object-walk-order: the walk of a staged object with
    zero-padded version numbers (`new -z 2`) lists the root inventory first; it is stored last
    but one, its sidecar last *)
Definition wit_walk : list ufile :=
  [mkUf (b "inventory.json") 600 (b "inv1"); mkUf (b "v01/inventory.json") 600 (b "inv1");
   mkUf (b "v01/content/a.txt") 5 (b "A"); mkUf (b "v01/inventory.json.sha256") 80 (b "sc1");
   mkUf (b "inventory.json.sha256") 80 (b "sc1"); mkUf (b "0=ocfl_object_1.0") 16 (b "decl")].
Lemma new_object_walk_sample :
  st_log (snd (write_new_object None [] (b "o1") wit_walk (init_st []))) =
    [RPut (b "o1/v01/inventory.json"); RPut (b "o1/v01/content/a.txt"); RPut (b "o1/v01/inventory.json.sha256");
     RPut (b "o1/0=ocfl_object_1.0"); RPut (b "o1/inventory.json"); RPut (b "o1/inventory.json.sha256")].
Proof. vm_compute. reflexivity. Qed.

(* ------------------------------------------------------------------ historical notes: the behaviour before the repairs *)

(** before /repo commit 9053efb the failed root sidecar PUT made do_with_rollback delete the root
    inventory.json that had already replaced the previous one *)
Lemma root_inventory_rollback_before_fix :
  let out := write_new_version_before_fix (Some 4) (b "pre") wit_input (init_st wit_bucket) in
  fst out = Err /\
  bk_get (b "pre/o1/inventory.json") wit_bucket = Some (b "inv1") /\
  bk_get (b "pre/o1/inventory.json") (st_b (snd out)) = None /\
  bk_get (b "pre/o1/inventory.json.sha512") (st_b (snd out)) = Some (b "sc1").
Proof. vm_compute. repeat split; reflexivity. Qed.

(** ... and a failed PUT of the new declaration of an upgrade left v2 installed under the old one *)
Lemma upgrade_swap_before_fix :
  let out := write_new_version_before_fix (Some 4) (b "pre") wit_upgrade (init_st wit_bucket) in
  fst out = Err /\
  bk_get (b "pre/o1/inventory.json") (st_b (snd out)) = Some (b "inv2") /\
  bk_get (b "pre/o1/0=ocfl_object_1.0") (st_b (snd out)) = Some (b "decl") /\
  bk_get (b "pre/o1/0=ocfl_object_1.1") (st_b (snd out)) = None.
Proof. vm_compute. repeat split; reflexivity. Qed.

(** before /repo commit 4953bf6 a new object was uploaded in walk order: root inventory first *)
Lemma new_object_walk_order_before_fix :
  st_log (snd (write_new_object_before_fix None [] (b "o1") wit_walk (init_st []))) =
    [RPut (b "o1/inventory.json"); RPut (b "o1/v01/inventory.json"); RPut (b "o1/v01/content/a.txt");
     RPut (b "o1/v01/inventory.json.sha256"); RPut (b "o1/inventory.json.sha256"); RPut (b "o1/0=ocfl_object_1.0")].
Proof. vm_compute. reflexivity. Qed.
