(** Lemmas about the S3 model, part B: the request programs of write_new_version /
    write_new_object under the single-fault oracle. *)
From Rocfl Require Import Base.Bytes Generated.Consts Model.S3 Model.KnownS3 Proofs.BytesFacts Proofs.S3Facts.
From Coq Require Import ZArith Lia ZifyBool ZifyN ZifyNat.
Open Scope N_scope.

(* ------------------------------------------------------------------ buckets *)

Lemma bytes_eqb_sym x y : bytes_eqb x y = bytes_eqb y x.
Proof.
  destruct (bytes_eqb x y) eqn:E.
  - apply bytes_eqb_eq in E. subst. now rewrite bytes_eqb_refl.
  - apply bytes_eqb_false in E. symmetry. apply bytes_eqb_false. congruence.
Qed.

Lemma bk_get_remove k x bk : bk_get x (bk_remove k bk) = if bytes_eqb x k then None else bk_get x bk.
Proof.
  induction bk as [|[k' v] r IH]; cbn [bk_remove bk_get].
  - now destruct (bytes_eqb x k).
  - destruct (bytes_eqb k k') eqn:E.
    + apply bytes_eqb_eq in E. subst k'. rewrite IH. now destruct (bytes_eqb x k).
    + cbn [bk_get]. rewrite IH. destruct (bytes_eqb x k') eqn:E2; [|reflexivity].
      apply bytes_eqb_eq in E2. subst k'. now rewrite bytes_eqb_sym, E.
Qed.

Lemma bk_get_put k v x bk : bk_get x (bk_put k v bk) = if bytes_eqb x k then Some v else bk_get x bk.
Proof.
  unfold bk_put. cbn [bk_get]. destruct (bytes_eqb x k) eqn:E; [reflexivity|].
  now rewrite bk_get_remove, E.
Qed.

Lemma bk_get_in_keys x bk : bk_get x bk <> None -> In x (bk_keys bk).
Proof.
  induction bk as [|[k v] r IH]; cbn [bk_get bk_keys map fst]; [congruence|].
  destruct (bytes_eqb x k) eqn:E.
  - apply bytes_eqb_eq in E. subst. now left.
  - intros H. right. now apply IH.
Qed.

Lemma clear_get_none rp bk x :
  (forall k, In k (bk_keys bk) -> starts_with rp k = false) -> starts_with rp x = true -> bk_get x bk = None.
Proof.
  intros Hc Hx. destruct (bk_get x bk) eqn:E; [|reflexivity].
  assert (In x (bk_keys bk)) as Hin by (apply bk_get_in_keys; congruence).
  rewrite (Hc _ Hin) in Hx. discriminate.
Qed.

(* ------------------------------------------------------------------ the fault oracle *)

Definition hit (fa : option N) (lo hi : N) : Prop := exists k, fa = Some k /\ lo <= k /\ k < hi.
Definition miss (fa : option N) (lo hi : N) : Prop := forall k, fa = Some k -> k < lo \/ hi <= k.
Definition fault_past (fa : option N) (n : N) : Prop := forall k, fa = Some k -> k < n.

Lemma hit_past fa lo hi : hit fa lo hi -> fault_past fa hi.
Proof. intros (k & -> & _ & H) k' E. injection E as <-. exact H. Qed.

Lemma fault_past_mono fa n m : fault_past fa n -> n <= m -> fault_past fa m.
Proof. intros H L k E. specialize (H k E). lia. Qed.

Lemma hit_widen fa lo hi lo' hi' : hit fa lo hi -> lo' <= lo -> hi <= hi' -> hit fa lo' hi'.
Proof. intros (k & E & H1 & H2) L1 L2. exists k. repeat split; [assumption|lia|lia]. Qed.

Lemma miss_join fa a m c : miss fa a m -> miss fa m c -> a <= m -> m <= c -> miss fa a c.
Proof. intros H1 H2 L1 L2 k E. destruct (H1 k E), (H2 k E); lia. Qed.

Lemma miss_hit_absurd fa lo hi lo' hi' : miss fa lo hi -> hit fa lo' hi' -> lo <= lo' -> hi' <= hi -> False.
Proof. intros M (k & E & H1 & H2) L1 L2. destruct (M k E); lia. Qed.

Lemma mreq_cases fa r eff s :
  (fst (mreq fa r eff s) = Ok tt /\ st_b (snd (mreq fa r eff s)) = eff (st_b s) /\ miss fa (st_n s) (st_n s + 1)) \/
  (fst (mreq fa r eff s) = Err /\ st_b (snd (mreq fa r eff s)) = st_b s /\ hit fa (st_n s) (st_n s + 1)).
Proof.
  unfold mreq. destruct fa as [k|]; cbn [fst snd st_b].
  - destruct (st_n s =? k) eqn:E.
    + right. repeat split. exists k. repeat split; lia.
    + left. repeat split. intros k' E'. injection E' as <-. lia.
  - left. repeat split. intros k' E'. discriminate.
Qed.

Lemma mreq_n fa r eff s : st_n (snd (mreq fa r eff s)) = st_n s + 1.
Proof. reflexivity. Qed.

Lemma mreq_same_b fa r s : st_b (snd (mreq fa r same s)) = st_b s.
Proof. unfold mreq, same. cbn [snd st_b]. now destruct (match fa with Some k => st_n s =? k | None => false end). Qed.

(** outcome of one step of a request program, without the log *)
Definition step_ok (fa : option N) (s : st) (cost : N) (eff : bucket -> bucket) (rs : res unit * st) : Prop :=
  (fst rs = Ok tt /\ st_b (snd rs) = eff (st_b s) /\ st_n (snd rs) = st_n s + cost /\ miss fa (st_n s) (st_n s + cost)) \/
  (fst rs = Err /\ st_b (snd rs) = st_b s /\ st_n s < st_n (snd rs) /\ hit fa (st_n s) (st_n (snd rs))).

Lemma mreq_step fa r eff s : step_ok fa s 1 eff (mreq fa r eff s).
Proof.
  destruct (mreq_cases fa r eff s) as [(A & B & C) | (A & B & C)]; [left|right]; rewrite ?mreq_n; repeat split; auto; lia.
Qed.

Lemma mp_parts_step fa key : forall todo i s,
  step_ok fa s (N.of_nat todo) same (mp_parts fa key i todo s).
Proof.
  induction todo as [|t IH]; intros i s.
  - left. cbn [mp_parts fst snd]. unfold same. repeat split; try lia. intros k _. lia.
  - cbn [mp_parts].
    pose proof (mreq_step fa (RMpPart key i) same s) as H1.
    destruct (mreq fa (RMpPart key i) same s) as [r1 s1] eqn:E1. unfold step_ok in H1; cbn [fst snd] in H1.
    destruct H1 as [(A & B & C & D) | (A & B & C & D)]; subst r1.
    + specialize (IH (i + 1) s1). unfold step_ok in IH |- *. destruct IH as [(A' & B' & C' & D') | (A' & B' & C' & D')].
      * left. repeat split; [assumption|unfold same in *; congruence|lia|].
        apply (miss_join fa _ (st_n s1) _); [rewrite C; exact D| |lia|lia].
        replace (st_n s + N.of_nat (S t)) with (st_n s1 + N.of_nat t) by lia. exact D'.
      * right. repeat split; [assumption|unfold same in *; congruence|lia|]. eapply hit_widen; [exact D'|lia|lia].
    + right. cbn [fst snd]. rewrite mreq_n, mreq_same_b. repeat split; [assumption|lia|]. eapply hit_widen; [exact D|lia|lia].
Qed.

Lemma put_cost_multipart len : K_S3_PART_SIZE <? len = true -> put_cost len = 1 + N.of_nat (N.to_nat (n_parts len)) + 1.
Proof. intros H. unfold put_cost. rewrite H. lia. Qed.

Lemma multipart_put_step fa key len tok s : K_S3_PART_SIZE <? len = true ->
  step_ok fa s (put_cost len) (bk_put key tok) (multipart_put fa key len tok s).
Proof.
  intros Hl. rewrite (put_cost_multipart _ Hl). unfold multipart_put.
  pose proof (mreq_step fa (RMpCreate key) same s) as H1.
  destruct (mreq fa (RMpCreate key) same s) as [r1 s1]. unfold step_ok in H1 |- *; cbn [fst snd] in H1.
  destruct H1 as [(A & B & C & D) | (A & B & C & D)]; subst r1.
  - pose proof (mp_parts_step fa key (N.to_nat (n_parts len)) 1 s1) as H2.
    destruct (mp_parts fa key 1 (N.to_nat (n_parts len)) s1) as [r2 s2]. unfold step_ok in H2; cbn [fst snd] in H2.
    destruct H2 as [(A2 & B2 & C2 & D2) | (A2 & B2 & C2 & D2)]; subst r2.
    + pose proof (mreq_step fa (RMpComplete key) (bk_put key tok) s2) as H3.
      destruct (mreq fa (RMpComplete key) (bk_put key tok) s2) as [r3 s3]. unfold step_ok in H3; cbn [fst snd] in H3.
      unfold same in *.
      destruct H3 as [(A3 & B3 & C3 & D3) | (A3 & B3 & C3 & D3)]; subst r3; cbn [fst snd].
      * left. repeat split; [congruence|lia|].
        apply (miss_join fa _ (st_n s2) _);
          [apply (miss_join fa _ (st_n s1) _); [rewrite C; exact D|rewrite C2; exact D2|lia|lia]
          |replace (st_n s + (1 + N.of_nat (N.to_nat (n_parts len)) + 1)) with (st_n s2 + 1) by lia; exact D3
          |lia|lia].
      * right. repeat split; [congruence|lia|]. eapply hit_widen; [exact D3|lia|lia].
    + right. cbn [fst snd]. unfold same in *. repeat split; [congruence|lia|]. eapply hit_widen; [exact D2|lia|lia].
  - right. cbn [fst snd]. repeat split; auto.
Qed.

Lemma put_object_file_step fa cp path len tok s :
  step_ok fa s (put_cost len) (bk_put (join cp path) tok) (put_object_file fa cp path len tok s).
Proof.
  unfold put_object_file. destruct (K_S3_PART_SIZE <? len) eqn:E.
  - now apply multipart_put_step.
  - replace (put_cost len) with 1 by (unfold put_cost; now rewrite E). apply mreq_step.
Qed.

(* ------------------------------------------------------------------ upload loop and rollback *)

(** [bk] agrees with the initial bucket [b0] outside the keys of the paths in [done] *)
Definition agrees (cp : bytes) (b0 : bucket) (done : list bytes) (bk : bucket) : Prop :=
  forall x, ~ In x (map (join cp) done) -> bk_get x bk = bk_get x b0.

Lemma agrees_put cp b0 done bk p tok :
  agrees cp b0 done bk -> agrees cp b0 (done ++ [p]) (bk_put (join cp p) tok bk).
Proof.
  intros H x Hx. rewrite map_app, in_app_iff in Hx. cbn [map In] in Hx.
  rewrite bk_get_put. destruct (bytes_eqb x (join cp p)) eqn:E.
  - apply bytes_eqb_eq in E. subst. exfalso. apply Hx. right. now left.
  - apply H. intros Hin. apply Hx. now left.
Qed.

Lemma agrees_weaken cp b0 done p bk : agrees cp b0 done bk -> agrees cp b0 (done ++ [p]) bk.
Proof. intros H x Hx. apply H. intros Hin. apply Hx. rewrite map_app, in_app_iff. now left. Qed.

Lemma upload_loop_spec fa cp dst b0 : forall files done s,
  agrees cp b0 done (st_b s) ->
  let out := upload_loop fa cp dst files done s in
  agrees cp b0 (snd (fst out)) (st_b (snd out)) /\
  Forall (fun p => In p done \/ exists f, In f files /\ p = join dst (uf_rel f)) (snd (fst out)) /\
  ((fst (fst out) = Ok tt /\ st_n (snd out) = st_n s + upload_cost files /\
    miss fa (st_n s) (st_n s + upload_cost files) /\
    snd (fst out) = done ++ map (fun f => join dst (uf_rel f)) files) \/
   (fst (fst out) = Err /\ st_n s < st_n (snd out) /\ hit fa (st_n s) (st_n (snd out)))).
Proof.
  induction files as [|f fs IH]; intros done s Hag; cbn zeta.
  - cbn [upload_loop fst snd upload_cost fold_right map]. split; [assumption|]. split.
    + rewrite Forall_forall. auto.
    + left. rewrite app_nil_r. repeat split; try lia. intros k _. lia.
  - cbn [upload_loop].
    pose proof (put_object_file_step fa cp (join dst (uf_rel f)) (uf_len f) (uf_tok f) s) as H1.
    destruct (put_object_file fa cp (join dst (uf_rel f)) (uf_len f) (uf_tok f) s) as [r1 s1].
    unfold step_ok in H1; cbn [fst snd] in H1. destruct H1 as [(A & B & C & D) | (A & B & C & D)]; subst r1.
    + assert (Hag1 : agrees cp b0 (done ++ [join dst (uf_rel f)]) (st_b s1)) by (rewrite B; now apply agrees_put).
      specialize (IH (done ++ [join dst (uf_rel f)]) s1 Hag1). cbn zeta in IH.
      destruct IH as (I1 & I2 & I3). split; [assumption|]. split.
      * rewrite Forall_forall in *. intros p Hp. destruct (I2 p Hp) as [Hin | (f' & Hf' & ->)].
        -- apply in_app_iff in Hin as [Hin | [<- | []]]; [now left|]. right. exists f. split; [now left|reflexivity].
        -- right. exists f'. split; [now right|reflexivity].
      * cbn [upload_cost fold_right] in *. fold (upload_cost fs).
        destruct I3 as [(J1 & J2 & J3 & J4) | (J1 & J2 & J3)].
        -- left. repeat split; [assumption|lia| |].
           ++ apply (miss_join fa _ (st_n s1) _); [rewrite C; exact D| |lia|lia].
              replace (st_n s + (put_cost (uf_len f) + upload_cost fs)) with (st_n s1 + upload_cost fs) by lia.
              exact J3.
           ++ rewrite J4. cbn [map]. now rewrite <- app_assoc.
        -- right. repeat split; [assumption|lia|]. eapply hit_widen; [exact J3|lia|lia].
    + cbn [fst snd]. split; [now rewrite B|]. split.
      * rewrite Forall_forall. auto.
      * right. repeat split; assumption.
Qed.

Lemma rollback_spec fa cp : forall done s, fault_past fa (st_n s) ->
  forall x, bk_get x (st_b (rollback fa cp done s)) =
            if existsb (bytes_eqb x) (map (join cp) done) then None else bk_get x (st_b s).
Proof.
  induction done as [|p r IH]; intros s Hp x; [reflexivity|].
  cbn [rollback map existsb]. unfold delete_object.
  destruct (mreq_cases fa (RDelete (join cp p)) (bk_remove (join cp p)) s) as [(A & B & C) | (A & B & (k & E & L1 & L2))].
  - rewrite IH by (rewrite mreq_n; eapply fault_past_mono; [exact Hp|lia]).
    rewrite B, bk_get_remove. destruct (bytes_eqb x (join cp p)); cbn [orb]; [|reflexivity].
    now destruct (existsb _ _).
  - specialize (Hp k E). lia.
Qed.

Lemma rollback_restores fa cp b0 done s :
  agrees cp b0 done (st_b s) -> fault_past fa (st_n s) ->
  (forall p, In p done -> bk_get (join cp p) b0 = None) ->
  forall x, bk_get x (st_b (rollback fa cp done s)) = bk_get x b0.
Proof.
  intros Hag Hp Habs x. rewrite rollback_spec by assumption.
  destruct (existsb (bytes_eqb x) (map (join cp) done)) eqn:E.
  - apply existsb_exists in E as (y & Hy & Ey). apply bytes_eqb_eq in Ey. subst y.
    apply in_map_iff in Hy as (p & <- & Hp'). symmetry. now apply Habs.
  - apply Hag. intros Hin. assert (existsb (bytes_eqb x) (map (join cp) done) = true) as X.
    { apply existsb_exists. exists x. split; [assumption|apply bytes_eqb_refl]. }
    congruence.
Qed.

(* ------------------------------------------------------------------ keys under the version prefix *)

Lemma under_prefix cp dst rel : pfx_ok cp = true -> relb dst = true -> relb rel = true ->
  starts_with (request_prefix cp dst) (join cp (join dst rel)) = true.
Proof.
  intros Hc Hd Hr. unfold request_prefix, join_ts.
  rewrite (join_relb dst rel) by assumption.
  rewrite (join_under cp dst), (join_under cp (dst ++ slash :: rel)) by (auto using relb_app).
  assert (R : relb (under cp dst) = true \/ cp <> []).
  { destruct cp; [left; exact Hd|right; discriminate]. }
  assert (L : last_is_slash (under cp dst) = false /\ under cp dst <> []).
  { apply relb_inv in Hd as (Hd1 & _ & Hd3). destruct cp as [|c cp]; cbn [under]; [auto|].
    split; [|discriminate]. destruct dst as [|d dst]; [congruence|].
    change (c :: cp ++ slash :: d :: dst) with ((c :: cp ++ [slash]) ++ d :: dst).
    now rewrite last_is_slash_app. }
  destruct L as [L1 L2]. apply is_nil_false in L2. rewrite L1, L2. cbn [negb andb].
  destruct cp as [|c cp]; cbn [under].
  - rewrite starts_with_app_same. reflexivity.
  - rewrite <- app_assoc. rewrite (starts_with_app_same (c :: cp)).
    cbn [app starts_with]. change (Ascii.eqb slash slash) with true. cbn [andb].
    rewrite starts_with_app_same. reflexivity.
Qed.

(* ------------------------------------------------------------------ fault cleanup *)

Record nv_wf (cp : bytes) (i : nv_input) : Prop := mkNvWf {
  wf_cp : pfx_ok cp = true;
  wf_root : relb (nv_root i) = true;
  wf_vstr : relb (nv_vstr i) = true;
  wf_files : Forall (fun f => relb (uf_rel f) = true) (nv_files i)
}.

Definition vdst_of (i : nv_input) : bytes := join (nv_root i) (nv_vstr i).
Definition clear_under (cp dst : bytes) (bk : bucket) : Prop :=
  forall k, In k (bk_keys bk) -> starts_with (request_prefix cp dst) k = false.

Lemma agrees_refl cp b0 : agrees cp b0 [] b0.
Proof. intros x _. reflexivity. Qed.

Lemma upload_all_spec fa cp dst files b0 :
  pfx_ok cp = true -> relb dst = true -> Forall (fun f => relb (uf_rel f) = true) files ->
  clear_under cp dst b0 ->
  let out := upload_all fa cp dst files (init_st b0) in
  (exists uploaded, fst out = Ok uploaded /\ agrees cp b0 uploaded (st_b (snd out)) /\
     (forall p, In p uploaded -> bk_get (join cp p) b0 = None) /\
     st_n (snd out) = upload_cost files /\ miss fa 0 (upload_cost files)) \/
  (fst out = Err /\ forall x, bk_get x (st_b (snd out)) = bk_get x b0).
Proof.
  intros Hc Hd Hf Hclear. cbn zeta. unfold upload_all, do_with_rollback.
  pose proof (upload_loop_spec fa cp dst b0 files [] (init_st b0) (agrees_refl cp b0)) as H.
  cbn zeta in H. destruct (upload_loop fa cp dst files [] (init_st b0)) as [[r done'] s1].
  cbn [fst snd] in H. destruct H as (Hag & Hall & Hres).
  assert (Habs : forall p, In p done' -> bk_get (join cp p) b0 = None).
  { rewrite Forall_forall in Hall, Hf. intros p Hp. destruct (Hall p Hp) as [[] | (f & Hin & ->)].
    apply (clear_get_none (request_prefix cp dst)); [exact Hclear|]. apply under_prefix; auto. }
  destruct Hres as [(-> & Hn & Hm & _) | (-> & Hlt & Hh)].
  - left. exists done'. cbn [fst snd init_st st_n] in *. repeat split; auto.
  - right. cbn [fst snd]. split; [reflexivity|]. apply rollback_restores; auto. eapply hit_past; exact Hh.
Qed.

Lemma install_fault fa cp inv_dst sc_dst inv sc b0 uploaded s1 :
  agrees cp b0 uploaded (st_b s1) ->
  (forall p, In p uploaded -> bk_get (join cp p) b0 = None) ->
  hit fa (st_n s1) (st_n s1 + put_cost (uf_len inv)) ->
  let out := do_with_rollback fa cp (install_body fa cp inv_dst sc_dst inv sc) uploaded s1 in
  fst out = Err /\ forall x, bk_get x (st_b (snd out)) = bk_get x b0.
Proof.
  intros Hag Habs Hh. cbn zeta. unfold do_with_rollback, install_body.
  pose proof (put_object_file_step fa cp inv_dst (uf_len inv) (uf_tok inv) s1) as H1.
  destruct (put_object_file fa cp inv_dst (uf_len inv) (uf_tok inv) s1) as [r1 s2]. unfold step_ok in H1; cbn [fst snd] in H1.
  destruct H1 as [(A & B & C & D) | (A & B & C & D)]; subst r1.
  - exfalso. eapply miss_hit_absurd; [exact D|exact Hh|lia|lia].
  - cbn [fst snd]. split; [reflexivity|]. apply rollback_restores; auto.
    + now rewrite B.
    + eapply hit_past; exact D.
Qed.

(** C16, second half, outside the known class: a fault at any request up to and including the
    PUT of the root inventory makes the commit fail and leaves the bucket as it was *)
Lemma fault_cleanup_version cp i bk k :
  nv_wf cp i -> clear_under cp (vdst_of i) bk -> c16_root_inventory_rollback i k = false ->
  let out := write_new_version (Some k) cp i (init_st bk) in
  fst out = Err /\
  (forall x, bk_get x (st_b (snd out)) = bk_get x bk) /\
  (forall x, starts_with (request_prefix cp (vdst_of i)) x = true -> bk_get x (st_b (snd out)) = None).
Proof.
  intros [Hc Hr Hv Hf] Hclear Hk. cbn zeta.
  assert (Main : fst (write_new_version (Some k) cp i (init_st bk)) = Err /\
                 forall x, bk_get x (st_b (snd (write_new_version (Some k) cp i (init_st bk)))) = bk_get x bk).
  { unfold write_new_version. fold (vdst_of i). cbn [init_st st_b].
    assert (listing_empty (list_all (bk_keys bk) cp (vdst_of i) true) = Ok true) as ->
      by (apply listing_empty_iff; exact Hclear).
    pose proof (upload_all_spec (Some k) cp (vdst_of i) (nv_files i) bk Hc (relb_join _ _ Hr Hv) Hf Hclear) as H.
    cbn zeta in H. destruct (upload_all (Some k) cp (vdst_of i) (nv_files i) (init_st bk)) as [r1 s1].
    cbn [fst snd] in H. destruct H as [(up & -> & Hag & Habs & Hn & Hm) | (-> & Hb)].
    - unfold c16_root_inventory_rollback in Hk.
      assert (Hh : hit (Some k) (st_n s1) (st_n s1 + put_cost (uf_len (nv_inv i)))).
      { exists k. split; [reflexivity|]. destruct (Hm k eq_refl); lia. }
      pose proof (install_fault (Some k) cp (join (nv_root i) K_INVENTORY_FILE) (join (nv_root i) (uf_rel (nv_sidecar i)))
                    (nv_inv i) (nv_sidecar i) bk up s1 Hag Habs Hh) as H2.
      cbn zeta in H2. destruct (do_with_rollback _ _ _ up s1) as [r2 s2]. cbn [fst snd] in H2.
      destruct H2 as [-> Hb]. cbn [fst snd]. auto.
    - cbn [fst snd]. auto. }
  destruct Main as [M1 M2]. repeat split; auto.
  intros x Hx. rewrite M2. now apply (clear_get_none (request_prefix cp (vdst_of i))).
Qed.

Lemma fault_cleanup_object cp root files bk k :
  pfx_ok cp = true -> relb root = true -> Forall (fun f => relb (uf_rel f) = true) files ->
  clear_under cp root bk -> k < upload_cost files ->
  let out := write_new_object (Some k) cp root files (init_st bk) in
  fst out = Err /\ (forall x, bk_get x (st_b (snd out)) = bk_get x bk).
Proof.
  intros Hc Hr Hf Hclear Hk. cbn zeta. unfold write_new_object. cbn [init_st st_b].
  assert (listing_empty (list_all (bk_keys bk) cp root true) = Ok true) as ->
    by (apply listing_empty_iff; exact Hclear).
  pose proof (upload_all_spec (Some k) cp root files bk Hc Hr Hf Hclear) as H.
  cbn zeta in H. destruct (upload_all (Some k) cp root files (init_st bk)) as [r1 s1].
  cbn [fst snd] in H. destruct H as [(up & -> & Hag & Habs & Hn & Hm) | (-> & Hb)].
  - exfalso. destruct (Hm k eq_refl); lia.
  - cbn [fst snd]. auto.
Qed.

(** a refused commit (something already lies under the destination prefix) issues no request *)
Lemma write_new_version_refused fa cp i s :
  listing_empty (list_all (bk_keys (st_b s)) cp (vdst_of i) true) <> Ok true ->
  fst (write_new_version fa cp i s) <> Ok tt /\ snd (write_new_version fa cp i s) = s.
Proof.
  intros H. unfold write_new_version. fold (vdst_of i).
  destruct (listing_empty _) as [[|]| |]; [congruence| | |]; cbn [fst snd]; split; (discriminate || reflexivity).
Qed.

(* ------------------------------------------------------------------ fault-free runs: the exact request sequence *)

Lemma st_eta s : s = mkSt (st_b s) (st_n s) (st_log s).
Proof. now destruct s. Qed.

Lemma mreq_none r eff s : mreq None r eff s = (Ok tt, mkSt (eff (st_b s)) (st_n s + 1) (st_log s ++ [r])).
Proof. reflexivity. Qed.

Lemma mp_parts_none key : forall todo i s,
  mp_parts None key i todo s = (Ok tt, mkSt (st_b s) (st_n s + N.of_nat todo) (st_log s ++ part_reqs key i todo)).
Proof.
  induction todo as [|t IH]; intros i s.
  - cbn [mp_parts part_reqs]. rewrite app_nil_r. replace (st_n s + N.of_nat 0) with (st_n s) by lia.
    now rewrite <- st_eta.
  - cbn [mp_parts part_reqs]. rewrite mreq_none, IH. cbn [st_b st_n st_log]. unfold same.
    rewrite <- app_assoc. cbn [app]. do 2 f_equal. lia.
Qed.

Lemma put_object_file_none cp path len tok s :
  put_object_file None cp path len tok s =
  (Ok tt, mkSt (bk_put (join cp path) tok (st_b s)) (st_n s + put_cost len) (st_log s ++ put_reqs (join cp path) len)).
Proof.
  unfold put_object_file, put_cost, put_reqs. destruct (K_S3_PART_SIZE <? len).
  - unfold multipart_put. rewrite mreq_none, mp_parts_none, mreq_none. cbn [st_b st_n st_log]. unfold same.
    rewrite <- !app_assoc. cbn [app]. do 2 f_equal. lia.
  - now rewrite mreq_none.
Qed.

Definition upload_reqs (cp dst : bytes) (files : list ufile) : list req :=
  flat_map (fun f => put_reqs (join cp (join dst (uf_rel f))) (uf_len f)) files.
Definition upload_bucket (cp dst : bytes) (files : list ufile) (bk : bucket) : bucket :=
  fold_left (fun b0 f => bk_put (join cp (join dst (uf_rel f))) (uf_tok f) b0) files bk.

Lemma upload_loop_none cp dst : forall files done s,
  upload_loop None cp dst files done s =
  ((Ok tt, done ++ map (fun f => join dst (uf_rel f)) files),
   mkSt (upload_bucket cp dst files (st_b s)) (st_n s + upload_cost files) (st_log s ++ upload_reqs cp dst files)).
Proof.
  induction files as [|f fs IH]; intros done s.
  - cbn [upload_loop map upload_bucket fold_left upload_cost fold_right upload_reqs flat_map].
    rewrite !app_nil_r. replace (st_n s + 0) with (st_n s) by lia. now rewrite <- st_eta.
  - cbn [upload_loop]. rewrite put_object_file_none, IH. cbn [st_b st_n st_log map].
    cbn [upload_bucket fold_left upload_cost fold_right upload_reqs flat_map].
    rewrite <- !app_assoc. cbn [app]. do 2 f_equal. fold (upload_cost fs). lia.
Qed.

Lemma delete_each_none cp : forall olds s,
  delete_each None cp olds s =
  (Ok tt, mkSt (fold_left (fun b0 o => bk_remove (join cp o) b0) olds (st_b s)) (st_n s + N.of_nat (List.length olds))
               (st_log s ++ map (fun o => RDelete (join cp o)) olds)).
Proof.
  induction olds as [|o r IH]; intros s.
  - cbn [delete_each fold_left map List.length]. rewrite app_nil_r.
    replace (st_n s + N.of_nat 0) with (st_n s) by lia. now rewrite <- st_eta.
  - cbn [delete_each]. unfold delete_object. rewrite mreq_none, IH. cbn [st_b st_n st_log fold_left map List.length].
    rewrite <- app_assoc. cbn [app]. do 2 f_equal. lia.
Qed.

(** what the declaration swap may send: deletes, and the PUT of the new declaration *)
Definition swap_req_ok (cp root : bytes) (up : option (bytes * bytes)) (r : req) : Prop :=
  stores_key r = None \/ exists name content, up = Some (name, content) /\ r = RPut (join cp (join root name)).

Lemma swap_declaration_none_log cp root up s :
  exists tail, st_log (snd (swap_declaration None cp root up s)) = st_log s ++ tail /\
               Forall (swap_req_ok cp root up) tail /\
               (up = None -> fst (swap_declaration None cp root up s) = Ok tt /\ tail = []).
Proof.
  unfold swap_declaration. destruct up as [[name content]|].
  - destruct (find_files _ _ _ _) as [olds| |].
    + unfold put_object_bytes. rewrite mreq_none, delete_each_none. cbn [fst snd st_log].
      exists (RPut (join cp (join root name)) :: map (fun o => RDelete (join cp o)) olds).
      rewrite <- app_assoc. split; [reflexivity|]. split; [|discriminate].
      constructor; [right; eauto|]. rewrite Forall_forall. intros r Hr.
      apply in_map_iff in Hr as (o & <- & _). now left.
    + exists []. rewrite app_nil_r. cbn. split; [reflexivity|]. split; [constructor|discriminate].
    + exists []. rewrite app_nil_r. cbn. split; [reflexivity|]. split; [constructor|discriminate].
  - exists []. rewrite app_nil_r. cbn. auto.
Qed.

Lemma part_reqs_keys key : forall todo i, Forall (fun r => req_key r = key) (part_reqs key i todo).
Proof. induction todo as [|t IH]; intros i; cbn [part_reqs]; constructor; auto. Qed.

Lemma put_reqs_keys key len : Forall (fun r => req_key r = key) (put_reqs key len).
Proof.
  unfold put_reqs. destruct (K_S3_PART_SIZE <? len).
  - constructor; [reflexivity|]. apply Forall_app. split; [apply part_reqs_keys|repeat constructor].
  - repeat constructor.
Qed.

Lemma upload_reqs_under cp dst files :
  pfx_ok cp = true -> relb dst = true -> Forall (fun f => relb (uf_rel f) = true) files ->
  Forall (fun r => starts_with (request_prefix cp dst) (req_key r) = true) (upload_reqs cp dst files).
Proof.
  intros Hc Hd Hf. unfold upload_reqs. rewrite Forall_forall in *. intros r Hr.
  apply in_flat_map in Hr as (f & Hin & Hr).
  pose proof (put_reqs_keys (join cp (join dst (uf_rel f))) (uf_len f)) as K. rewrite Forall_forall in K.
  rewrite (K _ Hr). apply under_prefix; auto.
Qed.

(** every file of the version is stored exactly by its own requests, in walk order *)
Lemma put_reqs_stores key len : exists l, put_reqs key len = l ++ [match l with [] => RPut key | _ => RMpComplete key end]
                                          /\ Forall (fun r => stores_key r = None) l.
Proof.
  unfold put_reqs. destruct (K_S3_PART_SIZE <? len).
  - exists (RMpCreate key :: part_reqs key 1 (N.to_nat (n_parts len))). split; [reflexivity|].
    constructor; [reflexivity|]. generalize 1. induction (N.to_nat (n_parts len)) as [|t IH]; intros i; cbn [part_reqs]; constructor; auto.
  - exists []. split; [reflexivity|constructor].
Qed.

(** C16, first half: in a fault-free commit of a new version the requests are: everything
    below <root>/vN/ (in walk order), then the root inventory.json, then the root sidecar,
    then (upgrade only) the declaration swap *)
Lemma root_inventory_last_version cp i bk :
  nv_wf cp i -> clear_under cp (vdst_of i) bk ->
  let out := write_new_version None cp i (init_st bk) in
  let up := upload_reqs cp (vdst_of i) (nv_files i) in
  let inv_key := join cp (join (nv_root i) K_INVENTORY_FILE) in
  let sc_key := join cp (join (nv_root i) (uf_rel (nv_sidecar i))) in
  exists tail,
    st_log (snd out) = up ++ put_reqs inv_key (uf_len (nv_inv i)) ++ put_reqs sc_key (uf_len (nv_sidecar i)) ++ tail /\
    Forall (fun r => starts_with (request_prefix cp (vdst_of i)) (req_key r) = true) up /\
    Forall (swap_req_ok cp (nv_root i) (nv_upgrade i)) tail /\
    (nv_upgrade i = None -> fst out = Ok tt /\ tail = []).
Proof.
  intros [Hc Hr Hv Hf] Hclear. cbn zeta.
  unfold write_new_version. fold (vdst_of i). cbn [init_st st_b].
  assert (listing_empty (list_all (bk_keys bk) cp (vdst_of i) true) = Ok true) as ->
    by (apply listing_empty_iff; exact Hclear).
  unfold upload_all, do_with_rollback. rewrite upload_loop_none. cbn [app].
  unfold install_body. rewrite !put_object_file_none. cbn [st_b st_n st_log app].
  match goal with |- context [swap_declaration None cp (nv_root i) (nv_upgrade i) ?s] =>
    destruct (swap_declaration_none_log cp (nv_root i) (nv_upgrade i) s) as (tail & E & F & G) end.
  exists tail. split; [cbn [st_log] in E; rewrite E, <- !app_assoc; reflexivity|]. split; [|split; assumption].
  apply upload_reqs_under; auto. now apply relb_join.
Qed.

(** the root inventory key does not lie below the version prefix *)
Lemma inv_key_not_under cp root vstr name :
  pfx_ok cp = true -> relb root = true -> relb vstr = true -> relb name = true ->
  starts_with (vstr ++ [slash]) name = false ->
  starts_with (request_prefix cp (join root vstr)) (join cp (join root name)) = false.
Proof.
  intros Hc Hr Hv Hn Hs. unfold request_prefix, join_ts.
  rewrite (join_relb root vstr), (join_relb root name) by assumption.
  rewrite !join_under by (auto using relb_app).
  assert (L : last_is_slash (under cp (root ++ slash :: vstr)) = false /\ under cp (root ++ slash :: vstr) <> []).
  { pose proof (relb_app _ _ Hr Hv) as R. apply relb_inv in R as (R1 & _ & R3).
    destruct cp as [|c cp]; cbn [under]; [auto|]. split; [|discriminate].
    destruct (root ++ slash :: vstr) as [|d t]; [congruence|].
    change (c :: cp ++ slash :: d :: t) with ((c :: cp ++ [slash]) ++ d :: t). now rewrite last_is_slash_app. }
  destruct L as [L1 L2]. apply is_nil_false in L2. rewrite L1, L2. cbn [negb andb].
  destruct cp as [|c cp]; cbn [under].
  - replace ((root ++ slash :: vstr) ++ [slash]) with (root ++ (slash :: vstr ++ [slash]))
      by (now rewrite <- app_assoc).
    rewrite starts_with_app_same. cbn [starts_with]. change (Ascii.eqb slash slash) with true. exact Hs.
  - replace (((c :: cp) ++ slash :: root ++ slash :: vstr) ++ [slash])
      with ((c :: cp) ++ (slash :: root ++ (slash :: vstr ++ [slash])))
      by (rewrite <- !app_assoc; cbn [app]; now rewrite <- app_assoc).
    rewrite (starts_with_app_same (c :: cp)). cbn [starts_with]. change (Ascii.eqb slash slash) with true.
    cbn [andb]. rewrite starts_with_app_same. cbn [starts_with]. change (Ascii.eqb slash slash) with true. exact Hs.
Qed.

(** new objects: the requests are exactly the walk; whether the root inventory comes last is
    decided by the directory order *)
Lemma new_object_log cp root files bk :
  clear_under cp root bk ->
  let out := write_new_object None cp root files (init_st bk) in
  fst out = Ok tt /\ st_log (snd out) = upload_reqs cp root files.
Proof.
  intros Hclear. cbn zeta. unfold write_new_object. cbn [init_st st_b].
  assert (listing_empty (list_all (bk_keys bk) cp root true) = Ok true) as ->
    by (apply listing_empty_iff; exact Hclear).
  unfold upload_all, do_with_rollback. rewrite upload_loop_none. cbn. auto.
Qed.

Lemma split_files name : forall files before after,
  split_at_rel name (map uf_rel files) = Some (before, after) ->
  exists fb inv fa, files = fb ++ inv :: fa /\ uf_rel inv = name /\ map uf_rel fb = before /\ map uf_rel fa = after.
Proof.
  induction files as [|f fs IH]; intros before after H; [discriminate|].
  cbn [map split_at_rel] in H. destruct (bytes_eqb (uf_rel f) name) eqn:E.
  - injection H as <- <-. apply bytes_eqb_eq in E. exists [], f, fs. auto.
  - destruct (split_at_rel name (map uf_rel fs)) as [[b1 a1]|] eqn:S; [|discriminate].
    injection H as <- <-. destruct (IH _ _ eq_refl) as (fb & inv & fa & -> & E1 & E2 & E3).
    exists (f :: fb), inv, fa. cbn [map app]. repeat split; auto. now rewrite E2.
Qed.

Lemma upload_reqs_app cp dst a c : upload_reqs cp dst (a ++ c) = upload_reqs cp dst a ++ upload_reqs cp dst c.
Proof. unfold upload_reqs. apply flat_map_app. Qed.

Lemma root_inventory_last_object cp root vstr sidecar files bk :
  clear_under cp root bk ->
  c16_new_object_walk_order vstr sidecar (map uf_rel files) = false ->
  let out := write_new_object None cp root files (init_st bk) in
  exists fb inv fa,
    files = fb ++ inv :: fa /\ uf_rel inv = K_INVENTORY_FILE /\
    st_log (snd out) = upload_reqs cp root fb ++ put_reqs (join cp (join root K_INVENTORY_FILE)) (uf_len inv)
                        ++ upload_reqs cp root fa /\
    Forall (fun f => starts_with (vstr ++ [slash]) (uf_rel f) = false) fa /\
    Forall (fun f => uf_rel f <> sidecar) fb.
Proof.
  intros Hclear Hk. cbn zeta. destruct (new_object_log cp root files bk Hclear) as [_ L]. cbn zeta in L.
  unfold c16_new_object_walk_order in Hk.
  destruct (split_at_rel K_INVENTORY_FILE (map uf_rel files)) as [[before after]|] eqn:S; [|discriminate].
  apply orb_false_iff in Hk as [K1 K2].
  destruct (split_files _ _ _ _ S) as (fb & inv & fa & -> & E1 & E2 & E3).
  exists fb, inv, fa. split; [reflexivity|]. split; [assumption|]. split.
  - rewrite L, upload_reqs_app. f_equal. unfold upload_reqs at 1. cbn [flat_map]. now rewrite E1.
  - split.
    + rewrite Forall_forall. intros f Hf. destruct (starts_with (vstr ++ [slash]) (uf_rel f)) eqn:X; [|reflexivity].
      assert (existsb (starts_with (vstr ++ [slash])) after = true); [|congruence].
      apply existsb_exists. exists (uf_rel f). split; [|assumption]. rewrite <- E3. now apply in_map.
    + rewrite Forall_forall. intros f Hf Eq.
      assert (existsb (bytes_eqb sidecar) before = true); [|congruence].
      apply existsb_exists. exists (uf_rel f). split; [rewrite <- E2; now apply in_map|]. subst. apply bytes_eqb_refl.
Qed.

(* ------------------------------------------------------------------ witnesses inside the known classes *)

Definition wit_bucket : bucket :=
  [(b "pre/o1/0=ocfl_object_1.0", b "decl");
   (b "pre/o1/inventory.json", b "inv1"); (b "pre/o1/inventory.json.sha512", b "sc1");
   (b "pre/o1/v1/inventory.json", b "inv1"); (b "pre/o1/v1/inventory.json.sha512", b "sc1");
   (b "pre/o1/v1/content/a.txt", b "A")].
Definition wit_input : nv_input :=
  mkNv (b "o1") (b "v2")
       [mkUf (b "inventory.json") 700 (b "inv2"); mkUf (b "content/b.txt") 3 (b "B");
        mkUf (b "inventory.json.sha512") 140 (b "sc2")]
       (mkUf (b "inventory.json") 700 (b "inv2")) (mkUf (b "inventory.json.sha512") 140 (b "sc2")) None.

(** the pinned code loses the root inventory when the root sidecar PUT (request 4) fails *)
Lemma fault_cleanup_refuted_witness :
  let out := write_new_version (Some 4) (b "pre") wit_input (init_st wit_bucket) in
  c16_root_inventory_rollback wit_input 4 = true /\
  fst out = Err /\
  bk_get (b "pre/o1/inventory.json") wit_bucket = Some (b "inv1") /\
  bk_get (b "pre/o1/inventory.json") (st_b (snd out)) = None /\
  bk_get (b "pre/o1/inventory.json.sha512") (st_b (snd out)) = Some (b "sc1") /\
  st_log (snd out) =
    [RPut (b "pre/o1/v2/inventory.json"); RPut (b "pre/o1/v2/content/b.txt"); RPut (b "pre/o1/v2/inventory.json.sha512");
     RPut (b "pre/o1/inventory.json"); RPut (b "pre/o1/inventory.json.sha512");
     RDelete (b "pre/o1/v2/inventory.json"); RDelete (b "pre/o1/v2/content/b.txt");
     RDelete (b "pre/o1/v2/inventory.json.sha512"); RDelete (b "pre/o1/inventory.json")].
Proof. vm_compute. repeat split; reflexivity. Qed.

(** and the boundary of the class: request 3 (the root inventory PUT) is still cleaned up *)
Lemma fault_cleanup_boundary_witness :
  c16_root_inventory_rollback wit_input 3 = false /\
  nv_wf (b "pre") wit_input /\ clear_under (b "pre") (vdst_of wit_input) wit_bucket.
Proof.
  split; [reflexivity|]. split.
  - constructor; try reflexivity. repeat constructor.
  - intros k Hk. cbn in Hk. repeat (destruct Hk as [<- | Hk]; [reflexivity|]). destruct Hk.
Qed.

(** an upgrade whose declaration PUT fails: the new version stays installed under the old declaration *)
Definition wit_upgrade : nv_input :=
  mkNv (b "o1") (b "v2")
       [mkUf (b "inventory.json") 700 (b "inv2"); mkUf (b "inventory.json.sha512") 140 (b "sc2")]
       (mkUf (b "inventory.json") 700 (b "inv2")) (mkUf (b "inventory.json.sha512") 140 (b "sc2"))
       (Some (b "0=ocfl_object_1.1", b "decl11")).
Lemma upgrade_fault_witness :
  let out := write_new_version (Some 4) (b "pre") wit_upgrade (init_st wit_bucket) in
  c16_root_inventory_rollback wit_upgrade 4 = true /\ fst out = Err /\
  bk_get (b "pre/o1/inventory.json") (st_b (snd out)) = Some (b "inv2") /\
  bk_get (b "pre/o1/0=ocfl_object_1.0") (st_b (snd out)) = Some (b "decl") /\
  bk_get (b "pre/o1/0=ocfl_object_1.1") (st_b (snd out)) = None.
Proof. vm_compute. repeat split; reflexivity. Qed.

(** the walk order observed for a new object with zero-padded version numbers (`new -z 2`):
    the root inventory is stored first *)
Definition wit_walk : list ufile :=
  [mkUf (b "inventory.json") 600 (b "inv1"); mkUf (b "v01/inventory.json") 600 (b "inv1");
   mkUf (b "v01/content/a.txt") 5 (b "A"); mkUf (b "v01/inventory.json.sha256") 80 (b "sc1");
   mkUf (b "inventory.json.sha256") 80 (b "sc1"); mkUf (b "0=ocfl_object_1.0") 16 (b "decl")].
Lemma new_object_walk_witness :
  c16_new_object_walk_order (b "v01") (b "inventory.json.sha256") (map uf_rel wit_walk) = true /\
  st_log (snd (write_new_object None [] (b "o1") wit_walk (init_st []))) =
    [RPut (b "o1/inventory.json"); RPut (b "o1/v01/inventory.json"); RPut (b "o1/v01/content/a.txt");
     RPut (b "o1/v01/inventory.json.sha256"); RPut (b "o1/inventory.json.sha256"); RPut (b "o1/0=ocfl_object_1.0")].
Proof. vm_compute. split; reflexivity. Qed.
