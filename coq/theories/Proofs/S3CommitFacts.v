(** Lemmas about the S3 model, part B: the request programs of write_new_version /
    write_new_object under the single-fault oracle (one mutating request of the commit fails
    without effect; a second failure, e.g. of a request that puts something back, is outside
    the failure model of C16). *)
From Rocfl Require Import Base.Bytes Generated.Consts Model.S3 Proofs.BytesFacts Proofs.S3Facts.
From Coq Require Import ZArith Lia ZifyBool ZifyN ZifyNat Permutation.
Open Scope N_scope.

(* ------------------------------------------------------------------ buckets *)

Lemma bytes_eqb_sym x y : bytes_eqb x y = bytes_eqb y x.
Proof.
  destruct (bytes_eqb x y) eqn:E.
  - apply bytes_eqb_eq in E. subst. now rewrite bytes_eqb_refl.
  - apply bytes_eqb_false in E. symmetry. apply bytes_eqb_false. congruence.
Qed.

Lemma bk_get_remove k x bk : bk_get x (bk_remove k bk) = if bytes_eqb x k then None else bk_get x bk.
Proof.
  induction bk as [|[k' v] r IH]; cbn [bk_remove bk_get].
  - now destruct (bytes_eqb x k).
  - destruct (bytes_eqb k k') eqn:E.
    + apply bytes_eqb_eq in E. subst k'. rewrite IH. now destruct (bytes_eqb x k).
    + cbn [bk_get]. rewrite IH. destruct (bytes_eqb x k') eqn:E2; [|reflexivity].
      apply bytes_eqb_eq in E2. subst k'. now rewrite bytes_eqb_sym, E.
Qed.

Lemma bk_get_put k v x bk : bk_get x (bk_put k v bk) = if bytes_eqb x k then Some v else bk_get x bk.
Proof.
  unfold bk_put. cbn [bk_get]. destruct (bytes_eqb x k) eqn:E; [reflexivity|].
  now rewrite bk_get_remove, E.
Qed.

Lemma bk_get_in_keys x bk : bk_get x bk <> None -> In x (bk_keys bk).
Proof.
  induction bk as [|[k v] r IH]; cbn [bk_get bk_keys map fst]; [congruence|].
  destruct (bytes_eqb x k) eqn:E.
  - apply bytes_eqb_eq in E. subst. now left.
  - intros H. right. now apply IH.
Qed.

Lemma clear_get_none rp bk x :
  (forall k, In k (bk_keys bk) -> starts_with rp k = false) -> starts_with rp x = true -> bk_get x bk = None.
Proof.
  intros Hc Hx. destruct (bk_get x bk) eqn:E; [|reflexivity].
  assert (In x (bk_keys bk)) as Hin by (apply bk_get_in_keys; congruence).
  rewrite (Hc _ Hin) in Hx. discriminate.
Qed.

(* ------------------------------------------------------------------ the fault oracle *)

Definition hit (fa : option N) (lo hi : N) : Prop := exists k, fa = Some k /\ lo <= k /\ k < hi.
Definition miss (fa : option N) (lo hi : N) : Prop := forall k, fa = Some k -> k < lo \/ hi <= k.
Definition fault_past (fa : option N) (n : N) : Prop := forall k, fa = Some k -> k < n.

Lemma hit_past fa lo hi : hit fa lo hi -> fault_past fa hi.
Proof. intros (k & -> & _ & H) k' E. injection E as <-. exact H. Qed.

Lemma fault_past_mono fa n m : fault_past fa n -> n <= m -> fault_past fa m.
Proof. intros H L k E. specialize (H k E). lia. Qed.

Lemma hit_widen fa lo hi lo' hi' : hit fa lo hi -> lo' <= lo -> hi <= hi' -> hit fa lo' hi'.
Proof. intros (k & E & H1 & H2) L1 L2. exists k. repeat split; [assumption|lia|lia]. Qed.

Lemma miss_join fa a m c : miss fa a m -> miss fa m c -> a <= m -> m <= c -> miss fa a c.
Proof. intros H1 H2 L1 L2 k E. destruct (H1 k E), (H2 k E); lia. Qed.

Lemma miss_hit_absurd fa lo hi lo' hi' : miss fa lo hi -> hit fa lo' hi' -> lo <= lo' -> hi' <= hi -> False.
Proof. intros M (k & E & H1 & H2) L1 L2. destruct (M k E); lia. Qed.

Lemma mreq_cases fa r eff s :
  (fst (mreq fa r eff s) = Ok tt /\ st_b (snd (mreq fa r eff s)) = eff (st_b s) /\ miss fa (st_n s) (st_n s + 1)) \/
  (fst (mreq fa r eff s) = Err /\ st_b (snd (mreq fa r eff s)) = st_b s /\ hit fa (st_n s) (st_n s + 1)).
Proof.
  unfold mreq. destruct fa as [k|]; cbn [fst snd st_b].
  - destruct (st_n s =? k) eqn:E.
    + right. repeat split. exists k. repeat split; lia.
    + left. repeat split. intros k' E'. injection E' as <-. lia.
  - left. repeat split. intros k' E'. discriminate.
Qed.

Lemma mreq_n fa r eff s : st_n (snd (mreq fa r eff s)) = st_n s + 1.
Proof. reflexivity. Qed.

Lemma mreq_same_b fa r s : st_b (snd (mreq fa r same s)) = st_b s.
Proof. unfold mreq, same. cbn [snd st_b]. now destruct (match fa with Some k => st_n s =? k | None => false end). Qed.

(** outcome of one step of a request program, without the log *)
Definition step_ok (fa : option N) (s : st) (cost : N) (eff : bucket -> bucket) (rs : res unit * st) : Prop :=
  (fst rs = Ok tt /\ st_b (snd rs) = eff (st_b s) /\ st_n (snd rs) = st_n s + cost /\ miss fa (st_n s) (st_n s + cost)) \/
  (fst rs = Err /\ st_b (snd rs) = st_b s /\ st_n s < st_n (snd rs) /\ hit fa (st_n s) (st_n (snd rs))).

Lemma mreq_step fa r eff s : step_ok fa s 1 eff (mreq fa r eff s).
Proof.
  destruct (mreq_cases fa r eff s) as [(A & B & C) | (A & B & C)]; [left|right]; rewrite ?mreq_n; repeat split; auto; lia.
Qed.

Lemma mp_parts_step fa key : forall todo i s,
  step_ok fa s (N.of_nat todo) same (mp_parts fa key i todo s).
Proof.
  induction todo as [|t IH]; intros i s.
  - left. cbn [mp_parts fst snd]. unfold same. repeat split; try lia. intros k _. lia.
  - cbn [mp_parts].
    pose proof (mreq_step fa (RMpPart key i) same s) as H1.
    destruct (mreq fa (RMpPart key i) same s) as [r1 s1] eqn:E1. unfold step_ok in H1; cbn [fst snd] in H1.
    destruct H1 as [(A & B & C & D) | (A & B & C & D)]; subst r1.
    + specialize (IH (i + 1) s1). unfold step_ok in IH |- *. destruct IH as [(A' & B' & C' & D') | (A' & B' & C' & D')].
      * left. repeat split; [assumption|unfold same in *; congruence|lia|].
        apply (miss_join fa _ (st_n s1) _); [rewrite C; exact D| |lia|lia].
        replace (st_n s + N.of_nat (S t)) with (st_n s1 + N.of_nat t) by lia. exact D'.
      * right. repeat split; [assumption|unfold same in *; congruence|lia|]. eapply hit_widen; [exact D'|lia|lia].
    + right. cbn [fst snd]. rewrite mreq_n, mreq_same_b. repeat split; [assumption|lia|]. eapply hit_widen; [exact D|lia|lia].
Qed.

Lemma put_cost_multipart len : K_S3_PART_SIZE <? len = true -> put_cost len = 1 + N.of_nat (N.to_nat (n_parts len)) + 1.
Proof. intros H. unfold put_cost. rewrite H. lia. Qed.

Lemma multipart_put_step fa key len tok s : K_S3_PART_SIZE <? len = true ->
  step_ok fa s (put_cost len) (bk_put key tok) (multipart_put fa key len tok s).
Proof.
  intros Hl. rewrite (put_cost_multipart _ Hl). unfold multipart_put.
  pose proof (mreq_step fa (RMpCreate key) same s) as H1.
  destruct (mreq fa (RMpCreate key) same s) as [r1 s1]. unfold step_ok in H1 |- *; cbn [fst snd] in H1.
  destruct H1 as [(A & B & C & D) | (A & B & C & D)]; subst r1.
  - pose proof (mp_parts_step fa key (N.to_nat (n_parts len)) 1 s1) as H2.
    destruct (mp_parts fa key 1 (N.to_nat (n_parts len)) s1) as [r2 s2]. unfold step_ok in H2; cbn [fst snd] in H2.
    destruct H2 as [(A2 & B2 & C2 & D2) | (A2 & B2 & C2 & D2)]; subst r2.
    + pose proof (mreq_step fa (RMpComplete key) (bk_put key tok) s2) as H3.
      destruct (mreq fa (RMpComplete key) (bk_put key tok) s2) as [r3 s3]. unfold step_ok in H3; cbn [fst snd] in H3.
      unfold same in *.
      destruct H3 as [(A3 & B3 & C3 & D3) | (A3 & B3 & C3 & D3)]; subst r3; cbn [fst snd].
      * left. repeat split; [congruence|lia|].
        apply (miss_join fa _ (st_n s2) _);
          [apply (miss_join fa _ (st_n s1) _); [rewrite C; exact D|rewrite C2; exact D2|lia|lia]
          |replace (st_n s + (1 + N.of_nat (N.to_nat (n_parts len)) + 1)) with (st_n s2 + 1) by lia; exact D3
          |lia|lia].
      * right. repeat split; [congruence|lia|]. eapply hit_widen; [exact D3|lia|lia].
    + right. cbn [fst snd]. unfold same in *. repeat split; [congruence|lia|]. eapply hit_widen; [exact D2|lia|lia].
  - right. cbn [fst snd]. repeat split; auto.
Qed.

Lemma put_object_file_step fa cp path len tok s :
  step_ok fa s (put_cost len) (bk_put (join cp path) tok) (put_object_file fa cp path len tok s).
Proof.
  unfold put_object_file. destruct (K_S3_PART_SIZE <? len) eqn:E.
  - now apply multipart_put_step.
  - replace (put_cost len) with 1 by (unfold put_cost; now rewrite E). apply mreq_step.
Qed.

(* ------------------------------------------------------------------ upload loop and rollback *)

(** [bk] agrees with the initial bucket [b0] outside the keys of the paths in [done] *)
Definition agrees (cp : bytes) (b0 : bucket) (done : list bytes) (bk : bucket) : Prop :=
  forall x, ~ In x (map (join cp) done) -> bk_get x bk = bk_get x b0.

Lemma agrees_put cp b0 done bk p tok :
  agrees cp b0 done bk -> agrees cp b0 (done ++ [p]) (bk_put (join cp p) tok bk).
Proof.
  intros H x Hx. rewrite map_app, in_app_iff in Hx. cbn [map In] in Hx.
  rewrite bk_get_put. destruct (bytes_eqb x (join cp p)) eqn:E.
  - apply bytes_eqb_eq in E. subst. exfalso. apply Hx. right. now left.
  - apply H. intros Hin. apply Hx. now left.
Qed.

Lemma agrees_weaken cp b0 done p bk : agrees cp b0 done bk -> agrees cp b0 (done ++ [p]) bk.
Proof. intros H x Hx. apply H. intros Hin. apply Hx. rewrite map_app, in_app_iff. now left. Qed.

Lemma upload_loop_spec fa cp dst b0 : forall files done s,
  agrees cp b0 done (st_b s) ->
  let out := upload_loop fa cp dst files done s in
  agrees cp b0 (snd (fst out)) (st_b (snd out)) /\
  Forall (fun p => In p done \/ exists f, In f files /\ p = join dst (uf_rel f)) (snd (fst out)) /\
  ((fst (fst out) = Ok tt /\ st_n (snd out) = st_n s + upload_cost files /\
    miss fa (st_n s) (st_n s + upload_cost files) /\
    snd (fst out) = done ++ map (fun f => join dst (uf_rel f)) files) \/
   (fst (fst out) = Err /\ st_n s < st_n (snd out) /\ hit fa (st_n s) (st_n (snd out)))).
Proof.
  induction files as [|f fs IH]; intros done s Hag; cbn zeta.
  - cbn [upload_loop fst snd upload_cost fold_right map]. split; [assumption|]. split.
    + rewrite Forall_forall. auto.
    + left. rewrite app_nil_r. repeat split; try lia. intros k _. lia.
  - cbn [upload_loop].
    pose proof (put_object_file_step fa cp (join dst (uf_rel f)) (uf_len f) (uf_tok f) s) as H1.
    destruct (put_object_file fa cp (join dst (uf_rel f)) (uf_len f) (uf_tok f) s) as [r1 s1].
    unfold step_ok in H1; cbn [fst snd] in H1. destruct H1 as [(A & B & C & D) | (A & B & C & D)]; subst r1.
    + assert (Hag1 : agrees cp b0 (done ++ [join dst (uf_rel f)]) (st_b s1)) by (rewrite B; now apply agrees_put).
      specialize (IH (done ++ [join dst (uf_rel f)]) s1 Hag1). cbn zeta in IH.
      destruct IH as (I1 & I2 & I3). split; [assumption|]. split.
      * rewrite Forall_forall in *. intros p Hp. destruct (I2 p Hp) as [Hin | (f' & Hf' & ->)].
        -- apply in_app_iff in Hin as [Hin | [<- | []]]; [now left|]. right. exists f. split; [now left|reflexivity].
        -- right. exists f'. split; [now right|reflexivity].
      * cbn [upload_cost fold_right] in *. fold (upload_cost fs).
        destruct I3 as [(J1 & J2 & J3 & J4) | (J1 & J2 & J3)].
        -- left. repeat split; [assumption|lia| |].
           ++ apply (miss_join fa _ (st_n s1) _); [rewrite C; exact D| |lia|lia].
              replace (st_n s + (put_cost (uf_len f) + upload_cost fs)) with (st_n s1 + upload_cost fs) by lia.
              exact J3.
           ++ rewrite J4. cbn [map]. now rewrite <- app_assoc.
        -- right. repeat split; [assumption|lia|]. eapply hit_widen; [exact J3|lia|lia].
    + cbn [fst snd]. split; [now rewrite B|]. split.
      * rewrite Forall_forall. auto.
      * right. repeat split; assumption.
Qed.

Lemma rollback_spec fa cp : forall done s, fault_past fa (st_n s) ->
  forall x, bk_get x (st_b (rollback fa cp done s)) =
            if existsb (bytes_eqb x) (map (join cp) done) then None else bk_get x (st_b s).
Proof.
  induction done as [|p r IH]; intros s Hp x; [reflexivity|].
  cbn [rollback map existsb]. unfold delete_object.
  destruct (mreq_cases fa (RDelete (join cp p)) (bk_remove (join cp p)) s) as [(A & B & C) | (A & B & (k & E & L1 & L2))].
  - rewrite IH by (rewrite mreq_n; eapply fault_past_mono; [exact Hp|lia]).
    rewrite B, bk_get_remove. destruct (bytes_eqb x (join cp p)); cbn [orb]; [|reflexivity].
    now destruct (existsb _ _).
  - specialize (Hp k E). lia.
Qed.

Lemma rollback_restores fa cp b0 done s :
  agrees cp b0 done (st_b s) -> fault_past fa (st_n s) ->
  (forall p, In p done -> bk_get (join cp p) b0 = None) ->
  forall x, bk_get x (st_b (rollback fa cp done s)) = bk_get x b0.
Proof.
  intros Hag Hp Habs x. rewrite rollback_spec by assumption.
  destruct (existsb (bytes_eqb x) (map (join cp) done)) eqn:E.
  - apply existsb_exists in E as (y & Hy & Ey). apply bytes_eqb_eq in Ey. subst y.
    apply in_map_iff in Hy as (p & <- & Hp'). symmetry. now apply Habs.
  - apply Hag. intros Hin. assert (existsb (bytes_eqb x) (map (join cp) done) = true) as X.
    { apply existsb_exists. exists x. split; [assumption|apply bytes_eqb_refl]. }
    congruence.
Qed.

(* ------------------------------------------------------------------ keys under the version prefix *)

Lemma under_prefix cp dst rel : pfx_ok cp = true -> relb dst = true -> relb rel = true ->
  starts_with (request_prefix cp dst) (join cp (join dst rel)) = true.
Proof.
  intros Hc Hd Hr. unfold request_prefix, join_ts.
  rewrite (join_relb dst rel) by assumption.
  rewrite (join_under cp dst), (join_under cp (dst ++ slash :: rel)) by (auto using relb_app).
  assert (R : relb (under cp dst) = true \/ cp <> []).
  { destruct cp; [left; exact Hd|right; discriminate]. }
  assert (L : last_is_slash (under cp dst) = false /\ under cp dst <> []).
  { apply relb_inv in Hd as (Hd1 & _ & Hd3). destruct cp as [|c cp]; cbn [under]; [auto|].
    split; [|discriminate]. destruct dst as [|d dst]; [congruence|].
    change (c :: cp ++ slash :: d :: dst) with ((c :: cp ++ [slash]) ++ d :: dst).
    now rewrite last_is_slash_app. }
  destruct L as [L1 L2]. apply is_nil_false in L2. rewrite L1, L2. cbn [negb andb].
  destruct cp as [|c cp]; cbn [under].
  - rewrite starts_with_app_same. reflexivity.
  - rewrite <- app_assoc. rewrite (starts_with_app_same (c :: cp)).
    cbn [app starts_with]. change (Ascii.eqb slash slash) with true. cbn [andb].
    rewrite starts_with_app_same. reflexivity.
Qed.

(* ------------------------------------------------------------------ the upload order (commit 4953bf6) *)

Lemma upload_rank_cases rel : upload_rank rel = 0 \/ upload_rank rel = 1 \/ upload_rank rel = 2.
Proof. unfold upload_rank. destruct (bytes_eqb _ _); [auto|]. destruct (starts_with _ _); auto. Qed.

(** the sort loses and invents nothing *)
Lemma upload_order_perm files : Permutation (upload_order files) files.
Proof.
  unfold upload_order. induction files as [|f fs IH]; [constructor|].
  cbn [filter].
  destruct (upload_rank_cases (uf_rel f)) as [E | [E | E]].
  - assert (rank_is 0 f = true /\ rank_is 1 f = false /\ rank_is 2 f = false) as (R0 & R1 & R2)
      by (unfold rank_is; rewrite E; repeat split; reflexivity).
    rewrite R0, R1, R2. cbn [app]. apply perm_skip. exact IH.
  - assert (rank_is 0 f = false /\ rank_is 1 f = true /\ rank_is 2 f = false) as (R0 & R1 & R2)
      by (unfold rank_is; rewrite E; repeat split; reflexivity).
    rewrite R0, R1, R2. cbn [app]. symmetry. apply Permutation_cons_app. symmetry. exact IH.
  - assert (rank_is 0 f = false /\ rank_is 1 f = false /\ rank_is 2 f = true) as (R0 & R1 & R2)
      by (unfold rank_is; rewrite E; repeat split; reflexivity).
    rewrite R0, R1, R2. rewrite app_assoc. symmetry. apply Permutation_cons_app. rewrite <- app_assoc. symmetry. exact IH.
Qed.

Lemma upload_order_forall (P : ufile -> Prop) files : Forall P files -> Forall P (upload_order files).
Proof.
  rewrite !Forall_forall. intros H f Hf. apply H. eapply Permutation_in; [apply upload_order_perm|exact Hf].
Qed.

Lemma upload_cost_perm l l' : Permutation l l' -> upload_cost l = upload_cost l'.
Proof.
  unfold upload_cost. induction 1; cbn [fold_right]; lia.
Qed.

Lemma upload_order_cost files : upload_cost (upload_order files) = upload_cost files.
Proof. apply upload_cost_perm, upload_order_perm. Qed.

Lemma rank_is_inv n f : rank_is n f = true -> upload_rank (uf_rel f) = n.
Proof. unfold rank_is. intros H. now apply N.eqb_eq in H. Qed.

Lemma rank_1_name f : rank_is 1 f = true -> uf_rel f = K_INVENTORY_FILE.
Proof.
  intros H. apply rank_is_inv in H. unfold upload_rank in H.
  destruct (bytes_eqb (uf_rel f) K_INVENTORY_FILE) eqn:E; [now apply bytes_eqb_eq in E|].
  destruct (starts_with _ _); discriminate.
Qed.

Lemma rank_2_name f : rank_is 2 f = true ->
  starts_with K_INVENTORY_SIDECAR_PREFIX (uf_rel f) = true /\ uf_rel f <> K_INVENTORY_FILE.
Proof.
  intros H. apply rank_is_inv in H. unfold upload_rank in H.
  destruct (bytes_eqb (uf_rel f) K_INVENTORY_FILE) eqn:E; [discriminate|].
  apply bytes_eqb_false in E. destruct (starts_with _ _); [auto|discriminate].
Qed.

Lemma rank_0_name f : rank_is 0 f = true ->
  uf_rel f <> K_INVENTORY_FILE /\ starts_with K_INVENTORY_SIDECAR_PREFIX (uf_rel f) = false.
Proof.
  intros H. apply rank_is_inv in H. unfold upload_rank in H.
  destruct (bytes_eqb (uf_rel f) K_INVENTORY_FILE) eqn:E; [discriminate|].
  apply bytes_eqb_false in E. destruct (starts_with _ _); [discriminate|auto].
Qed.

(* ------------------------------------------------------------------ well-formed commits *)

(** a declaration file name: a plain name "0=ocfl_object_<something>" *)
Definition decl_name_ok (name : bytes) : bool :=
  nameb name && starts_with K_OBJECT_NAMASTE_FILE_PREFIX name &&
  Nat.ltb (List.length K_OBJECT_NAMASTE_FILE_PREFIX) (List.length name).

Record nv_wf (cp : bytes) (i : nv_input) : Prop := mkNvWf {
  wf_cp : pfx_ok cp = true;
  wf_root : relb (nv_root i) = true;
  wf_root_boundary : head_is_boundary (nv_root i) = true;      (* object roots are Rust Strings *)
  wf_vstr : relb (nv_vstr i) = true;
  wf_files : Forall (fun f => relb (uf_rel f) = true) (nv_files i);
  wf_sidecar : nv_old_sidecar i = uf_rel (nv_sidecar i);       (* the digest algorithm of an object never changes *)
  wf_decl : forall name content, nv_upgrade i = Some (name, content) -> decl_name_ok name = true
}.

Definition vdst_of (i : nv_input) : bytes := join (nv_root i) (nv_vstr i).
Definition clear_under (cp dst : bytes) (bk : bucket) : Prop :=
  forall k, In k (bk_keys bk) -> starts_with (request_prefix cp dst) k = false.
Definition inv_key (cp : bytes) (i : nv_input) : bytes := join cp (join (nv_root i) K_INVENTORY_FILE).
Definition sc_key (cp : bytes) (i : nv_input) : bytes := join cp (join (nv_root i) (uf_rel (nv_sidecar i))).

(** the state a version commit starts from: nothing below <root>/vN/, and the object is there
    (write_new_version has just parsed its root inventory, s3.rs:557) with its sidecar *)
Record nv_ready (cp : bytes) (i : nv_input) (bk : bucket) : Prop := mkNvReady {
  rd_clear : clear_under cp (vdst_of i) bk;
  rd_inv : bk_get (inv_key cp i) bk <> None;
  rd_sc : bk_get (sc_key cp i) bk <> None
}.

Lemma rollback_n_mono fa cp : forall done s, st_n s <= st_n (rollback fa cp done s).
Proof.
  induction done as [|p r IH]; intros s; cbn [rollback]; [lia|].
  specialize (IH (snd (delete_object fa cp p s))). unfold delete_object in IH. rewrite mreq_n in IH.
  unfold delete_object. lia.
Qed.

Lemma agrees_refl cp b0 : agrees cp b0 [] b0.
Proof. intros x _. reflexivity. Qed.

Lemma upload_all_spec fa cp dst files b0 :
  pfx_ok cp = true -> relb dst = true -> Forall (fun f => relb (uf_rel f) = true) files ->
  clear_under cp dst b0 ->
  let out := upload_all fa cp dst files (init_st b0) in
  (exists uploaded, fst out = Ok uploaded /\ agrees cp b0 uploaded (st_b (snd out)) /\
     (forall p, In p uploaded -> bk_get (join cp p) b0 = None) /\
     st_n (snd out) = upload_cost files /\ miss fa 0 (upload_cost files)) \/
  (fst out = Err /\ (forall x, bk_get x (st_b (snd out)) = bk_get x b0) /\
   hit fa 0 (st_n (snd out))).
Proof.
  intros Hc Hd Hf Hclear. cbn zeta. unfold upload_all, do_with_rollback.
  apply upload_order_forall in Hf. rewrite <- (upload_order_cost files).
  pose proof (upload_loop_spec fa cp dst b0 (upload_order files) [] (init_st b0) (agrees_refl cp b0)) as H.
  cbn zeta in H. destruct (upload_loop fa cp dst (upload_order files) [] (init_st b0)) as [[r done'] s1].
  cbn [fst snd] in H. destruct H as (Hag & Hall & Hres).
  assert (Habs : forall p, In p done' -> bk_get (join cp p) b0 = None).
  { rewrite Forall_forall in Hall, Hf. intros p Hp. destruct (Hall p Hp) as [[] | (f & Hin & ->)].
    apply (clear_get_none (request_prefix cp dst)); [exact Hclear|]. apply under_prefix; auto. }
  destruct Hres as [(-> & Hn & Hm & _) | (-> & Hlt & Hh)].
  - left. exists done'. cbn [fst snd init_st st_n] in *. repeat split; auto.
  - right. cbn [fst snd]. split; [reflexivity|]. split.
    + apply rollback_restores; auto. eapply hit_past; exact Hh.
    + cbn [init_st st_n] in Hh. eapply hit_widen; [exact Hh|lia|]. apply rollback_n_mono.
Qed.
