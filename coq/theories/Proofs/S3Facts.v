(** Lemmas about the S3 model, part A: strings, paths::join laws, the prefix_offset slicing,
    paging independence of list_prefix, keys of trees. *)
From Rocfl Require Import Base.Bytes Generated.Consts Model.S3 Proofs.BytesFacts.
From Coq Require Import ZArith Lia ZifyBool ZifyN ZifyNat.
Open Scope N_scope.

(* ------------------------------------------------------------------ characters, lists *)

Lemma is_slash_eq c : is_slash c = true <-> c = slash.
Proof. unfold is_slash. apply Ascii.eqb_eq. Qed.

Lemma is_nil_true {A} (l : list A) : is_nil l = true <-> l = [].
Proof. destruct l; cbn; split; congruence. Qed.
Lemma is_nil_false {A} (l : list A) : is_nil l = false <-> l <> [].
Proof. destruct l; cbn; split; congruence. Qed.

Lemma last_is_slash_snoc s c : last_is_slash (s ++ [c]) = is_slash c.
Proof.
  induction s as [|d s IH]; [reflexivity|].
  cbn [app]. destruct (s ++ [c]) as [|e r] eqn:E.
  - destruct s; discriminate.
  - cbn [last_is_slash]. exact IH.
Qed.

Lemma last_is_slash_app a c r : last_is_slash (a ++ c :: r) = last_is_slash (c :: r).
Proof.
  induction a as [|d a IH]; [reflexivity|].
  cbn [app]. destruct (a ++ c :: r) as [|e t] eqn:E.
  - destruct a; discriminate.
  - cbn [last_is_slash]. exact IH.
Qed.

Lemma last_is_slash_inv s : last_is_slash s = true -> exists s', s = s' ++ [slash].
Proof.
  induction s as [|c s IH]; [discriminate|].
  destruct s as [|d s].
  - cbn. intros H. apply is_slash_eq in H. subst. exists []. reflexivity.
  - intros H. cbn [last_is_slash] in H. destruct (IH H) as [s' E]. exists (c :: s'). cbn [app]. now rewrite <- E.
Qed.

Lemma last_is_slash_cons_false c s : s <> [] -> last_is_slash (c :: s) = last_is_slash s.
Proof. destruct s; [congruence|reflexivity]. Qed.

Lemma skipn_length_app {A} (a r : list A) : skipn (List.length a) (a ++ r) = r.
Proof. induction a; cbn; auto. Qed.

Lemma skipn_add {A} (n : nat) : forall (m : nat) (l : list A), skipn n (skipn m l) = skipn (m + n) l.
Proof.
  intros m; induction m as [|m IH]; intros l; [reflexivity|].
  destruct l as [|a l]; cbn [skipn Nat.add]; [now destruct n|apply IH].
Qed.

Lemma starts_with_refl_app p t : starts_with p (p ++ t) = true.
Proof. induction p as [|c p IH]; cbn; [reflexivity|]. now rewrite Ascii.eqb_refl, IH. Qed.

Lemma starts_with_inv p : forall s, starts_with p s = true -> exists t, s = p ++ t.
Proof.
  induction p as [|c p IH]; intros s H.
  - exists s. reflexivity.
  - destruct s as [|d s]; [discriminate|]. cbn in H. apply andb_true_iff in H as [H1 H2].
    apply Ascii.eqb_eq in H1. subst. destruct (IH _ H2) as [t ->]. exists t. reflexivity.
Qed.

Lemma starts_with_app_same a x y : starts_with (a ++ x) (a ++ y) = starts_with x y.
Proof. induction a as [|c a IH]; cbn; [reflexivity|]. now rewrite Ascii.eqb_refl, IH. Qed.

Lemma bytes_eqb_false x y : bytes_eqb x y = false <-> x <> y.
Proof.
  split.
  - intros H E. apply bytes_eqb_eq in E. congruence.
  - intros H. destruct (bytes_eqb x y) eqn:E; [|reflexivity]. apply bytes_eqb_eq in E. contradiction.
Qed.

(* ------------------------------------------------------------------ join laws *)

(** the unit tests of s3.rs:1481-1521 (they exercise paths.rs:113-141) *)
Lemma join_unit_tests :
  join (b "") (b "") = b "" /\ join_ts (b "") (b "") = b "" /\
  join (b "") (b "foo") = b "foo" /\ join_ts (b "") (b "foo") = b "foo/" /\
  join (b "foo") (b "") = b "foo" /\ join_ts (b "foo") (b "") = b "foo/" /\
  join (b "/") (b "foo") = b "/foo" /\ join_ts (b "/") (b "foo") = b "/foo/" /\
  join (b "foo/") (b "bar") = b "foo/bar" /\ join_ts (b "foo/") (b "bar") = b "foo/bar/" /\
  join (b "/foo/") (b "/bar/") = b "/foo/bar/" /\ join_ts (b "/foo/") (b "/bar/") = b "/foo/bar/" /\
  join (b "foo") (b "bar") = b "foo/bar" /\ join_ts (b "foo") (b "bar") = b "foo/bar/".
Proof. repeat split; reflexivity. Qed.

Lemma join_nil_l x : join [] x = x.
Proof. destruct x; reflexivity. Qed.

Lemma join_nil_r p : join p [] = if last_is_slash p then removelast p else p.
Proof. reflexivity. Qed.

Lemma join_nil_r_ok p : pfx_ok p = true -> join p [] = p.
Proof. unfold pfx_ok. intros H. rewrite join_nil_r. now destruct (last_is_slash p). Qed.

(** the seam: a non-empty first part without trailing slash and a second part without
    leading slash are separated by exactly one inserted slash *)
Lemma join_rel a x : pfx_ok a = true -> a <> [] -> x <> [] -> head_is_slash x = false ->
  join a x = a ++ slash :: x.
Proof.
  unfold pfx_ok, join. intros Ha Hne Hx Hh.
  destruct (last_is_slash a); [discriminate|].
  destruct x as [|c x]; [congruence|].
  apply is_nil_false in Hne. rewrite Hne, Hh. cbn [negb orb andb].
  now rewrite <- app_assoc.
Qed.

(** a second part that brings its own leading slash is appended as is *)
Lemma join_abs a x : pfx_ok a = true -> head_is_slash x = true -> join a x = a ++ x.
Proof.
  unfold pfx_ok, join. intros Ha Hh.
  destruct (last_is_slash a); [discriminate|].
  destruct x as [|c x]; [discriminate|]. rewrite Hh. now rewrite andb_false_r.
Qed.

(** one trailing slash of the first part is dropped *)
Lemma join_strip a x : join (a ++ [slash]) x = join a x \/ a = [] \/ last_is_slash a = true.
Proof.
  destruct a as [|c a]; [auto|].
  destruct (last_is_slash (c :: a)) eqn:E; [auto|]. left.
  unfold join. rewrite last_is_slash_snoc. replace (is_slash slash) with true by reflexivity.
  rewrite removelast_last, E.
  destruct x as [|d x]; [reflexivity|].
  assert (bytes_eqb ((c :: a) ++ [slash]) [slash] = false) as ->.
  { apply bytes_eqb_false. destruct a; discriminate. }
  assert (bytes_eqb (c :: a) [slash] = false) as ->.
  { apply bytes_eqb_false. intros H. injection H as -> ->. cbn in E. discriminate. }
  reflexivity.
Qed.

Lemma relb_inv s : relb s = true -> s <> [] /\ head_is_slash s = false /\ last_is_slash s = false.
Proof.
  unfold relb. intros H. apply andb_true_iff in H as [H H3]. apply andb_true_iff in H as [H1 H2].
  repeat split.
  - now apply is_nil_false, negb_true_iff.
  - now apply negb_true_iff.
  - now apply negb_true_iff.
Qed.

Lemma relb_pfx_ok s : relb s = true -> pfx_ok s = true.
Proof. intros H. apply relb_inv in H as (_ & _ & H). unfold pfx_ok. now rewrite H. Qed.

Lemma join_relb a x : relb a = true -> relb x = true -> join a x = a ++ slash :: x.
Proof.
  intros Ha Hx. pose proof (relb_pfx_ok _ Ha). apply relb_inv in Ha as (Ha & _ & _).
  apply relb_inv in Hx as (Hx1 & Hx2 & _). now apply join_rel.
Qed.

Lemma relb_app a x : relb a = true -> relb x = true -> relb (a ++ slash :: x) = true.
Proof.
  intros Ha Hx. apply relb_inv in Ha as (Ha1 & Ha2 & Ha3). apply relb_inv in Hx as (Hx1 & Hx2 & Hx3).
  unfold relb. destruct a as [|c a]; [congruence|]. cbn [app is_nil head_is_slash negb andb] in *.
  rewrite Ha2. cbn [negb andb].
  change (c :: a ++ slash :: x) with ((c :: a) ++ slash :: x).
  rewrite last_is_slash_app. destruct x as [|d x]; [congruence|].
  cbn [last_is_slash] in *. rewrite Hx3. reflexivity.
Qed.

Lemma relb_join a x : relb a = true -> relb x = true -> relb (join a x) = true.
Proof. intros Ha Hx. rewrite join_relb by assumption. now apply relb_app. Qed.

(** associativity on relative paths *)
Lemma join_assoc_rel a x y : relb a = true -> relb x = true -> relb y = true ->
  join (join a x) y = join a (join x y).
Proof.
  intros Ha Hx Hy.
  rewrite (join_relb a x), (join_relb x y) by assumption.
  rewrite (join_relb (a ++ slash :: x) y) by (try apply relb_app; assumption).
  rewrite (join_relb a (x ++ slash :: y)) by (try apply relb_app; assumption).
  now rewrite <- app_assoc.
Qed.

(** the key of a path under the repository prefix *)
Definition under (cprefix rel : bytes) : bytes :=
  match cprefix with [] => rel | _ => cprefix ++ slash :: rel end.

Lemma join_under cp p : pfx_ok cp = true -> relb p = true -> join cp p = under cp p.
Proof.
  intros Hc Hp. destruct cp as [|c cp]; [apply join_nil_l|].
  apply relb_inv in Hp as (Hp1 & Hp2 & _). apply join_rel; auto. discriminate.
Qed.

(** no double slash at the seam (nor anywhere else if the parts have none) *)
Fixpoint no_dslash (s : bytes) : bool :=
  match s with
  | c :: ((d :: _) as r) => negb (is_slash c && is_slash d) && no_dslash r
  | _ => true
  end.

Lemma no_dslash_cons2 c d r : no_dslash (c :: d :: r) = negb (is_slash c && is_slash d) && no_dslash (d :: r).
Proof. reflexivity. Qed.

Lemma no_dslash_app a x :
  no_dslash (a ++ x) = no_dslash a && no_dslash x && negb (last_is_slash a && head_is_slash x).
Proof.
  induction a as [|c a IH].
  - cbn. now rewrite andb_true_r.
  - destruct a as [|d a].
    + cbn [app last_is_slash]. destruct x as [|e x].
      * cbn. now rewrite andb_false_r.
      * change ([c] ++ e :: x) with (c :: e :: x). rewrite no_dslash_cons2.
        change (no_dslash [c]) with true. cbn [head_is_slash andb].
        destruct (no_dslash (e :: x)), (is_slash c), (is_slash e); reflexivity.
    + change ((c :: d :: a) ++ x) with (c :: d :: (a ++ x)).
      rewrite !no_dslash_cons2.
      change (d :: a ++ x) with ((d :: a) ++ x). rewrite IH.
      change (last_is_slash (c :: d :: a)) with (last_is_slash (d :: a)).
      destruct (negb (is_slash c && is_slash d)); reflexivity.
Qed.

Lemma no_dslash_removelast s : no_dslash s = true -> last_is_slash s = true ->
  no_dslash (removelast s) = true /\ last_is_slash (removelast s) = false.
Proof.
  intros H L. destruct (last_is_slash_inv _ L) as [s' ->]. rewrite removelast_last.
  rewrite no_dslash_app in H. change (no_dslash [slash]) with true in H.
  change (head_is_slash [slash]) with true in H. rewrite !andb_true_r in H.
  apply andb_true_iff in H as [H1 H2]. split; [exact H1|]. now apply negb_true_iff in H2.
Qed.

Lemma join_no_dslash p1 p2 : no_dslash p1 = true -> no_dslash p2 = true -> no_dslash (join p1 p2) = true.
Proof.
  intros H1 H2. unfold join.
  set (j := if last_is_slash p1 then removelast p1 else p1).
  assert (Hj : no_dslash j = true /\ last_is_slash j = false).
  { subst j. destruct (last_is_slash p1) eqn:L; [now apply no_dslash_removelast|]. auto. }
  destruct Hj as [Hj1 Hj2].
  destruct p2 as [|c p2]; [assumption|].
  destruct ((negb (is_nil j) || bytes_eqb p1 [slash]) && negb (head_is_slash (c :: p2))) eqn:C.
  - apply andb_true_iff in C as [_ C]. apply negb_true_iff in C.
    rewrite no_dslash_app, no_dslash_app, Hj1, H2, last_is_slash_snoc, C, Hj2. reflexivity.
  - rewrite no_dslash_app, Hj1, H2, Hj2. reflexivity.
Qed.

(* ------------------------------------------------------------------ prefix_offset *)

Lemma request_prefix_shape cp path : pfx_ok cp = true -> cp <> [] ->
  exists r, request_prefix cp path = cp ++ slash :: r.
Proof.
  intros Hc Hne. unfold request_prefix, join_ts.
  assert (J : exists r, join cp path = cp ++ r /\ (r = [] \/ head_is_slash r = true)).
  { destruct path as [|c path].
    - exists []. rewrite join_nil_r_ok by assumption. now rewrite app_nil_r; auto.
    - destruct (head_is_slash (c :: path)) eqn:H.
      + exists (c :: path). rewrite join_abs by assumption. auto.
      + exists (slash :: c :: path). rewrite join_rel by (auto; discriminate). auto. }
  destruct J as (r & -> & [-> | Hr]).
  - rewrite app_nil_r. apply is_nil_false in Hne. rewrite Hne.
    unfold pfx_ok in Hc. rewrite Hc. cbn [andb]. exists []. reflexivity.
  - destruct r as [|c r]; [discriminate|]. cbn in Hr. apply is_slash_eq in Hr. subst c.
    destruct (negb (is_nil (cp ++ slash :: r)) && negb (last_is_slash (cp ++ slash :: r))).
    + exists (r ++ [slash]). now rewrite <- app_assoc.
    + exists r. reflexivity.
Qed.

Lemma slice_under cp rel : head_is_boundary rel = true ->
  slice_from (prefix_offset cp) (under cp rel) = Ok rel.
Proof.
  intros Hb. destruct cp as [|c cp].
  - unfold slice_from. cbn. now rewrite Hb.
  - unfold slice_from, prefix_offset, under.
    replace ((c :: cp) ++ slash :: rel) with (((c :: cp) ++ [slash]) ++ rel) by now rewrite <- app_assoc.
    replace (S (List.length (c :: cp))) with (List.length ((c :: cp) ++ [slash]))
      by (rewrite app_length; cbn; lia).
    rewrite skipn_length_app, Hb.
    destruct (Nat.ltb _ _) eqn:E; [|reflexivity].
    apply Nat.ltb_lt in E. rewrite !app_length in E. lia.
Qed.

(** every key a listing returns begins with the repository prefix and a slash, and the
    slicing of s3.rs:832-840 strips exactly that *)
Lemma prefix_offset_exact cp path key :
  pfx_ok cp = true -> starts_with (request_prefix cp path) key = true ->
  exists rel, key = under cp rel /\
              (head_is_boundary rel = true -> slice_from (prefix_offset cp) key = Ok rel).
Proof.
  intros Hc Hs. destruct cp as [|c cp].
  - exists key. split; [reflexivity|]. intros Hb. now apply (slice_under []).
  - destruct (request_prefix_shape (c :: cp) path Hc) as [r Hr]; [discriminate|].
    rewrite Hr in Hs. apply starts_with_inv in Hs as [t ->].
    exists (r ++ t). split.
    + cbn [under]. now rewrite <- app_assoc.
    + intros Hb. rewrite <- app_assoc. cbn [app]. now apply (slice_under (c :: cp)).
Qed.

(* ------------------------------------------------------------------ the stored prefix (s3.rs:793) *)

Lemma trim_cons c r : trim_trailing_slashes (c :: r) =
  match trim_trailing_slashes r with [] => if is_slash c then [] else [c] | r' => c :: r' end.
Proof. reflexivity. Qed.

(** what trim_end_matches('/') leaves does not end with a slash *)
Lemma trim_last s : last_is_slash (trim_trailing_slashes s) = false.
Proof.
  induction s as [|c s IH]; [reflexivity|]. rewrite trim_cons.
  destruct (trim_trailing_slashes s) as [|d t] eqn:E.
  - destruct (is_slash c) eqn:C; [reflexivity|]. cbn. exact C.
  - rewrite last_is_slash_cons_false by discriminate. exact IH.
Qed.

Lemma client_prefix_pfx_ok raw : pfx_ok (client_prefix raw) = true.
Proof. unfold pfx_ok, client_prefix. now rewrite trim_last. Qed.

(** only trailing slashes are removed: the given value is the stored one plus n slashes *)
Lemma trim_decompose s : exists n, s = trim_trailing_slashes s ++ repeat slash n.
Proof.
  induction s as [|c s [n IH]].
  - exists O. reflexivity.
  - rewrite trim_cons. destruct (trim_trailing_slashes s) as [|d t] eqn:E.
    + destruct (is_slash c) eqn:C.
      * apply is_slash_eq in C. subst c. exists (S n). cbn [app repeat]. now rewrite IH at 1.
      * exists n. cbn [app]. now rewrite IH at 1.
    + exists n. cbn [app]. now rewrite IH at 1.
Qed.

(** a value without trailing slash is stored as it is *)
Lemma trim_id s : last_is_slash s = false -> trim_trailing_slashes s = s.
Proof.
  induction s as [|c s IH]; [reflexivity|]. intros H. rewrite trim_cons.
  destruct s as [|d s].
  - cbn in H. cbn. now rewrite H.
  - cbn [last_is_slash] in H. rewrite (IH H). reflexivity.
Qed.

Lemma trim_idem s : trim_trailing_slashes (trim_trailing_slashes s) = trim_trailing_slashes s.
Proof. apply trim_id, trim_last. Qed.

Lemma trim_snoc_slash s : trim_trailing_slashes (s ++ [slash]) = trim_trailing_slashes s.
Proof.
  induction s as [|c s IH]; [reflexivity|]. cbn [app]. now rewrite !trim_cons, IH.
Qed.

(** "pre/", "pre//", ... are stored exactly like "pre" *)
Lemma trim_app_slashes s n : trim_trailing_slashes (s ++ repeat slash n) = trim_trailing_slashes s.
Proof.
  induction n as [|n IH]; [now rewrite app_nil_r|].
  replace (repeat slash (S n)) with (repeat slash n ++ [slash]) by (now rewrite <- repeat_cons).
  now rewrite app_assoc, trim_snoc_slash.
Qed.

Lemma client_prefix_spec raw :
  pfx_ok (client_prefix raw) = true /\ exists n, raw = client_prefix raw ++ repeat slash n.
Proof. split; [apply client_prefix_pfx_ok|apply trim_decompose]. Qed.

Lemma client_prefix_trailing_slashes_irrelevant raw n :
  client_prefix (raw ++ repeat slash n) = client_prefix raw /\
  (pfx_ok raw = true -> client_prefix raw = raw).
Proof.
  split; [apply trim_app_slashes|]. unfold pfx_ok. intros H. apply trim_id.
  now destruct (last_is_slash raw).
Qed.

Lemma prefix_slash_cases :
  client_prefix (b "pre/") = b "pre" /\ client_prefix (b "pre//") = b "pre" /\
  client_prefix (b "/") = b "" /\ client_prefix (b "//") = b "" /\
  client_prefix (b "/pre") = b "/pre" /\ client_prefix (b "//pre/") = b "//pre" /\
  client_prefix (b "a//b/") = b "a//b" /\
  (let cp := client_prefix (b "pre/") in let key := b "pre/0=ocfl_1.0" in
   key = join cp (b "0=ocfl_1.0") /\ list_all [key] cp [] true = Ok ([b "0=ocfl_1.0"], [])) /\
  (let cp := client_prefix (b "/") in let key := b "0=ocfl_1.0" in
   key = join cp (b "0=ocfl_1.0") /\ list_all [key] cp [] true = Ok ([b "0=ocfl_1.0"], [])) /\
  (let cp := client_prefix (b "/pre") in let key := b "/pre/a/0=ocfl_object_1.0" in
   key = join cp (b "a/0=ocfl_object_1.0") /\ list_all [key] cp [] true = Ok ([], [b "a"]) /\
   list_all [key] cp (b "a") false = Ok ([b "a/0=ocfl_object_1.0"], [])).
Proof. repeat split; reflexivity. Qed.

(** HISTORICAL NOTE (not a statement about the current code): before /repo commit 1405318
    S3Client::new kept the raw prefix ([client_prefix_before_fix]); with "pre/" the key was
    written where it belongs but every listing cut off one character too many.  With the
    repaired [client_prefix] the same input gives the right answer. *)
Lemma prefix_trailing_slash_before_fix :
  let raw := b "pre/" in let key := b "pre/0=ocfl_1.0" in
  (let cp := client_prefix_before_fix raw in
   key = join cp (b "0=ocfl_1.0") /\
   starts_with (request_prefix cp []) key = true /\
   slice_from (prefix_offset cp) key = Ok (b "=ocfl_1.0") /\
   list_all [key] cp [] true = Ok ([b "=ocfl_1.0"], [])) /\
  (let cp := client_prefix raw in
   key = join cp (b "0=ocfl_1.0") /\
   starts_with (request_prefix cp []) key = true /\
   slice_from (prefix_offset cp) key = Ok (b "0=ocfl_1.0") /\
   list_all [key] cp [] true = Ok ([b "0=ocfl_1.0"], [])).
Proof. repeat split; reflexivity. Qed.

(* ------------------------------------------------------------------ paging *)

Lemma map_res_app {A B} (f : A -> res B) a x :
  map_res f (a ++ x) =
  match map_res f a with
  | Ok ra => match map_res f x with Ok rx => Ok (ra ++ rx) | Err => Err | Panic => Panic end
  | Err => Err
  | Panic => Panic
  end.
Proof.
  induction a as [|h a IH]; cbn [app map_res].
  - destruct (map_res f x); reflexivity.
  - destruct (f h); [|reflexivity|reflexivity]. rewrite IH.
    destruct (map_res f a); [|reflexivity|reflexivity]. destruct (map_res f x); reflexivity.
Qed.

Lemma map_res_no_err {A B} (f : A -> res B) l : (forall a, f a <> Err) -> map_res f l <> Err.
Proof.
  intros H. induction l as [|h l IH]; cbn; [discriminate|].
  specialize (H h). destruct (f h); [|congruence|discriminate].
  destruct (map_res f l); [discriminate|congruence|discriminate].
Qed.

Lemma slice_from_no_err off s : slice_from off s <> Err.
Proof. unfold slice_from. destruct (Nat.ltb _ _); [discriminate|]. destruct (head_is_boundary _); discriminate. Qed.

Lemma slice_dir_no_err off s : slice_dir off s <> Err.
Proof. unfold slice_dir. destruct s; [discriminate|]. destruct (is_cont_byte _); [discriminate|]. apply slice_from_no_err. Qed.

Lemma process_page_app off a x :
  process_page off (a ++ x) =
  match process_page off a, process_page off x with
  | Ok (oa, da), Ok (ox, dx) => Ok (oa ++ ox, da ++ dx)
  | _, _ => Panic
  end.
Proof.
  unfold process_page, keys_of_entries, pres_of_entries. rewrite !flat_map_app, !map_res_app.
  set (ka := flat_map _ a). set (kx := flat_map _ x).
  set (pa := flat_map (fun e => match e with EKey _ => [] | EPre p => [p] end) a).
  set (px := flat_map (fun e => match e with EKey _ => [] | EPre p => [p] end) x).
  pose proof (map_res_no_err (slice_from off) ka (slice_from_no_err off)).
  pose proof (map_res_no_err (slice_from off) kx (slice_from_no_err off)).
  pose proof (map_res_no_err (slice_dir off) pa (slice_dir_no_err off)).
  pose proof (map_res_no_err (slice_dir off) px (slice_dir_no_err off)).
  destruct (map_res (slice_from off) ka), (map_res (slice_from off) kx),
           (map_res (slice_dir off) pa), (map_res (slice_dir off) px); congruence.
Qed.

Lemma process_page_no_err off l : process_page off l <> Err.
Proof.
  unfold process_page.
  pose proof (map_res_no_err (slice_from off) (keys_of_entries l) (slice_from_no_err off)).
  pose proof (map_res_no_err (slice_dir off) (pres_of_entries l) (slice_dir_no_err off)).
  destruct (map_res (slice_from off) _); [|congruence|discriminate].
  destruct (map_res (slice_dir off) _); [discriminate|congruence|discriminate].
Qed.

Lemma res_app_app acc off a x :
  res_app acc (process_page off (a ++ x)) =
  match res_app acc (process_page off a) with
  | Ok acc' => res_app acc' (process_page off x)
  | Err => Err
  | Panic => Panic
  end.
Proof.
  rewrite process_page_app.
  pose proof (process_page_no_err off a). pose proof (process_page_no_err off x).
  destruct (process_page off a) as [[oa da]| |]; [|congruence|reflexivity].
  destruct (process_page off x) as [[ox dx]| |]; [|congruence|reflexivity].
  destruct acc as [o d]. cbn. now rewrite !app_assoc.
Qed.

(** the client loop delivers the whole listing whatever the page size *)
Lemma list_loop_spec psize ents off : (1 <= psize)%nat ->
  forall fuel tok acc, (List.length ents - tok_start tok < fuel)%nat ->
  list_loop fuel psize ents off tok acc =
  Some (res_app acc (process_page off (skipn (tok_start tok) ents))).
Proof.
  intros Hp. induction fuel as [|f IH]; intros tok acc Hf; [lia|].
  cbn [list_loop serve pg_entries pg_truncated pg_next].
  set (start := tok_start tok) in *.
  replace (res_app acc (process_page off (skipn start ents)))
    with (res_app acc (process_page off (firstn psize (skipn start ents) ++ skipn psize (skipn start ents))))
    by (now rewrite firstn_skipn).
  rewrite res_app_app.
  destruct (res_app acc (process_page off (firstn psize (skipn start ents)))) as [acc'| |] eqn:E;
    [|reflexivity|reflexivity].
  destruct (Nat.ltb (start + psize) (List.length ents)) eqn:T.
  - apply Nat.ltb_lt in T. rewrite IH by (cbn [tok_start]; lia).
    cbn [tok_start]. now rewrite skipn_add.
  - apply Nat.ltb_ge in T.
    rewrite (skipn_all2 (n := psize)) by (rewrite skipn_length; lia).
    destruct acc' as [o d]. cbn. now rewrite !app_nil_r.
Qed.

Lemma paging_independent_lemma psize keys cprefix path delim : (1 <= psize)%nat ->
  list_paged psize keys cprefix path delim = Some (list_all keys cprefix path delim).
Proof.
  intros Hp. unfold list_paged, list_all.
  rewrite list_loop_spec by (cbn [tok_start]; lia).
  cbn [tok_start skipn].
  destruct (process_page _ _) as [[o d]| |]; reflexivity.
Qed.

(** a page size of 0 never terminates: the model runs out of fuel *)
Lemma paging_zero_diverges :
  list_paged 0 [b "a"; b "b"] [] [] false = None.
Proof. reflexivity. Qed.

(** the listing is empty exactly when no key lies under the request prefix *)
Lemma entries_of_clear seen rp delim keys :
  (forall k, In k keys -> starts_with rp k = false) -> entries_of seen rp delim keys = [].
Proof.
  induction keys as [|k ks IH]; intros H; [reflexivity|].
  cbn [entries_of]. unfold classify. rewrite (H k) by now left. apply IH. intros k' Hk. apply H. now right.
Qed.

Lemma entries_of_nil_inv rp delim keys : forall seen,
  entries_of seen rp delim keys = [] ->
  forall k, In k keys -> starts_with rp k = true ->
  exists p, classify rp delim k = Some (EPre p) /\ In p seen.
Proof.
  induction keys as [|k ks IH]; intros seen H k0 Hin Hs; [destruct Hin|].
  cbn [entries_of] in H. destruct Hin as [<- | Hin].
  - destruct (classify rp delim k) as [[k'|p]|] eqn:C.
    + discriminate.
    + destruct (existsb (bytes_eqb p) seen) eqn:X; [|discriminate].
      apply existsb_exists in X as (q & Hq & Eq). apply bytes_eqb_eq in Eq. subst q. eauto.
    + unfold classify in C. rewrite Hs in C. destruct delim; [|discriminate].
      destruct (upto_slash _); discriminate.
  - destruct (classify rp delim k) as [[k'|p]|] eqn:C.
    + discriminate.
    + destruct (existsb (bytes_eqb p) seen) eqn:X; [|discriminate]. eauto.
    + eauto.
Qed.

Lemma listing_empty_iff keys cp path delim :
  listing_empty (list_all keys cp path delim) = Ok true <->
  (forall k, In k keys -> starts_with (request_prefix cp path) k = false).
Proof.
  split.
  - intros H k Hin. destruct (starts_with (request_prefix cp path) k) eqn:S; [|reflexivity]. exfalso.
    unfold list_all in H.
    destruct (entries_of [] (request_prefix cp path) delim keys) as [|e es] eqn:E.
    + destruct (entries_of_nil_inv _ _ _ _ E k Hin S) as (p & _ & []).
    + unfold process_page in H. destruct e as [k'|p]; cbn [keys_of_entries pres_of_entries flat_map app map_res] in H.
      * destruct (slice_from _ k'); [|discriminate|discriminate].
        destruct (map_res (slice_from _) _); [|discriminate|discriminate].
        destruct (map_res (slice_dir _) _); discriminate.
      * destruct (map_res (slice_from _) _) as [objs| |]; [|discriminate|discriminate].
        destruct (slice_dir _ p); [|discriminate|discriminate].
        destruct (map_res (slice_dir _) _); [|discriminate|discriminate].
        cbn in H. destruct objs; discriminate.
  - intros H. unfold list_all. now rewrite entries_of_clear.
Qed.

(* ------------------------------------------------------------------ trees and keys *)

Lemma tree_ind' (P : tree -> Prop) :
  (forall c, P (TFile c)) ->
  (forall cs, Forall (fun nt => P (snd nt)) cs -> P (TDir cs)) -> forall t, P t.
Proof.
  intros HF HD. fix IH 1. intros [c|cs]; [apply HF|]. apply HD.
  induction cs as [|[n t] r IHr]; constructor; [apply IH|exact IHr].
Qed.

Lemma flatten_dir_cons n t r :
  flatten (TDir ((n, t) :: r)) = map (fun pc => (n :: fst pc, snd pc)) (flatten t) ++ flatten (TDir r).
Proof. reflexivity. Qed.
Lemma keys_under_dir_cons a n t r :
  keys_under a (TDir ((n, t) :: r)) = keys_under (join a n) t ++ keys_under a (TDir r).
Proof. reflexivity. Qed.
Lemma tree_wf_dir_cons n t r : tree_wf (TDir ((n, t) :: r)) = nameb n && tree_wf t && tree_wf (TDir r).
Proof. reflexivity. Qed.

Definition noslash (s : bytes) : bool := forallb (fun c => negb (is_slash c)) s.

Lemma nameb_inv n : nameb n = true -> n <> [] /\ noslash n = true /\ head_is_boundary n = true.
Proof.
  unfold nameb. intros H. apply andb_true_iff in H as [H H3]. apply andb_true_iff in H as [H1 H2].
  repeat split; auto. now apply is_nil_false, negb_true_iff.
Qed.

Lemma noslash_last n : noslash n = true -> last_is_slash n = false.
Proof.
  induction n as [|c n IH]; [reflexivity|]. cbn [noslash forallb]. intros H.
  apply andb_true_iff in H as [Hc Hn]. destruct n as [|d n].
  - cbn. now apply negb_true_iff.
  - cbn [last_is_slash]. now apply IH.
Qed.

Lemma nameb_relb n : nameb n = true -> relb n = true.
Proof.
  intros H. apply nameb_inv in H as (H1 & H2 & _). unfold relb.
  rewrite (noslash_last _ H2). destruct n as [|c n]; [congruence|].
  cbn [noslash forallb] in H2. apply andb_true_iff in H2 as [Hc _].
  cbn [is_nil head_is_slash negb andb]. now rewrite Hc.
Qed.

Lemma concat_slash_cons2 s s2 r : concat_slash (s :: s2 :: r) = s ++ slash :: concat_slash (s2 :: r).
Proof. reflexivity. Qed.

Lemma concat_slash_relb segs : segs <> [] -> Forall (fun n => nameb n = true) segs ->
  relb (concat_slash segs) = true.
Proof.
  induction segs as [|s r IH]; [congruence|]. intros _ H. inversion H as [|? ? Hs Hr]; subst.
  destruct r as [|s2 r]; [now apply nameb_relb|].
  rewrite concat_slash_cons2. apply relb_app; [now apply nameb_relb|]. apply IH; [discriminate|assumption].
Qed.

Lemma concat_slash_boundary segs : segs <> [] -> Forall (fun n => nameb n = true) segs ->
  head_is_boundary (concat_slash segs) = true.
Proof.
  destruct segs as [|s r]; [congruence|]. intros _ H. inversion H as [|? ? Hs Hr]; subst.
  apply nameb_inv in Hs as (Hne & _ & Hb). destruct s as [|c s]; [congruence|].
  destruct r; [exact Hb|]. rewrite concat_slash_cons2. exact Hb.
Qed.

Definition root_ok (a : bytes) : Prop := a = [] \/ relb a = true.

Lemma root_ok_pfx a : root_ok a -> pfx_ok a = true.
Proof. intros [-> | H]; [reflexivity|now apply relb_pfx_ok]. Qed.

Lemma root_ok_join a n : root_ok a -> nameb n = true -> relb (join a n) = true.
Proof.
  intros [-> | H] Hn; [rewrite join_nil_l; now apply nameb_relb|].
  apply relb_join; [assumption|now apply nameb_relb].
Qed.

(** one join per directory level equals one join with the slash-separated relative path *)
Lemma join_step a n segs : root_ok a -> nameb n = true -> Forall (fun n => nameb n = true) segs ->
  join (join a n) (concat_slash segs) = join a (concat_slash (n :: segs)).
Proof.
  intros Ha Hn Hs. destruct segs as [|s r].
  - cbn [concat_slash]. apply join_nil_r_ok, relb_pfx_ok, root_ok_join; assumption.
  - rewrite concat_slash_cons2.
    assert (Hr : relb (concat_slash (s :: r)) = true) by (apply concat_slash_relb; [discriminate|assumption]).
    pose proof (nameb_relb _ Hn) as Hn'.
    destruct Ha as [-> | Ha].
    + rewrite !join_nil_l. now apply join_relb.
    + rewrite join_assoc_rel by assumption. now rewrite (join_relb n).
Qed.

Lemma keys_under_spec : forall t, tree_wf t = true -> forall a, root_ok a ->
  keys_under a t = map (fun pc => (join a (concat_slash (fst pc)), snd pc)) (flatten t) /\
  Forall (fun pc => Forall (fun n => nameb n = true) (fst pc)) (flatten t).
Proof.
  induction t as [c|cs IH] using tree_ind'; intros Hwf a Ha.
  - cbn [keys_under flatten map fst snd concat_slash]. rewrite (join_nil_r_ok a) by now apply root_ok_pfx.
    split; [reflexivity|]. repeat constructor.
  - induction cs as [|[n t] r IHr]; [split; [reflexivity|constructor]|].
    rewrite tree_wf_dir_cons in Hwf. apply andb_true_iff in Hwf as [Hwf Hr].
    apply andb_true_iff in Hwf as [Hn Ht].
    inversion IH as [|? ? IHt IHrest]; subst. cbn [snd] in IHt.
    destruct (IHr IHrest Hr) as [Er Fr].
    destruct (IHt Ht (join a n)) as [Et Ft]; [right; now apply root_ok_join|].
    rewrite keys_under_dir_cons, flatten_dir_cons, Et, Er, map_app, map_map. split.
    + f_equal. apply map_ext_Forall. rewrite Forall_forall in *. intros [segs c] Hin. cbn [fst snd].
      f_equal. apply join_step; auto. apply (Ft _ Hin).
    + apply Forall_app. split; [|assumption].
      rewrite Forall_forall in *. intros [segs c] Hin. apply in_map_iff in Hin as ([segs' c'] & E & Hin).
      injection E as <- <-. cbn [fst]. constructor; [assumption|]. apply (Ft _ Hin).
Qed.

Lemma flatten_dir_nonempty cs : Forall (fun pc => fst pc <> []) (flatten (TDir cs)).
Proof.
  induction cs as [|[n t] r IH]; [constructor|].
  rewrite flatten_dir_cons. apply Forall_app. split; [|assumption].
  rewrite Forall_forall. intros pc Hin. apply in_map_iff in Hin as (pc' & <- & _). discriminate.
Qed.

Lemma split_slash_seg n : noslash n = true -> forall cur rest,
  split_slash cur (n ++ slash :: rest) = (rev cur ++ n) :: split_slash [] rest.
Proof.
  induction n as [|c n IH]; intros H cur rest.
  - cbn [app split_slash]. replace (is_slash slash) with true by reflexivity. now rewrite app_nil_r.
  - cbn [noslash forallb] in H. apply andb_true_iff in H as [Hc Hn]. apply negb_true_iff in Hc.
    cbn [app split_slash]. rewrite Hc, (IH Hn). cbn [rev]. now rewrite <- app_assoc.
Qed.

Lemma split_slash_last n : noslash n = true -> forall cur, split_slash cur n = [rev cur ++ n].
Proof.
  induction n as [|c n IH]; intros H cur.
  - cbn. now rewrite app_nil_r.
  - cbn [noslash forallb] in H. apply andb_true_iff in H as [Hc Hn]. apply negb_true_iff in Hc.
    cbn [split_slash]. rewrite Hc, (IH Hn). cbn [rev]. now rewrite <- app_assoc.
Qed.

Lemma segments_concat segs : segs <> [] -> Forall (fun n => nameb n = true) segs ->
  segments (concat_slash segs) = segs.
Proof.
  unfold segments. induction segs as [|s r IH]; [congruence|]. intros _ H.
  inversion H as [|? ? Hs Hr]; subst. apply nameb_inv in Hs as (_ & Hs & _).
  destruct r as [|s2 r].
  - cbn [concat_slash]. now rewrite split_slash_last.
  - rewrite concat_slash_cons2, split_slash_seg by assumption. cbn [rev app]. f_equal.
    apply IH; [discriminate|assumption].
Qed.

Lemma path_of_key_roundtrip cp segs : pfx_ok cp = true -> segs <> [] ->
  Forall (fun n => nameb n = true) segs ->
  path_of_key cp (join cp (concat_slash segs)) = Ok segs.
Proof.
  intros Hc Hne Hs. unfold path_of_key.
  rewrite join_under by (auto using concat_slash_relb).
  rewrite slice_under by (auto using concat_slash_boundary).
  now rewrite segments_concat.
Qed.

Lemma keys_tree_bijection_lemma cp cs : pfx_ok cp = true -> tree_wf (TDir cs) = true ->
  keys_of_tree cp (TDir cs) =
    map (fun pc => (join cp (concat_slash (fst pc)), snd pc)) (flatten (TDir cs)) /\
  map (fun kc => (path_of_key cp (fst kc), snd kc)) (keys_of_tree cp (TDir cs)) =
    map (fun pc => (Ok (fst pc), snd pc)) (flatten (TDir cs)).
Proof.
  intros Hc Hwf. destruct (keys_under_spec _ Hwf [] (or_introl eq_refl)) as [E F].
  assert (K : keys_of_tree cp (TDir cs) =
              map (fun pc => (join cp (concat_slash (fst pc)), snd pc)) (flatten (TDir cs))).
  { unfold keys_of_tree. rewrite E, map_map. apply map_ext. intros [segs c]. cbn [fst snd].
    now rewrite join_nil_l. }
  split; [exact K|]. rewrite K, map_map. apply map_ext_Forall.
  pose proof (flatten_dir_nonempty cs) as NE. rewrite Forall_forall in *.
  intros [segs c] Hin. cbn [fst snd]. f_equal. apply path_of_key_roundtrip; auto.
  - apply (NE _ Hin).
  - apply (F _ Hin).
Qed.

(* ------------------------------------------------------------------ the recursive listing is exact *)

Lemma entries_nodelim rp keys : forall seen,
  entries_of seen rp false keys = map EKey (filter (starts_with rp) keys).
Proof.
  induction keys as [|k ks IH]; intros seen; [reflexivity|].
  cbn [entries_of filter]. unfold classify. destruct (starts_with rp k); cbn [map]; now rewrite IH.
Qed.

Lemma keys_of_entries_keys l : keys_of_entries (map EKey l) = l.
Proof. induction l as [|k l IH]; [reflexivity|]. cbn. now rewrite <- IH at 2. Qed.
Lemma pres_of_entries_keys l : pres_of_entries (map EKey l) = [].
Proof. induction l as [|k l IH]; [reflexivity|]. exact IH. Qed.

(** keys are Rust Strings: the character after "prefix/" starts a UTF-8 sequence *)
Definition keys_boundary_ok (cp : bytes) (keys : list bytes) : Prop :=
  forall k rel, In k keys -> k = under cp rel -> head_is_boundary rel = true.

Lemma list_objects_exact_lemma keys cp path :
  pfx_ok cp = true -> keys_boundary_ok cp keys ->
  exists rels, list_all keys cp path false = Ok (rels, []) /\
               map (under cp) rels = filter (starts_with (request_prefix cp path)) keys.
Proof.
  intros Hc Hb. unfold list_all, process_page.
  rewrite entries_nodelim, keys_of_entries_keys, pres_of_entries_keys. cbn [map_res].
  set (rp := request_prefix cp path).
  assert (H : forall l, (forall k, In k l -> In k keys /\ starts_with rp k = true) ->
                        exists rels, map_res (slice_from (prefix_offset cp)) l = Ok rels /\ map (under cp) rels = l).
  { induction l as [|k l IH]; intros Hl; [exists []; auto|].
    destruct (Hl k (or_introl eq_refl)) as [Hin Hs].
    destruct (prefix_offset_exact cp path k Hc Hs) as (rel & E & Hslice).
    destruct IH as (rels & E1 & E2); [intros k' Hk'; apply Hl; now right|].
    exists (rel :: rels). cbn [map_res map]. rewrite Hslice by (eapply Hb; eauto). rewrite E1. now rewrite E2, <- E. }
  destruct (H (filter (starts_with rp) keys)) as (rels & E1 & E2).
  { intros k Hk. now apply filter_In in Hk. }
  exists rels. now rewrite E1.
Qed.

(* ------------------------------------------------------------------ a listing of "path" is the subtree below "path/" *)

(** the ListObjectsV2 prefix of a directory path: "<prefix>/<path>/" (join_with_trailing_slash,
    s3.rs:813) - the trailing slash is what keeps "obj10/..." out of a listing of "obj1" *)
Lemma request_prefix_dir cp path : pfx_ok cp = true -> relb path = true ->
  request_prefix cp path = under cp (path ++ [slash]).
Proof.
  intros Hc Hp. unfold request_prefix, join_ts. rewrite join_under by assumption.
  apply relb_inv in Hp as (Hne & Hh & Hl).
  assert (E : under cp path <> [] /\ last_is_slash (under cp path) = false).
  { destruct cp as [|c cp]; cbn [under]; [now split|]. split; [discriminate|].
    destruct path as [|d path]; [congruence|].
    change (c :: cp ++ slash :: d :: path) with ((c :: cp ++ [slash]) ++ d :: path).
    now rewrite last_is_slash_app. }
  destruct E as [E1 E2]. apply is_nil_false in E1. rewrite E1, E2. cbn [negb andb].
  destruct cp as [|c cp]; cbn [under]; [reflexivity|]. now rewrite <- app_assoc.
Qed.

Lemma starts_with_under cp a r : starts_with (under cp a) (under cp r) = starts_with a r.
Proof.
  destruct cp as [|c cp]; [reflexivity|]. unfold under.
  replace ((c :: cp) ++ slash :: a) with (((c :: cp) ++ [slash]) ++ a) by now rewrite <- app_assoc.
  replace ((c :: cp) ++ slash :: r) with (((c :: cp) ++ [slash]) ++ r) by now rewrite <- app_assoc.
  apply starts_with_app_same.
Qed.

Lemma under_inj cp a r : under cp a = under cp r -> a = r.
Proof.
  destruct cp as [|c cp]; [auto|]. unfold under. intros H. apply app_inv_head in H. now injection H.
Qed.

Lemma split_slash_app a t : forall cur,
  split_slash cur (a ++ slash :: t) = split_slash cur a ++ split_slash [] t.
Proof.
  induction a as [|c a IH]; intros cur.
  - cbn [app split_slash]. replace (is_slash slash) with true by reflexivity. reflexivity.
  - cbn [app split_slash]. destruct (is_slash c); [now rewrite IH|apply IH].
Qed.

Lemma segments_app a t : segments (a ++ slash :: t) = segments a ++ segments t.
Proof. apply split_slash_app. Qed.

Lemma split_slash_nonempty s : forall cur, split_slash cur s <> [].
Proof. induction s as [|c s IH]; intros cur; cbn; [discriminate|]. destruct (is_slash c); [discriminate|apply IH]. Qed.

Lemma concat_slash_cons s r : r <> [] -> concat_slash (s :: r) = s ++ slash :: concat_slash r.
Proof. destruct r; [congruence|reflexivity]. Qed.

Lemma concat_split_slash s : forall cur, concat_slash (split_slash cur s) = rev cur ++ s.
Proof.
  induction s as [|c s IH]; intros cur.
  - cbn. now rewrite app_nil_r.
  - cbn [split_slash]. destruct (is_slash c) eqn:C.
    + apply is_slash_eq in C. subst c. rewrite concat_slash_cons by apply split_slash_nonempty.
      now rewrite IH.
    + rewrite IH. cbn [rev]. now rewrite <- app_assoc.
Qed.

(** cutting at the slashes and joining again is the identity, for every string *)
Lemma concat_segments s : concat_slash (segments s) = s.
Proof. apply (concat_split_slash s []). Qed.

Lemma concat_slash_app a r : a <> [] -> r <> [] ->
  concat_slash (a ++ r) = concat_slash a ++ slash :: concat_slash r.
Proof.
  induction a as [|s a IH]; [congruence|]. intros _ Hr. destruct a as [|s2 a].
  - cbn [app]. now apply concat_slash_cons.
  - change ((s :: s2 :: a) ++ r) with (s :: (s2 :: a) ++ r).
    rewrite concat_slash_cons by discriminate. rewrite IH by (discriminate || assumption).
    rewrite concat_slash_cons2. now rewrite <- app_assoc.
Qed.

(** a path lies below the directory [path] (begins with "path/") exactly when its segments are
    ALL segments of [path] followed by at least one more: "obj10/v1/..." is not below "obj1",
    its first segment differs.  For arbitrary strings. *)
Lemma below_segments path rel :
  starts_with (path ++ [slash]) rel = true <->
  exists s, s <> [] /\ segments rel = segments path ++ s.
Proof.
  split.
  - intros H. apply starts_with_inv in H as [t ->]. rewrite <- app_assoc. cbn [app].
    exists (segments t). split; [apply split_slash_nonempty|apply segments_app].
  - intros (s & Hs & E). rewrite <- (concat_segments rel), E.
    rewrite concat_slash_app by (apply split_slash_nonempty || assumption).
    rewrite concat_segments.
    replace (path ++ slash :: concat_slash s) with ((path ++ [slash]) ++ concat_slash s) by now rewrite <- app_assoc.
    apply starts_with_refl_app.
Qed.

(** the recursive listing of a directory path (list_objects, s3.rs:806-808) returns exactly
    the stored paths below "path/", each once, in key order *)
Lemma list_objects_below_lemma keys cp path :
  pfx_ok cp = true -> relb path = true -> keys_boundary_ok cp keys ->
  exists rels, list_all keys cp path false = Ok (rels, []) /\
    map (under cp) rels = filter (starts_with (under cp (path ++ [slash]))) keys /\
    forall rel, In rel rels <->
                In (under cp rel) keys /\ exists s, s <> [] /\ segments rel = segments path ++ s.
Proof.
  intros Hc Hp Hb. destruct (list_objects_exact_lemma keys cp path Hc Hb) as (rels & E1 & E2).
  rewrite request_prefix_dir in E2 by assumption.
  exists rels. split; [exact E1|]. split; [exact E2|]. intros rel. rewrite <- below_segments.
  rewrite <- (starts_with_under cp). split.
  - intros Hin. apply (in_map (under cp)) in Hin. rewrite E2 in Hin. now apply filter_In in Hin.
  - intros Hin. apply filter_In in Hin. rewrite <- E2 in Hin. apply in_map_iff in Hin as (r' & E & Hin).
    apply under_inj in E. now subst r'.
Qed.

(* ------------------------------------------------------------------ purge_object removes that subtree and nothing else *)

Lemma purge_filter_true {A} (l : list A) : filter (fun _ => true) l = l.
Proof. induction l as [|a l IH]; cbn; [reflexivity|now rewrite IH]. Qed.

Lemma purge_filter_filter {A} (P Q : A -> bool) l :
  filter P (filter Q l) = filter (fun x => Q x && P x) l.
Proof.
  induction l as [|a l IH]; [reflexivity|]. cbn [filter]. destruct (Q a); cbn [filter andb]; now rewrite IH.
Qed.

Lemma purge_bk_remove_filter k bk : bk_remove k bk = filter (fun kv => negb (bytes_eqb k (fst kv))) bk.
Proof.
  induction bk as [|[k' v] bk IH]; [reflexivity|]. cbn [bk_remove filter fst].
  destruct (bytes_eqb k k'); cbn [negb]; now rewrite IH.
Qed.

Lemma purge_fold_remove (ks : list bytes) : forall bk,
  fold_left (fun b k => bk_remove k b) ks bk =
  filter (fun kv => negb (existsb (fun k => bytes_eqb k (fst kv)) ks)) bk.
Proof.
  induction ks as [|k ks IH]; intros bk.
  - cbn [fold_left existsb negb]. now rewrite purge_filter_true.
  - cbn [fold_left]. rewrite IH, purge_bk_remove_filter, purge_filter_filter.
    apply filter_ext. intros kv. cbn [existsb]. now rewrite negb_orb.
Qed.

Lemma purge_loop_nofault cp files : forall s,
  purge_loop None cp files false s =
  (false, mkSt (fold_left (fun b k => bk_remove k b) (map (join cp) files) (st_b s))
               (st_n s + N.of_nat (List.length files))
               (st_log s ++ map (fun p => RDelete (join cp p)) files)).
Proof.
  induction files as [|f r IH]; intros s.
  - cbn. rewrite N.add_0_r, app_nil_r. now destruct s.
  - cbn [purge_loop]. unfold delete_object, mreq. cbn [fst snd st_b st_n st_log].
    rewrite IH. cbn [st_b st_n st_log map fold_left List.length]. f_equal. f_equal.
    + lia.
    + now rewrite <- app_assoc.
Qed.

(** without a failing request the deletion part of purge_object deletes exactly the keys below "<prefix>/<root>/"
    and keeps every other key with its content *)
Lemma purge_delete_exact_lemma cp root bk :
  pfx_ok cp = true -> relb root = true -> keys_boundary_ok cp (bk_keys bk) ->
  let out := purge_delete None cp root (init_st bk) in
  fst out = Ok tt /\
  st_b (snd out) = filter (fun kv => negb (starts_with (under cp (root ++ [slash])) (fst kv))) bk /\
  st_log (snd out) = map RDelete (filter (starts_with (under cp (root ++ [slash]))) (bk_keys bk)).
Proof.
  intros Hc Hp Hb.
  destruct (list_objects_below_lemma (bk_keys bk) cp root Hc Hp Hb) as (rels & E1 & E2 & E3).
  assert (J : map (join cp) rels = map (under cp) rels).
  { apply map_ext_in. intros p Hin. apply E3 in Hin as [_ Hs]. apply below_segments in Hs.
    apply starts_with_inv in Hs as [t ->]. apply relb_inv in Hp as (Hne & Hh & _).
    destruct cp as [|c cp]; [apply join_nil_l|]. apply join_rel; auto; try discriminate.
    - destruct root; [congruence|discriminate].
    - destruct root; [congruence|exact Hh]. }
  cbv zeta. unfold purge_delete, init_st. cbn [st_b]. rewrite E1, purge_loop_nofault.
  cbn [fst snd st_b st_log app]. split; [reflexivity|]. split.
  - rewrite J, E2, purge_fold_remove. apply filter_ext_in. intros kv Hin. f_equal.
    set (f := starts_with (under cp (root ++ [slash]))).
    destruct (f (fst kv)) eqn:F.
    + apply existsb_exists. exists (fst kv). split; [|apply bytes_eqb_eq; reflexivity].
      apply filter_In. split; [|exact F]. unfold bk_keys. now apply in_map.
    + destruct (existsb _ _) eqn:X; [|reflexivity]. apply existsb_exists in X as (k & Hk & Ek).
      apply bytes_eqb_eq in Ek. subst k. apply filter_In in Hk as [_ Hk]. fold f in Hk. congruence.
  - rewrite <- E2, <- J, map_map. reflexivity.
Qed.

(* ------------------------------------------------------------------ roots accepted for a new object *)

Definition plain_part (sg : bytes) : Prop := sg <> [] /\ sg <> b "." /\ sg <> b "..".

Lemma validate_parts_plain keys cp : forall parts current first,
  validate_parts keys cp current first parts = Ok tt -> Forall plain_part parts.
Proof.
  induction parts as [|part rest IH]; intros current first H; [constructor|].
  cbn [validate_parts] in H.
  destruct (is_nil part || bytes_eqb part (b ".") || bytes_eqb part (b "..")) eqn:E; [discriminate|].
  apply orb_false_iff in E as [E E3]. apply orb_false_iff in E as [E1 E2].
  assert (P : plain_part part).
  { repeat split.
    - now apply is_nil_false.
    - now apply bytes_eqb_false.
    - now apply bytes_eqb_false. }
  destruct (first && bytes_eqb part K_EXTENSIONS_DIR); [discriminate|].
  destruct rest as [|r rest']; [constructor; [exact P|constructor]|].
  destruct (list_all keys cp (join current part) true) as [[objs dirs]| |]; [|discriminate|discriminate].
  destruct (is_object_dir objs); [discriminate|]. constructor; [exact P|]. eapply IH; exact H.
Qed.

Lemma validate_first_not_extensions keys cp root :
  s3_validate_object_root keys cp root = Ok tt -> hd [] (segments root) <> K_EXTENSIONS_DIR.
Proof.
  unfold s3_validate_object_root. destruct (segments root) as [|part rest]; [discriminate|].
  cbn [validate_parts hd andb].
  destruct (is_nil part || _ || _); [discriminate|].
  destruct (bytes_eqb part K_EXTENSIONS_DIR) eqn:E; [discriminate|]. intros _. now apply bytes_eqb_false.
Qed.

(** a string all of whose segments are non-empty is a relative path: not empty, no slash at
    either end (and no double slash) *)
Lemma segments_nonempty_relb root : Forall (fun sg => sg <> []) (segments root) -> relb root = true.
Proof.
  intros H. unfold relb.
  assert (N1 : root <> []).
  { intros ->. inversion H as [|? ? Hx _]. congruence. }
  assert (N2 : head_is_slash root = false).
  { destruct root as [|c r]; [reflexivity|]. cbn [head_is_slash]. destruct (is_slash c) eqn:C; [|reflexivity].
    unfold segments in H. cbn [split_slash] in H. rewrite C in H. inversion H as [|? ? Hx _]. cbn in Hx. congruence. }
  assert (N3 : last_is_slash root = false).
  { destruct (last_is_slash root) eqn:L; [|reflexivity]. apply last_is_slash_inv in L as [r ->].
    rewrite segments_app in H. apply Forall_app in H as [_ H]. inversion H as [|? ? Hx _]. congruence. }
  apply is_nil_false in N1. now rewrite N1, N2, N3.
Qed.

(** every root S3 accepts for a new object is a normalised relative path outside extensions/ *)
Lemma validated_root_lemma keys cp root :
  s3_validate_object_root keys cp root = Ok tt ->
  relb root = true /\ Forall plain_part (segments root) /\ hd [] (segments root) <> K_EXTENSIONS_DIR.
Proof.
  intros H. pose proof (validate_parts_plain _ _ _ _ _ H) as P. split; [|split].
  - apply segments_nonempty_relb. eapply Forall_impl; [|exact P]. intros sg Hs. apply Hs.
  - exact P.
  - eapply validate_first_not_extensions; exact H.
Qed.

(** a plain relative root with no object declared at a proper ancestor is accepted (samples) *)
Lemma validate_root_cases :
  let keys := [b "p/obj1/0=ocfl_object_1.0"; b "p/obj1/v1/content/a"; b "p/coll/obj2/0=ocfl_object_1.1"] in
  s3_validate_object_root keys (b "p") (b "obj10") = Ok tt /\
  s3_validate_object_root keys (b "p") (b "coll/obj3") = Ok tt /\
  s3_validate_object_root keys (b "p") (b "obj1/sub") = Err /\
  s3_validate_object_root keys (b "p") (b "obj1/v1/content") = Err /\
  s3_validate_object_root keys (b "p") (b "coll/obj2/x") = Err /\
  s3_validate_object_root keys (b "p") (b "extensions/e1") = Err /\
  s3_validate_object_root keys (b "p") (b "../out") = Err /\
  s3_validate_object_root keys (b "p") (b "a//b") = Err /\
  s3_validate_object_root keys (b "p") (b "./x") = Err /\
  s3_validate_object_root keys (b "p") (b "a/b/") = Err /\
  s3_validate_object_root keys (b "p") (b "") = Err.
Proof. repeat split; vm_compute; reflexivity. Qed.

(* ------------------------------------------------------------------ purge_object with its guards (s3.rs:593-646) *)

(** whether purge_object leaves the bucket alone although the root passed validation: the root
    is an object directory ([objs] = the keys directly in it) whose inventory names another id,
    or it is none and an object declaration lies somewhere below it ([below]) *)
Definition purge_spared (inv_id : bytes -> option bytes) (bk : bucket) (cp oid root : bytes) (objs below : list bytes) : bool :=
  if is_object_dir objs
  then match stored_inventory_id inv_id bk cp root with Some id' => negb (bytes_eqb id' oid) | None => false end
  else is_object_dir below.

Lemma purge_refused_lemma inv_id cp oid mapped bk :
  s3_validate_object_root (bk_keys bk) cp (trim_trailing_slashes mapped) = Err ->
  purge_object inv_id None cp oid mapped (init_st bk) = (Err, init_st bk).
Proof. intros H. unfold purge_object, init_st. cbn [st_b]. now rewrite H. Qed.

Lemma purge_guarded_lemma inv_id cp oid mapped bk objs dirs :
  pfx_ok cp = true -> keys_boundary_ok cp (bk_keys bk) ->
  let root := trim_trailing_slashes mapped in
  s3_validate_object_root (bk_keys bk) cp root = Ok tt ->
  list_all (bk_keys bk) cp root true = Ok (objs, dirs) ->
  exists below, list_all (bk_keys bk) cp root false = Ok (below, []) /\
    map (under cp) below = filter (starts_with (under cp (root ++ [slash]))) (bk_keys bk) /\
    let out := purge_object inv_id None cp oid mapped (init_st bk) in
    fst out = Ok tt /\
    (purge_spared inv_id bk cp oid root objs below = true -> snd out = init_st bk) /\
    (purge_spared inv_id bk cp oid root objs below = false ->
       st_b (snd out) = filter (fun kv => negb (starts_with (under cp (root ++ [slash])) (fst kv))) bk /\
       st_log (snd out) = map RDelete (filter (starts_with (under cp (root ++ [slash]))) (bk_keys bk))).
Proof.
  intros Hc Hb root Hv Hl.
  destruct (validated_root_lemma _ _ _ Hv) as (Hr & _ & _).
  destruct (list_objects_below_lemma (bk_keys bk) cp root Hc Hr Hb) as (below & E1 & E2 & _).
  destruct (purge_delete_exact_lemma cp root bk Hc Hr Hb) as (D1 & D2 & D3).
  exists below. split; [exact E1|]. split; [exact E2|].
  cbv zeta. unfold purge_object, purge_spared. fold root. change (st_b (init_st bk)) with bk.
  rewrite Hv, Hl. destruct (is_object_dir objs).
  - destruct (stored_inventory_id inv_id bk cp root) as [id'|].
    + destruct (bytes_eqb id' oid); cbn [negb].
      * split; [exact D1|]. split; [discriminate|]. intros _. split; [exact D2|exact D3].
      * split; [reflexivity|]. split; [reflexivity|discriminate].
    + split; [exact D1|]. split; [discriminate|]. intros _. split; [exact D2|exact D3].
  - rewrite E1. destruct (is_object_dir below).
    + split; [reflexivity|]. split; [reflexivity|discriminate].
    + split; [exact D1|]. split; [discriminate|]. intros _. split; [exact D2|exact D3].
Qed.

Lemma purge_guard_cases :
  let inv_id := fun tok : bytes => match tok with c :: r => if Ascii.eqb c "I"%char then Some r else None | [] => None end in
  let bk := [(b "p/coll/obj1/0=ocfl_object_1.0", b "x"); (b "p/coll/obj1/inventory.json", b "Icoll/obj1");
             (b "p/coll/obj1/v1/content/a", b "y"); (b "p/1/0=ocfl_object_1.1", b "x"); (b "p/1/inventory.json", b "Iurn:obj:1");
             (b "p/extensions/0002-flat-direct-storage-layout/config.json", b "c")] in
  let run := fun oid mapped => purge_object inv_id None (b "p") oid mapped (init_st bk) in
  run (b "coll") (b "coll") = (Ok tt, init_st bk) /\                       (* a directory other objects are stored beneath *)
  run (b "other:1") (b "1") = (Ok tt, init_st bk) /\                       (* the root of an object with another id *)
  run (b "coll/obj1/v1") (b "coll/obj1/v1") = (Err, init_st bk) /\         (* inside another object *)
  run (b "extensions") (b "extensions") = (Err, init_st bk) /\
  run (b "../x") (b "../x") = (Err, init_st bk) /\
  bk_keys (st_b (snd (run (b "urn:obj:1") (b "1")))) =
    [b "p/coll/obj1/0=ocfl_object_1.0"; b "p/coll/obj1/inventory.json"; b "p/coll/obj1/v1/content/a";
     b "p/extensions/0002-flat-direct-storage-layout/config.json"] /\
  bk_keys (st_b (snd (run (b "coll/obj1") (b "coll/obj1//")))) =
    [b "p/1/0=ocfl_object_1.1"; b "p/1/inventory.json"; b "p/extensions/0002-flat-direct-storage-layout/config.json"] /\
  run (b "/coll/obj1") (b "/coll/obj1") = (Err, init_st bk) /\              (* a leading slash is not trimmed: empty first part *)
  run (b "nothing") (b "nothing") = (Ok tt, mkSt bk 0 []).
Proof. repeat split; vm_compute; reflexivity. Qed.
