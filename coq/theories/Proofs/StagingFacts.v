From Coq Require Import NArith Ascii Lia.
From stdpp Require Import gmap.
From Rocfl Require Import Model.Inventory Model.InvSpec Model.Staging Proofs.ConflictFacts Proofs.InventoryFacts.

(** * The staged view under cp / mv / rm / reset semantics.
    [spec_apply] is the abstract specification: a map from logical paths to
    content, with no manifest, no content paths and no notion of "staged". *)
Definition spec_apply (o : sop) (view : state) (version : N → option state) (headn : N) : state :=
  match o with
  | SAdd d p => if conflictb view p then view else <[p := d]> view
  | SCopyInt v src dst =>
      if bool_decide (src = dst) && (v =? headn)%N then view
      else match version v with
           | None => view
           | Some st => match st !! src with
                        | None => view
                        | Some d => if conflictb view dst then view else <[dst := d]> view
                        end
           end
  | SMoveInt src dst =>
      if bool_decide (src = dst) then view
      else match view !! src with
           | None => view
           | Some d => if conflictb view dst then view else delete src (<[dst := d]> view)
           end
  | SRemove p => delete p view
  | SResetPrev p =>
      if (headn =? 1)%N then view
      else match version (headn - 1)%N with
           | None => delete p view
           | Some st => match st !! p with
                        | None => delete p view
                        | Some d => if conflictb (delete p view) p then delete p view
                                    else <[p := d]> (delete p view)
                        end
           end
  end.

Lemma get_state_head i : get_state i (head i) = Some (i_hstate i).
Proof. unfold get_state. by rewrite N.eqb_refl. Qed.

Lemma remove_from_head_hstate p i : i_hstate (fst (remove_from_head p i)) = delete p (i_hstate i).
Proof.
  unfold remove_from_head. destruct (i_hstate i !! p) eqn:E.
  - destruct (i_manifest i !! ncp i p); done.
  - cbn. symmetry. by apply delete_notin.
Qed.

Lemma remove_from_head_prev p i : i_prev (fst (remove_from_head p i)) = i_prev i.
Proof.
  unfold remove_from_head. destruct (i_hstate i !! p); [|done].
  destruct (i_manifest i !! ncp i p); done.
Qed.

Lemma get_state_prev_frame i i' v :
  i_prev i' = i_prev i → (v ≠ head i) → get_state i' v = get_state i v.
Proof.
  intros Hp Hv. unfold get_state, head. rewrite Hp.
  fold (head i). destruct (v =? head i)%N eqn:E; [apply N.eqb_eq in E; done|done].
Qed.

(** the logical view of the staged object evolves exactly as the specification
    says, whatever the manifest bookkeeping decided *)
Theorem sapply_view o i :
  i_hstate (sapply o i) = spec_apply o (i_hstate i) (get_state i) (head i).
Proof.
  destruct o as [d p|v src dst|src dst|p|p]; cbn [sapply spec_apply].
  - unfold add_file_to_head. destruct (conflictb (i_hstate i) p); done.
  - destruct (bool_decide (src = dst) && (v =? head i)%N); [done|].
    unfold staged_source, copy_file_to_head, add_file_to_head.
    destruct (get_state i v) as [st|]; [|done].
    destruct (st !! src) as [d|]; [|done].
    destruct ((v =? head i)%N && bool_decide (i_manifest i !! ncp i src = Some d));
      destruct (conflictb (i_hstate i) dst); done.
  - destruct (bool_decide (src = dst)); [done|].
    unfold staged_source. rewrite get_state_head.
    destruct (i_hstate i !! src) as [d|] eqn:Hs; [|done].
    unfold move_new_in_head_file, move_file_in_head. rewrite Hs.
    destruct ((head i =? head i)%N && bool_decide (i_manifest i !! ncp i src = Some d));
      destruct (conflictb (i_hstate i) dst); done.
  - apply remove_from_head_hstate.
  - destruct (head i =? 1)%N eqn:Eh; [done|].
    set (i1 := fst (remove_from_head p i)).
    assert (Hp1 : i_prev i1 = i_prev i) by apply remove_from_head_prev.
    assert (Hh1 : i_hstate i1 = delete p (i_hstate i)) by apply remove_from_head_hstate.
    assert (Hhead : head i1 = head i) by (unfold head; by rewrite Hp1).
    assert (Hne : (head i - 1)%N ≠ head i).
    { apply N.eqb_neq in Eh. pose proof (head_pos i). lia. }
    unfold copy_file_to_head. rewrite (get_state_prev_frame i i1) by done.
    destruct (get_state i (head i - 1)) as [st|]; [|done].
    destruct (st !! p) as [d|]; [|done].
    rewrite Hh1. destruct (conflictb (delete p (i_hstate i)) p); cbn [or_unchanged i_hstate]; [done|].
    done.
Qed.

(** a refused operation changes nothing (partial failure leaves the others applied) *)
Lemma not_some_none {A} (x : option A) : negb (bool_decide (is_Some x)) = true → x = None.
Proof.
  destruct x; [|done]. rewrite bool_decide_eq_true_2 by eauto. done.
Qed.

Lemma sop_fails_unchanged o i :
  (∀ p, o ≠ SResetPrev p) → sop_fails o i = true → sapply o i = i.
Proof.
  intros Hnr. destruct o as [d p|v src dst|src dst|p|p]; cbn [sop_fails sapply].
  - intros H. apply not_some_none in H. by rewrite H.
  - destruct (bool_decide (src = dst) && (v =? head i)%N); [done|].
    destruct (staged_source i v src) as [[d|]|]; [| |done];
      intros H; apply not_some_none in H; by rewrite H.
  - destruct (bool_decide (src = dst)); [done|].
    destruct (staged_source i (head i) src) as [[d|]|]; [| |done];
      intros H; apply not_some_none in H; by rewrite H.
  - done.
  - by destruct (Hnr p).
Qed.

Lemma removed_absent p i : i_hstate (sapply (SRemove p) i) !! p = None.
Proof. cbn [sapply]. rewrite remove_from_head_hstate. apply lookup_delete. Qed.

(** reset re-points a path at the previous version's entry *)
Lemma reset_restores p i pst d :
  (head i ≠ 1)%N → get_state i (head i - 1) = Some pst → pst !! p = Some d →
  conflictb (delete p (i_hstate i)) p = false →
  i_hstate (sapply (SResetPrev p) i) !! p = Some d.
Proof.
  intros Hh Hg Hp Hc. rewrite sapply_view. cbn [spec_apply].
  apply N.eqb_neq in Hh. rewrite Hh, Hg, Hp, Hc. apply lookup_insert.
Qed.

(** every staged logical path is backed by bytes: its own staged file or committed content *)
Lemma staged_readable i p d :
  StagedWF i → i_hstate i !! p = Some d →
  i_manifest i !! ncp i p = Some d ∨ committed_copy i d.
Proof. intros Hwf. apply (sw_I5 _ Hwf). Qed.


(** * reset of several paths (fix 9f7da71): whatever it reports, its result is the fold of the
    single-path resets over ALL named paths (a blocked path contributes an error and is skipped,
    the others are restored) and the staged object stays well formed - hence readable
    (C09_staged_paths_readable's invariant) and committable (C01_commit_valid) *)
Lemma foldl_sapply_wf (os : list sop) i : StagedWF i → StagedWF (foldl (fun a o => sapply o a) i os).
Proof. revert i. induction os as [|o os IH]; intros i Hwf; cbn [foldl]; [exact Hwf|]. apply IH, sapply_wf, Hwf. Qed.

Lemma exec_sops_fst (os : list sop) i : fst (exec_sops os i) = foldl (fun a o => sapply o a) i os.
Proof.
  unfold exec_sops. generalize O. revert i.
  induction os as [|o os IH]; intros i n; cbn [foldl fst]; [reflexivity|]. apply IH.
Qed.

Lemma reset_apply_result paths recursive order i :
  let hps := remove_dups (concat (map (fun g => resolve_glob (i_hstate i) g recursive) paths)) in
  let pps := match last (i_prev i) with
             | Some pst => remove_dups (concat (map (fun g => resolve_glob pst g recursive) paths))
             | None => []
             end in
  let adds := filter (fun p => negb (bool_decide (p ∈ pps))) hps in
  fst (reset_apply paths recursive order i) =
  foldl (fun a o => sapply o a) i (map SRemove adds ++ map SResetPrev (order pps)).
Proof.
  cbv zeta. unfold reset_apply.
  match goal with |- context [exec_sops ?l ?x] => destruct (snd (exec_sops l x)); cbn [fst]; rewrite exec_sops_fst end.
  all: rewrite foldl_app; f_equal; clear; match goal with |- context [filter ?f ?l] => generalize (filter f l) end;
    intros l; revert i; induction l as [|p l IH]; intros i; cbn [foldl map]; [reflexivity|apply IH].
Qed.

Lemma reset_apply_wf paths recursive order i : StagedWF i → StagedWF (fst (reset_apply paths recursive order i)).
Proof. intros Hwf. rewrite reset_apply_result. apply foldl_sapply_wf, Hwf. Qed.
