(** * What an error-free run of the model validator guarantees about a tree (C06)

    [errors_nil_accepted]: [tree_errors fx t = []] implies the declarative facts
    [accepted fx t itok root].  The detection proofs (CorruptFacts.v) refute these facts
    for corrupted trees; nothing else about the validator is needed there. *)

From Coq Require Import List NArith Bool Lia.
From Rocfl Require Import Model.ObjTree Model.TreeValidate Proofs.ObjTreeFacts.
Import ListNotations.
Open Scope N_scope.

Section Facts.
  Variable digest : alg -> token -> N.
  Variable fdigest : N -> token -> N.
  Variable parse_inv : token -> option inventory.
  Variable parse_sidecar : token -> option N.
  Variable parse_decl : token -> option spec_version.

  Notation errs := (tree_errors digest fdigest parse_inv parse_sidecar parse_decl).
  Notation inv_sc := (inv_and_sidecar digest parse_inv parse_sidecar).

  Definition is_vdir (root : inventory) (s : seg) : Prop :=
    exists m, s = SVer (inv_pad root) m /\ in_versions root m = true.

  (** what may sit directly in the object root *)
  Definition root_slot (root : inventory) (s : seg) (r : path) (n : node) : Prop :=
    match r with
    | [] => (exists k, n = File k /\ (s = SDecl (inv_spec root) \/ s = SInv \/ s = SSidecar (inv_alg root)))
            \/ (n = Dir /\ (s = SLogs \/ s = SExt \/ is_vdir root s))
    | _ :: _ => s = SLogs \/ s = SExt \/ is_vdir root s
    end.

  (** the sidecar algorithm validate_version_contents ignores in version m (mod.rs:1731-1735) *)
  Definition valg (t : tree) (root : inventory) (m : N) (a : alg) : Prop :=
    a = inv_alg root
    \/ (m <> inv_head root /\ exists k i, file_tok (version_dir root m ++ [SInv]) t = Some k
                                          /\ parse_inv k = Some i /\ a = inv_alg i).

  Record accepted (fx : bool) (t : tree) (itok : token) (root : inventory) : Prop := {
    acc_inv : file_tok [SInv] t = Some itok /\ parse_inv itok = Some root;
    acc_sidecar : exists sk, file_tok [SSidecar (inv_alg root)] t = Some sk
                             /\ parse_sidecar sk = Some (digest (inv_alg root) itok);
    acc_decl : exists dk, file_tok [SDecl (inv_spec root)] t = Some dk
                          /\ parse_decl dk = Some (inv_spec root);
    acc_root : forall q n s r, In (q, n) t -> q = s :: r -> root_slot root s r n;
    acc_vdirs : forall m, in_versions root m = true -> has_dir [] (SVer (inv_pad root) m) t = true;
    acc_content : forall q n m s r, In (q, n) t -> in_versions root m = true ->
        q = content_root root m ++ s :: r ->
        exists k d, n = File k /\ mdigest (inv_manifest root) q = Some d;
    acc_fixity : fx = true -> forall q m s r k0 k d, In (q, File k0) t -> in_versions root m = true ->
        q = content_root root m ++ s :: r ->
        file_tok q t = Some k -> mdigest (inv_manifest root) q = Some d ->
        digest (inv_alg root) k = d;
    acc_manifest : forall d p, In (d, p) (inv_manifest root) -> exists k, In (p, File k) t;
    acc_vfiles : forall q n m s, In (q, n) t -> in_versions root m = true ->
        q = version_dir root m ++ [s] ->
        n = Dir \/ exists k, n = File k /\ (s = SInv \/ exists a, s = SSidecar a /\ valg t root m a);
    acc_vinv : forall m k, in_versions root m = true -> m <> inv_head root ->
        file_tok (version_dir root m ++ [SInv]) t = Some k ->
        exists i, parse_inv k = Some i
                  /\ exists sk, file_tok (version_dir root m ++ [SSidecar (inv_alg i)]) t = Some sk
                                /\ parse_sidecar sk = Some (digest (inv_alg i) k);
    acc_head : forall k, file_tok (version_dir root (inv_head root) ++ [SInv]) t = Some k ->
        digest (inv_alg root) k = digest (inv_alg root) itok
        /\ exists sk, file_tok (version_dir root (inv_head root) ++ [SSidecar (inv_alg root)]) t = Some sk
                      /\ parse_sidecar sk = Some (digest (inv_alg root) k)
  }.

  (** ** pieces *)

  Lemma sidecar_errors_nil sk dg :
    sidecar_errors parse_sidecar sk dg = [] -> parse_sidecar sk = Some dg.
  Proof.
    unfold sidecar_errors. destruct (parse_sidecar sk) as [x|]; [|discriminate].
    destruct (N.eqb x dg) eqn:E; [|discriminate]. apply N.eqb_eq in E. now subst.
  Qed.

  Lemma inv_sc_nil d vnum req maxv t oinv oalg odg :
    inv_sc d vnum req maxv t = ([], oinv, oalg, odg) ->
    exists k i, file_tok (d ++ [SInv]) t = Some k /\ parse_inv k = Some i
      /\ oinv = Some i /\ oalg = Some (inv_alg i) /\ odg = Some (digest (inv_alg i) k)
      /\ (exists sk, file_tok (d ++ [SSidecar (inv_alg i)]) t = Some sk
                     /\ parse_sidecar sk = Some (digest (inv_alg i) k))
      /\ (forall r, req = Some r -> r = inv_spec i)
      /\ (forall n, vnum = Some n -> inv_head i = n).
  Proof.
    unfold inv_and_sidecar.
    destruct (file_tok (d ++ [SInv]) t) as [k|] eqn:Ek; [|discriminate].
    destruct (parse_inv k) as [i|] eqn:Ei; [|discriminate].
    set (e_type := match req with Some r => _ | None => _ end).
    set (e_head := match vnum with Some n => _ | None => _ end).
    intros H. injection H as He Hoinv Hoalg Hodg.
    apply app_eq_nil in He as [He Hsc].
    rewrite He in *. cbn [nilb] in *.
    subst oinv. subst oalg.
    apply app_eq_nil in He as [Hty Hhd].
    exists k, i. split; [reflexivity|]. split; [assumption|]. split; [reflexivity|]. split; [reflexivity|].
    split; [|split; [|split]].
    - destruct (file_tok (d ++ [SSidecar (inv_alg i)]) t) as [sk|] eqn:Esk; [|discriminate].
      assert (M : mem_alg (inv_alg i) (sidecar_algs d t) = true).
      { apply mem_alg_In. unfold sidecar_algs. apply filter_In. split.
        - destruct (inv_alg i); cbn; tauto.
        - apply has_file_true. now exists sk. }
      rewrite M in Hodg. now subst odg.
    - destruct (file_tok (d ++ [SSidecar (inv_alg i)]) t) as [sk|] eqn:Esk; [|discriminate].
      exists sk. split; [reflexivity|].
      assert (M : mem_alg (inv_alg i) (sidecar_algs d t) = true).
      { apply mem_alg_In. unfold sidecar_algs. apply filter_In. split.
        - destruct (inv_alg i); cbn; tauto.
        - apply has_file_true. now exists sk. }
      rewrite M in Hsc. now apply sidecar_errors_nil.
    - intros r ->. subst e_type. cbn in Hty.
      destruct (spec_eqb r (inv_spec i)) eqn:E; [|discriminate]. now apply spec_eqb_eq.
    - intros n ->. subst e_head. cbn in Hhd.
      destruct (N.eqb (inv_head i) n) eqn:E; [|discriminate]. now apply N.eqb_eq.
  Qed.

  Lemma identify_spec_Some t v :
    identify_spec t = Some v -> exists k, file_tok [SDecl v] t = Some k.
  Proof.
    unfold identify_spec.
    destruct (has_file [] (SDecl V10) t) eqn:E0.
    - intros H. injection H as <-. apply has_file_true in E0. exact E0.
    - destruct (has_file [] (SDecl V11) t) eqn:E1; [|discriminate].
      intros H. injection H as <-. apply has_file_true in E1. exact E1.
  Qed.

  Lemma namaste_nil t :
    namaste_errors parse_decl t = [] ->
    exists v dk, identify_spec t = Some v /\ file_tok [SDecl v] t = Some dk /\ parse_decl dk = Some v.
  Proof.
    unfold namaste_errors. destruct (identify_spec t) as [v|]; [|discriminate].
    destruct (file_tok [SDecl v] t) as [dk|] eqn:Ef; [|discriminate].
    destruct (parse_decl dk) as [v'|] eqn:E; cbn; [|discriminate].
    destruct (spec_eqb v' v) eqn:E2; [|discriminate]. apply spec_eqb_eq in E2. subst.
    intros _. now exists v, dk.
  Qed.

  Lemma root_entry_nil root v k s :
    root_entry_errors (Some v) (Some root) (Some (inv_alg root)) (k, s) = [] ->
    (k = KFile /\ (s = SDecl v \/ s = SInv \/ s = SSidecar (inv_alg root)))
    \/ (k = KDir /\ (s = SLogs \/ s = SExt \/ is_vdir root s)).
  Proof.
    unfold root_entry_errors, is_vdir.
    destruct k, s; cbn; try discriminate; intros H.
    - destruct (spec_eqb v0 v) eqn:E; [|discriminate]. apply spec_eqb_eq in E. subst. left. tauto.
    - left. tauto.
    - destruct (alg_eqb a (inv_alg root)) eqn:E; [|discriminate]. apply alg_eqb_eq in E. subst. left. tauto.
    - destruct (N.eqb w (inv_pad root) && in_versions root n) eqn:E; [|discriminate].
      apply andb_true_iff in E as [E1 E2]. apply N.eqb_eq in E1. subst.
      right. split; [reflexivity|]. right. right. now exists n.
    - right. tauto.
    - right. tauto.
  Qed.

  Lemma root_contents_nil t v root :
    root_contents_errors t (Some v) (Some root) (Some (inv_alg root)) = [] ->
    (forall q n s r, In (q, n) t -> q = s :: r ->
       match r with
       | [] => (exists k, n = File k /\ (s = SDecl v \/ s = SInv \/ s = SSidecar (inv_alg root)))
               \/ (n = Dir /\ (s = SLogs \/ s = SExt \/ is_vdir root s))
       | _ :: _ => s = SLogs \/ s = SExt \/ is_vdir root s
       end)
    /\ (forall m, in_versions root m = true -> has_dir [] (SVer (inv_pad root) m) t = true).
  Proof.
    unfold root_contents_errors. intros H.
    apply app_eq_nil in H as [H1 H]. apply app_eq_nil in H as [H2 _].
    split.
    - intros q n s r Hin ->. rewrite flat_map_nil in H1.
      destruct r as [|s2 r].
      + assert (L : In (node_kind n, s) (list_dir [] t)).
        { apply list_dir_In. exists [s], n. split; [assumption|]. right. left. now split. }
        apply H1 in L. apply root_entry_nil in L.
        destruct L as [[Hk Hs]|[Hk Hs]].
        * left. destruct n; try discriminate. now exists tok.
        * right. destruct n; try discriminate. now split.
      + assert (L : In (KDir, s) (list_dir [] t)).
        { apply list_dir_In. exists (s :: s2 :: r), n. split; [assumption|]. right. right. now exists s2, r. }
        apply H1 in L. apply root_entry_nil in L.
        destruct L as [[Hk _]|[_ Hs]]; [discriminate | assumption].
    - intros m Hm. rewrite flat_map_nil in H2. apply vnums_In in Hm. apply H2 in Hm.
      destruct (has_dir [] (SVer (inv_pad root) m) t); [reflexivity | discriminate].
  Qed.

  Lemma content_files_In root t m r k :
    in_versions root m = true -> In (content_root root m ++ r, File k) t ->
    In (m, content_root root m ++ r) (content_files root t).
  Proof.
    intros Hm Hin. unfold content_files. apply in_flat_map. exists m. split; [now apply vnums_In|].
    apply in_flat_map. exists (KFile, r). split.
    - apply list_rec_In. exists (File k). split; [assumption|]. split; [reflexivity|discriminate].
    - cbn. now left.
  Qed.

  Lemma content_files_inv root t m p :
    In (m, p) (content_files root t) ->
    in_versions root m = true /\ exists r k, p = content_root root m ++ r /\ In (p, File k) t.
  Proof.
    unfold content_files. intros H. apply in_flat_map in H as [m' [Hm H]].
    apply in_flat_map in H as [[kd r] [Hr H]]. cbn [fst snd] in H.
    destruct kd; cbn in H; try (now destruct H). destruct H as [H|[]]. injection H as -> <-.
    split; [now apply vnums_In|].
    apply list_rec_In in Hr as (n & Hin & Hk & _).
    destruct n; try discriminate. now exists r, tok.
  Qed.

  Lemma content_nil root t :
    content_errors root t = [] ->
    forall q n m s r, In (q, n) t -> in_versions root m = true ->
      q = content_root root m ++ s :: r -> exists k, n = File k.
  Proof.
    unfold content_errors. intros H q n m s r Hin Hm ->.
    rewrite flat_map_nil in H. apply vnums_In in Hm. specialize (H m Hm).
    rewrite flat_map_nil in H.
    assert (L : In (node_kind n, s :: r) (list_rec (content_root root m) t)).
    { apply list_rec_In. exists n. split; [assumption|]. split; [reflexivity|discriminate]. }
    apply H in L. cbn [fst] in L. destruct n; try discriminate. now exists tok.
  Qed.

  Lemma manifest_nil i cfs root invs :
    manifest_errors i cfs root invs = [] ->
    (forall m p, In (m, p) cfs -> m <= inv_head i -> exists d, mdigest (inv_manifest i) p = Some d)
    /\ (forall d p, In (d, p) (inv_manifest i) -> exists m, In (m, p) cfs /\ m <= inv_head i).
  Proof.
    unfold manifest_errors. intros H.
    apply app_eq_nil in H as [H1 H]. apply app_eq_nil in H as [H2 _].
    split.
    - intros m p Hin Hm. rewrite flat_map_nil in H1.
      assert (L : In (m, p) (filter (fun vp => fst vp <=? inv_head i) cfs)).
      { apply filter_In. split; [assumption|]. cbn. now apply N.leb_le. }
      apply H1 in L. cbn [snd] in L.
      destruct (mdigest (inv_manifest i) p) as [d|]; [now exists d | discriminate].
    - intros d p Hin. rewrite flat_map_nil in H2. apply H2 in Hin. cbn [snd] in Hin.
      destruct (mem_path p _) eqn:E; [|discriminate].
      apply mem_path_In in E. apply in_map_iff in E as [[m p'] [Ep Hf]]. cbn in Ep. subst p'.
      apply filter_In in Hf as [Hf Hle]. cbn in Hle. apply N.leb_le in Hle. now exists m.
  Qed.

  Lemma version_contents_nil t vd cdir a :
    version_contents_errors t vd cdir a = [] ->
    forall q n s, In (q, n) t -> q = vd ++ [s] ->
      n = Dir \/ exists k, n = File k /\ (s = SInv \/ s = SSidecar a).
  Proof.
    unfold version_contents_errors. intros H q n s Hin ->. rewrite flat_map_nil in H.
    assert (L : In (node_kind n, s) (list_dir vd t)).
    { apply list_dir_In. exists (vd ++ [s]), n. split; [assumption|]. right. left. now split. }
    apply H in L.
    destruct n; cbn in L; try discriminate.
    - now left.
    - right. exists tok. split; [reflexivity|].
      destruct s; try discriminate.
      + now left.
      + destruct (alg_eqb a a0) eqn:E; [|discriminate]. apply alg_eqb_eq in E. subst. now right.
  Qed.

  Lemma head_version_nil t root dg :
    head_version_errors digest parse_sidecar t root dg = [] ->
    (forall k, file_tok (version_dir root (inv_head root) ++ [SInv]) t = Some k ->
        digest (inv_alg root) k = dg
        /\ exists sk, file_tok (version_dir root (inv_head root) ++ [SSidecar (inv_alg root)]) t = Some sk
                      /\ parse_sidecar sk = Some (digest (inv_alg root) k))
    /\ version_contents_errors t (version_dir root (inv_head root)) (inv_cdir root) (inv_alg root) = [].
  Proof.
    unfold head_version_errors. intros H. apply app_eq_nil in H as [H1 H2].
    split; [|assumption].
    intros k Hk. rewrite Hk in H1. apply app_eq_nil in H1 as [Ha Hb].
    split.
    - destruct (N.eqb (digest (inv_alg root) k) dg) eqn:E; [|discriminate]. now apply N.eqb_eq.
    - destruct (file_tok _ t) as [sk|]; [|discriminate].
      exists sk. split; [reflexivity|]. now apply sidecar_errors_nil.
  Qed.

  Notation verr := (version_errors digest parse_inv parse_sidecar).
  Notation vloop := (versions_loop digest parse_inv parse_sidecar).

  Lemma version_errors_nil t root invs maxv cfs n :
    fst (verr t root invs maxv cfs n) = [] ->
    (forall k, file_tok (version_dir root n ++ [SInv]) t = Some k ->
       exists i, parse_inv k = Some i
         /\ exists sk, file_tok (version_dir root n ++ [SSidecar (inv_alg i)]) t = Some sk
                       /\ parse_sidecar sk = Some (digest (inv_alg i) k))
    /\ (forall q nd s, In (q, nd) t -> q = version_dir root n ++ [s] ->
          nd = Dir \/ exists k, nd = File k /\
             (s = SInv \/ exists a, s = SSidecar a /\
                (a = inv_alg root \/ exists k i, file_tok (version_dir root n ++ [SInv]) t = Some k
                                                 /\ parse_inv k = Some i /\ a = inv_alg i))).
  Proof.
    unfold version_errors.
    destruct (has_file (version_dir root n) SInv t) eqn:Ehf.
    - destruct (inv_sc (version_dir root n) (Some n) None maxv t) as [[[e oinv] oalg] odg] eqn:EI.
      destruct oinv as [i|].
      + cbn [fst]. intros H. apply app_eq_nil in H as [H Hvc].
        apply app_eq_nil in H as [He _]. subst e.
        destruct (inv_sc_nil _ _ _ _ _ _ _ _ EI) as (k & i' & Hk & Hp & Hi & _ & _ & Hsc & _ & _).
        injection Hi as <-.
        split.
        * intros k' Hk'. rewrite Hk in Hk'. injection Hk' as <-. now exists i.
        * intros q nd s Hin Hq. destruct (version_contents_nil _ _ _ _ Hvc q nd s Hin Hq) as [Hd|[k0 [Hf Hs]]].
          -- now left.
          -- right. exists k0. split; [assumption|]. destruct Hs as [->| ->]; [now left|].
             right. exists (inv_alg i). split; [reflexivity|]. right. now exists k, i.
      + cbn [fst]. intros H. apply app_eq_nil in H as [He Hvc]. subst e.
        destruct (inv_sc_nil _ _ _ _ _ _ _ _ EI) as (k & i' & _ & _ & Hi & _). discriminate.
    - cbn [fst app]. intros Hvc. split.
      + intros k Hk. exfalso.
        assert (X : has_file (version_dir root n) SInv t = true) by (apply has_file_true; now exists k).
        congruence.
      + intros q nd s Hin Hq. destruct (version_contents_nil _ _ _ _ Hvc q nd s Hin Hq) as [Hd|[k0 [Hf Hs]]].
        * now left.
        * right. exists k0. split; [assumption|]. destruct Hs as [->| ->]; [now left|].
          right. exists (inv_alg root). split; [reflexivity|]. now left.
  Qed.

  Lemma versions_loop_nil t root cfs ns : forall invs maxv,
    fst (vloop t root cfs ns invs maxv) = [] ->
    forall n, In n ns -> exists invs' maxv', fst (verr t root invs' maxv' cfs n) = [].
  Proof.
    induction ns as [|n0 ns IH]; intros invs maxv H n Hn; [destruct Hn|].
    cbn [versions_loop] in H.
    destruct (verr t root invs maxv cfs n0) as [e oinv] eqn:EV.
    match type of H with context [vloop t root cfs ns ?I ?M] =>
      destruct (vloop t root cfs ns I M) as [e' invs''] eqn:EL; pose proof (IH I M) as IH' end.
    cbn [fst] in H. apply app_eq_nil in H as [He He'].
    destruct Hn as [<-|Hn].
    - exists invs, maxv. now rewrite EV.
    - apply IH'; [|assumption]. now rewrite EL.
  Qed.

  Lemma desc_In {A} (l : list A) m : In m (desc l) <-> 1 <= m <= nlength l.
  Proof.
    induction l as [|x l IH]; cbn [desc nlength In].
    - lia.
    - rewrite IH. lia.
  Qed.

  Lemma older_In root m :
    In m (older root) <-> in_versions root m = true /\ m <> inv_head root.
  Proof.
    unfold older, in_versions, inv_head. rewrite desc_In, andb_true_iff, !N.leb_le.
    destruct (inv_versions root) as [|x l]; cbn [tl nlength]; lia.
  Qed.

  (** a version inventory with the root's algorithm records the root's digests *)
  Definition agrees (root i : inventory) : Prop :=
    inv_alg i = inv_alg root ->
    forall p di d, mdigest (inv_manifest i) p = Some di -> mdigest (inv_manifest root) p = Some d -> di = d.

  Lemma manifest_nil_agrees i cfs root invs :
    manifest_errors i cfs root invs = [] -> agrees root i.
  Proof.
    intros H Ha p di d Hi Hr.
    pose proof H as H0.
    apply manifest_nil in H as [_ H2].
    destruct (H2 di p (mdigest_In _ _ _ Hi)) as [m [Hin Hm]].
    unfold manifest_errors in H0. apply app_eq_nil in H0 as [H1 _].
    rewrite flat_map_nil in H1.
    assert (L : In (m, p) (filter (fun vp => fst vp <=? inv_head i) cfs)).
    { apply filter_In. split; [assumption|]. cbn. now apply N.leb_le. }
    apply H1 in L. cbn [snd] in L. rewrite Hi in L.
    rewrite Ha, alg_eqb_refl, Hr in L.
    destruct (N.eqb d di) eqn:E; [|discriminate]. apply N.eqb_eq in E. now subst.
  Qed.

  Lemma assoc_alg_In {A} a (l : list (alg * A)) x : assoc_alg a l = Some x -> In (a, x) l.
  Proof.
    induction l as [|[b y] l IH]; cbn; [discriminate|].
    destruct (alg_eqb a b) eqn:E.
    - apply alg_eqb_eq in E. intros H. injection H as ->. subst. now left.
    - intros H. right. now apply IH.
  Qed.

  Lemma version_errors_agrees t root invs maxv cfs n i :
    verr t root invs maxv cfs n = ([], Some i) -> agrees root i.
  Proof.
    unfold version_errors.
    destruct (has_file (version_dir root n) SInv t).
    - destruct (inv_sc (version_dir root n) (Some n) None maxv t) as [[[e oinv] oalg] odg].
      destruct oinv as [i'|].
      + intros H. injection H as H ->.
        apply app_eq_nil in H as [H _]. do 5 (apply app_eq_nil in H as [_ H]).
        now apply manifest_nil_agrees in H.
      + intros H. discriminate.
    - intros H. discriminate.
  Qed.

  Lemma versions_loop_agrees t root cfs ns : forall invs maxv,
    fst (vloop t root cfs ns invs maxv) = [] ->
    (forall a i, In (a, i) invs -> a = inv_alg i /\ agrees root i) ->
    forall a i, In (a, i) (snd (vloop t root cfs ns invs maxv)) -> a = inv_alg i /\ agrees root i.
  Proof.
    induction ns as [|n0 ns IH]; intros invs maxv H Hinv; [exact Hinv|].
    cbn [versions_loop] in *.
    destruct (verr t root invs maxv cfs n0) as [e oinv] eqn:EV.
    match goal with |- context [vloop t root cfs ns ?I ?M] =>
      destruct (vloop t root cfs ns I M) as [e' invs''] eqn:EL; pose proof (IH I M) as IH' end.
    rewrite EL in IH'. cbn [fst snd] in *. apply app_eq_nil in H as [He He']. subst e.
    apply IH'; [assumption|].
    intros a i Hin. destruct oinv as [i0|]; [|now apply Hinv].
    destruct (assoc_alg (inv_alg i0) invs); [now apply Hinv|].
    apply in_app_iff in Hin as [Hin|[Hin|[]]]; [now apply Hinv|].
    injection Hin as <- <-. split; [reflexivity|]. eapply version_errors_agrees; eassumption.
  Qed.

  Lemma fixity_nil t root invs cfs :
    fixity_errors digest fdigest t root invs cfs = [] ->
    (forall a i, In (a, i) invs -> a = inv_alg i /\ agrees root i) ->
    forall m p k d, In (m, p) cfs -> m <= inv_head root ->
      file_tok p t = Some k -> mdigest (inv_manifest root) p = Some d ->
      digest (inv_alg root) k = d.
  Proof.
    unfold fixity_errors. intros H Hinv m p k d Hin Hm Hk Hd.
    rewrite flat_map_nil in H.
    assert (L : In (m, p) (filter (fun vp => fst vp <=? inv_head root) cfs)).
    { apply filter_In. split; [assumption|]. cbn. now apply N.leb_le. }
    apply H in L. cbn [snd] in L. rewrite Hd, Hk in L.
    apply app_eq_nil in L as [L _]. rewrite flat_map_nil in L.
    specialize (L (inv_alg root)).
    assert (X : In (inv_alg root) [Sha512; Sha256]) by (destruct (inv_alg root); cbn; tauto).
    apply L in X. rewrite alg_eqb_refl in X.
    destruct (assoc_alg (inv_alg root) invs) as [i|] eqn:Ea.
    - apply assoc_alg_In in Ea. apply Hinv in Ea as [Ea Hag].
      destruct (mdigest (inv_manifest i) p) as [x|] eqn:Ex.
      + assert (x = d) by (eapply Hag; eauto). subst x.
        destruct (N.eqb (digest (inv_alg root) k) d) eqn:E; [|discriminate]. now apply N.eqb_eq.
      + destruct (N.eqb (digest (inv_alg root) k) d) eqn:E; [|discriminate]. now apply N.eqb_eq.
    - destruct (N.eqb (digest (inv_alg root) k) d) eqn:E; [|discriminate]. now apply N.eqb_eq.
  Qed.

  (** ** the whole validator *)

  Theorem errors_nil_accepted fx t :
    errs fx t = [] -> exists itok root, accepted fx t itok root.
  Proof.
    unfold tree_errors.
    destruct (nilb (list_dir [] t)); [discriminate|].
    destruct (inv_sc [] None (identify_spec t) None t) as [[[e_i oinv] oalg] odg] eqn:EI.
    destruct (nilb (namaste_errors parse_decl t ++ e_i)) eqn:E1.
    2:{ intros H. rewrite H in E1. discriminate. }
    apply nilb_true in E1. apply app_eq_nil in E1 as [En Ei]. subst e_i.
    destruct (inv_sc_nil _ _ _ _ _ _ _ _ EI) as (itok & root & Hk & Hp & -> & -> & -> & Hsc & Hreq & _).
    destruct (namaste_nil _ En) as (v & dk & Hid & Hdk & Hpd).
    rewrite Hid in *. specialize (Hreq v eq_refl). subst v.
    intros H. apply app_eq_nil in H as [Hrc H].
    apply app_eq_nil in H as [Hce H]. apply app_eq_nil in H as [Hme H]. apply app_eq_nil in H as [Hhe H].
    destruct (vloop t root (content_files root t) (older root) [] (Some (inv_spec root))) as [ev invs] eqn:EL.
    apply app_eq_nil in H as [Hev Hfx].
    apply root_contents_nil in Hrc as [Hroot Hvd].
    pose proof (content_nil _ _ Hce) as Hcont.
    pose proof (manifest_nil _ _ _ _ Hme) as [Hm1 Hm2].
    apply head_version_nil in Hhe as [Hhead Hhvc].
    assert (Hloop : forall n, In n (older root) -> exists invs' maxv',
               fst (verr t root invs' maxv' (content_files root t) n) = []).
    { apply (versions_loop_nil t root (content_files root t) (older root) [] (Some (inv_spec root))).
      now rewrite EL. }
    exists itok, root. constructor.
    - now split.
    - exact Hsc.
    - now exists dk.
    - intros q n s r Hin Hq. unfold root_slot. exact (Hroot q n s r Hin Hq).
    - exact Hvd.
    - intros q n m s r Hin Hm Hq.
      destruct (Hcont q n m s r Hin Hm Hq) as [k ->]. subst q.
      pose proof (content_files_In root t m (s :: r) k Hm Hin) as Hcf.
      assert (Hle : m <= inv_head root).
      { unfold in_versions in Hm. apply andb_true_iff in Hm as [_ Hm]. now apply N.leb_le. }
      destruct (Hm1 _ _ Hcf Hle) as [d Hd]. now exists k, d.
    - intros Hfxt q m s r k0 k d Hin Hm Hq Hft Hd. subst fx q.
      pose proof (content_files_In root t m (s :: r) k0 Hm Hin) as Hcf.
      assert (Hle : m <= inv_head root).
      { unfold in_versions in Hm. apply andb_true_iff in Hm as [_ Hm]. now apply N.leb_le. }
      eapply (fixity_nil t root invs (content_files root t) Hfx); eauto.
      assert (X : invs = snd (vloop t root (content_files root t) (older root) [] (Some (inv_spec root))))
        by now rewrite EL.
      rewrite X. apply versions_loop_agrees.
      + now rewrite EL.
      + intros a i [].
    - intros d p Hin. destruct (Hm2 d p Hin) as [m [Hcf _]].
      apply content_files_inv in Hcf as [_ (r & k & _ & Hk')]. now exists k.
    - intros q n m s Hin Hm Hq.
      destruct (N.eq_dec m (inv_head root)) as [->|Hne].
      + destruct (version_contents_nil _ _ _ _ Hhvc q n s Hin Hq) as [Hd|[k [Hf Hs]]]; [now left|].
        right. exists k. split; [assumption|]. destruct Hs as [->| ->]; [now left|].
        right. exists (inv_alg root). split; [reflexivity|]. now left.
      + destruct (Hloop m) as (invs' & maxv' & Hv); [apply older_In; now split|].
        apply version_errors_nil in Hv as [_ Hv].
        destruct (Hv q n s Hin Hq) as [Hd|[k [Hf Hs]]]; [now left|].
        right. exists k. split; [assumption|]. destruct Hs as [->|[a [-> Ha]]]; [now left|].
        right. exists a. split; [reflexivity|]. destruct Ha as [->|(k1 & i1 & Hk1 & Hp1 & ->)].
        * now left.
        * right. split; [assumption|]. now exists k1, i1.
    - intros m k Hm Hne Hk'.
      destruct (Hloop m) as (invs' & maxv' & Hv); [apply older_In; now split|].
      apply version_errors_nil in Hv as [Hv _]. now apply Hv.
    - intros k Hk'. now apply Hhead.
  Qed.
End Facts.
