(** C17: lemmas about the models of Model/VCode.v *)
From Rocfl Require Import Base.Bytes Model.VersionNum Model.VCode Model.KnownC17 Proofs.BytesFacts.
From Coq Require Import ZArith Lia ZifyBool ZifyN ZifyNat.
Ltac Zify.zify_post_hook ::= Z.div_mod_to_equations.
Open Scope N_scope.
Arguments N.add : simpl never.
Arguments N.mul : simpl never.
Arguments N.sub : simpl never.
Arguments N.pow : simpl never.
Arguments N.ltb : simpl never.
Arguments N.leb : simpl never.
Arguments N.eqb : simpl never.
Arguments N.max : simpl never.
Arguments N.of_nat : simpl never.

(* ------------------------------------------------------------------ *)
(** * 1. validate_version_nums *)

Lemma vnext_w0 dbg n : n < U32MAX -> vnext dbg (mkV n 0) = Ok (mkV (n + 1) 0).
Proof.
  intros H. unfold vnext. cbn [vn_width vn_number].
  replace (0 =? 0) with true by reflexivity. cbn [res_bind].
  unfold u32_op. replace (n + 1 <=? U32MAX) with true by lia. cbn [res_bind].
  replace (U32MAX <? n + 1) with false by lia. reflexivity.
Qed.

Lemma nlen_cons {A} (a : A) l : nlen (a :: l) = nlen l + 1.
Proof. unfold nlen. cbn [List.length]. lia. Qed.

Lemma nlen_nil {A} : nlen (@nil A) = 0.
Proof. reflexivity. Qed.

(** the while loop: with fuel for the distance it ends at the target, having
    emitted exactly one error per missing number *)
Lemma gap_loop_exact dbg fuel : forall n target cost,
  target <= U32MAX -> target - n <= N.of_nat fuel ->
  gap_loop dbg fuel (mkV n 0) target cost = Ok (mkV (N.max n target) 0, cost + (target - n)).
Proof.
  induction fuel as [|f IH]; intros n target cost Ht Hf.
  - change (N.of_nat 0) with 0 in Hf. cbn [gap_loop vn_number]. destruct (n <? target) eqn:E; [exfalso; lia|].
    f_equal; f_equal; [f_equal; lia | lia].
  - rewrite Nat2N.inj_succ in Hf. cbn [gap_loop vn_number]. destruct (n <? target) eqn:E.
    + rewrite vnext_w0 by lia. cbn [unwrap]. rewrite IH by lia.
      f_equal; f_equal; [f_equal; lia | lia].
    + f_equal; f_equal; [f_equal; lia | lia].
Qed.

(** exactness of the closed form, all lists (sorted or not), both build modes *)
Lemma vnums_go_exact dbg fuel : forall vs n cost,
  n + nlen vs <= U32MAX ->
  Forall (fun v => vn_number v + nlen vs < U32MAX /\ vn_number v <= N.of_nat fuel) vs ->
  vnums_go dbg fuel vs (mkV n 0) cost = Ok (vnums_fast (map vn_number vs) n cost).
Proof.
  induction vs as [|v rest IH]; intros n cost Hn Hall.
  - reflexivity.
  - inversion Hall as [|? ? [Hv Hfu] Hrest]; subst.
    rewrite nlen_cons in *.
    cbn [vnums_go map vnums_fast vn_number].
    assert (Hg : (if negb (vn_number v =? n) then gap_loop dbg fuel (mkV n 0) (vn_number v) cost
                  else Ok (mkV n 0, cost))
                 = Ok (mkV (N.max n (vn_number v)) 0, cost + (vn_number v - n))).
    { destruct (vn_number v =? n) eqn:E; cbn [negb].
      - f_equal; f_equal; [f_equal; lia | lia].
      - apply gap_loop_exact; lia. }
    rewrite Hg. rewrite vnext_w0 by lia. cbn [unwrap].
    apply IH; [lia|].
    eapply Forall_impl; [|exact Hrest]. cbn beta. intros a [Ha Hb]. split; lia.
Qed.

Lemma validate_version_nums_exact dbg fuel vs :
  1 + nlen vs <= U32MAX ->
  Forall (fun v => vn_number v + nlen vs < U32MAX /\ vn_number v <= N.of_nat fuel) vs ->
  validate_version_nums dbg fuel vs = Ok (vnums_cost (map vn_number vs)).
Proof. intros. unfold validate_version_nums, vn_v1, vnums_cost. now apply vnums_go_exact. Qed.

Fixpoint nsum (l : list N) : N := match l with [] => 0 | x :: r => x + nsum r end.

(** cost = sum of the gaps *)
Lemma vnums_fast_sum : forall vs next cost,
  vnums_fast vs next cost = cost + nsum (vnums_gaps vs next).
Proof.
  induction vs as [|v r IH]; intros next cost; cbn [vnums_fast vnums_gaps nsum]; [lia|].
  rewrite IH. lia.
Qed.

Lemma vnums_fast_ge : forall vs next cost, cost <= vnums_fast vs next cost.
Proof. intros. rewrite vnums_fast_sum. lia. Qed.

(** strictly ascending lists whose first element is at least [next]
    (the iteration order of the BTreeSet when [next] = 1) *)
Fixpoint incr_from (next : N) (vs : list N) : Prop :=
  match vs with [] => True | v :: r => next <= v /\ incr_from (v + 1) r end.

Lemma vnums_fast_sorted : forall vs next cost, incr_from next vs -> vs <> [] ->
  vnums_fast vs next cost + nlen vs + next = cost + last vs 0 + 1.
Proof.
  induction vs as [|v r IH]; intros next cost Hs Hne; [congruence|].
  destruct Hs as [Hle Hr]. cbn [vnums_fast]. rewrite nlen_cons.
  destruct r as [|w r'].
  - cbn [vnums_fast last]. rewrite nlen_nil. lia.
  - assert (Hne' : w :: r' <> []) by discriminate.
    specialize (IH (N.max next v + 1) (cost + (v - next))).
    replace (N.max next v + 1) with (v + 1) in * by lia.
    specialize (IH Hr Hne').
    change (last (v :: w :: r') 0) with (last (w :: r') 0). lia.
Qed.

(** for the versions block of an inventory: errors = highest number - number of keys *)
Lemma vnums_cost_sorted vs : incr_from 1 vs -> vs <> [] ->
  vnums_cost vs = last vs 0 - nlen vs.
Proof.
  intros Hs Hne. unfold vnums_cost.
  assert (H := vnums_fast_sorted vs 1 0 Hs Hne). lia.
Qed.

(** linear bound when every gap is bounded *)
Lemma vnums_fast_linear B : forall vs next cost,
  existsb (fun g => B <? g) (vnums_gaps vs next) = false ->
  vnums_fast vs next cost <= cost + B * nlen vs.
Proof.
  induction vs as [|v r IH]; intros next cost H; cbn [vnums_fast vnums_gaps existsb] in *.
  - rewrite nlen_nil. lia.
  - rewrite nlen_cons. apply Bool.orb_false_iff in H as [H1 H2].
    specialize (IH _ (cost + (v - next)) H2). lia.
Qed.

Lemma vnums_cost_linear_outside_class vs :
  c17_version_gap vs = false -> vnums_cost vs <= GAP_BOUND * nlen vs.
Proof. intros H. unfold vnums_cost. apply (vnums_fast_linear GAP_BOUND vs 1 0 H). Qed.

(** no constant works for the pinned code: one key costs as much as its number *)
Lemma vnums_cost_single c : vnums_cost [c + 2] = c + 1.
Proof. unfold vnums_cost. cbn [vnums_fast]. lia. Qed.

Lemma vnums_loop_single dbg fuel c : c + 3 < U32MAX -> c + 2 <= N.of_nat fuel ->
  validate_version_nums dbg fuel [mkV (c + 2) 0] = Ok (c + 1).
Proof.
  intros H1 H2. rewrite validate_version_nums_exact.
  - cbn [map vn_number]. now rewrite vnums_cost_single.
  - rewrite nlen_cons, nlen_nil. unfold U32MAX in *. lia.
  - constructor; [|constructor]. cbn [vn_number]. rewrite nlen_cons, nlen_nil. split; lia.
Qed.

Lemma vnums_cost_not_linear c : c + 3 < U32MAX ->
  exists vs, nlen vs = 1 /\ incr_from 1 vs /\ c * nlen vs < vnums_cost vs /\
    forall dbg fuel, last vs 0 <= N.of_nat fuel ->
      validate_version_nums dbg fuel (map (fun n => mkV n 0) vs) = Ok (vnums_cost vs).
Proof.
  intros H. exists [c + 2]. rewrite vnums_cost_single. repeat split.
  - cbn [incr_from]. lia.
  - rewrite nlen_cons, nlen_nil. lia.
  - intros dbg fuel Hf. cbn [map last] in *. now apply vnums_loop_single.
Qed.

Lemma v400000000_witness :
  vnums_cost [400000000] = 399999999 /\ c17_version_gap [400000000] = true /\
  forall dbg fuel, 400000000 <= N.of_nat fuel ->
    validate_version_nums dbg fuel [mkV 400000000 0] = Ok 399999999.
Proof.
  split; [vm_compute; reflexivity|]. split; [vm_compute; reflexivity|].
  intros dbg fuel Hf. apply (vnums_loop_single dbg fuel 399999998); unfold U32MAX; lia.
Qed.

(** no E010 from the loop: the keys are exactly next, next+1, ... *)
Fixpoint iota (next : N) (k : nat) : list N :=
  match k with O => [] | S j => next :: iota (next + 1) j end.

Lemma vnums_zero_contiguous : forall vs next cost, incr_from next vs ->
  vnums_fast vs next cost = cost -> vs = iota next (List.length vs).
Proof.
  induction vs as [|v r IH]; intros next cost Hs H; [reflexivity|].
  destruct Hs as [Hle Hr]. cbn [vnums_fast] in H.
  assert (Hge := vnums_fast_ge r (N.max next v + 1) (cost + (v - next))).
  assert (v = next) by lia. subst v.
  cbn [List.length iota]. f_equal.
  apply (IH (next + 1) (cost + (next - next))); [exact Hr|].
  replace (N.max next next + 1) with (next + 1) in H by lia. lia.
Qed.

Lemma iota_lookup : forall k next j, (j < k)%nat -> nth j (iota next k) 0 = next + N.of_nat j.
Proof.
  induction k as [|k IH]; intros next j Hj; [lia|].
  destruct j as [|j]; cbn [iota nth]; [lia|]. rewrite IH by lia. lia.
Qed.

(* ------------------------------------------------------------------ *)
(** * 2. The inventory visitor: what is checked before Inventory::new(..).unwrap() *)

Lemma has_errors_app a c : has_errors (a ++ c) = has_errors a || has_errors c.
Proof. unfold has_errors. apply existsb_app. Qed.

Lemma has_errors_opt c code : has_errors (opt_err c code) = c.
Proof. destruct c; reflexivity. Qed.

Lemma has_errors_add c st : has_errors (p_errs (add c st)) = true.
Proof. unfold add. cbn [p_errs]. rewrite has_errors_app. cbn. apply Bool.orb_true_r. Qed.

(** a versions block read without any recorded error: every numbered key has a version *)
Lemma versions_fold_ok : forall l nums keys e nums' keys' e',
  versions_fold l nums keys e = (nums', keys', e') -> has_errors e' = false ->
  has_errors e = false /\ (nums = keys -> nums' = keys').
Proof.
  induction l as [|[k body] rest IH]; intros nums keys e nums' keys' e' H He'; cbn [versions_fold] in H.
  - inversion H; subst; auto.
  - destruct (vparse k) as [num| |]; destruct body;
      apply IH in H; try assumption; destruct H as [He Hk];
      rewrite ?has_errors_app in He; cbn in He; rewrite ?Bool.orb_true_r in He; try discriminate.
    split; [assumption|]. intros ->. now apply Hk.
Qed.

Lemma versions_value_ok l nums keys e :
  versions_value l = (nums, keys, e) -> has_errors e = false -> keys = nums.
Proof.
  unfold versions_value. destruct (versions_fold l [] [] []) as [[n k] e0] eqn:F.
  intros H He. inversion H; subst; clear H.
  assert (He0 : has_errors e0 = false).
  { destruct (fst (vnums_padding nums)); rewrite ?has_errors_app in He;
      repeat (apply Bool.orb_false_iff in He as [He ?]); assumption. }
  destruct (versions_fold_ok _ _ _ _ _ _ _ F He0) as [_ Hk]. symmetry. now apply Hk.
Qed.

Definition pinv (st : pst) : Prop :=
  (forall d, p_cdir st = Some d -> cdir_kind d = None) /\
  (forall a, p_alg st = Some a -> alg_allowed a = true) /\
  (forall nums keys, p_versions st = Some (nums, keys) -> has_errors (p_errs st) = false -> keys = nums) /\
  (f_digest st = true -> has_errors (p_errs st) = true) /\
  (f_head st = true -> has_errors (p_errs st) = true) /\
  (f_manifest st = true -> has_errors (p_errs st) = true) /\
  (f_versions st = true -> has_errors (p_errs st) = true).

Lemma pinv_p0 : pinv p0.
Proof. unfold pinv, p0; cbn. repeat split; intros; discriminate. Qed.

Ltac split_matches :=
  repeat match goal with
         | H : inl _ = inl _ |- _ => inversion H; subst; clear H
         | H : inr _ = inl _ |- _ => discriminate H
         | H : context [match ?x with _ => _ end] |- _ => destruct x eqn:?
         end.

Ltac pinv_case :=
  match goal with
  | Hinv : pinv _ |- pinv _ =>
      unfold pinv, add in *; cbn [p_id p_type p_alg p_head p_cdir p_manifest p_versions p_fixity
                                   f_digest f_head f_manifest f_versions p_errs] in *;
      destruct Hinv as (I1 & I2 & I3 & I4 & I5 & I6 & I7);
      repeat split; intros;
      rewrite ?has_errors_app in *; cbn [has_errors existsb snd N.ltb] in *;
      rewrite ?Bool.orb_true_r, ?Bool.orb_false_r in *;
      try discriminate; try reflexivity; eauto
  end.

Lemma step_inv st it st' : pinv st -> step st it = inl st' -> pinv st'.
Proof.
  intros Hinv H. destruct it; unfold step in H; split_matches; try solve [pinv_case].
  all: pinv_case.
  all: try congruence.
  all: try (match goal with
            | I : ?f = true -> has_errors (p_errs _) = true, H : ?f = true |- _ => rewrite (I H); reflexivity
            end).
  match goal with
  | Hv : versions_value _ = _, Hs : Some _ = Some _, He : _ || _ = false |- _ =>
      inversion Hs; subst; apply Bool.orb_false_iff in He as [_ He]; eapply versions_value_ok; eauto
  end.
Qed.

Lemma step_abort st it e : step st it = inr e -> has_errors e = true.
Proof.
  intros H. destruct it; unfold step in H;
    repeat match goal with
           | H : inr _ = inr _ |- _ => inversion H; subst; clear H
           | H : inl _ = inr _ |- _ => discriminate H
           | H : context [match ?x with _ => _ end] |- _ => destruct x eqn:?
           end;
    apply has_errors_add.
Qed.

Lemma run_inv : forall items st st2, pinv st -> run st items = inl st2 -> pinv st2.
Proof.
  induction items as [|it rest IH]; intros st st2 Hinv H; cbn [run] in H.
  - now inversion H; subst.
  - destruct (step st it) as [st1|e] eqn:S; [|discriminate]. eapply IH; [|exact H]. eapply step_inv; eauto.
Qed.

Lemma run_abort : forall items st e, run st items = inr e -> has_errors e = true.
Proof.
  induction items as [|it rest IH]; intros st e H; cbn [run] in H; [discriminate|].
  destruct (step st it) as [st1|e1] eqn:S.
  - eapply IH; eauto.
  - inversion H; subst. eapply step_abort; eauto.
Qed.

(** the value of the first "id" key *)
Fixpoint first_id (items : list item) : option bytes :=
  match items with
  | [] => None
  | IId (SStr s) :: _ => Some s
  | IId _ :: _ => None
  | _ :: r => first_id r
  end.

Lemma step_id st it st2 : step st it = inl st2 ->
  p_id st2 = match p_id st with
             | Some i => Some i
             | None => match it with IId (SStr s) => Some s | _ => None end
             end.
Proof.
  intros H. destruct it; unfold step in H; split_matches; unfold add; cbn [p_id];
    repeat match goal with H : p_id _ = _ |- _ => rewrite H end; try reflexivity;
    destruct (p_id st); reflexivity.
Qed.

Lemma run_id : forall items st st2, run st items = inl st2 ->
  p_id st2 = match p_id st with Some i => Some i | None => first_id items end.
Proof.
  induction items as [|it rest IH]; intros st st2 H; cbn [run] in H.
  - inversion H; subst. cbn [first_id]. destruct (p_id st2); reflexivity.
  - destruct (step st it) as [st1|e] eqn:S; [|discriminate].
    rewrite (IH _ _ H). rewrite (step_id _ _ _ S).
    destruct (p_id st) eqn:Ei; [reflexivity|].
    destruct it as [v|v|v|v|v|m|v|f|]; try reflexivity.
    destruct v; cbn [first_id]; try reflexivity.
    all: unfold step in S; rewrite Ei in S; discriminate.
Qed.

Lemma blen_zero s : (blen s =? 0) = is_nil s.
Proof. destruct s; unfold blen; cbn [List.length is_nil]; lia. Qed.

Lemma finish_snd st : snd (finish st) = p_errs st ++ final_errs st.
Proof.
  unfold finish. destruct (has_errors (p_errs st ++ final_errs st)); [reflexivity|].
  destruct (p_id st), (p_type st), (p_alg st), (p_head st), (p_manifest st), (p_versions st) as [[? ?]|];
    try reflexivity.
  destruct (unwrap _); reflexivity.
Qed.

(** what IS guarded, check by check: with no recorded error all six Options are Some and every
    check of Inventory::new except the one on the id is implied by an earlier check *)
Lemma finish_args st : pinv st -> has_errors (snd (finish st)) = false ->
  exists id a h nums,
    p_id st = Some id /\ p_type st = true /\ p_alg st = Some a /\ alg_allowed a = true /\
    p_head st = Some h /\ p_manifest st = true /\ p_versions st = Some (nums, nums) /\
    vset_mem h nums = true /\
    (forall d, p_cdir st = Some d -> cdir_kind d = None) /\
    inventory_new id a h (p_cdir st) nums = (if is_nil id then Err else Ok tt).
Proof.
  intros (I1 & I2 & I3 & I4 & I5 & I6 & I7).
  rewrite finish_snd. intros He.
  rewrite has_errors_app in He. apply Bool.orb_false_iff in He as [He0 He].
  unfold final_errs in He. rewrite !has_errors_app, !has_errors_opt in He.
  repeat (apply Bool.orb_false_iff in He as [? He]).
  destruct (p_id st) as [id|] eqn:Eid; [|discriminate].
  destruct (p_type st) eqn:Ety; [|discriminate].
  destruct (p_alg st) as [a|] eqn:Ea.
  2:{ destruct (f_digest st) eqn:Ef; [|discriminate]. rewrite I4 in He0 by reflexivity. discriminate. }
  destruct (p_head st) as [h|] eqn:Eh.
  2:{ destruct (f_head st) eqn:Ef; [|discriminate]. rewrite I5 in He0 by reflexivity. discriminate. }
  destruct (p_manifest st) eqn:Em.
  2:{ destruct (f_manifest st) eqn:Ef; [|discriminate]. rewrite I6 in He0 by reflexivity. discriminate. }
  destruct (p_versions st) as [[nums keys]|] eqn:Ev.
  2:{ destruct (f_versions st) eqn:Ef; [|discriminate]. rewrite I7 in He0 by reflexivity. discriminate. }
  rewrite has_errors_app, !has_errors_opt in He.
  apply Bool.orb_false_iff in He as [Hmem _].
  assert (keys = nums) by (eapply I3; eauto). subst keys.
  assert (Hm : vset_mem h nums = true) by (destruct (vset_mem h nums); [reflexivity|discriminate]).
  exists id, a, h, nums. repeat split; try reflexivity; auto.
  unfold inventory_new. rewrite blen_zero. destruct (is_nil id); [reflexivity|].
  rewrite (I2 a) by reflexivity. cbn [negb].
  assert (Hc : (match p_cdir st with Some d => if cdir_kind d then true else false | None => false end) = false).
  { destruct (p_cdir st) as [d|] eqn:Ec; [|reflexivity]. rewrite (I1 d) by reflexivity. reflexivity. }
  rewrite Hc, Hm. reflexivity.
Qed.

Lemma finish_guarded st : pinv st ->
  (forall i, p_id st = Some i -> c17_blank_id i = false) ->
  has_errors (snd (finish st)) = false -> fst (finish st) = PInv.
Proof.
  intros Hinv Hid He.
  destruct (finish_args st Hinv He) as (id & a & h & nums & E1 & E2 & E3 & _ & E4 & E5 & E6 & _ & _ & Hnew).
  rewrite finish_snd in He. unfold finish. rewrite He, E1, E2, E3, E4, E5, E6, Hnew.
  unfold c17_blank_id in Hid. rewrite (Hid id E1). reflexivity.
Qed.

Lemma visit_guarded items r e : visit items = (r, e) -> has_errors e = false ->
  (forall i, first_id items = Some i -> c17_blank_id i = false) -> r = PInv.
Proof.
  unfold visit. destruct (run p0 items) as [st|ea] eqn:R; intros H He Hid.
  - assert (Hinv := run_inv _ _ _ pinv_p0 R).
    assert (Hi := run_id _ _ _ R). cbn [p0 p_id] in Hi.
    assert (G := finish_guarded st Hinv). rewrite H in G. cbn [fst snd] in G. apply G; [|assumption].
    intros i Hi'. apply Hid. congruence.
  - inversion H; subst. rewrite (run_abort _ _ _ R) in He. discriminate.
Qed.

(** the visitor never panics outside the blank-id class, errors or not *)
Lemma visit_no_panic items :
  (forall i, first_id items = Some i -> c17_blank_id i = false) -> fst (visit items) <> PPanicked.
Proof.
  intros Hid. destruct (visit items) as [r e] eqn:V. cbn [fst].
  destruct (has_errors e) eqn:He.
  - unfold visit in V. destruct (run p0 items) as [st|ea] eqn:R.
    + assert (S := finish_snd st). unfold finish in *. rewrite V in S. cbn [snd] in S.
      rewrite <- S in V. rewrite He in V. inversion V; subst. discriminate.
    + inversion V; subst. discriminate.
  - rewrite (visit_guarded items r e V He Hid). discriminate.
Qed.

Definition ok_tail : list item :=
  [IType (SStr (b "https://ocfl.io/1.0/spec/#inventory")); IAlg (SStr (b "sha512")); IHead (SStr (b "v1"));
   IManifest true; IVersions (Some [(b "v1", true)])].

(** the unguarded case: "id": "" *)
Lemma blank_id_panics :
  fst (visit (IId (SStr []) :: ok_tail)) = PPanicked /\
  has_errors (snd (visit (IId (SStr []) :: ok_tail))) = false /\
  c17_blank_id [] = true.
Proof. repeat split; vm_compute; reflexivity. Qed.

Lemma nonblank_id_ok :
  visit (IId (SStr (b "urn:x")) :: ok_tail) = (PInv, [(E010, 0)]).
Proof. vm_compute. reflexivity. Qed.
