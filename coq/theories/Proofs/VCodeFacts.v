(** C17: lemmas about the models of Model/VCode.v *)
From Rocfl Require Import Base.Bytes Model.VersionNum Model.VCode Model.KnownC17 Proofs.BytesFacts.
From Coq Require Import ZArith Lia ZifyBool ZifyN ZifyNat.
Ltac Zify.zify_post_hook ::= Z.div_mod_to_equations.
Open Scope N_scope.
Arguments N.add : simpl never.
Arguments N.mul : simpl never.
Arguments N.sub : simpl never.
Arguments N.pow : simpl never.
Arguments N.ltb : simpl never.
Arguments N.leb : simpl never.
Arguments N.eqb : simpl never.
Arguments N.max : simpl never.
Arguments N.of_nat : simpl never.

(* ------------------------------------------------------------------ *)
(** * 1. validate_version_nums *)

(** VersionNum::next on an unpadded number (next_version always is one), both build modes *)
Lemma vnext_w0 dbg n :
  vnext dbg (mkV n 0) = if U32MAX <=? n then Err else Ok (mkV (n + 1) 0).
Proof.
  unfold vnext. cbn [vn_width vn_number]. change (0 =? 0) with true. cbn [res_bind].
  destruct (U32MAX <=? n) eqn:E; [reflexivity|].
  unfold u32_op. replace (n + 1 <=? U32MAX) with true by lia. reflexivity.
Qed.

Lemma nlen_cons {A} (a : A) l : nlen (a :: l) = nlen l + 1.
Proof. unfold nlen. cbn [List.length]. lia. Qed.

Lemma nlen_nil {A} : nlen (@nil A) = 0.
Proof. reflexivity. Qed.

(** the inner while loop: with fuel for the distance it ends at the target, having emitted
    exactly one error per missing number; [next().unwrap()] cannot fail below the target *)
Lemma gap_loop_exact dbg fuel : forall n target e i,
  target <= U32MAX -> target - n <= N.of_nat fuel ->
  gap_loop dbg fuel (mkV n 0) target (mkC e i)
  = Ok (mkV (N.max n target) 0, mkC (e + (target - n)) (i + (target - n))).
Proof.
  induction fuel as [|f IH]; intros n target e i Ht Hf.
  - change (N.of_nat 0) with 0 in Hf. cbn [gap_loop vn_number]. destruct (n <? target) eqn:E; [exfalso; lia|].
    f_equal; f_equal; f_equal; lia.
  - rewrite Nat2N.inj_succ in Hf. cbn [gap_loop vn_number]. destruct (n <? target) eqn:E.
    + rewrite vnext_w0. replace (U32MAX <=? n) with false by lia. cbn [unwrap c_errors c_iters].
      rewrite IH by lia. f_equal; f_equal; f_equal; lia.
    + f_equal; f_equal; f_equal; lia.
Qed.

(** the [if next_version < *version] statement: MAX_LISTED units of fuel always suffice *)
Lemma gap_stmt_exact dbg fuel n v e i :
  vn_number v <= U32MAX -> MAX_LISTED <= N.of_nat fuel ->
  gap_stmt dbg fuel (mkV n 0) v (mkC e i)
  = Ok (mkV (N.max n (vn_number v)) 0,
        mkC (e + gap_errors (vn_number v - n)) (i + gap_iters (vn_number v - n))).
Proof.
  intros Hv Hf. unfold gap_stmt, gap_errors, gap_iters. cbn [vn_number vn_width c_errors c_iters].
  destruct (n <? vn_number v) eqn:E.
  - destruct (MAX_LISTED <? vn_number v - n) eqn:G.
    + f_equal; f_equal; f_equal; lia.
    + rewrite gap_loop_exact by lia. reflexivity.
  - replace (vn_number v - n) with 0 by lia.
    replace (MAX_LISTED <? 0) with false by lia.
    f_equal; f_equal; f_equal; lia.
Qed.

(** exactness of the closed form: ALL lists of u32 numbers (sorted or not, any padding), both
    build modes; never a panic, never out of fuel *)
Lemma vnums_go_exact dbg fuel : MAX_LISTED <= N.of_nat fuel -> forall vs n e i,
  Forall (fun v => vn_number v <= U32MAX) vs ->
  vnums_go dbg fuel vs (mkV n 0) (mkC e i) = Ok (vnums_fast (map vn_number vs) n (mkC e i)).
Proof.
  intros Hf. induction vs as [|v rest IH]; intros n e i Hall.
  - reflexivity.
  - inversion Hall as [|? ? Hv Hrest]; subst.
    cbn [vnums_go map vnums_fast c_errors c_iters].
    rewrite gap_stmt_exact by assumption.
    rewrite vnext_w0.
    destruct (U32MAX <=? N.max n (vn_number v)); [reflexivity|].
    apply IH. exact Hrest.
Qed.

Lemma validate_version_nums_exact dbg vs :
  Forall (fun v => vn_number v <= U32MAX) vs ->
  validate_version_nums dbg vs = Ok (vnums_fast (map vn_number vs) 1 c0).
Proof.
  intros H. unfold validate_version_nums, vn_v1, c0. apply vnums_go_exact; [|exact H].
  rewrite N2Nat.id. lia.
Qed.

(** ** the cost is linear in the number of keys, whatever the numbers are *)

Lemma gap_errors_le g : gap_errors g <= N.max 1 MAX_LISTED.
Proof. unfold gap_errors. destruct (MAX_LISTED <? g) eqn:E; lia. Qed.

Lemma gap_iters_le g : gap_iters g <= MAX_LISTED.
Proof. unfold gap_iters. destruct (MAX_LISTED <? g) eqn:E; lia. Qed.

Lemma gap_errors_zero g : gap_errors g = 0 -> g = 0.
Proof. unfold gap_errors. destruct (MAX_LISTED <? g) eqn:E; lia. Qed.

Lemma vnums_fast_linear : forall vs next c,
  c_errors (vnums_fast vs next c) <= c_errors c + N.max 1 MAX_LISTED * nlen vs /\
  c_iters (vnums_fast vs next c) <= c_iters c + (MAX_LISTED + 1) * nlen vs.
Proof.
  induction vs as [|v r IH]; intros next c; cbn [vnums_fast].
  - rewrite (@nlen_nil N). lia.
  - rewrite nlen_cons.
    assert (G1 := gap_errors_le (v - next)). assert (G2 := gap_iters_le (v - next)).
    destruct (U32MAX <=? N.max next v).
    + cbn [c_errors c_iters]. lia.
    + match goal with |- context [vnums_fast r ?n ?c'] => destruct (IH n c') as [A B] end.
      cbn [c_errors c_iters] in A, B. lia.
Qed.

Lemma vnums_fast_ge : forall vs next c, c_errors c <= c_errors (vnums_fast vs next c).
Proof.
  induction vs as [|v r IH]; intros next c; cbn [vnums_fast]; [lia|].
  destruct (U32MAX <=? N.max next v).
  - cbn [c_errors]. lia.
  - match goal with |- context [vnums_fast r ?n ?c'] => assert (A := IH n c') end.
    cbn [c_errors] in A. lia.
Qed.

Lemma vnums_cost_linear_generic vs :
  vnums_cost vs <= N.max 1 MAX_LISTED * nlen vs /\ vnums_iters vs <= (MAX_LISTED + 1) * nlen vs.
Proof.
  unfold vnums_cost, vnums_iters. destruct (vnums_fast_linear vs 1 c0) as [A B].
  cbn [c0 c_errors c_iters] in A, B. lia.
Qed.

(** pinned: the constant read from the source (Generated/Consts.v) is 100 *)
Lemma max_listed_pinned : MAX_LISTED = 100.
Proof. reflexivity. Qed.

Lemma vnums_cost_linear vs : vnums_cost vs <= 100 * nlen vs /\ vnums_iters vs <= 101 * nlen vs.
Proof. assert (H := vnums_cost_linear_generic vs). rewrite max_listed_pinned in H. lia. Qed.

(** the statement about the loop itself: for every list of u32 version numbers it returns
    normally, with at most 100 errors and 101 loop iterations per key *)
Lemma validate_version_nums_linear dbg vs :
  Forall (fun v => vn_number v <= U32MAX) vs ->
  exists c, validate_version_nums dbg vs = Ok c /\
            c_errors c <= 100 * nlen vs /\ c_iters c <= 101 * nlen vs /\
            c_errors c = vnums_cost (map vn_number vs).
Proof.
  intros H. rewrite (validate_version_nums_exact dbg vs H).
  exists (vnums_fast (map vn_number vs) 1 c0).
  assert (L := vnums_cost_linear (map vn_number vs)). unfold vnums_cost, vnums_iters, nlen in L.
  rewrite map_length in L. destruct L as [L1 L2]. unfold nlen, vnums_cost.
  split; [reflexivity|]. split; [exact L1|]. split; [exact L2|reflexivity].
Qed.

(** the bound of 100 errors per key is attained (a gap of exactly 100 is listed one by one),
    and the next larger gap costs one error *)
Lemma vnums_cost_bound_tight :
  vnums_cost [101] = 100 * nlen [101] /\ vnums_iters [101] = 101 * nlen [101] /\
  vnums_cost [102] = 1 /\ vnums_cost [1; 102] = 100 /\ vnums_cost [1; 103] = 1 /\ vnums_cost [400000000] = 1 /\ vnums_cost [U32MAX] = 1 /\
  vnums_cost [1; 2; U32MAX] = 1.
Proof. repeat split; vm_compute; reflexivity. Qed.

(** strictly ascending lists whose first element is at least [next]
    (the iteration order of the BTreeSet when [next] = 1) *)
Fixpoint incr_from (next : N) (vs : list N) : Prop :=
  match vs with [] => True | v :: r => next <= v /\ incr_from (v + 1) r end.

(** no E010 from the loop: the keys are exactly next, next+1, ... *)
Fixpoint iota (next : N) (k : nat) : list N :=
  match k with O => [] | S j => next :: iota (next + 1) j end.

Lemma vnums_zero_contiguous : forall vs next c, incr_from next vs ->
  Forall (fun v => v <= U32MAX) vs ->
  c_errors (vnums_fast vs next c) = c_errors c -> vs = iota next (List.length vs).
Proof.
  induction vs as [|v r IH]; intros next c Hs Hb H; [reflexivity|].
  destruct Hs as [Hle Hr]. inversion Hb as [|? ? Hv Hbr]; subst. cbn [vnums_fast] in H.
  destruct (U32MAX <=? N.max next v) eqn:E.
  - cbn [c_errors] in H. assert (Z : gap_errors (v - next) = 0) by lia.
    apply gap_errors_zero in Z. assert (v = next) by lia. subst v.
    destruct r as [|w r']; [reflexivity|].
    exfalso. destruct Hr as [Hw _]. inversion Hbr; subst. lia.
  - match type of H with context [vnums_fast r ?n ?c'] => assert (Hge := vnums_fast_ge r n c') end.
    cbn [c_errors] in Hge. assert (Z : gap_errors (v - next) = 0) by lia.
    assert (Z0 := Z). apply gap_errors_zero in Z. assert (v = next) by lia. subst v.
    cbn [List.length iota]. f_equal.
    match type of H with context [vnums_fast r ?n ?c'] => apply (IH (next + 1) c') end.
    + exact Hr.
    + exact Hbr.
    + replace (N.max next next + 1) with (next + 1) in H by lia. cbn [c_errors]. lia.
Qed.

Lemma iota_lookup : forall k next j, (j < k)%nat -> nth j (iota next k) 0 = next + N.of_nat j.
Proof.
  induction k as [|k IH]; intros next j Hj; [lia|].
  destruct j as [|j]; cbn [iota nth]; [lia|]. rewrite IH by lia. lia.
Qed.

(** ** historical note - NOT the current code.  Before commit 719e6a5 the loop emitted one
    E010 per missing number whatever the size of the gap; its closed form (proved exact for the
    loop of that time) was [vnums_fast_before_fix]: no constant bounded the cost per key. *)
Fixpoint vnums_fast_before_fix (vs : list N) (next cost : N) : N :=
  match vs with
  | [] => cost
  | v :: rest => vnums_fast_before_fix rest (N.max next v + 1) (cost + (v - next))
  end.
Definition vnums_cost_before_fix (vs : list N) : N := vnums_fast_before_fix vs 1 0.

Lemma vnums_cost_before_fix_not_linear c :
  exists vs, nlen vs = 1 /\ incr_from 1 vs /\ c * nlen vs < vnums_cost_before_fix vs /\
             vnums_cost vs <= 100 * nlen vs.
Proof.
  exists [c + 2]. repeat split.
  - cbn [incr_from]. lia.
  - rewrite nlen_cons, nlen_nil. unfold vnums_cost_before_fix. cbn [vnums_fast_before_fix]. lia.
  - apply vnums_cost_linear.
Qed.

(* ------------------------------------------------------------------ *)
(** * 2. The inventory visitor: what is checked before Inventory::new(..).unwrap() *)

Lemma has_errors_app a c : has_errors (a ++ c) = has_errors a || has_errors c.
Proof. unfold has_errors. apply existsb_app. Qed.

Lemma has_errors_opt c code : has_errors (opt_err c code) = c.
Proof. destruct c; reflexivity. Qed.

Lemma has_errors_add c st : has_errors (p_errs (add c st)) = true.
Proof. unfold add. cbn [p_errs]. rewrite has_errors_app. cbn. apply Bool.orb_true_r. Qed.

(** a versions block read without any recorded error: every numbered key has a version *)
Lemma versions_fold_ok : forall l nums keys e nums' keys' e' ab,
  versions_fold l nums keys e = (nums', keys', e', ab) -> has_errors e' = false ->
  has_errors e = false /\ ab = false /\ (nums = keys -> nums' = keys').
Proof.
  induction l as [|[k bd] rest IH]; intros nums keys e nums' keys' e' ab H He'; cbn [versions_fold] in H.
  - inversion H; subst; auto.
  - destruct (vparse k) as [num| |]; destruct bd;
      try (inversion H; subst; rewrite ?has_errors_app in He'; cbn in He';
           rewrite ?Bool.orb_true_r in He'; discriminate);
      apply IH in H; try assumption; destruct H as (He & Hab & Hk);
      rewrite ?has_errors_app in He; cbn in He; rewrite ?Bool.orb_true_r in He; try discriminate.
    repeat split; try assumption. intros ->. now apply Hk.
Qed.

Lemma versions_fold_aborted : forall l nums keys e nums' keys' e',
  versions_fold l nums keys e = (nums', keys', e', true) -> has_errors e' = true.
Proof.
  induction l as [|[k bd] rest IH]; intros nums keys e nums' keys' e' H; cbn [versions_fold] in H.
  - discriminate.
  - destruct bd; try (eapply IH; exact H).
    inversion H; subst. rewrite has_errors_app. cbn. apply Bool.orb_true_r.
Qed.

Lemma versions_value_ok l nums keys e ab :
  versions_value l = (nums, keys, e, ab) -> has_errors e = false -> keys = nums.
Proof.
  unfold versions_value. destruct (versions_fold l [] [] []) as [[[n k] e0] ab0] eqn:F.
  destruct ab0.
  - intros H He. inversion H; subst. rewrite (versions_fold_aborted _ _ _ _ _ _ _ F) in He. discriminate.
  - intros H He. inversion H; subst; clear H.
    assert (He0 : has_errors e0 = false).
    { destruct (fst (vnums_padding nums)); rewrite ?has_errors_app in He;
        repeat (apply Bool.orb_false_iff in He as [He ?]); assumption. }
    destruct (versions_fold_ok _ _ _ _ _ _ _ _ F He0) as (_ & _ & Hk). symmetry. now apply Hk.
Qed.

Lemma versions_value_aborted l nums keys e :
  versions_value l = (nums, keys, e, true) -> has_errors e = true.
Proof.
  unfold versions_value. destruct (versions_fold l [] [] []) as [[[n k] e0] ab0] eqn:F.
  destruct ab0; intros H; inversion H; subst.
  eapply versions_fold_aborted; eauto.
Qed.

Definition pinv (st : pst) : Prop :=
  (forall d, p_cdir st = Some d -> cdir_kind d = None) /\
  (forall a, p_alg st = Some a -> alg_allowed a = true) /\
  (forall nums keys, p_versions st = Some (nums, keys) -> has_errors (p_errs st) = false -> keys = nums) /\
  (f_digest st = true -> has_errors (p_errs st) = true) /\
  (f_head st = true -> has_errors (p_errs st) = true) /\
  (f_manifest st = true -> has_errors (p_errs st) = true) /\
  (f_versions st = true -> has_errors (p_errs st) = true) /\
  (forall i, p_id st = Some i -> is_nil' i = true -> has_errors (p_errs st) = true).   (* serde.rs:186-190 *)

Lemma pinv_p0 : pinv p0.
Proof. unfold pinv, p0; cbn. repeat split; intros; discriminate. Qed.

Ltac split_matches :=
  repeat match goal with
         | H : inl _ = inl _ |- _ => inversion H; subst; clear H
         | H : inr _ = inl _ |- _ => discriminate H
         | H : context [match ?x with _ => _ end] |- _ => destruct x eqn:?
         end.

Ltac pinv_case :=
  match goal with
  | Hinv : pinv _ |- pinv _ =>
      unfold pinv, add in *; cbn [p_id p_type p_alg p_head p_cdir p_manifest p_versions p_fixity
                                   f_digest f_head f_manifest f_versions p_errs] in *;
      destruct Hinv as (I1 & I2 & I3 & I4 & I5 & I6 & I7 & I8);
      repeat split; intros;
      rewrite ?has_errors_app in *; cbn [has_errors existsb snd N.ltb] in *;
      rewrite ?Bool.orb_true_r, ?Bool.orb_false_r in *;
      try discriminate; try reflexivity; eauto
  end.

Lemma step_inv st it st' : pinv st -> step st it = inl st' -> pinv st'.
Proof.
  intros Hinv H. destruct it; unfold step in H; split_matches; try solve [pinv_case].
  all: pinv_case.
  all: try congruence.
  all: try (match goal with
            | |- context [if is_nil' ?s then _ else _] => destruct (is_nil' s) eqn:?
            | H : context [if is_nil' ?s then _ else _] |- _ => destruct (is_nil' s) eqn:?
            end;
            rewrite ?has_errors_app in *; cbn [has_errors existsb snd N.ltb] in *;
            rewrite ?Bool.orb_true_r, ?Bool.orb_false_r in *;
            try discriminate; try reflexivity; eauto).
  all: try (match goal with
            | I : ?f = true -> has_errors (p_errs _) = true, H : ?f = true |- _ => rewrite (I H); reflexivity
            end).
  all: try (match goal with
            | I : forall i, p_id _ = Some i -> is_nil' i = true -> has_errors (p_errs _) = true,
              H : p_id _ = Some ?i, H' : is_nil' ?i = true |- _ => rewrite (I i H H'); reflexivity
            end).
  all: try (match goal with Hs : Some _ = Some _ |- _ => inversion Hs; subst; congruence end).
  match goal with
  | Hv : versions_value _ = _, Hs : Some _ = Some _, He : _ || _ = false |- _ =>
      inversion Hs; subst; apply Bool.orb_false_iff in He as [_ He]; eapply versions_value_ok; eauto
  end.
Qed.

Lemma step_abort st it e : step st it = inr e -> has_errors e = true.
Proof.
  intros H. destruct it; unfold step in H;
    repeat match goal with
           | H : inr _ = inr _ |- _ => inversion H; subst; clear H
           | H : inl _ = inr _ |- _ => discriminate H
           | H : context [match ?x with _ => _ end] |- _ => destruct x eqn:?
           end;
    try apply has_errors_add;
    rewrite has_errors_app;
    try (cbn; apply Bool.orb_true_r).
  match goal with
  | Hv : versions_value _ = _ |- _ => rewrite (versions_value_aborted _ _ _ _ Hv); apply Bool.orb_true_r
  end.
Qed.

Lemma run_inv : forall items st st2, pinv st -> run st items = inl st2 -> pinv st2.
Proof.
  induction items as [|it rest IH]; intros st st2 Hinv H; cbn [run] in H.
  - now inversion H; subst.
  - destruct (step st it) as [st1|e] eqn:S; [|discriminate]. eapply IH; [|exact H]. eapply step_inv; eauto.
Qed.

Lemma run_abort : forall items st e, run st items = inr e -> has_errors e = true.
Proof.
  induction items as [|it rest IH]; intros st e H; cbn [run] in H; [discriminate|].
  destruct (step st it) as [st1|e1] eqn:S.
  - eapply IH; eauto.
  - inversion H; subst. eapply step_abort; eauto.
Qed.

Lemma blen_zero' s : (blen s =? 0) = is_nil' s.
Proof. destruct s; unfold blen; cbn [List.length is_nil']; lia. Qed.

Lemma finish_snd st : snd (finish st) = p_errs st ++ final_errs st.
Proof.
  unfold finish. destruct (has_errors (p_errs st ++ final_errs st)); [reflexivity|].
  destruct (p_id st), (p_type st), (p_alg st), (p_head st), (p_manifest st), (p_versions st) as [[? ?]|];
    try reflexivity.
  destruct (unwrap _); reflexivity.
Qed.

(** what IS guarded, check by check: with no recorded error all six Options are Some and every
    check of Inventory::new is implied by an earlier check of the visitor - since commit b116ae5
    also the one on the id (E037 for the empty string, serde.rs:186-190) *)
Lemma finish_args st : pinv st -> has_errors (snd (finish st)) = false ->
  exists id a h nums,
    p_id st = Some id /\ id <> [] /\ p_type st = true /\ p_alg st = Some a /\ alg_allowed a = true /\
    p_head st = Some h /\ p_manifest st = true /\ p_versions st = Some (nums, nums) /\
    vset_mem h nums = true /\
    (forall d, p_cdir st = Some d -> cdir_kind d = None) /\
    inventory_new id a h (p_cdir st) nums = Ok tt.
Proof.
  intros (I1 & I2 & I3 & I4 & I5 & I6 & I7 & I8).
  rewrite finish_snd. intros He.
  rewrite has_errors_app in He. apply Bool.orb_false_iff in He as [He0 He].
  unfold final_errs in He. rewrite !has_errors_app, !has_errors_opt in He.
  repeat (apply Bool.orb_false_iff in He as [? He]).
  destruct (p_id st) as [id|] eqn:Eid; [|discriminate].
  destruct (p_type st) eqn:Ety; [|discriminate].
  destruct (p_alg st) as [a|] eqn:Ea.
  2:{ destruct (f_digest st) eqn:Ef; [|discriminate]. rewrite I4 in He0 by reflexivity. discriminate. }
  destruct (p_head st) as [h|] eqn:Eh.
  2:{ destruct (f_head st) eqn:Ef; [|discriminate]. rewrite I5 in He0 by reflexivity. discriminate. }
  destruct (p_manifest st) eqn:Em.
  2:{ destruct (f_manifest st) eqn:Ef; [|discriminate]. rewrite I6 in He0 by reflexivity. discriminate. }
  destruct (p_versions st) as [[nums keys]|] eqn:Ev.
  2:{ destruct (f_versions st) eqn:Ef; [|discriminate]. rewrite I7 in He0 by reflexivity. discriminate. }
  rewrite has_errors_app, !has_errors_opt in He.
  apply Bool.orb_false_iff in He as [Hmem _].
  assert (keys = nums) by (eapply I3; eauto). subst keys.
  assert (Hm : vset_mem h nums = true) by (destruct (vset_mem h nums); [reflexivity|discriminate]).
  assert (Hid : is_nil' id = false).
  { destruct (is_nil' id) eqn:En; [|reflexivity]. rewrite (I8 id eq_refl En) in He0. discriminate. }
  exists id, a, h, nums. repeat split; try reflexivity; auto.
  - intros ->. discriminate Hid.
  - unfold inventory_new. rewrite blen_zero', Hid.
    rewrite (I2 a) by reflexivity. cbn [negb].
    assert (Hc : (match p_cdir st with Some d => if cdir_kind d then true else false | None => false end) = false).
    { destruct (p_cdir st) as [d|] eqn:Ec; [|reflexivity]. rewrite (I1 d) by reflexivity. reflexivity. }
    rewrite Hc, Hm. reflexivity.
Qed.

Lemma finish_guarded st : pinv st ->
  has_errors (snd (finish st)) = false -> fst (finish st) = PInv.
Proof.
  intros Hinv He.
  destruct (finish_args st Hinv He) as (id & a & h & nums & E1 & _ & E2 & E3 & _ & E4 & E5 & E6 & _ & _ & Hnew).
  rewrite finish_snd in He. unfold finish. rewrite He, E1, E2, E3, E4, E5, E6, Hnew. reflexivity.
Qed.

(** no error recorded => an inventory is returned: the six [.unwrap()]s on Options and
    [Inventory::new(..).unwrap()] (serde.rs:504-514) are all guarded, for every document *)
Lemma visit_guarded items r e : visit items = (r, e) -> has_errors e = false -> r = PInv.
Proof.
  unfold visit. destruct (run p0 items) as [st|ea] eqn:R; intros H He.
  - assert (Hinv := run_inv _ _ _ pinv_p0 R).
    assert (G := finish_guarded st Hinv). rewrite H in G. cbn [fst snd] in G. now apply G.
  - inversion H; subst. rewrite (run_abort _ _ _ R) in He. discriminate.
Qed.

(** the visitor never panics, errors or not, whatever the fields are *)
Lemma visit_no_panic items : fst (visit items) <> PPanicked.
Proof.
  destruct (visit items) as [r e] eqn:V. cbn [fst].
  destruct (has_errors e) eqn:He.
  - unfold visit in V. destruct (run p0 items) as [st|ea] eqn:R.
    + assert (S := finish_snd st). unfold finish in *. rewrite V in S. cbn [snd] in S.
      rewrite <- S in V. rewrite He in V. inversion V; subst. discriminate.
    + inversion V; subst. discriminate.
  - rewrite (visit_guarded items r e V He). discriminate.
Qed.

Definition ok_tail : list item :=
  [IType (SStr (b "https://ocfl.io/1.0/spec/#inventory")); IAlg (SStr (b "sha512")); IHead (SStr (b "v1"));
   IManifest CObj; IVersions (VObj [(b "v1", BSome)])].

(** "id": "" is a validation error now (E037), wherever the key stands, and no inventory results *)
Lemma blank_id_is_an_error :
  visit (IId (SStr []) :: ok_tail) = (PNoInv, [(E037, 1); (E010, 0)]) /\
  visit (ok_tail ++ [IId (SStr [])]) = (PNoInv, [(E010, 0); (E037, 1)]).
Proof. split; vm_compute; reflexivity. Qed.

Lemma nonblank_id_ok :
  visit (IId (SStr (b "urn:x")) :: ok_tail) = (PInv, [(E010, 0)]).
Proof. vm_compute. reflexivity. Qed.

(** a versions block with absurd keys: a verdict with few errors *)
Lemma absurd_keys_verdict :
  visit [IId (SStr (b "urn:x")); IType (SStr (b "t")); IAlg (SStr (b "sha512")); IHead (SStr (b "v1"));
         IManifest CObj; IVersions (VObj [(b "v1", BSome); (b "v400000000", BSome); (b "v4294967295", BSome)])]
  = (PNoInv, [(E010, 2); (E040, 1)]).
Proof. vm_compute. reflexivity. Qed.

(* ------------------------------------------------------------------ *)
(** * 3. Cross-inventory checks *)

Lemma lookup_in {A} k (l : list (N * A)) a : lookup k l = Some a -> In (k, a) l.
Proof.
  unfold lookup. destruct (find (fun e => fst e =? k) l) as [e|] eqn:F; [|discriminate].
  intros H. inversion H; subst. apply find_some in F as [Hin Heq].
  destruct e as [k' a']. cbn [fst snd] in *. assert (k' = k) by lia. now subst.
Qed.

Lemma lookup_app {A} k (l : list (N * A)) k2 a2 c :
  lookup k (l ++ [(k2, a2)]) = Some c -> lookup k l = Some c \/ c = a2.
Proof.
  unfold lookup. induction l as [|[k1 a1] r IH]; cbn [app find fst snd].
  - destruct (k2 =? k); [|discriminate]. intros H; inversion H; auto.
  - destruct (k1 =? k); [auto|]. exact IH.
Qed.

Lemma content_paths_nonempty inv d ps : content_paths inv d = Some ps -> ps <> [].
Proof.
  unfold content_paths. destruct (lookup d (i_manifest inv)) as [l|]; [|discriminate].
  destruct l; cbn [is_nil]; [discriminate|]. intros H; inversion H; discriminate.
Qed.

Lemma nlen_zero {A} (l : list A) : (nlen l =? 0) = is_nil l.
Proof. destruct l; unfold nlen; cbn [List.length is_nil]; lia. Qed.

(** ** get_version(..).unwrap() *)

Definition contiguous (inv : ainv) : Prop :=
  forall k, 1 <= k -> k <= i_head inv -> get_version inv k <> None.

Lemma entry_check_no_gv dbg cur cmp inv st cd e :
  entry_check dbg cur cmp inv st cd e <> XPanic SGetVersion.
Proof.
  unfold entry_check, compare_paths. destruct e as [p d0].
  repeat match goal with
         | |- context [match ?x with _ => _ end] => destruct x
         end; discriminate.
Qed.

Lemma entries_check_lift dbg cur cmp inv st cd s : forall l acc,
  (forall e, In e l -> entry_check dbg cur cmp inv st cd e <> XPanic s) ->
  entries_check dbg cur cmp inv st cd l acc <> XPanic s.
Proof.
  induction l as [|e r IH]; intros acc H; cbn [entries_check]; [discriminate|].
  assert (He := H e (or_introl eq_refl)).
  destruct (entry_check dbg cur cmp inv st cd e) as [n|s'|]; [|exact He|discriminate].
  apply IH. intros e' Hin. apply H. now right.
Qed.

Lemma state_consistent_lift dbg cur cmp inv cd s :
  (s = SGetVersion -> get_version cmp cur <> None /\ get_version inv cur <> None) ->
  (forall cst st e, get_version cmp cur = Some cst -> get_version inv cur = Some st -> In e cst ->
     entry_check dbg cur cmp inv st cd e <> XPanic s) ->
  state_consistent dbg cur cmp inv cd <> XPanic s.
Proof.
  intros Hgv H. unfold state_consistent.
  destruct (get_version cmp cur) as [cst|] eqn:E1.
  2:{ intros Heq. inversion Heq; subst. destruct (Hgv eq_refl) as [A _]. now apply A. }
  destruct (get_version inv cur) as [st|] eqn:E2.
  2:{ intros Heq. inversion Heq; subst. destruct (Hgv eq_refl) as [_ A]. now apply A. }
  assert (L := entries_check_lift dbg cur cmp inv st cd s cst 0 (fun e Hin => H cst st e eq_refl eq_refl Hin)).
  destruct (entries_check dbg cur cmp inv st cd cst 0); [discriminate|exact L|discriminate].
Qed.

Lemma version_consistent_no_gv dbg root other cmp : forall fuel cur acc,
  contiguous root -> contiguous other ->
  (forall c, cmp = Some c -> contiguous c /\ cur <= i_head c) ->
  1 <= cur -> cur <= i_head root -> cur <= i_head other ->
  version_consistent dbg fuel cur root other cmp acc <> XPanic SGetVersion.
Proof.
  induction fuel as [|f IH]; intros cur acc Hr Ho Hc H1 H2 H3; cbn [version_consistent].
  all: destruct (get_version root cur) eqn:E1; [|exfalso; now apply (Hr cur)].
  all: destruct (get_version other cur) eqn:E2; [|exfalso; now apply (Ho cur)].
  all: assert (S : (match cmp with
                    | Some c => state_consistent dbg cur c other true
                    | None => state_consistent dbg cur root other false
                    end) <> XPanic SGetVersion).
  1,3: destruct cmp as [c|].
  1,3: destruct (Hc c eq_refl) as [Hcc Hle];
       apply state_consistent_lift;
       [intros _; split; [now apply Hcc | congruence] | intros; apply entry_check_no_gv].
  1,2: apply state_consistent_lift;
       [intros _; split; congruence | intros; apply entry_check_no_gv].
  all: destruct (match cmp with
                 | Some c => state_consistent dbg cur c other true
                 | None => state_consistent dbg cur root other false
                 end) as [n|s|]; [|exact S|discriminate].
  all: destruct (cur =? 1) eqn:E; [discriminate|].
  - discriminate.
  - apply IH; try assumption; try lia.
    intros c Hcs. destruct (Hc c Hcs). split; [assumption|lia].
Qed.

Fixpoint desc_from (bound : N) (dirs : list (N * ainv)) : Prop :=
  match dirs with
  | [] => True
  | d :: r => fst d <= bound /\ desc_from (fst d) r
  end.

Definition dir_ok (root : ainv) (d : N * ainv) : Prop :=
  contiguous (snd d) /\ 1 <= fst d /\ fst d <= i_head (snd d) /\ fst d <= i_head root.

Lemma cross_loop_no_gv dbg root : forall dirs seen acc bound,
  contiguous root -> Forall (dir_ok root) dirs -> desc_from bound dirs ->
  (forall a c, lookup a seen = Some c -> contiguous c /\ bound <= i_head c) ->
  cross_loop dbg root dirs seen acc <> XPanic SGetVersion.
Proof.
  induction dirs as [|[num inv] rest IH]; intros seen acc bound Hr Hd Hdesc Hseen; cbn [cross_loop];
    [discriminate|].
  inversion Hd as [|? ? (Hc & H1 & H2 & H3) Hrest]; subst. cbn [fst snd] in *.
  cbn [desc_from fst] in Hdesc. destruct Hdesc as [Hb Hdesc].
  set (cmp := if i_alg root =? i_alg inv then Some root else lookup (i_alg inv) seen).
  assert (V : version_consistent dbg (List.length (i_versions inv)) num root inv cmp 0 <> XPanic SGetVersion).
  { apply version_consistent_no_gv; try assumption.
    intros c Hcs. unfold cmp in Hcs. destruct (i_alg root =? i_alg inv).
    - inversion Hcs; subst. split; assumption.
    - destruct (Hseen _ _ Hcs). split; [assumption|lia]. }
  destruct (version_consistent dbg (List.length (i_versions inv)) num root inv cmp 0) as [n|s|];
    [|exact V|discriminate].
  apply (IH _ _ num); try assumption.
  intros a c Hl. destruct (lookup (i_alg inv) seen) eqn:El.
  - destruct (Hseen _ _ Hl). split; [assumption|lia].
  - apply lookup_app in Hl as [Hl | -> ].
    + destruct (Hseen _ _ Hl). split; [assumption|lia].
    + split; assumption.
Qed.

Lemma cross_check_get_version_guarded dbg root dirs :
  contiguous root -> Forall (dir_ok root) dirs -> desc_from (i_head root) dirs ->
  cross_check dbg root dirs <> XPanic SGetVersion.
Proof.
  intros. unfold cross_check. eapply cross_loop_no_gv; eauto.
  intros a c Hl. discriminate.
Qed.

(** ** the head check of validate_inventory (mod.rs:1008-1019) is what provides [dir_ok]:
    [object_cross_check] hands the loop only the inventories whose head is their directory *)

Definition found_ok (root : ainv) (d : N * ainv) : Prop :=
  contiguous (snd d) /\ 1 <= fst d /\ fst d <= i_head root.

Lemma desc_from_weaken : forall dirs b b', b <= b' -> desc_from b dirs -> desc_from b' dirs.
Proof. destruct dirs as [|d r]; intros b b' Hb H; cbn [desc_from] in *; [exact I|]. destruct H; split; [lia|assumption]. Qed.

Lemma desc_from_filter (f : N * ainv -> bool) : forall dirs bound,
  desc_from bound dirs -> desc_from bound (filter f dirs).
Proof.
  induction dirs as [|d r IH]; intros bound H; cbn [filter]; [exact I|].
  cbn [desc_from] in H. destruct H as [Hb Hr]. destruct (f d).
  - cbn [desc_from]. split; [exact Hb|]. now apply IH.
  - apply IH. eapply desc_from_weaken; [exact Hb|exact Hr].
Qed.

Lemma object_cross_check_get_version_guarded dbg root found :
  contiguous root -> Forall (found_ok root) found -> desc_from (i_head root) found ->
  object_cross_check dbg root found <> XPanic SGetVersion.
Proof.
  intros Hr Hf Hd. unfold object_cross_check. apply cross_check_get_version_guarded.
  - exact Hr.
  - apply Forall_forall. intros d Hin. apply filter_In in Hin as [Hin Hacc].
    rewrite Forall_forall in Hf. destruct (Hf d Hin) as (Hc & H1 & H2).
    unfold head_accepted in Hacc. unfold dir_ok. repeat split; try assumption. lia.
  - now apply desc_from_filter.
Qed.

(** the rejection is needed: a VALID inventory with a LOWER head in a version directory, handed
    to the loop, makes [get_version(..).unwrap()] (mod.rs:1552) panic *)
Definition w3_root : ainv :=
  mkI 512 3 [(1, [(1, 10)]); (2, [(1, 10)]); (3, [(1, 10)])] [(10, [(1, 1)])].
Definition w3_v1 : ainv := mkI 512 1 [(1, [(1, 10)])] [(10, [(1, 1)])].

Lemma get_version_needs_head_check :
  cross_check false w3_root [(2, w3_v1)] = XPanic SGetVersion /\
  object_cross_check false w3_root [(2, w3_v1)] = XOk 0 /\ head_rejected_count [(2, w3_v1)] = 1 /\
  contiguous w3_root /\ found_ok w3_root (2, w3_v1).
Proof.
  split; [vm_compute; reflexivity|]. split; [vm_compute; reflexivity|]. split; [vm_compute; reflexivity|].
  assert (C3 : contiguous w3_root).
  { intros k H1 H2. change (i_head w3_root) with 3 in H2.
    assert (k = 1 \/ k = 2 \/ k = 3) as [ -> | [ -> | -> ]] by lia; vm_compute; discriminate. }
  assert (C1 : contiguous w3_v1).
  { intros k H1 H2. change (i_head w3_v1) with 1 in H2. assert (k = 1) as -> by lia. vm_compute; discriminate. }
  split; [exact C3|].
  unfold found_ok. cbn [fst snd]. change (i_head w3_root) with 3. repeat split; try lia. exact C1.
Qed.

(** ** lifting a per-entry fact about one panic site to the whole loop *)
Section Lift.
  Variable dbg : bool.
  Variable s : psite.
  Variable P : ainv -> Prop.
  Hypothesis s_not_gv : s <> SGetVersion.
  Hypothesis Hentry : forall cur cmp inv cst st cd e,
    P cmp -> P inv -> get_version cmp cur = Some cst -> get_version inv cur = Some st -> In e cst ->
    entry_check dbg cur cmp inv st cd e <> XPanic s.

  Lemma version_consistent_lift root other cmp : forall fuel cur acc,
    P root -> P other -> (forall c, cmp = Some c -> P c) ->
    version_consistent dbg fuel cur root other cmp acc <> XPanic s.
  Proof.
    induction fuel as [|f IH]; intros cur acc Hr Ho Hc; cbn [version_consistent].
    all: destruct (get_version root cur); [|congruence].
    all: destruct (get_version other cur); [|congruence].
    all: assert (S : (match cmp with
                      | Some c => state_consistent dbg cur c other true
                      | None => state_consistent dbg cur root other false
                      end) <> XPanic s).
    1,3: destruct cmp as [c|]; apply state_consistent_lift; try (intros; congruence);
         intros; eapply Hentry; eauto.
    all: destruct (match cmp with
                   | Some c => state_consistent dbg cur c other true
                   | None => state_consistent dbg cur root other false
                   end) as [n|s'|]; [|exact S|discriminate].
    all: destruct (cur =? 1); try discriminate.
    now apply IH.
  Qed.

  Lemma cross_loop_lift root : forall dirs seen acc,
    P root -> Forall (fun d => P (snd d)) dirs -> (forall a c, lookup a seen = Some c -> P c) ->
    cross_loop dbg root dirs seen acc <> XPanic s.
  Proof.
    induction dirs as [|[num inv] rest IH]; intros seen acc Hr Hd Hseen; cbn [cross_loop]; [discriminate|].
    inversion Hd as [|? ? Hi Hrest]; subst. cbn [snd] in Hi.
    set (cmp := if i_alg root =? i_alg inv then Some root else lookup (i_alg inv) seen).
    assert (V : version_consistent dbg (List.length (i_versions inv)) num root inv cmp 0 <> XPanic s).
    { apply version_consistent_lift; try assumption.
      intros c Hcs. unfold cmp in Hcs. destruct (i_alg root =? i_alg inv).
      - now inversion Hcs; subst.
      - eapply Hseen; eauto. }
    destruct (version_consistent dbg (List.length (i_versions inv)) num root inv cmp 0) as [n|s'|];
      [|exact V|discriminate].
    apply IH; try assumption.
    intros a c Hl. destruct (lookup (i_alg inv) seen) eqn:El; [eapply Hseen; eauto|].
    apply lookup_app in Hl as [Hl | -> ]; [eapply Hseen; eauto|assumption].
  Qed.

  Lemma cross_check_lift root dirs :
    P root -> Forall (fun d => P (snd d)) dirs -> cross_check dbg root dirs <> XPanic s.
  Proof. intros. apply cross_loop_lift; auto. intros a c Hl. discriminate. Qed.
End Lift.

(** ** content_paths(..).unwrap_or(&no_paths) and PrettyPrintSet: nothing left that can panic *)

(** types.rs:1353 after commit 547c92e: [saturating_sub] has no failing case, in either build mode *)
Lemma pps_total dbg len : pps_panics dbg len = false.
Proof. reflexivity. Qed.

(** and the text is the one intended: len - 1 separators, none for the empty set *)
Lemma pps_display_exact dbg len : pps_display dbg len = Ok (len - 1).
Proof. unfold pps_display, pps_max, usize_saturating_sub. f_equal. lia. Qed.

Lemma compare_paths_total pp cur cps ps : (forall n, pp n = false) ->
  exists n, compare_paths pp cur cps ps = XOk n /\ n <= 1.
Proof.
  intros H. unfold compare_paths. rewrite !H. cbn [orb].
  destruct (nlen cps =? 1).
  - destruct (set_eqb cps ps); eexists; (split; [reflexivity|lia]).
  - destruct (set_eqb (filter (fun cp : N * N => fst cp <=? cur) cps) ps); eexists; (split; [reflexivity|lia]).
Qed.

(** the loop body of validate_state_consistent records at most one E066 and returns, for ALL
    inventories, states and entries, in both build modes *)
Lemma entry_check_total dbg cur cmp inv st cd e :
  exists n, entry_check dbg cur cmp inv st cd e = XOk n /\ n <= 1.
Proof.
  unfold entry_check. destruct e as [p d0].
  destruct (lookup p st) as [d|]; [|exists 1; split; [reflexivity|lia]].
  destruct cd.
  - destruct (d0 =? d); eexists; (split; [reflexivity|lia]).
  - apply compare_paths_total. intros n. apply pps_total.
Qed.

Lemma entry_check_not_panic dbg cur cmp inv st cd e s :
  entry_check dbg cur cmp inv st cd e <> XPanic s.
Proof. destruct (entry_check_total dbg cur cmp inv st cd e) as [n [E _]]. rewrite E. discriminate. Qed.

Lemma cross_check_content_paths_guarded dbg root dirs :
  cross_check dbg root dirs <> XPanic SContentPaths.
Proof.
  apply (cross_check_lift dbg SContentPaths (fun _ => True)).
  - discriminate.
  - intros; apply entry_check_not_panic.
  - exact I.
  - apply Forall_forall; intros; exact I.
Qed.

Lemma cross_check_pps_total dbg root dirs : cross_check dbg root dirs <> XPanic SPrettyPrint.
Proof.
  apply (cross_check_lift dbg SPrettyPrint (fun _ => True)).
  - discriminate.
  - intros; apply entry_check_not_panic.
  - exact I.
  - apply Forall_forall; intros; exact I.
Qed.

Lemma subset_nil_r ps : subset ps [] = is_nil ps.
Proof. destruct ps; reflexivity. Qed.

(** a digest without entry in the manifest map (declared with an empty array) is compared as the
    empty set: no error when the other side is empty too, one E066 otherwise *)
Lemma entry_check_missing_entry dbg cur cmp inv st p cd d :
  lookup p st = Some d -> content_paths cmp cd = None ->
  entry_check dbg cur cmp inv st false (p, cd) =
  XOk (if is_nil (paths_or_empty (content_paths inv d)) then 0 else 1).
Proof.
  intros L C. unfold entry_check. rewrite L, C. cbn [paths_or_empty].
  unfold compare_paths. change (nlen (@nil (N * N)) =? 1) with false. cbv iota.
  cbn [filter]. unfold set_eqb. cbn [subset forallb andb]. rewrite subset_nil_r.
  rewrite !pps_total. cbn [orb].
  destruct (paths_or_empty (content_paths inv d)); reflexivity.
Qed.

Lemma entry_check_missing_entry_other_side dbg cur cmp inv st p cd d cps :
  lookup p st = Some d -> content_paths cmp cd = Some cps -> content_paths inv d = None ->
  entry_check dbg cur cmp inv st false (p, cd) =
  XOk (if nlen cps =? 1 then 1 else if is_nil (filter (fun cp => fst cp <=? cur) cps) then 0 else 1).
Proof.
  intros L C1 C2. unfold entry_check. rewrite L, C1, C2. cbn [paths_or_empty].
  assert (Hne := content_paths_nonempty _ _ _ C1).
  unfold compare_paths. rewrite !pps_total. cbn [orb].
  unfold set_eqb. cbn [subset forallb]. rewrite !subset_nil_r, !Bool.andb_true_r.
  destruct (nlen cps =? 1).
  - destruct cps; [congruence|reflexivity].
  - destruct (filter (fun cp : N * N => fst cp <=? cur) cps); reflexivity.
Qed.

(** ** the whole loop returns a verdict *)

Lemma entries_check_total dbg cur cmp inv st cd : forall l acc,
  exists n, entries_check dbg cur cmp inv st cd l acc = XOk n /\ n <= acc + nlen l.
Proof.
  induction l as [|e r IH]; intros acc; cbn [entries_check].
  - exists acc. split; [reflexivity|rewrite nlen_nil; lia].
  - destruct (entry_check_total dbg cur cmp inv st cd e) as [k [E Hk]]. rewrite E.
    destruct (IH (acc + k)) as [n [En Hn]]. exists n. split; [exact En|]. rewrite nlen_cons. lia.
Qed.

Lemma state_consistent_verdict dbg cur cmp inv cd :
  get_version cmp cur <> None -> get_version inv cur <> None ->
  exists n, state_consistent dbg cur cmp inv cd = XOk n.
Proof.
  intros H1 H2. unfold state_consistent.
  destruct (get_version cmp cur) as [cst|]; [|congruence].
  destruct (get_version inv cur) as [st|]; [|congruence].
  destruct (entries_check_total dbg cur cmp inv st cd cst 0) as [n [E _]]. rewrite E. eexists; reflexivity.
Qed.

Lemma version_consistent_verdict dbg root other cmp : forall fuel cur acc,
  contiguous root -> contiguous other ->
  (forall c, cmp = Some c -> contiguous c /\ cur <= i_head c) ->
  1 <= cur -> cur <= i_head root -> cur <= i_head other -> cur <= N.of_nat fuel + 1 ->
  exists n, version_consistent dbg fuel cur root other cmp acc = XOk n.
Proof.
  induction fuel as [|f IH]; intros cur acc Hr Ho Hc H1 H2 H3 Hf; cbn [version_consistent].
  all: destruct (get_version root cur) eqn:E1; [|exfalso; now apply (Hr cur)].
  all: destruct (get_version other cur) eqn:E2; [|exfalso; now apply (Ho cur)].
  all: assert (S : exists n, (match cmp with
                    | Some c => state_consistent dbg cur c other true
                    | None => state_consistent dbg cur root other false
                    end) = XOk n).
  1,3: destruct cmp as [c|];
       [destruct (Hc c eq_refl) as [Hcc Hle]; apply state_consistent_verdict; [now apply Hcc|congruence]
       |apply state_consistent_verdict; congruence].
  all: destruct S as [n S]; rewrite S.
  all: destruct (cur =? 1) eqn:E; [eexists; reflexivity|].
  - lia.
  - apply IH; try assumption; try lia.
    intros c Hcs. destruct (Hc c Hcs). split; [assumption|lia].
Qed.

(** an inventory with versions v1..head has at least head entries in its versions map: the
    fuel the model gives the descending loop is enough *)
Lemma iota_in : forall k next x, In x (iota next k) -> next <= x /\ x < next + N.of_nat k.
Proof.
  induction k as [|k IH]; intros next x H; cbn [iota] in H; [destruct H|].
  destruct H as [<-|H]; [lia|]. apply IH in H. lia.
Qed.

Lemma iota_nodup : forall k next, NoDup (iota next k).
Proof.
  induction k as [|k IH]; intros next; cbn [iota]; constructor; [|apply IH].
  intros H. apply iota_in in H. lia.
Qed.

Lemma iota_length : forall k next, List.length (iota next k) = k.
Proof. induction k as [|k IH]; intros next; cbn [iota List.length]; [reflexivity|now rewrite IH]. Qed.

Lemma lookup_some_in_keys {A} k (l : list (N * A)) : lookup k l <> None -> In k (map fst l).
Proof.
  intros H. destruct (lookup k l) as [a|] eqn:E; [|congruence].
  apply lookup_in in E. apply in_map_iff. exists (k, a). split; [reflexivity|assumption].
Qed.

Lemma contiguous_length inv : contiguous inv -> i_head inv <= nlen (i_versions inv).
Proof.
  intros C.
  assert (I : incl (iota 1 (N.to_nat (i_head inv))) (map fst (i_versions inv))).
  { intros x Hx. apply iota_in in Hx. apply lookup_some_in_keys. apply (C x); lia. }
  apply (NoDup_incl_length (iota_nodup _ _)) in I. rewrite iota_length, map_length in I.
  unfold nlen. lia.
Qed.

Lemma cross_loop_verdict dbg root : forall dirs seen acc bound,
  contiguous root -> Forall (dir_ok root) dirs -> desc_from bound dirs ->
  (forall a c, lookup a seen = Some c -> contiguous c /\ bound <= i_head c) ->
  exists n, cross_loop dbg root dirs seen acc = XOk n.
Proof.
  induction dirs as [|[num inv] rest IH]; intros seen acc bound Hr Hd Hdesc Hseen; cbn [cross_loop];
    [eexists; reflexivity|].
  inversion Hd as [|? ? (Hc & H1 & H2 & H3) Hrest]; subst. cbn [fst snd] in *.
  cbn [desc_from fst] in Hdesc. destruct Hdesc as [Hb Hdesc].
  set (cmp := if i_alg root =? i_alg inv then Some root else lookup (i_alg inv) seen).
  assert (V : exists n, version_consistent dbg (List.length (i_versions inv)) num root inv cmp 0 = XOk n).
  { apply version_consistent_verdict; try assumption.
    - intros c Hcs. unfold cmp in Hcs. destruct (i_alg root =? i_alg inv).
      + inversion Hcs; subst. split; assumption.
      + destruct (Hseen _ _ Hcs). split; [assumption|lia].
    - assert (L := contiguous_length inv Hc). unfold nlen in L. lia. }
  destruct V as [n V]. rewrite V.
  apply (IH _ _ num); try assumption.
  intros a c Hl. destruct (lookup (i_alg inv) seen) eqn:El.
  - destruct (Hseen _ _ Hl). split; [assumption|lia].
  - apply lookup_app in Hl as [Hl | -> ].
    + destruct (Hseen _ _ Hl). split; [assumption|lia].
    + split; assumption.
Qed.

Lemma cross_check_verdict dbg root dirs :
  contiguous root -> Forall (dir_ok root) dirs -> desc_from (i_head root) dirs ->
  exists n, cross_check dbg root dirs = XOk n.
Proof.
  intros. unfold cross_check. eapply cross_loop_verdict; eauto.
  intros a c Hl. discriminate.
Qed.

Lemma object_cross_check_verdict dbg root found :
  contiguous root -> Forall (found_ok root) found -> desc_from (i_head root) found ->
  exists n, object_cross_check dbg root found = XOk n.
Proof.
  intros Hr Hf Hd. unfold object_cross_check. apply cross_check_verdict.
  - exact Hr.
  - apply Forall_forall. intros d Hin. apply filter_In in Hin as [Hin Hacc].
    rewrite Forall_forall in Hf. destruct (Hf d Hin) as (Hc & H1 & H2).
    unfold head_accepted in Hacc. unfold dir_ok. repeat split; try assumption. lia.
  - now apply desc_from_filter.
Qed.

(** ** the formerly known inputs, now ordinary verdicts; and what the code of that time did *)

(** what the E050 check (serde.rs:471-487) gives for an inventory that parsed without error:
    every digest used by a state is a key of the manifest object - it does NOT give an entry in
    the manifest map, which is why the unwraps of that time were unguarded *)
Definition closed (inv : ainv) : Prop :=
  forall v st p d, In (v, st) (i_versions inv) -> In (p, d) st -> lookup d (i_manifest inv) <> None.

(** a manifest entry with an empty array, used by a state, and a version inventory written with
    another digest algorithm: [w_v1] declares its digest 21 with [] as well (equal sets, no
    error), [w_v1b] stores it under one content path (one E066) *)
Definition w_root : ainv :=
  mkI 512 2 [(1, [(1, 10); (2, 11)]); (2, [(1, 10); (2, 11)])] [(10, [(1, 1)]); (11, [])].
Definition w_v1 : ainv :=
  mkI 256 1 [(1, [(1, 20); (2, 21)])] [(20, [(1, 1)]); (21, [])].
Definition w_v1b : ainv :=
  mkI 256 1 [(1, [(1, 20); (2, 21)])] [(20, [(1, 1)]); (21, [(1, 2)])].

Lemma empty_manifest_entry_verdict :
  cross_check true w_root [(1, w_v1)] = XOk 0 /\ cross_check false w_root [(1, w_v1)] = XOk 0 /\
  cross_check true w_root [(1, w_v1b)] = XOk 1 /\ cross_check false w_root [(1, w_v1b)] = XOk 1 /\
  closed w_root /\ contiguous w_root /\ dir_ok w_root (1, w_v1) /\ dir_ok w_root (1, w_v1b).
Proof.
  do 4 (split; [vm_compute; reflexivity|]). split.
  { intros v st p d Hv Hp. cbn in Hv.
    destruct Hv as [Hv|[Hv|[]]]; inversion Hv; subst; cbn in Hp;
      destruct Hp as [Hp|[Hp|[]]]; inversion Hp; subst; vm_compute; discriminate. }
  split.
  - intros k H1 H2. change (i_head w_root) with 2 in H2.
    assert (k = 1 \/ k = 2) as [ -> | -> ] by lia; vm_compute; discriminate.
  - split; unfold dir_ok; cbn [fst snd w_v1 w_v1b w_root i_head]; repeat split; try lia.
    + intros k H1 H2. change (i_head w_v1) with 1 in H2. assert (k = 1) as -> by lia. vm_compute; discriminate.
    + intros k H1 H2. change (i_head w_v1b) with 1 in H2. assert (k = 1) as -> by lia. vm_compute; discriminate.
Qed.

(** historical note - NOT the current code: the loop body before 7c90d82 panicked on this entry,
    release and debug, although E050 held ([closed]) *)
Lemma history_entry_check_before_fix_unwrap_none :
  entry_check_before_fix false 1 w_root w_v1 [(1, 20); (2, 21)] false (2, 11) = XPanic SContentPaths /\
  entry_check_before_fix true 1 w_root w_v1b [(1, 20); (2, 21)] false (2, 11) = XPanic SContentPaths /\
  entry_check false 1 w_root w_v1 [(1, 20); (2, 21)] false (2, 11) = XOk 0 /\
  entry_check true 1 w_root w_v1b [(1, 20); (2, 21)] false (2, 11) = XOk 1.
Proof. repeat split; vm_compute; reflexivity. Qed.

(** a state that uses a digest whose two content paths both lie in a later version: the filtered
    set of mod.rs:1677-1685 is empty and is printed in the E066 message *)
Definition w2_root : ainv :=
  mkI 512 2 [(1, [(1, 10)]); (2, [(1, 10)])] [(10, [(2, 1); (2, 2)])].
Definition w2_v1 : ainv := mkI 256 1 [(1, [(1, 20)])] [(20, [(1, 1)])].

Lemma empty_set_is_printed :
  cross_check true w2_root [(1, w2_v1)] = XOk 1 /\ cross_check false w2_root [(1, w2_v1)] = XOk 1 /\
  pps_display true 0 = Ok 0 /\ pps_display false 0 = Ok 0 /\ pps_display true 3 = Ok 2.
Proof. repeat split; vm_compute; reflexivity. Qed.

(** historical note - NOT the current code: [len() - 1] before 547c92e panicked for the empty
    set in a debug build (a release build wrapped to usize::MAX and printed "[]") *)
Lemma history_pps_before_fix :
  pps_panics_before_fix true 0 = true /\ pps_display_before_fix false 0 = Ok 0 /\
  (forall dbg len, len <> 0 -> pps_display_before_fix dbg len = Ok (len - 1)) /\
  entry_check_before_fix true 1 w2_root w2_v1 [(1, 20)] false (1, 10) = XPanic SPrettyPrint /\
  entry_check_before_fix false 1 w2_root w2_v1 [(1, 20)] false (1, 10) = XOk 1 /\
  entry_check true 1 w2_root w2_v1 [(1, 20)] false (1, 10) = XOk 1.
Proof.
  split; [vm_compute; reflexivity|]. split; [vm_compute; reflexivity|]. split.
  - intros dbg len H. unfold pps_display_before_fix, pps_max_before_fix, usize_sub.
    destruct (len <? 1) eqn:E; [lia|]. f_equal. lia.
  - repeat split; vm_compute; reflexivity.
Qed.

Lemma cross_check_nonvacuous :
  exists root v1, closed root /\ closed v1 /\ contiguous root /\ dir_ok root (1, v1) /\
    cross_check true root [(1, v1)] = XOk 0.
Proof.
  exists (mkI 512 2 [(1, [(1, 10)]); (2, [(1, 10)])] [(10, [(1, 1)])]),
         (mkI 256 1 [(1, [(1, 20)])] [(20, [(1, 1)])]).
  repeat split; try (vm_compute; reflexivity).
  - intros v st p d Hv Hp. cbn in Hv. destruct Hv as [Hv|[Hv|[]]]; inversion Hv; subst; cbn in Hp;
      destruct Hp as [Hp|[]]; inversion Hp; subst; vm_compute; discriminate.
  - intros v st p d Hv Hp. cbn in Hv. destruct Hv as [Hv|[]]; inversion Hv; subst; cbn in Hp;
      destruct Hp as [Hp|[]]; inversion Hp; subst; vm_compute; discriminate.
  - intros k H1 H2. cbn [i_head] in H2. assert (k = 1 \/ k = 2) as [ -> | -> ] by lia; vm_compute; discriminate.
  - intros k H1 H2. cbn [snd i_head] in H2. assert (k = 1) as -> by lia. vm_compute; discriminate.
  - cbn. lia.
  - cbn. lia.
  - cbn. lia.
Qed.

(* ------------------------------------------------------------------ *)
(** * 4. validate_non_conflicting: cost *)

Lemma count_slash_cons c r :
  count_slash (c :: r) = (if Ascii.eqb c "/"%char then 1 else 0) + count_slash r.
Proof.
  unfold count_slash. cbn [filter]. destruct (Ascii.eqb c "/"); [rewrite nlen_cons|]; lia.
Qed.

Lemma slash_prefix_cost_le : forall s pos,
  slash_prefix_cost pos s <= count_slash s * (pos + nlen s).
Proof.
  induction s as [|c r IH]; intros pos; cbn [slash_prefix_cost].
  - unfold count_slash. cbn. lia.
  - rewrite count_slash_cons, nlen_cons. specialize (IH (pos + 1)).
    destruct (Ascii.eqb c "/"); nia.
Qed.

Lemma nonconflict_cost_le path : nonconflict_cost path <= count_slash path * nlen path.
Proof. unfold nonconflict_cost. apply (slash_prefix_cost_le path 0). Qed.

Lemma nonconflict_cost_outside_class path :
  c17_quadratic_path (count_slash path) (nlen path) = false -> nonconflict_cost path <= PATH_COST_BOUND.
Proof.
  unfold c17_quadratic_path. intros H. assert (L := nonconflict_cost_le path). lia.
Qed.

(** the cost is quadratic in the length: "a/a/.../a/" with n segments costs n^2 *)
Lemma slash_prefix_cost_rep : forall n pos,
  slash_prefix_cost pos (rep_seg n) = N.of_nat n * pos + N.of_nat n * N.of_nat n.
Proof.
  induction n as [|n IH]; intros pos; cbn [rep_seg slash_prefix_cost].
  - change (N.of_nat 0) with 0. lia.
  - rewrite IH. rewrite Nat2N.inj_succ.
    replace (Ascii.eqb "a" "/") with false by reflexivity.
    replace (Ascii.eqb "/" "/") with true by reflexivity. lia.
Qed.

Lemma nonconflict_cost_quadratic n :
  nonconflict_cost (rep_seg n) = N.of_nat n * N.of_nat n /\ nlen (rep_seg n) = 2 * N.of_nat n.
Proof.
  split.
  - unfold nonconflict_cost. rewrite slash_prefix_cost_rep. lia.
  - induction n as [|n IH]; [reflexivity|]. cbn [rep_seg]. rewrite !nlen_cons, IH, Nat2N.inj_succ. lia.
Qed.

(* ------------------------------------------------------------------ *)
(** * 5. ContentPathsIter *)

Lemma vprev_ge2 dbg n w : 2 <= n -> vprev dbg (mkV n w) = Ok (mkV (n - 1) w).
Proof.
  intros H. unfold vprev, u32_pred. cbn [vn_number vn_width].
  replace (n =? 0) with false by lia. cbn [res_bind]. replace (n - 1 <? 1) with false by lia. reflexivity.
Qed.

(** the walk ends (no panic, bounded by the version number) whatever the padding width;
    it relies on [!=] comparing numbers only *)
Lemma cpi_walk_terminates dbg has : forall fuel n w,
  1 <= n -> n <= N.of_nat fuel + 1 ->
  exists r, cpi_walk vnum_eq_rust dbg fuel (mkV n w) has = Ok r /\
            match r with Some p => vn_number p < n /\ has (vn_number p) = true | None => True end.
Proof.
  induction fuel as [|f IH]; intros n w H1 H2.
  - change (N.of_nat 0) with 0 in H2. assert (n = 1) by lia. subst.
    exists None. split; [reflexivity|exact I].
  - rewrite Nat2N.inj_succ in H2. cbn [cpi_walk]. unfold vnum_eq_rust at 1. cbn [vn_number vn_v1].
    destruct (n =? 1) eqn:E.
    + exists None. split; [reflexivity|exact I].
    + rewrite vprev_ge2 by lia. cbn [unwrap vn_number].
      destruct (has (n - 1)) eqn:Hh.
      * exists (Some (mkV (n - 1) w)). split; [reflexivity|]. cbn [vn_number]. split; [lia|assumption].
      * destruct (IH (n - 1) w ltac:(lia) ltac:(lia)) as [r [Hr Hm]]. exists r. split; [exact Hr|].
        destruct r as [p|]; [|exact I]. destruct Hm. split; [lia|assumption].
Qed.

(** with a width-sensitive equality the same walk would panic at a padded v1 *)
Lemma cpi_walk_strict_eq_panics :
  cpi_walk vnum_eqb true 5 (mkV 2 3) (fun _ => false) = Panic /\
  cpi_walk vnum_eq_rust true 5 (mkV 2 3) (fun _ => false) = Ok None.
Proof. split; vm_compute; reflexivity. Qed.

(* ------------------------------------------------------------------ *)
(** * 6. IncrementalValidatorImpl::next *)

Lemma objs_dir ch : objs (TDir ch) = objs_list ch.
Proof.
  cbn [objs]. unfold objs_list. induction ch as [|x r IH]; [reflexivity|].
  cbn [flat_map]. now rewrite IH.
Qed.

Lemma tsize_dir ch : tsize (TDir ch) = S (S (lsize ch)).
Proof.
  cbn [tsize]. do 2 f_equal.
  all: unfold lsize; induction ch as [|x r IH]; [reflexivity|]; cbn [fold_right]; now rewrite IH.
Qed.

Lemma lsize_cons t l : lsize (t :: l) = (tsize t + lsize l)%nat.
Proof. reflexivity. Qed.

Lemma ssize_cons l s : ssize (l :: s) = (S (lsize l) + ssize s)%nat.
Proof. reflexivity. Qed.

(** the iterator yields exactly one element per object root / unreadable directory, in
    depth-first order - whatever the individual results are *)
Lemma iter_run_spec : forall fuel cur stack,
  (lsize cur + ssize stack < fuel)%nat ->
  iter_run fuel cur stack = objs_list cur ++ flat_map objs_list stack.
Proof.
  induction fuel as [|f IH]; intros cur stack Hf; [lia|].
  cbn [iter_run]. destruct cur as [|t rest].
  - destruct stack as [|c st]; [reflexivity|].
    rewrite ssize_cons in Hf. rewrite IH by (cbn [lsize fold_right] in *; lia). reflexivity.
  - rewrite lsize_cons in Hf. destruct t as [ok|ch| |].
    + cbn [tsize] in Hf. rewrite IH by lia. reflexivity.
    + rewrite tsize_dir in Hf. rewrite IH by (rewrite ssize_cons; lia).
      unfold objs_list at 3. cbn [flat_map]. rewrite objs_dir.
      fold (objs_list rest). rewrite <- app_assoc. reflexivity.
    + cbn [tsize] in Hf. rewrite IH by lia. reflexivity.
    + cbn [tsize] in Hf. rewrite IH by lia. reflexivity.
Qed.

Lemma objs_list_app a c : objs_list (a ++ c) = objs_list a ++ objs_list c.
Proof. unfold objs_list. apply flat_map_app. Qed.

(** an Err for one object (or an unreadable directory) does not stop the iteration *)
Lemma iterator_continues_after_err pre post item :
  item = TObj false \/ item = TBadDir ->
  exists it, (it = VResult false \/ it = VListErr) /\
  iter_run (S (lsize (pre ++ item :: post))) (pre ++ item :: post) [] =
    objs_list pre ++ it :: objs_list post.
Proof.
  intros H. rewrite iter_run_spec by (cbn [ssize fold_right]; lia).
  cbn [flat_map]. rewrite app_nil_r, objs_list_app.
  destruct H as [-> | ->].
  - exists (VResult false). split; [now left|]. reflexivity.
  - exists VListErr. split; [now right|]. reflexivity.
Qed.

Lemma iter_example :
  iter_run 100 [TObj true; TDir [TObj false; TLeaf; TDir [TBadDir; TObj true]]; TObj true] [] =
  [VResult true; VResult false; VListErr; VResult true; VResult true].
Proof. vm_compute. reflexivity. Qed.

(* ------------------------------------------------------------------ *)
(** * 7. Display of a version number *)

Lemma vparse_facts s v : vparse s = Ok v ->
  vn_width v + 1 <= blen s /\ 1 <= vn_number v /\ vn_number v <= U32MAX.
Proof.
  unfold vparse. destruct s as [|c ds]; [discriminate|].
  destruct (negb (Ascii.eqb c "v")); [discriminate|].
  destruct ds as [|d0 r]; [discriminate|].
  destruct (negb (forallb is_digit (d0 :: r))); [discriminate|].
  destruct (dec_value (d0 :: r)) as [n|]; [|discriminate].
  destruct (U32MAX <? n) eqn:E1; [discriminate|]. destruct (n <? 1) eqn:E2; [discriminate|].
  intros H. inversion H; subst. cbn [vn_width vn_number]. unfold blen.
  destruct (Ascii.eqb d0 "0"); cbn [List.length]; lia.
Qed.

Lemma vdisplay_length v :
  blen (vdisplay v) = 1 + N.max (vn_width v) (blen (dec_digits (vn_number v))).
Proof.
  unfold vdisplay, pad_left0, blen. cbn [List.length]. rewrite app_length, replicate_length. lia.
Qed.

Lemma dec_digits_u32 n : n <= U32MAX -> blen (dec_digits n) <= 10.
Proof.
  intros H. assert (L := dec_digits_length n 10 ltac:(lia)).
  unfold blen. change (N.of_nat 10) with 10 in L.
  assert (n < 10 ^ 10) by (change (10 ^ 10) with 10000000000; unfold U32MAX in H; lia).
  specialize (L H0). lia.
Qed.

(** what Display writes for a parsed key or head is no longer than the key itself (+ 10), and it
    takes at most that many [write_str] calls: no panic, cost linear in the input *)
Lemma vdisplay_linear s v : vparse s = Ok v ->
  blen (vdisplay v) <= blen s + 10 /\ vdisplay_writes v <= blen s + 1.
Proof.
  intros H. destruct (vparse_facts s v H) as (Hw & H1 & Hm).
  assert (D := dec_digits_u32 _ Hm). rewrite vdisplay_length. unfold vdisplay_writes. lia.
Qed.

Lemma vdisplay_wide_example :
  blen (vdisplay (mkV 1 65536)) = 65537 /\ vdisplay_writes (mkV 1 65536) = 65537.
Proof. split; vm_compute; reflexivity. Qed.

(* ------------------------------------------------------------------ *)
(** * 1b. the versions block: the set handed to validate_version_nums (serde.rs:619) *)

Lemma vset_insert_forall (P : vnum -> Prop) v : forall s, P v -> Forall P s -> Forall P (vset_insert v s).
Proof.
  induction s as [|x r IH]; intros Hv Hs; cbn [vset_insert]; [repeat constructor; assumption|].
  inversion Hs; subst.
  destruct (vn_number v <? vn_number x); [constructor; assumption|].
  destruct (vn_number v =? vn_number x); [assumption|]. constructor; auto.
Qed.

Lemma vset_insert_length v : forall s, (List.length (vset_insert v s) <= S (List.length s))%nat.
Proof.
  induction s as [|x r IH]; cbn [vset_insert List.length]; [lia|].
  destruct (vn_number v <? vn_number x); [cbn [List.length]; lia|].
  destruct (vn_number v =? vn_number x); cbn [List.length]; lia.
Qed.

Lemma versions_fold_nums (P : vnum -> Prop) : (forall k v, vparse k = Ok v -> P v) ->
  forall l nums keys e nums' keys' e' ab,
  versions_fold l nums keys e = (nums', keys', e', ab) -> Forall P nums ->
  Forall P nums' /\ (List.length nums' <= List.length nums + List.length l)%nat.
Proof.
  intros HP. induction l as [|[k bd] rest IH]; intros nums keys e nums' keys' e' ab H Hn; cbn [versions_fold] in H.
  - inversion H; subst. split; [assumption|lia].
  - assert (Hn1 : Forall P (match vparse k with Ok num => vset_insert num nums | _ => nums end) /\
                  (List.length (match vparse k with Ok num => vset_insert num nums | _ => nums end)
                   <= S (List.length nums))%nat).
    { destruct (vparse k) as [num| |] eqn:E; try (split; [assumption|lia]).
      split; [apply vset_insert_forall; eauto|apply vset_insert_length]. }
    destruct Hn1 as [Hn1 Hl1]. cbn [List.length].
    destruct bd.
    + apply IH in H; [|exact Hn1]. destruct H; split; [assumption|lia].
    + apply IH in H; [|exact Hn1]. destruct H; split; [assumption|lia].
    + inversion H; subst. split; [assumption|lia].
Qed.

(** for every "versions" object the loop of validate_version_nums returns normally and its cost
    is linear in the number of keys of the object; the E010 count is the one the model of the
    visitor records *)
Lemma versions_value_cost dbg l nums keys e ab : versions_value l = (nums, keys, e, ab) ->
  exists c, validate_version_nums dbg nums = Ok c /\
            c_errors c = vnums_cost (map vn_number nums) /\
            c_errors c <= 100 * nlen l /\ c_iters c <= 101 * nlen l.
Proof.
  unfold versions_value. destruct (versions_fold l [] [] []) as [[[n k] e0] ab0] eqn:F.
  intros H.
  assert (Hn : nums = n) by (destruct ab0; inversion H; reflexivity). subst n.
  destruct (versions_fold_nums (fun v => vn_number v <= U32MAX)
              (fun k v Hk => proj2 (proj2 (vparse_facts k v Hk))) _ _ _ _ _ _ _ _ F (Forall_nil _)) as [Hb Hlen].
  destruct (validate_version_nums_linear dbg nums Hb) as (c & Hc & L1 & L2 & L3).
  exists c. split; [exact Hc|]. split; [exact L3|].
  cbn [List.length] in Hlen. unfold nlen in *. lia.
Qed.

(* ------------------------------------------------------------------ *)
(** * corollaries in the form the property file states them *)

Lemma vnums_cost_zero_contiguous vs : incr_from 1 vs -> Forall (fun v => v <= U32MAX) vs ->
  vnums_cost vs = 0 -> vs = iota 1 (List.length vs).
Proof. intros Hs Hb H. exact (vnums_zero_contiguous vs 1 c0 Hs Hb H). Qed.

Lemma visit_args items st : run p0 items = inl st -> has_errors (snd (finish st)) = false ->
  exists id a h nums,
    p_id st = Some id /\ id <> [] /\ p_type st = true /\ p_alg st = Some a /\ alg_allowed a = true /\
    p_head st = Some h /\ p_manifest st = true /\ p_versions st = Some (nums, nums) /\
    vset_mem h nums = true /\
    (forall d, p_cdir st = Some d -> cdir_kind d = None) /\
    inventory_new id a h (p_cdir st) nums = Ok tt.
Proof. intros R. apply finish_args. exact (run_inv _ _ _ pinv_p0 R). Qed.

Lemma vnums_example :
  incr_from 1 [1; 2; 3; 5; 9] /\
  vnums_cost [1; 2; 3; 5; 9] = 4 /\
  validate_version_nums true [mkV 1 0; mkV 2 0; mkV 3 0; mkV 5 0; mkV 9 0] = Ok (mkC 4 9) /\
  validate_version_nums false [mkV 1 3; mkV 400000000 3; mkV U32MAX 0] = Ok (mkC 2 3) /\
  vnums_padding [mkV 1 0; mkV 2 2] = (true, false).
Proof. repeat split; try (vm_compute; reflexivity); cbn [incr_from]; lia. Qed.

Lemma cpi_example :
  cpi_walk vnum_eq_rust true 10 (mkV 5 3) (fun n => n =? 2) = Ok (Some (mkV 2 3)).
Proof. vm_compute. reflexivity. Qed.

(* ------------------------------------------------------------------ *)
(** * 8. is_uri: the guard of commit 389bfd0 keeps the panicking inputs away from uriparse *)

Lemma split_scheme_some s scheme : split_scheme s = Some scheme ->
  existsb is_colon s = true /\ scheme = take_until is_colon s.
Proof. unfold split_scheme. destruct (existsb is_colon s); [|discriminate]. intros H; inversion H; auto. Qed.

(** a value that passes the scheme test is outside the set on which the parser panics *)
Lemma uri_guard_safe s : uri_guard s = true -> uri_try_from_panics s = false.
Proof.
  unfold uri_guard. destruct (split_scheme s) as [scheme|] eqn:E; [|discriminate].
  apply split_scheme_some in E as [_ ->]. intros H. unfold uri_try_from_panics. cbv zeta.
  rewrite H. cbn [negb]. apply Bool.andb_false_r.
Qed.

(** and every value of that set fails the test *)
Lemma uri_panics_guarded s : uri_try_from_panics s = true -> uri_guard s = false.
Proof. intros H. destruct (uri_guard s) eqn:G; [|reflexivity]. apply uri_guard_safe in G. congruence. Qed.

Section IsUriFacts.
  Variable uri_ok : bytes -> bool.

  Lemma is_uri_exact s : is_uri uri_ok s = Ok (uri_guard s && uri_ok s).
  Proof.
    unfold is_uri, is_uri_run. destruct (uri_guard s) eqn:G; cbn [fst andb]; [|reflexivity].
    unfold uri_try_from. now rewrite (uri_guard_safe s G).
  Qed.

  Lemma is_uri_total s : is_uri uri_ok s <> Panic.
  Proof. rewrite is_uri_exact. discriminate. Qed.

  (** every call of the parser is made on a value on which it returns *)
  Lemma is_uri_calls_safe s : Forall (fun a => uri_try_from_panics a = false) (is_uri_calls uri_ok s).
  Proof.
    unfold is_uri_calls, is_uri_run. destruct (uri_guard s) eqn:G; cbn [snd]; constructor; [|constructor].
    now apply uri_guard_safe.
  Qed.

  (** a value without valid scheme is "not a URI" (W005 / W009) and the parser is not called *)
  Lemma is_uri_schemeless s : uri_guard s = false ->
    is_uri uri_ok s = Ok false /\ is_uri_calls uri_ok s = [].
  Proof. intros G. unfold is_uri, is_uri_calls, is_uri_run. rewrite G. split; reflexivity. Qed.

  (** in particular the whole formerly known class *)
  Lemma is_uri_former_class s : uri_try_from_panics s = true ->
    is_uri uri_ok s = Ok false /\ is_uri_calls uri_ok s = [] /\ is_uri_before_fix uri_ok s = Panic.
  Proof.
    intros H. destruct (is_uri_schemeless s (uri_panics_guarded s H)) as [A C].
    repeat split; try assumption. unfold is_uri_before_fix, uri_try_from. now rewrite H.
  Qed.

  (** the guard refuses nothing the parser could accept as long as the parser accepts only values
      with an RFC 3986 scheme: then is_uri = what the unguarded call answered where it returned *)
  Lemma is_uri_agrees_with_parser s :
    (uri_ok s = true -> uri_guard s = true) -> uri_try_from_panics s = false ->
    is_uri uri_ok s = is_uri_before_fix uri_ok s.
  Proof.
    intros H P. rewrite is_uri_exact. unfold is_uri_before_fix, uri_try_from. rewrite P. f_equal.
    destruct (uri_ok s); [rewrite H by reflexivity; reflexivity|apply Bool.andb_false_r].
  Qed.
End IsUriFacts.

Lemma uri_guard_examples :
  uri_guard (b ":") = false /\ uri_guard (b "1:x") = false /\ uri_guard (b "%3A:") = false /\
  uri_guard (b "-:x") = false /\ uri_guard (b "::") = false /\ uri_guard (b "") = false /\
  uri_guard (b "no colon") = false /\ uri_guard (b "a/b:c") = false /\
  uri_guard (b "urn:x") = true /\ uri_guard (b "a+.-1:x") = true /\ uri_guard (b "mailto:a@b") = true /\
  uri_try_from_panics (b ":") = true /\ uri_try_from_panics (b "1:x") = true /\
  uri_try_from_panics (b "%3A:") = true /\ uri_try_from_panics (b "urn:x") = false /\
  uri_try_from_panics (b "//h:1/p") = false /\ uri_try_from_panics (b "a/b:c") = false.
Proof. repeat split; vm_compute; reflexivity. Qed.
